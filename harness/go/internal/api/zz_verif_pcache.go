//go:build verif

package api

import (
	"context"
	"errors"
	"sort"
	"time"
	"unsafe"

	"github.com/VKCOM/statshouse/internal/data_model"
)

// Accessors for the C24 harness: drive the real pointsCache (get / loadCached / invalidate) with a
// scripted clock and a loader supplied by the harness, and read its state.

// VerifPCacheLoader is called by the real get in place of the ClickHouse loader.
// It returns the identity of the result (written into every row), its length, and whether to fail.
type VerifPCacheLoader func(key string, from, to int64) (rid int64, n int, fail bool)

type VerifPCache struct {
	c *pointsCache
	h *requestHandler
}

var errVerifLoader = errors.New("verif: loader failure")

func NewVerifPCache(approxMaxSize int, utcOffset int64, now func() time.Time, loader VerifPCacheLoader) *VerifPCache {
	l := func(_ context.Context, _ *requestHandler, pq *queryBuilder, lod data_model.LOD) ([]pSelectRow, error) {
		rid, n, fail := loader(pq.getOrBuildCacheKey(), lod.FromSec, lod.ToSec)
		if fail {
			return nil, errVerifLoader
		}
		rows := make([]pSelectRow, n)
		for i := range rows {
			rows[i].tag[0] = rid
			rows[i].tag[1] = int64(i)
		}
		return rows, nil
	}
	return &VerifPCache{
		c: newPointsCache(approxMaxSize, utcOffset, l, now),
		h: &requestHandler{Handler: &Handler{}},
	}
}

// rowsID: identity carried by the rows (-1: no rows, -2: rows of mixed identity)
func verifRowsID(rows []pSelectRow) int64 {
	if len(rows) == 0 {
		return -1
	}
	id := rows[0].tag[0]
	for i := range rows {
		if rows[i].tag[0] != id || rows[i].tag[1] != int64(i) {
			return -2
		}
	}
	return id
}

func (v *VerifPCache) Get(key string, from, to int64, avoidCache bool) (rid int64, n int, failed bool) {
	rows, err := v.c.get(context.Background(), v.h, &queryBuilder{cacheKey: key}, data_model.LOD{FromSec: from, ToSec: to}, avoidCache)
	if err != nil {
		return -1, len(rows), true
	}
	return verifRowsID(rows), len(rows), false
}

func (v *VerifPCache) LoadCached(key string, from, to int64) (found bool, rid int64, n int, valid bool) {
	rows, ok := v.c.loadCached(key, from, to)
	return rows != nil, verifRowsID(rows), len(rows), ok
}

func (v *VerifPCache) Invalidate(secs []int64) { v.c.invalidate(secs) }

type VerifPCacheRange struct {
	From, To     int64
	Rid          int64
	N            int
	LoadedAtNano int64
}
type VerifPCacheEntry struct {
	Key      string
	Ptr      unsafe.Pointer // keeps the entry alive so that a re-created entry never reuses the address
	Lru      int64
	RowsSize int
	Ranges   []VerifPCacheRange
}
type VerifPCacheSnap struct {
	Size    int
	Max     int
	Entries []VerifPCacheEntry // sorted by key
	Maps    [3]map[int64]int64 // copies
}

func (v *VerifPCache) Snapshot() VerifPCacheSnap {
	c := v.c
	c.cacheMu.RLock()
	defer c.cacheMu.RUnlock()
	s := VerifPCacheSnap{Size: c.size, Max: c.approxMaxSize}
	for k, e := range c.cache {
		ve := VerifPCacheEntry{Key: k, Ptr: unsafe.Pointer(e), Lru: e.lru.Load(), RowsSize: e.rowsSize}
		for tr, cr := range e.rows {
			ve.Ranges = append(ve.Ranges, VerifPCacheRange{From: tr.from, To: tr.to, Rid: verifRowsID(cr.rows), N: len(cr.rows), LoadedAtNano: cr.loadedAtNano})
		}
		sort.Slice(ve.Ranges, func(i, j int) bool {
			if ve.Ranges[i].From != ve.Ranges[j].From {
				return ve.Ranges[i].From < ve.Ranges[j].From
			}
			return ve.Ranges[i].To < ve.Ranges[j].To
		})
		s.Entries = append(s.Entries, ve)
	}
	sort.Slice(s.Entries, func(i, j int) bool { return s.Entries[i].Key < s.Entries[j].Key })
	for i := range s.Maps {
		s.Maps[i] = make(map[int64]int64, len(c.invalidatedAtNano.seconds[i]))
		for k, x := range c.invalidatedAtNano.seconds[i] {
			s.Maps[i][k] = x
		}
	}
	return s
}

// VerifPCacheConsts: the compiled constants the model copies.
func VerifPCacheConsts() []int64 {
	return []int64{int64(invalidateFrom), int64(invalidateLinger), maxEvictionSampleSize, steps[0], steps[1], steps[2]}
}

func VerifPCacheRoundTime(t, step, utcOffset int64) int64 { return roundTime(t, step, utcOffset) }
