//go:build verif

package api

import "github.com/VKCOM/statshouse/internal/data_model"

// VerifTsValues mirrors the fields of tsValues that tsValues.merge combines (C04 harness).
type VerifTsValues struct {
	Min, Max, Sum, Count, SumSquare, Cardinality float64
	Unique                                      data_model.ChUnique
	MergeCount                                  int
	MinHostArg, MaxHostArg                      int32
	MinHostVal, MaxHostVal                      float32
}

func (x VerifTsValues) in() tsValues {
	v := tsValues{min: x.Min, max: x.Max, sum: x.Sum, count: x.Count, sumsquare: x.SumSquare, cardinality: x.Cardinality,
		unique: x.Unique, mergeCount: x.MergeCount}
	v.minHost.Arg, v.minHost.Val = x.MinHostArg, x.MinHostVal
	v.maxHost.Arg, v.maxHost.Val = x.MaxHostArg, x.MaxHostVal
	return v
}

func verifOut(v tsValues) VerifTsValues {
	return VerifTsValues{Min: v.min, Max: v.max, Sum: v.sum, Count: v.count, SumSquare: v.sumsquare, Cardinality: v.cardinality,
		Unique: v.unique, MergeCount: v.mergeCount,
		MinHostArg: v.minHost.Arg, MinHostVal: v.minHost.Val, MaxHostArg: v.maxHost.Arg, MaxHostVal: v.maxHost.Val}
}

// VerifTsMerge runs the real tsValues.merge: a.merge(b), returns the new a.
func VerifTsMerge(a, b VerifTsValues) VerifTsValues {
	v := a.in()
	v.merge(b.in())
	return verifOut(v)
}
