//go:build verif

package api

import (
	"errors"
	"sort"

	"github.com/golang-jwt/jwt/v4"

	"github.com/VKCOM/statshouse/internal/format"
	"github.com/VKCOM/statshouse/internal/vkgo/vkuth"
)

// VerifAI wraps an accessInfo for the C30 correspondence harness.
type VerifAI struct{ ai accessInfo }

// VerifAccessView is the canonical (sorted) view of an accessInfo.
type VerifAccessView struct {
	User                                        string
	Service                                     bool
	Protected                                   []string
	Admin, Developer, ViewDefault, EditDefault  bool
	ViewPrefix, EditPrefix, ViewMetric, EditMetric []string
}

func verifKeys(m map[string]bool) []string {
	res := make([]string, 0, len(m))
	for k, v := range m {
		if v {
			res = append(res, k)
		}
	}
	sort.Strings(res)
	return res
}

func verifSet(xs []string) map[string]bool {
	m := map[string]bool{}
	for _, x := range xs {
		m[x] = true
	}
	return m
}

func (a *VerifAI) View() VerifAccessView {
	ai := a.ai
	return VerifAccessView{User: ai.user, Service: ai.service, Protected: ai.protectedPrefixes,
		Admin: ai.bitAdmin, Developer: ai.bitDeveloper, ViewDefault: ai.bitViewDefault, EditDefault: ai.bitEditDefault,
		ViewPrefix: verifKeys(ai.bitViewPrefix), EditPrefix: verifKeys(ai.bitEditPrefix),
		ViewMetric: verifKeys(ai.bitViewMetric), EditMetric: verifKeys(ai.bitEditMetric)}
}

func NewVerifAI(v VerifAccessView) *VerifAI {
	return &VerifAI{ai: accessInfo{user: v.User, service: v.Service, protectedPrefixes: v.Protected,
		bitAdmin: v.Admin, bitDeveloper: v.Developer, bitViewDefault: v.ViewDefault, bitEditDefault: v.EditDefault,
		bitViewPrefix: verifSet(v.ViewPrefix), bitEditPrefix: verifSet(v.EditPrefix),
		bitViewMetric: verifSet(v.ViewMetric), bitEditMetric: verifSet(v.EditMetric)}}
}

// VerifParseAccessToken runs the real parseAccessToken.
// mask: -1 = accepted; otherwise the jwt.ValidationError bits found in the error chain (0 = none, e.g. "empty access token");
// code: the HTTP status of the error; panicked: parseAccessToken panicked.
func VerifParseAccessToken(h *vkuth.JWTHelper, token string, protected []string, local, insecure bool) (a *VerifAI, mask int, code int, panicked bool) {
	defer func() {
		if r := recover(); r != nil {
			a, mask, code, panicked = nil, 0, 0, true
		}
	}()
	ai, err := parseAccessToken(h, token, protected, local, insecure)
	if err != nil {
		var he *httpError
		if errors.As(err, &he) {
			code = he.code
			mask = VerifJWTMask(he.err)
		}
		return nil, mask, code, false
	}
	return &VerifAI{ai: ai}, -1, 0, false
}

func VerifJWTMask(err error) int {
	var ve *jwt.ValidationError
	if errors.As(err, &ve) {
		return int(ve.Errors)
	}
	return 0
}

func (a *VerifAI) CanViewName(name string) bool { return a.ai.CanViewMetricName(name) }
func (a *VerifAI) CanView(m format.MetricMetaValue) bool { return a.ai.CanViewMetric(m) }
func (a *VerifAI) CanChangeByName(create bool, old, new_ format.MetricMetaValue) bool {
	return a.ai.canChangeMetricByName(create, old, new_)
}

// CanEdit returns the error text of CanEditMetric ("" = allowed).
func (a *VerifAI) CanEdit(create bool, old, new_ format.MetricMetaValue) string {
	if err := a.ai.CanEditMetric(create, old, new_); err != nil {
		return err.Error()
	}
	return ""
}
