//go:build verif

// Correspondence harness for C23 (API series cache, cache2). Each history drives the real cache2 inside a
// synctest bubble with a stub storage whose calls the harness releases one by one: one goroutine per Get,
// synctest.Wait() after every step, fake clock advanced only by explicit Tick steps. After every step the
// harness records the Gets that returned (load id of every returned slot) and a fingerprint of an
// in-package snapshot (runtime info, buckets, chunks, awaiters, cached load ids); the same history is
// replayed through the Coq model. Property oracles (placement, completeness, freshness, accounting,
// nobody left waiting) are evaluated here on the implementation's outputs only.
package api

import (
	"context"
	"errors"
	"fmt"
	"os"
	"sort"
	"strconv"
	"strings"
	"sync"
	"sync/atomic"
	"testing"
	"testing/synctest"
	"time"

	"github.com/VKCOM/statshouse/internal/data_model"
	"github.com/VKCOM/statshouse/internal/format"
	"github.com/VKCOM/statshouse/internal/promql"
	vu "github.com/VKCOM/statshouse/internal/verifutil"
)

const (
	vc2Unit  = 500 * time.Microsecond // model time unit
	vc2Sec   = 2000                   // units per second
	vc2Never = -(int64(1) << 50)
	vc2FP    = 2147483647
)

var vc2Dump = false

var errVerifCache2 = errors.New("verif: storage failure")

// watchdog state: the history being run and a step counter (real time; read by a goroutine outside the bubble)
var (
	vc2Progress atomic.Int64
	vc2Current  atomic.Pointer[vc2Hist]
	vc2CurOp    atomic.Pointer[vc2Op]
)

type vc2Op struct {
	kind  byte     // 'T' tick d | 'G' get | 'L' loaddone | 'I' invalidate | 'R' reset | 'S' setlimits | 'X' shutdown | 'C' cancel rid | 'B' invalidate pass begins | 'N' pass: next bucket
	a     [6]int64 // G: rid step key from to play | T: d | L: load | I: step | S: age max soft
	flag  bool     // G: force | L: ok
	times []int64
}

func (op *vc2Op) term() string {
	switch op.kind {
	case 'T':
		return "Tick " + vu.Z(op.a[0])
	case 'G':
		return fmt.Sprintf("Get %s %s %s %s %s %s %s", vu.Z(op.a[0]), vu.Z(op.a[1]), vu.Z(op.a[2]), vu.Z(op.a[3]), vu.Z(op.a[4]), vu.Z(op.a[5]), vu.B(op.flag))
	case 'L':
		return fmt.Sprintf("LoadDone %s %s", vu.Z(op.a[0]), vu.B(op.flag))
	case 'I':
		return fmt.Sprintf("Invalidate %s %s", vu.Z(op.a[0]), vu.ListZ(op.times))
	case 'R':
		return "Reset"
	case 'S':
		return fmt.Sprintf("SetLimits %s %s %s", vu.Z(op.a[0]), vu.Z(op.a[1]), vu.Z(op.a[2]))
	case 'C':
		return "Cancel " + vu.Z(op.a[0])
	case 'B':
		return fmt.Sprintf("InvBegin %s %s", vu.Z(op.a[0]), vu.ListZ(op.times))
	case 'N':
		return "InvNext"
	}
	return "Shutdown"
}

func (op *vc2Op) text() string {
	switch op.kind {
	case 'T':
		return fmt.Sprintf("T%d", op.a[0])
	case 'G':
		f := ""
		if op.flag {
			f = "!"
		}
		return fmt.Sprintf("G%d(s%d,k%d,%d..%d,p%d%s)", op.a[0], op.a[1], op.a[2], op.a[3], op.a[4], op.a[5], f)
	case 'L':
		if op.flag {
			return fmt.Sprintf("L%d", op.a[0])
		}
		return fmt.Sprintf("L%d:err", op.a[0])
	case 'I':
		return fmt.Sprintf("I(s%d,%v)", op.a[0], op.times)
	case 'R':
		return "R"
	case 'S':
		return fmt.Sprintf("S(%d,%d,%d)", op.a[0], op.a[1], op.a[2])
	case 'C':
		return fmt.Sprintf("C%d", op.a[0])
	case 'B':
		return fmt.Sprintf("IB(s%d,%v)", op.a[0], op.times)
	case 'N':
		return "IN"
	}
	return "X"
}

type vc2Load struct {
	id        int64
	step, key int64
	from, to  int64 // relative seconds
	rel       chan bool
	startSeq  int
	finishSeq int // 0 while in flight
	failed    bool
}

type vc2Req struct {
	op        vc2Op
	startSeq  int
	done      bool
	err       bool
	cancel    context.CancelFunc
	cancelled bool
}

type vc2Inval struct {
	step, cstart int64 // chunk start, relative seconds
	begin, seq   int   // the pass began in step begin and completed in step seq (equal for a one-step invalidate)
}

type vc2Result struct {
	rid int64
	res cache2Data
	err error
}

type vc2Hist struct {
	cs, col, row int64
	ops          []vc2Op
	obs          []string
	loads        []*vc2Load
	reqs         map[int64]*vc2Req
	invals       []vc2Inval
	fails        map[string]bool
	kinds        map[string]bool
	nowU         int64
	frozen       bool // a maxAge timer may be armed: the clock must not move (see checks/C23.json)
	shut         bool
	size         int // runtimeInfo().size() after the last step
	nextRid      int64
	lastBuckets  int
	minChunkLat  int64 // min lastAccessTime over attached chunks at the last snapshot (units), MaxInt64 if none
	wokenAged    int64 // maxAge of a SetLimits step that woke the trim goroutine, else 0
	limits       cache2Limits
	passActive   bool // an invalidation pass is being driven bucket by bucket
	stuck        bool // goroutines of the bubble were left blocked forever
}

func vc2FloorDiv(a, b int64) int64 {
	q := a / b
	if a%b != 0 && (a < 0) != (b < 0) {
		q--
	}
	return q
}

func vc2NRows(step, t, l int64) int {
	m := (vc2FloorDiv(t, step) + l) % 3
	if m < 0 {
		m += 3
	}
	if m == 0 {
		return 2
	}
	return 1
}

func (h *vc2Hist) inflight() []*vc2Load {
	var r []*vc2Load
	for _, l := range h.loads {
		if l.finishSeq == 0 {
			r = append(r, l)
		}
	}
	return r
}

func vc2Mix(acc, x int64) int64 {
	x %= vc2FP
	if x < 0 {
		x += vc2FP
	}
	return (acc*1000003 + x + 7) % vc2FP
}

// vc2RowsLoad: the load id carried by the rows of one slot, -1 for an empty slot, -2 if the rows are not
// exactly what the stub storage produced for (step, key, slot time t, that load)
func vc2RowsLoad(rows []tsSelectRow, step, key, tRel, baseSec int64) int64 {
	if len(rows) == 0 {
		return -1
	}
	l := rows[0].tag[0]
	if len(rows) != vc2NRows(step, tRel, l) {
		return -2
	}
	for j := range rows {
		r := &rows[j]
		if r.time != baseSec+tRel || r.tag[0] != l || r.tag[1] != int64(j) || r.tag[2] != key || r.tag[3] != step {
			return -2
		}
	}
	return l
}

func vc2RunHistory(cs int64, gen func(h *vc2Hist) *vc2Op) (h *vc2Hist) {
	h = &vc2Hist{cs: cs, reqs: map[int64]*vc2Req{}, fails: map[string]bool{}, kinds: map[string]bool{}, nextRid: 1}
	vc2Current.Store(h)
	defer func() {
		// synctest.Run panics when goroutines of the bubble stay blocked forever after the history ended:
		// "no request waits forever" / a loader that never finishes
		if e := recover(); e != nil {
			if !strings.Contains(fmt.Sprint(e), "deadlock") {
				panic(e)
			}
			h.stuck = true
			h.fails["cache2_goroutine_blocked_forever"] = true
		}
	}()
	synctest.Run(func() {
		base := time.Now()
		baseSec := base.Unix()
		if baseSec%86400 != 0 || base.Nanosecond() != 0 {
			panic("synctest clock origin is not a midnight")
		}
		rel := func(ns int64) int64 {
			if ns == 0 {
				return vc2Never
			}
			return (ns - baseSec*int64(time.Second)) / int64(vc2Unit)
		}
		rh := &requestHandler{Handler: &Handler{HandlerOptions: HandlerOptions{location: time.UTC}}}
		var mu sync.Mutex
		var results []vc2Result
		seq := 0
		loader := func(_ context.Context, _ *requestHandler, q *queryBuilder, lod data_model.LOD, ret [][]tsSelectRow, _ int) (int, error) {
			key, _ := strconv.ParseInt(strings.TrimPrefix(q.cacheKey, "k"), 10, 64)
			mu.Lock()
			ld := &vc2Load{id: int64(len(h.loads) + 1), step: lod.StepSec, key: key, from: lod.FromSec - baseSec, to: lod.ToSec - baseSec,
				rel: make(chan bool), startSeq: seq}
			h.loads = append(h.loads, ld)
			mu.Unlock()
			if int64(len(ret))*lod.StepSec != lod.ToSec-lod.FromSec {
				mu.Lock()
				h.fails["cache2_storage_call_shape"] = true
				mu.Unlock()
			}
			if ok := <-ld.rel; !ok {
				return 0, errVerifCache2
			}
			for i := range ret {
				t := ld.from + int64(i)*ld.step
				rows := make([]tsSelectRow, vc2NRows(ld.step, t, ld.id))
				for j := range rows {
					rows[j].time = baseSec + t
					rows[j].tag[0], rows[j].tag[1], rows[j].tag[2], rows[j].tag[3] = ld.id, int64(j), key, ld.step
				}
				ret[i] = rows
			}
			return len(ret), nil
		}
		c := newCache2(rh.Handler, int(cs), loader)
		h.col = int64(sizeofCache2DataCol)
		h.row = int64(sizeofCache2Row(&tsSelectRow{}))

		snapshot := func() (fp int64, actualSize, nBuckets, nChunks, nAw, nLoading int) {
			info := c.runtimeInfo()
			h.minChunkLat = int64(1) << 62
			acc := int64(1)
			for _, x := range []int{info.sizeS[0], info.sizeS[1], info.bucketCountS[0], info.bucketCountS[1], info.chunkSizeS[0], info.chunkSizeS[1], info.chunkCountS[0], info.chunkCountS[1]} {
				acc = vc2Mix(acc, int64(x))
			}
			acc = vc2Mix(acc, rel(info.minChunkAccessTime))
			if vc2Dump {
				fmt.Fprintf(os.Stderr, " info %+v minacc=%d\n", info, rel(info.minChunkAccessTime))
			}
			var steps []int64
			for d := range c.shards {
				steps = append(steps, int64(d/time.Second))
			}
			sort.Slice(steps, func(i, j int) bool { return steps[i] < steps[j] })
			type bk struct {
				step, key int64
				b         *cache2Bucket
			}
			var bs []bk
			for _, sp := range steps {
				shard := c.shards[time.Duration(sp)*time.Second]
				shard.mu.Lock()
				var part []bk
				for k, b := range shard.bucketM {
					key, _ := strconv.ParseInt(strings.TrimPrefix(k, "k"), 10, 64)
					part = append(part, bk{sp, key, b})
				}
				if shard.bucketL.len() != len(shard.bucketM) {
					h.fails["cache2_bucket_list_disagrees"] = true
				}
				shard.mu.Unlock()
				sort.Slice(part, func(i, j int) bool { return part[i].key < part[j].key })
				bs = append(bs, part...)
			}
			acc = vc2Mix(acc, int64(len(bs)))
			for _, x := range bs {
				b := x.b
				b.mu.Lock()
				if vc2Dump {
					fmt.Fprintf(os.Stderr, "  bucket s%d k%d lat=%d play=%d n=%d\n", x.step, x.key, rel(b.lastAccessTime), int64(b.playInterval/time.Second), len(b.chunks))
				}
				for _, v := range []int64{x.step, x.key, rel(b.lastAccessTime), int64(b.playInterval / time.Second), int64(len(b.chunks))} {
					acc = vc2Mix(acc, v)
				}
				if len(b.times) != len(b.chunks) {
					h.fails["cache2_bucket_index_disagrees"] = true
				}
				nBuckets++
				for i, ch := range b.chunks {
					ch.mu.Lock()
					if i < len(b.times) && b.times[i] != ch.start {
						h.fails["cache2_bucket_index_disagrees"] = true
					}
					startRel := ch.start/int64(time.Second) - baseSec
					if vc2Dump {
						fmt.Fprintf(os.Stderr, "   chunk s%d k%d start=%d loading=%d inv=%d lsa=%d lat=%d size=%d aw=%d data=%v\n", x.step, x.key, startRel, ch.loading, rel(ch.invalidatedAt), rel(ch.loadStartedAt), rel(ch.lastAccessTime), ch.size, len(ch.awaiters), ch.data != nil)
					}
					for _, v := range []int64{startRel, int64(ch.loading), rel(ch.invalidatedAt), rel(ch.loadStartedAt), rel(ch.lastAccessTime), int64(ch.size), int64(len(ch.awaiters))} {
						acc = vc2Mix(acc, v)
					}
					for _, a := range ch.awaiters {
						for _, v := range []int64{int64(a.loadStart), int64(a.loadEnd), int64(a.chunkOffset)} {
							acc = vc2Mix(acc, v)
						}
					}
					if ch.data != nil && ch.invalidatedAt != 0 {
						h.kinds["invalidated_cached"] = true
					}
					if ch.data == nil {
						acc = vc2Mix(acc, 0)
					} else {
						acc = vc2Mix(acc, 1)
						for i := range ch.data {
							acc = vc2Mix(acc, vc2RowsLoad(ch.data[i], x.step, x.key, startRel+int64(i)*x.step, baseSec))
						}
					}
					if l := rel(ch.lastAccessTime); l < h.minChunkLat {
						h.minChunkLat = l
					}
					nChunks++
					nAw += len(ch.awaiters)
					nLoading += ch.loading
					actualSize += ch.size
					ch.mu.Unlock()
				}
				b.mu.Unlock()
			}
			return acc, actualSize, nBuckets, nChunks, nAw, nLoading
		}

		var (
			passShard  *cache2Shard
			passStarts []int64
			passTimes  []int64
			passNow    int64
			passEnd    int64
			passBegin  int
			passStep   int64
		)
		ending := false
		for {
			var op *vc2Op
			if !ending {
				op = gen(h)
				if op == nil {
					ending = true
				}
			}
			if ending {
				if h.passActive {
					op = &vc2Op{kind: 'N'}
				} else if fl := h.inflight(); len(fl) > 0 {
					op = &vc2Op{kind: 'L', flag: true}
					op.a[0] = fl[0].id
				} else if !h.shut {
					op = &vc2Op{kind: 'X'}
				} else {
					break
				}
			}
			if op.kind == 'T' && (h.frozen || op.a[0] <= 0) {
				continue
			}
			vc2Progress.Add(1)
			vc2CurOp.Store(op)
			mu.Lock()
			seq++
			seqNow := seq
			mu.Unlock()
			switch op.kind {
			case 'T':
				time.Sleep(time.Duration(op.a[0]) * vc2Unit)
				h.nowU += op.a[0]
			case 'G':
				rid := op.a[0]
				ctx, cancel := context.WithCancel(context.Background())
				r := &vc2Req{op: *op, startSeq: seqNow, cancel: cancel}
				mu.Lock()
				h.reqs[rid] = r
				mu.Unlock()
				q := &queryBuilder{cacheKey: "k" + strconv.FormatInt(op.a[2], 10), play: int(op.a[5])}
				lod := data_model.LOD{Version: Version6, StepSec: op.a[1], FromSec: baseSec + op.a[3], ToSec: baseSec + op.a[4], Location: time.UTC}
				force := op.flag
				go func() {
					res, err := c.Get(ctx, rh, q, lod, force)
					mu.Lock()
					results = append(results, vc2Result{rid, res, err})
					mu.Unlock()
				}()
			case 'L':
				for _, ld := range h.loads {
					if ld.id == op.a[0] && ld.finishSeq == 0 {
						ld.finishSeq = seqNow
						ld.failed = !op.flag
						ld.rel <- op.flag
					}
				}
			case 'I':
				abs := make([]int64, len(op.times))
				for i, t := range op.times {
					abs[i] = baseSec + t
					h.invals = append(h.invals, vc2Inval{op.a[0], vc2FloorDiv(t, cs*op.a[0]) * cs * op.a[0], seqNow, seqNow})
				}
				c.invalidate(abs, op.a[0])
			case 'R':
				c.reset()
			case 'S':
				v := cache2Limits{maxAge: time.Duration(op.a[0]) * vc2Unit, maxSize: int(op.a[1]), maxSizeSoft: int(op.a[2])}
				n := v // what setLimits will store
				if n.maxSize <= 0 {
					n.maxSize, n.maxSizeSoft = 0, 0
				} else if n.maxSizeSoft <= 0 || n.maxSize <= n.maxSizeSoft {
					n.maxSizeSoft = int(0.8 * float64(n.maxSize))
				}
				if n != h.limits {
					woken := n.maxSizeSoft < h.size
					if woken && n.maxAge > 0 {
						h.wokenAged = op.a[0]
					}
					if woken {
						h.frozen = n.maxAge > 0
					} else if n.maxAge > 0 {
						h.frozen = true
					}
					h.limits = n
				}
				c.setLimits(v)
			case 'C':
				if r := h.reqs[op.a[0]]; r != nil && !r.done {
					r.cancelled = true
					h.kinds["cancelled_in_flight"] = true
				}
				if r := h.reqs[op.a[0]]; r != nil {
					r.cancel()
				}
			case 'B':
				// cache2.invalidate up to its first bucket: the harness re-enacts the four-line loop of
				// shard.invalidate with the real iterator functions so that other calls can run between buckets
				// (the code releases the shard lock there)
				shard := c.shards[time.Duration(op.a[0])*time.Second]
				var starts []int64
				for i, t := range op.times {
					t *= int64(time.Second)
					t += baseSec * int64(time.Second)
					if i == 0 || passEnd <= t {
						st := c.chunkStart(shard, t)
						passEnd = c.chunkEnd(shard, st)
						starts = append(starts, st)
					}
				}
				passShard, passStarts, passNow, passBegin, passTimes, passStep = shard, starts, time.Now().UnixNano(), seqNow, op.times, op.a[0]
				if b := shard.invalidateIteratorStart(); b != nil {
					b.invalidate(passStarts, passNow)
					h.passActive = true
				} else {
					h.passActive = false
				}
				if !h.passActive {
					for _, t := range passTimes {
						h.invals = append(h.invals, vc2Inval{passStep, vc2FloorDiv(t, cs*passStep) * cs * passStep, passBegin, seqNow})
					}
				}
			case 'N':
				if h.passActive {
					if b := passShard.invalidateIteratorNext(); b != nil {
						b.invalidate(passStarts, passNow)
						h.kinds["pass_bucket_step"] = true
					} else {
						h.passActive = false
						for _, t := range passTimes {
							h.invals = append(h.invals, vc2Inval{passStep, vc2FloorDiv(t, cs*passStep) * cs * passStep, passBegin, seqNow})
						}
					}
				}
			case 'X':
				c.shutdown().Wait()
				h.shut = true
				h.frozen = false
				h.limits = cache2Limits{}
			}
			synctest.Wait()

			// ---- observe ----
			mu.Lock()
			got := results
			results = nil
			mu.Unlock()
			sort.Slice(got, func(i, j int) bool { return got[i].rid < got[j].rid })
			var evs []string
			for _, g := range got {
				r := h.reqs[g.rid]
				r.done = true
				r.err = g.err != nil
				step, key, from, to, play := r.op.a[1], r.op.a[2], r.op.a[3], r.op.a[4], r.op.a[5]
				var ls []int64
				if g.err == nil {
					if int64(len(g.res)) != (to-from)/step {
						h.fails["cache2_answer_length"] = true
					}
					for i := range g.res {
						t := from + int64(i)*step
						l := vc2RowsLoad(g.res[i], step, key, t, baseSec)
						ls = append(ls, l)
						switch {
						case l == -1:
							h.fails["cache2_slot_missing"] = true // a successful answer with a slot nobody filled
						case l < 0 || int(l) > len(h.loads):
							h.fails["cache2_placement"] = true // rows of another slot, another query or nobody's
						default:
							ld := h.loads[l-1]
							if ld.step != step || ld.key != key || t < ld.from || t >= ld.to || ld.failed {
								h.fails["cache2_placement"] = true
							}
							if play == 0 && ld.finishSeq != 0 {
								cst := vc2FloorDiv(t, cs*step) * cs * step
								for _, iv := range h.invals {
									if iv.step == step && iv.cstart == cst && ld.finishSeq < iv.begin && iv.seq < r.startSeq {
										h.fails["cache2_stale_after_invalidate"] = true
									}
								}
							}
							if ld.startSeq == r.startSeq {
								h.kinds["own_load"] = true
							} else if ld.finishSeq != 0 && ld.finishSeq < r.startSeq {
								h.kinds["cache_hit"] = true
							} else {
								h.kinds["awaited"] = true
							}
						}
					}
				} else {
					h.kinds["get_failed"] = true
					if errors.Is(g.err, context.Canceled) {
						if !r.cancelled {
							h.fails["cache2_cancelled_without_cancel"] = true
						}
					} else if !errors.Is(g.err, errVerifCache2) {
						h.fails["cache2_foreign_error"] = true
					}
				}
				evs = append(evs, fmt.Sprintf("(%s,%s,%s)", vu.Z(g.rid), vu.B(g.err != nil), vu.ListZ(ls)))
			}
			if vc2Dump {
				fmt.Fprintf(os.Stderr, "STEP %d %s\n", len(h.ops), op.text())
			}
			fp, actual, nB, nC, nAw, nLoading := snapshot()
			info := c.runtimeInfo()
			h.size = info.size()
			h.ops = append(h.ops, *op)
			h.obs = append(h.obs, fmt.Sprintf("O [%s] %d", strings.Join(evs, ";"), fp))

			// ---- oracles on the implementation's own state ----
			// "memory accounting": the water levels equal what the structure holds, at every quiescent point
			if info.size() != actual {
				h.fails["cache2_size_accounting"] = true
			}
			if info.bucketCountS[0]+info.bucketCountS[1] != nB || info.chunkCountS[0]+info.chunkCountS[1] != nC ||
				info.chunkSizeS[0]+info.chunkSizeS[1] != nC*int(cs) {
				h.fails["cache2_count_accounting"] = true
			}
			if nB == 0 && (info.size() != 0 || info.chunkCountS[0]+info.chunkCountS[1] != 0) {
				h.fails["cache2_not_zero_when_empty"] = true
			}
			if nB == 0 && (op.kind == 'R' || op.kind == 'X') && (len(h.ops) > 3) {
				h.kinds["emptied"] = true
			}
			inflight := len(h.inflight())
			pending := 0
			for _, r := range h.reqs {
				if !r.done {
					pending++
				}
			}
			// "no request waits forever": a request can only be pending while a storage call is in flight,
			// awaiters and loading marks exist only while one is
			if inflight == 0 && (pending != 0 || nAw != 0 || nLoading != 0) {
				h.fails["cache2_waits_without_load"] = true
			}
			if nAw > 0 {
				h.kinds["awaiter_registered"] = true
			}
			if h.limits.maxSize != 0 && info.size() > h.limits.maxSize {
				h.fails["cache2_over_hard_limit_at_rest"] = true
			}
			if (op.kind == 'S' || op.kind == 'G' || op.kind == 'L') && nB < h.lastBuckets {
				h.kinds["trimmed"] = true
			}
			h.lastBuckets = nB
			if op.kind == 'S' && h.wokenAged > 0 {
				h.kinds["aged_trim"] = true
				if h.minChunkLat < h.nowU-h.wokenAged {
					// not a clause of C23: trimAged left a chunk older than maxAge behind (the removal loop skips the
					// chunks that follow a removed run); the model reproduces it (Model.rc_go)
					h.kinds["aged_chunk_survived_trimAged"] = true
				}
			}
			h.wokenAged = 0
		}
	})
	return h
}

func (h *vc2Hist) emit(o *vu.Out, label string) {
	var tt, xt []string
	for i := range h.ops {
		tt = append(tt, h.ops[i].term())
		xt = append(xt, h.ops[i].text())
	}
	input := fmt.Sprintf("cache2 %s cs=%d: %s", label, h.cs, strings.Join(xt, " "))
	term := fmt.Sprintf("CHist %d %d %d [%s] [%s]", h.cs, h.col, h.row, strings.Join(tt, "; "), strings.Join(h.obs, "; "))
	kinds := []string{"history"}
	for k := range h.kinds {
		kinds = append(kinds, k)
	}
	sort.Strings(kinds)
	nontrivial := h.kinds["awaited"] && h.kinds["cache_hit"] && h.kinds["invalidated_cached"]
	line := o.Case(input, term, nontrivial, kinds...)
	var fs []string
	for f := range h.fails {
		fs = append(fs, f)
	}
	sort.Strings(fs)
	for _, f := range fs {
		o.Fail(f, line, input)
	}
}

func vc2Script(ops []vc2Op) func(h *vc2Hist) *vc2Op {
	i := 0
	return func(h *vc2Hist) *vc2Op {
		if i >= len(ops) {
			return nil
		}
		i++
		return &ops[i-1]
	}
}

func vc2G(rid, step, key, from, to, play int64, force bool) vc2Op {
	return vc2Op{kind: 'G', a: [6]int64{rid, step, key, from, to, play}, flag: force}
}
func vc2T(d int64) vc2Op             { return vc2Op{kind: 'T', a: [6]int64{d}} }
func vc2L(l int64, ok bool) vc2Op    { return vc2Op{kind: 'L', a: [6]int64{l}, flag: ok} }
func vc2S(age, mx, soft int64) vc2Op { return vc2Op{kind: 'S', a: [6]int64{age, mx, soft}} }
func vc2I(step int64, times ...int64) vc2Op {
	return vc2Op{kind: 'I', a: [6]int64{step}, times: times}
}

// vc2Random: one random history
func vc2Random(r *vu.Rng) *vc2Hist {
	cs := int64(2 + r.Intn(3))
	steps := []int64{1, 1, 5}
	if r.Chance(15) {
		steps = []int64{1, 5, 15}
	}
	length := 15 + r.Intn(40)
	nkeys := 1 + r.Intn(3)
	splitPasses := r.Chance(35) // invalidation passes driven bucket by bucket, other calls in between
	mode := r.Intn(10)          // 0-5 no limits, 6-7 size limits, 8-9 limits with ageing episodes
	n := 0
	lastTick := true  // no Get since the last Tick: Gets must have pairwise distinct times (trim order), nothing else needs a tick
	var queue []vc2Op // ops that must follow immediately
	drawGet := func(h *vc2Hist) vc2Op {
		step := steps[r.Intn(len(steps))]
		d := cs * step
		// chunk grid around "now": old chunks are cacheable, recent and future ones are reloaded
		nowSec := h.nowU / vc2Sec
		c0 := vc2FloorDiv(nowSec, d) - int64(r.Intn(7)) + 1
		if r.Chance(25) {
			c0 = vc2FloorDiv(nowSec-16, d) - int64(r.Intn(3)) - 1
		}
		if r.Chance(60) {
			c0 = -2 - int64(r.Intn(4)) // a few hot chunks well in the past: hits, awaiters, invalidations
			if step != 1 {
				c0 = -8 - int64(r.Intn(3))
			}
		}
		from := c0*d + int64(r.Intn(int(cs)))*step
		slots := 1 + int64(r.Intn(int(3*cs)))
		if r.Chance(30) {
			slots = 1 + int64(r.Intn(int(cs)))
		}
		play := r.Pick(0, 0, 0, 0, 1, 1, 7)
		g := vc2G(h.nextRid, step, int64(1+r.Intn(nkeys)), from, from+slots*step, play, r.Chance(6))
		h.nextRid++
		return g
	}
	return vc2RunHistory(cs, func(h *vc2Hist) *vc2Op {
		if len(queue) > 0 {
			op := queue[0]
			queue = queue[1:]
			return &op
		}
		if n >= length || h.shut {
			return nil
		}
		n++
		if h.passActive && r.Chance(45) {
			return &vc2Op{kind: 'N'}
		}
		if r.Chance(4) {
			// cancel a request that is still waiting (or, rarely, any request)
			var pend []int64
			for id := int64(1); id < h.nextRid; id++ {
				if q := h.reqs[id]; q != nil && (!q.done || r.Chance(10)) {
					pend = append(pend, id)
				}
			}
			if len(pend) > 0 {
				op := vc2Op{kind: 'C'}
				op.a[0] = pend[r.Intn(len(pend))]
				return &op
			}
		}
		for {
			x := r.Intn(100)
			fl := h.inflight()
			switch {
			case x < 36:
				g := drawGet(h)
				if !lastTick && !h.frozen {
					queue = append(queue, g) // lastTick stays false: the queued Get follows the tick
					t := vc2T(2)
					return &t
				}
				if h.frozen && !lastTick {
					continue // the clock cannot move: a second Get at this instant would tie with the first in the trim order
				}
				lastTick = false
				return &g
			case x < 62:
				if len(fl) == 0 {
					continue
				}
				l := vc2L(fl[r.Intn(len(fl))].id, !r.Chance(12))
				return &l
			case x < 76:
				if h.frozen {
					continue
				}
				lastTick = true
				d := int64(2 * (1 + r.Intn(500)))
				if r.Chance(35) {
					d = int64(vc2Sec * (1 + r.Intn(25)))
				}
				t := vc2T(d)
				return &t
			case x < 86:
				if h.passActive {
					continue // one invalidator at a time (shard.invalidateIter is shared)
				}
				step := steps[r.Intn(len(steps))]
				d := cs * step
				var ts []int64
				t := (-2-int64(r.Intn(4)))*d + int64(r.Intn(int(d)))
				if step != 1 {
					t = (-8-int64(r.Intn(3)))*d + int64(r.Intn(int(d)))
				}
				if r.Chance(30) {
					t = vc2FloorDiv(h.nowU/vc2Sec, d)*d - int64(r.Intn(int(6*d)))
				}
				for k := 0; k < 1+r.Intn(4); k++ {
					ts = append(ts, t)
					t += int64(r.Intn(int(2 * d)))
				}
				op := vc2I(step, ts...)
				if splitPasses && r.Chance(70) {
					op.kind = 'B'
				}
				return &op
			case x < 89:
				return &vc2Op{kind: 'R'}
			case x < 98:
				if mode < 6 {
					continue
				}
				sz := int64(h.size)
				var mx, soft int64
				switch r.Intn(5) {
				case 0:
					mx = 0
				case 1:
					mx = sz + int64(r.Intn(3)-1)
				case 2:
					mx = sz/2 + 1
				case 3:
					mx, soft = sz*2+100, sz/2+int64(r.Intn(3))
				default:
					mx, soft = sz+5000, sz+int64(r.Intn(3)-1)
				}
				if mode >= 8 && !h.frozen && sz > 0 && r.Chance(50) {
					// ageing episode: maxAge set (odd number of half-milliseconds, never equal to an access time
					// difference) with the trim goroutine woken, then cleared again in the next step
					age := int64(2*r.Intn(40*vc2Sec) + 1)
					if r.Chance(50) {
						age = int64(2*r.Intn(2*vc2Sec) + 1)
					}
					mx2 := sz
					if r.Chance(50) {
						mx2 = sz * 4
					}
					queue = append(queue, vc2S(0, mx2, sz/3))
					op := vc2S(age, sz*5/4+1, sz-1)
					return &op
				}
				op := vc2S(0, mx, soft)
				return &op
			default:
				if n < length*2/3 {
					continue
				}
				return &vc2Op{kind: 'X'}
			}
		}
	})
}

func TestVerifCache2(t *testing.T) {
	outDir := os.Getenv("VERIF_OUT")
	if outDir == "" {
		t.Skip("VERIF_OUT not set")
	}
	seed, _ := strconv.ParseUint(os.Getenv("VERIF_SEED"), 10, 64)
	n := 200
	args := strings.Fields(os.Getenv("VERIF_ARGS"))
	for i := 0; i+1 < len(args); i++ {
		if args[i] == "-n" {
			n, _ = strconv.Atoi(args[i+1])
		}
	}
	r := vu.NewRng(seed)
	o := vu.NewOut(outDir)
	defer o.Close()

	// "no request waits forever" / quiescence: if a step does not come to rest within 40 s of real time (a
	// goroutine of the cache spins or a call never returns), the history so far is reported as a failing input
	go func() {
		last, since := int64(-1), time.Now()
		for {
			time.Sleep(time.Second)
			if p := vc2Progress.Load(); p != last {
				last, since = p, time.Now()
			} else if time.Since(since) > 40*time.Second {
				h, op := vc2Current.Load(), vc2CurOp.Load()
				if h == nil || op == nil {
					continue
				}
				var xt []string
				for i := range h.ops {
					xt = append(xt, h.ops[i].text())
				}
				input := fmt.Sprintf("cache2 wedged cs=%d: %s %s", h.cs, strings.Join(xt, " "), op.text())
				line := o.Case(input, "CHist 2 24 1456 [Tick (-1)] [O [] 0]", false, "wedged")
				o.Fail("cache2_step_never_comes_to_rest", line, input)
				o.Close()
				os.Exit(0)
			}
		}
	}()

	// directed histories
	// awaiter with an offset (TestCache2AwaiterOffset's schedule) + hit + invalidation + reload
	w1 := vc2RunHistory(4, vc2Script([]vc2Op{
		vc2T(2), vc2G(1, 1, 1, -40, -36, 0, false), vc2T(2), vc2G(2, 1, 1, -38, -36, 0, false), vc2L(1, true),
		vc2T(2), vc2G(3, 1, 1, -39, -37, 0, false), vc2I(1, -39), vc2T(2), vc2G(4, 1, 1, -40, -36, 0, false), vc2L(2, true),
		vc2T(2), vc2G(5, 1, 1, -40, -36, 0, false)}))
	w1.emit(o, "directed-awaiter-offset")
	// absorbed chunk between two loads, overlapping loads finishing out of order, failure
	w2 := vc2RunHistory(2, vc2Script([]vc2Op{
		vc2T(2), vc2G(1, 1, 1, -38, -36, 0, false), vc2T(2), vc2G(2, 1, 1, -40, -34, 0, false), vc2I(1, -38), vc2L(2, true), vc2L(1, false),
		vc2T(2), vc2G(3, 1, 1, -40, -34, 0, false), vc2L(3, true)}))
	w2.emit(o, "directed-absorb")
	// a request at the very instant of an invalidation (staleAcceptPeriod boundary) must reload; play=1 may not
	w3 := vc2RunHistory(4, vc2Script([]vc2Op{
		vc2G(1, 1, 1, -40, -36, 0, false), vc2L(1, true), vc2T(2), vc2I(1, -39), vc2G(2, 1, 1, -40, -36, 0, false), vc2L(2, true),
		vc2T(2), vc2G(3, 1, 1, -40, -36, 0, false), vc2I(1, -38), vc2T(1998), vc2G(4, 1, 1, -39, -37, 1, false), vc2T(2), vc2G(5, 1, 1, -39, -37, 1, false), vc2L(3, true)}))
	w3.emit(o, "directed-same-instant")
	// ageing: two old chunks, a used one, an old one in one bucket, then maxAge = 0.5 s with the trim goroutine woken
	pre := []vc2Op{vc2G(1, 1, 1, -12, -8, 0, false), vc2L(1, true), vc2T(2), vc2G(2, 1, 1, -6, -4, 0, false), vc2L(2, true),
		vc2T(4000), vc2G(3, 1, 1, -8, -6, 0, false), vc2L(3, true), vc2T(2)}
	k4 := 0
	w4 := vc2RunHistory(2, func(h *vc2Hist) *vc2Op {
		k4++
		switch {
		case k4 <= len(pre):
			return &pre[k4-1]
		case k4 == len(pre)+1:
			op := vc2S(1001, int64(h.size)*5/4+1, int64(h.size)-1)
			return &op
		case k4 == len(pre)+2:
			op := vc2S(0, int64(h.size)*4+8, 1)
			return &op
		}
		return nil
	})
	w4.emit(o, "directed-aged")
	// an invalidation pass stands between bucket k1 and k2 while the trimmer evicts k2 (the least recently used, the
	// bucket shard.invalidateIter points to); the pass must still reach k3, whose rows a later request must not get
	pre5 := []vc2Op{vc2G(1, 1, 1, -40, -36, 0, false), vc2L(1, true), vc2T(2), vc2G(2, 1, 2, -40, -36, 0, false), vc2L(2, true),
		vc2T(2), vc2G(3, 1, 3, -40, -36, 0, false), vc2L(3, true), vc2T(2), vc2G(4, 1, 1, -40, -36, 0, false),
		vc2T(2), vc2G(5, 1, 3, -40, -36, 0, false), vc2T(2), {kind: 'B', a: [6]int64{1}, times: []int64{-39}}}
	post5 := []vc2Op{{kind: 'N'}, {kind: 'N'}, vc2T(2), vc2G(6, 1, 3, -40, -36, 0, false), vc2T(2), vc2G(7, 1, 1, -40, -36, 0, false)}
	k5 := 0
	w5 := vc2RunHistory(4, func(h *vc2Hist) *vc2Op {
		k5++
		switch {
		case k5 <= len(pre5):
			return &pre5[k5-1]
		case k5 == len(pre5)+1:
			op := vc2S(0, int64(h.size), int64(h.size)-1) // one eviction brings the size under the soft limit
			return &op
		case k5 <= len(pre5)+1+len(post5):
			return &post5[k5-len(pre5)-2]
		}
		return nil
	})
	w5.emit(o, "directed-pass-vs-eviction")
	// a request cancelled while its storage call is in flight; a fresh request for the same chunk must be served
	w6 := vc2RunHistory(4, vc2Script([]vc2Op{
		vc2G(1, 1, 1, -40, -36, 0, false), {kind: 'C', a: [6]int64{1}}, vc2T(2), vc2G(2, 1, 1, -38, -36, 0, false), vc2L(1, true),
		vc2T(2), vc2G(3, 1, 1, -40, -32, 0, false), {kind: 'C', a: [6]int64{3}}, vc2T(2), vc2G(4, 1, 1, -34, -32, 0, false), vc2L(2, false), vc2T(2), vc2G(5, 1, 1, -40, -32, 0, false)}))
	w6.emit(o, "directed-cancel")
	vc2KeyCases(o, r)
	for i := 0; i < n; i++ {
		vc2Dump = os.Getenv("VERIF_C2_DUMP") == fmt.Sprintf("r%d", i)
		vc2Random(r).emit(o, fmt.Sprintf("r%d", i))
	}
}

// ---- the boundary between callers and the cache: which query a request is keyed by ----

type vc2KeyParams struct {
	metric   int32
	what     int // index into vc2Whats
	by       int // index into vc2Bys
	fin, fex int // index into vc2Filters
	sort     querySort
	mm       int // minMaxHost bits
}

var vc2Whats = []tsWhat{
	{promql.DigestCount.Selector()},
	{promql.DigestSum.Selector()},
	{promql.DigestCount.Selector(), promql.DigestSum.Selector()},
	{promql.DigestAvg.Selector(), promql.DigestCount.Selector(), promql.DigestMax.Selector(), promql.DigestMin.Selector(), promql.DigestSum.Selector(), promql.DigestStdDev.Selector(), promql.DigestCardinality.Selector()},
	{promql.DigestUnique.Selector()},
}
var vc2Bys = [][]int{nil, {1}, {2}, {1, 2}}

func vc2Filter(i int) (f data_model.TagFilters) {
	switch i {
	case 1:
		f.Tags[1].Values = data_model.TagValues{data_model.NewTagValue("a", 7)}
	case 2:
		f.Tags[1].Values = data_model.TagValues{data_model.NewTagValue("b", 8)}
	case 3:
		f.Tags[2].Values = data_model.TagValues{data_model.NewTagValue("a", 7)}
	}
	return f
}

func (p vc2KeyParams) builder() *queryBuilder {
	return &queryBuilder{
		metric:      &format.MetricMetaValue{MetricID: p.metric},
		what:        vc2Whats[p.what],
		by:          append([]int(nil), vc2Bys[p.by]...),
		filterIn:    vc2Filter(p.fin),
		filterNotIn: vc2Filter(p.fex),
		sort:        p.sort,
		minMaxHost:  [2]bool{p.mm&1 != 0, p.mm&2 != 0},
	}
}

func vc2KeyCases(o *vu.Out, r *vu.Rng) {
	const term = "CHist 2 24 1456 [] []"
	// (a) getOrBuildCacheKey: two queries get the same cache key exactly when they are the same query
	for n := 0; n < 40; n++ {
		draw := func() vc2KeyParams {
			return vc2KeyParams{metric: int32(1 + r.Intn(2)), what: r.Intn(len(vc2Whats)), by: r.Intn(len(vc2Bys)), fin: r.Intn(4), fex: r.Intn(4),
				sort: querySort(r.Intn(3)), mm: r.Intn(4)}
		}
		a := draw()
		b := a
		switch r.Intn(8) { // differ in exactly one component, or not at all
		case 0:
			b.what = (a.what + 1 + r.Intn(len(vc2Whats)-1)) % len(vc2Whats)
		case 1:
			b.by = (a.by + 1 + r.Intn(len(vc2Bys)-1)) % len(vc2Bys)
		case 2:
			b.fin = (a.fin + 1 + r.Intn(3)) % 4
		case 3:
			b.fex = (a.fex + 1 + r.Intn(3)) % 4
		case 4:
			b.sort = querySort((int(a.sort) + 1 + r.Intn(2)) % 3)
		case 5:
			b.metric = 3 - a.metric
		case 6:
			b.mm = (a.mm + 1 + r.Intn(3)) % 4
		}
		ka, kb := a.builder().getOrBuildCacheKey(), b.builder().getOrBuildCacheKey()
		input := fmt.Sprintf("cache2 keys %+v vs %+v", a, b)
		line := o.Case(input, term, a != b, "cache_key_pair")
		if (a == b) != (ka == kb) {
			o.Fail("distinct_queries_distinct_keys", line, input)
		}
		// the key is a function of the query at the time of the call: a builder whose query is changed must not
		// keep answering with the key of the old query ... unless it is a new builder (what callers must do)
	}
	// (b) the table handler: each function group (more than tsValueCount aggregates make several) is a query of its
	// own; through the real getTableFromLODs -> cache2.Get every group must get the rows the storage produced for it
	all := []promql.SelectorWhat{{Digest: promql.DigestAvg}, {Digest: promql.DigestCount}, {Digest: promql.DigestMax}, {Digest: promql.DigestMin},
		{Digest: promql.DigestSum}, {Digest: promql.DigestStdDev}, {Digest: promql.DigestCardinality}, {Digest: promql.DigestUnique}}
	for n := 0; n < 6; n++ {
		cnt := 8
		if n >= 4 {
			cnt = 3 + r.Intn(5) // a single group
		}
		whats := append([]promql.SelectorWhat(nil), all...)
		for i := len(whats) - 1; i > 0; i-- {
			j := r.Intn(i + 1)
			whats[i], whats[j] = whats[j], whats[i]
		}
		whats = whats[:cnt]
		nlods := 1 + r.Intn(2)
		input := fmt.Sprintf("cache2 table groups: %d aggregates %v, %d lods", cnt, whats, nlods)
		bad, calls, groups := vc2TableGroups(whats, nlods)
		line := o.Case(input, term, groups > 1, "table_groups")
		for _, f := range bad {
			o.Fail(f, line, input)
		}
		if calls == 0 {
			o.Fail("cache2_table_made_no_query", line, input)
		}
	}
}

func vc2TableGroups(whats []promql.SelectorWhat, nlods int) (bad []string, calls int, groups int) {
	loc := time.UTC
	h := &requestHandler{Handler: &Handler{HandlerOptions: HandlerOptions{location: loc}}}
	fails := map[string]bool{}
	c := newCache2(h.Handler, 0, func(_ context.Context, _ *requestHandler, q *queryBuilder, lod data_model.LOD, ret [][]tsSelectRow, _ int) (int, error) {
		for i := range ret {
			ret[i] = []tsSelectRow{{what: q.what, time: lod.FromSec + int64(i)*lod.StepSec, tsValues: tsValues{count: 1, min: 1, max: 1, sum: 1}}}
		}
		return len(ret), nil
	})
	defer c.shutdown()
	seen := map[tsWhat]bool{}
	load := func(ctx context.Context, h *requestHandler, pq *queryBuilder, lod data_model.LOD, avoidCache bool) ([][]tsSelectRow, error) {
		calls++
		seen[pq.what] = true
		data, err := c.Get(ctx, h, pq, lod, avoidCache)
		if err != nil {
			fails["cache2_table_get_failed"] = true
			return nil, err
		}
		for i := range data {
			if len(data[i]) != 1 || data[i][0].time != lod.FromSec+int64(i)*lod.StepSec {
				fails["cache2_table_placement"] = true
			} else if data[i][0].what != pq.what {
				fails["cache2_rows_of_another_query"] = true // the answer was keyed by another query than the one asked
			}
		}
		return data, nil
	}
	p := tableReqParams{
		req:            seriesRequest{numResults: 1000, what: whats},
		metricMeta:     &format.MetricMetaValue{},
		desiredStepMul: 1,
		location:       loc,
	}
	base := (time.Now().Add(-time.Hour).Unix() / 60) * 60
	var lods []data_model.LOD
	for i := 0; i < nlods; i++ {
		lods = append(lods, data_model.LOD{Version: Version6, FromSec: base + int64(i)*60, ToSec: base + int64(i)*60 + 10, StepSec: 1, Location: loc})
	}
	for n := 0; n < 2; n++ { // cold, then warm cache
		if _, _, err := h.getTableFromLODs(context.Background(), lods, p, load); err != nil {
			fails["cache2_table_failed"] = true
		}
	}
	for f := range fails {
		bad = append(bad, f)
	}
	sort.Strings(bad)
	return bad, calls, len(seen)
}
