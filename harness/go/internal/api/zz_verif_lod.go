//go:build verif

package api

import "time"

// Accessors for the C22 harness: the unexported time helpers of lod.go.

func VerifLodRoundTime(t, step, utcOffset int64) int64 { return roundTime(t, step, utcOffset) }
func VerifLodMathDiv(a, b int64) int64                 { return mathDiv(a, b) }
func VerifLodShiftTimestamp(ts, step, shift int64, loc *time.Location) int64 {
	return shiftTimestamp(ts, step, shift, loc)
}
func VerifLodCalcUTCOffset(loc *time.Location, weekStartsAt time.Weekday) int64 {
	return calcUTCOffset(loc, weekStartsAt)
}
