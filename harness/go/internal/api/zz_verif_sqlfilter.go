//go:build verif

package api

import (
	"strings"

	"github.com/VKCOM/statshouse/internal/data_model"
	"github.com/VKCOM/statshouse/internal/format"
)

// VerifSQL exposes the where-clause builder of queryBuilder to the C26 correspondence harness.
type VerifSQL struct{ b *queryBuilder }

func NewVerifSQL(metric *format.MetricMetaValue, by []int, in, notIn data_model.TagFilters) *VerifSQL {
	b := &queryBuilder{metric: metric, by: by, filterIn: in, filterNotIn: notIn, user: "verif", numResults: 5}
	b.what[0] = data_model.DigestSelector{What: data_model.DigestCount}
	return &VerifSQL{b: b}
}

// SetSelect chooses what the SELECT part of a series query computes (kinds are data_model.DigestWhat values 1..DigestLast-1).
func (v *VerifSQL) SetSelect(what []int, minMaxHost [2]bool, sort int, numResults int) {
	v.b.what = tsWhat{}
	for i, w := range what {
		if i < len(v.b.what) {
			v.b.what[i] = data_model.DigestSelector{What: data_model.DigestWhat(w)}
		}
	}
	v.b.minMaxHost = minMaxHost
	v.b.sort = querySort(sort)
	v.b.numResults = numResults
}

func (v *VerifSQL) PreKeyTagX() int { return v.b.preKeyTagX() }
func (v *VerifSQL) MetricID() int32 { return v.b.metricID() }

// Where returns exactly what writeWhere appends.
func (v *VerifSQL) Where(lod data_model.LOD, mode int) string {
	var sb strings.Builder
	v.b.writeWhere(&sb, &lod, queryBuilderMode(mode))
	return sb.String()
}

// Full returns the complete query text of the given mode (requires a non-nil metric).
func (v *VerifSQL) Full(lod data_model.LOD, mode int, tagIndex int, settings string) (string, error) {
	switch queryBuilderMode(mode) {
	case buildSeriesQuery:
		q, err := v.b.buildSeriesQuery(lod, settings)
		if err != nil {
			return "", err
		}
		return q.body, nil
	case buildTagValuesQuery:
		v.b.tag = v.b.metric.Tags[tagIndex]
		return v.b.buildTagValuesQuery(lod, settings).body, nil
	default:
		v.b.tag = v.b.metric.Tags[tagIndex]
		return v.b.buildTagValueIDsQuery(lod, settings).body, nil
	}
}

// VerifEscape is escapeReplacer.Replace.
func VerifEscape(s string) string { return escapeReplacer.Replace(s) }
