//go:build verif

package api

import (
	"context"
	"fmt"
	"math"
	"os"
	"runtime/debug"
	"strconv"
	"time"

	"github.com/hrissan/tdigest"

	"github.com/VKCOM/statshouse/internal/data_model"
	"github.com/VKCOM/statshouse/internal/format"
	"github.com/VKCOM/statshouse/internal/mappings_tracker"
	"github.com/VKCOM/statshouse/internal/metajournal"
	"github.com/VKCOM/statshouse/internal/promql"
)

// Accessors for the C25 correspondence harness (cmd/verif-table): drive the real getTableFromLODs with a
// stub loadPoints (as table_multilod_repro_test.go does), limitQueries and getHandlerWhat.

// VerifTRow is a tsSelectRow restricted to the fields the table code reads.
type VerifTRow struct {
	Time      int64
	Tag       [format.MaxTags]int64
	STag      [format.MaxTags]string
	ShardNum  uint32
	StagCount int
	Cnt, Sum  int64
	Min, Max  int64
	Pct, Card int64
}

func (v VerifTRow) ts() tsSelectRow {
	r := tsSelectRow{time: v.Time}
	r.tag = v.Tag
	r.stag = v.STag
	r.shardNum = v.ShardNum
	r.stagCount = v.StagCount
	r.count = float64(v.Cnt)
	r.sum = float64(v.Sum)
	r.min = float64(v.Min)
	r.max = float64(v.Max)
	r.cardinality = float64(v.Card)
	d := tdigest.New()
	d.Add(float64(v.Pct), 1)
	r.percentile = d
	return r
}

func verifFromTs(r tsSelectRow) VerifTRow {
	v := VerifTRow{Time: r.time, Tag: r.tag, STag: r.stag, ShardNum: r.shardNum, StagCount: r.stagCount,
		Cnt: int64(r.count), Sum: int64(r.sum), Min: int64(r.min), Max: int64(r.max), Card: int64(r.cardinality)}
	if r.percentile != nil {
		v.Pct = int64(r.percentile.Quantile(0.5))
	}
	return v
}

type VerifTableIn struct {
	Whats      []int // promql.DigestWhat values
	Lods       []data_model.LOD
	By         []string
	From, To   RowMarker
	FromEnd    bool
	NumResults int
	Desired    int64
	Store      func(pass, k int) [][]VerifTRow
}

type VerifTableRow struct {
	Row  VerifTRow
	Time int64
	Data []float64
	Repr RowMarker
}

func verifHandler() *requestHandler {
	loc, _ := time.LoadLocation("")
	return &requestHandler{Handler: &Handler{HandlerOptions: HandlerOptions{location: loc},
		mappingsStorage: &metajournal.MappingsStorage{}, mappingsTracker: mappings_tracker.New()}}
}

func verifWhats(ds []int) []promql.SelectorWhat {
	res := make([]promql.SelectorWhat, len(ds))
	for i, d := range ds {
		res[i] = promql.SelectorWhat{Digest: promql.DigestWhat(d)}
	}
	return res
}

// VerifHandlerWhat is getHandlerWhat: per function group the digests of sel and the 7 (What, Argument*1000) of qry.
func VerifHandlerWhat(ds []int) (sels [][]int, qrys [][][2]int64) {
	h := verifHandler()
	for _, w := range h.getHandlerWhat(verifWhats(ds)) {
		var s []int
		for _, x := range w.sel {
			s = append(s, int(x.Digest))
		}
		var q [][2]int64
		for _, x := range w.qry {
			q = append(q, [2]int64{int64(x.What), int64(math.Round(x.Argument * 1000))})
		}
		sels = append(sels, s)
		qrys = append(qrys, q)
	}
	return
}

// VerifRich is what the table code stores into rowRepr.SKey for a row with an empty string-top stag and tag[47]=v.
func VerifRich(v int64) string {
	h := verifHandler()
	return emptyToUnspecified(h.getRichTagValue(&format.MetricMetaValue{}, format.StringTopTagID, v))
}

// VerifGetTable runs the real getTableFromLODs; LOD k is recognised by Version = strconv.Itoa(k), the function
// group by its tsWhat. A run-time panic is returned as text.
func VerifGetTable(in VerifTableIn) (rows []VerifTableRow, hasMore bool, panicked string, err error) {
	h := verifHandler()
	loc := h.location
	lods := make([]data_model.LOD, len(in.Lods))
	for k, l := range in.Lods {
		l.Version = strconv.Itoa(k)
		l.Location = loc
		lods[k] = l
	}
	hw := h.getHandlerWhat(verifWhats(in.Whats))
	p := tableReqParams{
		req: seriesRequest{
			numResults: in.NumResults,
			what:       verifWhats(in.Whats),
			by:         in.By,
			fromRow:    in.From,
			toRow:      in.To,
			fromEnd:    in.FromEnd,
		},
		metricMeta:     &format.MetricMetaValue{},
		desiredStepMul: in.Desired,
		location:       loc,
	}
	load := func(_ context.Context, _ *requestHandler, pq *queryBuilder, lod data_model.LOD, _ bool) ([][]tsSelectRow, error) {
		pass := -1
		for i := range hw {
			if hw[i].qry == pq.what {
				pass = i
				break
			}
		}
		k, e := strconv.Atoi(lod.Version)
		if pass < 0 || e != nil {
			return nil, fmt.Errorf("verif: unknown pass/lod")
		}
		src := in.Store(pass, k)
		res := make([][]tsSelectRow, len(src))
		for i, g := range src {
			res[i] = make([]tsSelectRow, len(g))
			for j, r := range g {
				res[i][j] = r.ts()
			}
		}
		return res, nil
	}
	defer func() {
		if r := recover(); r != nil {
			panicked = fmt.Sprint(r)
			if os.Getenv("VERIF_STACK") != "" {
				panicked += string(debug.Stack())
			}
			rows = nil
		}
	}()
	qrows, more, err := h.getTableFromLODs(context.Background(), lods, p, load)
	if err != nil {
		return nil, false, "", err
	}
	for _, q := range qrows {
		d := make([]float64, len(q.Data))
		for i, x := range q.Data {
			d[i] = float64(x)
		}
		repr := q.rowRepr
		repr.Tags = append([]RawTag(nil), repr.Tags...)
		rows = append(rows, VerifTableRow{Row: verifFromTs(q.row), Time: q.Time, Data: d, Repr: repr})
	}
	return rows, more, "", nil
}

func VerifLimitQueries(groups [][]VerifTRow, from, to RowMarker, fromEnd bool, limit int) ([]VerifTRow, bool) {
	in := make([][]tsSelectRow, len(groups))
	for i, g := range groups {
		in[i] = make([]tsSelectRow, len(g))
		for j, r := range g {
			in[i][j] = r.ts()
		}
	}
	res, more := limitQueries(in, from, to, fromEnd, limit)
	out := make([]VerifTRow, len(res))
	for i, r := range res {
		out[i] = verifFromTs(r)
	}
	return out, more
}
