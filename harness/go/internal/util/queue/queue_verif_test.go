//go:build verif

// Correspondence harness for C29 (round-robin queue). Each history runs the real Queue inside a synctest
// bubble: one goroutine per Acquire, synctest.Wait() after every step, so that every step is one
// critical section and the set of calls that returned in it is observed exactly.
package queue

import (
	"context"
	"fmt"
	"os"
	"sort"
	"strconv"
	"strings"
	"sync"
	"testing"
	"testing/synctest"

	vu "github.com/VKCOM/statshouse/internal/verifutil"
)

type vqOp struct {
	kind byte // 'A' acquire tok, 'C' cancel qid, 'R' release, 'J' adjust n, 'X' cancel qid racing with a release
	arg  int64
}

func (op vqOp) text() string {
	if op.kind == 'R' {
		return "R"
	}
	return fmt.Sprintf("%c%d", op.kind, op.arg)
}

func (op vqOp) term() string {
	switch op.kind {
	case 'A':
		return "QAcquire " + vu.Z(op.arg)
	case 'C':
		return "QCancel " + vu.Z(op.arg)
	case 'R':
		return "QRelease"
	default:
		return "QAdjust " + vu.Z(op.arg)
	}
}

const (
	vqPending   = 0
	vqGranted   = 1
	vqCancelled = 2
)

// vqRun drives one history. next(i, h) yields the i-th op given the bookkeeping (nil = stop; the remaining
// pending calls are then cancelled one by one, as recorded steps).
type vqHist struct {
	max0      int64
	ops       []vqOp
	obs       []string
	texts     []string
	tokOf     []int64
	status    []int
	cancelReq []bool
	holders   int64 // calls that returned nil minus releases
	active    int64
	max       int64
	fails     map[string]bool
	kinds     map[string]bool
	// finding patterns (F-C29): the history lowered the capacity below the number of active queries /
	// raised it above while queries were waiting
	sawDecrease, sawIncrease bool
	protocolBroken           bool // Release without a holder was issued: property premises do not hold
	rr                       map[int64]map[int64]int
	// starvation bound: releases a user has seen while waiting unserved vs. users ahead of it when it queued
	sawAdjust    bool
	budget, seen map[int64]int
}

func (h *vqHist) pendingOf(tok int64) int {
	n := 0
	for q, t := range h.tokOf {
		if t == tok && h.status[q] == vqPending {
			n++
		}
	}
	return n
}

func (h *vqHist) pendingIDs() []int64 {
	var r []int64
	for q := range h.tokOf {
		if h.status[q] == vqPending {
			r = append(r, int64(q))
		}
	}
	return r
}

func vqRunHistory(max0 int64, gen func(h *vqHist, step int) *vqOp) *vqHist {
	h := &vqHist{max0: max0, max: max0, fails: map[string]bool{}, kinds: map[string]bool{}, rr: map[int64]map[int64]int{}, budget: map[int64]int{}, seen: map[int64]int{}}
	synctest.Run(func() {
		q := NewQueue(max0)
		var mu sync.Mutex
		var results []int // per qid: vqPending / vqGranted / vqCancelled, written by the Acquire goroutines
		var cancels []context.CancelFunc
		ending := false
		for step := 0; ; step++ {
			var op *vqOp
			if !ending {
				op = gen(h, step)
				if op == nil {
					ending = true
				}
			}
			if ending {
				p := h.pendingIDs()
				if len(p) == 0 {
					break
				}
				op = &vqOp{'C', p[0]}
			}
			// bookkeeping before the step (from what the harness issued and saw returning only)
			tokens := map[int64]bool{}
			for _, t := range h.tokOf {
				tokens[t] = true
			}
			pendBefore := map[int64]int{}
			for t := range tokens {
				pendBefore[t] = h.pendingOf(t)
			}
			totalPendBefore := len(h.pendingIDs())
			activeBefore := h.active
			switch op.kind {
			case 'A':
				qid := len(h.tokOf)
				h.tokOf = append(h.tokOf, op.arg)
				h.status = append(h.status, vqPending)
				h.cancelReq = append(h.cancelReq, false)
				ctx, cancel := context.WithCancel(context.Background())
				cancels = append(cancels, cancel)
				mu.Lock()
				results = append(results, vqPending)
				mu.Unlock()
				tok := "u" + strconv.FormatInt(op.arg, 10)
				go func() {
					err := q.Acquire(ctx, tok)
					mu.Lock()
					if err == nil {
						results[qid] = vqGranted
					} else {
						results[qid] = vqCancelled
					}
					mu.Unlock()
				}()
			case 'C':
				if op.arg >= 0 && int(op.arg) < len(cancels) {
					h.cancelReq[op.arg] = true
					cancels[op.arg]()
				}
			case 'R':
				if h.holders <= 0 {
					h.protocolBroken = true
				}
				h.holders--
				q.Release()
			case 'X':
				// the cancelled goroutine and this Release race for the mutex (no Wait in between): the
				// call returns nil if the Release granted it first (isClosed branch or the other select arm)
				h.cancelReq[op.arg] = true
				h.holders--
				cancels[op.arg]()
				q.Release()
			case 'J':
				h.sawAdjust = true
				if op.arg < h.active {
					h.sawDecrease = true
					h.kinds["capacity_below_active"] = true
				}
				if op.arg > h.active && totalPendBefore > 0 {
					h.sawIncrease = true
					h.kinds["capacity_raised_with_waiters"] = true
				}
				q.AdjustCapacity(uint64(op.arg))
			}
			synctest.Wait()
			// observe
			var evs []int64
			grantsBy := map[int64]int{}
			nGrants := int64(0)
			mu.Lock()
			for qid, r := range results {
				if r != vqPending && h.status[qid] == vqPending {
					h.status[qid] = r
					if r == vqGranted {
						evs = append(evs, 2*int64(qid))
						grantsBy[h.tokOf[qid]]++
						nGrants++
						h.holders++
					} else {
						evs = append(evs, 2*int64(qid)+1)
						if !h.cancelReq[qid] {
							h.fails["queue_error_without_cancel"] = true
						}
					}
				}
			}
			mu.Unlock()
			sort.Slice(evs, func(i, j int) bool { return evs[i] < evs[j] })
			active, max, order, users, consistent := q.VerifSnapshot()
			obsActive, _ := q.Observe()
			h.active, h.max = active, max
			var us []string
			nWaitingSnap := 0
			for _, u := range users {
				t, _ := strconv.ParseInt(strings.TrimPrefix(u.Token, "u"), 10, 64)
				us = append(us, fmt.Sprintf("%s;%s;%d", vu.Z(t), vu.Z(u.Order), u.N))
				nWaitingSnap += u.N
			}
			if op.kind == 'X' {
				// order the two critical sections by the outcome of the cancelled call
				h.kinds["race_cancel_release"] = true
				if h.status[op.arg] == vqCancelled {
					h.ops = append(h.ops, vqOp{'C', op.arg})
					h.kinds["race_cancel_first"] = true
				} else {
					h.ops = append(h.ops, vqOp{'R', 0})
					h.kinds["race_grant_first"] = true
				}
				h.obs = append(h.obs, "QU")
				h.texts = append(h.texts, op.text())
				if h.status[op.arg] == vqCancelled {
					h.ops = append(h.ops, vqOp{'R', 0})
				} else {
					h.ops = append(h.ops, vqOp{'C', op.arg})
				}
				h.texts = append(h.texts, "")
			} else {
				h.ops = append(h.ops, *op)
				h.texts = append(h.texts, op.text())
			}
			h.obs = append(h.obs, fmt.Sprintf("QO %s %s %s %s [%s]",
				vu.ListZ(evs), vu.Z(active), vu.Z(max), vu.Z(order), strings.Join(us, ";")))

			// ---- oracles of the property, on the implementation's observations only ----
			if !consistent {
				h.fails["queue_indexes_disagree"] = true
			}
			if obsActive != active {
				h.fails["queue_observe_disagrees"] = true
			}
			if h.protocolBroken {
				h.kinds["release_without_holder"] = true
				continue
			}
			// "never leaks capacity through cancellations": active == calls told they hold a slot - releases
			if active != h.holders {
				h.fails["queue_capacity_leak"] = true
			}
			if nWaitingSnap != len(h.pendingIDs()) {
				h.fails["queue_waiting_set_leak"] = true // a cancelled/granted query left in the queue, or a waiting one lost
			}
			// "never has more active queries than its capacity": a grant needs a free slot
			if nGrants > 0 {
				base := active - nGrants // active just before the first grant of this step
				if base >= max {
					if base > max && h.sawDecrease {
						// the pattern of finding F-C29a (fixed in /repo): reported like any other violation,
						// under its own oracle name so that known_findings.json can tell it apart
						h.kinds["F-C29a_grant_over_capacity"] = true
						h.fails["queue_grant_over_capacity_after_decrease"] = true
					} else {
						h.fails["queue_grant_over_capacity"] = true
					}
				}
			}
			if op.kind != 'J' && activeBefore <= max && active > max {
				h.fails["queue_active_exceeds_capacity"] = true
			}
			// "grants a waiting query whenever capacity frees": no quiescent state with a waiter and a free slot
			if len(h.pendingIDs()) > 0 && active < max {
				if h.sawIncrease {
					h.kinds["F-C29b_waiter_with_free_slot"] = true
					h.fails["queue_lost_wakeup_after_increase"] = true
				} else {
					h.fails["queue_lost_wakeup"] = true
				}
			}
			// "never grants a user twice while another user that was already waiting is still waiting"
			for b := range tokens {
				if pendBefore[b] > 0 && h.pendingOf(b) > 0 && grantsBy[b] == 0 {
					if h.rr[b] == nil {
						h.rr[b] = map[int64]int{}
					}
					for a, g := range grantsBy {
						if a == b {
							continue
						}
						h.rr[b][a] += g
						if h.rr[b][a] >= 2 {
							if h.sawIncrease {
								h.kinds["F-C29b_double_grant"] = true
								h.fails["queue_double_grant_after_increase"] = true
							} else {
								h.fails["queue_double_grant_past_waiter"] = true
							}
						}
					}
				} else {
					delete(h.rr, b)
				}
			}
			// round-robin fairness as a bound (constant capacity): a user that keeps waiting unserved sees at
			// most as many releases as there were users ahead of it when it queued / was last served
			if op.kind == 'A' {
				tokens[op.arg] = true // a user seen for the first time in this step
			}
			for b := range tokens {
				switch {
				case h.pendingOf(b) == 0:
					delete(h.budget, b)
					delete(h.seen, b)
				case pendBefore[b] == 0 || grantsBy[b] > 0:
					ahead := 0
					for _, u := range users {
						if u.Token == "u"+strconv.FormatInt(b, 10) {
							break
						}
						ahead++
					}
					h.budget[b], h.seen[b] = ahead, 0
				case op.kind == 'R' || op.kind == 'X':
					h.seen[b]++
					if !h.sawAdjust && h.seen[b] > h.budget[b] {
						h.fails["queue_starved_past_bound"] = true
					}
					if h.seen[b] == h.budget[b] && h.budget[b] >= 2 {
						h.kinds["waited_full_round"] = true
					}
				}
			}
			if nGrants > 0 && (op.kind == 'R' || op.kind == 'X') {
				h.kinds["grant_on_release"] = true
			}
			if op.kind == 'C' && len(evs) > 0 && !ending {
				h.kinds["cancel_of_waiter"] = true
			}
		}
	})
	return h
}

func (h *vqHist) emit(o *vu.Out, label string) {
	var ot, tt []string
	for i, op := range h.ops {
		if h.texts[i] != "" {
			ot = append(ot, h.texts[i])
		}
		tt = append(tt, op.term())
	}
	input := fmt.Sprintf("queue %s max=%d: %s", label, h.max0, strings.Join(ot, " "))
	term := fmt.Sprintf("CQueue %s [%s] [%s]", vu.Z(h.max0), strings.Join(tt, "; "), strings.Join(h.obs, "; "))
	kinds := []string{"queue"}
	for k := range h.kinds {
		kinds = append(kinds, k)
	}
	sort.Strings(kinds)
	nontrivial := h.kinds["grant_on_release"] && h.kinds["cancel_of_waiter"]
	line := o.Case(input, term, nontrivial, kinds...)
	var fs []string
	for f := range h.fails {
		fs = append(fs, f)
	}
	sort.Strings(fs)
	for _, f := range fs {
		o.Fail(f, line, input)
	}
}

func vqScript(ops []vqOp) func(h *vqHist, step int) *vqOp {
	return func(h *vqHist, step int) *vqOp {
		if step >= len(ops) {
			return nil
		}
		return &ops[step]
	}
}

func TestVerifQueue(t *testing.T) {
	outDir := os.Getenv("VERIF_OUT")
	if outDir == "" {
		t.Skip("VERIF_OUT not set")
	}
	seed, _ := strconv.ParseUint(os.Getenv("VERIF_SEED"), 10, 64)
	n := 300
	args := strings.Fields(os.Getenv("VERIF_ARGS"))
	for i := 0; i+1 < len(args); i++ {
		if args[i] == "-n" {
			n, _ = strconv.Atoi(args[i+1])
		}
	}
	r := vu.NewRng(seed)
	o := vu.NewOut(outDir)
	defer o.Close()

	// witnesses of finding F-C29 replayed on the real code
	// (a) 3 active, capacity lowered to 1, a new user is still admitted: 4 active with capacity 1
	wa := vqRunHistory(3, vqScript([]vqOp{{'A', 1}, {'A', 2}, {'A', 3}, {'J', 1}, {'A', 4}}))
	wa.emit(o, "witness-F-C29a")
	if wa.kinds["F-C29a_grant_over_capacity"] {
		o.Finding("F-C29a", "reproduced")
	} else {
		o.Finding("F-C29a", "gone")
	}
	// (b) capacity 1 taken, user 2 waits, capacity raised to 2: user 2 keeps waiting with a free slot,
	// and user 3 arriving later is admitted before it
	wb := vqRunHistory(1, vqScript([]vqOp{{'A', 1}, {'A', 2}, {'J', 2}, {'A', 3}}))
	wb.emit(o, "witness-F-C29b")
	if wb.kinds["F-C29b_waiter_with_free_slot"] {
		o.Finding("F-C29b", "reproduced")
	} else {
		o.Finding("F-C29b", "gone")
	}

	for i := 0; i < n; i++ {
		mode := r.Intn(20) // 0..9 constant capacity, 10..18 with capacity changes, 19 protocol violations too
		users := int64(2 + r.Intn(3))
		max0 := int64(r.Intn(4))
		if r.Chance(10) {
			max0 = int64(4 + r.Intn(3))
		}
		length := 12 + r.Intn(49)
		// real mutex races (cancel vs. release) make the rest of a history depend on the schedule: they are
		// confined to a third of the histories so that the other cases are reproducible from the seed alone
		raceMode := r.Chance(33)
		gen := func(h *vqHist, step int) *vqOp {
			if step >= length {
				return nil
			}
			for {
				x := r.Intn(100)
				switch {
				case x < 42:
					return &vqOp{'A', 1 + int64(r.Intn(int(users)))}
				case x < 64:
					if h.holders > 0 || (mode == 19 && r.Chance(30)) {
						return &vqOp{'R', 0}
					}
				case x < 70:
					if p := h.pendingIDs(); raceMode && h.holders > 0 && len(p) > 0 && mode != 19 {
						if r.Chance(60) {
							return &vqOp{'X', p[0]} // usually the oldest call: often the one the Release would grant
						}
						return &vqOp{'X', p[r.Intn(len(p))]}
					}
				case x < 88:
					p := h.pendingIDs()
					if len(p) > 0 && r.Chance(85) {
						return &vqOp{'C', p[r.Intn(len(p))]}
					}
					if len(h.tokOf) > 0 {
						return &vqOp{'C', int64(r.Intn(len(h.tokOf)))} // also cancels of calls that already returned
					}
				default:
					if mode >= 10 {
						// boundary-directed around the number of active queries
						c := h.active + int64(r.Intn(5)) - 2
						if r.Chance(30) {
							c = int64(r.Intn(5))
						}
						if c < 0 {
							c = 0
						}
						return &vqOp{'J', c}
					}
				}
			}
		}
		h := vqRunHistory(max0, gen)
		label := "const"
		if mode >= 10 {
			label = "adjust"
		}
		if mode == 19 {
			label = "unprotocol"
		}
		h.kinds["mode_"+label] = true
		h.emit(o, label)
	}
}
