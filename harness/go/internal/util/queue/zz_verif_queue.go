//go:build verif

package queue

import "math"

// VerifUser is one waiting user as the priority tree sees it.
type VerifUser struct {
	Token string
	Order int64
	N     int // waiting queries
}

// VerifSnapshot reads the whole state under the mutex: counters, the waiting users in priority order,
// and whether the two indexes (by name / by priority) describe the same set of users.
func (q *Queue) VerifSnapshot() (active, max, order int64, users []VerifUser, consistent bool) {
	q.mx.Lock()
	defer q.mx.Unlock()
	consistent = true
	q.waitingUsersByPriority.AscendGreaterOrEqual(&user{order: math.MinInt64}, func(i llrbItem) bool {
		u := i.(*user)
		users = append(users, VerifUser{Token: u.token, Order: u.order, N: u.qry.Len()})
		if q.waitingUsersByName[u.token] != u {
			consistent = false
		}
		return true
	})
	if len(users) != len(q.waitingUsersByName) || q.waitingUsersByPriority.Len() != len(users) {
		consistent = false
	}
	return q.activeQuery, q.maxActiveQuery, q.globalOrder, users, consistent
}
