//go:build verif

package queue

import "github.com/petar/GoLLRB/llrb"

type llrbItem = llrb.Item
