//go:build verif

package aggregator

import (
	"fmt"
	"time"

	"github.com/VKCOM/statshouse/internal/data_model"
	"github.com/VKCOM/statshouse/internal/data_model/gen2/tlstatshouse"
	"github.com/VKCOM/statshouse/internal/metajournal"
)

// C06 accessor (add-only; nothing in the package calls it): runs the real calcHostMetricBudgets on a bucket that
// only carries the per-metric per-host original sizes. The aggregator has no agent (a.sh2 == nil): the statistics
// that calcHostMetricBudgets reports after the sampler has run panic on it; all budgets are complete by then, the
// panic is recovered and reported.
func VerifCalcHostMetricBudgets(ms *metajournal.MetricsStorage, sampleNamespaces, sampleGroups, sampleKeys bool, budget int,
	sizes map[int32]map[data_model.TagUnion]uint32) (res map[data_model.TagUnion][]tlstatshouse.MetricBudget, panicked string) {
	configR := DefaultConfigAggregator().RemoteInitial
	configR.SampleNamespaces = sampleNamespaces
	configR.SampleGroups = sampleGroups
	configR.SampleKeys = sampleKeys
	configR.ReceiveSampleBudget = budget
	configR.ReceiveBudgetWarming = 0
	a := &Aggregator{
		metricStorage: ms,
		orgMetricSize: data_model.NewExpDecayMetrics(time.Minute),
	}
	b := newAggregatorBucket(1_000_000)
	for m, hs := range sizes {
		b.originalMetricSize[m] = map[data_model.TagUnion]uint32{}
		for h, s := range hs {
			b.originalMetricSize[m][h] = s
		}
	}
	res = map[data_model.TagUnion][]tlstatshouse.MetricBudget{}
	func() {
		defer func() {
			if e := recover(); e != nil {
				panicked = fmt.Sprint(e)
			}
		}()
		a.calcHostMetricBudgets(configR, b, res)
	}()
	return res, panicked
}
