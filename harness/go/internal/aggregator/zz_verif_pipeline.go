//go:build verif

package aggregator

import (
	"context"
	"net"
	"sort"
	"sync"
	"time"

	"github.com/VKCOM/tl/pkg/rpc"

	"github.com/VKCOM/statshouse/internal/agent"
	"github.com/VKCOM/statshouse/internal/data_model"
	"github.com/VKCOM/statshouse/internal/data_model/gen2/tlstatshouse"
	"github.com/VKCOM/statshouse/internal/metajournal"
	"github.com/VKCOM/statshouse/internal/vkgo/semaphore"
)

// VerifAgg is a hand-assembled Aggregator (C01): the real handleSendSourceBucket3, advanceRecentBuckets,
// popOldestHistoricBucket and goInsert run on it; requests arrive through a mock rpc connection
// (rpc.HandlerContext.ResetTo is the documented hook for server mock-ups), ClickHouse is an http test server.
type VerifAgg struct {
	A    *Aggregator
	Conn *VerifConn
}

// VerifAnswer: what one request finally got
type VerifAnswer struct {
	Answered bool // a response or an error was sent
	Err      bool // rpc error instead of a response
	Discard  bool
	Warning  string
}

// VerifConn implements rpc.HandlerContextConnection in memory
type VerifConn struct {
	mu       sync.Mutex
	next     int64
	pending  map[int64]rpc.LongpollCanceller // started long polls
	hctxOf   map[*rpc.HandlerContext]int64
	Answers  map[int64]VerifAnswer
	lastPoll int64 // query id of the last StartLongpoll, 0 = none
	failPoll bool
}

func newVerifConn() *VerifConn {
	return &VerifConn{pending: map[int64]rpc.LongpollCanceller{}, hctxOf: map[*rpc.HandlerContext]int64{}, Answers: map[int64]VerifAnswer{}}
}

func (c *VerifConn) StartLongpoll(hctx *rpc.HandlerContext, canceller rpc.LongpollCanceller) (rpc.LongpollHandle, error) {
	c.mu.Lock()
	defer c.mu.Unlock()
	if c.failPoll {
		return rpc.LongpollHandle{}, rpc.ErrLongpollNoEmptyResponse
	}
	c.next++
	c.pending[c.next] = canceller
	c.lastPoll = c.next
	return rpc.LongpollHandle{QueryID: c.next, CommonConn: c}, nil
}
func (c *VerifConn) CancelLongpoll(queryID int64) (rpc.LongpollCanceller, int64) {
	c.mu.Lock()
	defer c.mu.Unlock()
	cn := c.pending[queryID]
	delete(c.pending, queryID)
	return cn, 0
}
func (c *VerifConn) FinishLongpoll(lh rpc.LongpollHandle) (*rpc.HandlerContext, error) {
	c.mu.Lock()
	defer c.mu.Unlock()
	if _, ok := c.pending[lh.QueryID]; !ok {
		return nil, nil
	}
	delete(c.pending, lh.QueryID)
	h := &rpc.HandlerContext{}
	h.ResetTo(c, lh.QueryID)
	c.hctxOf[h] = lh.QueryID
	return h, nil
}
func (c *VerifConn) DebugName() string { return "verif" }
func (c *VerifConn) SendResponse(hctx *rpc.HandlerContext, err error) {
	c.mu.Lock()
	defer c.mu.Unlock()
	id, ok := c.hctxOf[hctx]
	if !ok {
		return
	}
	delete(c.hctxOf, hctx)
	a := VerifAnswer{Answered: true, Err: err != nil}
	if err == nil {
		var args tlstatshouse.SendSourceBucket3
		var resp tlstatshouse.SendSourceBucket3Response
		if _, e := args.ReadResultTL1(hctx.Response, &resp); e == nil {
			a.Discard = resp.IsSetDiscard()
			a.Warning = resp.Warning
		} else {
			a.Err = true
		}
	}
	c.Answers[id] = a
}
func (c *VerifConn) SendEmptyResponse(lh rpc.LongpollHandle)                  {}
func (c *VerifConn) AccountResponseMem(hctx *rpc.HandlerContext, n int) error { return nil }
func (c *VerifConn) ListenAddr() net.Addr                                     { return &net.TCPAddr{IP: net.IPv4(127, 0, 0, 1), Port: 1} }
func (c *VerifConn) LocalAddr() net.Addr                                      { return &net.TCPAddr{IP: net.IPv4(127, 0, 0, 1), Port: 1} }
func (c *VerifConn) RemoteAddr() net.Addr                                     { return &net.TCPAddr{IP: net.IPv4(127, 0, 0, 1), Port: 2} }
func (c *VerifConn) KeyID() [4]byte                                           { return [4]byte{} }
func (c *VerifConn) ProtocolVersion() uint32                                  { return rpc.LatestProtocolVersion }
func (c *VerifConn) ProtocolTransportID() byte                                { return 0 }
func (c *VerifConn) ConnectionID() uintptr                                    { return 1 }

// ClientGone: what the rpc server does when the client disconnects / cancels the long poll
func (c *VerifConn) ClientGone(queryID int64) {
	cn, _ := c.CancelLongpoll(queryID)
	if cn != nil {
		cn.CancelLongpoll(rpc.LongpollHandle{QueryID: queryID, CommonConn: c})
	}
}

func (c *VerifConn) Answer(id int64) VerifAnswer {
	c.mu.Lock()
	defer c.mu.Unlock()
	return c.Answers[id]
}

// NewVerifAgg: sh2 is a real agent (agent.MakeAgent without Run); window = recentBuckets [oldest, oldest+n)
func NewVerifAgg(sh2 *agent.Agent, shardKey, replicaKey int32, withoutCluster bool, denyOld bool, shortWindow int, khAddr string, oldest uint32, n int) *VerifAgg {
	cfg := DefaultConfigAggregator()
	cfg.KHAddr = khAddr
	cfg.DisableRemoteConfig = true
	cfg.RemoteInitial.ShortWindow = shortWindow
	cfg.RemoteInitial.DenyOldAgents = denyOld
	cfg.RemoteInitial.ClusterShardsAddrs = []string{"a", "b", "c"}
	a := &Aggregator{
		shardKey:        shardKey,
		replicaKey:      replicaKey,
		withoutCluster:  withoutCluster,
		bucketsToSend:   make(chan *aggregatorBucket),
		historicBuckets: map[uint32]*aggregatorBucket{},
		hostBudgetCache: map[data_model.TagUnion][]tlstatshouse.MetricBudget{},
		sh2:             sh2,
		config:          cfg,
		configR:         cfg.RemoteInitial,
		metricStorage:   metajournal.MakeMetricsStorage(nil),
		mappingsStorage: metajournal.MakeMappings(context.Background(), time.Second, false, 16, []*data_model.ChunkedStorage2{data_model.NewChunkedStorageNop()}),
		historicHosts: [2][2]map[data_model.TagUnion]int64{
			{map[data_model.TagUnion]int64{}, map[data_model.TagUnion]int64{}},
			{map[data_model.TagUnion]int64{}, map[data_model.TagUnion]int64{}}},
		orgMetricSize: data_model.NewExpDecayMetrics(cfg.RemoteInitial.OriginalSizeDecayHalfLife),
	}
	a.estimator.Init()
	a.tagsMapper3 = NewTagsMapper3(a, sh2, a.metricStorage, nil)
	for i := 0; i < n; i++ {
		a.recentBuckets = append(a.recentBuckets, newAggregatorBucket(oldest+uint32(i)))
	}
	return &VerifAgg{A: a, Conn: newVerifConn()}
}

func (v *VerifAgg) SetShortWindow(sw int) {
	v.A.configMu.Lock()
	v.A.configR.ShortWindow = sw
	v.A.configMu.Unlock()
}

func (v *VerifAgg) Shutdown() {
	v.A.mu.Lock()
	v.A.bucketsToSend = nil
	v.A.mu.Unlock()
}

// VerifRecv: outcome of one real handleSendSourceBucket3 call
type VerifRecv struct {
	Immediate bool  // answered by the handler itself
	Discard   bool  // …with discard
	PollID    int64 // long poll started (0 = none)
	Where     string
	Time      uint32 // time of the bucket the request was filed into
	Panic     string
}

func (v *VerifAgg) contribBuckets() (res []*aggregatorBucket, where []string) {
	for _, b := range v.A.recentBuckets {
		res = append(res, b)
		where = append(where, "recent")
	}
	for _, b := range v.A.historicBuckets {
		res = append(res, b)
		where = append(where, "historic")
	}
	return
}

// Recv drives the real handler with the given raw request body (what the rpc server hands to RawSendSourceBucket3)
func (v *VerifAgg) Recv(request []byte) (res VerifRecv) {
	hctx := &rpc.HandlerContext{}
	hctx.ResetTo(v.Conn, 0)
	hctx.Request = request
	v.Conn.mu.Lock()
	v.Conn.lastPoll = 0
	v.Conn.mu.Unlock()
	func() {
		defer func() {
			if r := recover(); r != nil {
				res.Panic = "panic"
			}
		}()
		_ = v.A.handleSendSourceBucket3(context.Background(), hctx)
	}()
	v.Conn.mu.Lock()
	res.PollID = v.Conn.lastPoll
	v.Conn.mu.Unlock()
	if res.PollID != 0 {
		// which bucket holds the long poll
		bs, where := v.contribBuckets()
		for i, b := range bs {
			b.mu.Lock()
			for lh := range b.contributors3 {
				if lh.QueryID == res.PollID {
					res.Where, res.Time = where[i], b.time
				}
			}
			b.mu.Unlock()
		}
		return res
	}
	if res.Panic != "" {
		return res
	}
	var args tlstatshouse.SendSourceBucket3
	var resp tlstatshouse.SendSourceBucket3Response
	if _, err := args.ReadResultTL1(hctx.Response, &resp); err == nil {
		res.Immediate = true
		res.Discard = resp.IsSetDiscard()
	}
	return res
}

// VerifRequest builds the request body the agent would send
func VerifRequest(t uint32, historic, spare bool, shardReplica int32, buildCommitTs uint32, data []byte) []byte {
	args := tlstatshouse.SendSourceBucket3{Time: t, BuildCommitTs: buildCommitTs}
	args.Header.ShardReplica = shardReplica
	args.Header.ShardReplicaTotal = 3
	args.Header.HostName = "verif-host"
	args.Header.AgentIp = [4]int32{0, 0, 0, 0x7f000001}
	args.SetHistoric(historic)
	args.SetSpare(spare)
	// data is a frame (4 bytes original size + compressed), as the agent keeps it
	if len(data) >= 4 {
		args.OriginalSize = uint32(data[0]) | uint32(data[1])<<8 | uint32(data[2])<<16 | uint32(data[3])<<24
		args.CompressedData = string(data[4:])
	}
	return args.WriteTL1(nil)
}

func (v *VerifAgg) RecentTimes() (res []uint32) {
	v.A.mu.Lock()
	defer v.A.mu.Unlock()
	for _, b := range v.A.recentBuckets {
		res = append(res, b.time)
	}
	return
}

func (v *VerifAgg) HistoricTimes() (res []uint32) {
	v.A.mu.Lock()
	defer v.A.mu.Unlock()
	for t := range v.A.historicBuckets {
		res = append(res, t)
	}
	sort.Slice(res, func(i, j int) bool { return res[i] < res[j] })
	return
}

// Advance: real advanceRecentBuckets at a given unix second; returns the ready buckets' times
func (v *VerifAgg) Advance(now uint32) (ready []uint32, readyBuckets []*VerifBucket) {
	for _, b := range v.A.advanceRecentBuckets(time.Unix(int64(now), 0), false) {
		ready = append(ready, b.time)
		readyBuckets = append(readyBuckets, &VerifBucket{b: b})
	}
	return
}

type VerifBucket struct{ b *aggregatorBucket }

func (b *VerifBucket) Time() uint32 { return b.b.time }
func (b *VerifBucket) Contributors() (ids []int64) {
	b.b.mu.Lock()
	defer b.b.mu.Unlock()
	for lh := range b.b.contributors3 {
		ids = append(ids, lh.QueryID)
	}
	sort.Slice(ids, func(i, j int) bool { return ids[i] < ids[j] })
	return
}

// SetRecentTimes replaces recentBuckets by empty buckets with the given times (for advanceRecentBuckets cases)
func (v *VerifAgg) SetRecentTimes(times []uint32) {
	v.A.mu.Lock()
	defer v.A.mu.Unlock()
	v.A.recentBuckets = nil
	for _, t := range times {
		v.A.recentBuckets = append(v.A.recentBuckets, newAggregatorBucket(t))
	}
}

func (v *VerifAgg) SetHistoricTimes(times []uint32) {
	v.A.mu.Lock()
	defer v.A.mu.Unlock()
	v.A.historicBuckets = map[uint32]*aggregatorBucket{}
	for _, t := range times {
		v.A.historicBuckets[t] = newAggregatorBucket(t)
	}
}

// PopHistoric: real popOldestHistoricBucket
func (v *VerifAgg) PopHistoric(oldest uint32) (popped int64, stale []uint32) {
	b, st := v.A.popOldestHistoricBucket(oldest)
	popped = -1
	if b != nil {
		popped = int64(b.time)
	}
	for _, s := range st {
		stale = append(stale, s.time)
	}
	sort.Slice(stale, func(i, j int) bool { return stale[i] < stale[j] })
	return
}

// InsertOnce: one real goInsert goroutine processes exactly one ready bucket (plus the historic buckets it takes)
func (v *VerifAgg) InsertOnce(b *VerifBucket, historicInserters int) {
	v.A.mu.Lock()
	v.A.config.HistoricInserters = historicInserters
	v.A.config.InsertHistoricWhen = 2
	v.A.mu.Unlock()
	ch := make(chan *aggregatorBucket)
	sema := semaphore.NewWeighted(1)
	_ = sema.Acquire(context.Background(), 1)
	done := make(chan struct{})
	go func() {
		v.A.goInsert(sema, context.Background(), ch, 0)
		close(done)
	}()
	ch <- b.b
	close(ch)
	<-done
}

// ---- the real goTicker / goInsert goroutines (time driven) ----

// InitRecentNow: what MakeAggregator does before starting the ticker
func (v *VerifAgg) InitRecentNow() { _ = v.A.advanceRecentBuckets(time.Now(), true) }

// RawHandler is what MakeAggregator registers as RawSendSourceBucket3
func (v *VerifAgg) RawHandler() func(ctx context.Context, hctx *rpc.HandlerContext) error {
	return v.A.handleSendSourceBucket3
}

// StartTicker runs the real goTicker. It returns when it next handles an own bucket after Shutdown().
func (v *VerifAgg) StartTicker() { go v.A.goTicker() }

// StartInserter runs one real goInsert on the aggregator's own conveyor (a.bucketsToSend)
func (v *VerifAgg) StartInserter() {
	sema := semaphore.NewWeighted(1)
	_ = sema.Acquire(context.Background(), 1)
	v.A.mu.Lock()
	ch := v.A.bucketsToSend
	v.A.mu.Unlock()
	go v.A.goInsert(sema, context.Background(), ch, 0)
}
