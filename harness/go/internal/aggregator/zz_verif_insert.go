//go:build verif

package aggregator

import (
	"context"
	"fmt"
	"net"
	"sync"
	"time"

	"github.com/VKCOM/tl/pkg/rpc"
	"pgregory.net/rand"

	"github.com/VKCOM/statshouse/internal/agent"
	"github.com/VKCOM/statshouse/internal/compress"
	"github.com/VKCOM/statshouse/internal/data_model"
	"github.com/VKCOM/statshouse/internal/data_model/gen2/tlmetadata"
	"github.com/VKCOM/statshouse/internal/data_model/gen2/tlstatshouse"
	"github.com/VKCOM/statshouse/internal/format"
	"github.com/VKCOM/statshouse/internal/metajournal"
)

// C03 accessors (add-only; nothing in the package calls them).

// metrics 101..107 carry every non-empty combination of skip_max_host (1), skip_min_host (2), skip_sum_square (4)
var verifInsStorage = func() *metajournal.MetricsStorage {
	ms := metajournal.MakeMetricsStorage(nil)
	var evs []tlmetadata.Event
	for i := 1; i < 8; i++ {
		data := fmt.Sprintf(`{"skip_max_host":%v,"skip_min_host":%v,"skip_sum_square":%v}`, i&1 != 0, i&2 != 0, i&4 != 0)
		evs = append(evs, tlmetadata.Event{Id: int64(100 + i), Name: fmt.Sprintf("verif_skip_%d", i), EventType: format.MetricEvent, Version: int64(i), Data: data})
	}
	ms.ApplyEvent(evs)
	return ms
}()

func verifInsCtx() appendContext {
	return appendContext{
		metricCache:       makeMetricCache(verifInsStorage),
		unknownTags:       map[string]createMappingExtra{},
		bucketUnknownTags: map[string]createMappingExtra{},
	}
}

// VerifInsSkips: (skipMaxHost, skipMinHost, skipSumSquare) the insert encoder uses for a metric
func VerifInsSkips(metricID int32) (bool, bool, bool) {
	return verifInsCtx().metricCache.skips(metricID)
}

// VerifInsKeys: the real appendKeys
func VerifInsKeys(k *data_model.Key, top data_model.TagUnion) []byte {
	return appendKeys(nil, k, top, verifInsCtx())
}

// VerifInsValue: the real multiValueMarshal
func VerifInsValue(seed uint64, metricID int32, v *data_model.MultiValue, sf float64) []byte {
	return multiValueMarshal(rand.New(seed), metricID, nil, v, sf, verifInsCtx())
}

// VerifInsValueAfter: the real multiValueMarshal of (metricID, v) in an insert whose metricIndexCache has just
// served the given other metrics (one appendContext for the whole sequence, as in rowDataMarshalAppendPositions)
func VerifInsValueAfter(seed uint64, before []int32, metricID int32, v *data_model.MultiValue, sf float64) []byte {
	ctx := verifInsCtx()
	rng := rand.New(seed + 1)
	for _, m := range before {
		_ = multiValueMarshal(rng, m, nil, v, sf, ctx)
	}
	return multiValueMarshal(rand.New(seed), metricID, nil, v, sf, ctx)
}

// VerifInsArgTag: the real appendArgMinMaxTag
func VerifInsArgTag(tag data_model.TagUnion, value float32) []byte {
	return appendArgMinMaxTag(nil, tag, value)
}

// ---- a hand-assembled aggregator for the body level (same construction as C01's, own names) ----

type verifInsConn struct {
	mu    sync.Mutex
	next  int64
	polls int
}

func (c *verifInsConn) StartLongpoll(hctx *rpc.HandlerContext, canceller rpc.LongpollCanceller) (rpc.LongpollHandle, error) {
	c.mu.Lock()
	defer c.mu.Unlock()
	c.next++
	c.polls++
	return rpc.LongpollHandle{QueryID: c.next, CommonConn: c}, nil
}
func (c *verifInsConn) CancelLongpoll(queryID int64) (rpc.LongpollCanceller, int64) { return nil, 0 }
func (c *verifInsConn) FinishLongpoll(lh rpc.LongpollHandle) (*rpc.HandlerContext, error) {
	return nil, nil
}
func (c *verifInsConn) DebugName() string                                        { return "verif-insert" }
func (c *verifInsConn) SendResponse(hctx *rpc.HandlerContext, err error)         {}
func (c *verifInsConn) SendEmptyResponse(lh rpc.LongpollHandle)                  {}
func (c *verifInsConn) AccountResponseMem(hctx *rpc.HandlerContext, n int) error { return nil }
func (c *verifInsConn) ListenAddr() net.Addr                                     { return &net.TCPAddr{IP: net.IPv4(127, 0, 0, 1), Port: 1} }
func (c *verifInsConn) LocalAddr() net.Addr                                      { return &net.TCPAddr{IP: net.IPv4(127, 0, 0, 1), Port: 1} }
func (c *verifInsConn) RemoteAddr() net.Addr                                     { return &net.TCPAddr{IP: net.IPv4(127, 0, 0, 1), Port: 2} }
func (c *verifInsConn) KeyID() [4]byte                                           { return [4]byte{} }
func (c *verifInsConn) ProtocolVersion() uint32                                  { return rpc.LatestProtocolVersion }
func (c *verifInsConn) ProtocolTransportID() byte                                { return 0 }
func (c *verifInsConn) ConnectionID() uintptr                                    { return 1 }

// VerifInsAggHost: host tag of the assembled aggregator (min/max host of the rows it writes about itself)
const VerifInsAggHost = 55

type VerifInsAgg struct {
	a    *Aggregator
	conn *verifInsConn
}

// NewVerifInsAgg: recentBuckets = [oldest, oldest+n)
func NewVerifInsAgg(sh2 *agent.Agent, replicaKey int32, oldest uint32, n int, topInsert int) *VerifInsAgg {
	cfg := DefaultConfigAggregator()
	cfg.RemoteInitial.ClusterShardsAddrs = []string{"a", "b", "c"}
	if topInsert > 0 {
		cfg.RemoteInitial.StringTopCountInsert = topInsert
	}
	a := &Aggregator{
		shardKey:        1,
		replicaKey:      replicaKey,
		withoutCluster:  true,
		bucketsToSend:   make(chan *aggregatorBucket),
		historicBuckets: map[uint32]*aggregatorBucket{},
		hostBudgetCache: map[data_model.TagUnion][]tlstatshouse.MetricBudget{},
		sh2:             sh2,
		config:          cfg,
		configR:         cfg.RemoteInitial,
		metricStorage:   verifInsStorage, // metrics 101..107 with skip flags, nothing else
		mappingsStorage: metajournal.MakeMappings(context.Background(), time.Second, false, 16, []*data_model.ChunkedStorage2{data_model.NewChunkedStorageNop()}),
		historicHosts: [2][2]map[data_model.TagUnion]int64{
			{map[data_model.TagUnion]int64{}, map[data_model.TagUnion]int64{}},
			{map[data_model.TagUnion]int64{}, map[data_model.TagUnion]int64{}}},
		orgMetricSize: data_model.NewExpDecayMetrics(cfg.RemoteInitial.OriginalSizeDecayHalfLife),
	}
	a.estimator.Init()
	a.aggregatorHostTag = data_model.TagUnion{I: VerifInsAggHost}
	a.tagsMapper3 = NewTagsMapper3(a, sh2, a.metricStorage, nil)
	for i := 0; i < n; i++ {
		a.recentBuckets = append(a.recentBuckets, newAggregatorBucket(oldest+uint32(i)))
	}
	return &VerifInsAgg{a: a, conn: &verifInsConn{}}
}

// VerifInsRequest: the request body an agent named host would send for second t with the given rows
func VerifInsRequest(t uint32, host string, shardReplica int32, items []tlstatshouse.MultiItem) []byte {
	sb := tlstatshouse.SourceBucket3{Metrics: items}
	data := compress.CompressAndFrame(sb.WriteTL1Boxed(nil))
	args := tlstatshouse.SendSourceBucket3{Time: t, BuildCommitTs: format.LeastAllowedAgentCommitTs + 1}
	args.Header.ShardReplica = shardReplica
	args.Header.ShardReplicaTotal = 3
	args.Header.HostName = host
	args.Header.AgentIp = [4]int32{0, 0, 0, 0x7f000001}
	args.OriginalSize = uint32(data[0]) | uint32(data[1])<<8 | uint32(data[2])<<16 | uint32(data[3])<<24
	args.CompressedData = string(data[4:])
	return args.WriteTL1(nil)
}

// Recv drives the real handleSendSourceBucket3; true = the request was accepted (a long poll was started)
func (v *VerifInsAgg) Recv(request []byte) (accepted bool, panicked bool) {
	hctx := &rpc.HandlerContext{}
	hctx.ResetTo(v.conn, 0)
	hctx.Request = request
	before := v.conn.polls
	func() {
		defer func() {
			if r := recover(); r != nil {
				panicked = true
			}
		}()
		_ = v.a.handleSendSourceBucket3(context.Background(), hctx)
	}()
	return v.conn.polls > before, panicked
}

// Items: number of MultiItems in recent bucket i, and of those with a non-negative metric
func (v *VerifInsAgg) Items(i int) (all int, user int) {
	b := v.a.recentBuckets[i]
	for si := range b.shards {
		for _, it := range b.shards[si].MultiItems {
			all++
			if it.Key.Metric >= 0 {
				user++
			}
		}
	}
	return
}

// Body: the real rowDataMarshalAppendPositions over recent bucket i alone
func (v *VerifInsAgg) Body(i int, seed uint64) []byte {
	b := v.a.recentBuckets[i]
	res, _, _, _ := v.a.rowDataMarshalAppendPositions([]*aggregatorBucket{b}, data_model.SamplerBuffers{}, rand.New(seed), nil)
	return res
}
