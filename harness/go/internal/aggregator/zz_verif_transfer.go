//go:build verif

package aggregator

import (
	"github.com/VKCOM/statshouse/internal/agent"
	"github.com/VKCOM/statshouse/internal/data_model"
	"github.com/VKCOM/statshouse/internal/data_model/gen2/tlstatshouse"
)

// C02 accessor (add-only; nothing in the package calls it).

// VerifTransferRow: one MultiItem the real handler created, with the time of the aggregator bucket holding it
type VerifTransferRow struct {
	Item       *data_model.MultiItem
	BucketTime uint32
}

// VerifTransferViaHandler sends items as the bucket of second t of agent `host` to a fresh aggregator (shard 1,
// the given replica key, recent buckets [t, t+3)) through the real handleSendSourceBucket3 (request bytes,
// decompression, bucket selection, key reconstruction, row filing, merge) and returns the rows with a positive
// metric id found in its buckets afterwards. Built on the C03 accessors (NewVerifInsAgg, VerifInsRequest, Recv).
func VerifTransferViaHandler(sh2 *agent.Agent, replicaKey int32, t uint32, host string, items []tlstatshouse.MultiItem) (rows []VerifTransferRow, accepted bool, panicked bool) {
	v := NewVerifInsAgg(sh2, replicaKey, t, 3, 0)
	accepted, panicked = v.Recv(VerifInsRequest(t, host, replicaKey-1, items))
	for _, b := range v.a.recentBuckets {
		for si := range b.shards {
			for _, it := range b.shards[si].MultiItems {
				if it.Key.Metric > 0 {
					rows = append(rows, VerifTransferRow{Item: it, BucketTime: b.time})
				}
			}
		}
	}
	for _, b := range v.a.historicBuckets {
		for si := range b.shards {
			for _, it := range b.shards[si].MultiItems {
				if it.Key.Metric > 0 {
					rows = append(rows, VerifTransferRow{Item: it, BucketTime: b.time})
				}
			}
		}
	}
	return rows, accepted, panicked
}
