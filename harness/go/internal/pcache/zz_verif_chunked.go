//go:build verif

package pcache

import "sort"

// Accessors for the C21 correspondence harness (read-only views of MappingsCache internals).

type VerifItem struct {
	Str   string
	Value int32
	TS    uint32
}

func (c *MappingsCache) VerifSetDeterministic(d bool) {
	c.modifyMu.Lock()
	c.deterministic = d
	c.modifyMu.Unlock()
}

// VerifDump returns the whole map sorted by string, with sumSize and sumTS.
func (c *MappingsCache) VerifDump() (items []VerifItem, sumSize int64, sumTS int64) {
	c.mu.RLock()
	defer c.mu.RUnlock()
	for k, v := range c.cache {
		items = append(items, VerifItem{Str: k, Value: v.value, TS: v.accessTS})
	}
	sort.Slice(items, func(i, j int) bool { return items[i].Str < items[j].Str })
	return items, c.sumSize, c.sumTS
}

// VerifResetItemCache forgets the candidate list of the previous AddValues/RemoveByTTL.
func (c *MappingsCache) VerifResetItemCache() {
	c.modifyMu.Lock()
	c.itemCache = nil
	c.modifyMu.Unlock()
}

// VerifItemCache returns the candidate list the last AddValues (slow path) / RemoveByTTL left behind, in its order.
func (c *MappingsCache) VerifItemCache() (items []VerifItem) {
	c.modifyMu.Lock()
	defer c.modifyMu.Unlock()
	for _, p := range c.itemCache {
		items = append(items, VerifItem{Str: p.str, Value: p.val.value, TS: p.val.accessTS})
	}
	return items
}

func VerifElementSizeMem(s string) int64 { return elementSizeMem(s) }

// VerifModifyLocked reports whether a modifier (AddValues/RemoveByTTL/Save) currently holds modifyMu.
func (c *MappingsCache) VerifModifyLocked() bool {
	if c.modifyMu.TryLock() {
		c.modifyMu.Unlock()
		return false
	}
	return true
}

// VerifMuFree reports whether c.mu is held by nobody at this instant (neither read- nor write-locked).
func (c *MappingsCache) VerifMuFree() bool {
	if c.mu.TryLock() {
		c.mu.Unlock()
		return true
	}
	return false
}
