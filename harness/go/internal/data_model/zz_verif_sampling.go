//go:build verif

package data_model

import "pgregory.net/rand"

// Accessors for the C05/C06 correspondence harness: the real (unexported) random selector and rounder.

func VerifSelectRandom(s []SamplingMultiItemPair, sf float64, r *rand.Rand) int {
	return selectRandom(s, sf, r)
}

func VerifRoundSampleFactor(sf float64, r *rand.Rand) float64 {
	return roundSampleFactor(sf, r)
}

