//go:build verif

package data_model

// Accessors for the C07 (string-top rows) correspondence harness. Add-only; nothing in the package calls them.

// VerifStringTopSFL returns the unexported sampleFactorLog2 of a row.
func (s *MultiItem) VerifStringTopSFL() int { return s.sampleFactorLog2 }

// VerifStringTopSetSFL sets it (used only to replay the recorded hang witness at a late round).
func (s *MultiItem) VerifStringTopSetSFL(v int) { s.sampleFactorLog2 = v }
