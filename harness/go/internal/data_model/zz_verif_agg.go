//go:build verif

package data_model

// Accessors for the C04 (aggregation merge order) correspondence harness. Add-only; nothing in the
// package calls them.

// VerifChConsts returns the unexported constants of ChUnique the Coq model is parameterised by.
func VerifChConsts() (maxSizeDegree, maxSize, bitsForSkip, initialSizeDegree int) {
	return uniquesHashMaxSizeDegree, uniquesHashMaxSize, uniquesHashBitsForSkip, uniquesHashSetInitialSizeDegree
}

// VerifInsertHash inserts an already hashed value (what Insert does after uintHash32).
func (ch *ChUnique) VerifInsertHash(h uint32) {
	if ch.buf == nil {
		ch.Reset()
	}
	ch.insertHash(h)
}

func (ch *ChUnique) VerifHash(v uint64) uint32 { return ch.uintHash32(v) }

type VerifChState struct {
	Nil        bool
	Skip       uint32
	SizeDegree uint32
	Count      int32
	Zero       bool
	Buf        []uint32 // the table itself (not copied)
}

func (ch *ChUnique) VerifState() VerifChState {
	return VerifChState{Nil: ch.buf == nil, Skip: ch.skipDegree, SizeDegree: ch.sizeDegree, Count: ch.itemsCount, Zero: ch.hasZeroItem, Buf: ch.buf}
}

// VerifSetBuf replaces the table (used to deep-copy a sketch without going through the code under test).
func (ch *ChUnique) VerifSetBuf(buf []uint32) { ch.buf = buf }
