//go:build verif

package data_model

import "time"

// Accessors for the C22 (query time axes) harness and translator: unexported tables and helpers of timescale.go.

type VerifLodSwitch struct {
	RelSwitch int64
	Levels    []int64
}

func VerifLodLevels() []VerifLodSwitch {
	var res []VerifLodSwitch
	for _, l := range lodLevels[Version6] {
		res = append(res, VerifLodSwitch{l.relSwitch, append([]int64(nil), l.levels...)})
	}
	return res
}

func VerifLodLevelsMonthly() []VerifLodSwitch {
	var res []VerifLodSwitch
	for _, l := range lodLevelsV3Monthly {
		res = append(res, VerifLodSwitch{l.relSwitch, append([]int64(nil), l.levels...)})
	}
	return res
}

func VerifMaxPoints() int64 { return maxPoints }
func VerifMonthStep() int64 { return _1M }

func VerifStartOfLOD(start, step int64, loc *time.Location, utcOffset int64) int64 {
	return startOfLOD(start, step, loc, utcOffset)
}

func VerifEndOfLOD(start, step, end int64, le bool, loc *time.Location) (int64, int) {
	return endOfLOD(start, step, end, le, loc)
}

func VerifRoundTime(t, step, utcOffset int64) int64 { return roundTime(t, step, utcOffset) }
func VerifMathDiv(a, b int64) int64                 { return mathDiv(a, b) }
