//go:build verif

// In-package accessors for the C20 correspondence harness: a JournalFast over the slice backend with a
// MetricsStorage attached, driven through the real applyUpdate / getJournalDiffLocked3Limits / Save / load.
package metajournal

import (
	"sort"

	"github.com/VKCOM/statshouse/internal/data_model"
	"github.com/VKCOM/statshouse/internal/data_model/gen2/tlmetadata"
	"github.com/VKCOM/statshouse/internal/vkgo/basictl"
)

type VerifNode struct {
	J       *JournalFast
	S       *MetricsStorage
	File    []byte
	Compact bool
}

func NewVerifNode(compact bool) *VerifNode {
	n := &VerifNode{Compact: compact}
	n.S = MakeMetricsStorage(nil)
	n.J, _ = LoadJournalFastSlice(&n.File, 0, compact, []ApplyEvent{n.S.ApplyEvent})
	return n
}

// Apply is JournalFast.applyUpdate
func (n *VerifNode) Apply(src []tlmetadata.Event, lastKnown int64) {
	n.J.applyUpdate(src, lastKnown, nil)
}

// Diff is getJournalDiffLocked3Limits as HandleGetMetrics3 calls it
func (n *VerifNode) Diff(from int64, maxItems, maxBytes int) ([]tlmetadata.Event, int64) {
	var ret tlmetadata.GetJournalResponsenew
	n.J.mu.RLock()
	n.J.getJournalDiffLocked3Limits(from, &ret, maxItems, maxBytes)
	n.J.mu.RUnlock()
	return ret.Events, ret.CurrentVersion
}

func (n *VerifNode) RawEntry(typ int32, id int64) (tlmetadata.Event, bool) {
	e, ok := n.J.journal[journalEventID{typ: typ, id: id}]
	return e.Event, ok
}

// Entries: the journal in btree order, with the hash stored next to every entry
func (n *VerifNode) Entries() (evs []tlmetadata.Event, hi []uint64, lo []uint64) {
	n.J.order.Ascend(func(o journalOrder) bool {
		e := n.J.journal[o.key]
		evs = append(evs, e.Event)
		hi = append(hi, e.hash.Hi)
		lo = append(lo, e.hash.Lo)
		return true
	})
	return
}

func (n *VerifNode) MapLen() int { return len(n.J.journal) }

func (n *VerifNode) State() (cur, loader, known int64, hi, lo uint64, str string) {
	v, s := n.J.VersionHash()
	return v, n.J.loaderVersion, n.J.LastKnownVersion(), n.J.stateHash.Hi, n.J.stateHash.Lo, s
}

func VerifEventHash(e tlmetadata.Event) (uint64, uint64) {
	_, h := hashWithoutVersionJournalEvent(nil, e)
	return h.Hi, h.Lo
}

func VerifCompact(e tlmetadata.Event) (tlmetadata.Event, bool, error) {
	keep, err := compactJournalEvent(&e)
	return e, keep, err
}

func VerifEqualNoVersion(a, b tlmetadata.Event) bool { return equalWithoutVersionJournalEvent(a, b) }

// SaveTruncReload saves the journal into its file, cuts the file to `cut` bytes (when shorter than the file),
// reads the result back the way loadImpl does to learn what a reader gets (header seen, events per chunk), and
// re-creates journal and storage from the file.
func (n *VerifNode) SaveTruncReload(cut int) (full bool, hdr bool, chunks []int, fileLen int, err error) {
	if n.J.currentVersion != 0 {
		_, _, err = n.J.Save()
	} else {
		err = n.J.save(n.J.storage, 0)
	}
	if err != nil {
		return
	}
	fileLen = len(n.File)
	full = cut >= fileLen
	if !full {
		n.File = n.File[:cut]
	}
	probe := append([]byte(nil), n.File...)
	st := data_model.NewChunkedStorage2Slice(&probe)
	for {
		chunk, e := st.ReadNext(data_model.ChunkedMagicJournal)
		if e != nil || len(chunk) == 0 {
			break
		}
		if st.IsFirst() {
			var a, b int64
			chunk, _ = basictl.LongRead(chunk, &a)
			chunk, _ = basictl.LongRead(chunk, &b)
			hdr = true
		}
		cnt := 0
		var ev tlmetadata.Event
		for len(chunk) != 0 {
			var e2 error
			if chunk, e2 = ev.ReadTL1Boxed(chunk); e2 != nil {
				break
			}
			cnt++
		}
		chunks = append(chunks, cnt)
	}
	n.S = MakeMetricsStorage(nil)
	n.J, _ = LoadJournalFastSlice(&n.File, 0, n.Compact, []ApplyEvent{n.S.ApplyEvent})
	return
}

// ---- MetricsStorage dumps (sorted) ----
type VerifMetric struct {
	Key      int32
	ID       int32
	Version  int64
	Name     string
	Group    int32
	KeyName  string
}
type VerifGroup struct {
	Key     int32
	ID      int32
	Version int64
	Name    string
	Disable bool
	KeyName string
}

func (n *VerifNode) Metrics() (byID []VerifMetric, byName []VerifMetric) {
	ms := n.S
	ms.mu.RLock()
	defer ms.mu.RUnlock()
	for k, m := range ms.metricsByID {
		byID = append(byID, VerifMetric{Key: k, ID: m.MetricID, Version: m.Version, Name: m.Name, Group: m.GroupID})
	}
	for k, m := range ms.metricsByName {
		byName = append(byName, VerifMetric{KeyName: k, ID: m.MetricID, Version: m.Version, Name: m.Name, Group: m.GroupID})
	}
	sort.Slice(byID, func(i, j int) bool { return byID[i].Key < byID[j].Key })
	sort.Slice(byName, func(i, j int) bool { return byName[i].KeyName < byName[j].KeyName })
	return
}

func (n *VerifNode) Groups() (byID []VerifGroup, byName []VerifGroup, ordered []int32) {
	ms := n.S
	ms.mu.RLock()
	defer ms.mu.RUnlock()
	for k, g := range ms.groupsByID {
		byID = append(byID, VerifGroup{Key: k, ID: g.ID, Version: g.Version, Name: g.Name, Disable: g.Disable})
	}
	for k, g := range ms.groupsByName {
		byName = append(byName, VerifGroup{KeyName: k, ID: g.ID, Version: g.Version, Name: g.Name, Disable: g.Disable})
	}
	for _, g := range ms.groupsOrdered {
		ordered = append(ordered, g.ID)
	}
	sort.Slice(byID, func(i, j int) bool { return byID[i].Key < byID[j].Key })
	sort.Slice(byName, func(i, j int) bool { return byName[i].KeyName < byName[j].KeyName })
	return
}

func (n *VerifNode) Namespaces() (byID []VerifGroup, byName []VerifGroup) {
	ms := n.S
	ms.mu.RLock()
	defer ms.mu.RUnlock()
	for k, g := range ms.namespaceByID {
		byID = append(byID, VerifGroup{Key: k, ID: g.ID, Version: g.Version, Name: g.Name})
	}
	for k, g := range ms.namespaceByName {
		byName = append(byName, VerifGroup{KeyName: k, ID: g.ID, Version: g.Version, Name: g.Name})
	}
	sort.Slice(byID, func(i, j int) bool { return byID[i].Key < byID[j].Key })
	sort.Slice(byName, func(i, j int) bool { return byName[i].KeyName < byName[j].KeyName })
	return
}

// DiffDefault is getJournalDiffLocked3 (the limits HandleGetMetrics3 really uses)
func (n *VerifNode) DiffDefault(from int64) ([]tlmetadata.Event, int64) {
	var ret tlmetadata.GetJournalResponsenew
	n.J.mu.RLock()
	n.J.getJournalDiffLocked3(from, &ret)
	n.J.mu.RUnlock()
	return ret.Events, ret.CurrentVersion
}

// VerifChunkBoundaries: offsets at which a chunk of the saved file ends (the last one is the file length)
func VerifChunkBoundaries(file []byte) []int {
	var res []int
	off := 0
	for off+8+16 <= len(file) {
		size := int(uint32(file[off+4]) | uint32(file[off+5])<<8 | uint32(file[off+6])<<16 | uint32(file[off+7])<<24)
		off += 8 + size + 16
		if off > len(file) {
			break
		}
		res = append(res, off)
	}
	return res
}
