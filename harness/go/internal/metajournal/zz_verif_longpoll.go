//go:build verif

// Drives the real HandleGetMetrics3 / broadcastJournal of a JournalFast through an in-memory rpc connection that can
// park long polls and capture the responses (C20 harness).
package metajournal

import (
	"fmt"
	"net"

	"github.com/VKCOM/statshouse/internal/data_model/gen2/tlmetadata"
	"github.com/VKCOM/statshouse/internal/data_model/gen2/tlstatshouse"
	"github.com/VKCOM/tl/pkg/rpc"
)

type VerifPollConn struct {
	parked    map[int64]bool
	hctxQuery map[*rpc.HandlerContext]int64
	responses map[int64][]byte
	errors    map[int64]error
}

func NewVerifPollConn() *VerifPollConn {
	return &VerifPollConn{parked: map[int64]bool{}, hctxQuery: map[*rpc.HandlerContext]int64{}, responses: map[int64][]byte{}, errors: map[int64]error{}}
}

func (c *VerifPollConn) StartLongpoll(hctx *rpc.HandlerContext, canceller rpc.LongpollCanceller) (rpc.LongpollHandle, error) {
	c.parked[hctx.QueryID()] = true
	return rpc.LongpollHandle{QueryID: hctx.QueryID(), CommonConn: c}, nil
}
func (c *VerifPollConn) CancelLongpoll(queryID int64) (rpc.LongpollCanceller, int64) { return nil, 0 }
func (c *VerifPollConn) FinishLongpoll(lh rpc.LongpollHandle) (*rpc.HandlerContext, error) {
	if !c.parked[lh.QueryID] {
		return nil, fmt.Errorf("not parked")
	}
	delete(c.parked, lh.QueryID)
	hctx := &rpc.HandlerContext{}
	hctx.ResetTo(c, lh.QueryID)
	c.hctxQuery[hctx] = lh.QueryID
	return hctx, nil
}
func (c *VerifPollConn) DebugName() string { return "verif" }
func (c *VerifPollConn) SendResponse(hctx *rpc.HandlerContext, err error) {
	q := c.hctxQuery[hctx]
	c.responses[q] = append([]byte(nil), hctx.Response...)
	c.errors[q] = err
}
func (c *VerifPollConn) SendEmptyResponse(lh rpc.LongpollHandle)                         {}
func (c *VerifPollConn) AccountResponseMem(hctx *rpc.HandlerContext, estimate int) error { return nil }
func (c *VerifPollConn) ListenAddr() net.Addr                                            { return &net.TCPAddr{} }
func (c *VerifPollConn) LocalAddr() net.Addr                                             { return &net.TCPAddr{} }
func (c *VerifPollConn) RemoteAddr() net.Addr                                            { return &net.TCPAddr{} }
func (c *VerifPollConn) KeyID() [4]byte                                                  { return [4]byte{} }
func (c *VerifPollConn) ProtocolVersion() uint32                                         { return 0 }
func (c *VerifPollConn) ProtocolTransportID() byte                                       { return 0 }
func (c *VerifPollConn) ConnectionID() uintptr                                           { return 0 }

// Poll calls HandleGetMetrics3(From: from): the immediate answer, or parked
func (n *VerifNode) Poll(c *VerifPollConn, queryID int64, from int64) (resp *tlmetadata.GetJournalResponsenew, parked bool, err error) {
	hctx := &rpc.HandlerContext{}
	hctx.ResetTo(c, queryID)
	args := tlstatshouse.GetMetrics3{From: from}
	if err = n.J.HandleGetMetrics3(args, hctx); err != nil {
		return nil, false, err
	}
	if c.parked[queryID] {
		return nil, true, nil
	}
	var ret tlmetadata.GetJournalResponsenew
	if _, err = args.ReadResultTL1(hctx.Response, &ret); err != nil {
		return nil, false, err
	}
	return &ret, false, nil
}

// Delayed: what broadcastJournal sent to a parked query, if anything
func (c *VerifPollConn) Delayed(queryID int64, from int64) (*tlmetadata.GetJournalResponsenew, bool, error) {
	body, ok := c.responses[queryID]
	if !ok {
		return nil, false, nil
	}
	if err := c.errors[queryID]; err != nil {
		return nil, true, err
	}
	var ret tlmetadata.GetJournalResponsenew
	args := tlstatshouse.GetMetrics3{From: from}
	if _, err := args.ReadResultTL1(body, &ret); err != nil {
		return nil, true, err
	}
	return &ret, true, nil
}
