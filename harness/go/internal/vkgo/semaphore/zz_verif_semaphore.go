//go:build verif

package semaphore

// VerifSnapshot reads size, cur and the weights of the waiter list (front first) under the mutex.
func (s *Weighted) VerifSnapshot() (size, cur int64, waiting []int64) {
	s.mu.Lock()
	defer s.mu.Unlock()
	for e := s.waiters.Front(); e != nil; e = e.Next() {
		waiting = append(waiting, e.Value.(waiter).n)
	}
	return s.size, s.cur, waiting
}
