//go:build verif

// Correspondence harness for C29 (weighted semaphore): the real Weighted inside a synctest bubble, one
// goroutine per Acquire, synctest.Wait() after every step.
package semaphore

import (
	"context"
	"fmt"
	"os"
	"sort"
	"strconv"
	"strings"
	"sync"
	"testing"
	"testing/synctest"

	vu "github.com/VKCOM/statshouse/internal/verifutil"
)

type vsOp struct {
	kind byte // 'A' acquire n, 'T' try n, 'C' cancel w, 'R' release n, 'S' setsize n, 'F' force n
	arg  int64
}

func (op vsOp) text() string { return fmt.Sprintf("%c%d", op.kind, op.arg) }
func (op vsOp) term() string {
	name := map[byte]string{'A': "SAcquire", 'T': "STry", 'C': "SCancel", 'R': "SRelease", 'S': "SSetSize", 'F': "SForce"}[op.kind]
	return name + " " + vu.Z(op.arg)
}

const (
	vsPending   = 0
	vsGranted   = 1
	vsCancelled = 2
	vsPanicked  = 3
)

type vsHist struct {
	size0     int64
	ops       []vsOp
	obs       []string
	weight    []int64
	status    []int
	doomed    []bool // n > size when the call was made: waits for its context only
	cancelReq []bool
	size, cur int64
	held      int64 // weights granted + forced - released, counted from the outcomes the callers saw
	fails     map[string]bool
	kinds     map[string]bool
	broken    bool // a call outside the protocol (negative weight, release of more than held) was made
}

func (h *vsHist) pending(includeDoomed bool) []int64 {
	var r []int64
	for w := range h.weight {
		if h.status[w] == vsPending && (includeDoomed || !h.doomed[w]) {
			r = append(r, int64(w))
		}
	}
	return r
}

func vsRunHistory(size0 int64, gen func(h *vsHist, step int) *vsOp) *vsHist {
	h := &vsHist{size0: size0, size: size0, fails: map[string]bool{}, kinds: map[string]bool{}}
	synctest.Run(func() {
		s := NewWeighted(size0)
		var mu sync.Mutex
		var results []int
		var cancels []context.CancelFunc
		ending := false
		for step := 0; ; step++ {
			var op *vsOp
			if !ending {
				op = gen(h, step)
				if op == nil {
					ending = true
				}
			}
			if ending {
				p := h.pending(true)
				if len(p) == 0 {
					break
				}
				op = &vsOp{'C', p[0]}
			}
			queueBefore := h.pending(false) // arrival order = id order
			curBefore, sizeBefore := h.cur, h.size
			var special int64 // -1 try ok, -2 try fail, -3 panic (of a synchronous call)
			call := func(f func()) {
				defer func() {
					if recover() != nil {
						special = -3
					}
				}()
				f()
			}
			switch op.kind {
			case 'A':
				w := len(h.weight)
				h.weight = append(h.weight, op.arg)
				h.status = append(h.status, vsPending)
				h.doomed = append(h.doomed, op.arg > h.size)
				h.cancelReq = append(h.cancelReq, false)
				if op.arg < 0 {
					h.broken = true
				}
				ctx, cancel := context.WithCancel(context.Background())
				cancels = append(cancels, cancel)
				mu.Lock()
				results = append(results, vsPending)
				mu.Unlock()
				n := op.arg
				go func() {
					res := vsPanicked
					defer func() {
						recover()
						mu.Lock()
						results[w] = res
						mu.Unlock()
					}()
					if s.Acquire(ctx, n) == nil {
						res = vsGranted
					} else {
						res = vsCancelled
					}
				}()
			case 'T':
				if op.arg < 0 {
					h.broken = true
				}
				call(func() {
					if s.TryAcquire(op.arg) {
						special = -1
					} else {
						special = -2
					}
				})
			case 'C':
				if op.arg >= 0 && int(op.arg) < len(cancels) {
					h.cancelReq[op.arg] = true
					cancels[op.arg]()
				}
			case 'R':
				if op.arg < 0 || op.arg > h.cur {
					h.broken = true
				}
				call(func() { s.Release(op.arg) })
				if special == 0 {
					h.held -= op.arg
				}
			case 'S':
				s.SetSize(op.arg)
			case 'F':
				if op.arg < 0 {
					h.broken = true
				}
				call(func() { s.ForceAcquire(op.arg) })
				if special == 0 {
					h.held += op.arg
				}
			}
			synctest.Wait()
			var evs []int64
			if special != 0 {
				evs = append(evs, special)
			}
			if special == -1 {
				h.held += op.arg
			}
			var grantedNow, cancelledNow []int64
			mu.Lock()
			for w, r := range results {
				if r != vsPending && h.status[w] == vsPending {
					h.status[w] = r
					switch r {
					case vsGranted:
						evs = append(evs, 4*int64(w))
						grantedNow = append(grantedNow, int64(w))
						h.held += h.weight[w]
					case vsCancelled:
						evs = append(evs, 4*int64(w)+1)
						cancelledNow = append(cancelledNow, int64(w))
						if !h.cancelReq[w] {
							h.fails["sem_error_without_cancel"] = true
						}
					default:
						evs = append(evs, -3)
					}
				}
			}
			mu.Unlock()
			sort.Slice(evs, func(i, j int) bool { return evs[i] < evs[j] })
			size, cur, waiting := s.VerifSnapshot()
			oc, os_ := s.Observe()
			h.size, h.cur = size, cur
			h.ops = append(h.ops, *op)
			h.obs = append(h.obs, fmt.Sprintf("SO %s %s %s %s",
				vu.ListZ(evs), vu.Z(cur), vu.Z(size), vu.ListZ(waiting)))

			// ---- oracles of the property, on the implementation's observations only ----
			if oc != cur || os_ != size {
				h.fails["sem_observe_disagrees"] = true
			}
			if h.broken {
				h.kinds["outside_protocol"] = true
				continue
			}
			// accounting: cur is exactly what callers were told they hold
			if cur != h.held {
				h.fails["sem_cur_not_held"] = true
			}
			// "never admits more than its size"
			if (len(grantedNow) > 0 || special == -1) && cur > size {
				h.fails["sem_admit_over_size"] = true
			}
			if op.kind != 'S' && op.kind != 'F' && curBefore <= sizeBefore && cur > size {
				h.fails["sem_cur_exceeds_size"] = true
			}
			// "serves waiters in FIFO order": a waiter served from the list leaves nobody older behind;
			// nobody is admitted past a non-empty list
			for _, g := range grantedNow {
				for _, w := range h.pending(false) {
					if w < g {
						h.fails["sem_fifo"] = true
					}
				}
			}
			if special == -1 && len(queueBefore) > 0 {
				h.fails["sem_barging_try"] = true
			}
			if len(waiting) != len(h.pending(false)) {
				h.fails["sem_waiter_list_leak"] = true
			}
			// "a cancelled waiter leaves it unchanged": size the same, cur changed only by the weights of
			// the waiters that were admitted behind it, it never holds anything
			if op.kind == 'C' && len(cancelledNow) > 0 {
				sum := int64(0)
				for _, g := range grantedNow {
					sum += h.weight[g]
				}
				if size != sizeBefore || cur != curBefore+sum {
					h.fails["sem_cancel_changed_state"] = true
				}
				if !ending {
					h.kinds["cancel_of_waiter"] = true
					if len(grantedNow) > 0 {
						h.kinds["cancel_front_admits_next"] = true
					}
				}
			}
			// no lost wakeup for positive weights: the front waiter does not fit
			if len(waiting) > 0 && waiting[0] > 0 && size-cur >= waiting[0] {
				h.fails["sem_lost_wakeup"] = true
			}
			// remark (Props/C29.v, C29_remark_zero_weight_waiter): a zero-weight front waiter can be left in
			// the list when the waiter before it is cancelled at cur == size; counted, not a violation
			if len(waiting) > 0 && waiting[0] == 0 && size-cur >= 0 {
				h.kinds["remark_zero_weight_front_left_waiting"] = true
			}
			if len(grantedNow) > 0 && (op.kind == 'R' || op.kind == 'S') {
				h.kinds["grant_from_list"] = true
			}
			if len(grantedNow) > 1 {
				h.kinds["multi_grant"] = true
			}
			if cur > size {
				h.kinds["over_size_state"] = true
			}
		}
	})
	return h
}

func (h *vsHist) emit(o *vu.Out, label string) {
	var ot, tt []string
	for _, op := range h.ops {
		ot = append(ot, op.text())
		tt = append(tt, op.term())
	}
	input := fmt.Sprintf("sem %s size=%d: %s", label, h.size0, strings.Join(ot, " "))
	term := fmt.Sprintf("CSem %s [%s] [%s]", vu.Z(h.size0), strings.Join(tt, "; "), strings.Join(h.obs, "; "))
	kinds := []string{"sem"}
	for k := range h.kinds {
		kinds = append(kinds, k)
	}
	sort.Strings(kinds)
	line := o.Case(input, term, h.kinds["grant_from_list"] && h.kinds["cancel_of_waiter"], kinds...)
	var fs []string
	for f := range h.fails {
		fs = append(fs, f)
	}
	sort.Strings(fs)
	for _, f := range fs {
		o.Fail(f, line, input)
	}
}

func TestVerifSemaphore(t *testing.T) {
	outDir := os.Getenv("VERIF_OUT")
	if outDir == "" {
		t.Skip("VERIF_OUT not set")
	}
	seed, _ := strconv.ParseUint(os.Getenv("VERIF_SEED"), 10, 64)
	n := 300
	args := strings.Fields(os.Getenv("VERIF_ARGS"))
	for i := 0; i+1 < len(args); i++ {
		if args[i] == "-n" {
			n, _ = strconv.Atoi(args[i+1])
		}
	}
	r := vu.NewRng(seed ^ 0x5e3a)
	o := vu.NewOut(outDir)
	defer o.Close()
	for i := 0; i < n; i++ {
		mode := r.Intn(20) // 0..7 plain, 8..18 with SetSize/ForceAcquire, 19 also calls outside the protocol
		size0 := int64(1 + r.Intn(6))
		if r.Chance(8) {
			size0 = 0
		}
		length := 12 + r.Intn(45)
		gen := func(h *vsHist, step int) *vsOp {
			if step >= length {
				return nil
			}
			weight := func() int64 {
				// boundary-directed around the free room and the size
				switch r.Intn(6) {
				case 0:
					return h.size - h.cur + int64(r.Intn(3)) - 1
				case 1:
					return h.size + int64(r.Intn(3)) - 1
				case 2:
					return 0
				default:
					return int64(1 + r.Intn(3))
				}
			}
			for {
				x := r.Intn(100)
				switch {
				case x < 36:
					n := weight()
					if n < 0 && !(mode == 19 && r.Chance(40)) {
						n = 0
					}
					return &vsOp{'A', n}
				case x < 46:
					n := weight()
					if n < 0 && !(mode == 19 && r.Chance(40)) {
						n = 1
					}
					return &vsOp{'T', n}
				case x < 70:
					if h.cur > 0 {
						n := int64(1 + r.Intn(int(h.cur)))
						if r.Chance(50) && n > 2 {
							n = int64(1 + r.Intn(2))
						}
						if mode == 19 && r.Chance(15) {
							n = h.cur + 1
						}
						return &vsOp{'R', n}
					}
					if r.Chance(10) {
						return &vsOp{'R', 0}
					}
				case x < 86:
					p := h.pending(true)
					if len(p) > 0 && r.Chance(85) {
						return &vsOp{'C', p[r.Intn(len(p))]}
					}
					if len(h.weight) > 0 {
						return &vsOp{'C', int64(r.Intn(len(h.weight)))}
					}
				case x < 94:
					if mode >= 8 {
						c := h.cur + int64(r.Intn(5)) - 2
						if r.Chance(40) {
							c = int64(r.Intn(8))
						}
						if c < 0 {
							c = 0
						}
						return &vsOp{'S', c}
					}
				default:
					if mode >= 8 {
						return &vsOp{'F', int64(r.Intn(4))}
					}
				}
			}
		}
		h := vsRunHistory(size0, gen)
		label := "plain"
		if mode >= 8 {
			label = "resize"
		}
		if mode == 19 {
			label = "unprotocol"
		}
		h.kinds["mode_"+label] = true
		h.emit(o, label)
	}
}
