//go:build verif

package fsbinlog

import (
	_ "github.com/VKCOM/statshouse/internal/vkgo/binlog/fsbinlog/internal/gen/factory"
	"github.com/VKCOM/statshouse/internal/vkgo/binlog/fsbinlog/internal/gen/meta"
)

// VerifTLItem exposes one factory item of the (package-internal) generated fsbinlog schema to the C14 harness.
type VerifTLItem struct {
	Name       string
	Tag        uint32
	IsFunction bool
	Create     func() any
}

func VerifTLItems() []VerifTLItem {
	var out []VerifTLItem
	for _, it := range meta.GetAllTLItems() {
		it := it
		out = append(out, VerifTLItem{Name: it.TLName(), Tag: it.TLTag(), IsFunction: it.IsFunction(), Create: func() any { return it.CreateObject() }})
	}
	return out
}
