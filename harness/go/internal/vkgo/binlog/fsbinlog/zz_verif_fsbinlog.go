//go:build verif

package fsbinlog

import (
	"fmt"
	"time"

	"github.com/myxo/gofs"

	"github.com/VKCOM/statshouse/internal/vkgo/binlog"
	"github.com/VKCOM/statshouse/internal/vkgo/binlog/fsbinlog/internal/gen/tlfsbinlog"
)

// VerifReadAllWithCommitInterval is fsBinlog.ReadAll (snapshot meta parsing + readAll) with the reader's commit interval
// given by the caller instead of the constant flushInterval (500 ms), so that the reader's timer-driven commits
// (reader.go: readUncompressedFile, case <-commitTimer.C) happen in the middle of a short replay.
func VerifReadAllWithCommitInterval(fs gofs.FS, prefixPath string, magic uint32, offset int64, snapshotMeta []byte, engine binlog.Engine, commitEvery time.Duration) (int64, uint32, error) {
	var si *tlfsbinlog.SnapshotMeta
	if len(snapshotMeta) > 0 {
		si = &tlfsbinlog.SnapshotMeta{}
		if _, err := si.ReadTL1Boxed(snapshotMeta); err != nil {
			return 0, 0, fmt.Errorf("wrong snapshot meta format: %w", err)
		}
	}
	var st stat
	reader, err := newBinlogReader(fs, nil, make(chan bool, 1), commitEvery, nil, &st, make(chan struct{}))
	if err != nil {
		return 0, 0, err
	}
	return reader.readAllFromPosition(offset, prefixPath, magic, engine, si, false)
}
