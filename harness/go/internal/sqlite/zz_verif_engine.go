//go:build verif

// In-package accessors for the C17 correspondence harness (cmd/verif-engine).
// They only expose unexported state and call unexported entry points exactly the way the engine's own
// goroutines do (txLoop, DoWithOffset); no engine logic is re-implemented here.
package sqlite

import (
	"bytes"
	"context"
	"runtime"
	"time"
)

// VerifParkTxLoop cancels the context of the txLoop goroutine started by OpenEngine, so that the periodic commit
// happens only when the harness asks for it (VerifTxLoopStart). Without this a late-scheduled background txLoop
// could pick up the scripted CommitEvery and block in binlogWaitDBSync, holding the write connection, at a
// moment the sequential harness does not expect. From now on e.ctx is a cancelled context except inside a
// VerifTxLoopStart window.
//
// It returns only when no txLoop goroutine is left (checked on the goroutine dump): a goroutine that has not
// reached its select yet would otherwise see the context and period installed later by VerifTxLoopStart.
// The harness is sequential, so no other engine's txLoop is alive at this point.
func (e *Engine) VerifParkTxLoop() bool {
	e.stop()
	buf := make([]byte, 1<<16)
	for deadline := time.Now().Add(5 * time.Second); time.Now().Before(deadline); {
		n := runtime.Stack(buf, true)
		if n == len(buf) {
			buf = make([]byte, 2*len(buf))
			continue
		}
		if !bytes.Contains(buf[:n], []byte("sqlite.(*Engine).txLoop")) {
			return true
		}
		time.Sleep(20 * time.Microsecond)
	}
	return false
}

// VerifTxLoopStart runs the engine's real txLoop (engine.go) on a private context with a short period and returns
// completed() = "at least one iteration has finished its commit" (non-blocking: false while the write connection
// is busy, e.g. while txLoop waits for the binlog) and finish() = wait for one finished iteration, stop the loop
// and restore the period. Extra iterations are harmless: a second COMMIT+BEGIN with no write in between changes
// nothing. e.ctx is read only by txLoop.
func (e *Engine) VerifTxLoopStart() (completed func() bool, finish func()) {
	ctx, cancel := context.WithCancel(context.Background())
	e.rw.mu.Lock()
	oldEvery, last := e.opt.CommitEvery, e.lastCommitTime
	e.ctx = ctx
	e.opt.CommitEvery = 100 * time.Microsecond
	e.rw.mu.Unlock()
	done := make(chan struct{})
	go func() { e.txLoop(); close(done) }()
	completed = func() bool {
		if !e.rw.mu.TryLock() {
			return false
		}
		defer e.rw.mu.Unlock()
		return !e.lastCommitTime.Equal(last)
	}
	finish = func() {
		deadline := time.Now().Add(20 * time.Second)
		for e.mode == master && time.Now().Before(deadline) {
			e.rw.mu.Lock() // blocks while an iteration is in progress
			ok := !e.lastCommitTime.Equal(last)
			e.rw.mu.Unlock()
			if ok {
				break
			}
			time.Sleep(50 * time.Microsecond)
		}
		cancel() // e.ctx stays this cancelled context until the next window
		<-done
		e.rw.mu.Lock()
		e.opt.CommitEvery = oldEvery
		e.rw.mu.Unlock()
	}
	return completed, finish
}

// VerifDo is DoWithOffset without the final `<-ch`: the harness observes the acknowledgement channel itself.
func (e *Engine) VerifDo(ctx context.Context, queryName string, fn func(Conn, []byte) ([]byte, error)) (ch chan struct{}, dbOffset int64, err error) {
	if e.readOnlyEngine {
		return nil, 0, errReadOnly
	}
	ch, dbOffset, _, err = e.doWithoutWait(ctx, queryName, fn)
	return ch, dbOffset, err
}

// VerifSetCommitEvery scripts the "clock": mustCommitNow and binlogEngineReplicaImpl.Apply compare
// time.Since(lastCommitTime) with opt.CommitEvery.
func (e *Engine) VerifSetCommitEvery(d time.Duration) {
	e.rw.mu.Lock()
	e.opt.CommitEvery = d
	e.rw.mu.Unlock()
}

// VerifRW runs fn on the read-write connection inside the open write transaction (Engine.do).
func (e *Engine) VerifRW(fn func(Conn) error) error { return e.do(fn) }

func (e *Engine) VerifDBOffset() int64 {
	e.rw.mu.Lock()
	defer e.rw.mu.Unlock()
	return e.dbOffset
}

func (e *Engine) VerifCommittedOffset() int64 {
	info, _ := e.committedInfo.Load().(*committedInfo)
	if info == nil {
		return -1
	}
	return info.offset
}

func (e *Engine) VerifWaitQLen() int {
	e.waitQMx.Lock()
	defer e.waitQMx.Unlock()
	return len(e.waitQ)
}

func (e *Engine) VerifBroken() error {
	e.rw.mu.Lock()
	defer e.rw.mu.Unlock()
	return e.rw.err
}

// VerifAbort drops the engine the way a killed process does as far as SQLite is concerned: the open write
// transaction is never committed (close(false, false) rolls it back when the connection closes).
func (e *Engine) VerifAbort() error {
	e.stop()
	return e.close(false, false)
}
