//go:build verif

package sqlite0

// The SQLite amalgamation (sqlite3.c) is an empty file in this snapshot, so the package does not link.
// This add-only file links the system libsqlite3 instead and supplies what Debian's build lacks:
//  - sqlite3_normalized_sql (SQLITE_ENABLE_NORMALIZE): the engine only uses it as a statement-cache key,
//    so the plain SQL text is an adequate stand-in;
//  - API_ARMOR behaviour of sqlite3_last_insert_rowid / sqlite3_changes on a NULL handle.

/*
#cgo LDFLAGS: -lsqlite3 -ldl
#define _GNU_SOURCE
#include <dlfcn.h>
#include <stddef.h>
#include "sqlite3.h"

const char *sqlite3_normalized_sql(sqlite3_stmt *stmt) { return sqlite3_sql(stmt); }

typedef sqlite3_int64 (*rowid_fn)(sqlite3*);
typedef int (*changes_fn)(sqlite3*);

sqlite3_int64 sqlite3_last_insert_rowid(sqlite3 *db) {
	static rowid_fn real = NULL;
	if (db == NULL) return 0;
	if (real == NULL) real = (rowid_fn)dlsym(RTLD_NEXT, "sqlite3_last_insert_rowid");
	return real(db);
}

int sqlite3_changes(sqlite3 *db) {
	static changes_fn real = NULL;
	if (db == NULL) return 0;
	if (real == NULL) real = (changes_fn)dlsym(RTLD_NEXT, "sqlite3_changes");
	return real(db);
}
*/
import "C"
