//go:build verif

// Package veriftlitems collects the factory items of the generated TL packages behind one interface.
package veriftlitems

import (
	"github.com/VKCOM/statshouse/internal/data_model/gen2/factory"
	_ "github.com/VKCOM/statshouse/internal/data_model/gen2/factory_bytes"
	dmeta "github.com/VKCOM/statshouse/internal/data_model/gen2/meta"
	"github.com/VKCOM/statshouse/internal/vkgo/basictl"
	"github.com/VKCOM/statshouse/internal/vkgo/binlog/fsbinlog"
	_ "github.com/VKCOM/statshouse/internal/vkgo/sqlitev2/checkpoint/gen2/factory"
	_ "github.com/VKCOM/statshouse/internal/vkgo/sqlitev2/checkpoint/gen2/factory_bytes"
	smeta "github.com/VKCOM/statshouse/internal/vkgo/sqlitev2/checkpoint/gen2/meta"
)

var _ = factory.CreateObject

// Obj is the part of the generated Object interface all generator versions share.
type Obj interface {
	TLName() string
	TLTag() uint32
	ReadTL1(w []byte) ([]byte, error)
	ReadTL1Boxed(w []byte) ([]byte, error)
	WriteTL1General(w []byte) ([]byte, error)
	WriteTL1BoxedGeneral(w []byte) ([]byte, error)
	ReadJSONGeneral(jctx *basictl.JSONReadContext, in *basictl.JsonLexer) error
	WriteJSONGeneral(jctx *basictl.JSONWriteContext, w []byte) ([]byte, error)
}

type Filler interface {
	FillRandom(rg *basictl.RandGenerator)
}
type TL2 interface {
	ReadTL2(r []byte, tctx *basictl.TL2ReadContext) ([]byte, error)
	WriteTL2(w []byte, tctx *basictl.TL2WriteContext) []byte
}

type Item struct {
	Group       string
	Name        string
	Tag         uint32
	IsFunction  bool
	HasTL2      bool
	Create      func() Obj
	CreateBytes func() Obj // nil when the package has no bytes variants
}

func (it Item) Key() string { return it.Group + "/" + it.Name }

func All() []Item {
	var out []Item
	for _, it := range dmeta.GetAllTLItems() {
		it := it
		out = append(out, Item{Group: "statshouse", Name: it.TLName(), Tag: it.TLTag(), IsFunction: it.IsFunction(), HasTL2: it.HasTL2(),
			Create: func() Obj { return it.CreateObject() }, CreateBytes: func() Obj { return it.CreateObjectBytes() }})
	}
	for _, it := range fsbinlog.VerifTLItems() {
		it := it
		out = append(out, Item{Group: "fsbinlog", Name: it.Name, Tag: it.Tag, IsFunction: it.IsFunction,
			Create: func() Obj { return it.Create().(Obj) }})
	}
	for _, it := range smeta.GetAllTLItems() {
		it := it
		out = append(out, Item{Group: "sqlite", Name: it.TLName(), Tag: it.TLTag(), IsFunction: it.IsFunction(), HasTL2: it.HasTL2(),
			Create: func() Obj { return it.CreateObject() }, CreateBytes: func() Obj { return it.CreateObjectBytes() }})
	}
	return out
}

// TagOf: tags the schema files leave implicit, per group, taken from the generated meta.
func TagOf() map[string]func(string) (uint32, bool) {
	m := map[string]map[string]uint32{}
	for _, it := range All() {
		if m[it.Group] == nil {
			m[it.Group] = map[string]uint32{}
		}
		if it.Tag != 0 {
			m[it.Group][it.Name] = it.Tag
		}
	}
	res := map[string]func(string) (uint32, bool){}
	for g, mm := range m {
		mm := mm
		res[g] = func(n string) (uint32, bool) { t, ok := mm[n]; return t, ok }
	}
	return res
}
