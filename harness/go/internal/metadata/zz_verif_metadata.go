//go:build verif

package metadata

// Add-only accessors for the C15/C19/C16 correspondence harness (cmd/verif-metadata): a raw dump of every
// table the model describes (read through the same Engine.Do the code uses) and a door to the unexported
// deleteMappingsByIdBatched.

import (
	"context"
	"errors"
	"sort"
	"strings"

	"github.com/VKCOM/statshouse/internal/sqlite"
)

type VerifEntRow struct {
	ID, NamespaceID, Version, UpdatedAt, DeletedAt, Type int64
	Name, Data                                           string
}
type VerifHistRow struct {
	VerifEntRow
	Metadata string
}
type VerifMapRow struct {
	ID   int64
	Name string
}
type VerifFloodRow struct {
	Metric                string
	LastTimeUpdate, Count int64
}
type VerifDump struct {
	Ents         []VerifEntRow
	Hist         []VerifHistRow
	Maps         []VerifMapRow
	Flood        []VerifFloodRow
	ESeq, MSeq   int64
	LastCreated  int32
	HasBootstrap bool
}

func VerifDumpDB(db *DBV2) (VerifDump, error) {
	var d VerifDump
	d.LastCreated = db.lastMappingIDToInsert
	err := db.eng.Do(context.Background(), "verif_dump", func(conn sqlite.Conn, cache []byte) ([]byte, error) {
		rows := conn.Query("verif_dump_ents", "SELECT id, name, namespace_id, version, updated_at, deleted_at, data, type FROM metrics_v5 ORDER BY id")
		for rows.Next() {
			var r VerifEntRow
			r.ID, _ = rows.ColumnInt64(0)
			r.Name, _ = rows.ColumnBlobString(1)
			r.NamespaceID, _ = rows.ColumnInt64(2)
			r.Version, _ = rows.ColumnInt64(3)
			r.UpdatedAt, _ = rows.ColumnInt64(4)
			r.DeletedAt, _ = rows.ColumnInt64(5)
			r.Data, _ = rows.ColumnBlobString(6)
			r.Type, _ = rows.ColumnInt64(7)
			d.Ents = append(d.Ents, r)
		}
		if rows.Error() != nil {
			return cache, rows.Error()
		}
		rows = conn.Query("verif_dump_hist", "SELECT entity_id, name, namespace_id, version, updated_at, deleted_at, data, type, metadata FROM entity_history ORDER BY version")
		for rows.Next() {
			var r VerifHistRow
			r.ID, _ = rows.ColumnInt64(0)
			r.Name, _ = rows.ColumnBlobString(1)
			r.NamespaceID, _ = rows.ColumnInt64(2)
			r.Version, _ = rows.ColumnInt64(3)
			r.UpdatedAt, _ = rows.ColumnInt64(4)
			r.DeletedAt, _ = rows.ColumnInt64(5)
			r.Data, _ = rows.ColumnBlobString(6)
			r.Type, _ = rows.ColumnInt64(7)
			r.Metadata, _ = rows.ColumnBlobString(8)
			d.Hist = append(d.Hist, r)
		}
		if rows.Error() != nil {
			return cache, rows.Error()
		}
		rows = conn.Query("verif_dump_maps", "SELECT id, name FROM mappings ORDER BY id")
		for rows.Next() {
			var r VerifMapRow
			r.ID, _ = rows.ColumnInt64(0)
			r.Name, _ = rows.ColumnBlobString(1)
			d.Maps = append(d.Maps, r)
		}
		if rows.Error() != nil {
			return cache, rows.Error()
		}
		rows = conn.Query("verif_dump_flood", "SELECT metric_name, last_time_update, count_free FROM flood_limits ORDER BY metric_name")
		for rows.Next() {
			var r VerifFloodRow
			r.Metric, _ = rows.ColumnBlobString(0)
			r.LastTimeUpdate, _ = rows.ColumnInt64(1)
			r.Count, _ = rows.ColumnInt64(2)
			d.Flood = append(d.Flood, r)
		}
		if rows.Error() != nil {
			return cache, rows.Error()
		}
		rows = conn.Query("verif_dump_seq", "SELECT name, seq FROM sqlite_sequence")
		for rows.Next() {
			n, _ := rows.ColumnBlobString(0)
			q, _ := rows.ColumnInt64(1)
			switch n {
			case "metrics_v5":
				d.ESeq = q
			case "mappings":
				d.MSeq = q
			}
		}
		if rows.Error() != nil {
			return cache, rows.Error()
		}
		rows = conn.Query("verif_dump_boot", "SELECT name FROM property WHERE name = $name", sqlite.BlobString("$name", bootstrapFieldName))
		d.HasBootstrap = rows.Next()
		return cache, rows.Error()
	})
	return d, err
}

func VerifDeleteMappings(db *DBV2, ids []int32) (int32, error) {
	return db.deleteMappingsByIdBatched(context.Background(), ids)
}

// VerifClassify maps a SaveEntity error to the model's error classes:
// 0 ok, 1 invalid version, 2 entity exists, 3 namespace does not exist, 4 namespace rename, 5 SQL constraint, 6 other.
func VerifClassify(err error) int {
	switch {
	case err == nil:
		return 0
	case errors.Is(err, errInvalidMetricVersion):
		return 1
	case errors.Is(err, errMetricIsExist):
		return 2
	case errors.Is(err, errNamespaceNotExists):
		return 3
	case strings.Contains(err.Error(), "can't rename namespace"):
		return 4
	case strings.Contains(strings.ToLower(err.Error()), "constraint"):
		return 5
	default:
		return 6
	}
}

// VerifBroadcastJournal runs the handler's journal broadcast (what RawEditEntity does after a successful save).
func VerifBroadcastJournal(h *Handler) { h.broadcastJournal() }

// VerifJournalWaiterFroms returns the From of every journal long-poll client currently registered as waiting.
func VerifJournalWaiterFroms(h *Handler) []int64 {
	h.getJournalClients.mx.Lock()
	defer h.getJournalClients.mx.Unlock()
	out := make([]int64, 0, len(h.getJournalClients.clients))
	for _, a := range h.getJournalClients.clients {
		out = append(out, a.From)
	}
	sort.Slice(out, func(i, j int) bool { return out[i] < out[j] })
	return out
}
