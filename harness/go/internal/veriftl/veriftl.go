//go:build verif

// Package veriftl: a small reader of the .tl schema files of the repository that resolves every
// constructor/function/union without template parameters into a description of the TL1 universe of
// /verif/coq/theories/TL/Model.v (type applications inlined, nat parameters substituted).
// Shared by the translator cmd/verif-gen-tlschema (prints Gen/TLSchema.v) and the harness cmd/verif-tl
// (which needs the same item order).
package veriftl

import (
	"fmt"
	"os"
	"path/filepath"
	"sort"
	"strconv"
	"strings"
	"unicode"
)

// ---------- lexer ----------
type tok struct {
	k string // id num tag sym sect attr
	s string
}

func isIdentChar(c byte) bool {
	return c == '_' || c >= '0' && c <= '9' || c >= 'a' && c <= 'z' || c >= 'A' && c <= 'Z'
}
func isHex(c byte) bool { return c >= '0' && c <= '9' || c >= 'a' && c <= 'f' }

func lex(src string) ([]tok, error) {
	var out []tok
	i := 0
	for i < len(src) {
		c := src[i]
		switch {
		case c == ' ' || c == '\t' || c == '\n' || c == '\r':
			i++
		case strings.HasPrefix(src[i:], "//"):
			for i < len(src) && src[i] != '\n' {
				i++
			}
		case strings.HasPrefix(src[i:], "/*"):
			j := strings.Index(src[i+2:], "*/")
			if j < 0 {
				return nil, fmt.Errorf("unterminated comment")
			}
			i += j + 4
		case strings.HasPrefix(src[i:], "---"):
			j := strings.Index(src[i+3:], "---")
			if j < 0 {
				return nil, fmt.Errorf("bad section")
			}
			out = append(out, tok{"sect", src[i+3 : i+3+j]})
			i += j + 6
		case c == '@':
			j := i + 1
			for j < len(src) && isIdentChar(src[j]) {
				j++
			}
			out = append(out, tok{"attr", src[i+1 : j]})
			i = j
		case c >= '0' && c <= '9':
			j := i
			for j < len(src) && src[j] >= '0' && src[j] <= '9' {
				j++
			}
			out = append(out, tok{"num", src[i:j]})
			i = j
		case isIdentChar(c):
			j := i
			for j < len(src) && (isIdentChar(src[j]) || (src[j] == '.' && j+1 < len(src) && isIdentChar(src[j+1]))) {
				j++
			}
			out = append(out, tok{"id", src[i:j]})
			i = j
			if i < len(src) && src[i] == '#' && i+1 < len(src) && isHex(src[i+1]) {
				j = i + 1
				for j < len(src) && isHex(src[j]) {
					j++
				}
				out = append(out, tok{"tag", src[i+1 : j]})
				i = j
			}
		default:
			out = append(out, tok{"sym", string(c)})
			i++
		}
	}
	return out, nil
}

// ---------- AST ----------
type TypeExpr struct {
	Name   string // identifier, "#" for nat, "" for repeat / number
	Args   []*TypeExpr
	Bare   bool // % prefix
	Bang   bool
	IsNum  bool
	Num    int64
	Repeat bool      // [elem] with Count (nil = implicit: previous nat)
	Count  *TypeExpr // number or identifier
	Elem   *TypeExpr
}

type Field struct {
	Name     string
	MaskName string // "" if unconditional
	MaskBit  int
	Type     *TypeExpr
}

type Param struct {
	Name  string
	IsNat bool
}

type Combinator struct {
	Name       string
	Tag        uint32
	HasTag     bool
	Params     []Param
	Fields     []Field
	Builtin    bool // body is `?`
	ResultName string
	ResultArgs []*TypeExpr
	IsFunction bool
	File       string
}

type parser struct {
	t []tok
	p int
}

func (p *parser) peek() tok {
	if p.p < len(p.t) {
		return p.t[p.p]
	}
	return tok{"eof", ""}
}
func (p *parser) next() tok { t := p.peek(); p.p++; return t }
func (p *parser) isSym(s string) bool {
	t := p.peek()
	return t.k == "sym" && t.s == s
}
func (p *parser) expectSym(s string) error {
	if !p.isSym(s) {
		return fmt.Errorf("expected %q, got %v at token %d", s, p.peek(), p.p)
	}
	p.p++
	return nil
}

// term := '%' term | '!' term | '(' expr ')' | '[' expr ']' | num ['*' '[' expr ']'] | '#' | id ['<' expr {',' expr} '>'] ['*' '[' expr ']']
func (p *parser) term() (*TypeExpr, error) {
	t := p.peek()
	switch {
	case t.k == "sym" && t.s == "%":
		p.p++
		e, err := p.term()
		if err != nil {
			return nil, err
		}
		e.Bare = true
		return e, nil
	case t.k == "sym" && t.s == "!":
		p.p++
		e, err := p.term()
		if err != nil {
			return nil, err
		}
		e.Bang = true
		return e, nil
	case t.k == "sym" && t.s == "(":
		p.p++
		e, err := p.expr()
		if err != nil {
			return nil, err
		}
		return e, p.expectSym(")")
	case t.k == "sym" && t.s == "[":
		p.p++
		e, err := p.expr()
		if err != nil {
			return nil, err
		}
		return &TypeExpr{Repeat: true, Elem: e}, p.expectSym("]")
	case t.k == "sym" && t.s == "#":
		p.p++
		return &TypeExpr{Name: "#"}, nil
	case t.k == "num":
		p.p++
		n, _ := strconv.ParseInt(t.s, 10, 64)
		e := &TypeExpr{IsNum: true, Num: n}
		if p.isSym("*") {
			return p.repeatAfter(e)
		}
		return e, nil
	case t.k == "id":
		p.p++
		e := &TypeExpr{Name: t.s}
		if p.isSym("<") {
			p.p++
			for {
				a, err := p.expr()
				if err != nil {
					return nil, err
				}
				e.Args = append(e.Args, a)
				if p.isSym(",") {
					p.p++
					continue
				}
				break
			}
			if err := p.expectSym(">"); err != nil {
				return nil, err
			}
		}
		if p.isSym("*") {
			return p.repeatAfter(e)
		}
		return e, nil
	}
	return nil, fmt.Errorf("unexpected token %v at %d", t, p.p)
}

func (p *parser) repeatAfter(count *TypeExpr) (*TypeExpr, error) {
	p.p++ // '*'
	if err := p.expectSym("["); err != nil {
		return nil, err
	}
	e, err := p.expr()
	if err != nil {
		return nil, err
	}
	return &TypeExpr{Repeat: true, Count: count, Elem: e}, p.expectSym("]")
}

func (p *parser) startsTerm() bool {
	t := p.peek()
	if t.k == "id" || t.k == "num" {
		return true
	}
	return t.k == "sym" && (t.s == "%" || t.s == "!" || t.s == "(" || t.s == "[" || t.s == "#")
}

// expr := term {term}   (application)
func (p *parser) expr() (*TypeExpr, error) {
	h, err := p.term()
	if err != nil {
		return nil, err
	}
	for p.startsTerm() {
		a, err := p.term()
		if err != nil {
			return nil, err
		}
		if h.Repeat || h.IsNum || h.Name == "#" {
			return nil, fmt.Errorf("application of a non-identifier")
		}
		h.Args = append(h.Args, a)
	}
	return h, nil
}

func splitMask(id string) (string, int, bool) {
	k := strings.LastIndexByte(id, '.')
	if k < 0 {
		return "", 0, false
	}
	n, err := strconv.Atoi(id[k+1:])
	if err != nil {
		return "", 0, false
	}
	return id[:k], n, true
}

func parseFile(path string) ([]*Combinator, error) {
	b, err := os.ReadFile(path)
	if err != nil {
		return nil, err
	}
	toks, err := lex(string(b))
	if err != nil {
		return nil, fmt.Errorf("%s: %w", path, err)
	}
	p := &parser{t: toks}
	var out []*Combinator
	functions := false
	for p.peek().k != "eof" {
		t := p.peek()
		if t.k == "sect" {
			functions = t.s == "functions"
			p.p++
			continue
		}
		for p.peek().k == "attr" {
			p.p++
		}
		c := &Combinator{IsFunction: functions, File: filepath.Base(path)}
		t = p.next()
		if t.k != "id" {
			return nil, fmt.Errorf("%s: expected combinator name, got %v", path, t)
		}
		c.Name = t.s
		if p.peek().k == "tag" {
			v, _ := strconv.ParseUint(p.next().s, 16, 32)
			c.Tag, c.HasTag = uint32(v), true
		}
		for !p.isSym("=") {
			switch {
			case p.isSym("{"):
				p.p++
				n := p.next()
				if err := p.expectSym(":"); err != nil {
					return nil, fmt.Errorf("%s %s: %w", path, c.Name, err)
				}
				ty := p.next()
				c.Params = append(c.Params, Param{Name: n.s, IsNat: ty.k == "sym" && ty.s == "#"})
				if err := p.expectSym("}"); err != nil {
					return nil, fmt.Errorf("%s %s: %w", path, c.Name, err)
				}
			case p.isSym("?"):
				p.p++
				c.Builtin = true
			default:
				f := Field{}
				if p.peek().k == "id" && p.p+1 < len(p.t) && p.t[p.p+1].k == "sym" && p.t[p.p+1].s == ":" {
					f.Name = p.next().s
					p.p++
				}
				if p.peek().k == "id" && p.p+1 < len(p.t) && p.t[p.p+1].k == "sym" && p.t[p.p+1].s == "?" {
					m, bit, ok := splitMask(p.peek().s)
					if !ok {
						return nil, fmt.Errorf("%s %s: bad field mask %q", path, c.Name, p.peek().s)
					}
					f.MaskName, f.MaskBit = m, bit
					p.p += 2
				}
				ty, err := p.term()
				if err != nil {
					return nil, fmt.Errorf("%s %s: %w", path, c.Name, err)
				}
				f.Type = ty
				c.Fields = append(c.Fields, f)
			}
		}
		p.p++ // '='
		r, err := p.expr()
		if err != nil {
			return nil, fmt.Errorf("%s %s result: %w", path, c.Name, err)
		}
		c.ResultName, c.ResultArgs = r.Name, r.Args
		if err := p.expectSym(";"); err != nil {
			return nil, fmt.Errorf("%s %s: %w", path, c.Name, err)
		}
		out = append(out, c)
	}
	return out, nil
}

// ---------- descriptions ----------
type NatExpr struct {
	Const bool
	Val   int64 // constant or environment index
}

func (n NatExpr) Coq() string {
	if n.Const {
		return fmt.Sprintf("(NConst %d)", n.Val)
	}
	return fmt.Sprintf("(NVar %d%%nat)", n.Val)
}

type DField struct {
	Cond bool
	Mask NatExpr
	Bit  int
	T    *Desc
}
type DCtor struct {
	Tag uint32
	T   *Desc
}
type Desc struct {
	Kind   string // prim bool vector tuple struct union boxed
	Sorted bool   // vector that is a `dictionary`: a Go map, written in ascending key order
	Prim   string
	Tf, Tt uint32
	Elem   *Desc
	N      NatExpr
	Fields []DField
	Ctors  []DCtor
	Tag    uint32
}

func (d *Desc) Coq() string {
	switch d.Kind {
	case "prim":
		return "(DPrim " + d.Prim + ")"
	case "bool":
		return fmt.Sprintf("(DBool %d %d)", d.Tf, d.Tt)
	case "vector":
		if d.Sorted {
			return "(DVector true " + d.Elem.Coq() + ")"
		}
		return "(DVector false " + d.Elem.Coq() + ")"
	case "tuple":
		return "(DTuple " + d.N.Coq() + " " + d.Elem.Coq() + ")"
	case "struct":
		parts := make([]string, len(d.Fields))
		for i, f := range d.Fields {
			c := "None"
			if f.Cond {
				c = fmt.Sprintf("(Some (%s, %d))", f.Mask.Coq(), f.Bit)
			}
			parts[i] = "(" + c + ", " + f.T.Coq() + ")"
		}
		return "(DStruct [" + strings.Join(parts, "; ") + "])"
	case "union":
		parts := make([]string, len(d.Ctors))
		for i, c := range d.Ctors {
			parts[i] = fmt.Sprintf("(%d, %s)", c.Tag, c.T.Coq())
		}
		return "(DUnion [" + strings.Join(parts, "; ") + "])"
	case "boxed":
		return fmt.Sprintf("(DBoxed %d %s)", d.Tag, d.Elem.Coq())
	}
	panic("bad desc kind " + d.Kind)
}

// Schema = one group of .tl files generated together
type Schema struct {
	Group  string
	byName map[string]*Combinator   // constructors and functions
	byType map[string][]*Combinator // result type name -> constructors (types section only)
	TagOf  func(name string) (uint32, bool)
}

type Item struct {
	Group      string
	Name       string // TL name as the generated factories know it
	Tag        uint32 // 0 for a union type item
	IsUnion    bool
	IsFunction bool
	D          *Desc
}

func (it Item) Key() string { return it.Group + "/" + it.Name }

// builtin primitives of tl2gen; the boxed tags are the TL standard ones
var prims = map[string]struct {
	p   string
	tag uint32
}{
	"int": {"PInt", 0xa8509bda}, "long": {"PLong", 0x22076cba}, "float": {"PFloat", 0x824dab22},
	"double": {"PDouble", 0x2210c154}, "string": {"PString", 0xb5286e24},
}

type tyArg func(envSize *int) (*Desc, error)

type ctx struct {
	nats  map[string]NatExpr
	types map[string]tyArg
}

func lowerFirstOfLast(name string) bool {
	k := strings.LastIndexByte(name, '.')
	r := rune(name[k+1])
	return unicode.IsLower(r)
}

func (s *Schema) tag(c *Combinator) (uint32, error) {
	if c.HasTag {
		return c.Tag, nil
	}
	if s.TagOf != nil {
		if t, ok := s.TagOf(c.Name); ok {
			return t, nil
		}
	}
	return 0, fmt.Errorf("no tag known for %s", c.Name)
}

func (s *Schema) natArg(e *TypeExpr, cx *ctx) (NatExpr, error) {
	if e.IsNum {
		return NatExpr{Const: true, Val: e.Num}, nil
	}
	if n, ok := cx.nats[e.Name]; ok && len(e.Args) == 0 {
		return n, nil
	}
	return NatExpr{}, fmt.Errorf("cannot resolve nat argument %q", e.Name)
}

// body of constructor c applied to args, laid out in the environment of the use site (size *envSize)
func (s *Schema) body(c *Combinator, args []*TypeExpr, cx *ctx, envSize *int) (*Desc, error) {
	if len(args) != len(c.Params) {
		return nil, fmt.Errorf("%s: %d arguments for %d parameters", c.Name, len(args), len(c.Params))
	}
	in := &ctx{nats: map[string]NatExpr{}, types: map[string]tyArg{}}
	for i, p := range c.Params {
		a := args[i]
		if p.IsNat {
			n, err := s.natArg(a, cx)
			if err != nil {
				return nil, fmt.Errorf("%s: %w", c.Name, err)
			}
			in.nats[p.Name] = n
		} else {
			in.types[p.Name] = func(es *int) (*Desc, error) { return s.resolve(a, cx, es) }
		}
	}
	saved := *envSize
	defer func() { *envSize = saved }() // the `#` fields of a constructor are visible only inside it
	// `# [t]` : vector (the count is not a field of the environment)
	if len(c.Fields) == 2 && c.Fields[0].Name == "" && c.Fields[0].Type.Name == "#" && c.Fields[0].MaskName == "" &&
		c.Fields[1].Type.Repeat && c.Fields[1].Type.Count == nil {
		el, err := s.resolve(c.Fields[1].Type.Elem, in, envSize)
		if err != nil {
			return nil, err
		}
		return &Desc{Kind: "vector", Elem: el}, nil
	}
	// `dictionary {t:Type} %(Vector %(DictionaryField t))`: tl2gen generates a Go map for it
	if c.Name == "dictionary" && len(c.Fields) == 1 && c.Fields[0].MaskName == "" {
		v, err := s.resolve(c.Fields[0].Type, in, envSize)
		if err != nil {
			return nil, err
		}
		if v.Kind != "vector" {
			return nil, fmt.Errorf("dictionary is not a vector")
		}
		v.Sorted = true
		return v, nil
	}
	d := &Desc{Kind: "struct"}
	for _, f := range c.Fields {
		if f.Type.Bang {
			return nil, fmt.Errorf("%s: !X fields are not supported", c.Name)
		}
		df := DField{}
		if f.MaskName != "" {
			m, ok := in.nats[f.MaskName]
			if !ok {
				return nil, fmt.Errorf("%s: unknown fields mask %s", c.Name, f.MaskName)
			}
			df.Cond, df.Mask, df.Bit = true, m, f.MaskBit
		}
		if f.Type.Repeat && f.Type.Count == nil {
			// `{n:#} [t]`: repeat by the last nat parameter
			var last *Param
			for i := range c.Params {
				if c.Params[i].IsNat {
					last = &c.Params[i]
				}
			}
			if last == nil {
				return nil, fmt.Errorf("%s: repeat without a count", c.Name)
			}
			el, err := s.resolve(f.Type.Elem, in, envSize)
			if err != nil {
				return nil, err
			}
			df.T = &Desc{Kind: "tuple", N: in.nats[last.Name], Elem: el}
			d.Fields = append(d.Fields, df)
			continue
		}
		t, err := s.resolve(f.Type, in, envSize)
		if err != nil {
			return nil, fmt.Errorf("%s.%s: %w", c.Name, f.Name, err)
		}
		df.T = t
		d.Fields = append(d.Fields, df)
		if t.Kind == "prim" && t.Prim == "PNat" {
			in.nats[f.Name] = NatExpr{Val: int64(*envSize)}
			*envSize++
		}
	}
	return d, nil
}

func (s *Schema) resolve(e *TypeExpr, cx *ctx, envSize *int) (*Desc, error) {
	if e.Bang {
		return nil, fmt.Errorf("!X is not supported")
	}
	if e.Repeat {
		if e.Count == nil {
			return nil, fmt.Errorf("repeat without count outside a constructor body")
		}
		n, err := s.natArg(e.Count, cx)
		if err != nil {
			return nil, err
		}
		el, err := s.resolve(e.Elem, cx, envSize)
		if err != nil {
			return nil, err
		}
		return &Desc{Kind: "tuple", N: n, Elem: el}, nil
	}
	if e.IsNum {
		return nil, fmt.Errorf("number used as a type")
	}
	if e.Name == "#" {
		return &Desc{Kind: "prim", Prim: "PNat"}, nil
	}
	if ta, ok := cx.types[e.Name]; ok && len(e.Args) == 0 {
		return ta(envSize)
	}
	if pr, ok := prims[e.Name]; ok && len(e.Args) == 0 {
		return &Desc{Kind: "prim", Prim: pr.p}, nil
	}
	if pr, ok := prims[strings.ToLower(e.Name[:1])+e.Name[1:]]; ok && len(e.Args) == 0 && !strings.Contains(e.Name, ".") {
		d := &Desc{Kind: "prim", Prim: pr.p}
		if e.Bare {
			return d, nil
		}
		return &Desc{Kind: "boxed", Tag: pr.tag, Elem: d}, nil
	}
	if lowerFirstOfLast(e.Name) {
		c, ok := s.byName[e.Name]
		if !ok || c.IsFunction {
			return nil, fmt.Errorf("unknown constructor %s", e.Name)
		}
		return s.body(c, e.Args, cx, envSize)
	}
	cs := s.byType[e.Name]
	if len(cs) == 0 {
		return nil, fmt.Errorf("unknown type %s", e.Name)
	}
	if len(cs) == 1 {
		b, err := s.body(cs[0], e.Args, cx, envSize)
		if err != nil {
			return nil, err
		}
		if e.Bare {
			return b, nil
		}
		t, err := s.tag(cs[0])
		if err != nil {
			return nil, err
		}
		return &Desc{Kind: "boxed", Tag: t, Elem: b}, nil
	}
	if e.Bare {
		return nil, fmt.Errorf("bare use of union %s", e.Name)
	}
	return s.union(cs, e.Args, cx, envSize)
}

func (s *Schema) union(cs []*Combinator, args []*TypeExpr, cx *ctx, envSize *int) (*Desc, error) {
	if cs[0].ResultName == "Bool" && len(cs) == 2 && len(cs[0].Fields) == 0 && len(cs[1].Fields) == 0 {
		tf, err1 := s.tag(cs[0])
		tt, err2 := s.tag(cs[1])
		if err1 != nil || err2 != nil {
			return nil, fmt.Errorf("Bool tags unknown")
		}
		if cs[0].Name == "boolTrue" {
			tf, tt = tt, tf
		}
		return &Desc{Kind: "bool", Tf: tf, Tt: tt}, nil
	}
	d := &Desc{Kind: "union"}
	for _, c := range cs {
		b, err := s.body(c, args, cx, envSize)
		if err != nil {
			return nil, err
		}
		t, err := s.tag(c)
		if err != nil {
			return nil, err
		}
		d.Ctors = append(d.Ctors, DCtor{Tag: t, T: b})
	}
	return d, nil
}

// Load parses the files of one group and returns the schema plus the items that can be described:
// every constructor and function without template parameters, and every union type without parameters.
func Load(group string, files []string, tagOf func(string) (uint32, bool)) (*Schema, []Item, []string, error) {
	s := &Schema{Group: group, byName: map[string]*Combinator{}, byType: map[string][]*Combinator{}, TagOf: tagOf}
	var all []*Combinator
	for _, f := range files {
		cs, err := parseFile(f)
		if err != nil {
			return nil, nil, nil, err
		}
		all = append(all, cs...)
	}
	for _, c := range all {
		if c.Builtin {
			continue
		}
		s.byName[c.Name] = c
		if !c.IsFunction {
			s.byType[c.ResultName] = append(s.byType[c.ResultName], c)
		}
	}
	var items []Item
	var skipped []string
	for _, c := range all {
		if c.Builtin {
			// `int ? = Int`: the factory item is the bare primitive
			if pr, ok := prims[c.Name]; ok {
				items = append(items, Item{Group: group, Name: c.Name, Tag: pr.tag, D: &Desc{Kind: "prim", Prim: pr.p}})
			}
			continue
		}
		if len(c.Params) != 0 {
			continue
		}
		es := 0
		b, err := s.body(c, nil, &ctx{nats: map[string]NatExpr{}, types: map[string]tyArg{}}, &es)
		if err != nil {
			skipped = append(skipped, c.Name+": "+err.Error())
			continue
		}
		t, err := s.tag(c)
		if err != nil {
			skipped = append(skipped, c.Name+": "+err.Error())
			continue
		}
		items = append(items, Item{Group: group, Name: c.Name, Tag: t, IsFunction: c.IsFunction, D: b})
	}
	var tnames []string
	for tn := range s.byType {
		tnames = append(tnames, tn)
	}
	sort.Strings(tnames)
	for _, tn := range tnames {
		cs := s.byType[tn]
		if len(cs) < 2 || len(cs[0].Params) != 0 {
			continue
		}
		es := 0
		d, err := s.union(cs, nil, &ctx{nats: map[string]NatExpr{}, types: map[string]tyArg{}}, &es)
		if err != nil {
			skipped = append(skipped, tn+": "+err.Error())
			continue
		}
		items = append(items, Item{Group: group, Name: tn, IsUnion: true, D: d})
	}
	sort.SliceStable(items, func(i, j int) bool { return items[i].Name < items[j].Name })
	return s, items, skipped, nil
}

// Groups of schema files, relative to the repository root, in the order of the generated schema list.
var Groups = []struct {
	Name  string
	Files []string
}{
	{"statshouse", []string{"internal/data_model/common.tl", "internal/data_model/engine.tl", "internal/data_model/metadata.tl",
		"internal/data_model/schema.tl", "internal/data_model/public.tl", "internal/data_model/api.tl"}},
	{"fsbinlog", []string{"internal/vkgo/binlog/fsbinlog/schema.tl"}},
	{"sqlite", []string{"internal/vkgo/sqlitev2/checkpoint/metainfo.tl"}},
}

// LoadAll loads all groups; tagOf[group] supplies tags the schema leaves implicit (from the generated meta).
func LoadAll(root string, tagOf map[string]func(string) (uint32, bool)) ([]Item, []string, error) {
	var items []Item
	var skipped []string
	for _, g := range Groups {
		var fs []string
		for _, f := range g.Files {
			fs = append(fs, filepath.Join(root, f))
		}
		_, its, sk, err := Load(g.Name, fs, tagOf[g.Name])
		if err != nil {
			return nil, nil, err
		}
		items = append(items, its...)
		for _, x := range sk {
			skipped = append(skipped, g.Name+"/"+x)
		}
	}
	return items, skipped, nil
}

func RepoRoot() string {
	if r := os.Getenv("VERIF_REPO"); r != "" {
		return r
	}
	return "/repo"
}
