//go:build verif

package parser

// Accessors for the C28 harness and translator (add-only; nothing here changes the parser).

// VerifKeywords returns the lexer's keyword table (lex.go: key, including "inf"/"nan" added by init).
func VerifKeywords() map[string]ItemType {
	m := make(map[string]ItemType, len(key))
	for k, v := range key {
		m[k] = v
	}
	return m
}

// VerifErrUnexpected is the error ParseExpr returns after recovering from a runtime panic.
func VerifErrUnexpected() error { return errUnexpected }
