(* C23 — memory accounting of the whole-cache model, by induction over ALL histories:
   the water levels equal what buckets and chunks hold after every step, hence are zero when no bucket is left. *)
From Coq Require Import ZArith List Bool Lia.
From SH Require Import Cache2.Model.
Import ListNotations.
Open Scope Z_scope.

Fixpoint csum (f : chunk -> Z) (l : list chunk) : Z := match l with [] => 0 | c :: r => f c + csum f r end.
Fixpoint bsum (f : chunk -> Z) (l : list bucket) : Z := match l with [] => 0 | b :: r => csum f (b_chunks b) + bsum f r end.
Definition one (_ : chunk) : Z := 1.

Lemma sum_size_csum : forall l, sum_size l = csum c_size l.
Proof. induction l; simpl; congruence. Qed.
Lemma csum_app : forall f a b, csum f (a ++ b) = csum f a + csum f b.
Proof. induction a; intros; simpl; [reflexivity | rewrite IHa; lia]. Qed.
Lemma csum_one : forall l, csum one l = zlen l.
Proof. induction l; [reflexivity|]. cbn [csum]. rewrite IHl. unfold one, zlen. cbn [length]. rewrite Nat2Z.inj_succ. lia. Qed.
Lemma tot_addm : forall p m d, tot (addm p m d) = tot p + d.
Proof. intros [a b] m d. unfold addm, tot. destruct (m =? 0); simpl; lia. Qed.
Lemma zlen_cons : forall A (x : A) l, zlen (x :: l) = 1 + zlen l.
Proof. intros. unfold zlen. cbn [length]. rewrite Nat2Z.inj_succ. lia. Qed.
Lemma zlen_app : forall A (a b : list A), zlen (a ++ b) = zlen a + zlen b.
Proof. intros. unfold zlen. rewrite app_length. lia. Qed.

(* ---- buckets: first-match replace / append / drop ---- *)
Lemma put_found : forall f sp k nb l b, find_bucket sp k l = Some b -> b_step nb = sp -> b_key nb = k ->
  bsum f (put_bucket nb l) = bsum f l - csum f (b_chunks b) + csum f (b_chunks nb) /\ zlen (put_bucket nb l) = zlen l.
Proof.
  induction l as [|x l IH]; intros b Hf Hs Hk; cbn [find_bucket put_bucket drop_bucket bsum] in *; [discriminate|].
  rewrite Hs, Hk. destruct ((b_step x =? sp) && (b_key x =? k)).
  - injection Hf as <-. cbn [bsum]. rewrite !zlen_cons. split; lia.
  - destruct (IH b Hf Hs Hk) as [A B]. cbn [bsum]. rewrite !zlen_cons. split; lia.
Qed.
Lemma put_none : forall f sp k nb l, find_bucket sp k l = None -> b_step nb = sp -> b_key nb = k ->
  bsum f (put_bucket nb l) = bsum f l + csum f (b_chunks nb) /\ zlen (put_bucket nb l) = zlen l + 1.
Proof.
  induction l as [|x l IH]; intros Hf Hs Hk; cbn [find_bucket put_bucket drop_bucket bsum] in *.
  - unfold zlen; cbn; split; lia.
  - rewrite Hs, Hk. destruct ((b_step x =? sp) && (b_key x =? k)); [discriminate|].
    destruct (IH Hf Hs Hk) as [A B]. cbn [bsum]. rewrite !zlen_cons. split; lia.
Qed.
Lemma drop_found : forall f sp k l b, find_bucket sp k l = Some b ->
  bsum f (drop_bucket sp k l) = bsum f l - csum f (b_chunks b) /\ zlen (drop_bucket sp k l) = zlen l - 1.
Proof.
  induction l as [|x l IH]; intros b Hf; cbn [find_bucket put_bucket drop_bucket bsum] in *; [discriminate|].
  destruct ((b_step x =? sp) && (b_key x =? k)).
  - injection Hf as <-. rewrite zlen_cons. split; lia.
  - destruct (IH b Hf) as [A B]. cbn [bsum]. rewrite !zlen_cons. split; lia.
Qed.
Lemma find_bucket_key : forall sp k l b, find_bucket sp k l = Some b -> b_step b = sp /\ b_key b = k.
Proof.
  induction l as [|x l IH]; intros b H; simpl in H; [discriminate|].
  destruct ((b_step x =? sp) && (b_key x =? k)) eqn:E.
  - injection H as <-. apply andb_true_iff in E. destruct E. split; apply Z.eqb_eq; assumption.
  - apply IH; assumption.
Qed.

(* ---- chunks: replace first by start / sorted insert / replace first by id ---- *)
Lemma repl_start_csum : forall f t g l, (forall c, f (g c) = f c) -> csum f (repl_start t g l) = csum f l.
Proof. induction l as [|c r IH]; intros H; simpl; [reflexivity|]. destruct (c_start c =? t); simpl; [rewrite H | rewrite IH by assumption]; reflexivity. Qed.
Lemma ins_sorted_csum : forall f c l, csum f (ins_sorted c l) = f c + csum f l.
Proof. induction l as [|x r IH]; simpl; [reflexivity|]. destruct (c_start c <? c_start x); simpl; [reflexivity | rewrite IH; lia]. Qed.
Lemma repl_first_csum : forall f id nc l c, take_by_id id l = Some c -> csum f (repl_first id nc l) = csum f l - f c + f nc.
Proof.
  induction l as [|x r IH]; intros c H; simpl in *; [discriminate|].
  destruct (c_id x =? id); [injection H as <-; simpl; lia | simpl; rewrite (IH c H); lia].
Qed.

Section Acc.
Variables CS COL ROW : Z.
Variable FX : bool.

Definition Acc (s : st) : Prop :=
  isize (inf s) = bsum c_size (bks s) /\ tot (i_bc (inf s)) = zlen (bks s) /\
  tot (i_cc (inf s)) = bsum one (bks s) /\ tot (i_cs (inf s)) = CS * bsum one (bks s).

(* states that differ only in fields Acc does not read *)
Lemma Acc_ext : forall s s', bks s' = bks s -> inf s' = inf s -> Acc s -> Acc s'.
Proof. unfold Acc. intros s s' Hb Hi H. rewrite Hb, Hi. exact H. Qed.

Lemma signal_if_bks : forall s, bks (signal_if s) = bks s /\ inf (signal_if s) = inf s.
Proof. intros. unfold signal_if. destruct (negb (l_max s =? 0) && (l_soft s <? isize (inf s))); split; reflexivity. Qed.

(* ---- Get ---- *)
Definition size_pres (g : chunk -> chunk) : Prop := forall c, c_size (g c) = c_size c.
Lemma disp_fun_size : forall rid tnow ls le pos d, size_pres (disp_fun CS rid tnow ls le pos d).
Proof. intros. destruct d; intro c; reflexivity. Qed.
Lemma disp_fun_start : forall rid tnow ls le pos d c, c_start (disp_fun CS rid tnow ls le pos d c) = c_start c.
Proof. intros. destruct d; reflexivity. Qed.

Definition has_start (t : Z) (l : list chunk) : bool := existsb (fun c => c_start c =? t) l.

Lemma repl_start_has : forall t' t g l, (forall c, c_start (g c) = c_start c) -> has_start t' (repl_start t g l) = has_start t' l.
Proof.
  unfold has_start. induction l as [|c r IH]; intros H; simpl; [reflexivity|].
  destruct (c_start c =? t); simpl; [rewrite H; reflexivity | rewrite IH by assumption; reflexivity].
Qed.
Lemma ins_sorted_has : forall t' c l, has_start t' (ins_sorted c l) = (c_start c =? t') || has_start t' l.
Proof.
  unfold has_start. induction l as [|x r IH]; simpl; [rewrite orb_false_r; reflexivity|].
  destruct (c_start c <? c_start x); simpl; [reflexivity|]. rewrite IH.
  destruct (c_start x =? t'), (c_start c =? t'); reflexivity.
Qed.

(* one gathered chunk: either already in the bucket (by start) or of size 0 *)
Definition gathered_ok (old : list chunk) (c : chunk) : Prop := has_start (c_start c) old = true \/ c_size c = 0.

Lemma find_chunk_has : forall t l c, find_chunk t l = Some c -> c_start c = t /\ has_start t l = true.
Proof.
  unfold has_start. induction l as [|x r IH]; intros c H; simpl in *; [discriminate|].
  destruct (c_start x =? t) eqn:E.
  - injection H as <-. split; [apply Z.eqb_eq; assumption | reflexivity].
  - destruct (IH c H) as [A B]. split; [assumption|]. rewrite B. reflexivity.
Qed.

Lemma gather_ok : forall n t step old nc, Forall (gathered_ok old) (map fst (fst (gather CS n t step old nc))).
Proof.
  induction n as [|n IH]; intros; simpl; [constructor|].
  destruct (find_chunk t old) eqn:E.
  - specialize (IH (t + dur CS step) step old nc). destruct (gather CS n (t + dur CS step) step old nc) as [r nc'].
    simpl. constructor; [|exact IH]. left. destruct (find_chunk_has _ _ _ E) as [A B]. rewrite A. exact B.
  - specialize (IH (t + dur CS step) step old (nc + 1)). destruct (gather CS n (t + dur CS step) step old (nc + 1)) as [r nc'].
    simpl. constructor; [|exact IH]. right. reflexivity.
Qed.

Definition get_inv (old : list chunk) (a : iacc) : Prop :=
  (forall t, has_start t old = true -> has_start t (ia_chunks a) = true) /\
  csum c_size (ia_chunks a) = csum c_size old /\ csum one (ia_chunks a) = csum one old + ia_new a.

Lemma apply_disp_inv : forall rid tnow ls le old a k c d,
  gathered_ok old c -> get_inv old a -> get_inv old (apply_disp CS rid tnow ls le a (k, (c, d))).
Proof.
  intros rid tnow ls le old a k c d Hc [H1 [H2 H3]]. unfold apply_disp, upd_at.
  fold (has_start (c_start c) (ia_chunks a)).
  set (g := disp_fun CS rid tnow ls le (k * CS) d).
  assert (Hg : forall x, c_start (g x) = c_start x) by (intro; apply disp_fun_start).
  assert (Hs : forall x, c_size (g x) = c_size x) by (apply disp_fun_size).
  destruct (has_start (c_start c) (ia_chunks a)) eqn:E; unfold get_inv; simpl.
  - split; [|split].
    + intros t Ht. rewrite repl_start_has by assumption. auto.
    + rewrite repl_start_csum by assumption. assumption.
    + rewrite repl_start_csum by (intro; reflexivity). assumption.
  - split; [|split].
    + intros t Ht. rewrite ins_sorted_has. rewrite (H1 t Ht). apply orb_true_r.
    + rewrite ins_sorted_csum, Hs. destruct Hc as [Hc|Hc]; [apply H1 in Hc; congruence | lia].
    + rewrite ins_sorted_csum. unfold one at 1. lia.
Qed.

Lemma fold_apply_disp_inv : forall rid tnow ls le old xs a,
  Forall (fun x => gathered_ok old (fst (snd x))) xs -> get_inv old a ->
  get_inv old (fold_left (apply_disp CS rid tnow ls le) xs a).
Proof.
  induction xs as [|[k [c d]] xs IH]; intros a Hf Ha; simpl; [assumption|].
  inversion Hf; subst. apply IH; [assumption|]. apply apply_disp_inv; assumption.
Qed.

Lemma Forall_combine_gathered : forall old (cs : list chunk) (ks : list Z) (ds : list disp),
  Forall (gathered_ok old) cs -> Forall (fun x : Z * (chunk * disp) => gathered_ok old (fst (snd x))) (combine ks (combine cs ds)).
Proof.
  intros old cs. induction cs as [|c cs IH]; intros ks ds H.
  - simpl. destruct ks; constructor.
  - inversion H; subst. destruct ds as [|d ds]; [destruct ks; constructor|].
    destruct ks as [|k ks]; [constructor|]. simpl. constructor; [assumption | apply IH; assumption].
Qed.

Lemma do_get_acc : forall s rid step key from to play force,
  Acc s -> Acc (fst (do_get CS s rid step key from to play force)).
Proof.
  intros s rid step key from to play force [A1 [A2 [A3 A4]]]. unfold do_get.
  set (md := mode play).
  destruct (find_bucket step key (bks s)) as [b|] eqn:Eb.
  - (* existing bucket *)
    destruct (gather CS (Z.to_nat ((to - cstart CS step from + dur CS step - 1) / dur CS step)) (cstart CS step from) step (b_chunks b) (nextc s)) as [g nc] eqn:Eg.
    set (a := fold_left _ _ _).
    assert (Ha : get_inv (b_chunks b) a).
    { apply fold_apply_disp_inv.
      - apply Forall_combine_gathered. pose proof (gather_ok (Z.to_nat ((to - cstart CS step from + dur CS step - 1) / dur CS step)) (cstart CS step from) step (b_chunks b) (nextc s)) as G. rewrite Eg in G. exact G.
      - split; [auto | split; simpl; lia]. }
    destruct Ha as [_ [H2 H3]].
    destruct (finish_reqs _) as [rs evs]. simpl fst.
    apply (Acc_ext (set_core s (put_bucket (mkBucket step key (ia_chunks a) (now s) play) (bks s)) (limbo s) rs nc
                   (if negb match ia_loads a with [] => true | _ :: _ => false end then nextl s + 1 else nextl s)
                   (mkInfo (i_sz (inf s)) (i_bc (inf s)) (addm (i_cs (inf s)) md (ia_new a * CS)) (addm (i_cc (inf s)) md (ia_new a))) (minacc s)));
      [apply signal_if_bks | apply signal_if_bks |].
    destruct (put_found c_size step key (mkBucket step key (ia_chunks a) (now s) play) (bks s) b Eb eq_refl eq_refl) as [P1 P2].
    destruct (put_found one step key (mkBucket step key (ia_chunks a) (now s) play) (bks s) b Eb eq_refl eq_refl) as [P3 _].
    unfold Acc. simpl. unfold isize in *. simpl. rewrite !tot_addm. simpl in P1, P3. repeat split; try lia; nia.
  - (* new bucket *)
    lazy beta iota zeta delta [b_chunks].
    destruct (gather CS (Z.to_nat ((to - cstart CS step from + dur CS step - 1) / dur CS step)) (cstart CS step from) step [] (nextc s)) as [g nc] eqn:Eg.
    set (a := fold_left _ _ _).
    assert (Ha : get_inv [] a).
    { apply fold_apply_disp_inv.
      - apply Forall_combine_gathered. pose proof (gather_ok (Z.to_nat ((to - cstart CS step from + dur CS step - 1) / dur CS step)) (cstart CS step from) step [] (nextc s)) as G. rewrite Eg in G. exact G.
      - split; [auto | split; simpl; lia]. }
    destruct Ha as [_ [H2 H3]].
    destruct (finish_reqs _) as [rs evs]. simpl fst.
    eapply Acc_ext; [apply signal_if_bks | apply signal_if_bks |].
    destruct (put_none c_size step key (mkBucket step key (ia_chunks a) (now s) play) (bks s) Eb eq_refl eq_refl) as [P1 P2].
    destruct (put_none one step key (mkBucket step key (ia_chunks a) (now s) play) (bks s) Eb eq_refl eq_refl) as [P3 _].
    unfold Acc. simpl. unfold isize in *. simpl. rewrite !tot_addm. simpl in P1, P3, H2, H3. repeat split; try lia; nia.
Qed.

(* ---- LoadDone ---- *)
Lemma post_limbo_acc : forall ok r cd x id, Acc x -> Acc (post_limbo ok r cd x id).
Proof.
  intros. unfold post_limbo. destruct (take_limbo (r_step r) (r_key r) id (limbo x)); [|assumption].
  eapply Acc_ext; [| |eassumption]; reflexivity.
Qed.

Lemma ch_finish_size : forall ok cd sz c, c_size (ch_finish ok cd sz c) = if ok then sz else c_size c.
Proof. intros. unfold ch_finish. destruct ok; reflexivity. Qed.

Lemma post_chunk_acc : forall ok r n x v, Acc x -> Acc (post_chunk CS COL ROW ok r n x v).
Proof.
  intros ok r n x [id pos] H. unfold post_chunk.
  destruct (find_bucket (r_step r) (r_key r) (bks x)) as [b|] eqn:Eb; [|apply post_limbo_acc; assumption].
  destruct (take_by_id id (b_chunks b)) as [c|] eqn:Ec; [|apply post_limbo_acc; assumption].
  destruct (find_bucket_key _ _ _ _ Eb) as [K1 K2].
  set (csize := _ * COL + _). set (cd := slice (r_data r) pos (pos + CS)).
  set (nb := mkBucket (b_step b) (b_key b) (repl_first id (ch_finish ok cd csize c) (b_chunks b)) (b_lat b) (b_play b)).
  destruct (put_found c_size (r_step r) (r_key r) nb (bks x) b Eb K1 K2) as [P1 P2].
  destruct (put_found one (r_step r) (r_key r) nb (bks x) b Eb K1 K2) as [P3 _].
  subst nb. cbn [b_chunks] in P1, P3.
  rewrite (repl_first_csum c_size id _ _ c Ec) in P1. rewrite (repl_first_csum one id _ _ c Ec) in P3.
  rewrite ch_finish_size in P1. change (one c) with 1 in P3. change (one (ch_finish ok cd csize c)) with 1 in P3.
  destruct H as [A1 [A2 [A3 A4]]]. unfold Acc, isize in *. cbn [bks inf set_core].
  destruct ok; cbn [i_sz i_bc i_cs i_cc]; rewrite ?tot_addm; repeat split; try lia; nia.
Qed.

Lemma fold_post_chunk_acc : forall ok r n vs x, Acc x -> Acc (fold_left (post_chunk CS COL ROW ok r n) vs x).
Proof. induction vs as [|v vs IH]; intros x H; simpl; [assumption | apply IH, post_chunk_acc; assumption]. Qed.

Lemma do_loaddone_acc : forall s l ok, Acc s -> Acc (fst (do_loaddone CS COL ROW s l ok)).
Proof.
  intros s l ok H. unfold do_loaddone.
  destruct (filter (fun r => r_load r =? l) (reqs s)) as [|r0 rest]; [assumption|].
  destruct (r_chunks r0) as [|[i0 p0] vs] eqn:Ev; [assumption|].
  set (s2 := fold_left _ _ _).
  assert (H2 : Acc s2).
  { apply fold_post_chunk_acc. eapply Acc_ext; [| |exact H]; reflexivity. }
  destruct (finish_reqs (reqs s2)) as [rs evs]. cbn [fst].
  eapply Acc_ext; [apply signal_if_bks | apply signal_if_bks |]. eapply Acc_ext; [| |exact H2]; reflexivity.
Qed.

(* ---- Invalidate ---- *)
Lemma csum_map : forall f h l, (forall c, f (h c) = f c) -> csum f (map h l) = csum f l.
Proof. induction l as [|c r IH]; intros H; simpl; [reflexivity | rewrite H, IH by assumption; reflexivity]. Qed.

Lemma inval_where_bsum : forall (f : chunk -> Z) p starts tI, (forall c, f (ch_inval tI c) = f c) ->
  forall l, bsum f (inval_where p starts tI l) = bsum f l.
Proof.
  intros f p starts tI Hf. unfold inval_where. induction l as [|b l IH]; simpl; [reflexivity|]. rewrite IH. f_equal.
  destruct (p b); [|reflexivity]. cbn [b_chunks]. apply csum_map. intro c. destruct (existsb _ _); [apply Hf | reflexivity].
Qed.
Lemma inval_where_acc : forall s p starts tI, Acc s -> Acc (set_bks s (inval_where p starts tI (bks s))).
Proof.
  intros s p starts tI [A1 [A2 [A3 A4]]]. unfold Acc, isize, set_bks. cbn [bks inf set_core].
  rewrite (inval_where_bsum c_size) by reflexivity. rewrite (inval_where_bsum one) by reflexivity.
  unfold zlen, inval_where. rewrite map_length. fold (zlen (bks s)). repeat split; assumption.
Qed.
Lemma do_invalidate_acc : forall s step times, Acc s -> Acc (do_invalidate CS s step times).
Proof. intros. apply inval_where_acc. assumption. Qed.
Lemma inv_one_acc : forall s step key starts tI, Acc s -> Acc (inv_one s step key starts tI).
Proof. intros. unfold inv_one. eapply Acc_ext; [| |apply (inval_where_acc s (fun b => (b_step b =? step) && (b_key b =? key)) starts tI H)]; reflexivity. Qed.

(* ---- removal of chunks ---- *)
Lemma span_old_app : forall t l, fst (span_old t l) ++ snd (span_old t l) = l.
Proof.
  induction l as [|c r IH]; simpl; [reflexivity|].
  destruct (c_lat c <? t); [|reflexivity]. destruct (span_old t r) as [a b]. simpl in *. rewrite IH. reflexivity.
Qed.

Lemma rc_go_csum : forall f fuel t l mn, csum f (fst (fst (rc_go fuel t l mn))) + csum f (snd (fst (rc_go fuel t l mn))) = csum f l.
Proof.
  induction fuel as [|fuel IH]; intros t l mn; simpl; [lia|].
  destruct l as [|c r]; [reflexivity|].
  destruct (c_lat c <? t) eqn:E.
  - pose proof (span_old_app t (c :: r)) as Hs. destruct (span_old t (c :: r)) as [run rest]. cbn [fst snd] in Hs.
    specialize (IH t (skipn (length run) rest) mn). destruct (rc_go fuel t (skipn (length run) rest) mn) as [[k g] m].
    cbn [fst snd] in *. rewrite <- Hs. rewrite !csum_app.
    assert (Hfs : csum f rest = csum f (firstn (length run) rest) + csum f (skipn (length run) rest))
      by (rewrite <- (firstn_skipn (length run) rest) at 1; apply csum_app).
    lia.
  - specialize (IH t r (Z.min mn (c_lat c))). destruct (rc_go fuel t r (Z.min mn (c_lat c))) as [[k g] m].
    cbn [fst snd csum] in *. lia.
Qed.

Lemma filter_csum : forall f p l, csum f (filter (fun c => negb (p c)) l) + csum f (filter p l) = csum f l.
Proof. induction l as [|c r IH]; simpl; [reflexivity|]. destruct (p c); simpl; lia. Qed.

Definition splits (kept gone all : list chunk) : Prop := forall f : chunk -> Z, csum f kept + csum f gone = csum f all.

Lemma remove_chunks_spec : forall b t i mn kept det i' mn',
  remove_chunks CS FX b t i mn = (kept, det, i', mn') ->
  exists gone : list chunk, splits kept gone (b_chunks b) /\ i' = mkInfo (addm (i_sz i) (mode (b_play b)) (- sum_size gone)) (i_bc i)
                (addm (i_cs i) (mode (b_play b)) (- (zlen gone * CS))) (addm (i_cc i) (mode (b_play b)) (- zlen gone)).
Proof.
  intros b t i mn kept det i' mn' H. unfold remove_chunks in H. destruct FX.
  - injection H as <- _ <- _. eexists. split; [intro f; apply filter_csum | reflexivity].
  - pose proof (fun f => rc_go_csum f (S (length (b_chunks b))) t (b_chunks b) mn) as Hc.
    destruct (rc_go (S (length (b_chunks b))) t (b_chunks b) mn) as [[k g] m]. cbn [fst snd] in Hc.
    injection H as <- _ <- _. exists g. split; [exact Hc | reflexivity].
Qed.

Lemma remove_bucket_acc : forall s sp k, Acc s -> Acc (remove_bucket CS s sp k).
Proof.
  intros s sp k [A1 [A2 [A3 A4]]]. unfold remove_bucket.
  destruct (find_bucket sp k (bks s)) as [b|] eqn:Eb; [|repeat split; assumption].
  destruct (drop_found c_size sp k (bks s) b Eb) as [D1 D2]. destruct (drop_found one sp k (bks s) b Eb) as [D3 _].
  unfold Acc, isize in *. cbn [bks inf set_core set_ipass i_sz i_bc i_cs i_cc]. rewrite !tot_addm, sum_size_csum.
  rewrite csum_one in D3. repeat split; try lia; nia.
Qed.

Lemma fold_acc : forall A (f : st -> A -> st) (l : list A), (forall s a, Acc s -> Acc (f s a)) -> forall s, Acc s -> Acc (fold_left f l s).
Proof. induction l as [|a l IH]; intros Hf s H; simpl; [assumption | apply IH; auto]. Qed.

Lemma do_reset_acc : forall s, Acc s -> Acc (do_reset CS s).
Proof.
  intros s H. unfold do_reset. destruct (bks s) eqn:E; [assumption|]. rewrite <- E.
  set (s1 := fold_left _ _ _).
  assert (H1 : Acc s1) by (apply fold_acc; [intros; apply remove_bucket_acc; assumption | assumption]).
  eapply Acc_ext; [apply signal_if_bks | apply signal_if_bks |]. eapply Acc_ext; [| |exact H1]; reflexivity.
Qed.

Lemma trim_aged_bucket_acc : forall dob tnow x b0, Acc (fst x) -> Acc (fst (trim_aged_bucket CS FX dob tnow x b0)).
Proof.
  intros dob tnow [s mins] b0 H. cbn [fst] in H. unfold trim_aged_bucket.
  destruct (find_bucket (b_step b0) (b_key b0) (bks s)) as [b|] eqn:Eb; [|assumption].
  destruct (b_lat b <=? dob); [apply remove_bucket_acc; assumption|].
  destruct (remove_chunks CS FX b dob (inf s) tnow) as [[[kept det] i'] mn] eqn:Er. cbn [fst].
  destruct (remove_chunks_spec _ _ _ _ _ _ _ _ Er) as [gone [Hc Hi]].
  destruct (find_bucket_key _ _ _ _ Eb) as [K1 K2].
  set (nb := mkBucket (b_step b) (b_key b) kept (b_lat b) (b_play b)).
  destruct (put_found c_size (b_step b0) (b_key b0) nb (bks s) b Eb K1 K2) as [P1 P2].
  destruct (put_found one (b_step b0) (b_key b0) nb (bks s) b Eb K1 K2) as [P3 _].
  subst nb. cbn [b_chunks] in P1, P3. pose proof (Hc c_size) as C1. pose proof (Hc one) as C2.
  rewrite (csum_one gone) in C2.
  destruct H as [A1 [A2 [A3 A4]]]. unfold Acc, isize in *. cbn [bks inf set_core]. subst i'.
  cbn [i_sz i_bc i_cs i_cc]. rewrite !tot_addm, sum_size_csum. repeat split; try lia; nia.
Qed.

Lemma trim_aged_acc : forall s age, Acc s -> Acc (trim_aged CS FX s age).
Proof.
  intros s age H. unfold trim_aged.
  assert (Hf : forall l x, Acc (fst x) -> Acc (fst (fold_left (trim_aged_bucket CS FX (now s - age) (now s)) l x))).
  { induction l as [|b l IH]; intros x Hx; simpl; [assumption | apply IH, trim_aged_bucket_acc; assumption]. }
  specialize (Hf (bks s) (s, []) H).
  destruct (fold_left (trim_aged_bucket CS FX (now s - age) (now s)) (bks s) (s, [])) as [s1 mins]. cbn [fst] in Hf.
  eapply Acc_ext; [| |exact Hf]; reflexivity.
Qed.

Lemma reduce_acc : forall fuel s, Acc s -> Acc (reduce CS fuel s).
Proof.
  induction fuel as [|f IH]; intros s H; simpl; [assumption|].
  destruct (bks s) as [|b0 l]; [assumption|].
  set (s1 := remove_bucket CS s _ _). assert (H1 : Acc s1) by (apply remove_bucket_acc; assumption).
  destruct (isize (inf s1) <=? l_soft s1); [assumption | apply IH; assumption].
Qed.

Lemma trim_loop_acc : forall fuel s, Acc s -> Acc (trim_loop CS FX fuel s).
Proof.
  induction fuel as [|f IH]; intros s H; cbn [trim_loop]; [assumption|].
  match goal with |- context [if ?c then trim_aged CS FX s (l_age s) else s] => set (s1 := if c then trim_aged CS FX s (l_age s) else s) end.
  assert (H1 : Acc s1) by (subst s1; match goal with |- context [if ?c then _ else _] => destruct c end; [apply trim_aged_acc|]; assumption).
  match goal with |- context [if ?c then reduce CS ?n s1 else s1] => set (s2 := if c then reduce CS n s1 else s1) end.
  assert (H2 : Acc s2) by (subst s2; match goal with |- context [if ?c then _ else _] => destruct c end; [apply reduce_acc|]; assumption).
  match goal with |- context [if ?c then _ else _] => destruct c end; [eapply Acc_ext; [| |exact H2]; reflexivity | apply IH; assumption].
Qed.

Lemma run_trim_acc : forall s, Acc s -> Acc (run_trim CS FX s).
Proof. intros. unfold run_trim. destruct (_ && _); [apply trim_loop_acc|]; assumption. Qed.

Lemma step_acc : forall s o, Acc s -> Acc (fst (step CS COL ROW FX s o)).
Proof.
  intros s o H. destruct o as [d|rid sp k f t p fo|l ok|sp ts| |a m so| |rid|sp ts|]; cbn [step].
  - eapply Acc_ext; [| |exact H]; reflexivity.
  - pose proof (do_get_acc s rid sp k f t p fo H) as G. destruct (do_get CS s rid sp k f t p fo) as [s1 e]. apply run_trim_acc. exact G.
  - pose proof (do_loaddone_acc s l ok H) as G. destruct (do_loaddone CS COL ROW s l ok) as [s1 e]. apply run_trim_acc. exact G.
  - apply do_invalidate_acc. exact H.
  - apply run_trim_acc, do_reset_acc. exact H.
  - apply run_trim_acc. unfold do_setlimits. destruct (if m <=? 0 then _ else _) as [mx' soft'].
    destruct (_ || _); [assumption | eapply Acc_ext; [| |exact H]; reflexivity].
  - cbn [fst]. unfold do_shutdown. destruct (shut s); [assumption|]. apply reduce_acc. eapply Acc_ext; [| |exact H]; reflexivity.
  - unfold do_cancel. destruct (existsb _ _); cbn [fst]; [eapply Acc_ext; [| |exact H]; reflexivity | assumption].
  - cbn [fst]. unfold do_inv_begin. destruct (first_key sp (bks s)); [apply inv_one_acc; assumption | eapply Acc_ext; [| |exact H]; reflexivity].
  - cbn [fst]. unfold do_inv_next. destruct (ipass s) as [[[[sp starts] tI] [k|]]|]; [apply inv_one_acc; assumption | |]; (eapply Acc_ext; [| |exact H]; reflexivity).
Qed.

Theorem run_acc : forall ops s, Acc s -> Acc (fst (run CS COL ROW FX s ops)).
Proof.
  induction ops as [|o ops IH]; intros s H; simpl; [assumption|].
  pose proof (step_acc s o H) as H1. destruct (step CS COL ROW FX s o) as [s1 e]. cbn [fst] in H1.
  specialize (IH s1 H1). destruct (run CS COL ROW FX s1 ops) as [s2 es]. exact IH.
Qed.

Lemma acc_init : Acc st0.
Proof. unfold Acc, st0, isize, tot, zlen; simpl. repeat split; lia. Qed.

(* the water levels after any history; in particular all zero once no bucket is left *)
Theorem accounting_all_histories : forall ops, Acc (fst (run CS COL ROW FX st0 ops)).
Proof. intros. apply run_acc, acc_init. Qed.

Theorem accounting_zero_when_empty : forall ops,
  let s := fst (run CS COL ROW FX st0 ops) in
  bks s = [] -> isize (inf s) = 0 /\ tot (i_bc (inf s)) = 0 /\ tot (i_cc (inf s)) = 0 /\ tot (i_cs (inf s)) = 0.
Proof.
  intros ops s E. destruct (accounting_all_histories ops) as [A1 [A2 [A3 A4]]]. fold s in A1, A2, A3, A4.
  rewrite E in *. simpl in *. unfold zlen in A2. simpl in A2. repeat split; lia.
Qed.

End Acc.
