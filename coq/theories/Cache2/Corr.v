(* C23 — correspondence: a whole history run on the real cache2 (synctest bubble, stub storage) is replayed
   through the model; after every step the calls that returned (with the load id of every returned slot)
   and a fingerprint of the in-package snapshot must agree. *)
From Coq Require Import ZArith List Bool.
From SH Require Import Common.Corr Cache2.Model.
Import ListNotations.
Open Scope Z_scope.

(* observed return of a Get: id, failed, load id per slot of the answer (-1: slot never written) *)
Definition oev := (Z * bool * list Z)%type.
Inductive obs := O (evs : list oev) (fp : Z).
Inductive case := CHist (cs col row : Z) (ops : list op) (o : list obs).

Fixpoint find_get (rid : Z) (ops : list op) : option (Z * Z * Z) :=   (* step, key, from *)
  match ops with
  | [] => None
  | Get r sp k f _ _ _ :: ops' => if r =? rid then Some (sp, k, f) else find_get rid ops'
  | _ :: ops' => find_get rid ops'
  end.

Fixpoint cells_ok (sp k t : Z) (cells : list (option cell)) (ls : list Z) : bool :=
  match cells, ls with
  | [], [] => true
  | None :: cs, l :: ls' => (l =? -1) && cells_ok sp k (t + sp) cs ls'
  | Some c :: cs, l :: ls' => (ce_l c =? l) && (ce_t c =? t) && (ce_step c =? sp) && (ce_key c =? k) && cells_ok sp k (t + sp) cs ls'
  | _, _ => false
  end.

Definition ev_ok (ops : list op) (e : event) (o : oev) : bool :=
  let '(rid, err, cells) := e in
  let '(orid, oerr, ls) := o in
  (rid =? orid) && Bool.eqb err oerr &&
  (if err then true else
     match find_get rid ops with
     | Some (sp, k, f) => cells_ok sp k f cells ls
     | None => false
     end).

Fixpoint evs_ok (ops : list op) (es : list event) (os : list oev) : bool :=
  match es, os with
  | [], [] => true
  | e :: es', o :: os' => ev_ok ops e o && evs_ok ops es' os'
  | _, _ => false
  end.

Fixpoint replay (cs col row : Z) (fx : bool) (all : list op) (s : st) (ops : list op) (os : list obs) : bool :=
  match ops, os with
  | [], [] => negb (stuck s)
  | o :: ops', O evs fp :: os' =>
      let '(s1, e) := step cs col row fx s o in
      evs_ok all e evs && (fp_state s1 =? fp) && replay cs col row fx all s1 ops' os'
  | _, _ => false
  end.

Definition ok (c : case) : bool :=
  (* dual: the chunk-removal loop of trimAged as it is (fx = false) or repaired (fx = true) *)
  match c with CHist cs col row ops os => replay cs col row false ops st0 ops os || replay cs col row true ops st0 ops os end.

Definition mism := mismatches ok.
