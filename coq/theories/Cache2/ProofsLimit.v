(* C23 — the memory limit at rest, for all histories: whenever a hard limit is set, the cached size is within the
   soft limit (hence the hard limit) after every step, i.e. cache2.tryNotExceedMemoryHardLimit never blocks a
   request that starts at a quiescent point. *)
From Coq Require Import ZArith List Bool Lia.
From SH Require Import Cache2.Model Cache2.ProofsAcc.
Import ListNotations.
Open Scope Z_scope.

Definition lim3 (s : st) : Z * Z * bool := (l_max s, l_soft s, shut s).
Definition WF (s : st) : Prop := (l_max s = 0 /\ l_soft s = 0) \/ (0 < l_max s /\ 0 <= l_soft s <= l_max s).
Definition ShutOK (s : st) : Prop := shut s = true -> l_max s = 0.
Definition Lim (s : st) : Prop := l_max s <> 0 -> isize (inf s) <= l_soft s.

Section Lim.
Variables CS COL ROW : Z.
Variable FX : bool.

Lemma remove_bucket_lim3 : forall s sp k, lim3 (remove_bucket CS s sp k) = lim3 s.
Proof. intros. unfold remove_bucket. destruct (find_bucket sp k (bks s)); reflexivity. Qed.

Lemma trim_aged_bucket_lim3 : forall dob tnow x b0, lim3 (fst (trim_aged_bucket CS FX dob tnow x b0)) = lim3 (fst x).
Proof.
  intros dob tnow [s mins] b0. unfold trim_aged_bucket. cbn [fst].
  destruct (find_bucket (b_step b0) (b_key b0) (bks s)) as [b|]; [|reflexivity].
  destruct (b_lat b <=? dob); [apply remove_bucket_lim3|].
  destruct (remove_chunks CS FX b dob (inf s) tnow) as [[[kept det] i'] mn]. reflexivity.
Qed.

Lemma trim_aged_lim3 : forall s age, lim3 (trim_aged CS FX s age) = lim3 s.
Proof.
  intros s age. unfold trim_aged.
  assert (Hf : forall l x, lim3 (fst (fold_left (trim_aged_bucket CS FX (now s - age) (now s)) l x)) = lim3 (fst x)).
  { induction l as [|b l IH]; intros x; simpl; [reflexivity | rewrite IH; apply trim_aged_bucket_lim3]. }
  specialize (Hf (bks s) (s, [])).
  destruct (fold_left (trim_aged_bucket CS FX (now s - age) (now s)) (bks s) (s, [])) as [s1 mins]. cbn [fst] in Hf.
  rewrite <- Hf. reflexivity.
Qed.

Lemma pick_in : forall tnow l best, In (pick tnow best l) (best :: l).
Proof.
  induction l as [|b l IH]; intros best; simpl; [left; reflexivity|].
  destruct (IH (if before tnow b best then b else best)) as [H|H]; [|right; right; assumption].
  destruct (before tnow b best); [right; left; assumption | left; assumption].
Qed.

Lemma find_bucket_of_in : forall p l, In p l -> exists b, find_bucket (b_step p) (b_key p) l = Some b.
Proof.
  induction l as [|x l IH]; intros H; [destruct H|]. simpl.
  destruct ((b_step x =? b_step p) && (b_key x =? b_key p)) eqn:E; [exists x; reflexivity|].
  destruct H as [->|H]; [rewrite !Z.eqb_refl in E; discriminate | apply IH; assumption].
Qed.

Lemma remove_bucket_len : forall s sp k b, find_bucket sp k (bks s) = Some b -> zlen (bks (remove_bucket CS s sp k)) = zlen (bks s) - 1.
Proof. intros s sp k b H. unfold remove_bucket. rewrite H. cbn [bks set_core set_ipass]. apply (drop_found one sp k (bks s) b H). Qed.

Lemma acc_empty : forall s, Acc CS s -> bks s = [] -> isize (inf s) = 0.
Proof. intros s [A _] E. rewrite A, E. reflexivity. Qed.

Lemma reduce_spec : forall fuel s, Acc CS s -> 0 <= l_soft s -> zlen (bks s) < Z.of_nat fuel ->
  isize (inf (reduce CS fuel s)) <= l_soft s /\ lim3 (reduce CS fuel s) = lim3 s /\ Acc CS (reduce CS fuel s).
Proof.
  induction fuel as [|f IH]; intros s HA Hs Hl; [unfold zlen in Hl; lia|]. cbn [reduce].
  destruct (bks s) as [|b0 l] eqn:E; [split; [rewrite (acc_empty s HA E); assumption | split; [reflexivity | assumption]]|].
  set (p := pick (now s) b0 l).
  destruct (find_bucket_of_in p (b0 :: l) (pick_in (now s) l b0)) as [b Hb]. rewrite <- E in Hb.
  set (s1 := remove_bucket CS s (b_step p) (b_key p)).
  assert (H1 : Acc CS s1) by (apply remove_bucket_acc; assumption).
  assert (L1 : lim3 s1 = lim3 s) by apply remove_bucket_lim3.
  assert (N1 : zlen (bks s1) = zlen (bks s) - 1) by (eapply remove_bucket_len; eassumption).
  assert (S1 : l_soft s1 = l_soft s) by (unfold lim3 in L1; congruence).
  destruct (isize (inf s1) <=? l_soft s1) eqn:Ec.
  - apply Z.leb_le in Ec. split; [lia | split; assumption].
  - destruct (IH s1 H1) as [I1 [I2 I3]]; [lia | rewrite N1; try rewrite E; try rewrite E in Hl; lia |].
    split; [lia | split; [congruence | assumption]].
Qed.

Lemma trim_loop_spec : forall f s, Acc CS s -> WF s -> l_max s <> 0 ->
  Lim (trim_loop CS FX (S f) s) /\ lim3 (trim_loop CS FX (S f) s) = lim3 s.
Proof.
  intros f s HA HW Hm. cbn [trim_loop].
  match goal with |- context [if ?c then trim_aged CS FX s (l_age s) else s] => set (s1 := if c then trim_aged CS FX s (l_age s) else s) end.
  assert (A1 : Acc CS s1) by (subst s1; match goal with |- context [if ?c then _ else _] => destruct c end; [apply trim_aged_acc|]; assumption).
  assert (L1 : lim3 s1 = lim3 s) by (subst s1; match goal with |- context [if ?c then _ else _] => destruct c end; [apply trim_aged_lim3 | reflexivity]).
  destruct HW as [[W1 W2]|[W1 W2]]; [contradiction|].
  assert (E1 : l_soft s1 = l_soft s /\ l_max s1 = l_max s) by (unfold lim3 in L1; split; congruence). destruct E1 as [E1 E2].
  match goal with |- context [if ?c then reduce CS ?n s1 else s1] => set (s2 := if c then reduce CS n s1 else s1) end.
  assert (R2 : isize (inf s2) <= l_soft s1 /\ lim3 s2 = lim3 s1).
  { subst s2. destruct (l_soft s1 <? isize (inf s1)) eqn:Ec.
    - destruct (reduce_spec (S (length (bks s1))) s1 A1) as [I1 [I2 _]]; [lia | unfold zlen; lia | split; assumption].
    - apply Z.ltb_ge in Ec. split; [assumption | reflexivity]. }
  destruct R2 as [R2 L2]. assert (E3 : l_soft s2 = l_soft s /\ l_max s2 = l_max s) by (unfold lim3 in L2; split; congruence). destruct E3 as [E3 E4].
  assert (Ec : (l_max s2 =? 0) || (isize (inf s2) <=? l_max s2) = true) by (apply orb_true_iff; right; apply Z.leb_le; lia).
  rewrite Ec. split; [intros _; cbn; lia | unfold lim3 in *; cbn; congruence].
Qed.

Definition SigOK (s : st) : Prop := l_max s <> 0 -> l_soft s < isize (inf s) -> sig s = true.

Lemma run_trim_lim : forall s, Acc CS s -> WF s -> ShutOK s -> SigOK s -> Lim (run_trim CS FX s) /\ lim3 (run_trim CS FX s) = lim3 s.
Proof.
  intros s HA HW HS HG. unfold run_trim.
  destruct (Z.eq_dec (l_max s) 0) as [Hm|Hm].
  - destruct (sig s && negb (shut s)); [|split; [intro; contradiction | reflexivity]].
    assert (L : lim3 (trim_loop CS FX 4 s) = lim3 s).
    { clear -Hm. generalize 4%nat. intros n. revert s Hm. induction n as [|n IH]; intros s Hm; cbn [trim_loop]; [reflexivity|].
      match goal with |- context [if ?c then trim_aged CS FX s (l_age s) else s] => set (s1 := if c then trim_aged CS FX s (l_age s) else s) end.
      assert (L1 : lim3 s1 = lim3 s) by (subst s1; match goal with |- context [if ?c then _ else _] => destruct c end; [apply trim_aged_lim3 | reflexivity]).
      match goal with |- context [if ?c then reduce CS ?m s1 else s1] => set (s2 := if c then reduce CS m s1 else s1) end.
      assert (M2 : l_max s2 = 0 /\ lim3 s2 = lim3 s1).
      { subst s2. match goal with |- context [if ?c then _ else _] => destruct c end.
        - assert (forall k x, lim3 (reduce CS k x) = lim3 x).
          { induction k as [|k IHk]; intros x; cbn [reduce]; [reflexivity|]. destruct (bks x); [reflexivity|].
            match goal with |- context [remove_bucket CS x ?a ?b] => set (x1 := remove_bucket CS x a b) end.
            destruct (isize (inf x1) <=? l_soft x1); [apply remove_bucket_lim3 | rewrite IHk; apply remove_bucket_lim3]. }
          rewrite H. unfold lim3 in *. split; [|reflexivity]. assert (l_max (reduce CS (S (length (bks s1))) s1) = l_max s1) by (specialize (H (S (length (bks s1))) s1); unfold lim3 in H; congruence). congruence.
        - unfold lim3 in *. split; [congruence | reflexivity]. }
      destruct M2 as [M2 L2]. rewrite M2. cbn [Z.eqb orb]. unfold lim3 in *. cbn. congruence. }
    split; [intro H; exfalso; apply H; unfold lim3 in L; congruence | exact L].
  - assert (Hs : shut s = false) by (destruct (bool_dec (shut s) true) as [E|E]; [exfalso; apply Hm, HS, E | apply not_true_is_false; exact E]).
    rewrite Hs, andb_true_r. destruct (sig s) eqn:Eg.
    + apply (trim_loop_spec 3 s); assumption.
    + split; [|reflexivity]. intros _. destruct (Z_lt_le_dec (l_soft s) (isize (inf s))) as [H|H]; [specialize (HG Hm H); congruence | assumption].
Qed.

Lemma signal_if_props : forall x, SigOK (signal_if x) /\ lim3 (signal_if x) = lim3 x /\ inf (signal_if x) = inf x /\ bks (signal_if x) = bks x.
Proof.
  intros x. unfold signal_if, SigOK. destruct (negb (l_max x =? 0) && (l_soft x <? isize (inf x))) eqn:E; cbn.
  - repeat split; auto.
  - repeat split; auto. intros Hm Hl. exfalso. apply andb_false_iff in E. destruct E as [E|E].
    + apply negb_false_iff, Z.eqb_eq in E. contradiction.
    + apply Z.ltb_ge in E. lia.
Qed.

(* the part of the state the limit invariant reads *)
Definition LInv (s : st) : Prop := Acc CS s /\ WF s /\ ShutOK s /\ Lim s.

Lemma after_signal : forall s x, LInv s -> Acc CS (signal_if x) -> lim3 x = lim3 s -> LInv (run_trim CS FX (signal_if x)).
Proof.
  intros s x [_ [HW [HS _]]] HA HL. destruct (signal_if_props x) as [P1 [P2 [P3 P4]]].
  assert (L : lim3 (signal_if x) = lim3 s) by congruence.
  assert (W : WF (signal_if x)) by (unfold WF, lim3 in *; injection L as -> -> _; exact HW).
  assert (S' : ShutOK (signal_if x)) by (unfold ShutOK, lim3 in *; injection L as -> _ ->; exact HS).
  destruct (run_trim_lim (signal_if x) HA W S' P1) as [R1 R2].
  split; [apply run_trim_acc; assumption|]. split; [|split; [|assumption]].
  - unfold WF, lim3 in *. injection R2 as -> -> _. exact W.
  - unfold ShutOK, lim3 in *. injection R2 as -> _ ->. exact S'.
Qed.

Lemma LInv_same : forall s s', Acc CS s' -> lim3 s' = lim3 s -> inf s' = inf s -> LInv s -> LInv s'.
Proof.
  intros s s' HA HL HI [_ [HW [HS HLim]]]. unfold LInv, WF, ShutOK, Lim, lim3 in *. injection HL as -> -> ->. rewrite HI.
  split; [assumption | split; [assumption | split; assumption]].
Qed.

Lemma run_trim_LInv : forall s, LInv s -> LInv (run_trim CS FX s).
Proof.
  intros s [HA [HW [HS HL]]].
  assert (HG : SigOK s) by (intros Hm Hlt; specialize (HL Hm); lia).
  destruct (run_trim_lim s HA HW HS HG) as [R1 R2].
  split; [apply run_trim_acc; assumption|]. unfold WF, ShutOK, lim3 in *. injection R2 as -> -> ->. split; [assumption | split; assumption].
Qed.

Lemma post_chunk_lim3 : forall ok r n x v, lim3 (post_chunk CS COL ROW ok r n x v) = lim3 x.
Proof.
  intros ok r n x [id pos]. unfold post_chunk, post_limbo.
  destruct (find_bucket (r_step r) (r_key r) (bks x)) as [b|].
  - destruct (take_by_id id (b_chunks b)); [reflexivity|]. destruct (take_limbo (r_step r) (r_key r) id (limbo x)); reflexivity.
  - destruct (take_limbo (r_step r) (r_key r) id (limbo x)); reflexivity.
Qed.

Lemma reduce_lim3 : forall k x, lim3 (reduce CS k x) = lim3 x.
Proof.
  induction k as [|k IHk]; intros x; cbn [reduce]; [reflexivity|]. destruct (bks x); [reflexivity|].
  match goal with |- context [remove_bucket CS x ?aa ?bb] => set (x1 := remove_bucket CS x aa bb) end.
  destruct (isize (inf x1) <=? l_soft x1); [apply remove_bucket_lim3 | rewrite IHk; apply remove_bucket_lim3].
Qed.

Lemma do_shutdown_LInv : forall s, LInv s -> LInv (do_shutdown CS s).
Proof.
  intros s H. unfold do_shutdown. destruct (shut s) eqn:Es; [assumption|].
  match goal with |- LInv (reduce CS ?n ?x) => set (s1 := x) end. match goal with |- LInv (reduce CS ?n s1) => set (n1 := n) end. clearbody n1.
  assert (A1 : Acc CS s1) by (eapply Acc_ext; [| |exact (proj1 H)]; reflexivity).
  pose proof (reduce_lim3 n1 s1) as L.
  split; [apply reduce_acc; exact A1|]. unfold WF, ShutOK, Lim, lim3 in *. injection L as L1 L2 L3. rewrite L1, L2.
  split; [left; auto | split; [auto | intro Hx; contradiction Hx; reflexivity]].
Qed.

Lemma step_LInv : forall s o, LInv s -> LInv (fst (step CS COL ROW FX s o)).
Proof.
  intros s o H. pose proof (step_acc CS COL ROW FX s o (proj1 H)) as HA.
  destruct o as [d|rid sp k f t p fo|l ok|sp ts| |a m so| |rid|sp ts|]; cbn [step] in *.
  - apply (LInv_same s); [exact HA | reflexivity | reflexivity | exact H].
  - pose proof (do_get_acc CS s rid sp k f t p fo (proj1 H)) as G.
    assert (E : exists x, fst (do_get CS s rid sp k f t p fo) = signal_if x /\ lim3 x = lim3 s).
    { unfold do_get. destruct (find_bucket sp k (bks s)); cbv iota beta;
      (match goal with |- context [gather ?a ?b ?c ?d ?e ?g] => destruct (gather a b c d e g) as [gg nc] end;
       match goal with |- context [finish_reqs ?x] => destruct (finish_reqs x) as [rs evs] end;
       cbn [fst]; eexists; split; [reflexivity | reflexivity]). }
    destruct E as [x [E1 E2]]. destruct (do_get CS s rid sp k f t p fo) as [s1 e]. cbn [fst] in *. subst s1.
    apply (after_signal s x H G E2).
  - pose proof (do_loaddone_acc CS COL ROW s l ok (proj1 H)) as G.
    assert (E : fst (do_loaddone CS COL ROW s l ok) = s \/ exists x, fst (do_loaddone CS COL ROW s l ok) = signal_if x /\ lim3 x = lim3 s).
    { unfold do_loaddone. destruct (filter (fun r => r_load r =? l) (reqs s)) as [|r0 rest]; [left; reflexivity|].
      destruct (r_chunks r0) as [|[i0 p0] vs]; [left; reflexivity|]. right.
      match goal with |- context [fold_left (post_chunk CS COL ROW ok ?rr ?nn) ?vv ?ss] => set (s2 := fold_left (post_chunk CS COL ROW ok rr nn) vv ss);
        assert (L2 : lim3 s2 = lim3 s) end.
      { subst s2. match goal with |- lim3 (fold_left ?f ?vv ?ss) = _ => assert (Hf : forall l0 x0, lim3 (fold_left f l0 x0) = lim3 x0)
           by (induction l0 as [|v0 l0 IH]; intros x0; simpl; [reflexivity | rewrite IH; apply post_chunk_lim3]); rewrite Hf end. reflexivity. }
      destruct (finish_reqs (reqs s2)) as [rs evs]. cbn [fst]. eexists. split; [reflexivity | exact L2]. }
    destruct (do_loaddone CS COL ROW s l ok) as [s1 e]. cbn [fst] in *. destruct E as [->|[x [-> E2]]].
    + apply run_trim_LInv. assumption.
    + apply (after_signal s x H G E2).
  - apply (LInv_same s); [exact HA | reflexivity | reflexivity | exact H].
  - cbn [fst] in *. unfold do_reset in *. destruct (bks s) eqn:Eb; [apply run_trim_LInv; assumption|]. rewrite <- Eb in *.
    pose proof (do_reset_acc CS s (proj1 H)) as G. unfold do_reset in G. rewrite Eb in G. rewrite <- Eb in G.
    eapply after_signal; [exact H | exact G |].
    assert (Hf : forall l0 x0, lim3 (fold_left (fun y bb => remove_bucket CS y (b_step bb) (b_key bb)) l0 x0) = lim3 x0)
      by (induction l0 as [|v0 l0 IH]; intros x0; simpl; [reflexivity | rewrite IH; apply remove_bucket_lim3]).
    unfold lim3 at 1. cbn [l_max l_soft shut set_core]. apply Hf.
  - destruct H as [HA0 [HW [HS HL]]]. unfold fst in *. unfold do_setlimits in *.
    destruct (if m <=? 0 then (0, 0) else if (so <=? 0) || (m <=? so) then (m, 4 * m / 5) else (m, so)) as [mx' soft'] eqn:En.
    destruct (shut s || (l_age s =? a) && (l_max s =? mx') && (l_soft s =? soft')) eqn:Ec; [apply run_trim_LInv; exact (conj HA0 (conj HW (conj HS HL)))|].
    apply orb_false_iff in Ec. destruct Ec as [Esh _].
    match goal with |- LInv (run_trim CS FX ?x) => set (s' := x) end.
    assert (A' : Acc CS s') by (eapply Acc_ext; [| |exact HA0]; reflexivity).
    assert (W' : WF s').
    { unfold WF. subst s'. unfold l_max, l_soft. destruct (m <=? 0) eqn:Em; [injection En as <- <-; left; auto|]. apply Z.leb_gt in Em.
      destruct ((so <=? 0) || (m <=? so)) eqn:Eo; injection En as <- <-; right.
      - pose proof (Z.div_pos (4 * m) 5 ltac:(lia) ltac:(lia)) as D1. pose proof (Z.div_le_upper_bound (4 * m) 5 m ltac:(lia) ltac:(lia)) as D2. change (match m with 0 => 0 | Z.pos y' => Z.pos y'~0~0 | Z.neg y' => Z.neg y'~0~0 end) with (4 * m). lia.
      - apply orb_false_iff in Eo. destruct Eo as [Eo1 Eo2]. apply Z.leb_gt in Eo1, Eo2. lia. }
    assert (S' : ShutOK s') by (unfold ShutOK; subst s'; cbn [shut]; intros Hx; congruence).
    assert (G' : SigOK s').
    { unfold SigOK. subst s'. cbn [l_max l_soft inf sig]. intros _ Hlt. apply orb_true_iff. right. apply Z.ltb_lt. assumption. }
    destruct (run_trim_lim s' A' W' S' G') as [R1 R2].
    split; [apply run_trim_acc; assumption|]. unfold WF, ShutOK, lim3 in *. injection R2 as -> -> ->. split; [assumption | split; assumption].
  - exact (do_shutdown_LInv s H).
  - apply (LInv_same s); [exact HA | | | exact H]; unfold do_cancel; destruct (existsb _ _); reflexivity.
  - apply (LInv_same s); [exact HA | | | exact H]; cbn [fst]; unfold do_inv_begin; destruct (first_key sp (bks s)); reflexivity.
  - apply (LInv_same s); [exact HA | | | exact H]; cbn [fst]; unfold do_inv_next; destruct (ipass s) as [[[[sp starts] tI] [k|]]|]; reflexivity.
Qed.

Lemma LInv_init : LInv st0.
Proof. split; [apply acc_init|]. unfold WF, ShutOK, Lim, st0; cbn. split; [left; auto | split; [discriminate | intro H; contradiction H; reflexivity]]. Qed.

(* after every step of every history: with a hard limit set, the cached size is within the soft limit, which is
   within the hard limit *)
Theorem limit_at_rest_all_histories : forall ops,
  let s := fst (run CS COL ROW FX st0 ops) in
  l_max s <> 0 -> isize (inf s) <= l_soft s /\ l_soft s <= l_max s.
Proof.
  intros ops.
  assert (H : forall l s0, LInv s0 -> LInv (fst (run CS COL ROW FX s0 l))).
  { induction l as [|o l IH]; intros s0 H0; simpl; [assumption|].
    pose proof (step_LInv s0 o H0) as H1. destruct (step CS COL ROW FX s0 o) as [s1 e]. cbn [fst] in H1.
    specialize (IH s1 H1). destruct (run CS COL ROW FX s1 l) as [s2 es]. exact IH. }
  specialize (H ops st0 LInv_init). cbv zeta. destruct H as [_ [HW [_ HL]]]. intros Hm. split; [apply HL; assumption|].
  destruct HW as [[W _]|[_ W]]; [contradiction | lia].
Qed.

End Lim.
