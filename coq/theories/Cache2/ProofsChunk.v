(* C23 — the per-chunk protocol (loading / awaiters / invalidation mark), proved for ALL event sequences on
   one chunk.  The events are exactly the chunk-level transitions the whole-cache model is built from
   (Model.ch_load, ch_await, ch_touch, ch_inval, ch_finish) and the reader's decision is Model.decide. *)
From Coq Require Import ZArith List Bool Lia.
From SH Require Import Cache2.Model.
Import ListNotations.
Open Scope Z_scope.

Inductive cev :=
| CStart (t : Z)                                   (* a loader takes the chunk into its storage call *)
| CAwait (t : Z) (a : awaiter)
| CTouch (t : Z)                                   (* a copy *)
| CInval (t : Z)
| CFinish (ok : bool) (cd : list (option cell)) (sz : Z).   (* a storage call that covered the chunk returned *)

Definition cstep (c : chunk) (e : cev) : chunk :=
  match e with
  | CStart t => ch_load t c
  | CAwait t a => ch_await t a c
  | CTouch t => ch_touch t c
  | CInval t => ch_inval t c
  | CFinish ok cd sz => ch_finish ok cd sz c
  end.

(* ghost: the cached rows were written by a storage call that finished BEFORE a later invalidation *)
Definition gstep (stale : bool) (e : cev) : bool :=
  match e with CFinish true _ _ => false | CInval _ => true | _ => stale end.

Definition crun (c : chunk) (es : list cev) : chunk * bool :=
  fold_left (fun x e => (cstep (fst x) e, gstep (snd x) e)) es (c, false).

Lemma crun_app : forall es c e, crun c (es ++ [e]) = (cstep (fst (crun c es)) e, gstep (snd (crun c es)) e).
Proof. intros. unfold crun. rewrite fold_left_app. reflexivity. Qed.

(* the invalidation mark is a time stamp of one of the invalidations; while the rows are stale it is set *)
Lemma chunk_inv : forall es c0, c_inv c0 = NEVER ->
  (forall t, In (CInval t) es -> NEVER < t) ->
  let '(c, stale) := crun c0 es in
  (c_inv c = NEVER \/ In (CInval (c_inv c)) es) /\ (stale = true -> c_inv c <> NEVER).
Proof.
  induction es as [|e es IH] using rev_ind; intros c0 H0 Ht.
  - simpl. split; [left; assumption | discriminate].
  - rewrite crun_app. specialize (IH c0 H0).
    assert (Ht' : forall t, In (CInval t) es -> NEVER < t) by (intros; apply Ht; apply in_or_app; left; assumption).
    specialize (IH Ht'). destruct (crun c0 es) as [c st]. simpl fst; simpl snd. destruct IH as [IH1 IH2].
    destruct e as [t|t a|t|t|ok cd sz]; simpl.
    + split; [destruct IH1; [left|right; apply in_or_app; left]; assumption | assumption].
    + split; [destruct IH1; [left|right; apply in_or_app; left]; assumption | assumption].
    + split; [destruct IH1; [left|right; apply in_or_app; left]; assumption | assumption].
    + split; [right; apply in_or_app; right; left; reflexivity |].
      intros _. assert (NEVER < t) by (apply Ht; apply in_or_app; right; left; reflexivity). lia.
    + destruct ok; simpl.
      * split; [| discriminate]. destruct (c_lsa c <? c_inv c); [| left; reflexivity].
        destruct IH1; [left|right; apply in_or_app; left]; assumption.
      * split; [destruct IH1; [left|right; apply in_or_app; left]; assumption | assumption].
Qed.

Section Reader.
Variable CS : Z.

(* a non-play, non-forced request never copies rows that are stale: with the mark set, decide says load and wait,
   so the request either loads itself or awaits a storage call that is still in flight *)
Theorem chunk_copy_is_fresh : forall es c0 step tnow,
  c_inv c0 = NEVER ->
  (forall t, In (CInval t) es -> NEVER < t <= tnow) ->
  snd (decide CS step tnow 0 false (fst (crun c0 es))) = false ->
  snd (crun c0 es) = false.
Proof.
  intros es c0 step tnow H0 Ht Hd.
  pose proof (chunk_inv es c0 H0) as HI.
  assert (Ht' : forall t, In (CInval t) es -> NEVER < t) by (intros t Hin; apply Ht in Hin; lia).
  specialize (HI Ht'). destruct (crun c0 es) as [c st]. simpl in *. destruct HI as [H1 H2].
  destruct st; [| reflexivity]. exfalso.
  specialize (H2 eq_refl). destruct H1 as [H1|H1]; [contradiction|].
  apply Ht in H1. unfold decide in Hd.
  destruct (match c_data c with None => true | Some _ => false end || (c_lsa c <? cendT CS step c) || false); [discriminate|].
  assert (E : (c_inv c =? NEVER) = false) by (apply Z.eqb_neq; assumption). rewrite E in Hd. simpl in Hd.
  apply Z.leb_gt in Hd. lia.
Qed.

(* whoever waits, loads: decide never says wait without load *)
Lemma decide_wait_load : forall step tnow stale force c,
  snd (decide CS step tnow stale force c) = true -> fst (decide CS step tnow stale force c) = true.
Proof.
  intros. unfold decide in *.
  destruct (match c_data c with None => true | Some _ => false end || (c_lsa c <? cendT CS step c) || force); [reflexivity|].
  destruct (negb (c_inv c =? NEVER)); [reflexivity|].
  destruct (c_lsa c <? cendT CS step c + LINGER); simpl in *; [reflexivity | discriminate].
Qed.
End Reader.

(* every awaiter registered on a chunk is handed to the storage call that finishes next on it *)
Lemma finish_releases_awaiters : forall ok cd sz c, c_aw (ch_finish ok cd sz c) = [].
Proof. intros. unfold ch_finish. destruct ok; reflexivity. Qed.

(* awaiters exist only while a storage call is in flight on the chunk, provided requests await only then
   (the whole-cache model registers an awaiter only on a chunk with loading <> 0: checked by ProofsSweep.waits_ok)
   and every finish belongs to an earlier start *)
Fixpoint wf_events (n : Z) (es : list cev) : Prop :=   (* n = storage calls in flight *)
  match es with
  | [] => True
  | CStart _ :: r => wf_events (n + 1) r
  | CAwait _ _ :: r => 0 < n /\ wf_events n r
  | CFinish _ _ _ :: r => 0 < n /\ wf_events (n - 1) r
  | _ :: r => wf_events n r
  end.

Lemma loading_counts : forall es c n, 0 <= n -> wf_events n es -> c_loading c = n -> (c_aw c = [] \/ 0 < n) ->
  let c' := fold_left cstep es c in c_aw c' = [] \/ 0 < c_loading c'.
Proof.
  induction es as [|e es IH]; intros c n H0 Hw Hn Ha; simpl.
  - subst; assumption.
  - destruct e as [t|t a|t|t|ok cd sz]; simpl in Hw.
    + apply (IH _ (n + 1)); [lia | assumption | simpl; lia | right; lia].
    + destruct Hw as [Hp Hw]. apply (IH _ n); [lia | assumption | simpl; assumption | right; assumption].
    + apply (IH _ n); [lia | assumption | simpl; assumption | simpl; assumption].
    + apply (IH _ n); [lia | assumption | simpl; assumption | simpl; assumption].
    + destruct Hw as [Hp Hw]. apply (IH _ (n - 1)); [lia | assumption | unfold ch_finish; destruct ok; simpl; lia |].
      left. apply finish_releases_awaiters.
Qed.

Theorem chunk_awaiters_have_a_load : forall es id s,
  wf_events 0 es ->
  let c := fold_left cstep es (mkChunk id s None [] NEVER NEVER NEVER 0 0) in
  c_aw c = [] \/ 0 < c_loading c.
Proof. intros. apply (loading_counts es _ 0); [lia | assumption | reflexivity | left; reflexivity]. Qed.

(* the size a finished storage call adds to the water level is exactly the change of the chunk's size *)
Lemma finish_size_delta : forall cd sz c, c_size (ch_finish true cd sz c) - c_size c = sz - c_size c.
Proof. reflexivity. Qed.
Lemma failed_finish_keeps : forall cd sz c,
  c_size (ch_finish false cd sz c) = c_size c /\ c_data (ch_finish false cd sz c) = c_data c /\ c_inv (ch_finish false cd sz c) = c_inv c.
Proof. intros; repeat split. Qed.
