(* C23 — exhaustive bounded check of the whole-cache model: every history of a fixed length over a small
   alphabet of calls is run through the model (depth-first, sharing prefixes) and every clause of the
   property is checked on what the model returns after every step.  [dfs_sound] turns the computation
   into a statement about all such histories. *)
From Coq Require Import ZArith List Bool Lia.
From SH Require Import Cache2.Model.
Import ListNotations.
Open Scope Z_scope.

Section Sweep.
Variables CS COL ROW : Z.
Variable FX : bool.

(* --- the clauses of the property as executable checks on the model's outputs --- *)

(* ghost: (storage call, position of the step in which it finished), newest first *)
Definition fins_t := list (Z * Z).
Fixpoint finish_pos (l : Z) (fins : fins_t) : option Z :=
  match fins with [] => None | (l', i) :: r => if l' =? l then Some i else finish_pos l r end.

(* "never rows from a load that finished before an invalidation of that slot completed before the request began":
   no Invalidate step i of the slot's chunk with finish(load) < i < begin(request) *)
Fixpoint fresh_from (fins : fins_t) (ops : list op) (i g : Z) (sp t l : Z) : bool :=
  match ops with
  | [] => true
  | Invalidate sp' ts :: r =>
      (if (sp' =? sp) && (i <? g) && existsb (fun x => cstart CS sp x =? cstart CS sp t) ts
       then match finish_pos l fins with Some f => negb (f <? i) | None => false end
       else true) && fresh_from fins r (i + 1) g sp t l
  | _ :: r => fresh_from fins r (i + 1) g sp t l
  end.

(* placement + completeness + freshness of one answer *)
Fixpoint answer_ok (fins : fins_t) (pre : list op) (g sp k t play : Z) (cells : list (option cell)) : bool :=
  match cells with
  | [] => true
  | None :: _ => false                                   (* a slot nobody filled *)
  | Some c :: r => (ce_step c =? sp) && (ce_key c =? k) && (ce_t c =? t) &&
                   (if play =? 0 then fresh_from fins pre 0 g sp t (ce_l c) else true) &&
                   answer_ok fins pre g sp k (t + sp) play r
  end.

Definition event_ok (fins : fins_t) (pre : list op) (e : event) : bool :=
  let '(rid, err, cells) := e in
  if err then true else
  match nth_error pre (Z.to_nat (rid - 1)) with
  | Some (Get _ sp k f t play _) => (zlen cells =? (t - f) / sp) && answer_ok fins pre (rid - 1) sp k f play cells
  | _ => false
  end.

Definition chunks_of (s : st) : list chunk := flat_map b_chunks (bks s).
Definition sumz (l : list Z) : Z := fold_left Z.add l 0.

(* memory accounting equals what the structure holds; zero when the cache is empty; hard limit respected at rest *)
Definition accounting_ok (s : st) : bool :=
  let i := inf s in
  (isize i =? sumz (map c_size (chunks_of s))) && (tot (i_bc i) =? zlen (bks s)) &&
  (tot (i_cc i) =? zlen (chunks_of s)) && (tot (i_cs i) =? CS * zlen (chunks_of s)) &&
  ((l_max s =? 0) || (isize i <=? l_max s)).

(* nobody waits unless a storage call is in flight; a waiting request always has one to wait for *)
Definition inflight (s : st) : list Z := map r_load (filter (fun r => negb (r_load r =? 0)) (reqs s)).
Definition waits_ok (s : st) : bool :=
  (match inflight s with
   | [] => (match reqs s with [] => true | _ => false end) &&
           forallb (fun c => (c_loading c =? 0) && (match c_aw c with [] => true | _ => false end)) (chunks_of s)
   | _ => true
   end) &&
  forallb (fun c => (match c_aw c with [] => true | _ => false end) || (0 <? c_loading c)) (chunks_of s).

(* rid of a Get = its position + 1 *)
Definition numb (i : nat) (o : op) : op :=
  match o with Get _ sp k f t p fo => Get (Z.of_nat i + 1) sp k f t p fo | _ => o end.

Definition xst := (st * fins_t)%type.
Definition check_step (pre : list op) (x : xst) (o : op) : bool * xst :=
  let '(s, fins) := x in
  let fins1 := match o with
               | LoadDone l _ => if existsb (Z.eqb l) (inflight s) then (l, zlen pre) :: fins else fins
               | _ => fins end in
  let '(s1, evs) := step CS COL ROW FX s o in
  (forallb (event_ok fins1 (pre ++ [o])) evs && accounting_ok s1 && waits_ok s1, (s1, fins1)).

Fixpoint run_ok (pre : list op) (s : xst) (ops : list op) : bool :=
  match ops with
  | [] => true
  | a :: r => let o := numb (length pre) a in
              let '(b, s1) := check_step pre s o in b && run_ok (pre ++ [o]) s1 r
  end.

Variable alpha : list op.

Fixpoint dfs (n : nat) (pre : list op) (s : xst) : bool :=
  match n with
  | O => true
  | S n' => forallb (fun a => let o := numb (length pre) a in
                              let '(b, s1) := check_step pre s o in b && dfs n' (pre ++ [o]) s1) alpha
  end.

Lemma dfs_sound : forall n pre s, dfs n pre s = true ->
  forall ops, length ops = n -> Forall (fun o => In o alpha) ops -> run_ok pre s ops = true.
Proof.
  induction n as [|n IH]; intros pre s H ops Hl Hf.
  - destruct ops; [reflexivity | discriminate].
  - destruct ops as [|a r]; [discriminate|].
    simpl in Hl. injection Hl as Hl. inversion Hf as [|? ? Ha Hr]; subst.
    cbn [dfs] in H. rewrite forallb_forall in H. specialize (H a Ha). cbv beta zeta in H.
    cbn [run_ok]. destruct (check_step pre s (numb (length pre) a)) as [b s1] eqn:E.
    apply andb_true_iff in H. destruct H as [Hb Hd]. rewrite Hb. simpl.
    apply IH; auto.
Qed.

End Sweep.

(* the alphabet: chunk size 2, step 1 s; chunks at -10,-8,-6,-4 (seconds relative to the start of the run) *)
Definition alpha1 : list op :=
  [ Tick 2; Tick 40000;
    Get 0 1 1 (-8) (-4) 0 false;       (* two whole chunks *)
    Get 0 1 1 (-5) (-2) 0 false;       (* starts mid-chunk: awaiter offset *)
    Get 0 1 1 (-10) (-3) 0 false;      (* four chunks: absorbs chunks between the ones it must load *)
    LoadDone 1 true; LoadDone 2 true; LoadDone 1 false; LoadDone 3 true;
    Invalidate 1 [-7; -5];
    Reset;
    SetLimits 0 1 0 ].                 (* hard limit 1 byte: everything is trimmed as soon as it is stored *)

Definition sweep1 (n : nat) : bool := dfs 2 24 1456 false alpha1 n [] (st0, []).

Lemma sweep1_4 : sweep1 4 = true.
Proof. vm_compute. reflexivity. Qed.

Theorem bounded_all_clauses :
  forall ops, length ops = 4%nat -> Forall (fun o => In o alpha1) ops -> run_ok 2 24 1456 false [] (st0, []) ops = true.
Proof. intros. eapply dfs_sound; eauto. exact sweep1_4. Qed.

(* a narrower alphabet, deeper: two overlapping requests, their storage calls, an invalidation, and enough
   time for the chunks to become cacheable *)
Definition alpha2 : list op :=
  [ Tick 40000;
    Get 0 1 1 (-8) (-4) 0 false;
    Get 0 1 1 (-5) (-2) 0 false;
    LoadDone 1 true; LoadDone 2 true;
    Invalidate 1 [-7; -5] ].

Lemma sweep2_6 : dfs 2 24 1456 false alpha2 6 [] (st0, []) = true.
Proof. vm_compute. reflexivity. Qed.

Theorem bounded_all_clauses_deep :
  forall ops, length ops = 6%nat -> Forall (fun o => In o alpha2) ops -> run_ok 2 24 1456 false [] (st0, []) ops = true.
Proof. intros. eapply dfs_sound; eauto. exact sweep2_6. Qed.

