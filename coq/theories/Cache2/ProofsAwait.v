(* C23 — a request becomes an awaiter only of a chunk that is being loaded (for every bucket state and request):
   the decision table plus the absorption rule of cache2Loader.init never produce "await" on a chunk with
   loading = 0.  Together with ProofsChunk (the next storage call to return on a chunk takes all its awaiters)
   this is the code's reason why a registered awaiter is eventually signalled. *)
From Coq Require Import ZArith List Bool Lia.
From SH Require Import Cache2.Model Cache2.ProofsChunk.
Import ListNotations.
Open Scope Z_scope.

Lemma first_true_le : forall l i k, nth_error l k = Some true -> exists a, first_true l i = Some a /\ a <= i + Z.of_nat k.
Proof.
  induction l as [|b l IH]; intros i k H; [destruct k; discriminate|].
  simpl. destruct b.
  - exists i. split; [reflexivity | lia].
  - destruct k as [|k]; [discriminate|]. simpl in H. destruct (IH (i + 1) k H) as [a [A B]]. exists a. split; [assumption | lia].
Qed.

Lemma last_true_mono : forall l i x, x <= i -> exists b, last_true l i (Some x) = Some b /\ x <= b.
Proof.
  induction l as [|y l IH]; intros i x H; simpl.
  - exists x. split; [reflexivity | lia].
  - destruct y.
    + destruct (IH (i + 1) i ltac:(lia)) as [b [A B]]. exists b. split; [assumption | lia].
    + destruct (IH (i + 1) x ltac:(lia)) as [b [A B]]. exists b. split; [assumption | lia].
Qed.

Lemma last_true_ge : forall l i acc k, nth_error l k = Some true -> exists b, last_true l i acc = Some b /\ i + Z.of_nat k <= b.
Proof.
  induction l as [|x l IH]; intros i acc k H; [destruct k; discriminate|].
  simpl. destruct k as [|k].
  - simpl in H. injection H as ->.
    destruct (last_true_mono l (i + 1) i ltac:(lia)) as [b [A B]]. exists b. split; [assumption | lia].
  - simpl in H. destruct (IH (i + 1) (if x then Some i else acc) k H) as [b [A B]]. exists b. split; [assumption | lia].
Qed.

Lemma nth_error_zseq : forall n a k, (k < n)%nat -> nth_error (zseq a n) k = Some (a + Z.of_nat k).
Proof.
  induction n as [|n IH]; intros a k H; [lia|].
  destruct k as [|k]; simpl; [f_equal; lia|]. rewrite IH by lia. f_equal. lia.
Qed.

Lemma nth_error_combine : forall A B (l : list A) (m : list B) k x y,
  nth_error l k = Some x -> nth_error m k = Some y -> nth_error (combine l m) k = Some (x, y).
Proof.
  induction l as [|a l IH]; intros m k x y H1 H2; [destruct k; discriminate|].
  destruct m as [|b m]; [destruct k; discriminate|].
  destruct k as [|k]; simpl in *; [congruence | apply IH; assumption].
Qed.

Section Await.
Variable CS : Z.

Theorem await_only_on_loading_chunk : forall step tnow stale force cs k c,
  nth_error cs k = Some c ->
  nth_error (dispositions CS step tnow stale force cs) k = Some DAwait ->
  c_loading c <> 0.
Proof.
  intros step tnow stale force cs k c Hc Hd Hz. unfold dispositions in Hd.
  set (dw := map (decide CS step tnow stale force) cs) in *.
  set (sl := map _ (combine cs dw)) in *.
  assert (Hk : (k < length cs)%nat) by (apply nth_error_Some; congruence).
  assert (Hdw : nth_error dw k = Some (decide CS step tnow stale force c)) by (unfold dw; apply map_nth_error; assumption).
  assert (Hz' : nth_error (combine (zseq 0 (length cs)) dw) k = Some (0 + Z.of_nat k, decide CS step tnow stale force c))
    by (apply nth_error_combine; [apply nth_error_zseq; assumption | assumption]).
  rewrite (map_nth_error _ _ _ Hz') in Hd.
  destruct (decide CS step tnow stale force c) as [ld w] eqn:Ed.
  assert (Hw : w = true).
  { destruct (first_true sl 0), (last_true sl 0 None); [destruct ((z <=? 0 + Z.of_nat k) && (0 + Z.of_nat k <=? z0)); [discriminate|] | | |];
    destruct w; try reflexivity; discriminate. }
  assert (Hl : ld = true).
  { pose proof (decide_wait_load CS step tnow stale force c) as D. rewrite Ed in D. simpl in D. apply D. assumption. }
  assert (Hsl : nth_error sl k = Some true).
  { unfold sl. erewrite map_nth_error; [|apply nth_error_combine; eassumption]. rewrite Hl, Hz. reflexivity. }
  destruct (first_true_le sl 0 k Hsl) as [a [Fa La]]. destruct (last_true_ge sl 0 None k Hsl) as [b [Fb Lb]].
  rewrite Fa, Fb in Hd.
  assert (E : (a <=? 0 + Z.of_nat k) && (0 + Z.of_nat k <=? b) = true) by (apply andb_true_iff; split; apply Z.leb_le; lia).
  rewrite E in Hd. discriminate.
Qed.

End Await.
