(* C23 — what a request RETURNS, for all histories: every answer handed back by any step is the slice
   [loadStart, loadEnd) of the buffer of a request that a Get of this history created, and every row in it carries
   the shard step and query key of that Get ("never rows of another query", now for the answers themselves). *)
From Coq Require Import ZArith List Bool Lia.
From SH Require Import Cache2.Model Cache2.ProofsAcc Cache2.ProofsKey.
Import ListNotations.
Open Scope Z_scope.

Definition has_get (pre : list op) (rid sp k : Z) : Prop := exists f t p fo, In (Get rid sp k f t p fo) pre.
Definition Origin (pre : list op) (s : st) : Prop := forall r, In r (reqs s) -> has_get pre (r_id r) (r_step r) (r_key r).
Definition answer_ok (pre : list op) (e : event) : Prop :=
  let '(rid, err, cells) := e in exists sp k, has_get pre rid sp k /\ keyed sp k cells.

Lemma has_get_app : forall pre o rid sp k, has_get pre rid sp k -> has_get (pre ++ [o]) rid sp k.
Proof. intros pre o rid sp k [f [t [p [fo H]]]]. exists f, t, p, fo. apply in_or_app. left. assumption. Qed.

Lemma ev_good_answer : forall G (R : req -> Prop) pre e,
  ev_good G R e -> (forall r, R r -> has_get pre (r_id r) (r_step r) (r_key r)) -> answer_ok pre e.
Proof.
  intros G R pre e [r [-> [[Hk _] HR]]] H. unfold ev_of, answer_ok. exists (r_step r), (r_key r).
  split; [apply H; assumption | apply keyed_slice; assumption].
Qed.

Section Ans.
Variables CS COL ROW : Z.
Variable FX : bool.

Definition same_ikk (r' r : req) : Prop := r_id r' = r_id r /\ r_step r' = r_step r /\ r_key r' = r_key r.

Lemma do_get_reqs : forall s rid step key from to play force r',
  In r' (reqs (fst (do_get CS s rid step key from to play force))) ->
  In r' (reqs s) \/ (r_id r' = rid /\ r_step r' = step /\ r_key r' = key).
Proof.
  intros s rid step key from to play force r'. unfold do_get.
  destruct (find_bucket step key (bks s)); cbv iota beta;
  (match goal with |- context [gather ?a ?b ?c ?d ?e ?f] => destruct (gather a b c d e f) as [g nc] end;
   match goal with |- context [finish_reqs ?x] => destruct (finish_reqs x) as [rs evs] eqn:Ef end;
   cbn [fst]; rewrite (proj2 (signal_if_sub _)); cbn [reqs set_core]; intros H;
   unfold finish_reqs in Ef; injection Ef as <- _; apply filter_In in H; destruct H as [H _];
   apply in_app_or in H; destruct H as [H|[<-|[]]]; [left; assumption | right; cbn; auto]).
Qed.

Lemma do_loaddone_reqs : forall s l ok, iks (reqs s) (reqs (fst (do_loaddone CS COL ROW s l ok))).
Proof.
  intros s l ok. unfold do_loaddone.
  destruct (filter (fun r => r_load r =? l) (reqs s)) as [|r0 rest] eqn:Ef; [apply iks_refl|].
  assert (H0 : In r0 (reqs s)) by (assert (In r0 (filter (fun r => r_load r =? l) (reqs s))) by (rewrite Ef; left; reflexivity); apply filter_In in H; apply H).
  destruct (r_chunks r0) as [|[i0 p0] vs]; [apply iks_refl|].
  match goal with |- context [post_chunk CS COL ROW ok ?rr ?nn] => set (r1 := rr) in *; set (n1 := nn) in * end.
  match goal with |- context [fold_left (post_chunk CS COL ROW ok r1 n1) ?vv ?ss] => set (s1 := ss) in *; set (vs1 := vv) in * end.
  assert (Hi : iks (reqs s) (reqs s1)).
  { intros r' Hr'. cbn [s1 reqs set_core] in Hr'. apply in_map_iff in Hr'. destruct Hr' as [r [E Hr]].
    destruct (r_id r =? r_id r0); [|subst r'; exists r; auto]. subst r'. exists r0. split; [assumption | subst r1; cbn; auto]. }
  pose proof (fold_post_chunk_iks CS COL ROW ok r1 n1 vs1 s1) as Hi2. set (s2 := fold_left _ vs1 s1) in *.
  destruct (finish_reqs (reqs s2)) as [rs evs] eqn:Efin. cbn [fst]. rewrite (proj2 (signal_if_sub _)). cbn [reqs set_core].
  intros r' Hr'. unfold finish_reqs in Efin. injection Efin as <- _. apply filter_In in Hr'. destruct Hr' as [Hr' _].
  apply (iks_trans _ _ _ Hi Hi2 r' Hr').
Qed.

Lemma step_reqs : forall s o r', In r' (reqs (fst (step CS COL ROW FX s o))) ->
  (exists r, In r (reqs s) /\ same_ikk r' r) \/ (exists f t p fo, o = Get (r_id r') (r_step r') (r_key r') f t p fo).
Proof.
  intros s o r'. unfold same_ikk.
  assert (Hsame : forall s', reqs s' = reqs s -> In r' (reqs s') -> (exists r, In r (reqs s) /\ r_id r' = r_id r /\ r_step r' = r_step r /\ r_key r' = r_key r) \/ (exists f t p fo, o = Get (r_id r') (r_step r') (r_key r') f t p fo))
    by (intros s' E H; rewrite E in H; left; exists r'; auto).
  destruct o as [d|rid sp k f t p fo|l ok|sp ts| |a m so| |rid|sp ts|]; cbn [step].
  - apply Hsame. reflexivity.
  - pose proof (do_get_reqs s rid sp k f t p fo r') as H. destruct (do_get CS s rid sp k f t p fo) as [s1 e]. cbn [fst] in *.
    rewrite (proj2 (run_trim_sub CS FX s1)). intros Hin. destruct (H Hin) as [H1|[A [B C]]]; [left; exists r'; auto|].
    right. exists f, t, p, fo. subst. reflexivity.
  - pose proof (do_loaddone_reqs s l ok) as H. destruct (do_loaddone CS COL ROW s l ok) as [s1 e]. cbn [fst] in *.
    rewrite (proj2 (run_trim_sub CS FX s1)). intros Hin. left. apply H. assumption.
  - cbn [fst]. apply Hsame. apply (proj2 (do_invalidate_sub CS s sp ts)).
  - cbn [fst]. apply Hsame. rewrite (proj2 (run_trim_sub CS FX _)). apply (proj2 (do_reset_sub CS s)).
  - cbn [fst]. apply Hsame. rewrite (proj2 (run_trim_sub CS FX _)). unfold do_setlimits.
    destruct (if m <=? 0 then _ else _) as [mx' soft']. destruct (_ || _); reflexivity.
  - cbn [fst]. apply Hsame. unfold do_shutdown. destruct (shut s); [reflexivity|]. rewrite (proj2 (reduce_sub CS _ _)). reflexivity.
  - unfold do_cancel. destruct (existsb _ _); cbn [fst]; [|apply Hsame; reflexivity].
    cbn [reqs set_core]. intros H. apply in_map_iff in H. destruct H as [r [E Hr]]. left. exists r. split; [assumption|].
    destruct (r_id r =? rid); subst r'; cbn; auto.
  - cbn [fst]. apply Hsame. unfold do_inv_begin. destruct (first_key sp (bks s)); [apply (proj2 (inv_one_sub s sp _ _ _)) | reflexivity].
  - cbn [fst]. apply Hsame. unfold do_inv_next. destruct (ipass s) as [[[[sp starts] tI] [k|]]|]; [apply (proj2 (inv_one_sub s sp k starts tI)) | reflexivity | reflexivity].
Qed.

Lemma step_origin : forall pre s o, Origin pre s -> Origin (pre ++ [o]) (fst (step CS COL ROW FX s o)).
Proof.
  intros pre s o H r' Hr'. destruct (step_reqs s o r' Hr') as [[r [Hr [A [B C]]]]|[f [t [p [fo E]]]]].
  - rewrite A, B, C. apply has_get_app. apply H. assumption.
  - exists f, t, p, fo. apply in_or_app. right. left. assumption.
Qed.

Lemma step_answers : forall G pre s o, rid_ok G o -> KInv G s -> Origin pre s ->
  forall e, In e (snd (step CS COL ROW FX s o)) -> answer_ok (pre ++ [o]) e.
Proof.
  intros G pre s o Hr K HO e. destruct o as [d|rid sp k f t p fo|l ok|sp ts| |a m so| |rid|sp ts|]; cbn [step]; try (intros []).
  - pose proof (proj2 (do_get_K2 CS G s rid sp k f t p fo Hr K)) as H. destruct (do_get CS s rid sp k f t p fo) as [s1 evs]. cbn [snd] in *.
    intros He. eapply ev_good_answer; [apply H; assumption|]. intros r [Hin|[A [B C]]].
    + apply has_get_app. apply HO. assumption.
    + rewrite A, B, C. exists f, t, p, fo. apply in_or_app. right. left. reflexivity.
  - pose proof (proj2 (do_loaddone_K2 CS COL ROW G s l ok K)) as H. destruct (do_loaddone CS COL ROW s l ok) as [s1 evs]. cbn [snd] in *.
    intros He. eapply ev_good_answer; [apply H; assumption|]. intros r' [r [Hin [A [B C]]]]. rewrite A, B, C. apply has_get_app. apply HO. assumption.
  - unfold do_cancel. destruct (existsb _ _) eqn:E; cbn [snd]; [|intros []]. intros [<-|[]].
    apply existsb_exists in E. destruct E as [r [Hin Hc]]. apply andb_true_iff in Hc. destruct Hc as [Hc _]. apply Z.eqb_eq in Hc.
    exists (r_step r), (r_key r). split; [rewrite <- Hc; apply has_get_app, HO; assumption | constructor].
Qed.

Theorem run_answers : forall ops G pre s, rids_inc G ops -> KInv G s -> Origin pre s ->
  forall e, In e (concat (snd (run CS COL ROW FX s ops))) -> answer_ok (pre ++ ops) e.
Proof.
  induction ops as [|o ops IH]; intros G pre s Hr K HO e; simpl; [intros []|].
  destruct Hr as [H1 H2].
  pose proof (step_K CS COL ROW FX G s o H1 K) as Ks. pose proof (step_origin pre s o HO) as Os. pose proof (step_answers G pre s o H1 K HO) as As.
  destruct (step CS COL ROW FX s o) as [s1 ev]. cbn [fst snd] in *.
  specialize (IH _ (pre ++ [o]) s1 H2 Ks Os). destruct (run CS COL ROW FX s1 ops) as [s2 es]. cbn [snd] in *. simpl.
  intros He. apply in_app_or in He. rewrite <- app_assoc in IH. simpl in IH. destruct He as [He|He].
  - specialize (As e He). destruct e as [[rid err] cells]. destruct As as [sp [k [[f [t [p [fo Hin]]]] Hk]]].
    exists sp, k. split; [|assumption]. exists f, t, p, fo. apply in_app_or in Hin. apply in_or_app. destruct Hin as [Hin|[<-|[]]]; [left; assumption | right; left; reflexivity].
  - apply IH. assumption.
Qed.

(* every answer of every history: its rows carry the shard step and query key of the Get that asked *)
Theorem answers_of_own_query : forall ops, rids_inc 0 ops ->
  forall e, In e (concat (snd (run CS COL ROW FX st0 ops))) ->
  let '(rid, err, cells) := e in
  exists sp k f t p fo, In (Get rid sp k f t p fo) ops /\ keyed sp k cells.
Proof.
  intros ops Hr e He. pose proof (run_answers ops 0 [] st0 Hr (KInv_init) (fun r (H : In r (reqs st0)) => match H with end) e He) as H.
  destruct e as [[rid err] cells]. destruct H as [sp [k [[f [t [p [fo Hin]]]] Hk]]]. exists sp, k, f, t, p, fo. auto.
Qed.

End Ans.
