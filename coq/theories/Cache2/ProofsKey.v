(* C23 — "never rows of another query": for ALL histories, every row held by a chunk, by a request in flight, or
   returned by a request carries the shard step and query key of that bucket / request.  Invariant KInv over the
   whole-cache model; request ids must increase along the history (they only name requests). *)
From Coq Require Import ZArith List Bool Lia.
From SH Require Import Cache2.Model Cache2.ProofsAcc.
Import ListNotations.
Open Scope Z_scope.

Definition ckey (sp k : Z) (oc : option cell) : Prop :=
  match oc with None => True | Some c => ce_step c = sp /\ ce_key c = k end.
Definition keyed (sp k : Z) (l : list (option cell)) : Prop := Forall (ckey sp k) l.

Lemma keyed_firstn : forall sp k n l, keyed sp k l -> keyed sp k (firstn n l).
Proof. induction n; intros l H; simpl; [constructor|]. destruct l; [constructor|]. inversion H; subst. constructor; [assumption | apply IHn; assumption]. Qed.
Lemma keyed_skipn : forall sp k n l, keyed sp k l -> keyed sp k (skipn n l).
Proof. induction n; intros l H; simpl; [assumption|]. destruct l; [constructor|]. inversion H; subst. apply IHn; assumption. Qed.
Lemma keyed_slice : forall sp k l a b, keyed sp k l -> keyed sp k (slice l a b).
Proof. intros. unfold slice. apply keyed_firstn, keyed_skipn. assumption. Qed.
Lemma keyed_write : forall sp k v l pos, keyed sp k l -> keyed sp k v -> keyed sp k (write l pos v).
Proof.
  induction v as [|x v IH]; intros l pos Hl Hv; [destruct pos, l; assumption|].
  inversion Hv; subst.
  revert pos. induction l as [|y l IHl]; intros pos; [destruct pos; constructor|].
  inversion Hl; subst. destruct pos; simpl.
  - constructor; [assumption | apply IH; assumption].
  - constructor; [assumption | apply IHl; assumption].
Qed.
Lemma keyed_repeat : forall sp k n, keyed sp k (repeat None n).
Proof. induction n; simpl; constructor; simpl; auto. Qed.
Lemma keyed_load_cells : forall sp k t0 l a b, keyed sp k (load_cells sp k t0 l a b).
Proof. intros. unfold load_cells, keyed. apply Forall_forall. intros x H. apply in_map_iff in H. destruct H as [i [<- _]]. simpl. auto. Qed.

Definition bentries (l : list bucket) : list (Z * Z * chunk) :=
  flat_map (fun b => map (fun c => (b_step b, b_key b, c)) (b_chunks b)) l.
Definition entries (s : st) : list (Z * Z * chunk) := bentries (bks s) ++ limbo s.

Definition aw_ok (G : Z) (R : req -> Prop) (sp k : Z) (a : awaiter) : Prop :=
  a_req a <= G /\ forall r, R r -> r_id r = a_req a -> r_step r = sp /\ r_key r = k.
Definition entry_ok (G : Z) (R : req -> Prop) (e : Z * Z * chunk) : Prop :=
  let '(sp, k, c) := e in
  (forall cd, c_data c = Some cd -> keyed sp k cd) /\ (forall a, In a (c_aw c) -> aw_ok G R sp k a).
Definition req_ok (G : Z) (r : req) : Prop := keyed (r_step r) (r_key r) (r_data r) /\ r_id r <= G.
Definition KInv (G : Z) (s : st) : Prop :=
  (forall e, In e (entries s) -> entry_ok G (fun r => In r (reqs s)) e) /\ (forall r, In r (reqs s) -> req_ok G r).

(* an entry that only lost rows / awaiters, under requests that are no more and no larger *)
Lemma entry_ok_weaken : forall G G' (R R' : req -> Prop) sp k c c',
  G <= G' -> (forall r, R' r -> r_id r <= G -> R r) ->
  (c_data c' = c_data c \/ c_data c' = None) -> incl (c_aw c') (c_aw c) ->
  entry_ok G R (sp, k, c) -> entry_ok G' R' (sp, k, c').
Proof.
  intros G G' R R' sp k c c' HG HR Hd Ha [E1 E2]. split.
  - intros cd Hc. destruct Hd as [Hd|Hd]; [apply E1; congruence | congruence].
  - intros a Hin. destruct (E2 a (Ha a Hin)) as [A1 A2]. split; [lia|].
    intros r Hr Hid. apply A2; [apply HR; [assumption | lia] | assumption].
Qed.

(* s' is s with chunks removed, moved to limbo, or stripped of rows / awaiters; requests untouched *)
Definition sub (s s' : st) : Prop :=
  (forall sp k c', In (sp, k, c') (entries s') ->
     exists c, In (sp, k, c) (entries s) /\ (c_data c' = c_data c \/ c_data c' = None) /\ incl (c_aw c') (c_aw c)) /\
  reqs s' = reqs s.

Lemma sub_refl : forall s, sub s s.
Proof. intros s. split; [|reflexivity]. intros sp k c H. exists c. split; [assumption | split; [left; reflexivity | apply incl_refl]]. Qed.
Lemma sub_trans : forall a b c, sub a b -> sub b c -> sub a c.
Proof.
  intros a b c [H1 R1] [H2 R2]. split; [|congruence].
  intros sp k c' H. destruct (H2 sp k c' H) as [c1 [I1 [D1 A1]]]. destruct (H1 sp k c1 I1) as [c0 [I0 [D0 A0]]].
  exists c0. split; [assumption|]. split; [destruct D1 as [D1|D1]; [destruct D0 as [D0|D0]; [left|right]; congruence | right; assumption] | eapply incl_tran; eassumption].
Qed.
Lemma sub_ext : forall s s', bks s' = bks s -> limbo s' = limbo s -> reqs s' = reqs s -> sub s s'.
Proof. intros s s' Hb Hl Hr. split; [|assumption]. unfold entries. rewrite Hb, Hl. apply (sub_refl s). Qed.

Lemma KInv_sub : forall G s s', sub s s' -> KInv G s -> KInv G s'.
Proof.
  intros G s s' [Hs Hr] [K1 K2]. split.
  - intros [[sp k] c'] Hin. destruct (Hs sp k c' Hin) as [c [I [D A]]].
    eapply entry_ok_weaken; [apply Z.le_refl | | exact D | exact A | apply (K1 _ I)].
    intros r Hr' _. rewrite Hr in Hr'. exact Hr'.
  - rewrite Hr. exact K2.
Qed.

(* ---- entries of modified bucket lists ---- *)
Lemma in_bentries : forall sp k c l, In (sp, k, c) (bentries l) <-> exists b, In b l /\ b_step b = sp /\ b_key b = k /\ In c (b_chunks b).
Proof.
  intros. unfold bentries. rewrite in_flat_map. split.
  - intros [b [Hb Hm]]. apply in_map_iff in Hm. destruct Hm as [c0 [E Hc]]. injection E as <- <- <-. exists b. auto.
  - intros [b [Hb [<- [<- Hc]]]]. exists b. split; [assumption|]. apply in_map_iff. exists c. auto.
Qed.
Lemma find_bucket_in : forall sp k l b, find_bucket sp k l = Some b -> In b l.
Proof.
  induction l as [|x l IH]; intros b H; simpl in H; [discriminate|].
  destruct ((b_step x =? sp) && (b_key x =? k)); [injection H as <-; left; reflexivity | right; apply IH; assumption].
Qed.
Lemma drop_bucket_incl : forall sp k l b, In b (drop_bucket sp k l) -> In b l.
Proof.
  induction l as [|x l IH]; intros b H; simpl in H; [contradiction|].
  destruct ((b_step x =? sp) && (b_key x =? k)); [right; assumption | destruct H; [left; assumption | right; apply IH; assumption]].
Qed.
Lemma put_bucket_in : forall nb l b, In b (put_bucket nb l) -> b = nb \/ In b l.
Proof.
  induction l as [|x l IH]; intros b H; simpl in H; [destruct H; [left; auto | contradiction]|].
  destruct ((b_step x =? b_step nb) && (b_key x =? b_key nb)).
  - destruct H; [left; auto | right; right; assumption].
  - destruct H; [right; left; assumption | destruct (IH b H); [left; assumption | right; right; assumption]].
Qed.
Lemma found_entry : forall sp k l b c, find_bucket sp k l = Some b -> In c (b_chunks b) -> In (sp, k, c) (bentries l).
Proof.
  intros. apply in_bentries. exists b. destruct (find_bucket_key _ _ _ _ H) as [A B].
  split; [eapply find_bucket_in; eassumption | auto].
Qed.

Section Key.
Variables CS COL ROW : Z.
Variable FX : bool.

(* ---- chunk removal only removes ---- *)
Lemma span_old_in : forall t l c, (In c (fst (span_old t l)) -> In c l) /\ (In c (snd (span_old t l)) -> In c l).
Proof.
  induction l as [|x l IH]; intros c; simpl; [split; auto|].
  destruct (c_lat x <? t); [|split; simpl; [contradiction | auto]].
  specialize (IH c). destruct (span_old t l) as [a b]. simpl in *. destruct IH as [I1 I2].
  split; [intros [H|H]; [left; assumption | right; apply I1; assumption] | intros H; right; apply I2; assumption].
Qed.
Lemma firstn_in : forall A n (l : list A) x, In x (firstn n l) -> In x l.
Proof. intros A n l x H. rewrite <- (firstn_skipn n l). apply in_or_app. left. assumption. Qed.
Lemma skipn_in : forall A n (l : list A) x, In x (skipn n l) -> In x l.
Proof. intros A n l x H. rewrite <- (firstn_skipn n l). apply in_or_app. right. assumption. Qed.

Lemma rc_go_in : forall fuel t l mn c,
  (In c (fst (fst (rc_go fuel t l mn))) -> In c l) /\ (In c (snd (fst (rc_go fuel t l mn))) -> In c l).
Proof.
  induction fuel as [|fuel IH]; intros t l mn c; simpl; [split; [auto | contradiction]|].
  destruct l as [|x r]; [simpl; split; auto|].
  destruct (c_lat x <? t).
  - pose proof (span_old_in t (x :: r) c) as [S1 S2]. destruct (span_old t (x :: r)) as [run rest]. cbn [fst snd] in *.
    specialize (IH t (skipn (length run) rest) mn c). destruct (rc_go fuel t (skipn (length run) rest) mn) as [[kk g] m].
    cbn [fst snd] in *. destruct IH as [I1 I2]. split; intros H; apply in_app_or in H; destruct H as [H|H].
    + apply S2. eapply firstn_in; eassumption.
    + apply S2. eapply skipn_in. apply I1. assumption.
    + apply S1. assumption.
    + apply S2. eapply skipn_in. apply I2. assumption.
  - specialize (IH t r (Z.min mn (c_lat x)) c). destruct (rc_go fuel t r (Z.min mn (c_lat x))) as [[kk g] m].
    cbn [fst snd] in *. destruct IH as [I1 I2]. split; [intros [H|H]; [left; assumption | right; apply I1; assumption] | intros H; right; apply I2; assumption].
Qed.

Lemma remove_chunks_in : forall b t i mn kept det i' mn' c,
  remove_chunks CS FX b t i mn = (kept, det, i', mn') -> In c kept \/ In c det -> In c (b_chunks b).
Proof.
  intros b t i mn kept det i' mn' c H Hin. unfold remove_chunks in H. destruct FX.
  - injection H as <- <- _ _. destruct Hin as [Hin|Hin]; [|apply filter_In in Hin; destruct Hin as [Hin _]]; apply filter_In in Hin; apply Hin.
  - pose proof (rc_go_in (S (length (b_chunks b))) t (b_chunks b) mn c) as [I1 I2].
    destruct (rc_go (S (length (b_chunks b))) t (b_chunks b) mn) as [[kk g] m]. cbn [fst snd] in *.
    injection H as <- <- _ _. destruct Hin as [Hin|Hin]; [apply I1; assumption | apply filter_In in Hin; apply I2, Hin].
Qed.

Ltac keep c := exists c; split; [|split; [left; reflexivity | apply incl_refl]].

Lemma remove_bucket_sub : forall s sp k, sub s (remove_bucket CS s sp k).
Proof.
  intros s sp k. unfold remove_bucket. destruct (find_bucket sp k (bks s)) as [b|] eqn:Eb; [|apply sub_refl].
  split; [|reflexivity]. intros sp' k' c H. unfold entries in *. cbn [bks limbo set_core set_ipass] in H.
  apply in_app_or in H. destruct H as [H|H].
  - keep c. apply in_or_app. left. apply in_bentries in H. destruct H as [b' [Hb R]]. apply in_bentries. exists b'. split; [eapply drop_bucket_incl; eassumption | assumption].
  - apply in_app_or in H. destruct H as [H|H]; [keep c; apply in_or_app; right; assumption|].
    apply in_map_iff in H. destruct H as [c0 [E Hc]]. injection E as <- <- <-. apply filter_In in Hc. destruct Hc as [Hc _].
    keep c0. apply in_or_app. left. eapply found_entry; eassumption.
Qed.

Lemma trim_aged_bucket_sub : forall dob tnow x b0, sub (fst x) (fst (trim_aged_bucket CS FX dob tnow x b0)).
Proof.
  intros dob tnow [s mins] b0. cbn [fst]. unfold trim_aged_bucket.
  destruct (find_bucket (b_step b0) (b_key b0) (bks s)) as [b|] eqn:Eb; [|apply sub_refl].
  destruct (find_bucket_key _ _ _ _ Eb) as [K1 K2].
  destruct (b_lat b <=? dob); [apply remove_bucket_sub|].
  destruct (remove_chunks CS FX b dob (inf s) tnow) as [[[kept det] i'] mn] eqn:Er. cbn [fst].
  split; [|reflexivity]. intros sp' k' c H. unfold entries in *. cbn [bks limbo set_core] in H.
  apply in_app_or in H. destruct H as [H|H].
  - apply in_bentries in H. destruct H as [b' [Hb [S1 [S2 Hc]]]]. apply put_bucket_in in Hb. destruct Hb as [->|Hb].
    + cbn [b_step b_key b_chunks] in *. subst sp' k'. keep c. apply in_or_app. left. rewrite K1, K2.
      eapply found_entry; [eassumption | eapply remove_chunks_in; [eassumption | left; assumption]].
    + keep c. apply in_or_app. left. apply in_bentries. exists b'. auto.
  - apply in_app_or in H. destruct H as [H|H]; [keep c; apply in_or_app; right; assumption|].
    apply in_map_iff in H. destruct H as [c0 [E Hc]]. injection E as <- <- <-.
    keep c0. apply in_or_app. left. rewrite K1, K2. eapply found_entry; [eassumption | eapply remove_chunks_in; [eassumption | right; assumption]].
Qed.

Lemma trim_aged_sub : forall s age, sub s (trim_aged CS FX s age).
Proof.
  intros s age. unfold trim_aged.
  assert (Hf : forall l x, sub (fst x) (fst (fold_left (trim_aged_bucket CS FX (now s - age) (now s)) l x))).
  { induction l as [|b l IH]; intros x; simpl; [apply sub_refl|]. eapply sub_trans; [apply trim_aged_bucket_sub | apply IH]. }
  specialize (Hf (bks s) (s, [])).
  destruct (fold_left (trim_aged_bucket CS FX (now s - age) (now s)) (bks s) (s, [])) as [s1 mins]. cbn [fst] in Hf.
  eapply sub_trans; [exact Hf | apply sub_ext; reflexivity].
Qed.

Lemma reduce_sub : forall fuel s, sub s (reduce CS fuel s).
Proof.
  induction fuel as [|f IH]; intros s; simpl; [apply sub_refl|].
  destruct (bks s) as [|b0 l]; [apply sub_refl|].
  match goal with |- context [remove_bucket CS s ?xa ?xb] => set (s1 := remove_bucket CS s xa xb); assert (H1 : sub s s1) by apply remove_bucket_sub end.
  destruct (isize (inf s1) <=? l_soft s1); [assumption | eapply sub_trans; [exact H1 | apply IH]].
Qed.

Lemma trim_loop_sub : forall fuel s, sub s (trim_loop CS FX fuel s).
Proof.
  induction fuel as [|f IH]; intros s; cbn [trim_loop]; [apply sub_refl|].
  match goal with |- context [if ?c then trim_aged CS FX s (l_age s) else s] => set (s1 := if c then trim_aged CS FX s (l_age s) else s) end.
  assert (H1 : sub s s1) by (subst s1; match goal with |- context [if ?c then _ else _] => destruct c end; [apply trim_aged_sub | apply sub_refl]).
  match goal with |- context [if ?c then reduce CS ?n s1 else s1] => set (s2 := if c then reduce CS n s1 else s1) end.
  assert (H2 : sub s1 s2) by (subst s2; match goal with |- context [if ?c then _ else _] => destruct c end; [apply reduce_sub | apply sub_refl]).
  match goal with |- context [if ?c then _ else _] => destruct c end.
  - eapply sub_trans; [exact H1 | eapply sub_trans; [exact H2 | apply sub_ext; reflexivity]].
  - eapply sub_trans; [exact H1 | eapply sub_trans; [exact H2 | apply IH]].
Qed.

Lemma run_trim_sub : forall s, sub s (run_trim CS FX s).
Proof. intros. unfold run_trim. destruct (_ && _); [apply trim_loop_sub | apply sub_refl]. Qed.

Lemma signal_if_sub : forall s, sub s (signal_if s).
Proof. intros. unfold signal_if. destruct (_ && _); [apply sub_ext; reflexivity | apply sub_refl]. Qed.

Lemma do_reset_sub : forall s, sub s (do_reset CS s).
Proof.
  intros s. unfold do_reset. destruct (bks s) eqn:E; [apply sub_refl|]. rewrite <- E.
  assert (Hf : forall ll x, sub x (fold_left (fun y bb => remove_bucket CS y (b_step bb) (b_key bb)) ll x)).
  { induction ll as [|bb ll IH]; intros x; simpl; [apply sub_refl | eapply sub_trans; [apply remove_bucket_sub | apply IH]]. }
  eapply sub_trans; [apply Hf|]. eapply sub_trans; [|apply signal_if_sub]. apply sub_ext; reflexivity.
Qed.

Lemma inval_where_sub : forall s p starts tI, sub s (set_bks s (inval_where p starts tI (bks s))).
Proof.
  intros s p starts tI. split; [|reflexivity].
  intros sp k c' H. unfold entries, set_bks, inval_where in *. cbn [bks limbo set_core] in H. apply in_app_or in H. destruct H as [H|H].
  - apply in_bentries in H. destruct H as [b' [Hb [S1 [S2 Hc]]]]. apply in_map_iff in Hb. destruct Hb as [b [E Hb]].
    destruct (p b).
    + subst b'. cbn [b_step b_key b_chunks] in *. apply in_map_iff in Hc. destruct Hc as [c [E Hc]].
      exists c. split; [apply in_or_app; left; apply in_bentries; exists b; auto|].
      subst c'. destruct (existsb _ _); split; try (left; reflexivity); apply incl_refl.
    + subst b'. keep c'. apply in_or_app. left. apply in_bentries. exists b. auto.
  - keep c'. apply in_or_app. right. assumption.
Qed.
Lemma do_invalidate_sub : forall s step times, sub s (do_invalidate CS s step times).
Proof. intros. apply inval_where_sub. Qed.
Lemma inv_one_sub : forall s step key starts tI, sub s (inv_one s step key starts tI).
Proof. intros. unfold inv_one. eapply sub_trans; [apply inval_where_sub | apply sub_ext; reflexivity]. Qed.

(* ---- Get ---- *)
Lemma entry_ok_same : forall G R sp k c c', c_data c' = c_data c -> c_aw c' = c_aw c -> entry_ok G R (sp, k, c) -> entry_ok G R (sp, k, c').
Proof. intros G R sp k c c' Hd Ha H. apply (entry_ok_weaken G G R R sp k c c'); [lia | auto | left; exact Hd | rewrite Ha; apply incl_refl | exact H]. Qed.

Lemma find_chunk_in : forall t l c, find_chunk t l = Some c -> In c l.
Proof. induction l as [|x l IH]; intros c H; simpl in H; [discriminate|]. destruct (c_start x =? t); [injection H as <-; left; reflexivity | right; apply IH; assumption]. Qed.

Lemma repl_start_in : forall t g l x, In x (repl_start t g l) -> exists c, In c l /\ (x = c \/ x = g c).
Proof.
  induction l as [|c r IH]; intros x H; simpl in H; [contradiction|].
  destruct (c_start c =? t).
  - destruct H as [<-|H]; [exists c; split; [left; reflexivity | right; reflexivity] | exists x; split; [right; assumption | left; reflexivity]].
  - destruct H as [<-|H]; [exists c; split; [left; reflexivity | left; reflexivity]|]. destruct (IH x H) as [c0 [I E]]. exists c0. split; [right; assumption | assumption].
Qed.
Lemma ins_sorted_in : forall c l x, In x (ins_sorted c l) -> x = c \/ In x l.
Proof.
  induction l as [|y r IH]; intros x H; simpl in H; [destruct H; [left; auto | contradiction]|].
  destruct (c_start c <? c_start y); [destruct H; [left; auto | right; assumption]|].
  destruct H as [<-|H]; [right; left; reflexivity | destruct (IH x H); [left; assumption | right; right; assumption]].
Qed.

Section GetK.
Variables (G rid step key tnow ls le : Z) (s : st).
Hypothesis HG : G < rid.
Hypothesis Hle : forall r, In r (reqs s) -> r_id r <= G.

Definition R' (r : req) : Prop := In r (reqs s) \/ (r_id r = rid /\ r_step r = step /\ r_key r = key).
Definition Q (c : chunk) : Prop := entry_ok rid R' (step, key, c).

Lemma upgrade : forall sp k c, entry_ok G (fun r => In r (reqs s)) (sp, k, c) -> entry_ok rid R' (sp, k, c).
Proof.
  intros sp k c H. apply (entry_ok_weaken G rid (fun r => In r (reqs s)) R' sp k c c); [lia | | left; reflexivity | apply incl_refl | exact H].
  intros r [Hr|[Hr _]] Hid; [assumption | exfalso; lia].
Qed.

Lemma Q_disp : forall pos d c, Q c -> Q (disp_fun CS rid tnow ls le pos d c).
Proof.
  intros pos d c H. destruct d; cbn [disp_fun]; try (eapply entry_ok_same; [| |exact H]; reflexivity).
  destruct H as [H1 H2]. split; [exact H1|]. cbn [ch_await c_aw]. intros a Hin. apply in_app_or in Hin.
  destruct Hin as [Hin|[<-|[]]]; [apply H2; assumption|].
  split; [cbn; lia|]. cbn [a_req]. intros r [Hr|[_ [A B]]] Hid; [specialize (Hle r Hr); exfalso; lia | auto].
Qed.

Lemma Q_fresh : forall id t, Q (fresh id t).
Proof. intros. split; [intros cd H; discriminate | intros a []]. Qed.

Definition J (a : iacc) : Prop := (forall c, In c (ia_chunks a) -> Q c) /\ keyed step key (ia_data a).

Lemma apply_disp_J : forall a k c d, Q c -> J a -> J (apply_disp CS rid tnow ls le a (k, (c, d))).
Proof.
  intros a k c d Hc [J1 J2]. unfold apply_disp, upd_at.
  destruct (existsb (fun c0 => c_start c0 =? c_start c) (ia_chunks a)); cbn [ia_chunks ia_data]; split.
  - intros x Hx. apply repl_start_in in Hx. destruct Hx as [c0 [I [->| ->]]]; [apply J1; assumption | apply Q_disp, J1; assumption].
  - destruct d; try assumption. destruct (c_data c) as [cd|] eqn:Ed; [|assumption].
    apply keyed_write; [assumption | apply keyed_slice; apply (proj1 Hc cd Ed)].
  - intros x Hx. apply ins_sorted_in in Hx. destruct Hx as [->|Hx]; [apply Q_disp; assumption | apply J1; assumption].
  - destruct d; try assumption. destruct (c_data c) as [cd|] eqn:Ed; [|assumption].
    apply keyed_write; [assumption | apply keyed_slice; apply (proj1 Hc cd Ed)].
Qed.

Lemma fold_apply_disp_J : forall xs a, Forall (fun x : Z * (chunk * disp) => Q (fst (snd x))) xs -> J a -> J (fold_left (apply_disp CS rid tnow ls le) xs a).
Proof.
  induction xs as [|[k [c d]] xs IH]; intros a Hf Ha; simpl; [assumption|].
  inversion Hf; subst. apply IH; [assumption | apply apply_disp_J; assumption].
Qed.

Lemma gather_Q : forall n t old nc, (forall c, In c old -> Q c) -> Forall Q (map fst (fst (gather CS n t step old nc))).
Proof.
  induction n as [|n IH]; intros t old nc Ho; simpl; [constructor|].
  destruct (find_chunk t old) eqn:E.
  - specialize (IH (t + dur CS step) old nc Ho). destruct (gather CS n (t + dur CS step) step old nc) as [r nc'].
    simpl. constructor; [apply Ho; eapply find_chunk_in; eassumption | exact IH].
  - specialize (IH (t + dur CS step) old (nc + 1) Ho). destruct (gather CS n (t + dur CS step) step old (nc + 1)) as [r nc'].
    simpl. constructor; [apply Q_fresh | exact IH].
Qed.

Lemma Forall_combine_Q : forall (cs : list chunk) (ks : list Z) (ds : list disp),
  Forall Q cs -> Forall (fun x : Z * (chunk * disp) => Q (fst (snd x))) (combine ks (combine cs ds)).
Proof.
  induction cs as [|c cs IH]; intros ks ds H; [simpl; destruct ks; constructor|].
  inversion H; subst. destruct ds as [|d ds]; [destruct ks; constructor|].
  destruct ks as [|k ks]; [constructor|]. simpl. constructor; [assumption | apply IH; assumption].
Qed.
End GetK.

Definition ev_good (G : Z) (R : req -> Prop) (e : event) : Prop := exists r, e = ev_of r /\ req_ok G r /\ R r.

Lemma do_get_K2 : forall G s rid step key from to play force,
  G < rid -> KInv G s ->
  KInv rid (fst (do_get CS s rid step key from to play force)) /\
  forall e, In e (snd (do_get CS s rid step key from to play force)) ->
    ev_good rid (fun r => In r (reqs s) \/ (r_id r = rid /\ r_step r = step /\ r_key r = key)) e.
Proof.
  intros G s rid step key from to play force HG [K1 K2].
  assert (Hle : forall r, In r (reqs s) -> r_id r <= G) by (intros r Hr; apply (K2 r Hr)).
  unfold do_get.
  set (b := match find_bucket step key (bks s) with Some b => b | None => mkBucket step key [] NEVER play end).
  assert (Hold : forall c, In c (b_chunks b) -> Q rid step key s c).
  { intros c Hc. subst b. destruct (find_bucket step key (bks s)) as [b0|] eqn:Eb; [|destruct Hc].
    apply (upgrade G rid step key s HG). apply K1. apply in_or_app. left. eapply found_entry; eassumption. }
  replace (b_chunks (fst (match find_bucket step key (bks s) with
            | Some b0 => (b0, inf s)
            | None => (mkBucket step key [] NEVER play, mkInfo (i_sz (inf s)) (addm (i_bc (inf s)) (mode play) 1) (i_cs (inf s)) (i_cc (inf s))) end)))
    with (b_chunks b) in * by (subst b; destruct (find_bucket step key (bks s)); reflexivity).
  destruct (match find_bucket step key (bks s) with
            | Some b0 => (b0, inf s)
            | None => (mkBucket step key [] NEVER play, mkInfo (i_sz (inf s)) (addm (i_bc (inf s)) (mode play) 1) (i_cs (inf s)) (i_cc (inf s))) end) as [bb i1] eqn:Ebb.
  assert (Ebc : b_chunks bb = b_chunks b) by (subst b; destruct (find_bucket step key (bks s)); injection Ebb as <- _; reflexivity).
  rewrite Ebc.
  pose proof (gather_Q rid step key s (Z.to_nat ((to - cstart CS step from + dur CS step - 1) / dur CS step)) (cstart CS step from) (b_chunks b) (nextc s) Hold) as Hg.
  destruct (gather CS (Z.to_nat ((to - cstart CS step from + dur CS step - 1) / dur CS step)) (cstart CS step from) step (b_chunks b) (nextc s)) as [g nc].
  cbn [fst] in Hg.
  set (a := fold_left _ _ _).
  assert (Ha : J rid step key s a).
  { apply (fold_apply_disp_J G); [assumption | assumption | apply Forall_combine_Q; exact Hg |].
    split; [exact Hold | apply keyed_repeat]. }
  destruct Ha as [J1 J2].
  set (rnew := mkReq rid step key _ (ia_data a) _ _ _ false _ _ _ false).
  destruct (finish_reqs (reqs s ++ [rnew])) as [rs evs] eqn:Ef. cbn [fst snd].
  assert (Hrs : forall r, In r rs -> In r (reqs s) \/ r = rnew).
  { intros r Hr. pose proof Ef as Ef1. unfold finish_reqs in Ef1. injection Ef1 as <- _. apply filter_In in Hr. destruct Hr as [Hr _].
    apply in_app_or in Hr. destruct Hr as [Hr|[<-|[]]]; auto. }
  assert (Hevs : forall e, In e evs -> exists r, (In r (reqs s) \/ r = rnew) /\ e = ev_of r).
  { intros e He. pose proof Ef as Ef1. unfold finish_reqs in Ef1. injection Ef1 as _ <-. apply in_map_iff in He. destruct He as [r [E Hr]].
    apply filter_In in Hr. destruct Hr as [Hr _]. exists r. split; [|auto]. apply in_app_or in Hr. destruct Hr as [Hr|[<-|[]]]; auto. }
  split.
  { eapply KInv_sub; [apply signal_if_sub|].
  split.
  - intros [[sp k] c] Hin. unfold entries in Hin. cbn [bks limbo set_core] in Hin.
    assert (HR : forall r, In r rs -> R' rid step key s r).
    { intros r Hr. destruct (Hrs r Hr) as [Hr'| ->]; [left; assumption | right; cbn; auto]. }
    cbn [reqs set_core].
    apply in_app_or in Hin. destruct Hin as [Hin|Hin].
    + apply in_bentries in Hin. destruct Hin as [b' [Hb [S1 [S2 Hc]]]]. apply put_bucket_in in Hb. destruct Hb as [->|Hb].
      * cbn [b_step b_key b_chunks] in *. subst sp k.
        eapply entry_ok_weaken; [apply Z.le_refl | | left; reflexivity | apply incl_refl | apply (J1 c Hc)].
        intros r Hr _. apply HR. assumption.
      * eapply entry_ok_weaken; [apply Z.le_refl | | left; reflexivity | apply incl_refl | apply (upgrade G rid step key s HG); [apply K1; apply in_or_app; left; apply in_bentries; exists b'; auto]].
        intros r Hr _. apply HR. assumption.
    + eapply entry_ok_weaken; [apply Z.le_refl | | left; reflexivity | apply incl_refl | apply (upgrade G rid step key s HG); [apply K1; apply in_or_app; right; assumption]].
      intros r Hr _. apply HR. assumption.
  - cbn [reqs set_core]. intros r Hr. destruct (Hrs r Hr) as [Hr'| ->].
    + destruct (K2 r Hr') as [A B]. split; [assumption | lia].
    + split; [exact J2 | cbn; lia].
  }
  intros e He. destruct (Hevs e He) as [r [[Hr| ->] ->]]; exists r + exists rnew.
  - split; [reflexivity|]. destruct (K2 r Hr) as [A B]. split; [split; [assumption | lia] | left; assumption].
  - split; [reflexivity|]. split; [split; [exact J2 | cbn; lia] | right; cbn; auto].
Qed.

Lemma do_get_K : forall G s rid step key from to play force,
  G < rid -> KInv G s -> KInv rid (fst (do_get CS s rid step key from to play force)).
Proof. intros G s rid step key from to play force H H0. exact (proj1 (do_get_K2 G s rid step key from to play force H H0)). Qed.

(* ---- LoadDone ---- *)
Definition iks (rs rs' : list req) : Prop :=
  forall r', In r' rs' -> exists r, In r rs /\ r_id r' = r_id r /\ r_step r' = r_step r /\ r_key r' = r_key r.
Lemma iks_refl : forall rs, iks rs rs.
Proof. intros rs r H. exists r. auto. Qed.
Lemma iks_trans : forall a b c, iks a b -> iks b c -> iks a c.
Proof. intros a b c H1 H2 r Hr. destruct (H2 r Hr) as [r1 [I1 [A1 [B1 C1]]]]. destruct (H1 r1 I1) as [r0 [I0 [A0 [B0 C0]]]]. exists r0. repeat split; congruence || assumption. Qed.

Lemma entry_ok_iks : forall G rs rs' e, iks rs rs' -> entry_ok G (fun r => In r rs) e -> entry_ok G (fun r => In r rs') e.
Proof.
  intros G rs rs' [[sp k] c] Hi [E1 E2]. split; [exact E1|]. intros a Ha. destruct (E2 a Ha) as [A1 A2]. split; [exact A1|].
  intros r' Hr' Hid. destruct (Hi r' Hr') as [r [I [X [Y Z']]]]. rewrite Y, Z'. apply A2; [assumption | congruence].
Qed.

Lemma deliver_K : forall G ok cd sp k a rs,
  keyed sp k cd -> aw_ok G (fun r => In r rs) sp k a -> (forall r, In r rs -> req_ok G r) ->
  (forall r, In r (deliver ok cd rs a) -> req_ok G r) /\ iks rs (deliver ok cd rs a).
Proof.
  intros G ok cd sp k a rs Hcd [A1 A2] Hrs. unfold deliver. split.
  - intros r' Hr'. apply in_map_iff in Hr'. destruct Hr' as [r [E Hr]]. destruct (Hrs r Hr) as [R1 R2].
    destruct (r_id r =? a_req a) eqn:Eid; [|subst r'; split; assumption].
    apply Z.eqb_eq in Eid. destruct (A2 r Hr Eid) as [S1 S2]. subst r'. split; cbn; [|assumption].
    destruct ok; [|assumption]. apply keyed_write; [assumption|]. rewrite S1, S2. apply keyed_slice. assumption.
  - intros r' Hr'. apply in_map_iff in Hr'. destruct Hr' as [r [E Hr]]. exists r. split; [assumption|].
    destruct (r_id r =? a_req a); subst r'; cbn; auto.
Qed.

Lemma fold_deliver_K : forall G ok cd sp k aws rs,
  keyed sp k cd -> (forall a, In a aws -> aw_ok G (fun r => In r rs) sp k a) -> (forall r, In r rs -> req_ok G r) ->
  (forall r, In r (fold_left (deliver ok cd) aws rs) -> req_ok G r) /\ iks rs (fold_left (deliver ok cd) aws rs).
Proof.
  induction aws as [|a aws IH]; intros rs Hcd Ha Hrs; simpl; [split; [assumption | apply iks_refl]|].
  destruct (deliver_K G ok cd sp k a rs Hcd (Ha a (or_introl eq_refl)) Hrs) as [D1 D2].
  destruct (IH (deliver ok cd rs a) Hcd) as [F1 F2]; [|assumption|].
  - intros a' Ha'. destruct (Ha a' (or_intror Ha')) as [X1 X2]. split; [assumption|].
    intros r' Hr' Hid. destruct (D2 r' Hr') as [r [I [X [Y Z']]]]. rewrite Y, Z'. apply X2; [assumption | congruence].
  - split; [assumption | eapply iks_trans; eassumption].
Qed.

Lemma take_by_id_in : forall id l c, take_by_id id l = Some c -> In c l.
Proof. induction l as [|x l IH]; intros c H; simpl in H; [discriminate|]. destruct (c_id x =? id); [injection H as <-; left; reflexivity | right; apply IH; assumption]. Qed.
Lemma repl_first_in : forall id nc l x, In x (repl_first id nc l) -> x = nc \/ In x l.
Proof.
  induction l as [|y l IH]; intros x H; simpl in H; [contradiction|].
  destruct (c_id y =? id); [destruct H; [left; auto | right; right; assumption]|].
  destruct H as [<-|H]; [right; left; reflexivity | destruct (IH x H); [left; assumption | right; right; assumption]].
Qed.
Lemma take_limbo_in : forall sp k id l c, take_limbo sp k id l = Some c -> In (sp, k, c) l.
Proof.
  induction l as [|[[sp' k'] y] l IH]; intros c H; simpl in H; [discriminate|].
  destruct ((sp' =? sp) && (k' =? k) && (c_id y =? id)) eqn:E; [|right; apply IH; assumption].
  injection H as <-. apply andb_true_iff in E. destruct E as [E _]. apply andb_true_iff in E. destruct E as [E1 E2].
  apply Z.eqb_eq in E1, E2. subst. left. reflexivity.
Qed.
Lemma repl_limbo_in : forall sp k id nc l e, In e (repl_limbo sp k id nc l) -> e = (sp, k, nc) \/ In e l.
Proof.
  induction l as [|[[sp' k'] y] l IH]; intros e H; simpl in H; [contradiction|].
  destruct ((sp' =? sp) && (k' =? k) && (c_id y =? id)) eqn:E.
  - apply andb_true_iff in E. destruct E as [E _]. apply andb_true_iff in E. destruct E as [E1 E2]. apply Z.eqb_eq in E1, E2. subst.
    destruct H as [<-|H]; [left; reflexivity | right; right; assumption].
  - destruct H as [<-|H]; [right; left; reflexivity | destruct (IH e H); [left; assumption | right; right; assumption]].
Qed.

Lemma post_limbo_K : forall G ok r cd x id, keyed (r_step r) (r_key r) cd -> KInv G x -> KInv G (post_limbo ok r cd x id).
Proof.
  intros G ok r cd x id Hcd [K1 K2]. unfold post_limbo.
  destruct (take_limbo (r_step r) (r_key r) id (limbo x)) as [c|] eqn:Ec; [|split; assumption].
  assert (Hin : In (r_step r, r_key r, c) (entries x)) by (apply in_or_app; right; eapply take_limbo_in; eassumption).
  destruct (fold_deliver_K G ok cd (r_step r) (r_key r) (c_aw c) (reqs x) Hcd (proj2 (K1 _ Hin)) K2) as [F1 F2].
  split; cbn [reqs set_core]; [|assumption].
  intros e He. unfold entries in He. cbn [bks limbo set_core] in He. apply in_app_or in He. destruct He as [He|He].
  - eapply entry_ok_iks; [exact F2 | apply K1; apply in_or_app; left; assumption].
  - apply repl_limbo_in in He. destruct He as [->|He].
    + split; [intros cd0 H; discriminate | intros a []].
    + eapply entry_ok_iks; [exact F2 | apply K1; apply in_or_app; right; assumption].
Qed.

Lemma post_chunk_K : forall G ok r n x v, keyed (r_step r) (r_key r) (r_data r) -> KInv G x -> KInv G (post_chunk CS COL ROW ok r n x v).
Proof.
  intros G ok r n x [id pos] Hr K. unfold post_chunk.
  assert (Hcd : keyed (r_step r) (r_key r) (slice (r_data r) pos (pos + CS))) by (apply keyed_slice; assumption).
  destruct (find_bucket (r_step r) (r_key r) (bks x)) as [b|] eqn:Eb; [|apply post_limbo_K; assumption].
  destruct (take_by_id id (b_chunks b)) as [c|] eqn:Ec; [|apply post_limbo_K; assumption].
  destruct K as [K1 K2]. destruct (find_bucket_key _ _ _ _ Eb) as [B1 B2].
  assert (Hin : In (r_step r, r_key r, c) (entries x)) by (apply in_or_app; left; eapply found_entry; [eassumption | eapply take_by_id_in; eassumption]).
  set (cd := slice (r_data r) pos (pos + CS)) in *.
  destruct (fold_deliver_K G ok cd (r_step r) (r_key r) (c_aw c) (reqs x) Hcd (proj2 (K1 _ Hin)) K2) as [F1 F2].
  split; cbn [reqs set_core]; [|assumption].
  intros [[sp k] y] He. unfold entries in He. cbn [bks limbo set_core] in He. apply in_app_or in He. destruct He as [He|He].
  - apply in_bentries in He. destruct He as [b' [Hb [S1 [S2 Hy]]]]. apply put_bucket_in in Hb. destruct Hb as [->|Hb].
    + cbn [b_step b_key b_chunks] in *. subst sp k. apply repl_first_in in Hy. destruct Hy as [->|Hy].
      * rewrite B1, B2. unfold ch_finish. destruct ok.
        -- split; [intros cd0 H; cbn in H; injection H as <-; exact Hcd | intros a []].
        -- destruct (K1 _ Hin) as [E1 _]. split; [exact E1 | intros a []].
      * eapply entry_ok_iks; [exact F2 | apply K1; apply in_or_app; left; apply in_bentries; exists b; split; [eapply find_bucket_in; eassumption | auto]].
    + eapply entry_ok_iks; [exact F2 | apply K1; apply in_or_app; left; apply in_bentries; exists b'; auto].
  - eapply entry_ok_iks; [exact F2 | apply K1; apply in_or_app; right; assumption].
Qed.

Lemma deliver_iks : forall ok cd rs a, iks rs (deliver ok cd rs a).
Proof.
  intros ok cd rs a r' Hr'. unfold deliver in Hr'. apply in_map_iff in Hr'. destruct Hr' as [r [E Hr]]. exists r. split; [assumption|].
  destruct (r_id r =? a_req a); subst r'; cbn; auto.
Qed.
Lemma fold_deliver_iks : forall ok cd aws rs, iks rs (fold_left (deliver ok cd) aws rs).
Proof. induction aws as [|a aws IH]; intros rs; simpl; [apply iks_refl | eapply iks_trans; [apply deliver_iks | apply IH]]. Qed.
Lemma post_chunk_iks : forall ok r n x v, iks (reqs x) (reqs (post_chunk CS COL ROW ok r n x v)).
Proof.
  intros ok r n x [id pos]. unfold post_chunk, post_limbo.
  destruct (find_bucket (r_step r) (r_key r) (bks x)) as [b|].
  - destruct (take_by_id id (b_chunks b)) as [c|]; [cbn [reqs set_core]; apply fold_deliver_iks|].
    destruct (take_limbo (r_step r) (r_key r) id (limbo x)); [cbn [reqs set_core]; apply fold_deliver_iks | apply iks_refl].
  - destruct (take_limbo (r_step r) (r_key r) id (limbo x)); [cbn [reqs set_core]; apply fold_deliver_iks | apply iks_refl].
Qed.
Lemma fold_post_chunk_iks : forall ok r n vs x, iks (reqs x) (reqs (fold_left (post_chunk CS COL ROW ok r n) vs x)).
Proof. induction vs as [|v vs IH]; intros x; simpl; [apply iks_refl | eapply iks_trans; [apply post_chunk_iks | apply IH]]. Qed.

Lemma do_loaddone_K2 : forall G s l ok, KInv G s ->
  KInv G (fst (do_loaddone CS COL ROW s l ok)) /\
  forall e, In e (snd (do_loaddone CS COL ROW s l ok)) ->
    ev_good G (fun r' => exists r, In r (reqs s) /\ r_id r' = r_id r /\ r_step r' = r_step r /\ r_key r' = r_key r) e.
Proof.
  intros G s l ok [K1 K2]. unfold do_loaddone.
  destruct (filter (fun r => r_load r =? l) (reqs s)) as [|r0 rest] eqn:Ef; [split; [split; assumption | intros e []]|].
  assert (H0 : In r0 (reqs s)) by (assert (In r0 (filter (fun r => r_load r =? l) (reqs s))) by (rewrite Ef; left; reflexivity); apply filter_In in H; apply H).
  destruct (r_chunks r0) as [|[i0 p0] vs] eqn:Ev; [split; [split; assumption | intros e []]|].
  destruct (K2 r0 H0) as [R1 R2].
  match goal with |- context [post_chunk CS COL ROW ok ?rr ?nn] => set (r1 := rr) in *; set (n1 := nn) in * end.
  assert (Hr1 : keyed (r_step r1) (r_key r1) (r_data r1)).
  { subst r1. cbn [r_step r_key r_data]. destruct ok; [apply keyed_write; [assumption | apply keyed_load_cells] | assumption]. }
  assert (Hid1 : r_id r1 = r_id r0 /\ r_step r1 = r_step r0 /\ r_key r1 = r_key r0) by (subst r1; cbn; auto).
  match goal with |- context [fold_left (post_chunk CS COL ROW ok r1 n1) ?vv ?ss] => set (s1 := ss) in *; set (vs1 := vv) in * end.
  assert (Hi : iks (reqs s) (reqs s1)).
  { intros r' Hr'. cbn [s1 reqs set_core] in Hr'. apply in_map_iff in Hr'. destruct Hr' as [r [E Hr]].
    destruct (r_id r =? r_id r0) eqn:Eid; [|subst r'; exists r; auto].
    subst r'. exists r0. split; [assumption | apply Hid1]. }
  assert (Ks1 : KInv G s1).
  { split.
    - intros e He. eapply entry_ok_iks; [exact Hi | apply K1; exact He].
    - intros r' Hr'. cbn [s1 reqs set_core] in Hr'. apply in_map_iff in Hr'. destruct Hr' as [r [E Hr]].
      destruct (r_id r =? r_id r0); [subst r'; split; [exact Hr1 | destruct Hid1 as [-> _]; exact R2] | subst r'; apply K2; assumption]. }
  assert (Kf : forall vs0 x, KInv G x -> KInv G (fold_left (post_chunk CS COL ROW ok r1 n1) vs0 x)).
  { induction vs0 as [|v vs0 IH]; intros x Kx; simpl; [assumption | apply IH, post_chunk_K; assumption]. }
  specialize (Kf vs1 s1 Ks1). pose proof (fold_post_chunk_iks ok r1 n1 vs1 s1) as Hi2. set (s2 := fold_left _ vs1 s1) in *.
  destruct (finish_reqs (reqs s2)) as [rs evs] eqn:Efin. cbn [fst snd]. destruct Kf as [F1 F2].
  split.
  2:{ intros e He. unfold finish_reqs in Efin. injection Efin as _ <-. apply in_map_iff in He. destruct He as [r [E Hr]].
      apply filter_In in Hr. destruct Hr as [Hr _]. exists r. split; [auto|]. split; [apply F2; assumption|].
      apply (iks_trans _ _ _ Hi Hi2 r Hr). }
  eapply KInv_sub; [apply signal_if_sub|].
  assert (Hsub : forall r, In r rs -> In r (reqs s2)) by (intros r Hr; unfold finish_reqs in Efin; injection Efin as <- _; apply filter_In in Hr; apply Hr).
  split; cbn [reqs set_core].
  - intros [[sp k] c] He. eapply entry_ok_weaken; [apply Z.le_refl | | left; reflexivity | apply incl_refl | apply (F1 _ He)].
    intros r Hr _. apply Hsub. assumption.
  - intros r Hr. apply F2, Hsub. assumption.
Qed.

Lemma do_loaddone_K : forall G s l ok, KInv G s -> KInv G (fst (do_loaddone CS COL ROW s l ok)).
Proof. intros G s l ok H. exact (proj1 (do_loaddone_K2 G s l ok H)). Qed.

(* ---- every step, every history ---- *)
Definition rid_ok (G : Z) (o : op) : Prop := match o with Get rid _ _ _ _ _ _ => G < rid | _ => True end.

Lemma KInv_sub_step : forall G s s', sub s s' -> KInv G s -> KInv G s'.
Proof. exact KInv_sub. Qed.
Definition next_G (G : Z) (o : op) : Z := match o with Get rid _ _ _ _ _ _ => rid | _ => G end.

Lemma step_K : forall G s o, rid_ok G o -> KInv G s -> KInv (next_G G o) (fst (step CS COL ROW FX s o)).
Proof.
  intros G s o Hr K. destruct o as [d|rid sp k f t p fo|l ok|sp ts| |a m so| |rid|sp ts|]; cbn [step next_G].
  - eapply KInv_sub; [apply sub_ext; reflexivity | exact K].
  - pose proof (do_get_K G s rid sp k f t p fo Hr K) as H. destruct (do_get CS s rid sp k f t p fo) as [s1 e]. cbn [fst] in *.
    eapply KInv_sub; [apply run_trim_sub | exact H].
  - pose proof (do_loaddone_K G s l ok K) as H. destruct (do_loaddone CS COL ROW s l ok) as [s1 e]. cbn [fst] in *.
    eapply KInv_sub; [apply run_trim_sub | exact H].
  - eapply KInv_sub; [apply do_invalidate_sub | exact K].
  - eapply KInv_sub; [eapply sub_trans; [apply do_reset_sub | apply run_trim_sub] | exact K].
  - eapply KInv_sub; [|exact K]. eapply sub_trans; [|apply run_trim_sub].
    unfold do_setlimits. destruct (if m <=? 0 then _ else _) as [mx' soft']. destruct (_ || _); [apply sub_refl | apply sub_ext; reflexivity].
  - cbn [fst]. eapply KInv_sub; [|exact K]. unfold do_shutdown. destruct (shut s); [apply sub_refl|].
    eapply sub_trans; [|apply reduce_sub]. apply sub_ext; reflexivity.
  - unfold do_cancel. destruct (existsb _ _); cbn [fst]; [|assumption]. destruct K as [K1 K2].
    assert (Hi : iks (reqs s) (map (fun r => if r_id r =? rid then mkReq (r_id r) (r_step r) (r_key r) (r_t0 r) (r_data r) (r_ls r) (r_le r) (r_wait r)
                                                  (r_err r) (r_mode r) (r_load r) (r_chunks r) true else r) (reqs s))).
    { intros r' Hr'. apply in_map_iff in Hr'. destruct Hr' as [r [E Hin]]. exists r. split; [assumption|]. destruct (r_id r =? rid); subst r'; cbn; auto. }
    split; cbn [reqs set_core].
    + intros e He. eapply entry_ok_iks; [exact Hi | apply K1; exact He].
    + intros r' Hr'. apply in_map_iff in Hr'. destruct Hr' as [r [E Hin]]. destruct (K2 r Hin) as [A B].
      destruct (r_id r =? rid); subst r'; split; assumption.
  - cbn [fst]. unfold do_inv_begin. destruct (first_key sp (bks s)); (eapply KInv_sub; [|exact K]); [apply inv_one_sub | apply sub_ext; reflexivity].
  - cbn [fst]. unfold do_inv_next. destruct (ipass s) as [[[[sp starts] tI] [k|]]|]; (eapply KInv_sub; [|exact K]); [apply inv_one_sub | apply sub_ext; reflexivity | apply sub_ext; reflexivity].
Qed.

(* what a step returns comes out of the requests in flight after do_get / during do_loaddone: all returned rows
   carry the shard and query of their request.  Stated on the events of a step from a state satisfying KInv. *)
Fixpoint rids_inc (G : Z) (ops : list op) : Prop :=
  match ops with [] => True | o :: r => rid_ok G o /\ rids_inc (next_G G o) r end.

Theorem run_K : forall ops G s, rids_inc G ops -> KInv G s -> exists G', KInv G' (fst (run CS COL ROW FX s ops)).
Proof.
  induction ops as [|o ops IH]; intros G s Hr K; simpl; [exists G; assumption|].
  destruct Hr as [H1 H2]. pose proof (step_K G s o H1 K) as Ks. destruct (step CS COL ROW FX s o) as [s1 e]. cbn [fst] in Ks.
  destruct (IH _ s1 H2 Ks) as [G' KG]. destruct (run CS COL ROW FX s1 ops) as [s2 es]. exists G'. exact KG.
Qed.

Lemma KInv_init : KInv 0 st0.
Proof. split; intros x []. Qed.

Theorem rows_of_own_query : forall ops, rids_inc 0 ops -> exists G, KInv G (fst (run CS COL ROW FX st0 ops)).
Proof. intros. eapply run_K; [eassumption | apply KInv_init]. Qed.

End Key.
