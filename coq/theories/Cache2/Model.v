(* C23 — executable model of internal/api/tscache2*.go (cache2).
   One model step = one harness step run to quiescence (the API call, every critical section it
   triggers, and the trim goroutine's reaction).  Time unit: half a millisecond relative to the start of
   the run (SEC = 2000); chunk/slot times are seconds relative to the same origin (the origin is a
   multiple of every chunk duration used, so the chunk grid is the same as the absolute one).
   Rows are abstracted to cells (shard step, query key, slot time, load id): the stub storage
   produces row(slot time, load id) for the query it was asked. *)
From Coq Require Import ZArith List Bool.
Import ListNotations.
Open Scope Z_scope.

Definition SEC : Z := 2000.
Definition LINGER : Z := 15 * SEC.            (* invalidateLinger *)
Definition NEVER : Z := - (2 ^ 50).           (* Go's zero time stamp (absolute 0) *)
Definition MAXI : Z := 2 ^ 62.                (* math.MaxInt in runtimeInfo.playInterval *)

Record cell := mkCell { ce_step : Z; ce_key : Z; ce_t : Z; ce_l : Z }.
Record awaiter := mkAw { a_req : Z; a_ls : Z; a_le : Z; a_off : Z }.
Record chunk := mkChunk { c_id : Z; c_start : Z; c_data : option (list (option cell)); c_aw : list awaiter;
  c_inv : Z; c_lsa : Z; c_lat : Z; c_size : Z; c_loading : Z }.
Record bucket := mkBucket { b_step : Z; b_key : Z; b_chunks : list chunk; b_lat : Z; b_play : Z }.
Record req := mkReq { r_id : Z; r_step : Z; r_key : Z; r_t0 : Z; r_data : list (option cell);
  r_ls : Z; r_le : Z; r_wait : Z; r_err : bool; r_mode : Z; r_load : Z; r_chunks : list (Z * Z); r_gone : bool }.
(* runtime info, water level part: [default mode; play mode] *)
Record info := mkInfo { i_sz : Z * Z; i_bc : Z * Z; i_cs : Z * Z; i_cc : Z * Z }.
Record st := mkSt { now : Z; bks : list bucket; limbo : list (Z * Z * chunk); reqs : list req; nextc : Z; nextl : Z;
  inf : info; minacc : Z; l_age : Z; l_max : Z; l_soft : Z; shut : bool; sig : bool;
  armed : option Z; stuck : bool;
  ipass : option (Z * list Z * Z * option Z) }.   (* invalidation pass in progress: shard step, chunk starts, time stamp, key of the bucket shard.invalidateIter points to *)

Definition info0 := mkInfo (0,0) (0,0) (0,0) (0,0).
Definition st0 := mkSt 0 [] [] [] 1 1 info0 0 0 0 0 false false None false None.

Definition mode (play : Z) : Z := if 0 <? play then 1 else 0.
Definition addm (p : Z * Z) (m d : Z) : Z * Z := if m =? 0 then (fst p + d, snd p) else (fst p, snd p + d).
Definition tot (p : Z * Z) : Z := fst p + snd p.
Definition isize (i : info) : Z := tot (i_sz i).
Definition nrows (step t l : Z) : Z := if (t / step + l) mod 3 =? 0 then 2 else 1.

(* list helpers *)
Fixpoint write {A} (l : list A) (pos : nat) (v : list A) : list A :=
  match v with
  | [] => l
  | x :: v' => match pos, l with
               | _, [] => []
               | O, _ :: l' => x :: write l' O v'
               | S p, y :: l' => y :: write l' p v
               end
  end.
Definition slice {A} (l : list A) (a b : Z) : list A := firstn (Z.to_nat (b - a)) (skipn (Z.to_nat a) l).
Definition zlen {A} (l : list A) : Z := Z.of_nat (length l).
Fixpoint first_true (l : list bool) (i : Z) : option Z :=
  match l with [] => None | b :: l' => if b then Some i else first_true l' (i + 1) end.
Fixpoint last_true (l : list bool) (i : Z) (acc : option Z) : option Z :=
  match l with [] => acc | b :: l' => last_true l' (i + 1) (if b then Some i else acc) end.
Fixpoint zseq (a : Z) (n : nat) : list Z := match n with O => [] | S n' => a :: zseq (a + 1) n' end.
Fixpoint sum_size (l : list chunk) : Z := match l with [] => 0 | c :: r => c_size c + sum_size r end.

Section Cfg.
Variables CS COL ROW : Z.     (* chunk size in slots; sizeof([]tsSelectRow); sizeofCache2Row of a stub row *)
Variable FX : bool.           (* false: removeChunksNotUsedAfterUnlocked as it is; true: repaired (see rc_go) *)

Definition dur (step : Z) : Z := CS * step.
Definition cstart (step t : Z) : Z := (t / dur step) * dur step.
Definition cendT (step : Z) (c : chunk) : Z := (c_start c + dur step) * SEC.
Definition fresh (id s : Z) : chunk := mkChunk id s None [] NEVER NEVER NEVER 0 0.

(* maybeAddChunk: the decision table (load, wait) *)
Definition decide (step tnow stale : Z) (force : bool) (c : chunk) : bool * bool :=
  let e := cendT step c in
  if (match c_data c with None => true | Some _ => false end) || (c_lsa c <? e) || force then (true, true)
  else if negb (c_inv c =? NEVER) then (true, stale <=? tnow - c_inv c)
  else if c_lsa c <? e + LINGER then (true, false)
  else (false, false).

(* chunk-level transitions (each is one critical section of the chunk mutex) *)
Definition ch_load (tnow : Z) (c : chunk) : chunk :=      (* maybeAddChunk: this loader will load the chunk *)
  mkChunk (c_id c) (c_start c) (c_data c) (c_aw c) (c_inv c) tnow tnow (c_size c) (c_loading c + 1).
Definition ch_await (tnow : Z) (a : awaiter) (c : chunk) : chunk :=
  mkChunk (c_id c) (c_start c) (c_data c) (c_aw c ++ [a]) (c_inv c) (c_lsa c) tnow (c_size c) (c_loading c).
Definition ch_touch (tnow : Z) (c : chunk) : chunk :=
  mkChunk (c_id c) (c_start c) (c_data c) (c_aw c) (c_inv c) (c_lsa c) tnow (c_size c) (c_loading c).
Definition ch_inval (tnow : Z) (c : chunk) : chunk :=     (* cache2Chunk.invalidate *)
  mkChunk (c_id c) (c_start c) (c_data c) (c_aw c) tnow (c_lsa c) (c_lat c) (c_size c) (c_loading c).
Definition ch_finish (ok : bool) (cd : list (option cell)) (csize : Z) (c : chunk) : chunk :=   (* loadChunks, attached chunk *)
  if ok then mkChunk (c_id c) (c_start c) (Some cd) [] (if c_lsa c <? c_inv c then c_inv c else NEVER)
                     (c_lsa c) (c_lat c) csize (c_loading c - 1)
  else mkChunk (c_id c) (c_start c) (c_data c) [] (c_inv c) (c_lsa c) (c_lat c) (c_size c) (c_loading c - 1).

Inductive disp := DLoad | DAwait | DCopy.

Fixpoint find_chunk (s : Z) (l : list chunk) : option chunk :=
  match l with [] => None | c :: l' => if c_start c =? s then Some c else find_chunk s l' end.

(* init, pass 1: the chunks of the request range, existing or new (new ones get fresh ids) *)
Fixpoint gather (n : nat) (t step : Z) (old : list chunk) (nc : Z) : list (chunk * bool) * Z :=
  match n with
  | O => ([], nc)
  | S n' => match find_chunk t old with
            | Some c => let (r, nc') := gather n' (t + dur step) step old nc in ((c, false) :: r, nc')
            | None => let (r, nc') := gather n' (t + dur step) step old (nc + 1) in ((fresh nc t, true) :: r, nc')
            end
  end.

(* the disposition of every chunk: chunks between the first and the last chunk this loader must load
   itself are loaded by it (absorbed); the others are awaited (wait) or copied *)
Definition dispositions (step tnow stale : Z) (force : bool) (cs : list chunk) : list disp :=
  let dw := map (decide step tnow stale force) cs in
  let sl := map (fun p : chunk * (bool * bool) => let '(c, (ld, _)) := p in ld && (c_loading c =? 0)) (combine cs dw) in
  let lo := first_true sl 0 in
  let hi := last_true sl 0 None in
  map (fun p : Z * (bool * bool) => let '(k, (_, w)) := p in
         match lo, hi with
         | Some a, Some b => if (a <=? k) && (k <=? b) then DLoad else if w then DAwait else DCopy
         | _, _ => if w then DAwait else DCopy
         end) (combine (zseq 0 (length cs)) dw).

(* init, pass 2: the decision is applied to the chunk of the bucket that starts at the gathered chunk's start
   (the first such chunk; a new chunk is inserted in start order) *)
Fixpoint repl_start (t : Z) (g : chunk -> chunk) (l : list chunk) : list chunk :=
  match l with [] => [] | c :: r => if c_start c =? t then g c :: r else c :: repl_start t g r end.
Fixpoint ins_sorted (c : chunk) (l : list chunk) : list chunk :=
  match l with [] => [c] | x :: r => if c_start c <? c_start x then c :: l else x :: ins_sorted c r end.
Definition upd_at (t : Z) (g : chunk -> chunk) (dflt : chunk) (l : list chunk) : list chunk * bool :=
  if existsb (fun c => c_start c =? t) l then (repl_start t g l, false) else (ins_sorted (g dflt) l, true).

Record iacc := mkIacc { ia_data : list (option cell); ia_wait : Z; ia_chunks : list chunk; ia_loads : list (Z * Z); ia_new : Z }.

Definition disp_fun (rid tnow ls le pos : Z) (d : disp) : chunk -> chunk :=
  match d with
  | DLoad => ch_load tnow
  | DAwait => ch_await tnow (mkAw rid (Z.max pos ls) (Z.min le (pos + CS)) (Z.max pos ls - pos))
  | DCopy => ch_touch tnow
  end.

Definition apply_disp (rid tnow ls le : Z) (a : iacc) (x : Z * (chunk * disp)) : iacc :=
  let '(k, (c, d)) := x in
  let pos := k * CS in
  let lsv := Z.max pos ls in
  let lev := Z.min le (pos + CS) in
  let '(l', ins) := upd_at (c_start c) (disp_fun rid tnow ls le pos d) c (ia_chunks a) in
  mkIacc (match d with
          | DCopy => match c_data c with
                     | Some cd => write (ia_data a) (Z.to_nat lsv) (slice cd (lsv - pos) (lev - pos))
                     | None => ia_data a end
          | _ => ia_data a end)
         (match d with DAwait => ia_wait a + 1 | _ => ia_wait a end)
         l'
         (match d with DLoad => ia_loads a ++ [(c_id c, pos)] | _ => ia_loads a end)
         (if ins then ia_new a + 1 else ia_new a).

Fixpoint find_bucket (step key : Z) (l : list bucket) : option bucket :=
  match l with [] => None | b :: l' => if (b_step b =? step) && (b_key b =? key) then Some b else find_bucket step key l' end.
Fixpoint put_bucket (nb : bucket) (l : list bucket) : list bucket :=
  match l with
  | [] => [nb]
  | b :: l' => if (b_step b =? b_step nb) && (b_key b =? b_key nb) then nb :: l' else b :: put_bucket nb l'
  end.

(* updateRuntimeInfoUnlocked: the trim goroutine is signalled when the soft limit is exceeded *)
Definition signal_if (s : st) : st :=
  if negb (l_max s =? 0) && (l_soft s <? isize (inf s)) then
    mkSt (now s) (bks s) (limbo s) (reqs s) (nextc s) (nextl s) (inf s) (minacc s) (l_age s) (l_max s) (l_soft s) (shut s) true (armed s) (stuck s) (ipass s)
  else s.

Definition set_core (s : st) (b : list bucket) (lb : list (Z * Z * chunk)) (r : list req) (nc nl : Z) (i : info) (m : Z) : st :=
  mkSt (now s) b lb r nc nl i m (l_age s) (l_max s) (l_soft s) (shut s) (sig s) (armed s) (stuck s) (ipass s).

(* events: requests that returned in this step: (id, failed, cells of the requested range) *)
Definition event := (Z * bool * list (option cell))%type.
Definition ev_of (r : req) : event := (r_id r, r_err r, slice (r_data r) (r_ls r) (r_le r)).
Definition finish_reqs (rs : list req) : list req * list event :=
  (filter (fun r => 0 <? r_wait r) rs, map ev_of (filter (fun r => negb (0 <? r_wait r) && negb (r_gone r)) rs)).

(* cache2.Get = newLoader + init + run, up to the point where the loader goroutine sits in the storage call *)
Definition do_get (s : st) (rid step key from to play : Z) (force : bool) : st * list event :=
  let d := dur step in
  let first := cstart step from in
  let count := (to - first + d - 1) / d in
  let n := count * CS in
  let ls := (from - first) / step in
  let le := ls + (to - from) / step in
  let md := mode play in
  let stale := if play =? 1 then SEC else 0 in
  let '(b, i1) := match find_bucket step key (bks s) with
                  | Some b => (b, inf s)
                  | None => (mkBucket step key [] NEVER play,
                             mkInfo (i_sz (inf s)) (addm (i_bc (inf s)) md 1) (i_cs (inf s)) (i_cc (inf s)))
                  end in
  let '(g, nc) := gather (Z.to_nat count) first step (b_chunks b) (nextc s) in
  let cs := map fst g in
  let ds := dispositions step (now s) stale force cs in
  let a := fold_left (apply_disp rid (now s) ls le) (combine (zseq 0 (length cs)) (combine cs ds))
                     (mkIacc (repeat None (Z.to_nat n)) 0 (b_chunks b) [] 0) in
  let b' := mkBucket step key (ia_chunks a) (now s) play in
  let i2 := mkInfo (i_sz i1) (i_bc i1) (addm (i_cs i1) md (ia_new a * CS)) (addm (i_cc i1) md (ia_new a)) in
  let hasload := negb (match ia_loads a with [] => true | _ => false end) in
  let r := mkReq rid step key first (ia_data a) ls le (ia_wait a + (if hasload then 1 else 0)) false md
                 (if hasload then nextl s else 0) (ia_loads a) false in
  let '(rs, evs) := finish_reqs (reqs s ++ [r]) in
  (signal_if (set_core s (put_bucket b' (bks s)) (limbo s) rs nc (if hasload then nextl s + 1 else nextl s) i2 (minacc s)), evs).

(* what the stub storage writes into the loader's buffer *)
Definition load_cells (step key t0 l : Z) (a b : Z) : list (option cell) :=
  map (fun i => Some (mkCell step key (t0 + i * step) l)) (zseq a (Z.to_nat (b - a))).

Definition cell_size (oc : option cell) : Z :=
  match oc with Some c => COL + nrows (ce_step c) (ce_t c) (ce_l c) * ROW | None => COL end.
Definition sum_sizes (l : list (option cell)) : Z := fold_left (fun acc c => acc + cell_size c) l 0.

Definition deliver (ok : bool) (cd : list (option cell)) (rs : list req) (a : awaiter) : list req :=
  map (fun r => if r_id r =? a_req a then
                  mkReq (r_id r) (r_step r) (r_key r) (r_t0 r)
                        (if ok then write (r_data r) (Z.to_nat (a_ls a)) (slice cd (a_off a) (a_off a + (a_le a - a_ls a))) else r_data r)
                        (r_ls r) (r_le r) (r_wait r - 1) (r_err r || negb ok) (r_mode r) (r_load r) (r_chunks r) (r_gone r)
                else r) rs.

Fixpoint take_by_id (id : Z) (l : list chunk) : option chunk :=
  match l with [] => None | c :: l' => if c_id c =? id then Some c else take_by_id id l' end.
Fixpoint repl_first (id : Z) (nc : chunk) (l : list chunk) : list chunk :=
  match l with [] => [] | c :: l' => if c_id c =? id then nc :: l' else c :: repl_first id nc l' end.
(* detached chunks still referenced by loaders, remembered with the bucket they came from *)
Fixpoint take_limbo (sp k id : Z) (l : list (Z * Z * chunk)) : option chunk :=
  match l with
  | [] => None
  | (sp', k', c) :: l' => if (sp' =? sp) && (k' =? k) && (c_id c =? id) then Some c else take_limbo sp k id l'
  end.
Fixpoint repl_limbo (sp k id : Z) (nc : chunk) (l : list (Z * Z * chunk)) : list (Z * Z * chunk) :=
  match l with
  | [] => []
  | (sp', k', c) :: l' => if (sp' =? sp) && (k' =? k) && (c_id c =? id) then (sp', k', nc) :: l' else (sp', k', c) :: repl_limbo sp k id nc l'
  end.

Definition post_limbo (ok : bool) (r : req) (cd : list (option cell)) (x : st) (id : Z) : st :=
  match take_limbo (r_step r) (r_key r) id (limbo x) with
  | Some c => set_core x (bks x)
                       (repl_limbo (r_step r) (r_key r) id (mkChunk id (c_start c) None [] (c_inv c) (c_lsa c) (c_lat c) 0 (c_loading c)) (limbo x))
                       (fold_left (deliver ok cd) (c_aw c) (reqs x)) (nextc x) (nextl x) (inf x) (minacc x)
  | None => x
  end.

(* loadChunks after the storage call returned: post-load of one chunk *)
Definition post_chunk (ok : bool) (r : req) (n : Z) (x : st) (v : Z * Z) : st :=
  let '(id, pos) := v in
  let lsv := Z.max pos (r_ls r) in
  let lev := Z.min (r_le r) (pos + CS) in
  let cd := slice (r_data r) pos (pos + CS) in
  let csize := ((n - lsv) + (n - lev) + (n - (pos + CS))) * COL + sum_sizes cd in
  match find_bucket (r_step r) (r_key r) (bks x) with
  | Some b =>
    match take_by_id id (b_chunks b) with
    | Some c =>
      let c' := ch_finish ok cd csize c in
      let i := inf x in
      let i' := if ok then mkInfo (addm (i_sz i) (r_mode r) (csize - c_size c)) (i_bc i) (i_cs i) (i_cc i) else i in
      set_core x (put_bucket (mkBucket (b_step b) (b_key b) (repl_first id c' (b_chunks b)) (b_lat b) (b_play b)) (bks x))
               (limbo x) (fold_left (deliver ok cd) (c_aw c) (reqs x)) (nextc x) (nextl x) i' (minacc x)
    | None => post_limbo ok r cd x id
    end
  | None => post_limbo ok r cd x id
  end.

Definition do_loaddone (s : st) (l : Z) (ok : bool) : st * list event :=
  match filter (fun r => r_load r =? l) (reqs s) with
  | r0 :: _ =>
    match r_chunks r0 with
    | [] => (s, [])
    | (_, p0) :: _ =>
      let n := zlen (r_data r0) in
      let pend := p0 + zlen (r_chunks r0) * CS in
      let r1 := mkReq (r_id r0) (r_step r0) (r_key r0) (r_t0 r0)
                      (if ok then write (r_data r0) (Z.to_nat p0) (load_cells (r_step r0) (r_key r0) (r_t0 r0) l p0 pend) else r_data r0)
                      (r_ls r0) (r_le r0) (r_wait r0 - 1) (r_err r0 || negb ok) (r_mode r0) 0 (r_chunks r0) (r_gone r0) in
      let s1 := set_core s (bks s) (limbo s) (map (fun r => if r_id r =? r_id r0 then r1 else r) (reqs s))
                         (nextc s) (nextl s) (inf s) (minacc s) in
      let s2 := fold_left (post_chunk ok r1 n) (r_chunks r0) s1 in
      let '(rs, evs) := finish_reqs (reqs s2) in
      (signal_if (set_core s2 (bks s2) (limbo s2) rs (nextc s2) (nextl s2) (inf s2) (minacc s2)), evs)
    end
  | [] => (s, [])
  end.

(* cache2Bucket.invalidate on the buckets selected by p *)
Definition inval_where (p : bucket -> bool) (starts : list Z) (tI : Z) (l : list bucket) : list bucket :=
  map (fun b => if p b then mkBucket (b_step b) (b_key b)
                   (map (fun c : chunk => if existsb (Z.eqb (c_start c)) starts then ch_inval tI c else c) (b_chunks b)) (b_lat b) (b_play b)
                else b) l.
Definition set_bks (s : st) (b : list bucket) : st := set_core s b (limbo s) (reqs s) (nextc s) (nextl s) (inf s) (minacc s).
Definition set_ipass (s : st) (v : option (Z * list Z * Z * option Z)) : st :=
  mkSt (now s) (bks s) (limbo s) (reqs s) (nextc s) (nextl s) (inf s) (minacc s) (l_age s) (l_max s) (l_soft s) (shut s) (sig s) (armed s) (stuck s) v.

(* cache2.invalidate as one step: chunk starts of the (sorted) times, then every bucket of the shard *)
Definition do_invalidate (s : st) (step : Z) (times : list Z) : st :=
  set_bks s (inval_where (fun b => b_step b =? step) (map (cstart step) times) (now s) (bks s)).

(* the same pass bucket by bucket (shard.invalidate releases the shard lock between buckets): the order is the
   shard's bucket list (insertion order), shard.invalidateIter points to the next bucket *)
Fixpoint first_key (step : Z) (l : list bucket) : option Z :=
  match l with [] => None | b :: r => if b_step b =? step then Some (b_key b) else first_key step r end.
Fixpoint next_key (step key : Z) (l : list bucket) : option Z :=
  match l with [] => None | b :: r => if (b_step b =? step) && (b_key b =? key) then first_key step r else next_key step key r end.
Definition inv_one (s : st) (step key : Z) (starts : list Z) (tI : Z) : st :=
  set_ipass (set_bks s (inval_where (fun b => (b_step b =? step) && (b_key b =? key)) starts tI (bks s)))
            (Some (step, starts, tI, next_key step key (bks s))).
Definition do_inv_begin (s : st) (step : Z) (times : list Z) : st :=
  match first_key step (bks s) with
  | None => set_ipass s None
  | Some k => inv_one s step k (map (cstart step) times) (now s)
  end.
Definition do_inv_next (s : st) : st :=
  match ipass s with
  | Some (step, starts, tI, Some k) => inv_one s step k starts tI
  | _ => set_ipass s None
  end.

(* Get's context is cancelled: the call returns at once; the request stays to receive what it registered for *)
Definition do_cancel (s : st) (rid : Z) : st * list event :=
  if existsb (fun r => (r_id r =? rid) && negb (r_gone r)) (reqs s)
  then (set_core s (bks s) (limbo s)
          (map (fun r => if r_id r =? rid then mkReq (r_id r) (r_step r) (r_key r) (r_t0 r) (r_data r) (r_ls r) (r_le r) (r_wait r)
                                                  (r_err r) (r_mode r) (r_load r) (r_chunks r) true else r) (reqs s))
          (nextc s) (nextl s) (inf s) (minacc s), [(rid, true, [])])
  else (s, []).

(* removeChunksNotUsedAfterUnlocked: returns kept chunks, detached chunks, info, min access time of the kept ones *)
Definition busy (c : chunk) : bool := (0 <? c_loading c) || negb (match c_aw c with [] => true | _ => false end).
(* the loop of removeChunksNotUsedAfterUnlocked as written: after deleting the run [i,j) of unused chunks it
   continues at index j of the SHORTENED slice, so the j-i chunks that followed the run are never examined
   (they stay, and their access time is not folded into minChunkAccessTime).  l = chunks from the current
   index on; result: chunks that stay, chunks removed, min access time of the examined ones that stay. *)
Fixpoint span_old (t : Z) (l : list chunk) : list chunk * list chunk :=
  match l with
  | c :: r => if c_lat c <? t then let (a, b) := span_old t r in (c :: a, b) else ([], l)
  | [] => ([], [])
  end.
Fixpoint rc_go (fuel : nat) (t : Z) (l : list chunk) (mn : Z) : list chunk * list chunk * Z :=
  match fuel with
  | O => (l, [], mn)
  | S f =>
    match l with
    | [] => ([], [], mn)
    | c :: r =>
      if c_lat c <? t then
        let (run, rest) := span_old t l in
        let n := length run in
        let '(k, g, m) := rc_go f t (skipn n rest) mn in
        (firstn n rest ++ k, run ++ g, m)
      else let '(k, g, m) := rc_go f t r (Z.min mn (c_lat c)) in (c :: k, g, m)
    end
  end.

Definition remove_chunks (b : bucket) (t : Z) (i : info) (mn : Z) : list chunk * list chunk * info * Z :=
  let md := mode (b_play b) in
  let '(kept, gone, mn') :=
    if FX then (filter (fun c => negb (c_lat c <? t)) (b_chunks b), filter (fun c => c_lat c <? t) (b_chunks b),
                fold_left (fun a c => Z.min a (c_lat c)) (filter (fun c => negb (c_lat c <? t)) (b_chunks b)) mn)
    else rc_go (S (length (b_chunks b))) t (b_chunks b) mn in
  let n := zlen gone in
  let i' := mkInfo (addm (i_sz i) md (- sum_size gone)) (i_bc i)
                   (addm (i_cs i) md (- (n * CS))) (addm (i_cc i) md (- n)) in
  (kept, filter busy gone, i', mn').

Fixpoint drop_bucket (step key : Z) (l : list bucket) : list bucket :=
  match l with [] => [] | b :: l' => if (b_step b =? step) && (b_key b =? key) then l' else b :: drop_bucket step key l' end.
Definition remove_bucket (s : st) (step key : Z) : st :=
  match find_bucket step key (bks s) with
  | None => s
  | Some b =>
    (* removeChunksNotUsedAfterUnlocked(math.MaxInt64): every chunk goes (the code panics otherwise) *)
    let md := mode (b_play b) in
    let n := zlen (b_chunks b) in
    let det := filter busy (b_chunks b) in
    let i := inf s in
    let i' := mkInfo (addm (i_sz i) md (- sum_size (b_chunks b))) (addm (i_bc i) md (-1))
                     (addm (i_cs i) md (- (n * CS))) (addm (i_cc i) md (- n)) in
    (* do not leave the invalidate iterator pointing to the removed bucket *)
    let ip := match ipass s with
              | Some (sp, starts, tI, Some k) => if (sp =? step) && (k =? key) then Some (sp, starts, tI, next_key step key (bks s)) else ipass s
              | _ => ipass s end in
    set_ipass (set_core s (drop_bucket step key (bks s)) (limbo s ++ map (fun c => (step, key, c)) det) (reqs s) (nextc s) (nextl s) i' (minacc s)) ip
  end.

Definition do_reset (s : st) : st :=
  match bks s with
  | [] => s
  | _ => let s1 := fold_left (fun x b => remove_bucket x (b_step b) (b_key b)) (bks s) s in
         signal_if (set_core s1 (bks s1) (limbo s1) (reqs s1) (nextc s1) (nextl s1) (inf s1) (Z.max (minacc s1) (now s1)))
  end.

(* trimAged *)
Definition steps_of (l : list bucket) : list Z := nodup Z.eq_dec (map b_step l).
Definition trim_aged_bucket (dob tnow : Z) (x : st * list (Z * Z)) (b0 : bucket) : st * list (Z * Z) :=
  let '(s, mins) := x in
  match find_bucket (b_step b0) (b_key b0) (bks s) with
  | None => (s, mins)
  | Some b =>
    if b_lat b <=? dob then (remove_bucket s (b_step b) (b_key b), (b_step b, tnow) :: mins)
    else let '(kept, det, i, mn) := remove_chunks b dob (inf s) tnow in
         (set_core s (put_bucket (mkBucket (b_step b) (b_key b) kept (b_lat b) (b_play b)) (bks s))
                   (limbo s ++ map (fun c => (b_step b, b_key b, c)) det) (reqs s)
                   (nextc s) (nextl s) i (minacc s), (b_step b, mn) :: mins)
  end.
Definition trim_aged (s : st) (age : Z) : st :=
  let '(s1, mins) := fold_left (trim_aged_bucket (now s - age) (now s)) (bks s) (s, []) in
  let per_step := map (fun st_ => fold_left (fun a p => if fst p =? st_ then Z.min a (snd p) else a) mins (now s)) (steps_of (bks s)) in
  let m := fold_left Z.max per_step (minacc s1) in
  set_core s1 (bks s1) (limbo s1) (reqs s1) (nextc s1) (nextl s1) (inf s1) m.

(* reduceMemoryUsage: buckets leave in heap order (larger play period, then longer idle, then larger) *)
Definition bsize (b : bucket) : Z := sum_size (b_chunks b).
Definition bplay (tnow : Z) (b : bucket) : Z :=
  let idle := tnow - b_lat b in
  if (b_play b <=? 0) || (b_play b * SEC + 5 * SEC <? idle) then MAXI else b_play b * SEC.
Definition before (tnow : Z) (x y : bucket) : bool :=   (* x leaves before y *)
  let px := bplay tnow x in let py := bplay tnow y in
  if negb (px =? py) then py <? px
  else let ix := tnow - b_lat x in let iy := tnow - b_lat y in
       if negb (ix =? iy) then iy <? ix else bsize y <? bsize x.
Fixpoint pick (tnow : Z) (best : bucket) (l : list bucket) : bucket :=
  match l with [] => best | b :: l' => pick tnow (if before tnow b best then b else best) l' end.
Fixpoint reduce (fuel : nat) (s : st) : st :=
  match fuel with
  | O => s
  | S f => match bks s with
           | [] => s
           | b0 :: l => let p := pick (now s) b0 l in let s1 := remove_bucket s (b_step p) (b_key p) in
                        if isize (inf s1) <=? l_soft s1 then s1 else reduce f s1
           end
  end.

Definition set_trim (s : st) (sg : bool) (ar : option Z) : st :=
  mkSt (now s) (bks s) (limbo s) (reqs s) (nextc s) (nextl s) (inf s) (minacc s) (l_age s) (l_max s) (l_soft s) (shut s) sg ar (stuck s) (ipass s).

(* the trim goroutine, woken by a signal: loop iterations until it waits again *)
Fixpoint trim_loop (fuel : nat) (s : st) : st :=
  match fuel with
  | O => s
  | S f =>
    let s1 := if (0 <? isize (inf s)) && (0 <? l_age s) && (l_age s <? now s - minacc s) then trim_aged s (l_age s) else s in
    let s2 := if l_soft s1 <? isize (inf s1) then reduce (S (length (bks s1))) s1 else s1 in
    if (l_max s2 =? 0) || (isize (inf s2) <=? l_max s2)
    then set_trim s2 false (if 0 <? l_age s2 then Some (minacc s2 + l_age s2) else None)
    else trim_loop f s2
  end.
Definition run_trim (s : st) : st := if sig s && negb (shut s) then trim_loop 4 s else s.

Definition do_setlimits (s : st) (age mx soft : Z) : st :=
  let '(mx', soft') := if mx <=? 0 then (0, 0) else if (soft <=? 0) || (mx <=? soft) then (mx, (4 * mx) / 5) else (mx, soft) in
  if shut s || ((l_age s =? age) && (l_max s =? mx') && (l_soft s =? soft')) then s
  else mkSt (now s) (bks s) (limbo s) (reqs s) (nextc s) (nextl s) (inf s) (minacc s) age mx' soft' (shut s)
            (sig s || (soft' <? isize (inf s))) (armed s) (stuck s) (ipass s).

(* shutdown: the trim goroutine leaves its loop and runs reduceMemoryUsage once with zero limits *)
Definition do_shutdown (s : st) : st :=
  if shut s then s else
  let s1 := mkSt (now s) (bks s) (limbo s) (reqs s) (nextc s) (nextl s) (inf s) (minacc s) 0 0 0 true false None (stuck s) (ipass s) in
  reduce (S (length (bks s1))) s1.

Definition do_tick (s : st) (d : Z) : st :=
  let crossed := match armed s with Some t => t <=? now s + d | None => false end in
  mkSt (now s + d) (bks s) (limbo s) (reqs s) (nextc s) (nextl s) (inf s) (minacc s) (l_age s) (l_max s) (l_soft s) (shut s) (sig s)
       (armed s) (stuck s || crossed || (d <? 0)) (ipass s).

Inductive op :=
| Tick (d : Z)
| Get (rid step key from to play : Z) (force : bool)
| LoadDone (l : Z) (ok : bool)
| Invalidate (step : Z) (times : list Z)
| Reset
| SetLimits (age mx soft : Z)
| Shutdown
| Cancel (rid : Z)
| InvBegin (step : Z) (times : list Z)
| InvNext.

Definition step (s : st) (o : op) : st * list event :=
  match o with
  | Tick d => (do_tick s d, [])
  | Get rid sp key from to play force => let '(s1, e) := do_get s rid sp key from to play force in (run_trim s1, e)
  | LoadDone l ok => let '(s1, e) := do_loaddone s l ok in (run_trim s1, e)
  | Invalidate sp ts => (do_invalidate s sp ts, [])
  | Reset => (run_trim (do_reset s), [])
  | SetLimits a m so => (run_trim (do_setlimits s a m so), [])
  | Shutdown => (do_shutdown s, [])
  | Cancel rid => do_cancel s rid
  | InvBegin sp ts => (do_inv_begin s sp ts, [])
  | InvNext => (do_inv_next s, [])
  end.

Fixpoint run (s : st) (ops : list op) : st * list (list event) :=
  match ops with
  | [] => (s, [])
  | o :: ops' => let '(s1, e) := step s o in let '(s2, es) := run s1 ops' in (s2, e :: es)
  end.

(* fingerprint of everything the in-package snapshot of the real cache shows *)
Definition FP : Z := 2147483647.
Definition mix (acc x : Z) : Z := (acc * 1000003 + x mod FP + 7) mod FP.
Definition mixl (acc : Z) (l : list Z) : Z := fold_left mix l acc.
Definition fp_aw (acc : Z) (a : awaiter) : Z := mixl acc [a_ls a; a_le a; a_off a].
Definition fp_chunk (acc : Z) (c : chunk) : Z :=
  let a1 := mixl acc [c_start c; c_loading c; c_inv c; c_lsa c; c_lat c; c_size c; zlen (c_aw c)] in
  let a2 := fold_left fp_aw (c_aw c) a1 in
  match c_data c with None => mix a2 0 | Some cd => mixl (mix a2 1) (map (fun oc => match oc with Some x => ce_l x | None => -1 end) cd) end.
Definition fp_bucket (acc : Z) (b : bucket) : Z :=
  fold_left fp_chunk (b_chunks b) (mixl acc [b_step b; b_key b; b_lat b; b_play b; zlen (b_chunks b)]).
Fixpoint insert_b (b : bucket) (l : list bucket) : list bucket :=
  match l with
  | [] => [b]
  | x :: l' => if (b_step b <? b_step x) || ((b_step b =? b_step x) && (b_key b <? b_key x)) then b :: l else x :: insert_b b l'
  end.
Definition sort_b (l : list bucket) : list bucket := fold_right insert_b [] l.
Definition fp_state (s : st) : Z :=
  let i := inf s in
  let a := mixl 1 [fst (i_sz i); snd (i_sz i); fst (i_bc i); snd (i_bc i); fst (i_cs i); snd (i_cs i); fst (i_cc i); snd (i_cc i);
                   minacc s; zlen (bks s)] in
  fold_left fp_bucket (sort_b (bks s)) a.

End Cfg.
