(* C28 — lemmas about the list-shaped parts of the grammar: label lists, matcher lists, offset lists,
   the @ timestamp, binary-operator modifiers. *)
From Coq Require Import ZArith List Bool String Ascii Lia.
From SH Require Import PromParse.Syntax Gen.PromParse PromParse.Lexer PromParse.Parser PromParse.Printer PromParse.Wf.
Import ListNotations.
Open Scope list_scope.
Open Scope Z_scope.

Definition tailf {A B} (sep : B) (f : A -> list B) (l : list A) : list B := flat_map (fun x => sep :: f x) l.

Lemma sep_by_map {A} (f : A -> list tok) x l :
  sep_by [TComma] (map f (x :: l)) = f x ++ tailf TComma f l.
Proof.
  revert x. induction l as [|y l IH]; intro x.
  - simpl. now rewrite app_nil_r.
  - change (map f (x :: y :: l)) with (f x :: map f (y :: l)).
    change (sep_by [TComma] (f x :: map f (y :: l))) with (f x ++ [TComma] ++ sep_by [TComma] (map f (y :: l))).
    rewrite IH. reflexivity.
Qed.

(* ---------- label lists *)
Lemma label_ok_spec l : label_ok l = true -> label_of_tok (name_tok l) = Some l.
Proof.
  unfold label_ok. destruct (label_of_tok (name_tok l)) as [l'|]; [|discriminate].
  intro H. apply String.eqb_eq in H. now subst.
Qed.

Lemma glabels_tail_ok ls rest :
  forallb label_ok ls = true ->
  glabels_tail (tailf TComma (fun l => [name_tok l]) ls ++ TRParen :: rest) = Some (ls, rest).
Proof.
  induction ls as [|l ls IH]; intro H.
  - reflexivity.
  - simpl in H. apply andb_true_iff in H as [Hl Hls]. apply label_ok_spec in Hl.
    specialize (IH Hls). unfold tailf in *. simpl flat_map. simpl app.
    destruct (name_tok l) eqn:E; simpl in Hl; try discriminate;
      simpl; rewrite ?Hl; rewrite IH; reflexivity.
Qed.

Lemma glabels_ok ls rest :
  forallb label_ok ls = true -> glabels (toks_labels ls ++ rest) = Some (ls, rest).
Proof.
  intro H. unfold toks_labels. destruct ls as [|l ls].
  - reflexivity.
  - rewrite (sep_by_map (fun w => [name_tok w])). simpl in H. apply andb_true_iff in H as [Hl Hls].
    apply label_ok_spec in Hl. pose proof (glabels_tail_ok ls rest Hls) as T.
    simpl. rewrite <- app_assoc. simpl.
    destruct (name_tok l) eqn:E; simpl in Hl; try discriminate; simpl; rewrite ?Hl; rewrite T; reflexivity.
Qed.

(* ---------- offset lists *)
Lemma poffs_ok d l rest :
  poffs (toks_dur d ++ tailf TComma toks_dur l ++ TRBracket :: rest) = Some (d :: l, rest).
Proof.
  revert d. induction l as [|d' l IH]; intro d.
  - unfold toks_dur. destruct (d <? 0) eqn:E; simpl; [rewrite Z.opp_involutive|]; reflexivity.
  - unfold tailf in *. simpl flat_map. specialize (IH d').
    rewrite <- app_comm_cons, <- app_assoc.
    unfold toks_dur at 1. destruct (d <? 0) eqn:E; simpl; rewrite IH; [rewrite Z.opp_involutive|]; reflexivity.
Qed.

(* ---------- matcher lists *)
Section M.
  Variable rx : string -> bool.

  Lemma one_matcher_ok m ts : matcher_ok rx m = true -> one_matcher rx (toks_matcher m ++ ts) = Some (m, ts).
  Proof.
    destruct m as [ty n v]. unfold matcher_ok, toks_matcher. simpl. intro H.
    destruct ty; simpl in *; unfold mk_matcher; simpl; rewrite ?H; reflexivity.
  Qed.

  Lemma pmatchers_tail_ok ms : forall n rest,
    (List.length ms < n)%nat -> forallb (matcher_ok rx) ms = true ->
    pmatchers_tail rx n (tailf TComma toks_matcher ms ++ TRBrace :: rest) = Some (ms, rest).
  Proof.
    induction ms as [|m ms IH]; intros n rest Hn H.
    - destruct n; [simpl in Hn; lia|]. reflexivity.
    - destruct n; [simpl in Hn; lia|]. simpl in H. apply andb_true_iff in H as [Hm Hms].
      unfold tailf. simpl flat_map. fold (tailf TComma toks_matcher ms).
      assert (Hone := one_matcher_ok m (tailf TComma toks_matcher ms ++ TRBrace :: rest) Hm).
      destruct m as [ty nm v]. unfold toks_matcher in *. simpl app in *.
      cbn [pmatchers_tail]. rewrite Hone. rewrite IH; [reflexivity | simpl in Hn; lia | assumption].
  Qed.

  Lemma tailf_length {A} (f : A -> list tok) (l : list A) : (List.length l <= List.length (tailf TComma f l))%nat.
  Proof. induction l; simpl; [lia|]. rewrite app_length. lia. Qed.

  Lemma pmatchers_ok m ms rest :
    forallb (matcher_ok rx) (m :: ms) = true ->
    pmatchers rx (sep_by [TComma] (map toks_matcher (m :: ms)) ++ TRBrace :: rest) = Some (m :: ms, rest).
  Proof.
    intro H. rewrite sep_by_map. simpl in H. apply andb_true_iff in H as [Hm Hms].
    rewrite <- app_assoc.
    assert (Hone := one_matcher_ok m (tailf TComma toks_matcher ms ++ TRBrace :: rest) Hm).
    assert (Hlen : (List.length ms < S (List.length (tailf TComma toks_matcher ms ++ TRBrace :: rest)))%nat).
    { rewrite app_length. pose proof (tailf_length toks_matcher ms). lia. }
    pose proof (pmatchers_tail_ok ms _ rest Hlen Hms) as E.
    revert Hone E. generalize (tailf TComma toks_matcher ms ++ TRBrace :: rest). intros r Hone E.
    destruct m as [ty nm v]. unfold toks_matcher in *. simpl app in *.
    unfold pmatchers. rewrite Hone, E. reflexivity.
  Qed.
End M.
