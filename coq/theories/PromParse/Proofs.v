(* C28 — calls, aggregations, and the round-trip theorem: the parser model applied to the tokens of a printed
   well-formed tree returns the (normalised) tree. *)
From Coq Require Import ZArith List Bool String Ascii Lia.
From SH Require Import PromParse.Syntax Gen.PromParse PromParse.Lexer PromParse.Parser PromParse.Printer PromParse.Wf
  PromParse.ProofsA PromParse.ProofsB PromParse.ProofsC PromParse.ProofsD PromParse.ProofsE.
Import ListNotations.
Open Scope list_scope.

Section Final.
  Variable rx : string -> bool.

  Lemma P_call f fn args :
    (match assoc fn functions with Some f' => String.eqb f' fn | None => false end) = true ->
    Forall (argok rx f) args -> Pst rx f (ECall fn args).
  Proof.
    intros Hfn HF rest Hf. exists (ECall fn (map norm args)), rest. split; [|split].
    - cbn [toks]. rewrite <- !app_comm_cons, <- app_assoc. cbn [pprimary].
      destruct (assoc fn functions) as [f'|]; [|discriminate]. apply String.eqb_eq in Hfn. subst f'.
      change ([TRParen] ++ rest) with (TRParen :: rest). rewrite pcallbody_ok by assumption. reflexivity.
    - simpl. lia.
    - intro m. reflexivity.
  Qed.

  Definition agg_args (x : expr) (p : option expr) : list expr := match p with Some q => [q; x] | None => [x] end.

  Lemma P_agg f a x p grp wo :
    forallb label_ok grp = true ->
    (match p with Some _ => agg_with_param a = true | None => agg_with_param a = false end) ->
    Forall (argok rx f) (agg_args x p) -> Pst rx f (EAgg a x p grp wo).
  Proof.
    intros Hg Hp HF rest Hf.
    set (res := EAgg a (norm x) (match p with Some q => Some (norm q) | None => None end) grp wo).
    assert (Body : forall r, pcallbody (pexpr rx f)
              (TLParen :: ((match p with Some q => toks q ++ [TComma] | None => [] end) ++ toks x ++ [TRParen]) ++ r)
              = Some (map norm (agg_args x p), r)).
    { intro r. rewrite <- (pcallbody_ok rx f (agg_args x p) r HF). f_equal. f_equal.
      destruct p; cbn [agg_args map sep_by]; rewrite <- !app_assoc; reflexivity. }
    assert (Mk : forall g w, mk_agg a (map norm (agg_args x p)) g w =
                 Some (EAgg a (norm x) (match p with Some q => Some (norm q) | None => None end) g w)).
    { intros g w. destruct p; cbn [agg_args map mk_agg]; rewrite Hp; reflexivity. }
    exists res, rest. split; [|split]; [| simpl; lia | intro m; reflexivity].
    destruct wo; [|destruct grp as [|g0 gs]].
    - (* without (...) body *)
      cbn [toks]. rewrite <- !app_comm_cons. cbn [pprimary starts_agg]. cbn [pagg]. rewrite <- app_assoc.
      rewrite glabels_ok by assumption. rewrite <- app_comm_cons. rewrite Body, Mk. reflexivity.
    - (* body only *)
      cbn [toks]. cbn [app]. cbn [pprimary starts_agg]. cbn [pagg]. rewrite Body, Mk.
      destruct rest as [|t rest']; [reflexivity|]. destruct t; try reflexivity.
      destruct k; try reflexivity; simpl in Hf; destruct Hf; discriminate.
    - (* by (...) body *)
      cbn [toks]. rewrite <- !app_comm_cons. cbn [pprimary starts_agg]. cbn [pagg]. rewrite <- app_assoc.
      rewrite glabels_ok by assumption. rewrite <- app_comm_cons. rewrite Body, Mk. reflexivity.
  Qed.

  (* ---------- heights *)
  Definition hmax (l : list expr) : nat := fold_right (fun a m => Nat.max (height a) m) 0%nat l.
  Lemma hmax_in a l : In a l -> (height a <= hmax l)%nat.
  Proof. induction l as [|b l IH]; simpl; [tauto|]. intros [->|H]; [lia|]. specialize (IH H). lia. Qed.

  Lemma hmax_len l : Forall (fun a => (height a <= List.length (toks a))%nat) l ->
    (hmax l <= List.length (sep_by [TComma] (map toks l)))%nat.
  Proof.
    intro H. destruct l as [|a l]; [simpl; lia|]. rewrite sep_by_map. rewrite app_length.
    inversion H as [|? ? Ha Hl]; subst. simpl hmax.
    assert (T : (hmax l <= List.length (tailf TComma toks l))%nat).
    { clear Ha H a. induction l as [|b l IH]; [simpl; lia|]. inversion Hl; subst.
      unfold tailf in *. simpl. rewrite app_length. specialize (IH H2). lia. }
    lia.
  Qed.

  Lemma height_len e : (height e <= List.length (toks e))%nat.
  Proof.
    induction e using expr_ind2; cbn [height toks].
    - destruct (signed n) eqn:S; [|lia]. destruct n as [ng g]. unfold signed in S. simpl in *.
      rewrite app_length. subst ng. simpl. lia.
    - simpl; lia.
    - lia.
    - lia.
    - rewrite !app_length. lia.
    - simpl. rewrite app_length. simpl. lia.
    - simpl. lia.
    - rewrite !app_length. simpl. lia.
    - pose proof (hmax_len args H). fold (hmax args). simpl. rewrite app_length. simpl. lia.
    - simpl. rewrite !app_length. simpl. rewrite !app_length. simpl.
      destruct p as [q|]; [specialize (H q eq_refl); rewrite app_length; simpl|]; lia.
  Qed.

  (* ---------- the induction *)
  Theorem roundtrip_all e : wf rx e = true ->
    forall fu, (height e <= fu)%nat -> Sst rx fu e /\ (plvl e = true -> Pst rx fu e).
  Proof.
    induction e using expr_ind2; intros W fu Hh.
    - (* ENum *)
      destruct (signed n) eqn:Sg.
      + split; [|unfold plvl; rewrite Sg; discriminate]. apply S_num_signed; try assumption.
        simpl in Hh. rewrite Sg in Hh. exact Hh.
      + assert (P : Pst rx fu (ENum n)) by (apply P_num; assumption).
        split; [apply S_of_P; [unfold plvl; rewrite Sg; reflexivity | assumption] | intros _; assumption].
    - assert (P : Pst rx fu (EStr s)) by apply P_str. split; [apply S_of_P; auto | auto].
    - assert (P : Pst rx fu (EVec v)) by (apply P_vec; exact W). split; [apply S_of_P; auto | auto].
    - assert (P : Pst rx fu (EMatrix v r)) by (apply P_matrix; exact W). split; [apply S_of_P; auto | auto].
    - (* ESub *)
      cbn [wf] in W. apply andb_true_iff in W as [W Wa]. apply andb_true_iff in W as [W Wx].
      apply andb_true_iff in W as [Px Nv]. apply negb_true_iff in Nv.
      destruct (IHe Wx fu Hh) as [_ Pxx].
      assert (P : Pst rx fu (ESub e r s o a)) by (apply P_sub; auto). split; [apply S_of_P; auto | auto].
    - (* EParen *)
      cbn [wf] in W. simpl in Hh. destruct fu as [|f']; [lia|].
      assert (T : Tst rx (S f') e) by (apply T_of_S; apply IHe; [assumption | lia]).
      assert (P : Pst rx (S f') (EParen e)) by (apply P_paren; assumption). split; [apply S_of_P; auto | auto].
    - (* EUnary *)
      split; [|discriminate]. apply S_unary; try assumption.
      cbn [wf] in W. apply andb_true_iff in W as [_ Wx]. intros f' Hf'. apply IHe; assumption.
    - (* EBin *)
      split; [|discriminate]. pose proof W as W0. cbn [wf] in W.
      apply andb_true_iff in W as [W _]. apply andb_true_iff in W as [W _]. apply andb_true_iff in W as [W _].
      apply andb_true_iff in W as [W _]. apply andb_true_iff in W as [Wl Wr].
      apply S_bin; try assumption.
      + apply IHe1; [assumption | simpl in Hh; lia].
      + intros f' Hf'. apply IHe2; assumption.
    - (* ECall *)
      cbn [wf] in W. apply andb_true_iff in W as [Wf Wa]. simpl in Hh. fold (hmax args) in Hh.
      destruct fu as [|f']; [lia|].
      assert (HF : Forall (argok rx (S f')) args).
      { rewrite Forall_forall in *. intros a Ha. rewrite forallb_forall in Wa. split; [auto|].
        apply T_of_S. apply H; auto. pose proof (hmax_in a args Ha). lia. }
      assert (P : Pst rx (S f') (ECall f args)) by (apply P_call; assumption). split; [apply S_of_P; auto | auto].
    - (* EAgg *)
      cbn [wf] in W. apply andb_true_iff in W as [W Wp]. apply andb_true_iff in W as [Wx Wg]. simpl in Hh.
      destruct fu as [|f']; [lia|].
      assert (Tx : argok rx (S f') e) by (split; [assumption|]; apply T_of_S; apply IHe; [assumption | lia]).
      assert (P : Pst rx (S f') (EAgg a e p g w)).
      { apply P_agg; [assumption | |].
        - destruct p; [apply andb_true_iff in Wp as [_ Wp]; exact Wp | apply negb_true_iff in Wp; exact Wp].
        - destruct p as [q|]; cbn [agg_args]; [|constructor; [assumption | constructor]].
          apply andb_true_iff in Wp as [Wq _].
          constructor; [|constructor; [assumption | constructor]].
          split; [assumption|]. apply T_of_S. apply (H q eq_refl); [assumption | lia]. }
      split; [apply S_of_P; auto | auto].
  Qed.

  (* the parser model on the tokens of a printed well-formed tree *)
  Theorem ptop_toks e : wf rx e = true -> ptop rx (toks e) = Some (norm e).
  Proof.
    intro W. unfold ptop.
    assert (T : Tst rx (S (List.length (toks e))) e).
    { apply T_of_S. apply roundtrip_all; [assumption | apply height_len]. }
    specialize (T 1%nat [] ltac:(lia) (one_le_lvl e) I). rewrite app_nil_r in T. rewrite T. reflexivity.
  Qed.

  (* with the lexer: whenever the printed text lexes to the tokens [toks e] (checked by computation on every
     correspondence case), parsing the printed text returns the normalised tree *)
  Theorem parse_print e :
    wf rx e = true -> lex (print true e) = Some (toks e) -> parse rx (print true e) = Some (norm e).
  Proof. intros W L. unfold parse. rewrite L. apply ptop_toks. assumption. Qed.

  Theorem toks_injective_on_norm e1 e2 :
    wf rx e1 = true -> wf rx e2 = true -> toks e1 = toks e2 -> norm e1 = norm e2.
  Proof.
    intros W1 W2 E. pose proof (ptop_toks e1 W1) as P1. pose proof (ptop_toks e2 W2) as P2.
    rewrite E in P1. congruence.
  Qed.

  Theorem print_injective_on_norm e1 e2 :
    wf rx e1 = true -> wf rx e2 = true ->
    lex (print true e1) = Some (toks e1) -> lex (print true e2) = Some (toks e2) ->
    print true e1 = print true e2 -> norm e1 = norm e2.
  Proof.
    intros W1 W2 L1 L2 E. apply toks_injective_on_norm; try assumption. rewrite E in L1. congruence.
  Qed.
End Final.
