(* C28 — executable model of /repo/internal/promql/parser/lex.go (+ parser.number, parseDuration,
   strutil.Unquote which the grammar applies to every NUMBER / DURATION / STRING item). ASCII inputs only.
   Definitions only. *)
From Coq Require Import ZArith List Bool String Ascii.
From SH Require Import PromParse.Syntax Gen.PromParse.
Import ListNotations.
Open Scope string_scope.
Open Scope Z_scope.

Definition c2n (c : ascii) : Z := Z.of_N (N_of_ascii c).
Definition n2c (n : Z) : ascii := ascii_of_N (Z.to_N n).
Definition in_rng (lo hi : Z) (c : ascii) : bool := (lo <=? c2n c) && (c2n c <=? hi).
Definition is_digit (c : ascii) : bool := in_rng 48 57 c.
Definition is_alpha (c : ascii) : bool := (c2n c =? 95) || in_rng 97 122 c || in_rng 65 90 c.
Definition is_alnum (c : ascii) : bool := is_alpha c || is_digit c.
Definition is_space (c : ascii) : bool := (c2n c =? 32) || (c2n c =? 9) || (c2n c =? 10) || (c2n c =? 13).
Definition is_hex (c : ascii) : bool := is_digit c || in_rng 97 102 c || in_rng 65 70 c.
Definition is_oct (c : ascii) : bool := in_rng 48 55 c.
Definition is_eol (c : ascii) : bool := (c2n c =? 10) || (c2n c =? 13).
Definition ceq (n : Z) (c : ascii) : bool := c2n c =? n.
Definition lower (c : ascii) : ascii := if in_rng 65 90 c then n2c (c2n c + 32) else c.
(* lex.go digitVal *)
Definition digit_val (c : ascii) : Z :=
  if is_digit c then c2n c - 48 else if in_rng 97 102 c then c2n c - 87 else if in_rng 65 70 c then c2n c - 55 else 16.

Fixpoint smap (f : ascii -> ascii) (s : string) : string :=
  match s with EmptyString => EmptyString | String c s' => String (f c) (smap f s') end.
Fixpoint sall (p : ascii -> bool) (s : string) : bool :=
  match s with EmptyString => true | String c s' => p c && sall p s' end.
Fixpoint sany (p : ascii -> bool) (s : string) : bool :=
  match s with EmptyString => false | String c s' => p c || sany p s' end.
Fixpoint span (p : ascii -> bool) (s : string) : string * string :=
  match s with
  | String c s' => if p c then let (a, b) := span p s' in (String c a, b) else (EmptyString, s)
  | EmptyString => (EmptyString, EmptyString)
  end.
Definition nonempty (s : string) : bool := match s with EmptyString => false | _ => true end.
Definition slen (s : string) : Z := Z.of_nat (String.length s).
Fixpoint val_base (b : Z) (s : string) (acc : Z) : Z :=
  match s with EmptyString => acc | String c s' => val_base b s' (acc * b + digit_val c) end.
Definition accept1 (p : ascii -> bool) (s : string) : string * string :=
  match s with String c s' => if p c then (String c EmptyString, s') else (EmptyString, s) | _ => (EmptyString, s) end.
Definition peek_alnum (s : string) : bool := match s with String c _ => is_alnum c | _ => false end.

Fixpoint assoc {A} (k : string) (l : list (string * A)) : option A :=
  match l with [] => None | (k', v) :: l' => if String.eqb k k' then Some v else assoc k l' end.

(* ---------- numbers *)
Fixpoint norm_dec (fuel : nat) (m e : Z) : mag :=
  match fuel with
  | O => MDec m e
  | S f => if m =? 0 then MDec 0 0 else if m mod 10 =? 0 then norm_dec f (m / 10) (e + 1) else MDec m e
  end.
Definition ndigits (m : Z) : Z := if m =? 0 then 1 else Z.log2 m / 3 + 1.   (* an upper bound of the decimal length *)
Definition mk_dec (m e : Z) : mag := norm_dec (Z.to_nat (ndigits m)) m e.

Definition two63 : Z := 2 ^ 63.
Definition max_float_bound : Z := 2 ^ 1024 - 2 ^ 970.   (* decimal values >= this overflow float64 *)
(* ParseFloat reports a range error (the parser rejects the number) when the value rounds to +-Inf *)
Definition dec_overflows (m e : Z) : bool :=
  if m =? 0 then false
  else if 330 <? ndigits m + e then true
  else if e <? - 400 - ndigits m then false
  else if 0 <=? e then max_float_bound <=? m * 10 ^ e else max_float_bound * 10 ^ (- e) <=? m.

(* components of a lexeme accepted by scanNumber: "0" "x" digits "." digits "e" sign digits *)
Record numparts := mkNP { np_z : string; np_x : string; np_d1 : string; np_dot : string; np_d2 : string;
                          np_e : string; np_sg : string; np_d3 : string }.
Definition np_lexeme (p : numparts) : string :=
  np_z p ++ np_x p ++ np_d1 p ++ np_dot p ++ np_d2 p ++ np_e p ++ np_sg p ++ np_d3 p.

(* lex.go scanNumber: returns the parts consumed, the rest, and whether the next rune is not alphanumeric *)
Definition scan_number (s : string) : numparts * string * bool :=
  let '(z, s1) := accept1 (ceq 48) s in
  let '(x, s2) := if nonempty z then accept1 (fun c => ceq 120 c || ceq 88 c) s1 else (EmptyString, s1) in
  let digs := if nonempty x then is_hex else is_digit in
  let '(d1, s3) := span digs s2 in
  let '(dot, s4) := accept1 (ceq 46) s3 in
  let '(d2, s5) := if nonempty dot then span digs s4 else (EmptyString, s4) in
  let '(e, s6) := accept1 (fun c => ceq 101 c || ceq 69 c) s5 in
  let '(sg, s7) := if nonempty e then accept1 (fun c => ceq 43 c || ceq 45 c) s6 else (EmptyString, s6) in
  let '(d3, s8) := if nonempty e then span is_digit s7 else (EmptyString, s7) in
  (mkNP z x d1 dot d2 e sg d3, s8, negb (peek_alnum s8)).

(* parse.go number(): strconv.ParseInt(val, 0, 64), else strconv.ParseFloat(val, 64) *)
Definition number_val (p : numparts) : option mag :=
  if nonempty (np_x p) then
    if nonempty (np_dot p) || nonempty (np_e p) || negb (nonempty (np_d1 p)) then None
    else let v := val_base 16 (np_d1 p) 0 in if v <? two63 then Some (mk_dec v 0) else None
  else
    let ip := np_z p ++ np_d1 p in
    if negb (nonempty (np_dot p)) && negb (nonempty (np_e p)) then
      let dv := val_base 10 ip 0 in
      let ov := val_base 8 (np_d1 p) 0 in
      if nonempty (np_z p) && nonempty (np_d1 p) && sall is_oct (np_d1 p) && (ov <? two63) then Some (mk_dec ov 0)
      else if dec_overflows dv 0 then None else Some (mk_dec dv 0)
    else
      if nonempty (np_e p) && negb (nonempty (np_d3 p)) then None
      else if negb (nonempty ip) && negb (nonempty (np_d2 p)) then None
      else
        let m := val_base 10 (ip ++ np_d2 p) 0 in
        let ex := val_base 10 (np_d3 p) 0 in
        let e := (if sany (ceq 45) (np_sg p) then - ex else ex) - slen (np_d2 p) in
        if dec_overflows m e then None else Some (mk_dec m e).

(* ---------- durations *)
(* lex.go acceptRemainingDuration (after the leading number): returns consumed text and rest *)
Fixpoint dur_units (fuel : nat) (s : string) : option (string * string) :=
  match fuel with
  | O => None
  | S f =>
      match s with
      | String c _ =>
          if is_digit c then
            let '(ds, s1) := span is_digit s in
            let '(u, s2) := accept1 (fun c => sany (Ascii.eqb c) "smhdw") s1 in
            if nonempty u then
              let '(u2, s3) := accept1 (ceq 115) s2 in
              match dur_units f s3 with Some (r, rest) => Some (ds ++ u ++ u2 ++ r, rest) | None => None end
            else None
          else Some (EmptyString, s)
      | EmptyString => Some (EmptyString, s)
      end
  end.
Definition dur_rest (s : string) : option (string * string) :=
  let '(u, s1) := accept1 (fun c => sany (Ascii.eqb c) "smhdwy") s in
  if nonempty u then
    match dur_units (S (String.length s1)) s1 with
    | Some (r, rest) => if peek_alnum rest then None else Some (u ++ r, rest)
    | None => None
    end
  else None.

(* prometheus/common model.ParseDuration: unit -> (position, nanoseconds) *)
Definition dur_unit (u : string) : option (Z * Z) :=
  assoc u [("ms", (7, 1000000)); ("s", (6, 1000000000)); ("m", (5, 60000000000)); ("h", (4, 3600000000000));
           ("d", (3, 86400000000000)); ("w", (2, 604800000000000)); ("y", (1, 31536000000000000))].
Fixpoint dur_ns (fuel : nat) (s : string) (last dur : Z) : option Z :=
  match fuel with
  | O => None
  | S f =>
      match s with
      | EmptyString => Some dur
      | _ =>
          let '(ds, s1) := span is_digit s in
          let '(u, s2) := span (fun c => negb (is_digit c)) s1 in
          if negb (nonempty ds) || negb (nonempty u) then None
          else let v := val_base 10 ds 0 in
            if 2 ^ 64 <=? v then None else
            match dur_unit u with
            | Some (pos, mult) =>
                if pos <=? last then None
                else if two63 / mult <? v then None
                else let d := dur + v * mult in if two63 - 1 <? d then None else dur_ns f s2 pos d
            | None => None
            end
      end
  end.
(* parse.go parseDuration: seconds = math.Round(dur / time.Second); a zero duration is an error *)
Definition parse_duration (s : string) : option Z :=
  match dur_ns (S (String.length s)) s 0 0 with
  | Some d => if d =? 0 then None else Some ((d + 500000000) / 1000000000)
  | None => None
  end.

(* ---------- strings: lexString/lexEscape validation + strutil.Unquote decoding; returns (value, rest) *)
Definition utf8_enc (r : Z) : string :=
  if r <? 128 then String (n2c r) EmptyString
  else if r <? 2048 then String (n2c (192 + r / 64)) (String (n2c (128 + r mod 64)) EmptyString)
  else if r <? 65536 then String (n2c (224 + r / 4096)) (String (n2c (128 + (r / 64) mod 64)) (String (n2c (128 + r mod 64)) EmptyString))
  else String (n2c (240 + r / 262144)) (String (n2c (128 + (r / 4096) mod 64)) (String (n2c (128 + (r / 64) mod 64)) (String (n2c (128 + r mod 64)) EmptyString))).

Fixpoint take_digits (n : nat) (base : Z) (s : string) (acc : Z) : option (Z * string) :=
  match n with
  | O => Some (acc, s)
  | S n' => match s with
            | String c s' => if digit_val c <? base then take_digits n' base s' (acc * base + digit_val c) else None
            | EmptyString => None
            end
  end.

Definition simple_escape (c : ascii) : option Z :=
  assoc (String c EmptyString) [("a", 7); ("b", 8); ("f", 12); ("n", 10); ("r", 13); ("t", 9); ("v", 11); ("\", 92)].

Fixpoint lex_quoted (fuel : nat) (q : ascii) (s : string) : option (string * string) :=
  match fuel with
  | O => None
  | S f =>
      match s with
      | EmptyString => None
      | String c s' =>
          if Ascii.eqb c q then Some (EmptyString, s')
          else if ceq 10 c then None
          else if ceq 92 c then
            match s' with
            | EmptyString => None
            | String d s'' =>
                let k (v : string) (rest : string) :=
                  match lex_quoted f q rest with Some (w, r) => Some (v ++ w, r) | None => None end in
                match simple_escape d with
                | Some b => k (String (n2c b) EmptyString) s''
                | None =>
                    if Ascii.eqb d q then k (String q EmptyString) s''
                    else if is_oct d then
                      match take_digits 3 8 s' 0 with
                      | Some (x, r) => if 255 <? x then None else k (String (n2c x) EmptyString) r
                      | None => None
                      end
                    else if ceq 120 d then
                      match take_digits 2 16 s'' 0 with Some (x, r) => k (String (n2c x) EmptyString) r | None => None end
                    else if ceq 117 d || ceq 85 d then
                      match take_digits (if ceq 117 d then 4 else 8) 16 s'' 0 with
                      | Some (x, r) =>
                          if (1114111 <? x) || ((55296 <=? x) && (x <? 57344)) then None else k (utf8_enc x) r
                      | None => None
                      end
                    else None
                end
            end
          else match lex_quoted f q s' with Some (w, r) => Some (String c w, r) | None => None end
      end
  end.

Fixpoint lex_raw (s : string) : option (string * string) :=
  match s with
  | EmptyString => None
  | String c s' => if ceq 96 c then Some (EmptyString, s')
                   else match lex_raw s' with Some (w, r) => Some (String c w, r) | None => None end
  end.

(* ---------- words *)
Definition lookup_kw (w : string) : option wordclass := assoc (smap lower w) keywords.
Definition word_tok (w : string) : tok :=
  match lookup_kw w with
  | Some (WOp o) => TOp o w
  | Some (WAgg a) => TAgg a w
  | Some (WKw k) => TKw k w
  | Some WInf => TNum w (Some MInf)
  | Some WNaN => TNum w (Some MNaN)
  | None => if sany (ceq 58) w then TMetric w else TIdent w
  end.

(* lexNumberOrDuration *)
Definition lex_num_or_dur (s : string) : option (tok * string) :=
  let '(p, rest, ok) := scan_number s in
  if ok then Some (TNum (np_lexeme p) (number_val p), rest)
  else match dur_rest rest with
       | Some (d, rest') => match parse_duration (np_lexeme p ++ d) with Some secs => Some (TDur secs, rest') | None => None end
       | None => None
       end.
(* lexDuration (right after '[') *)
Definition lex_dur (s : string) : option (tok * string) :=
  let '(p, rest, ok) := scan_number s in
  if ok then None
  else match dur_rest rest with
       | Some (d, rest') => match parse_duration (np_lexeme p ++ d) with Some secs => Some (TDur secs, rest') | None => None end
       | None => None
       end.

Definition starts_number (c : ascii) (s' : string) : bool :=
  is_digit c || (ceq 46 c && match s' with String d _ => is_digit d | _ => false end).

(* ---------- the scanner: br = braceOpen, bk = bracketOpen, gc = gotColon, pd = parenDepth *)
Fixpoint lex_go (fuel : nat) (br bk gc : bool) (pd : Z) (s : string) : option (list tok) :=
  match fuel with
  | O => None
  | S f =>
      let emit (t : tok) (br' bk' gc' : bool) (pd' : Z) (rest : string) :=
        match lex_go f br' bk' gc' pd' rest with Some ts => Some (t :: ts) | None => None end in
      let same (t : tok) (rest : string) := emit t br bk gc pd rest in
      match s with
      | EmptyString => if br then None else if negb (pd =? 0) then None else if bk then None else Some []
      | String c s' =>
          if ceq 35 c then lex_go f br bk gc pd (snd (span (fun c => negb (is_eol c)) s'))
          else if is_space c then lex_go f br bk gc pd s'
          else if br then
            (* lexInsideBraces *)
            if is_alnum c then let '(w, rest) := span is_alnum s in same (TIdent w) rest
            else if ceq 44 c then same TComma s'
            else if ceq 34 c || ceq 39 c then
              match lex_quoted (S (String.length s')) c s' with Some (v, rest) => same (TStr v) rest | None => None end
            else if ceq 96 c then match lex_raw s' with Some (v, rest) => same (TStr v) rest | None => None end
            else if ceq 61 c then
              match s' with String d s'' => if ceq 126 d then same TEqlRegex s'' else same TEql s' | _ => same TEql s' end
            else if ceq 33 c then
              match s' with
              | String d s'' => if ceq 126 d then same TNeqRegex s'' else if ceq 61 d then same (TOp ONeq "!=") s'' else None
              | _ => None
              end
            else if ceq 125 c then emit TRBrace false bk gc pd s'
            else if ceq 58 c then same TBind s'
            else if ceq 36 c then same TDollar s'
            else if ceq 64 c then same TAt s'
            else None
          else
            (* lexStatements *)
            if ceq 44 c then same TComma s'
            else if ceq 42 c then same (TOp OMul "*") s'
            else if ceq 47 c then same (TOp ODiv "/") s'
            else if ceq 37 c then same (TOp OMod "%") s'
            else if ceq 43 c then same (TOp OAdd "+") s'
            else if ceq 45 c then same (TOp OSub "-") s'
            else if ceq 94 c then same (TOp OPow "^") s'
            else if ceq 61 c then
              match s' with
              | String d s'' => if ceq 61 d then same (TOp OEqlc "==") s'' else if ceq 126 d then None else same TEql s'
              | _ => same TEql s'
              end
            else if ceq 33 c then
              match s' with String d s'' => if ceq 61 d then same (TOp ONeq "!=") s'' else None | _ => None end
            else if ceq 60 c then
              match s' with String d s'' => if ceq 61 d then same (TOp OLte "<=") s'' else same (TOp OLss "<") s' | _ => same (TOp OLss "<") s' end
            else if ceq 62 c then
              match s' with String d s'' => if ceq 61 d then same (TOp OGte ">=") s'' else same (TOp OGtr ">") s' | _ => same (TOp OGtr ">") s' end
            else if starts_number c s' then
              match lex_num_or_dur s with Some (t, rest) => same t rest | None => None end
            else if ceq 34 c || ceq 39 c then
              match lex_quoted (S (String.length s')) c s' with Some (v, rest) => same (TStr v) rest | None => None end
            else if ceq 96 c then match lex_raw s' with Some (v, rest) => same (TStr v) rest | None => None end
            else if is_alpha c || ceq 58 c then
              if negb bk then let '(w, rest) := span (fun c => is_alnum c || ceq 58 c) s in same (word_tok w) rest
              else if gc then None else emit TColon br bk true pd s'
            else if ceq 40 c then emit TLParen br bk gc (pd + 1) s'
            else if ceq 41 c then if pd - 1 <? 0 then None else emit TRParen br bk gc (pd - 1) s'
            else if ceq 123 c then emit TLBrace true bk gc pd s'
            else if ceq 91 c then
              if bk then None
              else match lex_dur (snd (span is_space s')) with
                   | Some (t, rest) => match lex_go f br true false pd rest with Some ts => Some (TLBracket :: t :: ts) | None => None end
                   | None => None
                   end
            else if ceq 93 c then if bk then emit TRBracket br false gc pd s' else None
            else if ceq 64 c then same TAt s'
            else None
      end
  end.

Definition lex (s : string) : option (list tok) := lex_go (S (String.length s)) false false false 0 s.
