(* C28 — the primaries' cases and the round-trip theorem at token level. *)
From Coq Require Import ZArith List Bool String Ascii Lia.
From SH Require Import PromParse.Syntax Gen.PromParse PromParse.Lexer PromParse.Parser PromParse.Printer PromParse.Wf
  PromParse.ProofsA PromParse.ProofsB PromParse.ProofsC PromParse.ProofsD.
Import ListNotations.
Open Scope list_scope.

Section Cases.
  Variable rx : string -> bool.

  Lemma pfollow_tail a ex off rest : pfollow rest -> pfollow (toks_at a ++ offs_toks ex off ++ rest).
  Proof.
    intro H. destruct a as [|t| |].
    - simpl. unfold offs_toks. destruct ex; [|simpl; auto]. destruct (off =? 0)%Z; simpl; auto.
    - unfold toks_at. destruct (t <? 0)%Z; simpl; auto.
    - simpl; auto.
    - simpl; auto.
  Qed.

  Lemma vs_ok_at v : vs_ok rx v = true -> at_ok (vs_at v) = true.
  Proof. unfold vs_ok. intro H. apply andb_true_iff in H as [_ H]. exact H. Qed.

  Lemma P_vec f v : vs_ok rx v = true -> Pst rx f (EVec v).
  Proof.
    intros W rest Hf. pose proof (vs_ok_at v W) as Wa.
    exists (EVec (vs0 (vs_name v) (printed_matchers v ++ name_matcher (vs_name v)))),
           (toks_at (vs_at v) ++ offs_toks (vs_offset_ex v) (vs_offset v) ++ rest).
    split; [|split].
    - cbn [toks]. change (toks_offsets v) with (offs_toks (vs_offset_ex v) (vs_offset v)). rewrite <- !app_assoc.
      apply sel_head_parse; [assumption | apply pfollow_tail; assumption].
    - cbn [psteps]. change (off_steps v) with (offs_steps (vs_offset_ex v) (vs_offset v)).
      rewrite !app_length. pose proof (at_len (vs_at v)). pose proof (offs_len (vs_offset_ex v) (vs_offset v)). lia.
    - intro m. cbn [psteps norm]. change (off_steps v) with (offs_steps (vs_offset_ex v) (vs_offset v)). unfold norm_vs.
      set (n := vs_name v). set (ms := printed_matchers v ++ name_matcher n).
      apply mods_steps with (e1 := EVec (mkVS n ms 0 [] (vs_at v))) (e2 := EVec (mkVS n ms 0 (vs_offset_ex v) (vs_at v))); try assumption.
      + intro E. rewrite E. reflexivity.
      + intros _. reflexivity.
      + intro E. rewrite E. reflexivity.
      + intros _. reflexivity.
      + intro E. rewrite E. reflexivity.
      + intros _. unfold set_offset. cbn. rewrite app_nil_r. reflexivity.
  Qed.

  Lemma P_matrix f v r : vs_ok rx v = true -> Pst rx f (EMatrix v r).
  Proof.
    intros W rest Hf. pose proof (vs_ok_at v W) as Wa.
    exists (EVec (vs0 (vs_name v) (printed_matchers v ++ name_matcher (vs_name v)))),
           (TLBracket :: TDur r :: TRBracket :: toks_at (vs_at v) ++ offs_toks (vs_offset_ex v) (vs_offset v) ++ rest).
    split; [|split].
    - cbn [toks]. change (toks_offsets v) with (offs_toks (vs_offset_ex v) (vs_offset v)). rewrite <- !app_assoc.
      apply sel_head_parse; [assumption | simpl; auto].
    - cbn [psteps]. change (off_steps v) with (offs_steps (vs_offset_ex v) (vs_offset v)).
      cbn [List.length]. rewrite !app_length. pose proof (at_len (vs_at v)). pose proof (offs_len (vs_offset_ex v) (vs_offset v)). lia.
    - intro m. cbn [psteps norm]. change (off_steps v) with (offs_steps (vs_offset_ex v) (vs_offset v)). unfold norm_vs.
      set (n := vs_name v). set (ms := printed_matchers v ++ name_matcher n).
      replace (1 + at_steps (vs_at v) + offs_steps (vs_offset_ex v) (vs_offset v) + m)%nat
        with (S (at_steps (vs_at v) + offs_steps (vs_offset_ex v) (vs_offset v) + m)) by lia.
      change (ppost (S (at_steps (vs_at v) + offs_steps (vs_offset_ex v) (vs_offset v) + m)) (EVec (vs0 n ms))
                (TLBracket :: TDur r :: TRBracket :: toks_at (vs_at v) ++ offs_toks (vs_offset_ex v) (vs_offset v) ++ rest))
        with (ppost (at_steps (vs_at v) + offs_steps (vs_offset_ex v) (vs_offset v) + m) (EMatrix (vs0 n ms) r)
                (toks_at (vs_at v) ++ offs_toks (vs_offset_ex v) (vs_offset v) ++ rest)).
      apply mods_steps with (e1 := EMatrix (mkVS n ms 0 [] (vs_at v)) r) (e2 := EMatrix (mkVS n ms 0 (vs_offset_ex v) (vs_at v)) r); try assumption.
      + intro E. rewrite E. reflexivity.
      + intros _. reflexivity.
      + intro E. rewrite E. reflexivity.
      + intros _. reflexivity.
      + intro E. rewrite E. reflexivity.
      + intros _. unfold set_offset. cbn. rewrite app_nil_r. reflexivity.
  Qed.

  Definition step_toks (st : Z) : list tok := if (st =? 0)%Z then [] else [TColon; TDur 1].
  Lemma ppost_range k e r st X :
    is_vec e = false ->
    ppost (S k) e (TLBracket :: TDur r :: step_toks st ++ TRBracket :: X)
    = ppost k (ESub e r (if (st =? 0)%Z then 0 else 1)%Z 0 AtNone) X.
  Proof.
    intro H. unfold step_toks. destruct (st =? 0)%Z; cbn [app ppost]; destruct e; try discriminate; reflexivity.
  Qed.
  Lemma norm_is_vec x : is_vec (norm x) = is_vec x.
  Proof. destruct x; reflexivity. Qed.

  Lemma P_sub f x r st off a :
    is_vec x = false -> at_ok a = true -> Pst rx f x -> Pst rx f (ESub x r st off a).
  Proof.
    intros Hv Wa HP rest Hf.
    assert (X : toks (ESub x r st off a) ++ rest =
                toks x ++ (TLBracket :: TDur r :: step_toks st ++ TRBracket :: toks_at a ++ offs_toks [] off ++ rest)).
    { cbn [toks]. unfold step_toks, offs_toks. rewrite <- !app_assoc. reflexivity. }
    destruct (HP (TLBracket :: TDur r :: step_toks st ++ TRBracket :: toks_at a ++ offs_toks [] off ++ rest)) as (e0 & ts0 & E1 & E2 & E3);
      [simpl; auto|].
    exists e0, ts0. split; [|split].
    - rewrite X. exact E1.
    - cbn [psteps]. change (if (off =? 0)%Z then 0%nat else 1%nat) with (offs_steps [] off).
      cbn [List.length] in E2. rewrite !app_length in E2. cbn [List.length] in E2. rewrite !app_length in E2.
      pose proof (at_len a). pose proof (offs_len [] off). lia.
    - intro m. cbn [psteps norm]. change (if (off =? 0)%Z then 0%nat else 1%nat) with (offs_steps [] off).
      replace (psteps x + 1 + at_steps a + offs_steps [] off + m)%nat with (psteps x + S (at_steps a + offs_steps [] off + m))%nat by lia.
      rewrite E3. rewrite ppost_range by (rewrite norm_is_vec; assumption).
      apply mods_steps with (e1 := ESub (norm x) r (if (st =? 0)%Z then 0 else 1)%Z 0 a)
                            (e2 := ESub (norm x) r (if (st =? 0)%Z then 0 else 1)%Z 0 a); try assumption.
      + intro E. rewrite E. reflexivity.
      + intros _. reflexivity.
      + reflexivity.
      + intro E. congruence.
      + intro E. rewrite E. reflexivity.
      + intros _. reflexivity.
  Qed.

  Lemma P_num f n : signed n = false -> Pst rx f (ENum n).
  Proof.
    intros Sg rest Hf. destruct n as [ng g]. unfold signed in Sg. simpl in Sg. subst ng.
    exists (ENum (mkNum false g)), rest. split; [|split].
    - destruct g; reflexivity.
    - simpl. lia.
    - intro m. reflexivity.
  Qed.

  Lemma P_str f s : Pst rx f (EStr s).
  Proof. intros rest Hf. exists (EStr s), rest. split; [reflexivity|]. split; [simpl; lia | reflexivity]. Qed.

  Lemma follow_rparen c X : follow c (TRParen :: X).
  Proof. simpl. split; [reflexivity|]. intros; discriminate. Qed.
  Lemma follow_comma c X : follow c (TComma :: X).
  Proof. simpl. split; [reflexivity|]. intros; discriminate. Qed.

  Lemma P_paren f x : Tst rx f x -> Pst rx f (EParen x).
  Proof.
    intros Tx rest Hf. exists (EParen (norm x)), rest. split; [|split].
    - cbn [toks]. rewrite <- app_comm_cons. rewrite <- app_assoc. cbn [pprimary].
      change ([TRParen] ++ rest) with (TRParen :: rest).
      rewrite Tx; [reflexivity | lia | destruct x; simpl; try lia; destruct op; simpl; lia | apply follow_rparen].
    - simpl. lia.
    - intro m. reflexivity.
  Qed.

  (* ---------- argument lists *)
  Definition argok (f : nat) (a : expr) : Prop := wf rx a = true /\ Tst rx f a.

  Lemma one_le_lvl x : (1 <= lvl x)%nat.
  Proof. destruct x; simpl; try lia. destruct op; simpl; lia. Qed.

  Lemma pargs_tail_ok f l : forall n rest,
    (List.length l < n)%nat -> Forall (argok f) l ->
    pargs_tail (pexpr rx f) n (tailf TComma toks l ++ TRParen :: rest) = Some (map norm l, rest).
  Proof.
    induction l as [|a l IH]; intros n rest Hn HF.
    - destruct n; [simpl in Hn; lia|]. reflexivity.
    - destruct n; [simpl in Hn; lia|]. inversion HF as [|? ? [Wa Ta] HF']; subst.
      unfold tailf. cbn [flat_map]. fold (tailf TComma toks l). rewrite <- !app_comm_cons. rewrite <- app_assoc.
      cbn [pargs_tail].
      assert (Fo : follow 1 (tailf TComma toks l ++ TRParen :: rest)).
      { destruct l; [apply follow_rparen | apply follow_comma]. }
      rewrite Ta; [| lia | apply one_le_lvl | assumption].
      rewrite IH; [reflexivity | simpl in Hn; lia | assumption].
  Qed.

  Lemma pcallbody_ok f args rest :
    Forall (argok f) args ->
    pcallbody (pexpr rx f) (TLParen :: sep_by [TComma] (map toks args) ++ TRParen :: rest) = Some (map norm args, rest).
  Proof.
    intro HF. destruct args as [|a l]; [reflexivity|].
    inversion HF as [|? ? [Wa Ta] HF']; subst.
    rewrite sep_by_map. rewrite <- app_assoc.
    destruct (first_tok rx a Wa (tailf TComma toks l ++ TRParen :: rest)) as (t & ts' & E & St & _).
    assert (Fo : follow 1 (tailf TComma toks l ++ TRParen :: rest)).
    { destruct l; [apply follow_rparen | apply follow_comma]. }
    pose proof (Ta 1%nat _ ltac:(lia) (one_le_lvl a) Fo) as Pa.
    assert (Hlen : (List.length l < S (List.length (tailf TComma toks l ++ TRParen :: rest)))%nat).
    { rewrite app_length. pose proof (tailf_length toks l). lia. }
    pose proof (pargs_tail_ok f l _ rest Hlen HF') as Pt.
    revert Pa Pt. rewrite E. generalize (tailf TComma toks l ++ TRParen :: rest). intros r Pa Pt.
    assert (B : pcallbody (pexpr rx f) (TLParen :: t :: ts') =
                match pexpr rx f 1 (t :: ts') with
                | Some (e, r0) => match pargs_tail (pexpr rx f) (S (List.length r0)) r0 with Some (es, r') => Some (e :: es, r') | None => None end
                | None => None
                end).
    { destruct t; try reflexivity. discriminate. }
    rewrite B, Pa, Pt. reflexivity.
  Qed.
End Cases.
