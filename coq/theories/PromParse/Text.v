(* C28 — the round trip through the printed text, for the repaired printer and for the printer as it is. *)
From Coq Require Import ZArith List Bool String Lia.
From SH Require Import PromParse.Syntax Gen.PromParse PromParse.Lexer PromParse.Parser PromParse.Printer PromParse.Wf
  PromParse.Proofs PromParse.Faithful PromParse.LexA PromParse.LexC PromParse.LexD PromParse.LexE PromParse.LexF PromParse.LexNum.
Import ListNotations.
Open Scope string_scope.

Theorem parse_print_text rx e : wf rx e = true -> wfs e -> parse rx (print true e) = Some (norm e).
Proof. intros W S. apply parse_print; [exact W | exact (lex_print e S)]. Qed.

Theorem parse_print_faithful rx e :
  finding_free e = true -> wf rx e = true -> wfs e -> parse rx (print false e) = Some (norm e).
Proof. intros F W S. rewrite (faithful_is_repaired e F). apply parse_print_text; assumption. Qed.

(* a tree on which every premise is established without computation on the text:
   sum without (job) (rate(foo{job=~"a.*"}[5m] @ end() offset -1h) / on (instance) group_left (x) -bar) *)
Definition sample_tree : expr :=
  EAgg ASum
    (EBin ODiv
       (ECall "rate" [EMatrix (mkVS "foo" [mkM MRe "job" "a.*"; mkM MEq "__name__" "foo"] (-3600) [] AtEnd) 300])
       (EUnary true (EVec (vs0 "bar" [mkM MEq "__name__" "bar"])))
       true (mkVM CManyToOne ["instance"] true ["x"]))
    None ["job"] true.

Lemma sample_wfs : wfs sample_tree.
Proof.
  cbn [wfs sample_tree]. unfold vs_s, offs_s, labels_s, name_s. cbn [vs_name vs_at vs_offset vs_offset_ex vm_labels vm_include at_s].
  repeat split.
  all: try exact I; try reflexivity; try lia.
  all: try (right; simpl; auto; fail).
  all: try (simpl; auto; fail).
  all: try (vm_compute printed_matchers; repeat constructor; fail).
  all: try (repeat constructor; simpl; auto; fail).
  all: try (intros _; apply dur_rt_ok; [discriminate | reflexivity]).
  all: try (apply durb_rt_ok; split; reflexivity).
  all: try (intro H; exfalso; apply H; reflexivity).
Qed.
