(* Correspondence cases for C28: texts given to the real parser.ParseExpr with what it returned (reject, or the
   tree and Expr.String() of the tree). *)
From Coq Require Import ZArith List Bool String Ascii.
From SH Require Import Common.Corr PromParse.Syntax Gen.PromParse PromParse.Lexer PromParse.Parser PromParse.Printer PromParse.Wf.
Import ListNotations.
Open Scope string_scope.
Open Scope Z_scope.

(* compact constructors used by the harness *)
Definition S_ (l : list Z) : string := fold_right (fun n s => String (n2c n) s) EmptyString l.
Definition Nd (neg : bool) (m e : Z) : expr := ENum (mkNum neg (MDec m e)).
Definition Ni (neg : bool) : expr := ENum (mkNum neg MInf).
Definition Nn : expr := ENum (mkNum false MNaN).
Definition Mm := mkM.
Definition Vs := mkVS.
Definition Bd (o : binop) (l r : expr) : expr := EBin o l r false vm0.

Definition list_eqb {A} (e : A -> A -> bool) : list A -> list A -> bool :=
  fix go (a b : list A) : bool :=
    match a, b with [], [] => true | x :: a', y :: b' => e x y && go a' b' | _, _ => false end.
Definition opt_eqb {A} (e : A -> A -> bool) (a b : option A) : bool :=
  match a, b with Some x, Some y => e x y | None, None => true | _, _ => false end.
Definition mag_eqb (a b : mag) : bool :=
  match a, b with MDec m e, MDec m' e' => (m =? m') && (e =? e') | MInf, MInf | MNaN, MNaN => true | _, _ => false end.
Definition num_eqb (a b : num) : bool := Bool.eqb (n_neg a) (n_neg b) && mag_eqb (n_mag a) (n_mag b).
Definition binop_eqb (a b : binop) : bool := String.eqb (binop_str a) (binop_str b).
Definition aggop_eqb (a b : aggop) : bool := String.eqb (aggop_str a) (aggop_str b).
Definition mtype_eqb (a b : mtype) : bool := String.eqb (mtype_str a) (mtype_str b).
Definition matcher_eqb (a b : matcher) : bool :=
  mtype_eqb (m_type a) (m_type b) && String.eqb (m_name a) (m_name b) && String.eqb (m_value a) (m_value b).
Definition at_eqb (a b : atmod) : bool :=
  match a, b with AtNone, AtNone | AtStart, AtStart | AtEnd, AtEnd => true | AtTs x, AtTs y => x =? y | _, _ => false end.
Definition vs_eqb (a b : vsel) : bool :=
  String.eqb (vs_name a) (vs_name b) && list_eqb matcher_eqb (vs_matchers a) (vs_matchers b) &&
  (vs_offset a =? vs_offset b) && list_eqb Z.eqb (vs_offset_ex a) (vs_offset_ex b) && at_eqb (vs_at a) (vs_at b).
Definition card_eqb (a b : card) : bool :=
  match a, b with COneToOne, COneToOne | CManyToOne, CManyToOne | COneToMany, COneToMany => true | _, _ => false end.
Definition vm_eqb (a b : vmatch) : bool :=
  card_eqb (vm_card a) (vm_card b) && list_eqb String.eqb (vm_labels a) (vm_labels b) && Bool.eqb (vm_on a) (vm_on b) &&
  list_eqb String.eqb (vm_include a) (vm_include b).
Fixpoint expr_eqb (a b : expr) : bool :=
  match a, b with
  | ENum x, ENum y => num_eqb x y
  | EStr x, EStr y => String.eqb x y
  | EVec x, EVec y => vs_eqb x y
  | EMatrix x r, EMatrix y r' => vs_eqb x y && (r =? r')
  | ESub x r s o t, ESub y r' s' o' t' => expr_eqb x y && (r =? r') && (s =? s') && (o =? o') && at_eqb t t'
  | EParen x, EParen y => expr_eqb x y
  | EUnary n x, EUnary n' y => Bool.eqb n n' && expr_eqb x y
  | EBin o l r b vm, EBin o' l' r' b' vm' => binop_eqb o o' && expr_eqb l l' && expr_eqb r r' && Bool.eqb b b' && vm_eqb vm vm'
  | ECall f xs, ECall g ys =>
      String.eqb f g &&
      (fix go (xs ys : list expr) : bool :=
         match xs, ys with [], [] => true | x :: xs', y :: ys' => expr_eqb x y && go xs' ys' | _, _ => false end) xs ys
  | EAgg o x p g w, EAgg o' y p' g' w' =>
      aggop_eqb o o' && expr_eqb x y && (match p, p' with Some u, Some v => expr_eqb u v | None, None => true | _, _ => false end) &&
      list_eqb String.eqb g g' && Bool.eqb w w'
  | _, _ => false
  end.
Definition kw_eqb (a b : kw) : bool :=
  match a, b with
  | KBool, KBool | KBy, KBy | KGroupLeft, KGroupLeft | KGroupRight, KGroupRight | KIgnoring, KIgnoring | KOffset, KOffset
  | KOn, KOn | KWithout, KWithout | KStart, KStart | KEnd, KEnd => true
  | _, _ => false
  end.
Definition tok_eqb (a b : tok) : bool :=
  match a, b with
  | TNum l v, TNum l' v' => String.eqb l l' && opt_eqb mag_eqb v v'
  | TDur x, TDur y => x =? y
  | TStr x, TStr y | TIdent x, TIdent y | TMetric x, TMetric y => String.eqb x y
  | TOp o l, TOp o' l' => binop_eqb o o' && String.eqb l l'
  | TAgg o l, TAgg o' l' => aggop_eqb o o' && String.eqb l l'
  | TKw k l, TKw k' l' => kw_eqb k k' && String.eqb l l'
  | TLParen, TLParen | TRParen, TRParen | TLBrace, TLBrace | TRBrace, TRBrace | TLBracket, TLBracket | TRBracket, TRBracket
  | TComma, TComma | TColon, TColon | TEql, TEql | TEqlRegex, TEqlRegex | TNeqRegex, TNeqRegex | TBind, TBind
  | TDollar, TDollar | TAt, TAt => true
  | _, _ => false
  end.

Inductive case :=
| CSkip   (* inputs outside the model's domain (non-ASCII text); only the Go-side oracles were evaluated *)
(* text, the regex matcher values in it that do not compile, whether float64 is exact on its numbers,
   and the observation: None = rejected, Some (tree, Some String()) *)
| CRT (text : string) (rx_bad : list string) (exact : bool) (o : option (expr * option string)).

Definition ok (c : case) : bool :=
  match c with
  | CSkip => true
  | CRT text bad exact o =>
      let rx := fun s => negb (existsb (String.eqb s) bad) in
      match parse rx text, o with
      | None, None => true
      | Some e, Some (ast, pr) =>
          (if exact then expr_eqb e ast else true) &&
          (* the model parser's own result satisfies the well-formedness premise (image of the parser) *)
          (if exact then wf rx e else true) &&
          (match pr with Some p => if exact then String.eqb (print false ast) p else true | None => true end) &&
          (* the repaired printer on the implementation's tree: lexes to [toks] and parses back to [norm] *)
          (* the implementation's tree satisfies the well-formedness premise of the round-trip theorem *)
          (if exact then wf rx ast else true) &&
          (if exact then opt_eqb (list_eqb tok_eqb) (lex (print true ast)) (Some (toks ast)) &&
                         opt_eqb expr_eqb (parse rx (print true ast)) (Some (norm ast))
           else true)
      | _, _ => false
      end
  end.

Definition mism := mismatches ok.
