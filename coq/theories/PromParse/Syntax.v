(* C28 — PromQL parser/printer of /repo/internal/promql/parser: syntax tree (ast.go) and tokens (lex.go).
   Definitions only. *)
From Coq Require Import ZArith List Bool String Ascii.
Import ListNotations.
Open Scope Z_scope.

(* ---------- numbers: exact decimals m*10^e (canonical: m = 0 /\ e = 0, or m > 0 /\ m mod 10 <> 0), +-Inf, NaN.
   float64 rounding is outside the model: the correspondence only compares numbers of <= 15 significant digits. *)
Inductive mag := MDec (m e : Z) | MInf | MNaN.
Record num := mkNum { n_neg : bool; n_mag : mag }.

(* ---------- operators / keywords (lex.go: key, ItemTypeStr; parse.y: %token) *)
Inductive binop := OAdd | OSub | OMul | ODiv | OMod | OPow | OAtan2
                 | OEqlc | ONeq | OLte | OLss | OGte | OGtr
                 | OAnd | OOr | OUnless | ODefault.
Inductive aggop := AAvg | ABottomk | ACount | ACountValues | ADropEmpty | AGroup | AMax | AMin
                 | AQuantile | AStddev | AStdvar | ASum | ATopk | ASort | ASortDesc | ADbag.
Inductive kw := KBool | KBy | KGroupLeft | KGroupRight | KIgnoring | KOffset | KOn | KWithout | KStart | KEnd.

(* what a word lexes to outside braces (lexKeywordOrIdentifier) *)
Inductive wordclass := WOp (o : binop) | WAgg (a : aggop) | WKw (k : kw) | WInf | WNaN.

Inductive tok :=
| TNum (lexeme : string) (v : option mag)   (* NUMBER; v = parser.number(lexeme), None when that fails *)
| TDur (secs : Z)                           (* DURATION; secs = parseDuration(lexeme) (lexing fails when that fails) *)
| TStr (v : string)                         (* STRING, unquoted (lexing fails when strutil.Unquote fails) *)
| TIdent (s : string)                       (* IDENTIFIER *)
| TMetric (s : string)                      (* METRIC_IDENTIFIER (contains ':') *)
| TOp (o : binop) (lexeme : string)
| TAgg (a : aggop) (lexeme : string)
| TKw (k : kw) (lexeme : string)
| TLParen | TRParen | TLBrace | TRBrace | TLBracket | TRBracket
| TComma | TColon | TEql | TEqlRegex | TNeqRegex | TBind | TDollar | TAt.

(* ---------- syntax tree (ast.go) *)
Inductive mtype := MEq | MNe | MRe | MNre.
Record matcher := mkM { m_type : mtype; m_name : string; m_value : string }.

(* Timestamp *int64 / StartOrEnd of ast.go: at most one of them is ever set by the parser *)
Inductive atmod := AtNone | AtTs (ms : Z) | AtStart | AtEnd.

Record vsel := mkVS {
  vs_name : string;
  vs_matchers : list matcher;      (* LabelMatchers, including the __name__ matcher appended by assembleVectorSelector *)
  vs_offset : Z;                   (* OriginalOffset, seconds *)
  vs_offset_ex : list Z;           (* OriginalOffsetEx (StatsHouse: offset [a, b, ...]) *)
  vs_at : atmod }.

Inductive card := COneToOne | CManyToOne | COneToMany.
Record vmatch := mkVM { vm_card : card; vm_labels : list string; vm_on : bool; vm_include : list string }.

Inductive expr :=
| ENum (n : num)
| EStr (s : string)
| EVec (v : vsel)
| EMatrix (v : vsel) (range : Z)
| ESub (e : expr) (range step offset : Z) (at_ : atmod)
| EParen (e : expr)
| EUnary (neg : bool) (e : expr)                       (* Op = SUB when neg, ADD otherwise *)
| EBin (op : binop) (l r : expr) (rbool : bool) (vm : vmatch)
| ECall (f : string) (args : list expr)
| EAgg (op : aggop) (e : expr) (param : option expr) (grouping : list string) (without : bool).

Definition vm0 : vmatch := mkVM COneToOne [] false [].
Definition vs0 (name : string) (ms : list matcher) : vsel := mkVS name ms 0 [] AtNone.
