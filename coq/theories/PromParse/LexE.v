(* C28 — string level: the printed text of a well-formed tree scans to its token sequence [toks]. *)
From Coq Require Import ZArith List Bool String Ascii Lia.
From SH Require Import PromParse.Syntax Gen.PromParse PromParse.Lexer PromParse.Parser PromParse.Printer
  PromParse.Wf PromParse.ProofsA PromParse.ProofsC PromParse.LexA PromParse.LexB PromParse.LexC PromParse.LexD.
Import ListNotations.
Open Scope string_scope.
Open Scope Z_scope.

(* ---------- selector head: name{matchers} *)
Definition name_s (n : string) : Prop := n = "" \/ wordlike n.

Lemma ne_if T : nonempty T = true -> (if nonempty T then T else "{}") = T.
Proof. intro H. rewrite H. reflexivity. Qed.

Lemma seg_sel_head v gc pd : name_s (vs_name v) -> Forall matcher_s (printed_matchers v) ->
  Seg (false, false, gc, pd) (if nonempty (print_sel_head v) then print_sel_head v else "{}") (toks_sel_head v)
      (false, false, gc, pd) (stops wordc).
Proof.
  intros Hn Hm. unfold print_sel_head, toks_sel_head.
  destruct (printed_matchers v) as [|m pm] eqn:Ep; destruct (vs_name v) as [|c n'] eqn:En.
  - simpl. change "{}" with ("{" ++ "}"). change [TLBrace; TRBrace] with ([TLBrace] ++ [TRBrace])%list.
    eapply seg_app; [apply seg_lbrace | eapply seg_weaken; [apply seg_rbrace | intros ? ?; exact I] | side].
  - destruct Hn as [Hn|Hn]; [discriminate|]. rewrite sapp_nil. cbn [nonempty].
    rewrite (name_tok_word _ Hn). apply seg_word. assumption.
  - rewrite ne_if by reflexivity.
    change ("" ++ "{" ++ join "," (map print_matcher (m :: pm)) ++ "}") with ("{" ++ join "," (map print_matcher (m :: pm)) ++ "}").
    change (TLBrace :: sep_by [TComma] (map toks_matcher (m :: pm)) ++ [TRBrace])%list
      with ([TLBrace] ++ sep_by [TComma] (map toks_matcher (m :: pm)) ++ [TRBrace])%list.
    eapply seg_app; [apply seg_lbrace | eapply seg_weaken; [apply seg_matchers_tail; [assumption | discriminate] | intros ? ?; exact I] | side].
  - destruct Hn as [Hn|Hn]; [discriminate|]. rewrite ne_if by reflexivity.
    change (name_tok (String c n') :: TLBrace :: sep_by [TComma] (map toks_matcher (m :: pm)) ++ [TRBrace])%list
      with ([name_tok (String c n')] ++ [TLBrace] ++ sep_by [TComma] (map toks_matcher (m :: pm)) ++ [TRBrace])%list.
    rewrite (name_tok_word _ Hn).
    eapply seg_app; [apply seg_word; assumption | | side].
    eapply seg_app; [apply seg_lbrace | eapply seg_weaken; [apply seg_matchers_tail; [assumption | discriminate] | intros ? ?; exact I] | side].
Qed.

(* ---------- on/ignoring/group_left/group_right *)
Lemma seg_matching vm gc pd : labels_s (vm_labels vm) -> labels_s (vm_include vm) -> 0 <= pd ->
  Seg (false, false, gc, pd) (print_matching true vm) (toks_matching vm) (false, false, gc, pd) anyr.
Proof.
  intros Hl Hi Hpd. unfold print_matching, toks_matching. cbn [andb].
  destruct ((match vm_labels vm with [] => false | _ => true end) || vm_on vm || match vm_card vm with COneToOne => false | _ => true end);
    [|apply seg_nil].
  assert (K : forall w t, wordlike w -> word_tok w = t ->
              Seg (false, false, gc, pd) (" " ++ w ++ " (" ++ join ", " (vm_labels vm) ++ ")" ++
                match vm_card vm with COneToOne => "" | CManyToOne => " group_left (" ++ join ", " (vm_include vm) ++ ")"
                                    | COneToMany => " group_right (" ++ join ", " (vm_include vm) ++ ")" end)
              (t :: toks_labels (vm_labels vm) ++
                match vm_card vm with COneToOne => [] | CManyToOne => TKw KGroupLeft "group_left" :: toks_labels (vm_include vm)
                                    | COneToMany => TKw KGroupRight "group_right" :: toks_labels (vm_include vm) end)%list
              (false, false, gc, pd) anyr).
  { intros w t Hw Ht.
    assert (G : forall w2 t2, wordlike w2 -> word_tok w2 = t2 ->
                Seg (false, false, gc, pd) (" " ++ w2 ++ " " ++ "(" ++ join ", " (vm_include vm) ++ ")")
                    (t2 :: toks_labels (vm_include vm)) (false, false, gc, pd) anyr).
    { intros w2 t2 Hw2 Ht2. change (t2 :: toks_labels (vm_include vm)) with ([] ++ [t2] ++ [] ++ toks_labels (vm_include vm))%list.
      eapply seg_app; [apply seg_space | | side].
      eapply seg_app; [apply seg_kw; eassumption | | side].
      eapply seg_app; [apply seg_space | apply seg_labels; assumption | side]. }
    change (t :: toks_labels (vm_labels vm) ++ ?y)%list with ([] ++ [t] ++ [] ++ toks_labels (vm_labels vm) ++ y)%list.
    eapply seg_app; [apply seg_space | | side].
    eapply seg_app; [apply seg_kw; eassumption | | side].
    set (M := match vm_card vm with COneToOne => "" | CManyToOne => " group_left (" ++ join ", " (vm_include vm) ++ ")"
                                  | COneToMany => " group_right (" ++ join ", " (vm_include vm) ++ ")" end).
    replace (" (" ++ join ", " (vm_labels vm) ++ ")" ++ M) with (" " ++ ("(" ++ join ", " (vm_labels vm) ++ ")") ++ M)
      by (rewrite !sapp_assoc; reflexivity).
    eapply seg_app; [apply seg_space | | side].
    eapply seg_app; [apply seg_labels; assumption | | side].
    unfold M.
    destruct (vm_card vm).
    - apply seg_nil.
    - apply (G "group_left"); [simpl; auto | reflexivity].
    - apply (G "group_right"); [simpl; auto | reflexivity]. }
  destruct (vm_on vm).
  - apply (K "on"); [simpl; auto | reflexivity].
  - apply (K "ignoring"); [simpl; auto | reflexivity].
Qed.
