(* C28 — lemmas: the @ timestamp, postfix-operator steps, binary-operator modifiers. *)
From Coq Require Import ZArith List Bool String Ascii Lia.
From SH Require Import PromParse.Syntax Gen.PromParse PromParse.Lexer PromParse.Parser PromParse.Printer PromParse.Wf PromParse.ProofsA.
Import ListNotations.
Open Scope list_scope.
Open Scope Z_scope.

(* ---------- the @ timestamp: milliseconds -> printed seconds -> milliseconds *)
Lemma norm_dec_inv fuel : forall m e, 0 <= m -> -3 <= e ->
  exists m' e', norm_dec fuel m e = MDec m' e' /\ -3 <= e' /\ 0 <= m' /\ m' * 10 ^ (e' + 3) = m * 10 ^ (e + 3).
Proof.
  induction fuel as [|f IH]; intros m e Hm He.
  - exists m, e. simpl. auto.
  - simpl. destruct (m =? 0) eqn:E0.
    + apply Z.eqb_eq in E0. subst. exists 0, 0. repeat split; try lia.
    + destruct (m mod 10 =? 0) eqn:E1.
      * apply Z.eqb_eq in E1.
        destruct (IH (m / 10) (e + 1)) as (m' & e' & H1 & H2 & H3 & H4); [apply Z.div_pos; lia | lia |].
        exists m', e'. repeat split; auto. rewrite H4.
        replace (e + 1 + 3) with (Z.succ (e + 3)) by lia. rewrite Z.pow_succ_r by lia.
        pose proof (Z_div_mod_eq_full m 10). lia.
      * exists m, e. auto.
Qed.

Lemma ts_of_mk_dec a : 0 <= a < 2 ^ 62 ->
  ts_of_num false (mk_dec a (-3)) = Some a /\ ts_of_num true (mk_dec a (-3)) = Some (- a).
Proof.
  intro Ha. unfold mk_dec.
  destruct (norm_dec_inv (Z.to_nat (ndigits a)) a (-3)) as (m' & e' & H1 & H2 & H3 & H4); [lia | lia |].
  rewrite H1. change (-3 + 3) with 0 in H4. rewrite Z.pow_0_r, Z.mul_1_r in H4.
  assert (P3 : 0 < 10 ^ (e' + 3)) by (apply Z.pow_pos_nonneg; lia).
  assert (Hm' : m' <= a) by nia.
  unfold ts_of_num.
  assert (TB : (if 0 <=? e' then two63 <=? m' * 10 ^ e' else two63 * 10 ^ (- e') <=? m') = false).
  { destruct (0 <=? e') eqn:E.
    - apply Z.leb_le in E. apply Z.leb_gt.
      assert (10 ^ e' <= 10 ^ (e' + 3)) by (apply Z.pow_le_mono_r; lia).
      assert (m' * 10 ^ e' <= m' * 10 ^ (e' + 3)) by (apply Z.mul_le_mono_nonneg_l; lia).
      unfold two63. assert (2 ^ 62 < 2 ^ 63) by (apply Z.pow_lt_mono_r; lia). lia.
    - apply Z.leb_gt in E. apply Z.leb_gt.
      assert (0 < 10 ^ (- e')) by (apply Z.pow_pos_nonneg; lia).
      unfold two63. assert (2 ^ 62 < 2 ^ 63) by (apply Z.pow_lt_mono_r; lia).
      assert (2 ^ 63 * 1 <= 2 ^ 63 * 10 ^ (- e')) by (apply Z.mul_le_mono_nonneg_l; lia). lia. }
  rewrite TB.
  assert (E3 : (0 <=? e' + 3) = true) by (apply Z.leb_le; lia).
  rewrite E3, H4. auto.
Qed.

Definition no_post (rest : list tok) : Prop := match rest with [] => True | t :: _ => post_tok t = false end.

(* ---------- postfix-operator steps of ppost *)
Section Post.
  Variable rx : string -> bool.

  Lemma ppost_at n e a e' rest :
    a <> AtNone -> at_ok a = true -> set_at e a = Some e' ->
    ppost (S n) e (toks_at a ++ rest) = ppost n e' rest.
  Proof.
    intros Hne Hok Hset. destruct a as [|ms| |]; [congruence | | |].
    - simpl in Hok. apply Z.ltb_lt in Hok.
      destruct (ts_of_mk_dec (Z.abs ms)) as [T1 T2]; [lia|].
      unfold toks_at. destruct (ms <? 0) eqn:E.
      + apply Z.ltb_lt in E. simpl. rewrite T2. replace (- Z.abs ms) with ms by lia. rewrite Hset. reflexivity.
      + apply Z.ltb_ge in E. simpl. rewrite T1. replace (Z.abs ms) with ms by lia. rewrite Hset. reflexivity.
    - simpl. rewrite Hset. reflexivity.
    - simpl. rewrite Hset. reflexivity.
  Qed.

  Lemma ppost_off n e d e' rest :
    d <> 0 -> set_offset e d [] = Some e' ->
    ppost (S n) e (TKw KOffset "offset" :: toks_dur d ++ rest) = ppost n e' rest.
  Proof.
    intros Hd Hset. unfold toks_dur. destruct (d <? 0) eqn:E; simpl.
    - rewrite Z.opp_involutive, Hset. reflexivity.
    - rewrite Hset. reflexivity.
  Qed.

  Lemma ppost_offs n e d l e' rest :
    set_offset e 0 (d :: l) = Some e' ->
    ppost (S n) e (TKw KOffset "offset" :: TLBracket :: sep_by [TComma] (map toks_dur (d :: l)) ++ [TRBracket] ++ rest)
    = ppost n e' rest.
  Proof.
    intro Hset. rewrite sep_by_map. rewrite <- app_assoc. cbn [ppost].
    change ([TRBracket] ++ rest) with (TRBracket :: rest).
    rewrite poffs_ok, Hset. reflexivity.
  Qed.

  Lemma ppost_stop n e rest :
    no_post rest -> ppost (S n) e rest = Some (e, rest).
  Proof.
    unfold no_post. intro H. destruct rest as [|t rest]; [reflexivity|].
    destruct t; try reflexivity; simpl in H; try discriminate.
    destruct k; try reflexivity; discriminate.
  Qed.
End Post.

(* ---------- bin_modifier *)
Definition starts_ok (ts : list tok) : Prop := exists t ts', ts = t :: ts' /\ start_tok t = true.

Lemma pgroup_one b on ls ts :
  starts_ok ts -> pgroup b on ls ts = Some (b, mkVM COneToOne ls on [], ts).
Proof.
  intros (t & ts' & -> & Ht). destruct t; try reflexivity; simpl in Ht; try discriminate.
  destruct k; try reflexivity; discriminate.
Qed.

Definition bool_toks (b : bool) : list tok := if b then [TKw KBool "bool"%string] else [].

Lemma pgroup_side b on ls inc ts (left : bool) :
  forallb label_ok inc = true ->
  pgroup b on ls ((if left then TKw KGroupLeft "group_left"%string else TKw KGroupRight "group_right"%string) :: toks_labels inc ++ ts)
  = Some (b, mkVM (if left then CManyToOne else COneToMany) ls on inc, ts).
Proof.
  intro H. pose proof (glabels_ok inc ts H) as G. unfold toks_labels in *. rewrite <- app_comm_cons in *.
  destruct left; unfold pgroup; rewrite G; reflexivity.
Qed.

Lemma pmods_after_bool b r :
  match r with TKw KBool _ :: _ => False | _ => True end ->
  pmods (bool_toks b ++ r) =
  match r with
  | TKw KOn _ :: r' => match glabels r' with Some (ls, r2) => pgroup b true ls r2 | None => None end
  | TKw KIgnoring _ :: r' => match glabels r' with Some (ls, r2) => pgroup b false ls r2 | None => None end
  | _ => Some (b, vm0, r)
  end.
Proof.
  intro H. destruct b; [reflexivity|]. simpl. destruct r as [|t r]; [reflexivity|].
  destruct t; try reflexivity. destruct k; try reflexivity. contradiction.
Qed.

Lemma pmods_ok b vm ts :
  vm_ok vm = true -> starts_ok ts ->
  pmods (bool_toks b ++ toks_matching vm ++ ts) = Some (b, vm, ts).
Proof.
  intros Hvm Hs. destruct vm as [c ls on inc]. unfold vm_ok in Hvm. simpl in Hvm.
  apply andb_true_iff in Hvm as [Hvm Hc]. apply andb_true_iff in Hvm as [Hls Hinc].
  unfold toks_matching. simpl vm_labels. simpl vm_on. simpl vm_card. simpl vm_include.
  destruct ((match ls with [] => false | _ => true end) || on || match c with COneToOne => false | _ => true end) eqn:EP.
  - rewrite <- app_comm_cons. rewrite pmods_after_bool by (destruct on; exact I).
    rewrite <- app_assoc.
    destruct on; rewrite (glabels_ok ls _ Hls); destruct c.
    all: try (simpl app; rewrite pgroup_one by assumption; destruct inc; [reflexivity | discriminate]).
    all: rewrite <- app_comm_cons.
    + apply (pgroup_side b true ls inc ts true Hinc).
    + apply (pgroup_side b true ls inc ts false Hinc).
    + apply (pgroup_side b false ls inc ts true Hinc).
    + apply (pgroup_side b false ls inc ts false Hinc).
  - apply orb_false_iff in EP as [EP Ec]. apply orb_false_iff in EP as [El Eo].
    destruct ls; [|discriminate]. subst on. destruct c; try discriminate. destruct inc; [|discriminate].
    simpl app. destruct Hs as (t & ts' & -> & Ht).
    rewrite pmods_after_bool.
    + destruct t; try reflexivity; simpl in Ht; try discriminate; destruct k; try reflexivity; discriminate.
    + destruct t; try exact I. destruct k; try exact I. discriminate.
Qed.
