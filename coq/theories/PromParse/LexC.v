(* C28 — string level: words, labels, matchers, modifiers of printed expressions as segments. *)
From Coq Require Import ZArith List Bool String Ascii Lia.
From SH Require Import PromParse.Syntax Gen.PromParse PromParse.Lexer PromParse.Parser PromParse.Printer
  PromParse.LexA PromParse.LexB.
Import ListNotations.
Open Scope string_scope.
Open Scope Z_scope.

Lemma wordlike_len w : wordlike w -> (1 <= String.length w)%nat.
Proof. destruct w; simpl; [contradiction | lia]. Qed.

Lemma seg_word w gc pd : wordlike w -> Seg (false, false, gc, pd) w [word_tok w] (false, false, gc, pd) (stops wordc).
Proof. intro H. apply seg1; [apply wordlike_len; assumption|]. intros F rest Hr. simpl run. apply lex_word; assumption. Qed.

Lemma seg_bident w bk gc pd :
  nonempty w = true -> sall is_alnum w = true -> Seg (true, bk, gc, pd) w [TIdent w] (true, bk, gc, pd) (stops is_alnum).
Proof.
  intros H1 H2. apply seg1; [destruct w; [discriminate | simpl; lia]|]. intros F rest Hr. simpl run. apply lex_bident; assumption.
Qed.

Lemma seg_string s st : Seg st (quote s) [TStr s] st anyr.
Proof.
  destruct st as [[[br bk] gc] pd]. apply seg1; [unfold quote; simpl; lia|]. intros F rest _. simpl run. apply lex_string.
Qed.

(* a metric name / label that is a word lexes to name_tok *)
Lemma name_tok_word w : wordlike w -> name_tok w = word_tok w.
Proof.
  destruct w as [|c w']; [contradiction|]. intros [Hc _]. destruct (alpha_facts c Hc) as (NP & Hd & _). use_no_punct NP.
  unfold name_tok, starts_number. rewrite Hd, P17. reflexivity.
Qed.

Ltac side := let r := fresh in let H := fresh in intros r H; simpl; try exact I; try reflexivity; try (eexists; reflexivity); auto.

(* term: what may follow a printed expression: nothing, ' ', ')', ',', '[' *)
Definition termc (d : ascii) : bool := ceq 32 d || ceq 41 d || ceq 44 d || ceq 91 d || ceq 93 d || ceq 58 d && false.
Definition term (rest : string) : Prop := stops (fun d => negb (termc d)) rest.
Lemma termc_facts d : termc d = true -> wordc d = false /\ is_alnum d = false /\ ceq 46 d = false.
Proof. all_chars d; vm_compute; intro H; try discriminate H; repeat split; reflexivity. Qed.
Lemma term_stops (p : ascii -> bool) rest :
  (forall d, termc d = true -> p d = false) -> term rest -> stops p rest.
Proof. intros Hp. destruct rest as [|d r]; simpl; [auto|]. intro H. apply negb_false_iff in H. auto. Qed.
Lemma term_wordc rest : term rest -> stops wordc rest.
Proof. apply term_stops. intros d H. apply termc_facts in H. tauto. Qed.

(* ---------- label lists: "(" a ", " b ")" *)
Definition labels_s (ls : list string) : Prop := Forall wordlike ls.

Lemma join_cons sep x y l : join sep (x :: y :: l) = x ++ sep ++ join sep (y :: l).
Proof. reflexivity. Qed.

Lemma seg_labels_tail ls gc pd : labels_s ls -> ls <> [] -> 0 <= pd ->
  Seg (false, false, gc, pd + 1) (join ", " ls ++ ")")
      (sep_by [TComma] (map (fun w => [name_tok w]) ls) ++ [TRParen])%list (false, false, gc, pd) anyr.
Proof.
  intros H Hne Hpd. induction ls as [|x l IH]; [congruence|]. inversion H as [|? ? Hx Hl]; subst.
  destruct l as [|y l'].
  - cbn [join map sep_by]. rewrite (name_tok_word x Hx).
    eapply seg_app; [apply seg_word; assumption | apply seg_rparen; assumption | side].
  - rewrite join_cons. rewrite !sapp_assoc.
    change (sep_by [TComma] (map (fun w => [name_tok w]) (x :: y :: l')))
      with ([name_tok x] ++ [TComma] ++ sep_by [TComma] (map (fun w => [name_tok w]) (y :: l')))%list.
    rewrite <- !app_assoc. rewrite (name_tok_word x Hx).
    eapply seg_app; [apply seg_word; assumption | | side].
    change (", " ++ join ", " (y :: l') ++ ")") with ("," ++ " " ++ join ", " (y :: l') ++ ")").
    eapply seg_app; [apply seg_comma | | side].
    change (sep_by [TComma] (map (fun w => [name_tok w]) (y :: l')) ++ [TRParen])%list
      with ([] ++ sep_by [TComma] (map (fun w => [name_tok w]) (y :: l')) ++ [TRParen])%list.
    eapply seg_app; [apply seg_space | apply IH; [assumption | discriminate] | side].
Qed.

Lemma seg_labels ls gc pd : labels_s ls -> 0 <= pd ->
  Seg (false, false, gc, pd) ("(" ++ join ", " ls ++ ")") (toks_labels ls) (false, false, gc, pd) anyr.
Proof.
  intros H Hpd. unfold toks_labels.
  change (TLParen :: sep_by [TComma] (map (fun w => [name_tok w]) ls) ++ [TRParen])%list
    with ([TLParen] ++ sep_by [TComma] (map (fun w => [name_tok w]) ls) ++ [TRParen])%list.
  eapply seg_app; [apply seg_lparen | | side].
  destruct ls as [|x l].
  - cbn [join map sep_by]. simpl. apply seg_rparen. assumption.
  - apply seg_labels_tail; [assumption | discriminate | assumption].
Qed.

(* ---------- matchers: name op "value" *)
Definition matcher_s (m : matcher) : Prop := nonempty (m_name m) = true /\ sall is_alnum (m_name m) = true.
Definition quoted_next (rest : string) : Prop := exists r, rest = String """"%char r.

Lemma seg_mop ty bk gc pd : Seg (true, bk, gc, pd) (mtype_str ty) [mtype_tok ty] (true, bk, gc, pd) quoted_next.
Proof.
  apply seg1; [destruct ty; simpl; lia|]. intros F rest [r ->]. simpl run.
  destruct ty; cbn [mtype_str mtype_tok append lex_go]; destruct (lex_go F true bk gc pd _); reflexivity.
Qed.
Lemma mop_not_alnum ty rest : stops is_alnum (mtype_str ty ++ rest).
Proof. destruct ty; reflexivity. Qed.

Lemma seg_matcher m bk gc pd : matcher_s m ->
  Seg (true, bk, gc, pd) (print_matcher m) (toks_matcher m) (true, bk, gc, pd) anyr.
Proof.
  intros [H1 H2]. unfold print_matcher, toks_matcher.
  change [TIdent (m_name m); mtype_tok (m_type m); TStr (m_value m)]
    with ([TIdent (m_name m)] ++ [mtype_tok (m_type m)] ++ [TStr (m_value m)])%list.
  eapply seg_app; [apply seg_bident; assumption | | intros r _; rewrite sapp_assoc; apply mop_not_alnum].
  eapply seg_app; [apply seg_mop | apply seg_string | intros r _; unfold quote; eexists; reflexivity].
Qed.

Lemma seg_matchers_tail pm bk gc pd : Forall matcher_s pm -> pm <> [] ->
  Seg (true, bk, gc, pd) (join "," (map print_matcher pm) ++ "}")
      (sep_by [TComma] (map toks_matcher pm) ++ [TRBrace])%list (false, bk, gc, pd) anyr.
Proof.
  intros H Hne. induction pm as [|x l IH]; [congruence|]. inversion H as [|? ? Hx Hl]; subst.
  destruct l as [|y l'].
  - cbn [join map sep_by]. eapply seg_app; [apply seg_matcher; assumption | apply seg_rbrace | side].
  - cbn [map]. rewrite join_cons. rewrite !sapp_assoc.
    change (sep_by [TComma] (toks_matcher x :: toks_matcher y :: map toks_matcher l'))
      with (toks_matcher x ++ [TComma] ++ sep_by [TComma] (map toks_matcher (y :: l')))%list.
    rewrite <- !app_assoc.
    eapply seg_app; [apply seg_matcher; assumption | | side].
    eapply seg_app; [apply seg_comma | apply IH; [assumption | discriminate] | side].
Qed.
