(* C28 — string level: decimal digits, durations, @ timestamps and (a class of) number literals scan back. *)
From Coq Require Import ZArith List Bool String Ascii Lia.
From SH Require Import PromParse.Syntax Gen.PromParse PromParse.Lexer PromParse.Parser PromParse.Printer
  PromParse.LexA PromParse.LexB PromParse.LexC PromParse.LexD.
Import ListNotations.
Open Scope string_scope.
Open Scope Z_scope.

Definition hd_nonzero (s : string) : Prop := match s with String c _ => ceq 48 c = false | EmptyString => False end.

Lemma digit_char k : 0 <= k < 10 -> is_digit (n2c (48 + k)) = true /\ digit_val (n2c (48 + k)) = k /\ (0 < k -> ceq 48 (n2c (48 + k)) = false).
Proof.
  intro H. assert (E : k = 0 \/ k = 1 \/ k = 2 \/ k = 3 \/ k = 4 \/ k = 5 \/ k = 6 \/ k = 7 \/ k = 8 \/ k = 9) by lia.
  repeat (destruct E as [E|E]; [subst; (split; [vm_compute; reflexivity | split; [vm_compute; reflexivity | intro; try lia; vm_compute; reflexivity]])|]).
  subst; (split; [vm_compute; reflexivity | split; [vm_compute; reflexivity | intro; try lia; vm_compute; reflexivity]]).
Qed.

Lemma val_base_app b x y acc : val_base b (x ++ y) acc = val_base b y (val_base b x acc).
Proof. revert acc. induction x; intro acc; simpl; [reflexivity | apply IHx]. Qed.

(* the digits produced for n in front of acc *)
Lemma digits_go_spec f : forall n acc, 0 <= n < 8 ^ Z.of_nat f -> (1 <= f)%nat ->
  exists ds, digits_go f n acc = ds ++ acc /\ sall is_digit ds = true /\ nonempty ds = true /\
             (forall a, val_base 10 ds a = a * 10 ^ slen ds + n) /\ (0 < n -> hd_nonzero ds) /\ (n = 0 -> ds = "0").
Proof.
  induction f as [|f IH]; intros n acc Hn Hf; [lia|].
  cbn [digits_go]. set (d := n2c (48 + n mod 10)).
  assert (Hm : 0 <= n mod 10 < 10) by (apply Z.mod_pos_bound; lia).
  destruct (digit_char (n mod 10) Hm) as (D1 & D2 & D3). fold d in D1, D2, D3.
  destruct (n / 10 =? 0) eqn:E.
  - apply Z.eqb_eq in E. assert (n < 10) by (pose proof (Z_div_mod_eq_full n 10); lia).
    assert (n mod 10 = n) by (apply Z.mod_small; lia).
    exists (String d ""). split; [reflexivity|]. split; [simpl; rewrite D1; reflexivity|]. split; [reflexivity|].
    split; [intro a; simpl; unfold slen; simpl; rewrite D2; lia|]. split.
    + intro Hp. simpl. apply D3. lia.
    + intro Hz. subst n. reflexivity.
  - apply Z.eqb_neq in E.
    assert (Hq : 0 <= n / 10 < 8 ^ Z.of_nat f).
    { split; [apply Z.div_pos; lia|]. rewrite Nat2Z.inj_succ, Z.pow_succ_r in Hn by lia.
      apply Z.div_lt_upper_bound; lia. }
    assert (Hf' : (1 <= f)%nat).
    { destruct f; [|lia]. simpl in Hq. assert (n / 10 = 0) by lia. contradiction. }
    destruct (IH (n / 10) (String d acc) Hq Hf') as (ds & E1 & E2 & E3 & E4 & E5 & E6).
    exists (ds ++ String d ""). split; [rewrite E1, sapp_assoc; reflexivity|].
    split. { clear - E2 D1. induction ds; simpl in *; [rewrite D1; reflexivity|]. apply andb_true_iff in E2 as [A B]. rewrite A. auto. }
    split. { destruct ds; [discriminate | reflexivity]. }
    split. { intro a. rewrite val_base_app, E4. simpl. rewrite D2. unfold slen. rewrite slen_app. simpl.
             rewrite Nat2Z.inj_add. simpl Z.of_nat. rewrite Z.pow_add_r by lia. pose proof (Z_div_mod_eq_full n 10). simpl (10 ^ 1). lia. }
    split. { intros _. assert (0 < n / 10) by lia. specialize (E5 H). destruct ds; [contradiction | exact E5]. }
    intro Hz. subst n. simpl in E. contradiction.
Qed.

Lemma udec_fuel n : 0 <= n -> n < 8 ^ Z.of_nat (Z.to_nat (ndigits n) + 1).
Proof.
  intro Hn. unfold ndigits. destruct (n =? 0) eqn:E.
  - apply Z.eqb_eq in E. subst. vm_compute. reflexivity.
  - apply Z.eqb_neq in E. assert (Hp : 0 < n) by lia.
    pose proof (Z.log2_spec n Hp) as [_ L]. pose proof (Z.log2_nonneg n) as L0.
    set (l := Z.log2 n) in *.
    assert (Hq : 0 <= l / 3) by (apply Z.div_pos; lia).
    rewrite Nat2Z.inj_add, Z2Nat.id by lia. simpl Z.of_nat.
    change 8 with (2 ^ 3). rewrite <- Z.pow_mul_r by lia.
    eapply Z.lt_le_trans; [exact L|]. apply Z.pow_le_mono_r; [lia|]. pose proof (Z_div_mod_eq_full l 3). pose proof (Z.mod_pos_bound l 3 ltac:(lia)). lia.
Qed.

Lemma udec_spec n : 0 <= n ->
  exists ds, udec n = ds /\ sall is_digit ds = true /\ nonempty ds = true /\
             (forall a, val_base 10 ds a = a * 10 ^ slen ds + n) /\ (0 < n -> hd_nonzero ds) /\ (n = 0 -> ds = "0").
Proof.
  intro Hn. unfold udec.
  destruct (digits_go_spec (Z.to_nat (ndigits n) + 1) n "" (conj Hn (udec_fuel n Hn)) ltac:(lia)) as (ds & E & R).
  exists ds. rewrite E, sapp_nil. auto.
Qed.

(* ---------- durations: "<n>s" *)
Lemma not_alnum_facts d : is_alnum d = false -> is_digit d = false.
Proof. all_chars d; vm_compute; intro H; try discriminate H; reflexivity. Qed.

Lemma scan_digits_s ds rest : sall is_digit ds = true -> hd_nonzero ds ->
  scan_number (ds ++ "s" ++ rest) = (mkNP "" "" ds "" "" "" "" "", "s" ++ rest, false).
Proof.
  intros Hd Hh. destruct ds as [|c ds']; [contradiction|]. simpl in Hh.
  unfold scan_number. change (String c ds' ++ "s" ++ rest) with (String c (ds' ++ "s" ++ rest)).
  unfold accept1 at 1. rewrite Hh. cbn [nonempty].
  change (String c (ds' ++ "s" ++ rest)) with (String c ds' ++ String "s"%char rest).
  rewrite span_app; [| assumption | reflexivity].
  reflexivity.
Qed.

Lemma dur_rest_s rest : dstop rest -> dur_rest ("s" ++ rest) = Some ("s", rest).
Proof.
  intro H. unfold dur_rest. cbn [append accept1]. change (sany (Ascii.eqb "s"%char) "smhdwy") with true. cbn [nonempty].
  destruct rest as [|d r].
  - reflexivity.
  - simpl in H. pose proof (not_alnum_facts d H) as Hd. cbn [String.length dur_units]. rewrite Hd. cbn [peek_alnum]. rewrite H. reflexivity.
Qed.

Lemma parse_duration_s n ds : 0 < n < 2 ^ 33 -> sall is_digit ds = true -> nonempty ds = true ->
  (forall a, val_base 10 ds a = a * 10 ^ slen ds + n) -> parse_duration (ds ++ "s") = Some n.
Proof.
  intros Hn Hd Hne Hv. unfold parse_duration.
  assert (L : exists f, String.length (ds ++ "s") = S (S f)).
  { destruct ds as [|c1 ds1]; [discriminate|]. exists (String.length ds1). simpl. rewrite slen_app. simpl. lia. }
  destruct L as [f L]. rewrite L. cbn [dur_ns].
  destruct (ds ++ "s") as [|c0 s0] eqn:E0; [destruct ds; discriminate|]. rewrite <- E0.
  rewrite span_app; [| assumption | reflexivity].
  change (span (fun c : ascii => negb (is_digit c)) "s") with ("s", "").
  rewrite Hne. cbn [negb orb nonempty]. rewrite Hv. simpl (0 * _ + n). 
  assert (E1 : (2 ^ 64 <=? n) = false) by (apply Z.leb_gt; assert (2 ^ 33 < 2 ^ 64) by (apply Z.pow_lt_mono_r; lia); lia).
  rewrite E1. change (dur_unit "s") with (Some (6, 1000000000)). cbv iota beta.
  change (6 <=? 0) with false. cbv iota.
  assert (E2 : (two63 / 1000000000 <? n) = false) by (apply Z.ltb_ge; change (two63 / 1000000000) with 9223372036; change (2 ^ 33) with 8589934592 in Hn; lia).
  rewrite E2.
  assert (E3 : (two63 - 1 <? 0 + n * 1000000000) = false) by (apply Z.ltb_ge; change (two63 - 1) with 9223372036854775807; change (2 ^ 33) with 8589934592 in Hn; lia).
  rewrite E3. cbn [dur_ns].
  assert (E4 : (0 + n * 1000000000 =? 0) = false) by (apply Z.eqb_neq; lia). rewrite E4.
  f_equal. replace (0 + n * 1000000000 + 500000000) with (500000000 + n * 1000000000) by lia.
  rewrite Z.div_add by lia. reflexivity.
Qed.

Lemma lex_num_or_dur_s n rest : 0 < n < 2 ^ 33 -> dstop rest ->
  lex_num_or_dur (udec n ++ "s" ++ rest) = Some (TDur n, rest) /\ lex_dur (udec n ++ "s" ++ rest) = Some (TDur n, rest).
Proof.
  intros Hn Hr. destruct (udec_spec n ltac:(lia)) as (ds & E & D1 & D2 & D3 & D4 & _). rewrite E.
  unfold lex_num_or_dur, lex_dur. rewrite (scan_digits_s ds rest D1 (D4 ltac:(lia))).
  rewrite (dur_rest_s rest Hr). unfold np_lexeme. cbn [np_z np_x np_d1 np_dot np_d2 np_e np_sg np_d3 append].
  rewrite sapp_nil. rewrite (parse_duration_s n ds Hn D1 D2 D3). auto.
Qed.

Lemma udec_head n : 0 <= n -> exists c s', udec n = String c s' /\ is_digit c = true.
Proof.
  intro Hn. destruct (udec_spec n Hn) as (ds & E & D1 & D2 & _). rewrite E. destruct ds as [|c s']; [discriminate|].
  simpl in D1. apply andb_true_iff in D1 as [D1 _]. eauto.
Qed.

(* a token that starts with a digit, outside braces *)
Lemma lex_digit_start F bk gc pd c s' :
  is_digit c = true ->
  lex_go (S F) false bk gc pd (String c s') =
  match lex_num_or_dur (String c s') with Some (t, rest) => pre [t] (lex_go F false bk gc pd rest) | None => None end.
Proof.
  intro Hc. destruct (digit_facts c Hc) as (NP & _ & _). use_no_punct NP. cbn [lex_go].
  rewrite P1, P2, P3, P4, P5, P6, P7, P8, P9, P10, P11, P12, P13. unfold starts_number. rewrite Hc. cbn [orb].
  destruct (lex_num_or_dur (String c s')) as [[t rest]|]; [|reflexivity].
  destruct (lex_go F false bk gc pd rest); reflexivity.
Qed.

Lemma dur_pos_seg n bk gc pd : 0 < n < 2 ^ 33 ->
  Seg (false, bk, gc, pd) (udec n ++ "s") [TDur n] (false, bk, gc, pd) dstop.
Proof.
  intro Hn. apply seg1; [rewrite slen_app; simpl; lia|]. intros F rest Hr. unfold run. cbv beta iota. rewrite sapp_assoc.
  destruct (udec_head n ltac:(lia)) as (c & s' & E & Hc).
  destruct (lex_num_or_dur_s n rest Hn Hr) as [L _]. rewrite E in *.
  change (String c s' ++ "s" ++ rest) with (String c (s' ++ "s" ++ rest)) in *.
  rewrite lex_digit_start by assumption. rewrite L. reflexivity.
Qed.

Theorem dur_rt_ok d : d <> 0 -> Z.abs d < 2 ^ 33 -> dur_rt d.
Proof.
  intros Hd Hb bk gc pd. unfold dur_fx, toks_dur. apply Z.eqb_neq in Hd. rewrite Hd. apply Z.eqb_neq in Hd.
  destruct (d <? 0) eqn:E.
  - apply Z.ltb_lt in E. change [TOp OSub "-"; TDur (- d)] with ([TOp OSub "-"] ++ [TDur (- d)])%list.
    eapply seg_app; [apply seg_minus | apply dur_pos_seg; lia | intros; exact I].
  - apply Z.ltb_ge in E. apply dur_pos_seg. lia.
Qed.

Theorem durb_rt_ok d : 0 < d < 2 ^ 33 -> durb_rt d.
Proof.
  intros Hd gc pd. unfold dur_fx, toks_dur.
  assert (E0 : (d =? 0) = false) by (apply Z.eqb_neq; lia). assert (E1 : (d <? 0) = false) by (apply Z.ltb_ge; lia).
  rewrite E0, E1. apply seg1; [simpl; lia|]. intros F rest Hr. unfold run. cbv beta iota. rewrite !sapp_assoc.
  destruct (udec_head d ltac:(lia)) as (c & s' & E & Hc).
  destruct (lex_num_or_dur_s d rest Hd Hr) as [_ L]. rewrite E in *.
  change ("[" ++ String c s' ++ "s" ++ rest) with (String "["%char (String c (s' ++ "s" ++ rest))).
  change (String c s' ++ "s" ++ rest) with (String c (s' ++ "s" ++ rest)) in L.
  cbn [lex_go]. change (ceq 35 "["%char) with false. change (is_space "["%char) with false. cbv iota.
  cbn [span]. destruct (digit_facts c Hc) as (NP & _ & _). use_no_punct NP. rewrite P2. cbn [snd].
  rewrite L. cbn. destruct (lex_go F false true false pd rest); reflexivity.
Qed.

(* ---------- special number literals *)
Lemma numstop_wordc rest : numstop rest -> stops wordc rest.
Proof.
  destruct rest as [|d r]; simpl; [auto|]. unfold wordc. intro H.
  apply orb_false_iff in H as [H H2]. apply orb_false_iff in H as [H1 _]. rewrite H1, H2. reflexivity.
Qed.
Theorem num_rt_nan : num_rt (mkNum false MNaN).
Proof. intros gc pd. eapply seg_weaken; [apply (seg_kw "NaN"); [simpl; auto | reflexivity] | apply numstop_wordc]. Qed.
Theorem num_rt_inf ng : num_rt (mkNum ng MInf).
Proof.
  intros gc pd. destruct ng; cbn [print_num toks n_neg n_mag toks_num_abs].
  - change "-Inf" with ("-" ++ "Inf"). change ([TOp OSub "-"] ++ [TNum "Inf" (Some MInf)])%list with ([TOp OSub "-"] ++ [TNum "Inf" (Some MInf)])%list.
    eapply seg_app; [apply seg_minus | eapply seg_weaken; [apply (seg_kw "Inf"); [simpl; auto | reflexivity] | apply numstop_wordc] | intros; exact I].
  - eapply seg_weaken; [apply (seg_kw "Inf"); [simpl; auto | reflexivity] | apply numstop_wordc].
Qed.
