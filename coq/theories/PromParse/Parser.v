(* C28 — hand-written precedence-climbing model of the grammar /repo/internal/promql/parser/parse.y
   (+ the semantic actions in parse.go). The goyacc tables themselves are not modelled; the correspondence
   check compares this parser with ParseExpr (accept/reject and tree). Definitions only. *)
From Coq Require Import ZArith List Bool String Ascii.
From SH Require Import PromParse.Syntax Gen.PromParse PromParse.Lexer.
Import ListNotations.
Open Scope string_scope.
Open Scope Z_scope.

Definition res := option (expr * list tok).

(* parse.y: %left LDEFAULT < LOR < LAND LUNLESS < comparisons < ADD SUB < MUL DIV MOD ATAN2 < %right POW *)
Definition prec (o : binop) : nat :=
  match o with
  | ODefault => 1 | OOr => 2 | OAnd | OUnless => 3
  | OEqlc | ONeq | OLte | OLss | OGte | OGtr => 4
  | OAdd | OSub => 5 | OMul | ODiv | OMod | OAtan2 => 6 | OPow => 7
  end%nat.
Definition rhs_prec (o : binop) : nat := match o with OPow => 7%nat | _ => S (prec o) end.

Definition num_negate (n : num) : num :=
  match n_mag n with MNaN => n | _ => mkNum (negb (n_neg n)) (n_mag n) end.

(* lex.go isLabel *)
Definition is_label (s : string) : bool := nonempty s && sall is_alnum s.
(* parse.y maybe_label + the isLabel check of grouping_label *)
Definition label_of_tok (t : tok) : option string :=
  let chk (w : string) := if is_label w then Some w else None in
  match t with
  | TAgg a w => match a with ADbag => None | _ => chk w end
  | TKw k w => match k with KWithout => None | _ => chk w end
  | TIdent w => chk w
  | TMetric w => chk w
  | TOp o w => match o with OAnd | OOr | OUnless | OAtan2 => chk w | _ => None end
  | TNum w _ => chk w
  | _ => None
  end.

(* grouping_labels: "(" ")" | "(" list ")" | "(" list "," ")" *)
Fixpoint glabels_tail (ts : list tok) : option (list string * list tok) :=
  match ts with
  | TRParen :: ts' => Some ([], ts')
  | TComma :: TRParen :: ts' => Some ([], ts')
  | TComma :: t :: ts' =>
      match label_of_tok t with
      | Some l => match glabels_tail ts' with Some (ls, r) => Some (l :: ls, r) | None => None end
      | None => None
      end
  | _ => None
  end.
Definition glabels (ts : list tok) : option (list string * list tok) :=
  match ts with
  | TLParen :: TRParen :: ts' => Some ([], ts')
  | TLParen :: t :: ts' =>
      match label_of_tok t with
      | Some l => match glabels_tail ts' with Some (ls, r) => Some (l :: ls, r) | None => None end
      | None => None
      end
  | _ => None
  end.

(* offset_list "]" *)
Fixpoint poffs (ts : list tok) : option (list Z * list tok) :=
  match ts with
  | TDur d :: TRBracket :: ts' => Some ([d], ts')
  | TDur d :: TComma :: ts' => match poffs ts' with Some (l, r) => Some (d :: l, r) | None => None end
  | TOp OSub _ :: TDur d :: TRBracket :: ts' => Some ([- d], ts')
  | TOp OSub _ :: TDur d :: TComma :: ts' => match poffs ts' with Some (l, r) => Some (- d :: l, r) | None => None end
  | _ => None
  end.

Definition at_is_set (a : atmod) : bool := match a with AtNone => false | _ => true end.
Definition at_is_ts (a : atmod) : bool := match a with AtTs _ => true | _ => false end.

(* parse.go addOffset *)
Definition set_offset (e : expr) (off : Z) (ex : list Z) : option expr :=
  match e with
  | EVec v => if vs_offset v =? 0 then Some (EVec (mkVS (vs_name v) (vs_matchers v) off (vs_offset_ex v ++ ex) (vs_at v))) else None
  | EMatrix v r => if vs_offset v =? 0 then Some (EMatrix (mkVS (vs_name v) (vs_matchers v) off (vs_offset_ex v ++ ex) (vs_at v)) r) else None
  | ESub x r st o a => if o =? 0 then Some (ESub x r st off a) else None
  | _ => None
  end.
(* parse.go getAtModifierVars + setTimestamp / setAtModifierPreprocessor *)
Definition set_at (e : expr) (a : atmod) : option expr :=
  match e with
  | EVec v => if at_is_set (vs_at v) then None else Some (EVec (mkVS (vs_name v) (vs_matchers v) (vs_offset v) (vs_offset_ex v) a))
  | EMatrix v r => if at_is_set (vs_at v) then None else Some (EMatrix (mkVS (vs_name v) (vs_matchers v) (vs_offset v) (vs_offset_ex v) a) r)
  | ESub x r st o a0 => if at_is_set a0 then None else Some (ESub x r st o a)
  | _ => None
  end.
(* setTimestamp: bounds check on the seconds, then timestamp.FromFloatSeconds = round(ts*1000), half away from zero *)
Definition ts_of_num (neg : bool) (m : mag) : option Z :=
  match m with
  | MDec mm e =>
      let too_big := if 0 <=? e then two63 <=? mm * 10 ^ e else two63 * 10 ^ (- e) <=? mm in
      if too_big then None
      else let ms := if 0 <=? e + 3 then mm * 10 ^ (e + 3) else (2 * mm + 10 ^ (- e - 3)) / (2 * 10 ^ (- e - 3)) in
           Some (if neg then - ms else ms)
  | _ => None
  end.
(* parse.y matrix_selector action *)
Definition mk_range (e : expr) (r step : Z) : option expr :=
  match e with
  | EVec v => if (vs_offset v =? 0) && (match vs_offset_ex v with [] => true | _ => false end) && negb (at_is_ts (vs_at v))
              then Some (EMatrix v r) else None
  | _ => Some (ESub e r step 0 AtNone)
  end.

Definition matchop (t : tok) : option mtype :=
  match t with TEql => Some MEq | TOp ONeq _ => Some MNe | TEqlRegex => Some MRe | TNeqRegex => Some MNre | _ => None end.
Definition is_regex (t : mtype) : bool := match t with MRe | MNre => true | _ => false end.
Definition name_matcher (name : string) : list matcher :=
  match name with EmptyString => [] | _ => [mkM MEq "__name__" name] end.

Section Parser.
  (* labels.NewMatcher compiles regex matcher values; whether a value compiles is an input of the model *)
  Variable rx_ok : string -> bool.
  Definition mk_matcher (ty : mtype) (n v : string) : option matcher :=
    if is_regex ty && negb (rx_ok v) then None else Some (mkM ty n v).

  (* label_matcher: "@" IDENT op STRING | IDENT ":" "$" IDENT | IDENT op STRING *)
  Definition one_matcher (ts : list tok) : option (matcher * list tok) :=
    match ts with
    | TAt :: TIdent n :: o :: TStr v :: ts' =>
        match matchop o with
        | Some ty => match mk_matcher ty ("__" ++ n ++ "__") v with Some m => Some (m, ts') | None => None end
        | None => None
        end
    | TIdent n :: TBind :: TDollar :: TIdent v :: ts' => Some (mkM MEq "__bind__" (n ++ ":" ++ v), ts')
    | TIdent n :: o :: TStr v :: ts' =>
        match matchop o with
        | Some ty => match mk_matcher ty n v with Some m => Some (m, ts') | None => None end
        | None => None
        end
    | _ => None
    end.
  (* after "{" : "}" | matcher ("," matcher)* [","] "}" *)
  Fixpoint pmatchers_tail (n : nat) (ts : list tok) : option (list matcher * list tok) :=
    match n with
    | O => None
    | S n' =>
        match ts with
        | TRBrace :: ts' => Some ([], ts')
        | TComma :: TRBrace :: ts' => Some ([], ts')
        | TComma :: ts' =>
            match one_matcher ts' with
            | Some (m, r) => match pmatchers_tail n' r with Some (ms, r') => Some (m :: ms, r') | None => None end
            | None => None
            end
        | _ => None
        end
    end.
  Definition pmatchers (ts : list tok) : option (list matcher * list tok) :=
    match ts with
    | TRBrace :: ts' => Some ([], ts')
    | _ => match one_matcher ts with
           | Some (m, r) => match pmatchers_tail (S (List.length r)) r with Some (ms, r') => Some (m :: ms, r') | None => None end
           | None => None
           end
    end.
  (* vector_selector after the metric identifier *)
  Definition psel (name : string) (ts : list tok) : res :=
    match ts with
    | TLBrace :: ts' =>
        match pmatchers ts' with
        | Some (ms, r) => Some (EVec (vs0 name (ms ++ name_matcher name)), r)
        | None => None
        end
    | _ => Some (EVec (vs0 name (name_matcher name)), ts)
    end.

  (* bin_modifier: [bool] [(on|ignoring) labels [(group_left|group_right) [labels]]] *)
  Definition pgroup (b : bool) (on : bool) (ls : list string) (ts : list tok) : option (bool * vmatch * list tok) :=
    let side (c : card) (r : list tok) :=
      match r with
      | TLParen :: _ => match glabels r with Some (inc, r') => Some (b, mkVM c ls on inc, r') | None => None end
      | _ => Some (b, mkVM c ls on [], r)
      end in
    match ts with
    | TKw KGroupLeft _ :: r => side CManyToOne r
    | TKw KGroupRight _ :: r => side COneToMany r
    | _ => Some (b, mkVM COneToOne ls on [], ts)
    end.
  Definition pmods (ts : list tok) : option (bool * vmatch * list tok) :=
    let '(b, ts1) := match ts with TKw KBool _ :: r => (true, r) | _ => (false, ts) end in
    match ts1 with
    | TKw KOn _ :: r => match glabels r with Some (ls, r2) => pgroup b true ls r2 | None => None end
    | TKw KIgnoring _ :: r => match glabels r with Some (ls, r2) => pgroup b false ls r2 | None => None end
    | _ => Some (b, vm0, ts1)
    end.

  (* postfix operators: offset, @, [range] / [range:step] *)
  Fixpoint ppost (n : nat) (e : expr) (ts : list tok) : res :=
    match n with
    | O => None
    | S n' =>
        let k (oe : option expr) (r : list tok) := match oe with Some e' => ppost n' e' r | None => None end in
        match ts with
        | TKw KOffset _ :: TLBracket :: ts' => match poffs ts' with Some (l, r) => k (set_offset e 0 l) r | None => None end
        | TKw KOffset _ :: TOp OSub _ :: TDur d :: ts' => k (set_offset e (- d) []) ts'
        | TKw KOffset _ :: TDur d :: ts' => k (set_offset e d []) ts'
        | TKw KOffset _ :: _ => None
        | TAt :: TKw KStart _ :: TLParen :: TRParen :: ts' => k (set_at e AtStart) ts'
        | TAt :: TKw KEnd _ :: TLParen :: TRParen :: ts' => k (set_at e AtEnd) ts'
        | TAt :: TNum _ (Some m) :: ts' => match ts_of_num false m with Some t => k (set_at e (AtTs t)) ts' | None => None end
        | TAt :: TOp OAdd _ :: TNum _ (Some m) :: ts' => match ts_of_num false m with Some t => k (set_at e (AtTs t)) ts' | None => None end
        | TAt :: TOp OSub _ :: TNum _ (Some m) :: ts' => match ts_of_num true m with Some t => k (set_at e (AtTs t)) ts' | None => None end
        | TAt :: _ => None
        | TLBracket :: TDur r :: TRBracket :: ts' => k (mk_range e r 0) ts'
        | TLBracket :: TDur r :: TColon :: TRBracket :: ts' => k (mk_range e r 0) ts'
        | TLBracket :: TDur r :: TColon :: TDur _ :: TRBracket :: ts' => k (mk_range e r 1) ts'
        | TLBracket :: _ => None
        | _ => Some (e, ts)
        end
    end.

  (* sub-expression parser at a minimal precedence (the recursive knot is tied by [pexpr] below) *)
  Variable rec : nat -> list tok -> res.

  (* function_call_args ")" *)
  Fixpoint pargs_tail (n : nat) (ts : list tok) : option (list expr * list tok) :=
    match n with
    | O => None
    | S n' =>
        match ts with
        | TRParen :: ts' => Some ([], ts')
        | TComma :: ts' =>
            match rec 1%nat ts' with
            | Some (e, r) => match pargs_tail n' r with Some (es, r') => Some (e :: es, r') | None => None end
            | None => None
            end
        | _ => None
        end
    end.
  (* function_call_body *)
  Definition pcallbody (ts : list tok) : option (list expr * list tok) :=
    match ts with
    | TLParen :: TRParen :: ts' => Some ([], ts')
    | TLParen :: ts' =>
        match rec 1%nat ts' with
        | Some (e, r) => match pargs_tail (S (List.length r)) r with Some (es, r') => Some (e :: es, r') | None => None end
        | None => None
        end
    | _ => None
    end.

  (* parse.go newAggregateExpr *)
  Definition mk_agg (a : aggop) (args : list expr) (grp : list string) (wo : bool) : option expr :=
    match args with
    | [e] => if agg_with_param a then None else Some (EAgg a e None grp wo)
    | [p; e] => if agg_with_param a then Some (EAgg a e (Some p) grp wo) else None
    | _ => None
    end.
  Definition pagg (a : aggop) (ts : list tok) : res :=
    let modi (wo : bool) (r : list tok) (kont : list string -> list tok -> res) :=
      match glabels r with Some (ls, r') => kont ls r' | None => None end in
    let body_then (grp : list string) (wo : bool) (r : list tok) :=
      match pcallbody r with
      | Some (args, r') => match mk_agg a args grp wo with Some e => Some (e, r') | None => None end
      | None => None
      end in
    match ts with
    | TKw KBy _ :: r => modi false r (fun ls r' => body_then ls false r')
    | TKw KWithout _ :: r => modi true r (fun ls r' => body_then ls true r')
    | TLParen :: _ =>
        match pcallbody ts with
        | Some (args, r) =>
            match r with
            | TKw KBy _ :: r1 => modi false r1 (fun ls r' => match mk_agg a args ls false with Some e => Some (e, r') | None => None end)
            | TKw KWithout _ :: r1 => modi true r1 (fun ls r' => match mk_agg a args ls true with Some e => Some (e, r') | None => None end)
            | _ => match mk_agg a args [] false with Some e => Some (e, r) | None => None end
            end
        | None => None
        end
    | _ => None
    end.

  Definition starts_agg (ts : list tok) : bool :=
    match ts with TLParen :: _ | TKw KBy _ :: _ | TKw KWithout _ :: _ => true | _ => false end.

  Definition pprimary (ts : list tok) : res :=
    match ts with
    | TNum _ (Some m) :: ts' => Some (ENum (mkNum false m), ts')
    | TStr v :: ts' => Some (EStr v, ts')
    | TLParen :: ts' => match rec 1%nat ts' with Some (e, TRParen :: r) => Some (EParen e, r) | _ => None end
    | TLBrace :: _ => psel "" ts
    | TIdent s :: ts' =>
        match ts' with
        | TLParen :: _ =>
            match assoc s functions with
            | Some fname => match pcallbody ts' with Some (args, r) => Some (ECall fname args, r) | None => None end
            | None => None
            end
        | _ => psel s ts'
        end
    | TMetric s :: ts' => psel s ts'
    | TAgg a w :: ts' => if starts_agg ts' then pagg a ts' else match a with ADbag => None | _ => psel w ts' end
    | TKw k w :: ts' => match k with KBy | KOffset | KWithout | KStart | KEnd => psel w ts' | _ => None end
    | TOp o w :: ts' => match o with OAnd | OOr | OUnless => psel w ts' | _ => None end
    | _ => None
    end.

  (* unary_expr (operand at the precedence above MUL, number literals folded) or primary with postfix operators *)
  Definition pprefix (ts : list tok) : res :=
    match ts with
    | TOp OSub _ :: ts' =>
        match rec 7%nat ts' with
        | Some (ENum n, r) => Some (ENum (num_negate n), r)
        | Some (e, r) => Some (EUnary true e, r)
        | None => None
        end
    | TOp OAdd _ :: ts' =>
        match rec 7%nat ts' with
        | Some (ENum n, r) => Some (ENum n, r)
        | Some (e, r) => Some (EUnary false e, r)
        | None => None
        end
    | _ => match pprimary ts with Some (e, r) => ppost (S (List.length r)) e r | None => None end
    end.

  Fixpoint ploop (n : nat) (minp : nat) (lhs : expr) (ts : list tok) : res :=
    match n with
    | O => None
    | S n' =>
        match ts with
        | TOp o _ :: ts1 =>
            if (minp <=? prec o)%nat then
              match pmods ts1 with
              | Some (b, vm, ts2) =>
                  match rec (rhs_prec o) ts2 with
                  | Some (r, ts3) => ploop n' minp (EBin o lhs r b vm) ts3
                  | None => None
                  end
              | None => None
              end
            else Some (lhs, ts)
        | _ => Some (lhs, ts)
        end
    end.
  Definition pbody (n : nat) (minp : nat) (ts : list tok) : res :=
    match pprefix ts with Some (l, ts1) => ploop n minp l ts1 | None => None end.
End Parser.

Fixpoint pexpr (rx_ok : string -> bool) (fuel : nat) (minp : nat) (ts : list tok) : res :=
  match fuel with
  | O => None
  | S f => pbody rx_ok (pexpr rx_ok f) (S (List.length ts)) minp ts
  end.
Definition ptop (rx_ok : string -> bool) (ts : list tok) : option expr :=
  match pexpr rx_ok (S (List.length ts)) 1%nat ts with Some (e, []) => Some e | _ => None end.
Definition parse (rx_ok : string -> bool) (s : string) : option expr :=
  match lex s with Some ts => ptop rx_ok ts | None => None end.
