(* C28 — the generic part of the round-trip proof: induction principle, first tokens, fuel bounds,
   from primaries to prefix expressions to binary chains. *)
From Coq Require Import ZArith List Bool String Ascii Lia.
From SH Require Import PromParse.Syntax Gen.PromParse PromParse.Lexer PromParse.Parser PromParse.Printer PromParse.Wf
  PromParse.ProofsA PromParse.ProofsB.
Import ListNotations.
Open Scope list_scope.

Section Ind.
  Variable P : expr -> Prop.
  Hypothesis Hnum : forall n, P (ENum n).
  Hypothesis Hstr : forall s, P (EStr s).
  Hypothesis Hvec : forall v, P (EVec v).
  Hypothesis Hmat : forall v r, P (EMatrix v r).
  Hypothesis Hsub : forall x r s o a, P x -> P (ESub x r s o a).
  Hypothesis Hpar : forall x, P x -> P (EParen x).
  Hypothesis Hun : forall n x, P x -> P (EUnary n x).
  Hypothesis Hbin : forall o l r b vm, P l -> P r -> P (EBin o l r b vm).
  Hypothesis Hcall : forall f args, Forall P args -> P (ECall f args).
  Hypothesis Hagg : forall a x p g w, P x -> (forall q, p = Some q -> P q) -> P (EAgg a x p g w).
  Fixpoint expr_ind2 (e : expr) : P e :=
    match e with
    | ENum n => Hnum n
    | EStr s => Hstr s
    | EVec v => Hvec v
    | EMatrix v r => Hmat v r
    | ESub x r s o a => Hsub x r s o a (expr_ind2 x)
    | EParen x => Hpar x (expr_ind2 x)
    | EUnary n x => Hun n x (expr_ind2 x)
    | EBin o l r b vm => Hbin o l r b vm (expr_ind2 l) (expr_ind2 r)
    | ECall f args =>
        Hcall f args ((fix go (l : list expr) : Forall P l :=
                         match l with [] => Forall_nil P | x :: l' => Forall_cons x (expr_ind2 x) (go l') end) args)
    | EAgg a x p g w =>
        Hagg a x p g w (expr_ind2 x)
          (match p as p0 return (forall q, p0 = Some q -> P q) with
           | Some q0 => fun q (H : Some q0 = Some q) => match H in (_ = y) return (match y with Some q' => P q' | None => True end) with eq_refl => expr_ind2 q0 end
           | None => fun q (H : None = Some q) => match H in (_ = y) return (match y with Some q' => P q' | None => True end) with eq_refl => I end
           end)
    end.
End Ind.

Definition follow (minp : nat) (rest : list tok) : Prop :=
  match rest with [] => True | t :: _ => stop_tok t = true /\ forall o w, t = TOp o w -> (prec o < minp)%nat end.
Definition pfollow (rest : list tok) : Prop :=
  match rest with [] => True | t :: _ => stop_tok t = true \/ post_tok t = true end.

Lemma follow_pfollow c rest : follow c rest -> pfollow rest.
Proof. destruct rest; simpl; [auto|]. intros [H _]. auto. Qed.
Lemma follow_no_post c rest : follow c rest -> no_post rest.
Proof.
  destruct rest as [|t rest]; simpl; [auto|]. intros [H _].
  destruct t; simpl in *; try discriminate; reflexivity.
Qed.
Lemma follow_le c c' rest : (c <= c')%nat -> follow c rest -> follow c' rest.
Proof. destruct rest; simpl; [auto|]. intros L [H1 H2]. split; [auto|]. intros o w E. specialize (H2 o w E). lia. Qed.

Lemma metric_prim t : metric_tok_ok t = true -> prim_tok t = true.
Proof. destruct t; simpl; try discriminate; auto. Qed.

Section Main.
  Variable rx : string -> bool.

  (* ---------- first token of a printed expression *)
  Lemma sel_head_first v ts : vs_ok rx v = true -> exists t ts', toks_sel_head v ++ ts = t :: ts' /\ prim_tok t = true.
  Proof.
    unfold vs_ok. intro H. apply andb_true_iff in H as [H _]. apply andb_true_iff in H as [H _].
    unfold toks_sel_head, name_ok in *. destruct (vs_name v) eqn:En.
    - destruct (printed_matchers v); simpl; eauto.
    - apply metric_prim in H. destruct (printed_matchers v); simpl; eauto.
  Qed.

  Lemma first_tok e : wf rx e = true -> forall ts,
    exists t ts', toks e ++ ts = t :: ts' /\ start_tok t = true /\ (plvl e = true -> prim_tok t = true).
  Proof.
    induction e using expr_ind2; intros W ts; simpl in W.
    - (* ENum *) unfold toks. destruct n as [ng g]. unfold plvl, signed. simpl.
      destruct ng; simpl.
      + eexists _, _. split; [reflexivity|]. split; [reflexivity|discriminate].
      + destruct g; simpl; eexists _, _; (split; [reflexivity|]); split; try reflexivity; auto.
    - simpl. eauto 6.
    - destruct (sel_head_first v (toks_at (vs_at v) ++ toks_offsets v ++ ts) W) as (t & ts' & E & Pt).
      exists t, ts'. simpl. rewrite <- !app_assoc. rewrite E. unfold start_tok. rewrite Pt. auto.
    - destruct (sel_head_first v ([TLBracket; TDur r; TRBracket] ++ toks_at (vs_at v) ++ toks_offsets v ++ ts) W) as (t & ts' & E & Pt).
      exists t, ts'. cbn [toks]. rewrite <- !app_assoc. cbn [app] in E |- *. rewrite E. unfold start_tok. rewrite Pt. auto.
    - apply andb_true_iff in W as [W _]. apply andb_true_iff in W as [W Wx]. apply andb_true_iff in W as [Px _].
      assert (X : exists tl, toks (ESub e r s o a) ++ ts = toks e ++ tl) by (eexists; cbn [toks]; rewrite <- app_assoc; reflexivity).
      destruct X as [tl X]. rewrite X.
      destruct (IHe Wx tl) as (t & ts' & E & St & Pt).
      exists t, ts'. auto.
    - simpl. eauto 6.
    - simpl. destruct n; eexists _, _; (split; [reflexivity|]); split; try reflexivity; discriminate.
    - apply andb_true_iff in W as [W _]. apply andb_true_iff in W as [W _]. apply andb_true_iff in W as [W _].
      apply andb_true_iff in W as [W _]. apply andb_true_iff in W as [Wl _].
      assert (X : exists tl, toks (EBin o e1 e2 b vm) ++ ts = toks e1 ++ tl) by (eexists; cbn [toks]; rewrite <- app_assoc; reflexivity).
      destruct X as [tl X]. rewrite X.
      destruct (IHe1 Wl tl) as (t & ts' & E & St & _).
      exists t, ts'. split; [assumption|]. split; [assumption|discriminate].
    - simpl. eauto 6.
    - simpl. eauto 6.
  Qed.

  Lemma starts_ok_toks e ts : wf rx e = true -> starts_ok (toks e ++ ts).
  Proof. intro W. destruct (first_tok e W ts) as (t & ts' & E & S & _). exists t, ts'. auto. Qed.

  (* ---------- fuel bounds *)
  Lemma sl_len e : (sl e <= List.length (toks e))%nat.
  Proof.
    induction e using expr_ind2; simpl; try lia.
    rewrite !app_length. simpl. lia.
  Qed.

  (* ---------- from primary (P) to chains (S) to complete sub-parses (T) *)
  Definition Tst (f : nat) (e : expr) : Prop :=
    forall minp rest, (minp <= 7)%nat -> (minp <= lvl e)%nat -> follow minp rest ->
    pexpr rx f minp (toks e ++ rest) = Some (norm e, rest).
  Definition Sst (f : nat) (e : expr) : Prop :=
    forall n minp rest, (minp <= 7)%nat -> (minp <= lvl e)%nat -> follow (cap e) rest ->
    pbody rx (pexpr rx f) (sl e + n) minp (toks e ++ rest) = ploop (pexpr rx f) n minp (norm e) rest.
  Definition Pst (f : nat) (e : expr) : Prop :=
    forall rest, pfollow rest ->
    exists e0 ts0, pprimary rx (pexpr rx f) (toks e ++ rest) = Some (e0, ts0) /\
                   (psteps e + List.length rest <= List.length ts0)%nat /\
                   forall m, ppost (psteps e + m) e0 ts0 = ppost m (norm e) rest.

  Lemma ploop_stop rec n minp e rest : follow minp rest -> ploop rec (S n) minp e rest = Some (e, rest).
  Proof.
    destruct rest as [|t rest]; [reflexivity|]. intros [H1 H2]. destruct t; try reflexivity.
    simpl. specialize (H2 o lexeme eq_refl). apply Nat.leb_gt in H2. rewrite H2. reflexivity.
  Qed.

  Lemma lvl_cap e minp o : (minp <= 7)%nat -> (minp <= lvl e)%nat -> (prec o < minp)%nat -> (prec o < cap e)%nat.
  Proof.
    intros H7 Hl Hp. destruct e; simpl in *; try lia.
    - destruct (signed n); lia.
    - destruct op; simpl in *; lia.
  Qed.

  Lemma T_of_S e f : Sst f e -> Tst (S f) e.
  Proof.
    intros HS minp rest H7 Hl Hf. simpl.
    pose proof (sl_len e) as L.
    replace (S (List.length (toks e ++ rest))) with (sl e + S (List.length (toks e ++ rest) - sl e))%nat
      by (rewrite app_length; lia).
    rewrite HS; auto.
    - apply ploop_stop. assumption.
    - destruct rest as [|t rest]; simpl in *; [auto|]. destruct Hf as [H1 H2]. split; [auto|].
      intros o w E. eapply lvl_cap; eauto.
  Qed.

  Lemma pprefix_of_primary rec ts e0 ts0 :
    pprimary rx rec ts = Some (e0, ts0) -> pprefix rx rec ts = ppost (S (List.length ts0)) e0 ts0.
  Proof.
    intro H. destruct ts as [|t ts]; [discriminate|].
    destruct t; try (unfold pprefix; rewrite H; reflexivity).
    destruct o; try (unfold pprefix; rewrite H; reflexivity); simpl in H; discriminate.
  Qed.

  Lemma S_of_P e f : plvl e = true -> Pst f e -> Sst f e.
  Proof.
    intros Pl HP n minp rest H7 Hl Hf.
    assert (Hs : sl e = 0%nat) by (destruct e; simpl in *; try reflexivity; discriminate).
    assert (Hc : cap e = 8%nat).
    { destruct e; simpl in *; try reflexivity; try discriminate. destruct (signed n0); [discriminate|reflexivity]. }
    destruct (HP rest (follow_pfollow _ _ Hf)) as (e0 & ts0 & E1 & E2 & E3).
    unfold pbody. rewrite (pprefix_of_primary _ _ _ _ E1).
    replace (S (List.length ts0)) with (psteps e + S (List.length ts0 - psteps e))%nat by lia.
    rewrite E3. rewrite ppost_stop by (eapply follow_no_post; eauto). rewrite Hs. reflexivity.
  Qed.

  (* ---------- binary operators *)
  Lemma S_bin f o l r b vm :
    wf rx (EBin o l r b vm) = true -> (height (EBin o l r b vm) <= f)%nat ->
    Sst f l -> (forall f', (height r <= f')%nat -> Sst f' r) -> Sst f (EBin o l r b vm).
  Proof.
    intros W Hh Sl Sr n minp rest H7 Hl Hf. simpl in W.
    apply andb_true_iff in W as [W Wr3]. apply andb_true_iff in W as [W Wc]. apply andb_true_iff in W as [W Wl3].
    apply andb_true_iff in W as [W Wvm]. apply andb_true_iff in W as [Wl Wr].
    apply Nat.leb_le in Wr3. apply Nat.ltb_lt in Wc.
    assert (Wl3' : (prec o <= lvl l)%nat).
    { destruct o; try (apply Nat.leb_le in Wl3; exact Wl3). apply Nat.ltb_lt in Wl3. lia. }
    simpl in Hh. simpl lvl in Hl. simpl cap in Hf.
    assert (X : toks (EBin o l r b vm) ++ rest = toks l ++ TOp o (binop_str o) :: bool_toks b ++ toks_matching vm ++ toks r ++ rest)
      by (cbn [toks]; unfold bool_toks; rewrite <- !app_assoc; reflexivity).
    rewrite X. cbn [sl norm].
    replace (S (sl l) + n)%nat with (sl l + S n)%nat by lia.
    rewrite Sl; [| assumption | lia | simpl; split; [reflexivity|]; intros o' w E; inversion E; subst; assumption].
    cbn [ploop]. assert (Hm : (minp <=? prec o)%nat = true) by (apply Nat.leb_le; lia). rewrite Hm.
    rewrite pmods_ok; [| assumption | apply starts_ok_toks; assumption].
    destruct f as [|f']; [lia|].
    assert (Tr : Tst (S f') r) by (apply T_of_S; apply Sr; lia).
    rewrite Tr; [reflexivity | destruct o; simpl; lia | assumption | assumption].
  Qed.

  (* ---------- unary operators and signed number literals *)
  Lemma S_unary f ng x :
    wf rx (EUnary ng x) = true -> (height (EUnary ng x) <= f)%nat ->
    (forall f', (height x <= f')%nat -> Sst f' x) -> Sst f (EUnary ng x).
  Proof.
    intros W Hh Sx n minp rest H7 Hl Hf. cbn [wf] in W.
    apply andb_true_iff in W as [W Wx]. apply andb_true_iff in W as [W7 Wn]. apply Nat.leb_le in W7.
    simpl in Hh. destruct f as [|f']; [lia|].
    assert (Tx : Tst (S f') x) by (apply T_of_S; apply Sx; lia).
    simpl cap in Hf. simpl sl. simpl norm.
    assert (E : pexpr rx (S f') 7 (toks x ++ rest) = Some (norm x, rest)) by (apply Tx; auto).
    assert (Nn : is_num (norm x) = false) by (destruct x; simpl in *; try reflexivity; discriminate).
    unfold pbody. destruct ng; simpl toks; rewrite <- app_comm_cons; unfold pprefix; rewrite E;
      destruct (norm x); simpl in Nn; try discriminate; reflexivity.
  Qed.

  Lemma S_num_signed f n :
    wf rx (ENum n) = true -> signed n = true -> (1 <= f)%nat -> Sst f (ENum n).
  Proof.
    intros W Sg Hf k minp rest H7 Hl Hfo. destruct f as [|f']; [lia|].
    destruct n as [ng g]. simpl in W. unfold signed in Sg. simpl in Sg. simpl cap in Hfo.
    unfold signed in Hfo. simpl in Hfo. rewrite Sg in Hfo. simpl in Sg.
    assert (E : forall g', g' = g -> forall lx, pexpr rx (S f') 7 (TNum lx (Some g') :: rest) = Some (ENum (mkNum false g'), rest)).
    { intros g' _ lx. simpl. unfold pbody. unfold pprefix. cbn [pprimary].
      rewrite ppost_stop by (eapply follow_no_post; eauto). apply ploop_stop. assumption. }
    simpl sl. simpl norm. unfold pbody. subst ng.
    simpl toks. rewrite <- app_comm_cons. unfold pprefix.
    destruct g; simpl toks_num_abs; simpl app; rewrite (E _ eq_refl); simpl in W; try discriminate; reflexivity.
  Qed.
End Main.
