(* C28 — the printer as it is in the source (print false) does not round-trip: witnesses, checked by computation.
   Each witness is replayed on the real ParseExpr/String by the harness every run (findings F-C28a..f). *)
From Coq Require Import ZArith List Bool String.
From SH Require Import PromParse.Syntax Gen.PromParse PromParse.Lexer PromParse.Parser PromParse.Printer.
Import ListNotations.
Open Scope string_scope.

Definition rx_all (_ : string) : bool := true.

(* the printed text of an accepted expression is rejected, or parses to a tree that is not the expected one *)
Definition breaks (fx : bool) (s : string) : Prop :=
  exists e, parse rx_all s = Some e /\ parse rx_all (print fx e) <> Some (norm e).
Definition holds (fx : bool) (s : string) : Prop :=
  exists e, parse rx_all s = Some e /\ parse rx_all (print fx e) = Some (norm e).

Ltac witness := eexists; split; [vm_compute; reflexivity | vm_compute; congruence].
Ltac witness_ok := eexists; split; [vm_compute; reflexivity | vm_compute; reflexivity].

Lemma vector_offset_breaks : breaks false "foo offset 5m".            Proof. witness. Qed.
Lemma subquery_breaks : breaks false "rate(foo[5m])[10m:1m]".        Proof. witness. Qed.
Lemma offset_list_breaks : breaks false "foo offset [1m, 2m]".       Proof. witness. Qed.
Lemma group_modifier_breaks : breaks false "a + ignoring() group_left(x) b". Proof. witness. Qed.
Lemma zero_range_breaks : breaks false "foo[0s499ms]".               Proof. witness. Qed.
Lemma empty_selector_breaks : breaks false "{}".                     Proof. witness. Qed.

Lemma pos_inf_breaks : breaks false "Inf ^ 2".                      Proof. witness. Qed.

Lemma vector_offset_repaired : holds true "foo offset 5m".            Proof. witness_ok. Qed.
Lemma subquery_repaired : holds true "rate(foo[5m])[10m:1m]".        Proof. witness_ok. Qed.
Lemma offset_list_repaired : holds true "foo offset [1m, 2m]".       Proof. witness_ok. Qed.
Lemma group_modifier_repaired : holds true "a + ignoring() group_left(x) b". Proof. witness_ok. Qed.
Lemma zero_range_repaired : holds true "foo[0s499ms]".               Proof. witness_ok. Qed.
Lemma empty_selector_repaired : holds true "{}".                     Proof. witness_ok. Qed.
Lemma pos_inf_repaired : holds true "Inf ^ 2".                       Proof. witness_ok. Qed.
