(* C28 — the printer as it is in the source (print false) coincides with the repaired printer (print true) on every
   tree that contains none of the shapes of the recorded findings F-C28a..g. *)
From Coq Require Import ZArith List Bool String Ascii Lia.
From SH Require Import PromParse.Syntax Gen.PromParse PromParse.Lexer PromParse.Parser PromParse.Printer PromParse.Wf
  PromParse.ProofsC.
Import ListNotations.
Open Scope Z_scope.

Definition pos_inf (n : num) : bool := negb (n_neg n) && match n_mag n with MInf => true | _ => false end.
(* F-C28c (offset list) and F-C28f (selector that prints as the empty string) *)
Definition vs_free (v : vsel) : bool :=
  (match vs_offset_ex v with [] => true | _ => false end) && nonempty (print_sel_head v).
(* F-C28d: group_left/group_right after an empty ignoring() *)
Definition vm_free (vm : vmatch) : bool :=
  negb ((match vm_card vm with COneToOne => false | _ => true end) &&
        (match vm_labels vm with [] => true | _ => false end) && negb (vm_on vm)).

(* no shape of a recorded finding occurs in the tree (F-C28g conservatively: no positive-infinity literal at all;
   the defect itself only concerns such a literal as left operand of ^ or operand of a subquery) *)
Fixpoint finding_free (e : expr) : bool :=
  match e with
  | ENum n => negb (pos_inf n)                                   (* F-C28g *)
  | EStr _ => true
  | EVec v => vs_free v && (vs_offset v =? 0)                    (* F-C28a: instant selector with an offset *)
  | EMatrix v r => vs_free v && negb (r =? 0)                    (* F-C28e: range of zero seconds *)
  | ESub _ _ _ _ _ => false                                      (* F-C28b: subquery *)
  | EParen x => finding_free x
  | EUnary _ x => finding_free x
  | EBin _ l r _ vm => finding_free l && finding_free r && vm_free vm
  | ECall _ args => forallb finding_free args
  | EAgg _ x p _ _ => finding_free x && match p with Some q => finding_free q | None => true end
  end.

Lemma sapp_assoc (a b c : string) : ((a ++ b) ++ c = a ++ (b ++ c))%string.
Proof. induction a; simpl; [reflexivity | now rewrite IHa]. Qed.

Lemma dur_fx_sdec n : n <> 0 -> dur_fx n = (sdec n ++ "s")%string.
Proof.
  intro H. unfold dur_fx, sdec. apply Z.eqb_neq in H. rewrite H. destruct (n <? 0); reflexivity.
Qed.

Lemma print_vec_same v : vs_free v = true -> vs_offset v = 0 -> print_vec false v = print_vec true v.
Proof.
  unfold vs_free, print_vec, print_offsets_fx. intros H Ho. apply andb_true_iff in H as [Hx Hh].
  rewrite Hh, Ho. destruct (vs_offset_ex v); [|discriminate]. reflexivity.
Qed.

Lemma print_matrix_same v r : vs_free v = true -> r <> 0 -> print_matrix false v r = print_matrix true v r.
Proof.
  unfold vs_free, print_matrix, print_offsets_fx. intros H Hr. apply andb_true_iff in H as [Hx Hh].
  rewrite Hh. destruct (vs_offset_ex v); [|discriminate]. rewrite (dur_fx_sdec r Hr). simpl andb. cbv iota.
  destruct (vs_offset v =? 0) eqn:E.
  - rewrite !sapp_assoc. reflexivity.
  - apply Z.eqb_neq in E. rewrite (dur_fx_sdec _ E). rewrite !sapp_assoc. reflexivity.
Qed.

Lemma print_matching_same vm : vm_free vm = true -> print_matching false vm = print_matching true vm.
Proof.
  unfold vm_free, print_matching. destruct vm as [c ls on inc]. simpl.
  destruct c, ls, on; simpl; try discriminate; reflexivity.
Qed.

Theorem faithful_is_repaired e : finding_free e = true -> print false e = print true e.
Proof.
  induction e using expr_ind2; cbn [finding_free print]; intro F.
  - unfold print_num, pos_inf in *. destruct n as [ng g]. simpl in *. destruct g; try reflexivity.
    destruct ng; [reflexivity | discriminate].
  - reflexivity.
  - apply andb_true_iff in F as [F1 F2]. apply Z.eqb_eq in F2. apply print_vec_same; assumption.
  - apply andb_true_iff in F as [F1 F2]. apply negb_true_iff in F2. apply Z.eqb_neq in F2. apply print_matrix_same; assumption.
  - discriminate.
  - rewrite IHe by assumption. reflexivity.
  - rewrite IHe by assumption. reflexivity.
  - apply andb_true_iff in F as [F Fv]. apply andb_true_iff in F as [Fl Fr].
    rewrite IHe1, IHe2, (print_matching_same vm) by assumption. reflexivity.
  - f_equal. f_equal. f_equal. f_equal. apply map_ext_in. intros a Ha. rewrite Forall_forall in H. rewrite forallb_forall in F. auto.
  - apply andb_true_iff in F as [Fx Fp]. rewrite IHe by assumption.
    destruct p as [q|]; [rewrite (H q eq_refl) by assumption|]; reflexivity.
Qed.
