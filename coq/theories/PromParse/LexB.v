(* C28 — string level: segments of printed text and the token sequences they scan to. *)
From Coq Require Import ZArith List Bool String Ascii Lia.
From SH Require Import PromParse.Syntax Gen.PromParse PromParse.Lexer PromParse.Parser PromParse.Printer PromParse.LexA.
Import ListNotations.
Open Scope string_scope.
Open Scope Z_scope.

(* scanner state: braceOpen, bracketOpen, gotColon, parenDepth *)
Definition lst := (bool * bool * bool * Z)%type.
Definition run (F : nat) (st : lst) (s : string) : option (list tok) :=
  let '(br, bk, gc, pd) := st in lex_go F br bk gc pd s.

(* the text scans to the tokens ts, taking the scanner from st to st', whenever what follows satisfies R *)
Definition Seg (st : lst) (txt : string) (ts : list tok) (st' : lst) (R : string -> Prop) : Prop :=
  exists k, (k <= String.length txt)%nat /\
            forall F rest, R rest -> run (k + F) st (txt ++ rest) = pre ts (run F st' rest).

Definition anyr (_ : string) : Prop := True.

Lemma seg_nil st R : Seg st "" [] st R.
Proof. exists 0%nat. split; [simpl; lia|]. intros F rest _. simpl. rewrite pre_nil. reflexivity. Qed.

Lemma seg_app st1 st2 st3 a b ta tb Ra Rb :
  Seg st1 a ta st2 Ra -> Seg st2 b tb st3 Rb -> (forall rest, Rb rest -> Ra (b ++ rest)) ->
  Seg st1 (a ++ b) (ta ++ tb)%list st3 Rb.
Proof.
  intros (k1 & L1 & H1) (k2 & L2 & H2) HR. exists (k1 + k2)%nat. split; [rewrite slen_app; lia|].
  intros F rest Hr. rewrite sapp_assoc. rewrite <- Nat.add_assoc. rewrite H1 by (apply HR; assumption).
  rewrite H2 by assumption. apply pre_pre.
Qed.

Lemma seg_weaken st txt ts st' (R R' : string -> Prop) :
  Seg st txt ts st' R -> (forall rest, R' rest -> R rest) -> Seg st txt ts st' R'.
Proof. intros (k & L & H) HR. exists k. split; [assumption|]. intros F rest Hr. apply H. auto. Qed.

Lemma seg1 st txt ts st' (R : string -> Prop) :
  (1 <= String.length txt)%nat ->
  (forall F rest, R rest -> run (S F) st (txt ++ rest) = pre ts (run F st' rest)) -> Seg st txt ts st' R.
Proof. intros L H. exists 1%nat. split; [assumption|]. intros F rest Hr. apply H. assumption. Qed.

(* ---------- literal pieces (by computation) *)
Lemma seg_space st : Seg st " " [] st anyr.
Proof. destruct st as [[[br bk] gc] pd]. apply seg1; [simpl; lia|]. intros F rest _. simpl run. rewrite pre_nil. reflexivity. Qed.

Ltac lit1 := let F := fresh in let rest := fresh in
  apply seg1; [simpl; lia | intros F rest _; simpl run; cbn [append]; cbn [lex_go]; cbv; fold lex_go; try reflexivity].

Lemma seg_lparen bk gc pd : Seg (false, bk, gc, pd) "(" [TLParen] (false, bk, gc, pd + 1) anyr.
Proof. apply seg1; [simpl; lia|]. intros F rest _. simpl run. cbn [append lex_go]. destruct (lex_go F false bk gc (pd + 1) rest); reflexivity. Qed.
Lemma seg_rparen bk gc pd : 0 <= pd -> Seg (false, bk, gc, pd + 1) ")" [TRParen] (false, bk, gc, pd) anyr.
Proof.
  intro H. apply seg1; [simpl; lia|]. intros F rest _. simpl run. cbn [append lex_go].
  change (ceq 35 ")"%char) with false. change (is_space ")"%char) with false. cbv iota.
  replace (pd + 1 - 1) with pd by lia.
  assert (E : (pd <? 0) = false) by (apply Z.ltb_ge; lia).
  cbn. rewrite E. destruct (lex_go F false bk gc pd rest); reflexivity.
Qed.
Lemma seg_comma br bk gc pd : Seg (br, bk, gc, pd) "," [TComma] (br, bk, gc, pd) anyr.
Proof. apply seg1; [simpl; lia|]. intros F rest _. simpl run. destruct br; cbn [append lex_go]; destruct (lex_go F _ bk gc pd rest); reflexivity. Qed.
Lemma seg_lbrace bk gc pd : Seg (false, bk, gc, pd) "{" [TLBrace] (true, bk, gc, pd) anyr.
Proof. apply seg1; [simpl; lia|]. intros F rest _. simpl run. cbn [append lex_go]. destruct (lex_go F true bk gc pd rest); reflexivity. Qed.
Lemma seg_rbrace bk gc pd : Seg (true, bk, gc, pd) "}" [TRBrace] (false, bk, gc, pd) anyr.
Proof. apply seg1; [simpl; lia|]. intros F rest _. simpl run. cbn [append lex_go]. destruct (lex_go F false bk gc pd rest); reflexivity. Qed.
Lemma seg_rbracket gc pd : Seg (false, true, gc, pd) "]" [TRBracket] (false, false, gc, pd) anyr.
Proof. apply seg1; [simpl; lia|]. intros F rest _. simpl run. cbn [append lex_go]. destruct (lex_go F false false gc pd rest); reflexivity. Qed.
Lemma seg_colon pd : Seg (false, true, false, pd) ":" [TColon] (false, true, true, pd) anyr.
Proof. apply seg1; [simpl; lia|]. intros F rest _. simpl run. cbn [append lex_go]. destruct (lex_go F false true true pd rest); reflexivity. Qed.
Lemma seg_at bk gc pd : Seg (false, bk, gc, pd) "@" [TAt] (false, bk, gc, pd) anyr.
Proof. apply seg1; [simpl; lia|]. intros F rest _. simpl run. cbn [append lex_go]. destruct (lex_go F false bk gc pd rest); reflexivity. Qed.
Lemma seg_minus bk gc pd : Seg (false, bk, gc, pd) "-" [TOp OSub "-"] (false, bk, gc, pd) anyr.
Proof. apply seg1; [simpl; lia|]. intros F rest _. simpl run. cbn [append lex_go]. destruct (lex_go F false bk gc pd rest); reflexivity. Qed.
Lemma seg_plus bk gc pd : Seg (false, bk, gc, pd) "+" [TOp OAdd "+"] (false, bk, gc, pd) anyr.
Proof. apply seg1; [simpl; lia|]. intros F rest _. simpl run. cbn [append lex_go]. destruct (lex_go F false bk gc pd rest); reflexivity. Qed.

(* what follows starts with a space *)
Definition spacer (rest : string) : Prop := exists r, rest = String " "%char r.

(* a binary operator's spelling (always followed by a space in printed text) *)
Lemma seg_binop o gc pd : Seg (false, false, gc, pd) (binop_str o) [TOp o (binop_str o)] (false, false, gc, pd) spacer.
Proof.
  apply seg1; [destruct o; simpl; lia|]. intros F rest [r ->]. simpl run.
  destruct o; cbn [binop_str append lex_go]; try (destruct (lex_go F false false gc pd _); reflexivity);
    cbn; destruct (lex_go F false false gc pd _); reflexivity.
Qed.
