(* C28 — string level: the main induction: print true e scans to toks e. *)
From Coq Require Import ZArith List Bool String Ascii Lia.
From SH Require Import PromParse.Syntax Gen.PromParse PromParse.Lexer PromParse.Parser PromParse.Printer
  PromParse.Wf PromParse.ProofsA PromParse.ProofsC PromParse.LexA PromParse.LexB PromParse.LexC PromParse.LexD PromParse.LexE.
Import ListNotations.
Open Scope string_scope.
Open Scope Z_scope.

Definition vs_s (v : vsel) : Prop :=
  name_s (vs_name v) /\ Forall matcher_s (printed_matchers v) /\ at_s (vs_at v) /\ offs_s (vs_offset_ex v) (vs_offset v).

(* lexical well-formedness: names, labels and matcher names are words, the function name is an identifier, and
   every number / timestamp / duration is one whose printed text scans back (LexNum.v gives the domains) *)
Fixpoint wfs (e : expr) : Prop :=
  match e with
  | ENum n => num_rt n
  | EStr _ => True
  | EVec v => vs_s v
  | EMatrix v r => vs_s v /\ 0 <= r /\ durb_rt r
  | ESub x r st off a => wfs x /\ 0 <= r /\ durb_rt r /\ at_s a /\ (off <> 0 -> dur_rt off)
  | EParen x => wfs x
  | EUnary _ x => wfs x
  | EBin _ l r _ vm => wfs l /\ wfs r /\ labels_s (vm_labels vm) /\ labels_s (vm_include vm)
  | ECall f args =>
      wordlike f /\ word_tok f = TIdent f /\
      (fix all (l : list expr) : Prop := match l with [] => True | a :: l' => wfs a /\ all l' end) args
  | EAgg a x p grp _ => wfs x /\ match p with Some q => wfs q | None => True end /\ labels_s grp
  end.

Definition Lx (e : expr) : Prop :=
  forall gc pd, 0 <= pd ->
  exists gc', Seg (false, false, gc, pd) (print true e) (toks e) (false, false, gc', pd) term.

Lemma term_lbracket r : term (String "["%char r). Proof. reflexivity. Qed.
Lemma offs_head ex off rest : term rest ->
  term (((match ex with [] => "" | d :: l => " offset [" ++ join ", " (map dur_fx (d :: l)) ++ "]" end) ++
        (if off =? 0 then "" else " offset " ++ dur_fx off)) ++ rest).
Proof. intro H. destruct ex; [destruct (off =? 0); [exact H | reflexivity] | reflexivity]. Qed.
Lemma if_negb (b : bool) (x y : string) : (if negb b then x else y) = (if b then y else x).
Proof. destruct b; reflexivity. Qed.
Lemma toks_dur_nonneg r : 0 <= r -> toks_dur r = [TDur r].
Proof. intro H. unfold toks_dur. assert (E : (r <? 0) = false) by (apply Z.ltb_ge; lia). rewrite E. reflexivity. Qed.

Lemma Lx_vec v : vs_s v -> Lx (EVec v).
Proof.
  intros (Hn & Hm & Ha & Ho) gc pd Hpd.
  destruct (seg_offsets (vs_offset_ex v) (vs_offset v) gc pd Ho) as [gc' So].
  exists gc'. cbn [print toks]. unfold print_vec, print_offsets_fx, toks_offsets. cbn [andb]. rewrite if_negb.
  eapply seg_app; [apply seg_sel_head; assumption | | ].
  - eapply seg_app; [apply seg_pat; assumption | apply So |].
    intros r Hr. apply offs_head. assumption.
  - intros r Hr. apply term_wordc. rewrite sapp_assoc. apply pat_head. apply offs_head. assumption.
Qed.

Lemma Lx_matrix v r : vs_s v -> 0 <= r -> durb_rt r -> Lx (EMatrix v r).
Proof.
  intros (Hn & Hm & Ha & Ho) Hr Hb gc pd Hpd.
  destruct (seg_offsets (vs_offset_ex v) (vs_offset v) false pd Ho) as [gc' So].
  exists gc'. cbn [print toks]. unfold print_matrix, print_offsets_fx, toks_offsets. cbn [andb]. rewrite if_negb.
  eapply seg_app; [apply seg_sel_head; assumption | | intros; reflexivity].
  replace ("[" ++ dur_fx r ++ "]" ++ print_at (vs_at v) ++
           (match vs_offset_ex v with [] => "" | d :: l => " offset [" ++ join ", " (map dur_fx (d :: l)) ++ "]" end) ++
           (if vs_offset v =? 0 then "" else " offset " ++ dur_fx (vs_offset v)))
    with (("[" ++ dur_fx r) ++ "]" ++ print_at (vs_at v) ++
           (match vs_offset_ex v with [] => "" | d :: l => " offset [" ++ join ", " (map dur_fx (d :: l)) ++ "]" end) ++
           (if vs_offset v =? 0 then "" else " offset " ++ dur_fx (vs_offset v)))
    by (rewrite !sapp_assoc; reflexivity).
  change ([TLBracket; TDur r; TRBracket] ++ ?x)%list with ((TLBracket :: [TDur r]) ++ [TRBracket] ++ x)%list.
  rewrite <- (toks_dur_nonneg r Hr).
  eapply seg_app; [apply Hb | | intros; reflexivity].
  eapply seg_app; [apply seg_rbracket | | side].
  eapply seg_app; [apply seg_pat; assumption | apply So |].
  intros r0 Hr0. apply offs_head. assumption.
Qed.

Lemma seg_step_close st pd :
  exists gc', Seg (false, true, false, pd) ((if st =? 0 then "" else ":1s") ++ "]")
                  ((if st =? 0 then [] else [TColon; TDur 1]) ++ [TRBracket])%list (false, false, gc', pd) anyr.
Proof.
  destruct (st =? 0).
  - exists false. apply seg_rbracket.
  - exists true. exists 3%nat. split; [simpl; lia|]. intros F rest _. simpl run. cbn.
    destruct (lex_go F false false true pd rest); reflexivity.
Qed.

Lemma Lx_sub x r st off a : Lx x -> 0 <= r -> durb_rt r -> at_s a -> (off <> 0 -> dur_rt off) -> Lx (ESub x r st off a).
Proof.
  intros Hx Hr Hb Ha Ho gc pd Hpd.
  destruct (Hx gc pd Hpd) as [g1 Sx].
  destruct (seg_step_close st pd) as [g2 Sc].
  assert (Hoffs : offs_s [] off) by (split; [constructor | split; [exact I | assumption]]).
  destruct (seg_offsets [] off g2 pd Hoffs) as [g3 So].
  exists g3. cbn [print toks]. unfold print_sub_suffix. cbn iota.
  rewrite !sapp_assoc. rewrite <- (sapp_assoc "[" (dur_fx r)).
  change ([TLBracket; TDur r] ++ ?y)%list with ((TLBracket :: [TDur r]) ++ y)%list.
  rewrite <- (toks_dur_nonneg r Hr).
  eapply seg_app; [apply Sx | | intros; reflexivity].
  eapply seg_app; [apply Hb | | intros r0 _; destruct (st =? 0); reflexivity].
  rewrite <- sapp_assoc. rewrite app_assoc.
  eapply seg_app; [apply Sc | | side].
  eapply seg_app; [apply seg_pat; assumption | apply So |].
  intros r0 Hr0. apply (offs_head [] off). assumption.
Qed.

Lemma Lx_paren x : Lx x -> Lx (EParen x).
Proof.
  intros Hx gc pd Hpd. destruct (Hx gc (pd + 1) ltac:(lia)) as [g1 Sx]. exists g1.
  cbn [print toks]. change (TLParen :: toks x ++ [TRParen])%list with ([TLParen] ++ toks x ++ [TRParen])%list.
  eapply seg_app; [apply seg_lparen | | side].
  eapply seg_app; [apply Sx | eapply seg_weaken; [apply seg_rparen; assumption | intros ? ?; exact I] | intros; reflexivity].
Qed.

Lemma Lx_unary ng x : Lx x -> Lx (EUnary ng x).
Proof.
  intros Hx gc pd Hpd. destruct (Hx gc pd Hpd) as [g1 Sx]. exists g1. cbn [print toks].
  destruct ng.
  - change (TOp OSub "-" :: toks x) with ([TOp OSub "-"] ++ toks x)%list. eapply seg_app; [apply seg_minus | apply Sx | side].
  - change (TOp OAdd "+" :: toks x) with ([TOp OAdd "+"] ++ toks x)%list. eapply seg_app; [apply seg_plus | apply Sx | side].
Qed.

Lemma matching_head vm X : spacer (print_matching true vm ++ " " ++ X).
Proof.
  unfold print_matching.
  destruct ((match vm_labels vm with [] => false | _ => true end) || vm_on vm || true && match vm_card vm with COneToOne => false | _ => true end);
    eexists; reflexivity.
Qed.

Lemma Lx_bin o l r b vm : Lx l -> Lx r -> labels_s (vm_labels vm) -> labels_s (vm_include vm) -> Lx (EBin o l r b vm).
Proof.
  intros Hl Hr Hls Hin gc pd Hpd.
  destruct (Hl gc pd Hpd) as [g1 Sl]. destruct (Hr g1 pd Hpd) as [g2 Sr]. exists g2. cbn [print toks].
  change (toks l ++ [TOp o (binop_str o)] ++ (if b then [TKw KBool "bool"] else []) ++ toks_matching vm ++ toks r)%list
    with (toks l ++ [] ++ [TOp o (binop_str o)] ++ (if b then [TKw KBool "bool"] else []) ++ toks_matching vm ++ [] ++ toks r)%list.
  eapply seg_app; [apply Sl | | intros; reflexivity].
  eapply seg_app; [apply seg_space | | side].
  eapply seg_app; [apply seg_binop | |].
  2:{ intros r0 _. destruct b; [eexists; reflexivity | cbn [append]; rewrite !sapp_assoc; apply matching_head]. }
  eapply seg_app.
  - (* bool *)
    instantiate (1 := spacer). instantiate (1 := (false, false, g1, pd)). destruct b.
    + change " bool" with (" " ++ "bool"). change [TKw KBool "bool"] with ([] ++ [TKw KBool "bool"])%list.
      eapply seg_app; [apply seg_space | | side].
      eapply seg_weaken; [apply (seg_kw "bool"); [simpl; auto | reflexivity] |]. intros r0 [r1 ->]. reflexivity.
    + apply seg_nil.
  - eapply seg_app; [apply seg_matching; assumption | | side].
    eapply seg_app; [apply seg_space | apply Sr | side].
  - intros r0 _. rewrite !sapp_assoc. apply matching_head.
Qed.

(* ---------- argument lists *)
Lemma seg_args_tail l pd : Forall Lx l -> 0 <= pd -> forall gc,
  exists gc', Seg (false, false, gc, pd + 1) (jtail ", " (map (print true) l) ++ ")")
                  (tailf TComma toks l ++ [TRParen])%list (false, false, gc', pd) anyr.
Proof.
  intros H Hpd. induction l as [|a l IH]; intro gc.
  - exists gc. apply seg_rparen. assumption.
  - inversion H as [|? ? Ha Hl]; subst. destruct (Ha gc (pd + 1) ltac:(lia)) as [g1 Sa].
    destruct (IH Hl g1) as [g2 St]. exists g2.
    cbn [map jtail fold_right]. fold (jtail ", " (map (print true) l)).
    unfold tailf. cbn [flat_map]. fold (tailf TComma toks l). rewrite !sapp_assoc.
    change (", " ++ print true a ++ jtail ", " (map (print true) l) ++ ")")
      with ("," ++ " " ++ print true a ++ jtail ", " (map (print true) l) ++ ")").
    change ((TComma :: toks a) ++ tailf TComma toks l)%list with ([TComma] ++ toks a ++ tailf TComma toks l)%list.
    rewrite <- !app_assoc.
    eapply seg_app; [apply seg_comma | | side].
    change (toks a ++ tailf TComma toks l ++ [TRParen])%list with ([] ++ toks a ++ tailf TComma toks l ++ [TRParen])%list.
    eapply seg_app; [apply seg_space | | side].
    eapply seg_app; [apply Sa | apply St |].
    intros r _. destruct l; reflexivity.
Qed.

Lemma seg_arglist args pd : Forall Lx args -> 0 <= pd -> forall gc,
  exists gc', Seg (false, false, gc, pd) ("(" ++ join ", " (map (print true) args) ++ ")")
                  (TLParen :: sep_by [TComma] (map toks args) ++ [TRParen])%list (false, false, gc', pd) anyr.
Proof.
  intros H Hpd gc. destruct args as [|a l].
  - exists gc. cbn [map join sep_by]. change ("(" ++ "" ++ ")") with ("(" ++ ")").
    change (TLParen :: [] ++ [TRParen])%list with ([TLParen] ++ [TRParen])%list.
    eapply seg_app; [apply seg_lparen | apply seg_rparen; assumption | side].
  - inversion H as [|? ? Ha Hl]; subst. destruct (Ha gc (pd + 1) ltac:(lia)) as [g1 Sa].
    destruct (seg_args_tail l pd Hl Hpd g1) as [g2 St]. exists g2.
    cbn [map]. rewrite join_jtail. change (toks a :: map toks l) with (map toks (a :: l)). rewrite sep_by_map.
    rewrite !sapp_assoc. rewrite <- !app_assoc.
    change (TLParen :: toks a ++ tailf TComma toks l ++ [TRParen])%list with ([TLParen] ++ toks a ++ tailf TComma toks l ++ [TRParen])%list.
    eapply seg_app; [apply seg_lparen | | side].
    eapply seg_app; [apply Sa | apply St |].
    intros r _. destruct l; reflexivity.
Qed.

Lemma Lx_call f args : wordlike f -> word_tok f = TIdent f -> Forall Lx args -> Lx (ECall f args).
Proof.
  intros Hw Ht Ha gc pd Hpd. destruct (seg_arglist args pd Ha Hpd gc) as [g1 S1]. exists g1.
  cbn [print toks]. change (TIdent f :: TLParen :: sep_by [TComma] (map toks args) ++ [TRParen])%list
    with ([TIdent f] ++ TLParen :: sep_by [TComma] (map toks args) ++ [TRParen])%list.
  eapply seg_app; [apply seg_kw; eassumption | eapply seg_weaken; [apply S1 | intros ? ?; exact I] | side].
Qed.

(* ---------- aggregations *)
Lemma aggop_word a : wordlike (aggop_str a) /\ word_tok (aggop_str a) = TAgg a (aggop_str a).
Proof. destruct a; split; try reflexivity; simpl; auto. Qed.

Lemma seg_aggmod w t grp gc pd : wordlike w -> word_tok w = t -> labels_s grp -> 0 <= pd ->
  Seg (false, false, gc, pd) (" " ++ w ++ " (" ++ join ", " grp ++ ") ") (t :: toks_labels grp) (false, false, gc, pd) anyr.
Proof.
  intros Hw Ht Hg Hpd.
  replace (" " ++ w ++ " (" ++ join ", " grp ++ ") ") with (" " ++ w ++ " " ++ ("(" ++ join ", " grp ++ ")") ++ " ")
    by (rewrite !sapp_assoc; reflexivity).
  replace (t :: toks_labels grp) with ([] ++ [t] ++ [] ++ toks_labels grp ++ [])%list by (rewrite app_nil_r; reflexivity).
  eapply seg_app; [apply seg_space | | side].
  eapply seg_app; [apply seg_kw; eassumption | | side].
  eapply seg_app; [apply seg_space | | side].
  eapply seg_app; [apply seg_labels; assumption | apply seg_space | side].
Qed.

Lemma Lx_agg a x p grp wo : Lx x -> (forall q, p = Some q -> Lx q) -> labels_s grp -> Lx (EAgg a x p grp wo).
Proof.
  intros Hx Hp Hg gc pd Hpd. destruct (aggop_word a) as [Wa Ta].
  set (args := match p with Some q => [q; x] | None => [x] end).
  assert (HA : Forall Lx args) by (unfold args; destruct p as [q|]; [constructor; [apply (Hp q eq_refl) | constructor; [assumption | constructor]] | constructor; [assumption | constructor]]).
  destruct (seg_arglist args pd HA Hpd gc) as [g1 S1]. exists g1.
  assert (Body : "(" ++ (match p with Some q => print true q ++ ", " | None => "" end) ++ print true x ++ ")"
                 = "(" ++ join ", " (map (print true) args) ++ ")").
  { unfold args. destruct p; cbn [map join]; rewrite ?sapp_assoc; reflexivity. }
  assert (BodyT : (TLParen :: (match p with Some q => toks q ++ [TComma] | None => [] end) ++ toks x ++ [TRParen])%list
                  = (TLParen :: sep_by [TComma] (map toks args) ++ [TRParen])%list).
  { unfold args. destruct p; cbn [map sep_by]; rewrite <- ?app_assoc; reflexivity. }
  cbn [print toks]. unfold print_aggop. rewrite !sapp_assoc. rewrite Body.
  change (TAgg a (aggop_str a) :: ?m ++ TLParen :: ?y)%list with ([TAgg a (aggop_str a)] ++ m ++ TLParen :: y)%list.
  rewrite BodyT.
  eapply seg_app; [apply seg_kw; eassumption | |].
  2:{ intros r _. destruct wo; [reflexivity | destruct grp; reflexivity]. }
  destruct wo; [|destruct grp as [|g0 gs]].
  - eapply seg_app; [apply (seg_aggmod "without"); [simpl; auto | reflexivity | assumption | assumption] | eapply seg_weaken; [apply S1 | intros ? ?; exact I] | side].
  - cbn [append app]. eapply seg_weaken; [apply S1 | intros ? ?; exact I].
  - eapply seg_app; [apply (seg_aggmod "by"); [simpl; auto | reflexivity | assumption | assumption] | eapply seg_weaken; [apply S1 | intros ? ?; exact I] | side].
Qed.

(* ---------- the theorem *)
Theorem lex_segments e : wfs e -> Lx e.
Proof.
  induction e using expr_ind2; cbn [wfs]; intro W.
  - intros gc pd Hpd. exists gc. eapply seg_weaken; [apply W | apply term_numstop].
  - intros gc pd Hpd. exists gc. cbn [print toks]. eapply seg_weaken; [apply seg_string | intros ? ?; exact I].
  - apply Lx_vec. assumption.
  - destruct W as (W1 & W2 & W3). apply Lx_matrix; assumption.
  - destruct W as (W1 & W2 & W3 & W4 & W5). apply Lx_sub; auto.
  - apply Lx_paren. auto.
  - apply Lx_unary. auto.
  - destruct W as (W1 & W2 & W3 & W4). apply Lx_bin; auto.
  - destruct W as (W1 & W2 & W3). apply Lx_call; try assumption.
    induction args as [|a l IH]; [constructor|]. destruct W3 as [Wa Wl]. inversion H; subst. constructor; auto.
  - destruct W as (W1 & W2 & W3). apply Lx_agg; auto. intros q ->. apply (H q eq_refl). assumption.
Qed.

Theorem lex_print e : wfs e -> lex (print true e) = Some (toks e).
Proof.
  intro W. destruct (lex_segments e W false 0 ltac:(lia)) as (g & k & Lk & H).
  unfold lex. set (n := String.length (print true e)) in *.
  pose proof (H (S n - k)%nat "" I) as H1. rewrite sapp_nil in H1.
  replace (k + (S n - k))%nat with (S n) in H1 by lia.
  unfold run in H1. rewrite H1.
  replace (S n - k)%nat with (S (n - k)) by lia.
  cbn [lex_go]. cbn [pre Z.eqb negb]. rewrite app_nil_r. reflexivity.
Qed.
