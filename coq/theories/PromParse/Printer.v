(* C28 — model of /repo/internal/promql/parser/printer.go (String methods), exact on ASCII strings and on
   decimals of <= 15 significant digits. The model is DUAL: [fx = false] is the printer as it is in the source
   (findings F-C28a..e), [fx = true] the repaired variant about which the round-trip theorem is proved.
   Also the token-level printer [toks] (what the text lexes to). Definitions only. *)
From Coq Require Import ZArith List Bool String Ascii.
From SH Require Import PromParse.Syntax Gen.PromParse PromParse.Lexer PromParse.Parser.
Import ListNotations.
Open Scope string_scope.
Open Scope Z_scope.

(* ---------- integers / floats *)
Fixpoint digits_go (fuel : nat) (n : Z) (acc : string) : string :=
  match fuel with
  | O => acc
  | S f => let acc' := String (n2c (48 + n mod 10)) acc in if n / 10 =? 0 then acc' else digits_go f (n / 10) acc'
  end.
Definition udec (n : Z) : string := digits_go (Z.to_nat (ndigits n) + 1) n EmptyString.    (* n >= 0 *)
Definition sdec (n : Z) : string := if n <? 0 then "-" ++ udec (- n) else udec n.          (* %d *)
Fixpoint zeros (n : nat) : string := match n with O => EmptyString | S k => String "0" (zeros k) end.
Fixpoint stake (n : nat) (s : string) : string :=
  match n, s with S k, String c s' => String c (stake k s') | _, _ => EmptyString end.
Fixpoint sdrop (n : nat) (s : string) : string :=
  match n, s with S k, String _ s' => sdrop k s' | _, _ => s end.

(* fmt.Sprint(float64) = strconv.FormatFloat(v, 'g', -1, 64): shortest digits d1..dn with decimal point position dp;
   %e form when dp-1 < -4 or dp-1 >= 6 (strconv: "if shortest { eprec = 6 }"), else %f form. Observed on the toolchain
   in use: 100000 -> "100000", 1000000 -> "1e+06", 123456789 -> "1.23456789e+08", 0.0001 -> "0.0001", 0.00001 -> "1e-05". *)
Definition print_dec (m e : Z) : string :=
  if m =? 0 then "0" else
  let ds := udec m in
  let nd := slen ds in
  let dp := nd + e in
  let x := dp - 1 in
  if (x <? -4) || (6 <=? x) then
    let frac := sdrop 1 ds in
    stake 1 ds ++ (if nonempty frac then "." ++ frac else "") ++ "e" ++ (if x <? 0 then "-" else "+") ++
    (if Z.abs x <? 10 then "0" else "") ++ udec (Z.abs x)
  else if dp <=? 0 then "0." ++ zeros (Z.to_nat (- dp)) ++ ds
  else if nd <=? dp then ds ++ zeros (Z.to_nat (dp - nd))
  else stake (Z.to_nat dp) ds ++ "." ++ sdrop (Z.to_nat dp) ds.
(* fmt.Sprint(+Inf) = "+Inf" (finding F-C28g: the sign is parsed back as a unary operator); repaired: "Inf" *)
Definition print_num (fx : bool) (n : num) : string :=
  match n_mag n with
  | MInf => if n_neg n then "-Inf" else if fx then "Inf" else "+Inf"
  | MNaN => "NaN"
  | MDec m e => (if n_neg n then "-" else "") ++ print_dec m e
  end.
(* "%.3f" of ms/1000 *)
Definition print_ms (ms : Z) : string :=
  let a := Z.abs ms in
  let f := udec (a mod 1000) in
  (if ms <? 0 then "-" else "") ++ udec (a / 1000) ++ "." ++ zeros (3 - String.length f) ++ f.

(* ---------- strconv.Quote on ASCII (bytes >= 0x80 are printed \xNN: exact only for invalid UTF-8) *)
Definition hexdig (n : Z) : ascii := if n <? 10 then n2c (48 + n) else n2c (87 + n).
Definition quote_char (c : ascii) : string :=
  let n := c2n c in
  if n =? 34 then "\""" else if n =? 92 then "\\"
  else if n =? 7 then "\a" else if n =? 8 then "\b" else if n =? 12 then "\f" else if n =? 10 then "\n"
  else if n =? 13 then "\r" else if n =? 9 then "\t" else if n =? 11 then "\v"
  else if (n <? 32) || (127 <=? n) then "\x" ++ String (hexdig (n / 16)) (String (hexdig (n mod 16)) EmptyString)
  else String c EmptyString.
Fixpoint quote_body (s : string) : string :=
  match s with EmptyString => EmptyString | String c s' => quote_char c ++ quote_body s' end.
Definition quote (s : string) : string := """" ++ quote_body s ++ """".

Fixpoint join (sep : string) (l : list string) : string :=
  match l with [] => "" | [x] => x | x :: l' => x ++ sep ++ join sep l' end.

(* ---------- sort.Strings: byte-wise lexicographic insertion sort (any sorting algorithm gives the same list) *)
Fixpoint sleb (a b : string) : bool :=
  match a, b with
  | EmptyString, _ => true
  | String _ _, EmptyString => false
  | String x a', String y b' => if c2n x <? c2n y then true else if c2n y <? c2n x then false else sleb a' b'
  end.
Fixpoint sinsert {A} (key : A -> string) (x : A) (l : list A) : list A :=
  match l with [] => [x] | y :: l' => if sleb (key x) (key y) then x :: l else y :: sinsert key x l' end.
Fixpoint ssort {A} (key : A -> string) (l : list A) : list A :=
  match l with [] => [] | x :: l' => sinsert key x (ssort key l') end.

Definition mtype_str (t : mtype) : string := match t with MEq => "=" | MNe => "!=" | MRe => "=~" | MNre => "!~" end.
Definition print_matcher (m : matcher) : string := m_name m ++ mtype_str (m_type m) ++ quote (m_value m).
Definition is_name_matcher (name : string) (m : matcher) : bool :=
  String.eqb (m_name m) "__name__" && (match m_type m with MEq => true | _ => false end) && String.eqb (m_value m) name.
(* the matchers VectorSelector.String prints, in the order it prints them *)
Definition printed_matchers (v : vsel) : list matcher :=
  ssort print_matcher (filter (fun m => negb (is_name_matcher (vs_name v) m)) (vs_matchers v)).

Definition print_at (a : atmod) : string :=
  match a with AtNone => "" | AtTs ms => " @ " ++ print_ms ms | AtStart => " @ start()" | AtEnd => " @ end()" end.
(* repaired duration text: seconds with a unit; 0 (a sub-half-second duration) as "0s1ms" *)
Definition dur_fx (n : Z) : string := if n =? 0 then "0s1ms" else if n <? 0 then "-" ++ udec (- n) ++ "s" else udec n ++ "s".

Definition print_sel_head (v : vsel) : string :=
  let ms := printed_matchers v in
  vs_name v ++ match ms with [] => "" | _ => "{" ++ join "," (map print_matcher ms) ++ "}" end.
Definition print_offsets_fx (v : vsel) : string :=
  (match vs_offset_ex v with [] => "" | l => " offset [" ++ join ", " (map dur_fx l) ++ "]" end) ++
  (if vs_offset v =? 0 then "" else " offset " ++ dur_fx (vs_offset v)).
(* fx: an empty selector text (Name = "" and nothing printed) is written "{}" *)
Definition print_vec (fx : bool) (v : vsel) : string :=
  let h := print_sel_head v in
  (if fx && negb (nonempty h) then "{}" else h) ++ print_at (vs_at v) ++
  (if fx then print_offsets_fx v else if vs_offset v =? 0 then "" else " offset " ++ sdec (vs_offset v)).
Definition print_matrix (fx : bool) (v : vsel) (r : Z) : string :=
  let h := print_sel_head v in
  (if fx && negb (nonempty h) then "{}" else h) ++
  "[" ++ (if fx then dur_fx r else sdec r ++ "s") ++ "]" ++ print_at (vs_at v) ++
  (if fx then print_offsets_fx v else if vs_offset v =? 0 then "" else " offset " ++ sdec (vs_offset v) ++ "s").
Definition print_sub_suffix (fx : bool) (r st off : Z) (a : atmod) : string :=
  (if fx then "[" ++ dur_fx r ++ (if st =? 0 then "" else ":1s") ++ "]" else "[" ++ sdec r ++ ":" ++ sdec st ++ "]") ++
  print_at a ++
  (if off =? 0 then "" else " offset " ++ (if fx then dur_fx off else sdec off)).

Definition print_matching (fx : bool) (vm : vmatch) : string :=
  let carded := match vm_card vm with COneToOne => false | _ => true end in
  if (match vm_labels vm with [] => false | _ => true end) || vm_on vm || (fx && carded) then
    " " ++ (if vm_on vm then "on" else "ignoring") ++ " (" ++ join ", " (vm_labels vm) ++ ")" ++
    match vm_card vm with
    | COneToOne => ""
    | CManyToOne => " group_left (" ++ join ", " (vm_include vm) ++ ")"
    | COneToMany => " group_right (" ++ join ", " (vm_include vm) ++ ")"
    end
  else "".
Definition print_aggop (a : aggop) (grp : list string) (wo : bool) : string :=
  aggop_str a ++
  (if wo then " without (" ++ join ", " grp ++ ") "
   else match grp with [] => "" | _ => " by (" ++ join ", " grp ++ ") " end).

Fixpoint print (fx : bool) (e : expr) : string :=
  match e with
  | ENum n => print_num fx n
  | EStr s => quote s
  | EVec v => print_vec fx v
  | EMatrix v r => print_matrix fx v r
  | ESub x r st off a => print fx x ++ print_sub_suffix fx r st off a
  | EParen x => "(" ++ print fx x ++ ")"
  | EUnary neg x => (if neg then "-" else "+") ++ print fx x
  | EBin o l r b vm => print fx l ++ " " ++ binop_str o ++ (if b then " bool" else "") ++ print_matching fx vm ++ " " ++ print fx r
  | ECall f args => f ++ "(" ++ join ", " (map (print fx) args) ++ ")"
  | EAgg a x p grp wo =>
      print_aggop a grp wo ++ "(" ++ (match p with Some q => print fx q ++ ", " | None => "" end) ++ print fx x ++ ")"
  end.

(* ---------- token-level printer of the repaired variant: what [print true e] lexes to *)
(* what a grouping label / metric name lexes to outside braces *)
Definition name_tok (w : string) : tok :=
  match w with
  | String c s' => if starts_number c s' then let '(p, _, _) := scan_number w in TNum w (number_val p) else word_tok w
  | EmptyString => TIdent w
  end.
Fixpoint sep_by {A} (sep : list A) (l : list (list A)) : list A :=
  match l with [] => [] | [x] => x | x :: l' => x ++ sep ++ sep_by sep l' end.
Definition toks_labels (l : list string) : list tok := TLParen :: sep_by [TComma] (map (fun w => [name_tok w]) l) ++ [TRParen].
Definition mtype_tok (t : mtype) : tok := match t with MEq => TEql | MNe => TOp ONeq "!=" | MRe => TEqlRegex | MNre => TNeqRegex end.
Definition toks_matcher (m : matcher) : list tok := [TIdent (m_name m); mtype_tok (m_type m); TStr (m_value m)].
Definition toks_dur (n : Z) : list tok := if n <? 0 then [TOp OSub "-"; TDur (- n)] else [TDur n].
Definition toks_num_abs (g : mag) : tok :=
  match g with MInf => TNum "Inf" (Some MInf) | MNaN => TNum "NaN" (Some MNaN) | MDec m e => TNum (print_dec m e) (Some g) end.
Definition toks_at (a : atmod) : list tok :=
  match a with
  | AtNone => []
  | AtTs ms => TAt :: (if ms <? 0 then [TOp OSub "-"] else []) ++ [TNum (print_ms (Z.abs ms)) (Some (mk_dec (Z.abs ms) (-3)))]
  | AtStart => [TAt; TKw KStart "start"; TLParen; TRParen]
  | AtEnd => [TAt; TKw KEnd "end"; TLParen; TRParen]
  end.
Definition toks_sel_head (v : vsel) : list tok :=
  let ms := printed_matchers v in
  match vs_name v, ms with
  | EmptyString, [] => [TLBrace; TRBrace]
  | EmptyString, _ => TLBrace :: sep_by [TComma] (map toks_matcher ms) ++ [TRBrace]
  | n, [] => [name_tok n]
  | n, _ => name_tok n :: TLBrace :: sep_by [TComma] (map toks_matcher ms) ++ [TRBrace]
  end.
Definition toks_offsets (v : vsel) : list tok :=
  (match vs_offset_ex v with [] => [] | l => TKw KOffset "offset" :: TLBracket :: sep_by [TComma] (map toks_dur l) ++ [TRBracket] end) ++
  (if vs_offset v =? 0 then [] else TKw KOffset "offset" :: toks_dur (vs_offset v)).
Definition toks_matching (vm : vmatch) : list tok :=
  let carded := match vm_card vm with COneToOne => false | _ => true end in
  if (match vm_labels vm with [] => false | _ => true end) || vm_on vm || carded then
    (if vm_on vm then TKw KOn "on" else TKw KIgnoring "ignoring") :: toks_labels (vm_labels vm) ++
    match vm_card vm with
    | COneToOne => []
    | CManyToOne => TKw KGroupLeft "group_left" :: toks_labels (vm_include vm)
    | COneToMany => TKw KGroupRight "group_right" :: toks_labels (vm_include vm)
    end
  else [].

Fixpoint toks (e : expr) : list tok :=
  match e with
  | ENum n =>
      (if n_neg n then [TOp OSub "-"] else []) ++ [toks_num_abs (n_mag n)]
  | EStr s => [TStr s]
  | EVec v => toks_sel_head v ++ toks_at (vs_at v) ++ toks_offsets v
  | EMatrix v r => toks_sel_head v ++ [TLBracket; TDur r; TRBracket] ++ toks_at (vs_at v) ++ toks_offsets v
  | ESub x r st off a =>
      toks x ++ [TLBracket; TDur r] ++ (if st =? 0 then [] else [TColon; TDur 1]) ++ [TRBracket] ++ toks_at a ++
      (if off =? 0 then [] else TKw KOffset "offset" :: toks_dur off)
  | EParen x => TLParen :: toks x ++ [TRParen]
  | EUnary neg x => (if neg then TOp OSub "-" else TOp OAdd "+") :: toks x
  | EBin o l r b vm =>
      toks l ++ [TOp o (binop_str o)] ++ (if b then [TKw KBool "bool"] else []) ++ toks_matching vm ++ toks r
  | ECall f args => TIdent f :: TLParen :: sep_by [TComma] (map toks args) ++ [TRParen]
  | EAgg a x p grp wo =>
      TAgg a (aggop_str a) ::
      (if wo then TKw KWithout "without" :: toks_labels grp
       else match grp with [] => [] | _ => TKw KBy "by" :: toks_labels grp end) ++
      TLParen :: (match p with Some q => toks q ++ [TComma] | None => [] end) ++ toks x ++ [TRParen]
  end.

(* ---------- what parse (print e) is expected to return: matchers in printing order, name matcher last *)
Definition norm_vs (v : vsel) : vsel :=
  mkVS (vs_name v) (printed_matchers v ++ name_matcher (vs_name v)) (vs_offset v) (vs_offset_ex v) (vs_at v).
Fixpoint norm (e : expr) : expr :=
  match e with
  | ENum _ | EStr _ => e
  | EVec v => EVec (norm_vs v)
  | EMatrix v r => EMatrix (norm_vs v) r
  | ESub x r st off a => ESub (norm x) r (if st =? 0 then 0 else 1) off a
  | EParen x => EParen (norm x)
  | EUnary neg x => EUnary neg (norm x)
  | EBin o l r b vm => EBin o (norm l) (norm r) b vm
  | ECall f args => ECall f (map norm args)
  | EAgg a x p grp wo => EAgg a (norm x) (match p with Some q => Some (norm q) | None => None end) grp wo
  end.
