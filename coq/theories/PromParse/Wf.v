(* C28 — the shape of the trees the parser produces (precedence / associativity respected, names and labels
   that lex back to themselves, …) as a boolean predicate, and the measures used by the proofs. Definitions only. *)
From Coq Require Import ZArith List Bool String Ascii.
From SH Require Import PromParse.Syntax Gen.PromParse PromParse.Lexer PromParse.Parser PromParse.Printer.
Import ListNotations.
Open Scope string_scope.
Open Scope Z_scope.

(* printed with a leading sign: -5, -Inf *)
Definition signed (n : num) : bool := n_neg n.
(* the lowest precedence context in which the tree can stand without parentheses *)
Definition lvl (e : expr) : nat := match e with EBin o _ _ _ _ => prec o | _ => 8%nat end.
(* operators of precedence >= cap e that follow the text of e are swallowed by e's right-most operand *)
Definition cap (e : expr) : nat :=
  match e with
  | EBin o _ _ _ _ => rhs_prec o
  | EUnary _ _ => 7%nat
  | ENum n => if signed n then 7%nat else 8%nat
  | _ => 8%nat
  end.
(* primary expressions (possibly with postfix operators) *)
Definition plvl (e : expr) : bool :=
  match e with ENum n => negb (signed n) | EUnary _ _ | EBin _ _ _ _ _ => false | _ => true end.
Definition is_num (e : expr) : bool := match e with ENum _ => true | _ => false end.
Definition is_vec (e : expr) : bool := match e with EVec _ => true | _ => false end.

Definition metric_tok_ok (t : tok) : bool :=
  match t with
  | TIdent _ | TMetric _ => true
  | TAgg a _ => match a with ADbag => false | _ => true end
  | TKw k _ => match k with KBy | KOffset | KWithout | KStart | KEnd => true | _ => false end
  | TOp o _ => match o with OAnd | OOr | OUnless => true | _ => false end
  | _ => false
  end.
Definition name_ok (n : string) : bool := match n with EmptyString => true | _ => metric_tok_ok (name_tok n) end.
Definition label_ok (l : string) : bool :=
  match label_of_tok (name_tok l) with Some l' => String.eqb l' l | None => false end.
Definition at_ok (a : atmod) : bool := match a with AtTs ms => Z.abs ms <? 2 ^ 62 | _ => true end.

Section WF.
  Variable rx_ok : string -> bool.
  Definition matcher_ok (m : matcher) : bool := negb (is_regex (m_type m)) || rx_ok (m_value m).
  Definition vs_ok (v : vsel) : bool :=
    name_ok (vs_name v) && forallb matcher_ok (printed_matchers v) && at_ok (vs_at v).
  Definition vm_ok (vm : vmatch) : bool :=
    forallb label_ok (vm_labels vm) && forallb label_ok (vm_include vm) &&
    match vm_card vm with COneToOne => match vm_include vm with [] => true | _ => false end | _ => true end.

  Fixpoint wf (e : expr) : bool :=
    match e with
    | ENum n => match n_mag n with MNaN => negb (n_neg n) | _ => true end
    | EStr _ => true
    | EVec v => vs_ok v
    | EMatrix v _ => vs_ok v
    | ESub x _ _ _ a => plvl x && negb (is_vec x) && wf x && at_ok a
    | EParen x => wf x
    | EUnary _ x => (7 <=? lvl x)%nat && negb (is_num x) && wf x
    | EBin o l r _ vm =>
        wf l && wf r && vm_ok vm &&
        (match o with OPow => prec o <? lvl l | _ => prec o <=? lvl l end)%nat && (prec o <? cap l)%nat &&
        (rhs_prec o <=? lvl r)%nat
    | ECall f args => (match assoc f functions with Some f' => String.eqb f' f | None => false end) && forallb wf args
    | EAgg a x p grp _ =>
        wf x && forallb label_ok grp &&
        match p with Some q => wf q && agg_with_param a | None => negb (agg_with_param a) end
    end.
End WF.

(* recursion depth of the parser on the printed text (left operands and postfix operands do not nest) *)
Fixpoint height (e : expr) : nat :=
  match e with
  | ENum n => if signed n then 1%nat else 0%nat
  | EStr _ | EVec _ | EMatrix _ _ => 0%nat
  | ESub x _ _ _ _ => height x
  | EParen x => S (height x)
  | EUnary _ x => S (height x)
  | EBin _ l r _ _ => Nat.max (height l) (S (height r))
  | ECall _ args => S (fold_right (fun a m => Nat.max (height a) m) 0%nat args)
  | EAgg _ x p _ _ => S (Nat.max (height x) (match p with Some q => height q | None => 0%nat end))
  end.
(* binary operators on the left spine *)
Fixpoint sl (e : expr) : nat := match e with EBin _ l _ _ _ => S (sl l) | _ => 0%nat end.
(* postfix operator applications in the printed text *)
Definition at_steps (a : atmod) : nat := match a with AtNone => 0%nat | _ => 1%nat end.
Definition off_steps (v : vsel) : nat :=
  Nat.add (match vs_offset_ex v with [] => 0%nat | _ => 1%nat end) (if vs_offset v =? 0 then 0%nat else 1%nat).
Fixpoint psteps (e : expr) : nat :=
  match e with
  | EVec v => (at_steps (vs_at v) + off_steps v)%nat
  | EMatrix v _ => (1 + at_steps (vs_at v) + off_steps v)%nat
  | ESub x _ _ off a => Nat.add (psteps x + 1 + at_steps a)%nat (if off =? 0 then 0%nat else 1%nat)
  | _ => 0%nat
  end.

(* tokens that may follow a complete expression *)
Definition stop_tok (t : tok) : bool := match t with TRParen | TComma | TOp _ _ => true | _ => false end.
Definition post_tok (t : tok) : bool := match t with TLBracket | TAt | TKw KOffset _ => true | _ => false end.
(* tokens a printed expression can start with *)
Definition prim_tok (t : tok) : bool :=
  match t with
  | TNum _ (Some _) | TStr _ | TLParen | TLBrace | TIdent _ | TMetric _ | TAgg _ _ => true
  | TKw k _ => match k with KBy | KOffset | KWithout | KStart | KEnd => true | _ => false end
  | TOp o _ => match o with OAnd | OOr | OUnless => true | _ => false end
  | _ => false
  end.
Definition start_tok (t : tok) : bool :=
  prim_tok t || match t with TOp OSub _ | TOp OAdd _ => true | _ => false end.
