(* C28 — string level: single steps of the scanner model on the pieces of a printed expression. *)
From Coq Require Import ZArith List Bool String Ascii Lia.
From SH Require Import PromParse.Syntax Gen.PromParse PromParse.Lexer PromParse.Parser PromParse.Printer.
Import ListNotations.
Open Scope string_scope.
Open Scope Z_scope.

Definition pre (ts : list tok) (o : option (list tok)) : option (list tok) :=
  match o with Some l => Some (ts ++ l)%list | None => None end.
Lemma pre_pre a b o : pre a (pre b o) = pre (a ++ b)%list o.
Proof. destruct o; simpl; [rewrite app_assoc|]; reflexivity. Qed.
Lemma pre_nil o : pre [] o = o.
Proof. destruct o; reflexivity. Qed.

Lemma sapp_assoc (a b c : string) : (a ++ b) ++ c = a ++ (b ++ c).
Proof. induction a; simpl; [reflexivity | now rewrite IHa]. Qed.
Lemma sapp_nil (a : string) : a ++ "" = a.
Proof. induction a; simpl; [reflexivity | now rewrite IHa]. Qed.
Lemma slen_app (a b : string) : String.length (a ++ b) = (String.length a + String.length b)%nat.
Proof. induction a; simpl; [reflexivity | now rewrite IHa]. Qed.

(* what follows a piece: nothing, or a character on which p is false *)
Definition stops (p : ascii -> bool) (rest : string) : Prop :=
  match rest with EmptyString => True | String d _ => p d = false end.

Lemma span_app p w rest : sall p w = true -> stops p rest -> span p (w ++ rest) = (w, rest).
Proof.
  induction w as [|c w IH]; simpl; intros H S.
  - destruct rest as [|d r]; [reflexivity|]. simpl in S. simpl. rewrite S. reflexivity.
  - apply andb_true_iff in H as [Hc Hw]. rewrite Hc, IH by assumption. reflexivity.
Qed.

(* ---------- facts about character classes, by enumeration of the 256 characters *)
Ltac all_chars c := destruct c as [[] [] [] [] [] [] [] []].

Definition wordc (c : ascii) : bool := is_alnum c || ceq 58 c.
Definition no_punct (c : ascii) : Prop :=
  ceq 35 c = false /\ is_space c = false /\ ceq 44 c = false /\ ceq 42 c = false /\ ceq 47 c = false /\
  ceq 37 c = false /\ ceq 43 c = false /\ ceq 45 c = false /\ ceq 94 c = false /\ ceq 61 c = false /\
  ceq 33 c = false /\ ceq 60 c = false /\ ceq 62 c = false /\ ceq 34 c = false /\ ceq 39 c = false /\
  ceq 96 c = false /\ ceq 46 c = false /\ ceq 125 c = false /\ ceq 36 c = false /\ ceq 64 c = false.

Lemma alpha_facts c : (is_alpha c || ceq 58 c) = true -> no_punct c /\ is_digit c = false /\ wordc c = true.
Proof. all_chars c; vm_compute; intro H; try discriminate H; repeat split; reflexivity. Qed.
Lemma digit_facts c : is_digit c = true -> no_punct c /\ is_alnum c = true /\ ceq 58 c = false.
Proof. all_chars c; vm_compute; intro H; try discriminate H; repeat split; reflexivity. Qed.
Lemma alnum_facts c : is_alnum c = true -> no_punct c /\ ceq 58 c = false.
Proof. all_chars c; vm_compute; intro H; try discriminate H; repeat split; reflexivity. Qed.

Ltac use_no_punct H :=
  destruct H as (?P1 & ?P2 & ?P3 & ?P4 & ?P5 & ?P6 & ?P7 & ?P8 & ?P9 & ?P10 & ?P11 & ?P12 & ?P13 & ?P14 & ?P15 & ?P16 & ?P17 & ?P18 & ?P19 & ?P20).

(* ---------- words outside braces and brackets *)
Definition wordlike (w : string) : Prop :=
  match w with EmptyString => False | String c w' => (is_alpha c || ceq 58 c) = true /\ sall wordc w' = true end.

Lemma lex_word F gc pd w rest :
  wordlike w -> stops wordc rest ->
  lex_go (S F) false false gc pd (w ++ rest) = pre [word_tok w] (lex_go F false false gc pd rest).
Proof.
  destruct w as [|c w']; [contradiction|]. intros [Hc Hw] St.
  destruct (alpha_facts c Hc) as (NP & Hd & Hwc). use_no_punct NP.
  change (String c w' ++ rest) with (String c (w' ++ rest)). cbn [lex_go].
  rewrite P1, P2, P3, P4, P5, P6, P7, P8, P9, P10, P11, P12, P13. unfold starts_number. rewrite Hd, P17.
  rewrite P14, P15, P16, Hc. cbn [negb orb andb].
  change (fun c0 : ascii => is_alnum c0 || ceq 58 c0) with wordc.
  change (String c (w' ++ rest)) with (String c w' ++ rest).
  rewrite span_app; [| simpl; rewrite Hwc, Hw; reflexivity | assumption].
  destruct (lex_go F false false gc pd rest); reflexivity.
Qed.

(* ---------- identifiers inside braces *)
Lemma lex_bident F bk gc pd w rest :
  nonempty w = true -> sall is_alnum w = true -> stops is_alnum rest ->
  lex_go (S F) true bk gc pd (w ++ rest) = pre [TIdent w] (lex_go F true bk gc pd rest).
Proof.
  destruct w as [|c w']; [discriminate|]. intros _ Hw St. simpl in Hw. apply andb_true_iff in Hw as [Hc Hw].
  destruct (alnum_facts c Hc) as (NP & H58). use_no_punct NP.
  change (String c w' ++ rest) with (String c (w' ++ rest)). cbn [lex_go].
  rewrite P1, P2, Hc.
  change (String c (w' ++ rest)) with (String c w' ++ rest).
  rewrite span_app; [| simpl; rewrite Hc, Hw; reflexivity | assumption].
  destruct (lex_go F true bk gc pd rest); reflexivity.
Qed.

(* ---------- quoted strings: strconv.Quote read back by lexString/lexEscape/Unquote *)
Lemma quote_char_back c F tail :
  lex_quoted (S F) """"%char (quote_char c ++ tail) =
  match lex_quoted F """"%char tail with Some (w, r) => Some (String c w, r) | None => None end.
Proof. all_chars c; reflexivity. Qed.

Lemma quote_body_back s : forall F rest, (String.length s <= F)%nat ->
  lex_quoted (S F) """"%char (quote_body s ++ String """"%char rest) = Some (s, rest).
Proof.
  induction s as [|c s IH]; intros F rest HF.
  - reflexivity.
  - simpl in HF. destruct F as [|F']; [lia|]. cbn [quote_body]. rewrite sapp_assoc, quote_char_back.
    rewrite IH by lia. reflexivity.
Qed.

Lemma quote_len s : (String.length s <= String.length (quote_body s))%nat.
Proof.
  induction s as [|c s IH]; [simpl; lia|]. cbn [quote_body]. rewrite slen_app. simpl String.length at 1.
  assert (1 <= String.length (quote_char c))%nat by (all_chars c; vm_compute; lia). lia.
Qed.

Lemma lex_string F br bk gc pd s rest :
  lex_go (S F) br bk gc pd (quote s ++ rest) = pre [TStr s] (lex_go F br bk gc pd rest).
Proof.
  unfold quote. rewrite !sapp_assoc.
  change ("""" ++ quote_body s ++ """" ++ rest) with (String """"%char (quote_body s ++ String """"%char rest)).
  assert (Q : lex_quoted (S (String.length (quote_body s ++ String """"%char rest))) """"%char
                (quote_body s ++ String """"%char rest) = Some (s, rest)).
  { apply quote_body_back. rewrite slen_app. pose proof (quote_len s). lia. }
  destruct br; cbn [lex_go]; change (ceq 35 """"%char) with false; change (is_space """"%char) with false; cbv iota.
  - change (is_alnum """"%char) with false. change (ceq 44 """"%char) with false.
    change (ceq 34 """"%char || ceq 39 """"%char) with true. cbv iota. rewrite Q.
    destruct (lex_go F true bk gc pd rest); reflexivity.
  - change (ceq 44 """"%char) with false. change (ceq 42 """"%char) with false. change (ceq 47 """"%char) with false.
    change (ceq 37 """"%char) with false. change (ceq 43 """"%char) with false. change (ceq 45 """"%char) with false.
    change (ceq 94 """"%char) with false. change (ceq 61 """"%char) with false. change (ceq 33 """"%char) with false.
    change (ceq 60 """"%char) with false. change (ceq 62 """"%char) with false.
    change (starts_number """"%char (quote_body s ++ String """"%char rest)) with false.
    change (ceq 34 """"%char || ceq 39 """"%char) with true. cbv iota. rewrite Q.
    destruct (lex_go F false bk gc pd rest); reflexivity.
Qed.
