(* C28 — primaries: literals, parentheses, selectors with @/offset/range, subqueries, calls, aggregations. *)
From Coq Require Import ZArith List Bool String Ascii Lia.
From SH Require Import PromParse.Syntax Gen.PromParse PromParse.Lexer PromParse.Parser PromParse.Printer PromParse.Wf
  PromParse.ProofsA PromParse.ProofsB PromParse.ProofsC.
Import ListNotations.
Open Scope list_scope.

(* the token a metric name lexes to carries the name as its lexeme *)
Lemma name_tok_metric n : metric_tok_ok (name_tok n) = true ->
  name_tok n = TIdent n \/ name_tok n = TMetric n \/ (exists a, name_tok n = TAgg a n /\ a <> ADbag) \/
  (exists k, name_tok n = TKw k n /\ match k with KBy | KOffset | KWithout | KStart | KEnd => True | _ => False end) \/
  (exists o, name_tok n = TOp o n /\ match o with OAnd | OOr | OUnless => True | _ => False end).
Proof.
  unfold name_tok. destruct n as [|c s]; [intros _; left; reflexivity|].
  destruct (starts_number c s).
  - destruct (scan_number (String c s)) as [[p r] ok]. simpl. discriminate.
  - unfold word_tok. destruct (lookup_kw (String c s)) as [[o|a|k| |]|]; simpl; intro H.
    + right. right. right. right. exists o. split; [reflexivity|]. destruct o; try discriminate; exact I.
    + right. right. left. exists a. split; [reflexivity|]. destruct a; try discriminate; congruence.
    + right. right. right. left. exists k. split; [reflexivity|]. destruct k; try discriminate; exact I.
    + discriminate.
    + discriminate.
    + destruct (ceq 58 c || sany (ceq 58) s); auto.
Qed.

Definition nocall (X : list tok) : Prop :=
  match X with TLParen :: _ | TKw KBy _ :: _ | TKw KWithout _ :: _ => False | _ => True end.
Lemma pfollow_nocall X : pfollow X -> nocall X.
Proof.
  destruct X as [|t X]; simpl; [auto|]. destruct t; simpl; auto; try (intros [H|H]; discriminate).
  destruct k; auto; intros [H|H]; discriminate.
Qed.

Definition brace_toks (pm : list matcher) : list tok :=
  match pm with [] => [] | _ => TLBrace :: sep_by [TComma] (map toks_matcher pm) ++ [TRBrace] end.

Section Prim.
  Variable rx : string -> bool.

  Lemma pprimary_name rec n X :
    n <> EmptyString -> metric_tok_ok (name_tok n) = true -> nocall X ->
    pprimary rx rec (name_tok n :: X) = psel rx n X.
  Proof.
    intros Hn H HX. destruct (name_tok_metric n H) as [E|[E|[(a & E & Ha)|[(k & E & Hk)|(o & E & Ho)]]]]; rewrite E.
    - destruct X as [|t X]; [reflexivity|]. destruct t; try reflexivity. contradiction.
    - reflexivity.
    - cbn [pprimary]. assert (S : starts_agg X = false).
      { destruct X as [|t X]; [reflexivity|]. destruct t; try reflexivity; simpl in HX; try contradiction.
        destruct k; try reflexivity; contradiction. }
      rewrite S. destruct a; try reflexivity. congruence.
    - destruct k; try contradiction; reflexivity.
    - destruct o; try contradiction; reflexivity.
  Qed.

  Lemma psel_ok n pm tl :
    forallb (matcher_ok rx) pm = true -> pfollow tl ->
    psel rx n (brace_toks pm ++ tl) = Some (EVec (vs0 n (pm ++ name_matcher n)), tl).
  Proof.
    intros H Hf. destruct pm as [|m ms].
    - simpl. destruct tl as [|t tl]; [reflexivity|]. destruct t; try reflexivity.
      simpl in Hf. destruct Hf; discriminate.
    - unfold brace_toks. rewrite <- app_comm_cons. unfold psel. rewrite <- app_assoc.
      change ([TRBrace] ++ tl) with (TRBrace :: tl). rewrite pmatchers_ok by assumption. reflexivity.
  Qed.

  Lemma sel_head_eq v : toks_sel_head v =
    match vs_name v with EmptyString => match printed_matchers v with [] => [TLBrace; TRBrace] | pm => brace_toks pm end
                    | n => name_tok n :: brace_toks (printed_matchers v) end.
  Proof. unfold toks_sel_head, brace_toks. destruct (vs_name v); destruct (printed_matchers v); reflexivity. Qed.

  Lemma sel_head_parse rec v tl :
    vs_ok rx v = true -> pfollow tl ->
    pprimary rx rec (toks_sel_head v ++ tl) =
    Some (EVec (vs0 (vs_name v) (printed_matchers v ++ name_matcher (vs_name v))), tl).
  Proof.
    unfold vs_ok. intros H Hf. apply andb_true_iff in H as [H _]. apply andb_true_iff in H as [Hn Hm].
    rewrite sel_head_eq. unfold name_ok in Hn. destruct (vs_name v) as [|c s] eqn:En.
    - destruct (printed_matchers v) as [|m ms] eqn:Ep.
      + simpl. reflexivity.
      + pose proof (psel_ok EmptyString (m :: ms) tl Hm Hf) as Ps.
        unfold brace_toks in *. rewrite <- app_comm_cons in *. exact Ps.
    - rewrite <- app_comm_cons.
      assert (Hne : String c s <> EmptyString) by discriminate.
      rewrite (pprimary_name rec (String c s) _ Hne Hn).
      + apply psel_ok; assumption.
      + destruct (printed_matchers v); [simpl; apply pfollow_nocall; assumption | simpl; exact I].
  Qed.

  (* ---------- @ / offset tail of selectors and subqueries *)
  Definition offs_toks (ex : list Z) (off : Z) : list tok :=
    (match ex with [] => [] | d :: l => TKw KOffset "offset"%string :: TLBracket :: sep_by [TComma] (map toks_dur (d :: l)) ++ [TRBracket] end) ++
    (if (off =? 0)%Z then [] else TKw KOffset "offset"%string :: toks_dur off).
  Definition offs_steps (ex : list Z) (off : Z) : nat :=
    Nat.add (match ex with [] => 0%nat | _ => 1%nat end) (if (off =? 0)%Z then 0%nat else 1%nat).

  Lemma at_len a : (at_steps a <= List.length (toks_at a))%nat.
  Proof. destruct a; simpl; try lia; destruct (ms <? 0)%Z; simpl; lia. Qed.
  Lemma offs_len ex off : (offs_steps ex off <= List.length (offs_toks ex off))%nat.
  Proof.
    unfold offs_steps, offs_toks. destruct ex; destruct (off =? 0)%Z; simpl; try lia;
      rewrite ?app_length; simpl; lia.
  Qed.

  Lemma mods_steps e0 e1 e2 e3 a ex off rest :
    (a = AtNone -> e1 = e0) -> (a <> AtNone -> set_at e0 a = Some e1) -> at_ok a = true ->
    (ex = [] -> e2 = e1) -> (ex <> [] -> set_offset e1 0 ex = Some e2) ->
    (off = 0%Z -> e3 = e2) -> (off <> 0%Z -> set_offset e2 off [] = Some e3) ->
    forall m, ppost (at_steps a + offs_steps ex off + m) e0 (toks_at a ++ offs_toks ex off ++ rest) = ppost m e3 rest.
  Proof.
    intros A0 A1 Aok X0 X1 O0 O1 m.
    assert (SA : forall k tl, ppost (at_steps a + k) e0 (toks_at a ++ tl) = ppost k e1 tl).
    { intros k tl. destruct a as [|t| |].
      - simpl. rewrite A0 by reflexivity. reflexivity.
      - cbn [at_steps Nat.add]. apply ppost_at; [discriminate | assumption | apply A1; discriminate].
      - cbn [at_steps Nat.add]. apply ppost_at; [discriminate | assumption | apply A1; discriminate].
      - cbn [at_steps Nat.add]. apply ppost_at; [discriminate | assumption | apply A1; discriminate]. }
    rewrite <- Nat.add_assoc. rewrite SA. unfold offs_steps, offs_toks.
    assert (SX : forall k tl, ppost ((match ex with [] => 0 | _ => 1 end) + k)%nat e1
                   ((match ex with [] => [] | d :: l => TKw KOffset "offset"%string :: TLBracket :: sep_by [TComma] (map toks_dur (d :: l)) ++ [TRBracket] end) ++ tl)
                 = ppost k e2 tl).
    { intros k tl. destruct ex as [|d l].
      - simpl. rewrite X0 by reflexivity. reflexivity.
      - cbn [Nat.add]. rewrite <- !app_comm_cons. rewrite <- app_assoc. apply ppost_offs. apply X1. discriminate. }
    rewrite <- Nat.add_assoc. rewrite <- app_assoc. rewrite SX.
    destruct (off =? 0)%Z eqn:E.
    - apply Z.eqb_eq in E. simpl. rewrite O0 by assumption. reflexivity.
    - apply Z.eqb_neq in E. cbn [Nat.add]. rewrite <- app_comm_cons. apply ppost_off; [assumption | apply O1; assumption].
  Qed.
End Prim.
