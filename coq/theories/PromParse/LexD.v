(* C28 — string level: @ / offset / selector head / matching modifiers as segments; the conditions on numbers,
   timestamps and durations under which their printed text scans back (discharged in LexNum.v). *)
From Coq Require Import ZArith List Bool String Ascii Lia.
From SH Require Import PromParse.Syntax Gen.PromParse PromParse.Lexer PromParse.Parser PromParse.Printer
  PromParse.Wf PromParse.ProofsA PromParse.LexA PromParse.LexB PromParse.LexC.
Import ListNotations.
Open Scope string_scope.
Open Scope Z_scope.

Definition numstop : string -> Prop := stops (fun d => is_alnum d || ceq 46 d || ceq 58 d).
Definition dstop : string -> Prop := stops is_alnum.
Lemma term_numstop rest : term rest -> numstop rest.
Proof.
  apply term_stops. intros d H. apply termc_facts in H. destruct H as (H0 & H1 & H2). rewrite H1, H2.
  unfold wordc in H0. rewrite H1 in H0. simpl in *. exact H0.
Qed.
Lemma term_dstop rest : term rest -> dstop rest.
Proof. apply term_stops. intros d H. apply termc_facts in H. tauto. Qed.

(* the printed text of a number literal / @ timestamp / duration scans back to its tokens *)
Definition num_rt (n : num) : Prop :=
  forall gc pd, Seg (false, false, gc, pd) (print_num true n) (toks (ENum n)) (false, false, gc, pd) numstop.
Definition ms_rt (ms : Z) : Prop :=
  forall gc pd, Seg (false, false, gc, pd) (print_ms ms)
    ((if ms <? 0 then [TOp OSub "-"] else []) ++ [TNum (print_ms (Z.abs ms)) (Some (mk_dec (Z.abs ms) (-3)))])%list
    (false, false, gc, pd) numstop.
Definition dur_rt (d : Z) : Prop :=
  forall bk gc pd, Seg (false, bk, gc, pd) (dur_fx d) (toks_dur d) (false, bk, gc, pd) dstop.
Definition durb_rt (d : Z) : Prop :=
  forall gc pd, Seg (false, false, gc, pd) ("[" ++ dur_fx d) (TLBracket :: toks_dur d) (false, true, false, pd) dstop.

Lemma wl_offset : wordlike "offset". Proof. simpl. auto. Qed.
Lemma seg_kw w t gc pd : wordlike w -> word_tok w = t -> Seg (false, false, gc, pd) w [t] (false, false, gc, pd) (stops wordc).
Proof. intros H <-. apply seg_word. assumption. Qed.

(* ---------- @ modifier *)
Definition at_s (a : atmod) : Prop := match a with AtTs ms => ms_rt ms | _ => True end.

Lemma seg_pat a gc pd : at_s a -> 0 <= pd ->
  Seg (false, false, gc, pd) (print_at a) (toks_at a) (false, false, gc, pd) term.
Proof.
  intros Ha Hpd. destruct a as [|ms| |]; cbn [print_at toks_at].
  - apply seg_nil.
  - change (" @ " ++ print_ms ms) with (" " ++ "@" ++ " " ++ print_ms ms).
    change (TAt :: (if ms <? 0 then [TOp OSub "-"] else []) ++ [TNum (print_ms (Z.abs ms)) (Some (mk_dec (Z.abs ms) (-3)))])%list
      with ([] ++ [TAt] ++ [] ++ ((if ms <? 0 then [TOp OSub "-"] else []) ++ [TNum (print_ms (Z.abs ms)) (Some (mk_dec (Z.abs ms) (-3)))]))%list.
    eapply seg_app; [apply seg_space | | side].
    eapply seg_app; [apply seg_at | | side].
    eapply seg_app; [apply seg_space | | side].
    eapply seg_weaken; [apply Ha | apply term_numstop].
  - change (" @ start()") with (" " ++ "@" ++ " " ++ "start" ++ "(" ++ ")").
    change [TAt; TKw KStart "start"; TLParen; TRParen] with ([] ++ [TAt] ++ [] ++ [TKw KStart "start"] ++ [TLParen] ++ [TRParen])%list.
    eapply seg_app; [apply seg_space | | side].
    eapply seg_app; [apply seg_at | | side].
    eapply seg_app; [apply seg_space | | side].
    eapply seg_app; [apply (seg_kw "start"); [simpl; auto | reflexivity] | | side].
    eapply seg_app; [apply seg_lparen | | side].
    eapply seg_weaken; [apply seg_rparen; assumption | auto].
  - change (" @ end()") with (" " ++ "@" ++ " " ++ "end" ++ "(" ++ ")").
    change [TAt; TKw KEnd "end"; TLParen; TRParen] with ([] ++ [TAt] ++ [] ++ [TKw KEnd "end"] ++ [TLParen] ++ [TRParen])%list.
    eapply seg_app; [apply seg_space | | side].
    eapply seg_app; [apply seg_at | | side].
    eapply seg_app; [apply seg_space | | side].
    eapply seg_app; [apply (seg_kw "end"); [simpl; auto | reflexivity] | | side].
    eapply seg_app; [apply seg_lparen | | side].
    eapply seg_weaken; [apply seg_rparen; assumption | auto].
Qed.

Lemma term_space r : term (String " "%char r). Proof. reflexivity. Qed.
Lemma pat_head a rest : term rest -> term (print_at a ++ rest).
Proof. intro H. destruct a; simpl; auto. Qed.

(* ---------- offsets: " offset [a, b]" and " offset d" *)
Definition offs_s (ex : list Z) (off : Z) : Prop :=
  Forall dur_rt ex /\ match ex with d :: _ => 0 <= d /\ durb_rt d | [] => True end /\ (off <> 0 -> dur_rt off).

Definition jtail (sep : string) (l : list string) : string := fold_right (fun x acc => sep ++ x ++ acc) "" l.
Lemma join_jtail sep x l : join sep (x :: l) = x ++ jtail sep l.
Proof.
  revert x. induction l as [|y l IH]; intro x; [simpl; rewrite sapp_nil; reflexivity|].
  rewrite join_cons, IH. reflexivity.
Qed.

Lemma seg_durs_tail l gc pd : Forall dur_rt l ->
  Seg (false, true, gc, pd) (jtail ", " (map dur_fx l) ++ "]") (tailf TComma toks_dur l ++ [TRBracket])%list
      (false, false, gc, pd) anyr.
Proof.
  induction l as [|x l IH]; intro H.
  - apply seg_rbracket.
  - inversion H as [|? ? Hx Hl]; subst. cbn [map jtail fold_right]. fold (jtail ", " (map dur_fx l)).
    unfold tailf. cbn [flat_map]. fold (tailf TComma toks_dur l). rewrite !sapp_assoc.
    change (", " ++ dur_fx x ++ jtail ", " (map dur_fx l) ++ "]") with ("," ++ " " ++ dur_fx x ++ jtail ", " (map dur_fx l) ++ "]").
    change ((TComma :: toks_dur x) ++ tailf TComma toks_dur l)%list with ([TComma] ++ toks_dur x ++ tailf TComma toks_dur l)%list.
    rewrite <- !app_assoc.
    eapply seg_app; [apply seg_comma | | side].
    change (toks_dur x ++ tailf TComma toks_dur l ++ [TRBracket])%list with ([] ++ toks_dur x ++ tailf TComma toks_dur l ++ [TRBracket])%list.
    eapply seg_app; [apply seg_space | | side].
    eapply seg_app; [apply Hx | apply IH; assumption |].
    intros r _. destruct l; reflexivity.
Qed.

Lemma seg_offsets ex off gc pd : offs_s ex off ->
  exists gc', Seg (false, false, gc, pd)
    ((match ex with [] => "" | d :: l => " offset [" ++ join ", " (map dur_fx (d :: l)) ++ "]" end) ++
     (if off =? 0 then "" else " offset " ++ dur_fx off))
    ((match ex with [] => [] | d :: l => TKw KOffset "offset" :: TLBracket :: sep_by [TComma] (map toks_dur (d :: l)) ++ [TRBracket] end) ++
     (if off =? 0 then [] else TKw KOffset "offset" :: toks_dur off))%list
    (false, false, gc', pd) term.
Proof.
  intros (Hex & Hfirst & Hoff).
  assert (Single : forall g, Seg (false, false, g, pd) (if off =? 0 then "" else " offset " ++ dur_fx off)
                     (if off =? 0 then [] else TKw KOffset "offset" :: toks_dur off) (false, false, g, pd) term).
  { intro g. destruct (off =? 0) eqn:E.
    - apply seg_nil.
    - apply Z.eqb_neq in E.
      change (" offset " ++ dur_fx off) with (" " ++ "offset" ++ " " ++ dur_fx off).
      change (TKw KOffset "offset" :: toks_dur off) with ([] ++ [TKw KOffset "offset"] ++ [] ++ toks_dur off)%list.
      eapply seg_app; [apply seg_space | | side].
      eapply seg_app; [apply (seg_kw "offset"); [apply wl_offset | reflexivity] | | side].
      eapply seg_app; [apply seg_space | | side].
      eapply seg_weaken; [apply Hoff; assumption | apply term_dstop]. }
  destruct ex as [|d l].
  - exists gc. apply Single.
  - exists false. destruct Hfirst as [Hd Hb]. inversion Hex as [|? ? _ Hl]; subst.
    eapply seg_app; [| apply Single |].
    + cbn [map]. rewrite join_jtail. change (toks_dur d :: map toks_dur l) with (map toks_dur (d :: l)). rewrite (ProofsA.sep_by_map toks_dur d l). rewrite !sapp_assoc. rewrite <- !app_assoc.
      change (" offset [" ++ dur_fx d ++ jtail ", " (map dur_fx l) ++ "]")
        with (" " ++ "offset" ++ " " ++ ("[" ++ dur_fx d) ++ jtail ", " (map dur_fx l) ++ "]").
      change (TKw KOffset "offset" :: TLBracket :: toks_dur d ++ tailf TComma toks_dur l ++ [TRBracket])%list
        with ([] ++ [TKw KOffset "offset"] ++ [] ++ (TLBracket :: toks_dur d) ++ (tailf TComma toks_dur l ++ [TRBracket]))%list.
      eapply seg_app; [apply seg_space | | side].
      eapply seg_app; [apply (seg_kw "offset"); [apply wl_offset | reflexivity] | | side].
      eapply seg_app; [apply seg_space | | side].
      eapply seg_app; [apply Hb | apply seg_durs_tail; assumption |].
      intros r _. destruct l; reflexivity.
    + intros r Hr. destruct (off =? 0); [exact I | reflexivity].
Qed.
