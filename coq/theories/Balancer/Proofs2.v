(* Proofs about the balancer egress model, part 2: drop accounting, the bounded batching delay (repaired
   variant) and its refutation for the code as it is, framing round trip. *)
From Coq Require Import ZArith List Bool Lia Arith.
From SH Require Import Balancer.Model Balancer.Proofs.
Import ListNotations.
Open Scope Z_scope.

(* ---------- drops ---------- *)
Lemma gacc_signal : forall b, gacc (signal b) = gacc b.
Proof. intros. unfold signal. destruct (bst b); auto. Qed.
Lemma bw_signal : forall b, bw (signal b) = bw b.
Proof. intros. unfold signal. destruct (bst b); auto. Qed.

Definition both_full (c : cfg) (s : pool) : Prop := cLen c <= wi (pa s) /\ cLen c <= wi (pb s).

(* C31: "a packet is dropped only when both send buffers are full, and every drop is counted" *)
Theorem drop_only_when_both_full_and_counted : forall c p len s,
  pclosed s = false ->
  let s' := write_locked c p len s in
  (both_full c s /\ drp s' = drp s + 1 /\ fwd s' = fwd s /\ wbb s' = wbb s + len /\
   gdropped s' = gdropped s ++ [(p, len)] /\ gacc (pa s') = gacc (pa s) /\ gacc (pb s') = gacc (pb s))
  \/
  (~ both_full c s /\ drp s' = drp s /\ fwd s' = fwd s + 1 /\ wbb s' = wbb s /\ gdropped s' = gdropped s /\
   exists a, gacc (getb a s') = gacc (getb a s) ++ [p] /\ gacc (getb (negb a) s') = gacc (getb (negb a) s)).
Proof.
  intros c p len s Hc s'. subst s'. unfold write_locked, both_full. rewrite Hc.
  destruct (primA s) eqn:Ep; simpl; unfold push;
    destruct (cLen c <=? wi (pa s)) eqn:EA; destruct (cLen c <=? wi (pb s)) eqn:EB; simpl;
    try apply Z.leb_le in EA; try apply Z.leb_gt in EA; try apply Z.leb_le in EB; try apply Z.leb_gt in EB;
    rewrite ?gacc_signal; simpl.
  all: try (left; repeat split; auto; lia).
  all: right; repeat split; auto; try lia.
  all: try (exists true; simpl; rewrite ?gacc_signal; simpl; split; reflexivity).
  all: try (exists false; simpl; rewrite ?gacc_signal; simpl; split; reflexivity).
Qed.

Theorem drop_when_closed_counted : forall c p len s,
  pclosed s = true ->
  let s' := write_locked c p len s in
  drp s' = drp s + 1 /\ fwd s' = fwd s /\ gcdrops s' = gcdrops s + 1 /\ pa s' = pa s /\ pb s' = pb s /\ wbb s' = wbb s.
Proof. intros c p len s Hc. unfold write_locked. rewrite Hc. simpl. repeat split; auto. Qed.

Definition sumlen (l : list (pkt * Z)) : Z := fold_right (fun x a => snd x + a) 0 l.
Definition sumrep (l : list (Z * bool)) : Z := fold_right (fun x a => fst x + a) 0 l.

Lemma sumlen_app : forall l m, sumlen (l ++ m) = sumlen l + sumlen m.
Proof. induction l; intros; simpl; auto. rewrite IHl. lia. Qed.
Lemma sumrep_app : forall l m, sumrep (l ++ m) = sumrep l + sumrep m.
Proof. induction l; intros; simpl; auto. rewrite IHl. lia. Qed.

(* counters of the pool that no buffer operation touches *)
Definition cinv (s : pool) : Prop :=
  drp s = Z.of_nat (length (gdropped s)) + gcdrops s /\
  sumlen (gdropped s) = wbb s + sumrep (greported s).

Lemma cinv_setb : forall a s b, cinv (setb a s b) <-> cinv s.
Proof. intros. destruct a; unfold cinv; simpl; tauto. Qed.

Lemma cinv_step : forall fxT fxR c st s s', cinv s -> app_step fxT fxR c st s = Some s' -> cinv s'.
Proof.
  intros fxT fxR c st s s' H Hs. destruct st; simpl in Hs;
    try (apply lift_some in Hs; destruct Hs as (b & _ & ->); apply cinv_setb; auto; fail).
  - inversion Hs; subst; clear Hs. unfold write_locked. destruct H as (H1 & H2).
    destruct (pclosed s). { unfold cinv; simpl. split; auto; lia. }
    destruct (push c p (getb (primA s) s)) as [b1 ok1].
    destruct ok1. { unfold cinv; destruct (primA s); simpl; split; auto. }
    destruct (push c p (getb (negb (primA s)) (setb (primA s) s b1))) as [b2 ok2].
    destruct ok2; unfold cinv; destruct (primA s); simpl; try (split; auto; fail);
      rewrite app_length, sumlen_app; simpl; split; lia.
  - destruct (bst (getb a s)); try discriminate.
    destruct (a && negb (wbb s =? 0)); inversion Hs; subst; auto.
    destruct H as (H1 & H2). unfold cinv; simpl. rewrite sumrep_app. simpl. split; auto; lia.
  - inversion Hs; subst. apply cinv_setb; auto.
  - inversion Hs; subst. exact H.
  - destruct ((0 <? d) && negb (timer_blocks c (now s + d) (pa s)) && negb (timer_blocks c (now s + d) (pb s))); inversion Hs; subst.
    exact H.
  - destruct fxT; inversion Hs; subst. apply cinv_setb; auto.
Qed.

(* C31: "every drop is counted and reported upstream": the dropped counter equals the number of refused
   packets, and every refused byte is either still in wouldBlockBytes or was handed to a report *)
Theorem drops_counted_and_reported : forall fxT fxR c tr s,
  run fxT fxR c pool0 tr = Some s ->
  drp s = Z.of_nat (length (gdropped s)) + gcdrops s /\
  sumlen (gdropped s) = wbb s + sumrep (greported s).
Proof.
  intros. eapply (run_inv cinv); eauto using cinv_step. unfold cinv; simpl; auto.
Qed.

(* ---------- bounded delay ---------- *)
(* all the ways one buffer changes in one step *)
Definition btrans (fxT fxR : bool) (c : cfg) (t : Z) (b b' : buf) : Prop :=
  b' = b \/ (exists p, b' = fst (push c p b)) \/ pop_begin c t b = Some b' \/ wake c b = Some b' \/
  timer_fire fxT c t b = Some b' \/ write_ok c t b = Some b' \/ (exists k, write_err fxR k b = Some b') \/
  b' = close_buf b \/ b' = signal b.

Lemma step_btrans : forall fxT fxR c st s s' x,
  app_step fxT fxR c st s = Some s' ->
  btrans fxT fxR c (now s) (getb x s) (getb x s') /\
  (now s' = now s \/
   (exists d, 0 < d /\ now s' = now s + d /\ timer_blocks c (now s + d) (getb x s) = false /\ getb x s' = getb x s)).
Proof.
  intros fxT fxR c st s s' x Hs. unfold btrans.
  destruct st; simpl in Hs;
    try (apply lift_some in Hs; destruct Hs as (b & Hb & ->); split; [|left; destruct a; reflexivity];
         destruct x, a; simpl in *; auto 10; eauto 10; fail).
  - inversion Hs; subst; clear Hs. split.
    2:{ left. unfold write_locked. destruct (pclosed s); auto.
        destruct (push c p (getb (primA s) s)) as [b1 ok1]. destruct ok1. { destruct (primA s); reflexivity. }
        destruct (push c p (getb (negb (primA s)) (setb (primA s) s b1))) as [b2 ok2].
        destruct ok2; destruct (primA s); reflexivity. }
    unfold write_locked. destruct (pclosed s). { left. destruct x; reflexivity. }
    destruct (push c p (getb (primA s) s)) as [b1 ok1] eqn:E1.
    assert (F1 : b1 = fst (push c p (getb (primA s) s))) by (rewrite E1; auto).
    destruct ok1.
    + destruct x, (primA s); simpl in *; eauto.
    + destruct (push c p (getb (negb (primA s)) (setb (primA s) s b1))) as [b2 ok2] eqn:E2.
      assert (F2 : b2 = fst (push c p (getb (negb (primA s)) (setb (primA s) s b1)))) by (rewrite E2; auto).
      destruct ok2; destruct x, (primA s); simpl in *; eauto.
  - destruct (bst (getb a s)); try discriminate.
    destruct (a && negb (wbb s =? 0)); inversion Hs; subst; split; auto; left; destruct x; reflexivity.
  - inversion Hs; subst. split; [|left; destruct a; reflexivity].
    destruct x, a; simpl; auto 10.
  - inversion Hs; subst. split; auto; try (left; destruct x; reflexivity).
  - destruct (0 <? d) eqn:Ed; simpl in Hs; try discriminate.
    destruct (timer_blocks c (now s + d) (pa s)) eqn:EA; simpl in Hs; try discriminate.
    destruct (timer_blocks c (now s + d) (pb s)) eqn:EB; simpl in Hs; try discriminate.
    inversion Hs; subst. split. { left. destruct x; reflexivity. }
    right. exists d. apply Z.ltb_lt in Ed. destruct x; simpl; auto.
  - destruct fxT; inversion Hs; subst. split; [|left; destruct a; reflexivity].
    destruct x, a; simpl; auto 12.
Qed.

(* timing invariant of one buffer (repaired variant): a waiting sender is within swapWaitMax of the start of
   its swap, and once the timer fired it has been signalled *)
Definition tb (c : cfg) (t : Z) (b : buf) : Prop :=
  match bst b with
  | SWait _ t0 f w => t0 <= t <= t0 + cMax c /\ (f = true -> w = true)
  | _ => True
  end.

(* what the delay theorem tracks for one buffer: closed, or everything accepted up to the reference state has
   left the write side, or the sender is still in the swap that started at t0 *)
Definition dq (n : Z) (t0 : Z) (b : buf) : Prop :=
  bclosed b = true \/ n <= handed b \/
  (exists post f w, bst b = SWait post t0 f w /\ n <= Z.of_nat (length (gacc b))).

Lemma handed_signal : forall b, handed (signal b) = handed b.
Proof. intros. unfold handed. rewrite gacc_signal, bw_signal. auto. Qed.

Ltac tbs := unfold tb, dq, handed, set_st in *; simpl in *.

Lemma after_swap_facts : forall post b,
  (bclosed (after_swap post (do_swap b)) = true /\ bclosed b = true) \/
  (bclosed (after_swap post (do_swap b)) = false /\
   handed (after_swap post (do_swap b)) = Z.of_nat (length (gacc b)) /\
   (match bst (after_swap post (do_swap b)) with SWait _ _ _ _ => False | _ => True end)).
Proof.
  intros. unfold do_swap, after_swap. destruct (bclosed b) eqn:E.
  - left. destruct post; simpl; auto. destruct (length (br b) <=? bri b)%nat; simpl; auto.
  - right. destruct post; simpl.
    + unfold handed; simpl. repeat split; auto. lia.
    + destruct (length (bw b) <=? 0)%nat; unfold handed; simpl; repeat split; auto; lia.
Qed.

Lemma tb_after_swap : forall c t post b, tb c t (after_swap post (do_swap b)).
Proof.
  intros. destruct (after_swap_facts post b) as [(H1 & H2)|(H1 & H2 & H3)].
  - unfold after_swap, do_swap. rewrite H2. destruct post; tbs; auto. destruct (length (br b) <=? bri b)%nat; simpl; auto.
  - unfold tb. destruct (bst (after_swap post (do_swap b))); auto. contradiction.
Qed.

Lemma dq_after_swap : forall n t0 post b, n <= Z.of_nat (length (gacc b)) -> dq n t0 (after_swap post (do_swap b)).
Proof.
  intros. destruct (after_swap_facts post b) as [(H1 & H2)|(H1 & H2 & H3)].
  - left; auto.
  - right; left. lia.
Qed.

Lemma handed_le_gacc : forall b, handed b <= Z.of_nat (length (gacc b)).
Proof. intros. unfold handed. lia. Qed.

Lemma bclosed_after_swap : forall post b, bclosed (after_swap post (do_swap b)) = bclosed b.
Proof.
  intros. unfold after_swap, do_swap. destruct (bclosed b) eqn:E, post; simpl; auto.
  - destruct (length (br b) <=? bri b)%nat; simpl; auto.
  - destruct (length (bw b) <=? 0)%nat; simpl; auto.
Qed.

Lemma tb_signal : forall c t b, tb c t b -> tb c t (signal b).
Proof.
  intros c t b H. unfold tb, signal in *. destruct (bst b) eqn:E; simpl; rewrite ?E; auto. intuition.
Qed.

Lemma dq_signal : forall n tz b, dq n tz b -> dq n tz (signal b).
Proof.
  intros n tz b H. unfold dq in *. rewrite handed_signal.
  destruct H as [H|[H|(po & f & w & H1 & H2)]].
  - left. unfold signal. destruct (bst b); auto.
  - auto.
  - right; right. unfold signal. rewrite H1. simpl. eauto.
Qed.

(* one buffer transition keeps the timing invariant and the tracked disjunction *)
Lemma btrans_delay : forall fxR c t n tz b b',
  0 <= cMax c ->
  btrans true fxR c t b b' -> tb c t b -> dq n tz b -> binv b ->
  tb c t b' /\ dq n tz b'.
Proof.
  intros fxR c t n tz b b' Hc Ht Htb Hdq Hbi.
  destruct Ht as [H|[(p & H)|[H|[H|[H|[H|[(k & H)|[H|H]]]]]]]]; [subst b'; auto|subst b'| | | | | |subst b'|subst b'].
  - (* push *)
    unfold push. destruct (cLen c <=? wi b); simpl.
    + split; [apply tb_signal|apply dq_signal]; auto.
    + split; [apply tb_signal|apply dq_signal].
      * unfold tb in *; simpl. exact Htb.
      * unfold dq in *; simpl. destruct Hdq as [H|[H|(po & f & w & H1 & H2)]]; auto.
        -- right; left. unfold handed in *; simpl. rewrite !app_length; simpl. lia.
        -- right; right. rewrite app_length; simpl. do 3 eexists; split; eauto. lia.
  - (* pop_begin: the sender was outside pop, so it was not in the tracked wait *)
    unfold pop_begin in H. destruct (bst b) eqn:E; try discriminate. inversion H; subst; clear H.
    assert (Hdq' : bclosed b = true \/ n <= handed b).
    { destruct Hdq as [H|[H|(po & f & w & H1 & H2)]]; auto. congruence. }
    destruct (length (br b) <=? bri b)%nat.
    + unfold swap_enter. destruct (must_wait c b false) eqn:Em.
      * split. { tbs. split; auto. lia. }
        unfold dq; tbs. destruct Hdq' as [H|H]; auto.
      * split. { apply tb_after_swap. }
        destruct Hdq' as [H|H].
        -- left. rewrite bclosed_after_swap; auto.
        -- apply dq_after_swap. pose proof (handed_le_gacc b). lia.
    + split. { tbs; auto. } unfold dq; tbs. destruct Hdq' as [H|H]; auto.
  - (* wake *)
    unfold wake in H. destruct (bst b) eqn:E; try discriminate. destruct woken; try discriminate.
    inversion H; subst; clear H.
    destruct (must_wait c b fired) eqn:Em.
    + assert (fired = false). { unfold must_wait in Em. destruct fired; auto. rewrite andb_false_r in Em. discriminate. }
      subst. split.
      * unfold tb in *. rewrite E in Htb. simpl. split; [tauto|discriminate].
      * unfold dq in *; simpl. unfold handed in *; simpl.
        destruct Hdq as [H|[H|(po & f & w & H1 & H2)]]; auto.
        rewrite E in H1. inversion H1; subst. right; right. eauto.
    + split. { apply tb_after_swap. }
      destruct Hdq as [H|[H|(po & f & w & H1 & H2)]].
      * left. rewrite bclosed_after_swap; auto.
      * apply dq_after_swap. pose proof (handed_le_gacc b). lia.
      * apply dq_after_swap. auto.
  - (* timer_fire (repaired: also signals) *)
    unfold timer_fire in H. destruct (bst b) eqn:E; try discriminate. destruct fired; try discriminate.
    destruct (t0 + cMax c <=? t); try discriminate. inversion H; subst; clear H.
    split.
    + unfold tb in *. rewrite E in Htb. simpl. split; [tauto|]. intros _. apply orb_true_r.
    + unfold dq in *; simpl. unfold handed in *; simpl.
      destruct Hdq as [H|[H|(po & f & w & H1 & H2)]]; auto.
      rewrite E in H1. inversion H1; subst. right; right. eauto.
  - (* write_ok: the sender was in f *)
    unfold write_ok in H. destruct (bst b) eqn:E; try discriminate. inversion H; subst; clear H.
    assert (Hdq' : bclosed b = true \/ n <= handed b).
    { destruct Hdq as [H|[H|(po & f & w & H1 & H2)]]; auto. congruence. }
    unfold swap_enter. match goal with |- context [must_wait c ?bb false] => destruct (must_wait c bb false) eqn:Em end.
    + split. { tbs. split; auto. lia. }
      unfold dq; tbs. destruct Hdq' as [H|H]; auto.
    + split. { apply tb_after_swap. }
      destruct Hdq' as [H|H].
      * left. rewrite bclosed_after_swap; auto.
      * apply dq_after_swap. simpl. pose proof (handed_le_gacc b). lia.
  - (* write_err *)
    unfold write_err in H. destruct (bst b) eqn:E; try discriminate.
    destruct (k <=? length (pending b))%nat; try discriminate. inversion H; subst; clear H.
    split. { tbs; auto. }
    unfold dq in *; simpl. unfold handed in *; simpl.
    destruct Hdq as [H|[H|(po & f & w & H1 & H2)]]; auto. congruence.
  - (* close *)
    split.
    + unfold close_buf. apply tb_signal. unfold tb in *; simpl. exact Htb.
    + left. unfold close_buf, signal; simpl. destruct (bst b); auto.
  - (* late Broadcast *)
    split; [apply tb_signal|apply dq_signal]; auto.
Qed.

Definition tinv (c : cfg) (s : pool) : Prop := tb c (now s) (pa s) /\ tb c (now s) (pb s).

Lemma tb_tick : forall c t d b, 0 < d -> tb c t b -> timer_blocks c (t + d) b = false -> tb c (t + d) b.
Proof.
  intros c t d b Hd Ht Hb. unfold tb, timer_blocks in *. destruct (bst b); auto.
  destruct fired, woken; simpl in Hb; try discriminate.
  - destruct Ht as (_ & Hw). specialize (Hw eq_refl). discriminate.
  - apply Z.ltb_ge in Hb. split; [lia|discriminate].
Qed.

(* the pool keeps the timing invariant (repaired timer) *)
Lemma tinv_step : forall fxR c st s s',
  0 <= cMax c -> pinv s -> tinv c s -> app_step true fxR c st s = Some s' -> tinv c s'.
Proof.
  intros fxR c st s s' Hc Hp (HA & HB) Hs.
  assert (forall x, tb c (now s') (getb x s')).
  { intros x. destruct (step_btrans _ _ _ _ _ _ x Hs) as (Hbt & Hn).
    assert (Htx : tb c (now s) (getb x s)) by (destruct x; auto).
    destruct Hn as [Hn|(d & Hd & Hn & Hblk & Heq)].
    - rewrite Hn.
      assert (Hd0 : dq 0 0 (getb x s)).
      { right; left. pose proof (pinv_getb x s Hp) as (Hg & _). unfold handed. rewrite Hg, !app_length. lia. }
      destruct (btrans_delay fxR c (now s) 0 0 _ _ Hc Hbt Htx Hd0 (pinv_getb x s Hp)); auto.
    - rewrite Hn, Heq. apply tb_tick; auto. }
  split; [apply (H true)|apply (H false)].
Qed.

Lemma tinv0 : forall c, tinv c pool0.
Proof. intros; split; exact I. Qed.

Lemma reach_inv : forall fxR c tr s, 0 <= cMax c ->
  run true fxR c pool0 tr = Some s -> pinv s /\ tinv c s.
Proof.
  intros fxR c tr s Hc Hr.
  eapply (run_inv (fun s => pinv s /\ tinv c s)); eauto.
  - intros st s1 s2 (H1 & H2) Hs. split; [eapply pinv_step; eauto|eapply tinv_step; eauto].
  - split; [apply pinv0|apply tinv0].
Qed.

Lemma delay_run : forall fxR c n tz x, 0 <= cMax c ->
  forall tr' s s', pinv s -> tinv c s -> dq n tz (getb x s) ->
  run true fxR c s tr' = Some s' -> pinv s' /\ tinv c s' /\ dq n tz (getb x s').
Proof.
  intros fxR c n tz x Hc. induction tr'; intros s s' Hp Ht Hd Hr; simpl in Hr.
  - inversion Hr; subst; auto.
  - destruct (app_step true fxR c a s) as [s1|] eqn:E; try discriminate.
    apply (IHtr' s1 s'); auto.
    + eapply pinv_step; eauto.
    + eapply tinv_step; eauto.
    + destruct (step_btrans _ _ _ _ _ _ x E) as (Hbt & Hn).
      assert (Htx : tb c (now s) (getb x s)) by (destruct Ht; destruct x; auto).
      destruct (btrans_delay fxR c (now s) n tz _ _ Hc Hbt Htx Hd (pinv_getb x s Hp)) as (_ & Hd1).
      destruct Hn as [Hn|(d & _ & _ & _ & Heq)]; auto.
Qed.

(* C31 "within a bounded delay (about one second ...) even if no further packets arrive", repaired timer:
   if the sender of buffer x waits in a swap that began at t0, then in every later state whose clock is past
   t0 + swapWaitMax every packet accepted so far has left the write side (unless the buffer was closed). *)
Theorem bounded_delay_repaired : forall fxR c tr s x post t0 f w tr' s',
  0 <= cMax c ->
  run true fxR c pool0 tr = Some s ->
  bst (getb x s) = SWait post t0 f w ->
  run true fxR c s tr' = Some s' ->
  t0 + cMax c < now s' ->
  bclosed (getb x s') = false ->
  Z.of_nat (length (gacc (getb x s))) <= handed (getb x s').
Proof.
  intros fxR c tr s x post t0 f w tr' s' Hc Hr Hw Hr' Hlate Hopen.
  destruct (reach_inv _ _ _ _ Hc Hr) as (Hp & Ht).
  assert (Hd0 : dq (Z.of_nat (length (gacc (getb x s)))) t0 (getb x s)).
  { right; right. do 3 eexists; split; eauto. lia. }
  destruct (delay_run fxR c _ t0 x Hc tr' s s' Hp Ht Hd0 Hr') as (Hp' & Ht' & [Hcl|[Hh|(po & f' & w' & H1 & H2)]]).
  - congruence.
  - exact Hh.
  - exfalso. assert (Htx : tb c (now s') (getb x s')) by (destruct Ht'; destruct x; auto).
    unfold tb in Htx. rewrite H1 in Htx. lia.
Qed.

(* ---------- the code as it is: the timer does not wake the sender ---------- *)
Definition quiet (st : step) : Prop :=
  match st with Write _ _ => False | CloseBuf true => False | _ => True end.

Definition stuck_trace : list step := [PopBegin true; Write 1 16; Wake true; Tick 1000; TimerFire true].

Lemma stuck_forever : forall fxR tr' s s',
  bst (pa s) = SWait false 0 true false -> bw (pa s) = [1] -> gacc (pa s) = [1] -> bclosed (pa s) = false ->
  Forall quiet tr' -> run false fxR real_cfg s tr' = Some s' ->
  bst (pa s') = SWait false 0 true false /\ bw (pa s') = [1] /\ gacc (pa s') = [1] /\ bclosed (pa s') = false.
Proof.
  intros fxR tr'. induction tr'; intros s s' H1 H2 H3 H4 Hq Hr; simpl in Hr.
  - inversion Hr; subst; auto.
  - inversion Hq; subst. destruct (app_step false fxR real_cfg a s) as [s1|] eqn:E; try discriminate.
    apply (IHtr' s1 s'); auto;
    destruct a; simpl in E; try contradiction;
      try (destruct a; simpl in E; [unfold pop_begin, wake, timer_fire, write_ok, write_err in E; rewrite H1 in E; discriminate
                                   | apply lift_some in E; destruct E as (b & _ & ->); simpl; auto]; fail).
    all: try (destruct a; simpl in *; [rewrite H1 in E; discriminate|]).
    all: try (destruct (bst (pb s)); try discriminate; simpl in E; inversion E; subst; auto; fail).
    all: try (destruct a; [contradiction|]; inversion E; subst; simpl; auto; fail).
    all: try (inversion E; subst; simpl; auto; fail).
    all: try (destruct ((0 <? d) && negb (timer_blocks real_cfg (now s + d) (pa s)) && negb (timer_blocks real_cfg (now s + d) (pb s)));
              inversion E; subst; simpl; auto; fail).
Qed.

(* C31 bounded delay, code as it is: refuted.  After the witness the sender of the primary buffer sits in
   cond.Wait with timeout = true and packet 1 in the buffer; time can advance by any amount, and as long as
   no further packet arrives (and nobody closes the buffer) no schedule hands the packet to the writer. *)
Theorem bounded_delay_refuted : forall fxR,
  exists s,
    run false fxR real_cfg pool0 stuck_trace = Some s /\
    bst (pa s) = SWait false 0 true false /\ gacc (pa s) = [1] /\ now s = 0 + cMax real_cfg /\
    (forall d, 0 < d -> exists s', app_step false fxR real_cfg (Tick d) s = Some s' /\ now s' = now s + d) /\
    (forall tr' s', Forall quiet tr' -> run false fxR real_cfg s tr' = Some s' ->
       bclosed (pa s') = false /\ handed (pa s') < Z.of_nat (length (gacc (pa s)))).
Proof.
  intros fxR.
  assert (exists s, run false fxR real_cfg pool0 stuck_trace = Some s /\
            bst (pa s) = SWait false 0 true false /\ bw (pa s) = [1] /\ gacc (pa s) = [1] /\ bclosed (pa s) = false /\
            now s = 1000 /\ bst (pb s) = SOut) as (s & Hr & H1 & H2 & H3 & H4 & H5 & H6).
  { destruct fxR; eexists; vm_compute; repeat split. }
  exists s. repeat split; auto.
  - intros d Hd. simpl. unfold timer_blocks. rewrite H1, H6. simpl.
    apply Z.ltb_lt in Hd. rewrite Hd. simpl. eexists; split; eauto.
  - destruct (stuck_forever fxR tr' s s' H1 H2 H3 H4 H H0) as (_ & _ & _ & Hc). exact Hc.
  - destruct (stuck_forever fxR tr' s s' H1 H2 H3 H4 H H0) as (_ & Hb & Hg & _).
    unfold handed. rewrite Hg, Hb, H3. simpl. lia.
Qed.

(* ---------- write errors: the code as it is loses the packet whose write failed ---------- *)
Definition loss_trace : list step :=
  [PopBegin true; Tick 1000; TimerFire true; Write 1 16; Wake true; WriteErr true 1; PopBegin true].

Theorem accepted_packet_lost_refuted : forall fxT,
  exists s, run fxT false real_cfg pool0 loss_trace = Some s /\
    fwd s = 1 /\ drp s = 0 /\ gacc (pa s) = [1] /\
    written (pa s) = [] /\ pending (pa s) = [] /\ bw (pa s) = [] /\ skipped (pa s) = [1].
Proof. intros fxT. destruct fxT; (eexists; split; [vm_compute; reflexivity | vm_compute; repeat split; reflexivity]). Qed.

(* ---------- framing ---------- *)
Lemma le32_decode : forall n, 0 <= n < 4294967296 ->
  n mod 256 + 256 * ((n / 256) mod 256) + 65536 * ((n / 65536) mod 256) + 16777216 * ((n / 16777216) mod 256) = n.
Proof.
  intros n Hn.
  replace (n / 65536) with (n / 256 / 256) by (rewrite Z.div_div by lia; reflexivity).
  replace (n / 16777216) with (n / 256 / 256 / 256) by (rewrite !Z.div_div by lia; reflexivity).
  pose proof (Z.div_mod n 256 ltac:(lia)).
  pose proof (Z.div_mod (n / 256) 256 ltac:(lia)).
  pose proof (Z.div_mod (n / 256 / 256) 256 ltac:(lia)).
  assert (0 <= n / 256 / 256 / 256 < 256).
  { split. { repeat apply Z.div_pos; lia. }
    rewrite !Z.div_div by lia. apply Z.div_lt_upper_bound; lia. }
  rewrite (Z.mod_small (n / 256 / 256 / 256) 256) by lia.
  lia.
Qed.

Lemma parse_one : forall fuel body rest,
  Z.of_nat (length body) < 4294967296 ->
  parse_frames (S fuel) (frame body ++ rest) =
  match parse_frames fuel rest with Some fs => Some (body :: fs) | None => None end.
Proof.
  intros fuel body rest H. unfold frame, le32. simpl.
  rewrite le32_decode by lia. rewrite Nat2Z.id.
  rewrite app_length.
  replace (length body <=? length body + length rest)%nat with true by (symmetry; apply Nat.leb_le; lia).
  rewrite skipn_app, skipn_all, Nat.sub_diag. simpl.
  rewrite firstn_app, firstn_all, Nat.sub_diag. simpl. rewrite app_nil_r. reflexivity.
Qed.

(* C31 "written upstream byte-for-byte with its length frame": the byte stream of one connection, i.e. the
   concatenation of the frames the handler builds, is split by a length-prefix reader into exactly the
   packet bodies that were accepted, in order *)
Theorem frames_roundtrip : forall bodies,
  Forall (fun b => Z.of_nat (length b) < 4294967296) bodies ->
  parse_frames (length bodies) (concat (map frame bodies)) = Some bodies.
Proof.
  induction bodies; intros H. { reflexivity. }
  inversion H; subst.
  change (concat (map frame (a :: bodies))) with (frame a ++ concat (map frame bodies)).
  change (length (a :: bodies)) with (S (length bodies)).
  rewrite parse_one by auto. rewrite IHbodies; auto.
Qed.

(* ---------- address rotation ---------- *)
Lemma picks_nth : forall k p j,
  (ap_head p < length (ap_addrs p))%nat -> (j < k)%nat ->
  nth j (picks k p) 0 = nth ((ap_head p + j) mod length (ap_addrs p)) (ap_addrs p) 0.
Proof.
  induction k; intros p j Hh Hj. { lia. }
  simpl. unfold pick. destruct (ap_addrs p) eqn:Ea. { simpl in Hh; lia. }
  rewrite <- Ea in *. 
  assert (Hn : length (ap_addrs p) <> 0%nat) by lia.
  destruct j.
  - simpl. rewrite Nat.add_0_r, Nat.mod_small by lia. reflexivity.
  - simpl. rewrite IHk; simpl.
    + rewrite Nat.add_mod_idemp_l by lia. f_equal. f_equal. lia.
    + apply Nat.mod_upper_bound; lia.
    + lia.
Qed.

(* C31 "plus reconnection time": successive reconnect attempts of a sender rotate over its whole address pool -
   every address (in particular a live one) is tried within len(pool) attempts, whatever the starting point *)
Theorem rotation_visits_every_address : forall p i,
  (ap_head p < length (ap_addrs p))%nat -> (i < length (ap_addrs p))%nat ->
  exists j, (j < length (ap_addrs p))%nat /\
            nth j (picks (length (ap_addrs p)) p) 0 = nth i (ap_addrs p) 0.
Proof.
  intros p i Hh Hi. set (n := length (ap_addrs p)) in *.
  exists ((i + n - ap_head p) mod n)%nat.
  assert (Hn : n <> 0%nat) by lia.
  split. { apply Nat.mod_upper_bound; lia. }
  rewrite picks_nth; auto.
  - fold n. rewrite Nat.add_mod_idemp_r by lia.
    replace (ap_head p + (i + n - ap_head p))%nat with (i + 1 * n)%nat by lia.
    rewrite Nat.mod_add by lia. rewrite Nat.mod_small by lia. reflexivity.
  - apply Nat.mod_upper_bound; lia.
Qed.
