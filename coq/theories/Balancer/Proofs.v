(* Proofs about the balancer egress model: FIFO / exact accounting of every accepted packet, drops only
   when both buffers are full and counted, for all step lists (schedules) and both variants. *)
From Coq Require Import ZArith List Bool Lia Arith.
From SH Require Import Balancer.Model.
Import ListNotations.
Open Scope Z_scope.

(* ---------- buffer invariant ---------- *)
Definition binv (b : buf) : Prop :=
  gacc b = map fst (gdone b) ++ pending b ++ bw b /\
  (forall p t f w, bst b = SWait p t f w -> pending b = []) /\
  (bst b = SWrite -> (bri b < length (br b))%nat).

Lemma binv0 : binv buf0.
Proof. unfold binv, buf0, pending; simpl. repeat split; try discriminate; auto. Qed.

Lemma map_fst_mark : forall ok l, map fst (mark ok l) = l.
Proof. intros; unfold mark; rewrite map_map; simpl; apply map_id. Qed.

Ltac bi := unfold binv, set_st, pending in *; simpl in *; (split; [|split]);
  [ | let Hq := fresh "Hq" in intros ? ? ? ? Hq; try discriminate Hq
    | let Hq := fresh "Hq" in intros Hq; try discriminate Hq ].

Lemma binv_signal : forall b, binv b -> binv (signal b).
Proof.
  intros b Hb. unfold signal. destruct (bst b) eqn:E; auto.
  destruct Hb as (H1 & H2 & H3). bi; auto. eapply H2; eauto.
Qed.

Lemma binv_push : forall c p b, binv b -> binv (fst (push c p b)).
Proof.
  intros c p b H. unfold push. destruct (cLen c <=? wi b); simpl.
  - apply binv_signal; auto.
  - apply binv_signal. destruct H as (H1 & H2 & H3).
    bi; eauto.
    rewrite H1. rewrite <- !app_assoc. reflexivity.
Qed.

(* a swap happens only when the read side is exhausted *)
Lemma binv_after_do_swap : forall post b,
  gacc b = map fst (gdone b) ++ pending b ++ bw b -> pending b = [] ->
  binv (after_swap post (do_swap b)).
Proof.
  intros post b H1 Hp. unfold do_swap. destruct (bclosed b) eqn:Ec.
  - unfold after_swap. destruct post.
    + bi; auto.
    + destruct (length (br b) <=? bri b)%nat eqn:El.
      * bi; auto.
      * apply Nat.leb_gt in El. bi; auto.
  - unfold after_swap; simpl. destruct post.
    + bi; auto. rewrite H1, Hp. simpl. rewrite app_nil_r. reflexivity.
    + destruct (length (bw b) <=? 0)%nat eqn:El.
      * bi; auto. rewrite H1, Hp. simpl. rewrite app_nil_r. reflexivity.
      * apply Nat.leb_gt in El. bi; auto. rewrite H1, Hp. simpl. rewrite app_nil_r. reflexivity.
Qed.

Lemma binv_swap_enter : forall c t post b,
  gacc b = map fst (gdone b) ++ pending b ++ bw b -> pending b = [] ->
  binv (swap_enter c t post b).
Proof.
  intros c t post b H1 Hp. unfold swap_enter. destruct (must_wait c b false).
  - bi; auto.
  - apply binv_after_do_swap; auto.
Qed.

Lemma pending_nil_of_le : forall b, (length (br b) <= bri b)%nat -> pending b = [].
Proof. intros b H. unfold pending. apply skipn_all2. exact H. Qed.

Lemma binv_pop_begin : forall c t b b', binv b -> pop_begin c t b = Some b' -> binv b'.
Proof.
  intros c t b b' (H1 & H2 & H3) H. unfold pop_begin in H. destruct (bst b) eqn:E; try discriminate.
  inversion H; subst; clear H. destruct (length (br b) <=? bri b)%nat eqn:El.
  - apply Nat.leb_le in El. apply binv_swap_enter; auto using pending_nil_of_le.
  - apply Nat.leb_gt in El. bi; auto.
Qed.

Lemma binv_wake : forall c b b', binv b -> wake c b = Some b' -> binv b'.
Proof.
  intros c b b' (H1 & H2 & H3) H. unfold wake in H. destruct (bst b) eqn:E; try discriminate.
  destruct woken; try discriminate. inversion H; subst; clear H.
  assert (Hp : pending b = []) by (eapply H2; eauto).
  destruct (must_wait c b fired).
  - bi; auto.
  - apply binv_after_do_swap; auto.
Qed.

Lemma binv_timer_fire : forall fxT c t b b', binv b -> timer_fire fxT c t b = Some b' -> binv b'.
Proof.
  intros fxT c t b b' (H1 & H2 & H3) H. unfold timer_fire in H. destruct (bst b) eqn:E; try discriminate.
  destruct fired; try discriminate. destruct (t0 + cMax c <=? t); try discriminate.
  inversion H; subst; clear H.
  assert (Hp : pending b = []) by (eapply H2; eauto).
  bi; auto.
Qed.

Lemma binv_write_ok : forall c t b b', binv b -> write_ok c t b = Some b' -> binv b'.
Proof.
  intros c t b b' (H1 & H2 & H3) H. unfold write_ok in H. destruct (bst b) eqn:E; try discriminate.
  inversion H; subst; clear H. apply binv_swap_enter.
  - unfold pending; simpl. rewrite skipn_all. simpl. rewrite map_app, map_fst_mark.
    rewrite H1. unfold pending. rewrite <- app_assoc. reflexivity.
  - unfold pending; simpl. apply skipn_all.
Qed.

Lemma firstn_nth_skipn : forall (A : Type) (l : list A) n x,
  nth_error l n = Some x -> l = firstn n l ++ [x] ++ skipn (S n) l.
Proof.
  induction l; intros n x H.
  - destruct n; discriminate.
  - destruct n; simpl in *.
    + inversion H; reflexivity.
    + f_equal. apply IHl; auto.
Qed.

Lemma skipn_add : forall A (l : list A) x y, skipn x (skipn y l) = skipn (x + y) l.
Proof.
  intros A l x y; revert l; induction y; intros; simpl.
  - rewrite Nat.add_0_r; auto.
  - destruct l. { rewrite !skipn_nil; auto. } rewrite Nat.add_succ_r. simpl. apply IHy.
Qed.

Lemma binv_write_err : forall fxR k b b', binv b -> write_err fxR k b = Some b' -> binv b'.
Proof.
  intros fxR k b b' (H1 & H2 & H3) H. unfold write_err in H. destruct (bst b) eqn:E; try discriminate.
  destruct (k <=? length (pending b))%nat eqn:Ek; try discriminate.
  apply Nat.leb_le in Ek. inversion H; subst; clear H.
  specialize (H3 eq_refl).
  assert (Hm : length (pending b) = (length (br b) - bri b)%nat) by (unfold pending; apply skipn_length).
  unfold binv; simpl. split; [|split; [intros; discriminate|intros; discriminate]].
  rewrite H1. rewrite !map_app, map_fst_mark. rewrite <- !app_assoc. f_equal.
  remember (pending b) as pd eqn:Epd.
  remember (length pd) as m eqn:Em.
  destruct fxR.
  - (* repaired: everything not written completely stays *)
    simpl. unfold pending; simpl.
    replace (length (br b) - k)%nat with ((m - k) + bri b)%nat by lia.
    rewrite <- skipn_add. unfold pending in Epd. rewrite <- Epd.
    rewrite <- (firstn_skipn (m - k) pd) at 1. rewrite <- app_assoc. reflexivity.
  - unfold pending; simpl.
    destruct (nth_error pd (m - k)) eqn:En.
    + simpl.
      assert (m - k < m)%nat by (subst m; apply nth_error_Some; congruence).
      replace (length (br b) + 1 - k)%nat with (S (m - k) + bri b)%nat by lia.
      rewrite <- skipn_add. unfold pending in Epd. rewrite <- Epd.
      rewrite (firstn_nth_skipn _ pd (m - k) p En) at 1.
      rewrite <- !app_assoc. reflexivity.
    + simpl. apply nth_error_None in En. assert (k = 0)%nat by lia. subst k.
      replace (m - 0)%nat with m in * by lia.
      subst m. rewrite firstn_all.
      replace (skipn (length (br b) + 1 - 0) (br b)) with (@nil pkt) by (symmetry; apply skipn_all2; lia).
      reflexivity.
Qed.

Lemma binv_close : forall b, binv b -> binv (close_buf b).
Proof.
  intros b (H1 & H2 & H3). unfold close_buf. apply binv_signal.
  bi; eauto.
Qed.

(* ---------- pool plumbing ---------- *)
Lemma getb_setb_same : forall a s b, getb a (setb a s b) = b.
Proof. destruct a; reflexivity. Qed.
Lemma getb_setb_other : forall a s b, getb (negb a) (setb a s b) = getb (negb a) s.
Proof. destruct a; reflexivity. Qed.

Lemma lift_some : forall a s r s', lift a s r = Some s' -> exists b, r = Some b /\ s' = setb a s b.
Proof. intros a s r s' H. destruct r; simpl in H; inversion H. eauto. Qed.

Definition pinv (s : pool) : Prop := binv (pa s) /\ binv (pb s).

Lemma pinv_setb : forall a s b, pinv s -> binv b -> pinv (setb a s b).
Proof. intros a s b (HA & HB) H. destruct a; split; simpl; auto. Qed.

Lemma pinv_getb : forall a s, pinv s -> binv (getb a s).
Proof. intros a s (HA & HB). destruct a; auto. Qed.

Lemma push_split : forall c p b, exists b' ok, push c p b = (b', ok).
Proof. intros. destruct (push c p b); eauto. Qed.

Lemma pinv_write_locked : forall c p len s, pinv s -> pinv (write_locked c p len s).
Proof.
  intros c p len s H. unfold write_locked. destruct (pclosed s).
  - destruct H; split; simpl; auto.
  - destruct (push c p (getb (primA s) s)) as [b1 ok1] eqn:E1.
    assert (Hb1 : binv b1) by (replace b1 with (fst (push c p (getb (primA s) s))) by (rewrite E1; reflexivity); apply binv_push, pinv_getb; auto).
    pose proof (pinv_setb (primA s) s b1 H Hb1) as Hs1.
    destruct ok1.
    + destruct Hs1; split; simpl; auto.
    + destruct (push c p (getb (negb (primA s)) (setb (primA s) s b1))) as [b2 ok2] eqn:E2.
      assert (Hb2 : binv b2) by (replace b2 with (fst (push c p (getb (negb (primA s)) (setb (primA s) s b1)))) by (rewrite E2; reflexivity); apply binv_push, pinv_getb; auto).
      pose proof (pinv_setb (negb (primA s)) _ b2 Hs1 Hb2) as Hs2.
      destruct ok2; destruct Hs2; split; simpl; auto.
Qed.

Lemma pinv_step : forall fxT fxR c st s s', pinv s -> app_step fxT fxR c st s = Some s' -> pinv s'.
Proof.
  intros fxT fxR c st s s' H Hs. destruct st; simpl in Hs.
  - inversion Hs; subst. apply pinv_write_locked; auto.
  - apply lift_some in Hs. destruct Hs as (b & Hb & ->). apply pinv_setb; auto. eapply binv_pop_begin; eauto using pinv_getb.
  - apply lift_some in Hs. destruct Hs as (b & Hb & ->). apply pinv_setb; auto. eapply binv_wake; eauto using pinv_getb.
  - apply lift_some in Hs. destruct Hs as (b & Hb & ->). apply pinv_setb; auto. eapply binv_timer_fire; eauto using pinv_getb.
  - apply lift_some in Hs. destruct Hs as (b & Hb & ->). apply pinv_setb; auto. eapply binv_write_ok; eauto using pinv_getb.
  - apply lift_some in Hs. destruct Hs as (b & Hb & ->). apply pinv_setb; auto. eapply binv_write_err; eauto using pinv_getb.
  - destruct (bst (getb a s)); try discriminate.
    destruct (a && negb (wbb s =? 0)); inversion Hs; subst; auto; destruct H; split; simpl; auto.
  - inversion Hs; subst. apply pinv_setb; auto. apply binv_close, pinv_getb; auto.
  - inversion Hs; subst. destruct H; split; simpl; auto.
  - destruct ((0 <? d) && negb (timer_blocks c (now s + d) (pa s)) && negb (timer_blocks c (now s + d) (pb s))); inversion Hs; subst.
    destruct H; split; simpl; auto.
  - destruct fxT; inversion Hs; subst. apply pinv_setb; auto. apply binv_signal, pinv_getb; auto.
Qed.

Lemma run_inv : forall (P : pool -> Prop) fxT fxR c,
  (forall st s s', P s -> app_step fxT fxR c st s = Some s' -> P s') ->
  forall tr s s', P s -> run fxT fxR c s tr = Some s' -> P s'.
Proof.
  intros P fxT fxR c Hstep. induction tr; intros s s' Hp Hr; simpl in Hr.
  - inversion Hr; subst; auto.
  - destruct (app_step fxT fxR c a s) eqn:E; try discriminate.
    apply (IHtr p s'); [eapply Hstep; eauto | exact Hr].
Qed.

Lemma pinv0 : pinv pool0.
Proof. split; apply binv0. Qed.

(* C31, clause "in acceptance order per connection" / "every packet the balancer accepts is written":
   at every moment, for each of the two connections, the packets accepted into its buffer are exactly, in
   order: those that left it (written completely, or skipped after a write error), then those waiting on
   the read side, then those on the write side.  Nothing is duplicated, invented, reordered or lost. *)
Theorem fifo_exact : forall fxT fxR c tr s a,
  run fxT fxR c pool0 tr = Some s ->
  gacc (getb a s) = map fst (gdone (getb a s)) ++ pending (getb a s) ++ bw (getb a s).
Proof.
  intros fxT fxR c tr s a Hr.
  assert (pinv s) by (eapply (run_inv pinv); eauto using pinv_step, pinv0).
  apply (pinv_getb a) in H. destruct H; auto.
Qed.

(* ---------- the third exit: packets skipped after a write error ---------- *)
Definition nofalse (b : buf) : Prop := Forall (fun x => snd x = true) (gdone b).

Lemma Forall_mark_true : forall l, Forall (fun x : pkt * bool => snd x = true) (mark true l).
Proof. induction l; simpl; constructor; auto. Qed.

Lemma nofalse_signal : forall b, nofalse b -> nofalse (signal b).
Proof. intros b H. unfold signal. destruct (bst b); auto. Qed.

Lemma gdone_after_swap : forall post b, gdone (after_swap post (do_swap b)) = gdone b.
Proof.
  intros. unfold after_swap, do_swap. destruct (bclosed b), post; simpl; auto.
  - destruct (length (br b) <=? bri b)%nat; auto.
  - destruct (length (bw b) <=? 0)%nat; auto.
Qed.

Lemma gdone_swap_enter : forall c t post b, gdone (swap_enter c t post b) = gdone b.
Proof. intros. unfold swap_enter. destruct (must_wait c b false); auto using gdone_after_swap. Qed.

Lemma gdone_push : forall c p b, gdone (fst (push c p b)) = gdone b.
Proof.
  intros. unfold push, signal. destruct (cLen c <=? wi b); simpl; destruct (bst b); auto.
Qed.

(* every step other than a write error leaves the skipped packets alone *)
Lemma gdone_step_buf : forall fxT fxR c st s s' x,
  app_step fxT fxR c st s = Some s' ->
  (forall a k, st <> WriteErr a k) ->
  exists l, gdone (getb x s') = gdone (getb x s) ++ mark true l.
Proof.
  intros fxT fxR c st s s' x Hs Hne.
  assert (Hnil : forall l : list (pkt * bool), l = l ++ mark true []) by (intros; simpl; rewrite app_nil_r; auto).
  destruct st; simpl in Hs.
  - inversion Hs; subst; clear Hs. exists []. rewrite <- Hnil.
    unfold write_locked. destruct (pclosed s); [destruct x; reflexivity|].
    destruct (push c p (getb (primA s) s)) as [b1 ok1] eqn:E1.
    assert (G1 : gdone b1 = gdone (getb (primA s) s)) by (replace b1 with (fst (push c p (getb (primA s) s))) by (rewrite E1; auto); apply gdone_push).
    destruct ok1.
    + destruct x, (primA s); simpl in *; auto.
    + destruct (push c p (getb (negb (primA s)) (setb (primA s) s b1))) as [b2 ok2] eqn:E2.
      assert (G2 : gdone b2 = gdone (getb (negb (primA s)) (setb (primA s) s b1))) by (replace b2 with (fst (push c p (getb (negb (primA s)) (setb (primA s) s b1)))) by (rewrite E2; auto); apply gdone_push).
      destruct ok2; destruct x, (primA s); simpl in *; auto.
  - apply lift_some in Hs. destruct Hs as (b & Hb & ->). exists []. rewrite <- Hnil.
    unfold pop_begin in Hb. destruct (bst (getb a s)) eqn:E; try discriminate. inversion Hb; subst; clear Hb.
    destruct x, a; simpl in *; auto; destruct (length (br _) <=? bri _)%nat; auto using gdone_swap_enter.
  - apply lift_some in Hs. destruct Hs as (b & Hb & ->). exists []. rewrite <- Hnil.
    unfold wake in Hb. destruct (bst (getb a s)) eqn:E; try discriminate. destruct woken; try discriminate.
    inversion Hb; subst; clear Hb.
    destruct x, a; simpl in *; auto; destruct (must_wait c _ fired); auto using gdone_after_swap.
  - apply lift_some in Hs. destruct Hs as (b & Hb & ->). exists []. rewrite <- Hnil.
    unfold timer_fire in Hb. destruct (bst (getb a s)) eqn:E; try discriminate. destruct fired; try discriminate.
    destruct (t0 + cMax c <=? now s); try discriminate. inversion Hb; subst; clear Hb.
    destruct x, a; simpl in *; auto.
  - apply lift_some in Hs. destruct Hs as (b & Hb & ->).
    unfold write_ok in Hb. destruct (bst (getb a s)) eqn:E; try discriminate. inversion Hb; subst; clear Hb.
    destruct x, a; simpl in *; try (exists []; apply Hnil); rewrite gdone_swap_enter; simpl; eauto.
  - exfalso. eapply Hne; eauto.
  - exists []. rewrite <- Hnil. destruct (bst (getb a s)); try discriminate.
    destruct (a && negb (wbb s =? 0)); inversion Hs; subst; auto; destruct x; reflexivity.
  - inversion Hs; subst. exists []. rewrite <- Hnil. unfold close_buf, signal.
    destruct x, a; simpl; auto; destruct (bst _); auto.
  - inversion Hs; subst. exists []. rewrite <- Hnil. destruct x; reflexivity.
  - destruct ((0 <? d) && negb (timer_blocks c (now s + d) (pa s)) && negb (timer_blocks c (now s + d) (pb s))); inversion Hs; subst.
    exists []. rewrite <- Hnil. destruct x; reflexivity.
  - destruct fxT; inversion Hs; subst. exists []. rewrite <- Hnil. unfold signal.
    destruct x, a; simpl; auto; destruct (bst _); auto.
Qed.

Lemma skipped_app_mark : forall l m, map fst (filter (fun x : pkt * bool => negb (snd x)) (l ++ mark true m)) = map fst (filter (fun x => negb (snd x)) l).
Proof.
  intros. rewrite filter_app, map_app.
  assert (filter (fun x : pkt * bool => negb (snd x)) (mark true m) = []) by (induction m; simpl; auto).
  rewrite H. simpl. apply app_nil_r.
Qed.

(* only a write error removes an accepted packet from the buffer without writing it ... *)
Theorem skipped_only_on_write_error : forall fxT fxR c st s s' x,
  app_step fxT fxR c st s = Some s' ->
  (forall a k, st <> WriteErr a k) ->
  skipped (getb x s') = skipped (getb x s).
Proof.
  intros. destruct (gdone_step_buf _ _ _ _ _ _ x H H0) as (l & Hl).
  unfold skipped. rewrite Hl. apply skipped_app_mark.
Qed.

(* ... and it removes at most one: the packet whose write failed *)
Theorem write_error_skips_at_most_one : forall fxT fxR c a k s s',
  app_step fxT fxR c (WriteErr a k) s = Some s' ->
  (length (skipped (getb a s')) <= length (skipped (getb a s)) + 1)%nat /\
  skipped (getb (negb a) s') = skipped (getb (negb a) s) /\
  (fxR = true -> skipped (getb a s') = skipped (getb a s)).
Proof.
  intros fxT fxR c a k s s' Hs. simpl in Hs. apply lift_some in Hs. destruct Hs as (b & Hb & ->).
  rewrite getb_setb_same, getb_setb_other.
  unfold write_err in Hb. destruct (bst (getb a s)); try discriminate.
  destruct (k <=? length (pending (getb a s)))%nat; try discriminate. inversion Hb; subst; clear Hb.
  unfold skipped; simpl. rewrite !filter_app, !map_app, !app_length.
  assert (Hm : forall m, filter (fun x : pkt * bool => negb (snd x)) (mark true m) = []) by (induction m; simpl; auto).
  rewrite Hm. simpl.
  destruct fxR; simpl.
  - rewrite app_nil_r. repeat split; auto. lia.
  - repeat split; auto; try discriminate.
    destruct (nth_error _ _); simpl; lia.
Qed.

(* repaired variant: nothing is ever skipped *)
Lemma nofalse_step : forall fxT c st s s' x,
  nofalse (getb x s) -> app_step fxT true c st s = Some s' -> nofalse (getb x s').
Proof.
  intros fxT c st s s' x Hn Hs.
  destruct st; try (destruct (gdone_step_buf fxT true c _ s s' x Hs) as (l & Hl); [intros; discriminate|];
                    unfold nofalse; rewrite Hl; apply Forall_app; split; auto using Forall_mark_true).
  simpl in Hs. apply lift_some in Hs. destruct Hs as (b & Hb & ->).
  unfold write_err in Hb. destruct (bst (getb a s)); try discriminate.
  destruct (k <=? length (pending (getb a s)))%nat; try discriminate. inversion Hb; subst; clear Hb.
  destruct x, a; simpl in *; auto; unfold nofalse; simpl; rewrite app_nil_r; apply Forall_app; split; auto using Forall_mark_true.
Qed.

Lemma filter_all_true : forall l : list (pkt * bool), Forall (fun x => snd x = true) l -> filter snd l = l.
Proof. induction 1; simpl; auto. rewrite H. f_equal; auto. Qed.

Theorem no_loss_repaired : forall fxT c tr s a,
  run fxT true c pool0 tr = Some s ->
  gacc (getb a s) = written (getb a s) ++ pending (getb a s) ++ bw (getb a s).
Proof.
  intros fxT c tr s a Hr.
  rewrite (fifo_exact _ _ _ _ _ a Hr). f_equal.
  assert (nofalse (getb a s)).
  { eapply (run_inv (fun s => nofalse (getb a s))); eauto.
    - intros. eapply nofalse_step; eauto.
    - destruct a; constructor. }
  unfold written. rewrite filter_all_true; auto.
Qed.

(* written packets keep the acceptance order: they are a subsequence of the accepted ones *)
Inductive subseq {A} : list A -> list A -> Prop :=
| sub_nil : forall l, subseq [] l
| sub_take : forall x l1 l2, subseq l1 l2 -> subseq (x :: l1) (x :: l2)
| sub_skip : forall x l1 l2, subseq l1 l2 -> subseq l1 (x :: l2).

Lemma subseq_filter_map : forall (l : list (pkt * bool)), subseq (map fst (filter snd l)) (map fst l).
Proof.
  induction l; simpl. constructor. destruct (snd a); simpl; constructor; auto.
Qed.

Lemma subseq_app_r : forall A (l1 l2 l3 : list A), subseq l1 l2 -> subseq l1 (l2 ++ l3).
Proof. induction 1; simpl; constructor; auto. Qed.

Theorem written_in_acceptance_order : forall fxT fxR c tr s a,
  run fxT fxR c pool0 tr = Some s -> subseq (written (getb a s)) (gacc (getb a s)).
Proof.
  intros. rewrite (fifo_exact _ _ _ _ _ a H). apply subseq_app_r. apply subseq_filter_map.
Qed.
