(* Correspondence cases for C31: one case = one whole history run on the real handler / Egress / tcpPool /
   pktBuffer inside a synctest bubble (fake clock), with a snapshot after every harness operation. *)
From Coq Require Import ZArith List Bool.
From SH Require Import Common.Corr Balancer.Model.
Import ListNotations.
Open Scope Z_scope.

(* harness operations; after each of them the harness calls synctest.Wait(), so every goroutine that was
   signalled has run (Wake) before the snapshot is taken *)
Inductive hop :=
| HW (n l : Z)            (* n packets with the next ids, frame length l each; Wait() after every single push *)
| HPop (a : bool)         (* the sender calls pop() *)
| HOk (a : bool)          (* the write callback returns nil *)
| HErr (a : bool) (k : nat) (* the write callback returns (k-1, err): k buffers were not written completely *)
| HRep (a : bool) (ok : bool)
| HCloseBuf (a : bool)
| HClosePool
| HSleep (d : Z).         (* time.Sleep(d ms): timers that become due fire on the way *)

(* snapshot of one pktBuffer: wi ri rm closed, position of the sender (0 out, 1 in cond.Wait, 2 in f),
   ids in w[0:wi] and r[ri:rm] as runs (first id, count) *)
Inductive bobs := BO (wi ri rm : Z) (closed : bool) (st : Z) (w rp : list (Z * Z)).
(* forwarded/dropped since the previous snapshot (Egress.Stats), wouldBlockBytes of p.primary, primPtr==&primary,
   len(reconCh) of both senders, bytes reported upstream by reportWouldBlockIfAny in this operation *)
Inductive obs := Ob (fwdD drpD wb : Z) (prim rA rB : bool) (rep : Z) (A B : bobs).

Fixpoint expand (l : list (Z * Z)) : list Z :=
  match l with
  | [] => []
  | (s, n) :: r => map (fun i => s + Z.of_nat i) (seq 0 (Z.to_nat n)) ++ expand r
  end.

Fixpoint list_eqb {A} (e : A -> A -> bool) (a b : list A) : bool :=
  match a, b with
  | [], [] => true
  | x :: a', y :: b' => e x y && list_eqb e a' b'
  | _, _ => false
  end.

Definition st_code (s : sst) : Z := match s with SOut => 0 | SWait _ _ _ _ => 1 | SWrite => 2 end.

Definition bobs_ok (b : buf) (o : bobs) : bool :=
  let 'BO w_i r_i r_m cl st w rp := o in
  (wi b =? w_i) && (Z.of_nat (bri b) =? r_i) && (Z.of_nat (length (br b)) =? r_m) && Bool.eqb (bclosed b) cl &&
  (st_code (bst b) =? st) && list_eqb Z.eqb (bw b) (expand w) && list_eqb Z.eqb (pending b) (expand rp).

Definition last_rep (before : nat) (s : pool) : Z :=
  match skipn before (greported s) with (n, _) :: _ => n | [] => 0 end.

Definition obs_ok (prev s : pool) (o : obs) : bool :=
  let 'Ob fd dd wb pr rA rB rep A B := o in
  (fwd s - fwd prev =? fd) && (drp s - drp prev =? dd) && (wbb s =? wb) && Bool.eqb (primA s) pr &&
  Bool.eqb (reconA s) rA && Bool.eqb (reconB s) rB && (last_rep (length (greported prev)) s =? rep) &&
  bobs_ok (pa s) A && bobs_ok (pb s) B.

Section Variant.
  Variables (fxT fxR : bool) (c : cfg).

  Definition woken (b : buf) : bool := match bst b with SWait _ _ _ true => true | _ => false end.
  (* every signalled sender re-takes the mutex (what synctest.Wait() waits for) *)
  Definition settle1 (a : bool) (s : pool) : option pool :=
    if woken (getb a s) then app_step fxT fxR c (Wake a) s else Some s.
  Definition settle (s : pool) : option pool :=
    match settle1 true s with Some s1 => settle1 false s1 | None => None end.

  Fixpoint writes (n : nat) (id l : Z) (s : pool) : option pool :=
    match n with
    | O => Some s
    | S n' => match app_step fxT fxR c (Write id l) s with
              | Some s1 => match settle s1 with Some s2 => writes n' (id + 1) l s2 | None => None end
              | None => None
              end
    end.

  Definition deadline (b : buf) : option Z :=
    match bst b with SWait _ t0 false _ => Some (t0 + cMax c) | _ => None end.

  (* sleep d: advance to the earliest due timer, fire it, let the signalled sender run, continue *)
  Fixpoint sleep (fuel : nat) (d : Z) (s : pool) : option pool :=
    match fuel with
    | O => None
    | S fuel' =>
        let t := now s + d in
        let due a := match deadline (getb a s) with Some x => if x <=? t then Some x else None | None => None end in
        let pick := match due true, due false with
                    | Some x, Some y => if x <=? y then Some (true, x) else Some (false, y)
                    | Some x, None => Some (true, x)
                    | None, Some y => Some (false, y)
                    | None, None => None
                    end in
        match pick with
        | None => if d =? 0 then Some s else app_step fxT fxR c (Tick d) s
        | Some (a, x) =>
            let s1 := if x <=? now s then Some s else app_step fxT fxR c (Tick (x - now s)) s in
            match s1 with
            | Some s1 =>
                match app_step fxT fxR c (TimerFire a) s1 with
                | Some s2 => match settle s2 with Some s3 => sleep fuel' (t - now s3) s3 | None => None end
                | None => None
                end
            | None => None
            end
        end
    end.

  Definition macro (h : hop) (sn : pool * Z) : option (pool * Z) :=
    let '(s, nx) := sn in
    let keep r := match r with Some s' => Some (s', nx) | None => None end in
    match h with
    | HW n l => match writes (Z.to_nat n) nx l s with Some s' => Some (s', nx + n) | None => None end
    | HPop a => keep (app_step fxT fxR c (PopBegin a) s)
    | HOk a => keep (app_step fxT fxR c (WriteOk a) s)
    | HErr a k => keep (app_step fxT fxR c (WriteErr a k) s)
    | HRep a ok => keep (app_step fxT fxR c (Report a ok) s)
    | HCloseBuf a => keep (match app_step fxT fxR c (CloseBuf a) s with Some s1 => settle s1 | None => None end)
    | HClosePool => keep (app_step fxT fxR c ClosePool s)
    | HSleep d => keep (sleep 8 d s)
    end.

  Fixpoint check (sn : pool * Z) (ops : list hop) (os : list obs) : bool :=
    match ops, os with
    | [], [] => true
    | h :: ops', o :: os' =>
        match macro h sn with
        | Some sn' => obs_ok (fst sn) (fst sn') o && check sn' ops' os'
        | None => false
        end
    | _, _ => false
    end.
End Variant.

Inductive case :=
(* constants read from the package (bufferLen, bufferLen*20/100 as written in swap(), swapWaitMax in ms, pktHeadLen) *)
| CHist (blen thr wmax hlen : Z) (ops : list hop) (os : list obs)
(* bodies given to handler.HandleMetricsBatchRaw and the bytes of the batch handed to the write callback *)
| CFrames (bodies : list (list Z)) (out : list Z)
(* real sendLoop against a TCP listener that reset the connection: the write of a batch fails with nothing
   written; off = (first id that arrives on the new connection) - (first id of that batch): 0 = the packet
   whose write failed is retried, 1 = it is skipped; -1: the real-time scenario was inconclusive *)
| CRetry (off : Z)
(* addressPool of n addresses 0..n-1 starting at head: the indices chosen by successive picks / by successive
   tcpSender.reconnect() attempts (real dials to refusing ports) *)
| CPicks (n head : Z) (obs : list Z).

Definition cfg_eqb (a b : cfg) : bool := (cLen a =? cLen b) && (cThr a =? cThr b) && (cMax a =? cMax b).

Definition ok (c : case) : bool :=
  match c with
  | CHist blen thr wmax hlen ops os =>
      let cf := mkCfg blen thr wmax in
      cfg_eqb cf real_cfg && (hlen =? 4) &&
      (* lazily: vm_compute evaluates both arguments of || *)
      (if check false false cf (pool0, 1) ops os then true
       else if check true false cf (pool0, 1) ops os then true
       else if check false true cf (pool0, 1) ops os then true
       else check true true cf (pool0, 1) ops os)
  | CFrames bodies out =>
      list_eqb Z.eqb (concat (map frame bodies)) out &&
      match parse_frames (length bodies) out with
      | Some fs => list_eqb (list_eqb Z.eqb) fs bodies
      | None => false
      end
  | CRetry off =>
      if off =? -1 then true else
      let b := mkBuf [] [10; 11; 12] 0 false SWrite [] [] in
      let t fxR := match write_err fxR 3 b with
                   | Some b' => match pending b' with p :: _ => p - 10 =? off | [] => false end
                   | None => false
                   end in
      if t false then true else t true
  | CPicks n head obs =>
      list_eqb Z.eqb (picks (length obs) (mkAp (map Z.of_nat (seq 0 (Z.to_nat n))) (Z.to_nat head))) obs
  end.

Definition mism := mismatches ok.
