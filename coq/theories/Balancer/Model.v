(* Executable model of the balancer egress (internal/balancer/egress.go, handler.go) for C31.

   One model step = one critical section of pktBuffer.mu (or one sender-local action between two of
   them).  The model contains
     - pktBuffer: the write side w[0:wi], the read side r[0:rm] with the cursor ri, closed, and the
       position of the sender goroutine relative to pop()/swap() (outside pop / inside cond.Wait of
       swap() with the start time of that swap, its `timeout` variable and a "signalled, has not yet
       re-taken the mutex" flag / inside the write callback f);
     - tcpPool.writeLocked + Egress.WritePacketLocked: primary/secondary pointer swap, reconCh,
       forwarded/dropped counters, wouldBlockBytes of p.primary;
     - tcpSender.reportWouldBlockIfAny;
     - time: `now` (milliseconds) advanced by Tick; the timer of a swap() fires at t0 + swapWaitMax.
   Packets are abstract ids (Z); the bytes of a frame are modelled separately (frame / parse_frames).

   Two defects are selectable (dual model): fxT = the timer callback of swap() also signals the
   condition variable (the code as it is: false); fxR = a write error keeps the packet whose write
   failed for the retry (the code as it is: false, "not resend for last").
   Ghost fields (gacc, gdone, gdropped, greported) record what happened; no step reads them. *)
From Coq Require Import ZArith List Bool.
Import ListNotations.
Open Scope Z_scope.

Definition pkt := Z.

Record cfg := mkCfg { cLen : Z;   (* bufferLen *)
                      cThr : Z;   (* bufferLen*20/100 *)
                      cMax : Z }. (* swapWaitMax, ms *)

(* the constants of the pinned source; every correspondence case carries the values the harness read
   from the package and Corr.ok compares them with these *)
Definition real_cfg := mkCfg 200 40 1000.

Inductive sst :=
| SOut                                              (* sender is outside pop() *)
| SWait (post : bool) (t0 : Z) (fired woken : bool) (* inside swap(), in cond.Wait; post = the swap after a successful write *)
| SWrite.                                           (* inside f(b.r[ri:rm]) *)

Record buf := mkBuf {
  bw : list pkt;              (* w[0:wi] *)
  br : list pkt;              (* r[0:rm] *)
  bri : nat;                  (* ri *)
  bclosed : bool;
  bst : sst;
  gacc : list pkt;            (* ghost: packets accepted by push, in order *)
  gdone : list (pkt * bool)   (* ghost: packets that left the buffer, in order; true = whole frame handed to a
                                 successful write, false = skipped after a write error *)
}.

Definition buf0 := mkBuf [] [] 0 false SOut [] [].

Definition set_st (b : buf) (s : sst) : buf := mkBuf (bw b) (br b) (bri b) (bclosed b) s (gacc b) (gdone b).
Definition pending (b : buf) : list pkt := skipn (bri b) (br b).
Definition wi (b : buf) : Z := Z.of_nat (length (bw b)).

(* cond.Signal / Broadcast: a goroutine in cond.Wait becomes runnable; it acts when it re-takes the mutex (Wake) *)
Definition signal (b : buf) : buf :=
  match bst b with SWait p t f _ => set_st b (SWait p t f true) | _ => b end.

(* pktBuffer.push *)
Definition push (c : cfg) (p : pkt) (b : buf) : buf * bool :=
  if cLen c <=? wi b then (signal b, false)
  else (signal (mkBuf (bw b ++ [p]) (br b) (bri b) (bclosed b) (bst b) (gacc b ++ [p]) (gdone b)), true).

(* the tail of swap(): if closed return, else rm = wi; wi = 0; ri = 0; r, w = w, r *)
Definition do_swap (b : buf) : buf :=
  if bclosed b then b else mkBuf [] (bw b) 0 (bclosed b) (bst b) (gacc b) (gdone b).

(* where pop() continues after swap() returned *)
Definition after_swap (post : bool) (b : buf) : buf :=
  if post then set_st b SOut
  else if (length (br b) <=? bri b)%nat then set_st b SOut else set_st b SWrite.

(* loop condition of swap(): b.wi < bufferLen*20/100 && !b.closed && !timeout *)
Definition must_wait (c : cfg) (b : buf) (fired : bool) : bool :=
  (wi b <? cThr c) && negb (bclosed b) && negb fired.

Definition swap_enter (c : cfg) (now : Z) (post : bool) (b : buf) : buf :=
  if must_wait c b false then set_st b (SWait post now false false)
  else after_swap post (do_swap b).

(* pop(): if ri >= rm swap(); if ri >= rm return nil; f(r[ri:rm]) *)
Definition pop_begin (c : cfg) (now : Z) (b : buf) : option buf :=
  match bst b with
  | SOut => Some (if (length (br b) <=? bri b)%nat then swap_enter c now false b else set_st b SWrite)
  | _ => None
  end.

(* the signalled sender re-takes the mutex and re-evaluates the loop condition *)
Definition wake (c : cfg) (b : buf) : option buf :=
  match bst b with
  | SWait post t0 f true =>
      Some (if must_wait c b f then set_st b (SWait post t0 f false) else after_swap post (do_swap b))
  | _ => None
  end.

(* time.AfterFunc(swapWaitMax, func(){ lock; timeout = true; unlock })
   repaired variant: func(){ lock; timeout = true; unlock; b.cond.Broadcast() } - the waiting sender is woken; the
   case in which the Broadcast comes after another wake-up is the separate step Signal *)
Definition timer_fire (fxT : bool) (c : cfg) (now : Z) (b : buf) : option buf :=
  match bst b with
  | SWait post t0 false w => if t0 + cMax c <=? now then Some (set_st b (SWait post t0 true (w || fxT))) else None
  | _ => None
  end.

Definition mark (ok : bool) (l : list pkt) : list (pkt * bool) := map (fun p => (p, ok)) l.

(* f returned nil: b.ri = b.rm; b.swap() *)
Definition write_ok (c : cfg) (now : Z) (b : buf) : option buf :=
  match bst b with
  | SWrite => Some (swap_enter c now true
                      (mkBuf (bw b) (br b) (length (br b)) (bclosed b) (bst b) (gacc b) (gdone b ++ mark true (pending b))))
  | _ => None
  end.

(* f returned (len(bufs)-1, err) where k = len(bufs) = number of buffers not written completely
   (net.Buffers.WriteTo consumed the others): b.ri = b.rm - (k-1).  Repaired: b.ri = b.rm - k. *)
Definition write_err (fxR : bool) (k : nat) (b : buf) : option buf :=
  match bst b with
  | SWrite =>
      let pend := pending b in
      let m := length pend in
      if (k <=? m)%nat then
        let written := firstn (m - k) pend in
        let failed := match nth_error pend (m - k) with Some p => [(p, false)] | None => [] end in
        Some (mkBuf (bw b) (br b)
                (if fxR then length (br b) - k else length (br b) + 1 - k)%nat
                (bclosed b) SOut (gacc b)
                (gdone b ++ mark true written ++ (if fxR then [] else failed)))
      else None
  | _ => None
  end.

(* pktBuffer.close: closed = true; Broadcast *)
Definition close_buf (b : buf) : buf :=
  signal (mkBuf (bw b) (br b) (bri b) true (bst b) (gacc b) (gdone b)).

(* ---------------- pool, stats, time ---------------- *)

Record pool := mkPool {
  pa : buf;                  (* p.primary.buf *)
  pb : buf;                  (* p.secondary.buf *)
  primA : bool;              (* p.primPtr == &p.primary *)
  pclosed : bool;            (* p.closed is closed *)
  wbb : Z;                   (* p.primary.wouldBlockBytes (the secondary's is never written) *)
  reconA : bool; reconB : bool;   (* a token is queued in the sender's reconCh (capacity 1) *)
  fwd : Z; drp : Z;          (* stats.forwardedPackets / droppedPackets, cumulative *)
  now : Z;
  gdropped : list (pkt * Z); (* ghost: packets refused because both buffers were full, with their frame length *)
  gcdrops : Z;               (* ghost: packets refused because the pool was closed *)
  greported : list (Z * bool) (* ghost: would-block reports handed to conn.Write (bytes, write succeeded) *)
}.

Definition pool0 := mkPool buf0 buf0 true false 0 false false 0 0 0 [] 0 [].

Definition getb (a : bool) (s : pool) : buf := if a then pa s else pb s.
Definition setb (a : bool) (s : pool) (b : buf) : pool :=
  if a then mkPool b (pb s) (primA s) (pclosed s) (wbb s) (reconA s) (reconB s) (fwd s) (drp s) (now s) (gdropped s) (gcdrops s) (greported s)
  else mkPool (pa s) b (primA s) (pclosed s) (wbb s) (reconA s) (reconB s) (fwd s) (drp s) (now s) (gdropped s) (gcdrops s) (greported s).

Inductive step :=
| Write (p : pkt) (len : Z)   (* handler.HandleMetricsBatchRaw of a non-empty packet -> Egress.WritePacketLocked; len = frame length *)
| PopBegin (a : bool)         (* a = true: the sender of p.primary, false: of p.secondary *)
| Wake (a : bool)
| TimerFire (a : bool)
| WriteOk (a : bool)
| WriteErr (a : bool) (k : nat)
| Report (a : bool) (ok : bool)   (* reportWouldBlockIfAny; ok = conn.Write succeeded *)
| CloseBuf (a : bool)
| ClosePool
| Tick (d : Z)
| Signal (a : bool).          (* repaired timer only: its Broadcast happens after the callback released the mutex, so it
                                 can also arrive late (after a push already woke the sender), in a later wait *)

(* tcpPool.writeLocked + the counters of WritePacketLocked; second component: accepted? *)
Definition write_locked (c : cfg) (p : pkt) (len : Z) (s : pool) : pool :=
  if pclosed s then
    mkPool (pa s) (pb s) (primA s) (pclosed s) (wbb s) (reconA s) (reconB s) (fwd s) (drp s + 1) (now s) (gdropped s) (gcdrops s + 1) (greported s)
  else
    let pr := primA s in
    let '(b1, ok1) := push c p (getb pr s) in
    let s1 := setb pr s b1 in
    if ok1 then
      mkPool (pa s1) (pb s1) (primA s1) (pclosed s1) (wbb s1) (reconA s1) (reconB s1) (fwd s1 + 1) (drp s1) (now s1) (gdropped s1) (gcdrops s1) (greported s1)
    else
      let '(b2, ok2) := push c p (getb (negb pr) s1) in
      let s2 := setb (negb pr) s1 b2 in
      if ok2 then
        (* reconCh of the old primary gets a token (non-blocking send), pointers are swapped *)
        mkPool (pa s2) (pb s2) (negb pr) (pclosed s2) (wbb s2)
               (if pr then true else reconA s2) (if pr then reconB s2 else true)
               (fwd s2 + 1) (drp s2) (now s2) (gdropped s2) (gcdrops s2) (greported s2)
      else
        mkPool (pa s2) (pb s2) (primA s2) (pclosed s2) (wbb s2 + len) (reconA s2) (reconB s2)
               (fwd s2) (drp s2 + 1) (now s2) (gdropped s2 ++ [(p, len)]) (gcdrops s2) (greported s2).

Definition lift (a : bool) (s : pool) (r : option buf) : option pool :=
  match r with Some b => Some (setb a s b) | None => None end.

(* urgent = must happen before time passes: a signalled sender runs, a due timer fires *)
Definition timer_blocks (c : cfg) (t : Z) (b : buf) : bool :=
  match bst b with
  | SWait _ _ _ true => true
  | SWait _ t0 false false => t0 + cMax c <? t
  | _ => false
  end.

Definition set_now (s : pool) (t : Z) : pool :=
  mkPool (pa s) (pb s) (primA s) (pclosed s) (wbb s) (reconA s) (reconB s) (fwd s) (drp s) t (gdropped s) (gcdrops s) (greported s).

Definition app_step (fxT fxR : bool) (c : cfg) (st : step) (s : pool) : option pool :=
  match st with
  | Write p len => Some (write_locked c p len s)
  | PopBegin a => lift a s (pop_begin c (now s) (getb a s))
  | Wake a => lift a s (wake c (getb a s))
  | TimerFire a => lift a s (timer_fire fxT c (now s) (getb a s))
  | WriteOk a => lift a s (write_ok c (now s) (getb a s))
  | WriteErr a k => lift a s (write_err fxR k (getb a s))
  | Report a ok =>
      match bst (getb a s) with
      | SOut =>
          if a && negb (wbb s =? 0) then
            Some (mkPool (pa s) (pb s) (primA s) (pclosed s) 0 (reconA s) (reconB s) (fwd s) (drp s) (now s)
                         (gdropped s) (gcdrops s) (greported s ++ [(wbb s, ok)]))
          else Some s
      | _ => None
      end
  | CloseBuf a => Some (setb a s (close_buf (getb a s)))
  | ClosePool => Some (mkPool (pa s) (pb s) (primA s) true (wbb s) (reconA s) (reconB s) (fwd s) (drp s) (now s) (gdropped s) (gcdrops s) (greported s))
  | Tick d =>
      if (0 <? d) && negb (timer_blocks c (now s + d) (pa s)) && negb (timer_blocks c (now s + d) (pb s))
      then Some (set_now s (now s + d)) else None
  | Signal a => if fxT then Some (setb a s (signal (getb a s))) else None
  end.

Fixpoint run (fxT fxR : bool) (c : cfg) (s : pool) (tr : list step) : option pool :=
  match tr with
  | [] => Some s
  | st :: tr' => match app_step fxT fxR c st s with Some s' => run fxT fxR c s' tr' | None => None end
  end.

(* number of packets that have left the write side of a buffer (moved to the read side by a swap) *)
Definition handed (b : buf) : Z := Z.of_nat (length (gacc b)) - Z.of_nat (length (bw b)).

Definition written (b : buf) : list pkt := map fst (filter snd (gdone b)).
Definition skipped (b : buf) : list pkt := map fst (filter (fun x => negb (snd x)) (gdone b)).

(* ---------------- framing (handler.HandleMetricsBatchRaw) ---------------- *)
(* h.pkt = append(h.pkt[:4], pkt...); PutUint32(h.pkt[:4], len(pkt)) *)
Definition le32 (n : Z) : list Z :=
  [n mod 256; (n / 256) mod 256; (n / 65536) mod 256; (n / 16777216) mod 256].
Definition frame (body : list Z) : list Z := le32 (Z.of_nat (length body)) ++ body.

(* the reader at the other end of one connection: length-prefixed frames (receiver_tcp.go reads the same
   4-byte little-endian length) *)
Fixpoint parse_frames (fuel : nat) (s : list Z) : option (list (list Z)) :=
  match fuel with
  | O => match s with [] => Some [] | _ => None end
  | S fuel' =>
      match s with
      | [] => Some []
      | b0 :: b1 :: b2 :: b3 :: rest =>
          let n := Z.to_nat (b0 + 256 * b1 + 65536 * b2 + 16777216 * b3) in
          if (n <=? length rest)%nat then
            match parse_frames fuel' (skipn n rest) with
            | Some fs => Some (firstn n rest :: fs)
            | None => None
            end
          else None
      | _ => None
      end
  end.

(* ---------------- upstream address rotation (addressPool.pick, used by tcpSender.reconnect) ---------------- *)
Record apool := mkAp { ap_addrs : list Z; ap_head : nat }.

(* if len(p.addrs) == 0 return "", false; addr := p.addrs[p.head]; p.head = (p.head + 1) % len(p.addrs) *)
Definition pick (p : apool) : option (Z * apool) :=
  match ap_addrs p with
  | [] => None
  | _ => Some (nth (ap_head p) (ap_addrs p) 0,
               mkAp (ap_addrs p) ((ap_head p + 1) mod length (ap_addrs p)))
  end.

(* the addresses returned by k successive picks (k successive reconnect attempts of one sender) *)
Fixpoint picks (k : nat) (p : apool) : list Z :=
  match k with
  | O => []
  | S k' => match pick p with Some (a, p') => a :: picks k' p' | None => [] end
  end.
