(* Correspondence cases for C10: inputs given to the Go implementation with what it returned. *)
From Coq Require Import ZArith List Bool.
From SH Require Import Common.Wrap Common.Corr Routing.Model.
Import ListNotations.
Open Scope Z_scope.

Definition opt_eqb {A} (e : A -> A -> bool) (a b : option A) : bool :=
  match a, b with Some x, Some y => e x y | None, None => true | _, _ => false end.

Inductive case :=
(* sharding.Shard + Agent.shard; o_raw/o_rawok = sharding.Shard result, (o_n,o_ok,o_s2) = Agent.shard;
   o_n_t2 = Agent.shard primary index for the same key with another timestamp *)
| CShard (km kh : Z) (m : meta) (cnt ns : Z) (o_raw : Z) (o_rawok : bool) (o_n : Z) (o_ok : bool) (o_s2 : option Z) (o_n_t2 : Z)
| CApi (m : meta) (num : Z) (o_sharded : bool) (o_shard : Z)
| CReplica (t : Z) (a0 a1 a2 : bool) (o : option (Z * bool))
| CFile (historic : bool) (t oldest newest hw rk : Z) (o : filing).

Definition filing_eqb (a b : filing) : bool :=
  match a, b with
  | FDiscard, FDiscard | FKeep, FKeep => true
  | FRecent x, FRecent y | FHistoric x, FHistoric y => x =? y
  | _, _ => false
  end.

Definition ok (c : case) : bool :=
  match c with
  | CShard km kh m cnt ns o_raw o_rawok o_n o_ok o_s2 o_n_t2 =>
      let '(r, rok) := shard km kh m cnt in
      let '(n, k, s2) := agent_shard km kh m cnt ns in
      (r =? o_raw) && Bool.eqb rok o_rawok && (n =? o_n) && Bool.eqb k o_ok && opt_eqb Z.eqb s2 o_s2 && (n =? o_n_t2)
  | CApi m num o_sharded o_shard =>
      Bool.eqb (api_sharded m) o_sharded && (api_shard m num =? o_shard)
  | CReplica t a0 a1 a2 o =>
      let alive := fun r => if r =? 0 then a0 else if r =? 1 then a1 else a2 in
      opt_eqb (fun x y => (fst x =? fst y) && Bool.eqb (snd x) (snd y)) (replica_for_second alive t) o
  | CFile h t oldest newest hw rk o =>
      opt_eqb filing_eqb (file_bucket h t oldest newest hw rk) (Some o)
  end.

Definition mism := mismatches ok.
