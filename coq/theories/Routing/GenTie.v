(* Tie between the definitions generated from aggregator_handlers.go / aggregator.go (Gen/Filing.v,
   re-emitted from /repo on every run) and the hand-written routing model. *)
From Coq Require Import ZArith Bool Lia.
From SH Require Import Common.Wrap Routing.Model Gen.Filing.
Open Scope Z_scope.

Lemma gen_round_tie t r rk :
  gen_round_init t = t /\
  gen_round_continue r rk = negb (r mod 3 =? u32 (rk - 1)) /\
  gen_round_step r = u32 (r + 1).
Proof. repeat split. Qed.

Lemma recent_index_roundtrip r oldest : is_u32 r -> is_u32 oldest -> oldest <= r -> u32 (oldest + u32 (r - oldest)) = r.
Proof.
  unfold is_u32. intros Hr Ho Hle. rewrite (u32_id (r - oldest)) by (unfold is_u32; lia).
  replace (oldest + (r - oldest)) with r by lia. apply u32_id. exact Hr.
Qed.

Lemma gen_file_tie h t r oldest newest hw :
  is_u32 r -> is_u32 oldest ->
  gen_file h t r oldest newest hw = file_decision h t r oldest newest hw.
Proof.
  intros Hr Ho. unfold gen_file, file_decision.
  destruct h.
  - destruct (newest <? r); [reflexivity|].
    destruct ((hw <=? oldest) && (r <? u32 (oldest - hw))); [reflexivity|].
    destruct (r <? oldest) eqn:E; [reflexivity|]. apply Z.ltb_ge in E.
    rewrite recent_index_roundtrip by assumption. reflexivity.
  - destruct (newest <? r); [reflexivity|].
    destruct (r <? oldest) eqn:E; [reflexivity|]. apply Z.ltb_ge in E.
    rewrite recent_index_roundtrip by assumption. reflexivity.
Qed.

Lemma gen_ticker_tie bt rk : gen_ticker_skip bt rk = negb (ticker_inserts bt rk).
Proof. reflexivity. Qed.
