(* Search for a concrete failing input on the *generated* definitions (i.e. on what the source says now):
   used by bin/check when a proof obligation of C10 no longer checks. *)
From Coq Require Import ZArith Bool List.
From SH Require Import Common.Wrap Routing.Model Gen.Filing.
Import ListNotations.
Open Scope Z_scope.

Fixpoint gen_round (fuel : nat) (r rk : Z) : option Z :=
  if gen_round_continue r rk then
    match fuel with O => None | S f => gen_round f (gen_round_step r) rk end
  else Some r.

(* the property (C10, last clause) evaluated on the generated definitions *)
Definition spec_ok (c : bool * Z * Z * Z * Z * Z) : bool :=
  let '(h, t, oldest, newest, hw, rk) := c in
  match gen_round 8 (gen_round_init t) rk with
  | None => false
  | Some r =>
    (r mod 3 =? rk - 1) && (t <=? r) && (r <=? t + 2) &&
    match gen_file h t r oldest newest hw with
    | FRecent x => (x =? r) && (oldest <=? x) && (x <=? newest) && negb (gen_ticker_skip x rk)
    | FHistoric x => h && (x =? t) && (r <? oldest)
    | FKeep => negb h && (r <? oldest)
    | FDiscard => (newest <? r) || (h && (hw <=? oldest) && (r <? oldest - hw))
    end
  end.

Definition range (lo : Z) (n : nat) : list Z := map (fun i => lo + Z.of_nat i) (seq 0 n).

Definition grid : list (bool * Z * Z * Z * Z * Z) :=
  flat_map (fun h => flat_map (fun rk => flat_map (fun oldest => flat_map (fun hw =>
    map (fun t => (h, t, oldest, oldest + 6, hw, rk)) (range (oldest - hw - 6) (Z.to_nat (hw + 20)))
  ) [10; 40]) [1000; 1001; 1002; 100000]) [1; 2; 3]) [true; false].

Definition witness : option (bool * Z * Z * Z * Z * Z) := find (fun c => negb (spec_ok c)) grid.
