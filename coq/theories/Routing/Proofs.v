From Coq Require Import ZArith List Bool Lia.
From SH Require Import Common.Wrap Routing.Model.
Import ListNotations.
Open Scope Z_scope.

Ltac Zify.zify_post_hook ::= Z.div_mod_to_equations.

Lemma shard_by_mapped_tags_range h n :
  is_u64 h -> is_u32 n -> 0 < n -> 0 <= shard_by_mapped_tags h n < n.
Proof.
  unfold is_u64, is_u32, shard_by_mapped_tags, u32, u64, two32, two64. intros Hh Hn Hp.
  assert (Hq : 0 <= h / 4294967296 < 4294967296) by lia.
  set (q := h / 4294967296) in *.
  assert (Hm : 0 <= q * n < 4294967296 * n) by nia.
  rewrite (Z.mod_small (q * n)) by nia.
  assert (Hd : 0 <= q * n / 4294967296 < n).
  { split. apply Z.div_pos; lia. apply Z.div_lt_upper_bound; lia. }
  rewrite Z.mod_small by lia. exact Hd.
Qed.

Definition wf_meta (m : meta) : Prop :=
  is_i32 (m_metric_id m) /\ is_u32 (m_fixed_key m) /\ is_u32 (m_fixed_key2 m) /\ is_u32 (m_shard_num m).

Lemma shard_nonneg km kh m cnt n ok :
  wf_meta m -> is_u64 kh -> is_u32 cnt -> 0 < cnt ->
  shard km kh m cnt = (n, ok) -> 0 <= n.
Proof.
  intros (Hid & Hk & Hk2 & Hsn) Hkh Hcnt Hc. unfold shard.
  destruct (0 <? m_fixed_key m).
  - intros E; inversion E; subst. apply u32_range.
  - destruct (m_strategy m); intros E; inversion E; subst.
    + apply Hsn.
    + pose proof (u32_range km) as H. unfold is_u32 in H. apply Z.mod_pos_bound. lia.
    + apply shard_by_mapped_tags_range; assumption.
    + lia.
Qed.

(* shard1 is inside the configured shard list and shard2, when present, is another valid shard *)
Lemma agent_shard_in_range km kh m cnt ns n ok s2 :
  wf_meta m -> is_u64 kh -> is_u32 cnt -> 0 < cnt -> 0 < ns ->
  agent_shard km kh m cnt ns = (n, ok, s2) ->
  0 <= n < ns /\ (forall n2, s2 = Some n2 -> 0 <= n2 < ns /\ n2 <> n).
Proof.
  intros Hm Hkh Hcnt Hc Hns. unfold agent_shard.
  destruct (shard km kh m cnt) as [n0 ok0] eqn:Es.
  pose proof (shard_nonneg _ _ _ _ _ _ Hm Hkh Hcnt Hc Es) as Hn0.
  destruct (negb ok0 || (ns <=? n0)) eqn:E1.
  - intros E; inversion E; subst; clear E. split; [lia|].
    intros n2. destruct (0 <? m_fixed_key2 m); [|discriminate].
    destruct ((u32 (m_fixed_key2 m - 1) <? ns) && negb (u32 (m_fixed_key2 m - 1) =? 0)) eqn:E2; [|discriminate].
    intros E; inversion E; subst. apply andb_prop in E2. destruct E2 as [A B].
    apply Z.ltb_lt in A. apply negb_true_iff, Z.eqb_neq in B.
    pose proof (u32_range (m_fixed_key2 m - 1)) as R. unfold is_u32 in R. lia.
  - apply orb_false_elim in E1. destruct E1 as [_ E1]. apply Z.leb_gt in E1.
    intros E; inversion E; subst; clear E. split; [lia|].
    intros n2. destruct (0 <? m_fixed_key2 m); [|discriminate].
    destruct ((u32 (m_fixed_key2 m - 1) <? ns) && negb (u32 (m_fixed_key2 m - 1) =? n)) eqn:E2; [|discriminate].
    intros E; inversion E; subst. apply andb_prop in E2. destruct E2 as [A B].
    apply Z.ltb_lt in A. apply negb_true_iff, Z.eqb_neq in B.
    pose proof (u32_range (m_fixed_key2 m - 1)) as R. unfold is_u32 in R. lia.
Qed.

(* the primary shard is valid iff sharding.Shard succeeded with a number inside the list *)
Lemma agent_shard_ok_iff km kh m cnt ns n ok s2 :
  agent_shard km kh m cnt ns = (n, ok, s2) ->
  ok = true <-> (snd (shard km kh m cnt) = true /\ fst (shard km kh m cnt) < ns /\ n = fst (shard km kh m cnt)).
Proof.
  unfold agent_shard. destruct (shard km kh m cnt) as [n0 ok0]. cbn [fst snd].
  destruct ok0; cbn [negb orb].
  - destruct (ns <=? n0) eqn:E; intros H; inversion H; subst; split.
    + discriminate. + apply Z.leb_le in E. lia.
    + intros _. apply Z.leb_gt in E. auto. + auto.
  - intros H; inversion H; subst. split. discriminate. intros [A _]. discriminate.
Qed.

(* For fixed-key, fixed and by-metric sharding the agent's shard equals what the API computes,
   given both sides are configured with the same shard count. *)
Lemma agent_api_agree km kh m cnt ns n s2 :
  wf_meta m -> is_u32 cnt -> 0 < cnt -> km = m_metric_id m ->
  api_sharded m = true ->
  agent_shard km kh m cnt ns = (n, true, s2) ->
  api_shard m cnt = n.
Proof.
  intros Hm Hcnt Hc Hkm Hs H.
  pose proof (proj1 (agent_shard_ok_iff _ _ _ _ _ _ _ _ H) eq_refl) as (A & B & C).
  subst n. unfold api_sharded in Hs. unfold api_shard, shard.
  destruct (0 <? m_fixed_key m); [reflexivity|].
  destruct (m_strategy m); try discriminate; cbn [fst].
  - reflexivity.
  - subst km. rewrite (u32_id cnt) by assumption. reflexivity.
Qed.

(* the shard does not depend on anything but the metric, key hash and configuration: the model's
   function has no time argument; that key_hash itself is time independent is observed on the
   real code by the correspondence check (two timestamps per case). *)

Lemma primary_shift_range t : 0 <= primary_shift t < 3.
Proof. unfold primary_shift. lia. Qed.
Lemma spare_shift_range t : 0 <= spare_shift t < 3.
Proof. unfold spare_shift. lia. Qed.

Lemma spare_differs_from_primary t : is_u32 t -> spare_shift t <> primary_shift t.
Proof.
  unfold is_u32, spare_shift, primary_shift, u32, two32. intros H.
  destruct (Z_lt_dec (t + 1 + t mod 2) 4294967296) as [L|L].
  - rewrite (Z.mod_small (t + 1 + t mod 2)) by lia. lia.
  - assert (t = 4294967295) by lia. subst t. vm_compute. discriminate.
Qed.

(* seconds t and t+3 have the same primary; their spares are the two other replicas *)
Lemma spares_cover_other_two t :
  0 <= t -> t + 5 < two32 ->
  primary_shift (t + 3) = primary_shift t /\
  spare_shift (t + 3) <> spare_shift t /\
  spare_shift t <> primary_shift t /\ spare_shift (t + 3) <> primary_shift t.
Proof.
  unfold spare_shift, primary_shift, u32, two32. intros H0 H1.
  rewrite (Z.mod_small (t + 1 + t mod 2)) by lia.
  rewrite (Z.mod_small (t + 3 + 1 + (t + 3) mod 2)) by lia. lia.
Qed.

Lemma replica_for_second_spec alive t r sp :
  is_u32 t -> replica_for_second alive t = Some (r, sp) ->
  alive r = true /\ 0 <= r < 3 /\
  (sp = false -> r = primary_shift t) /\
  (sp = true -> alive (primary_shift t) = false /\ r = spare_shift t /\ r <> primary_shift t).
Proof.
  intros Ht. unfold replica_for_second.
  destruct (alive (primary_shift t)) eqn:E1.
  - intros H; inversion H; subst. repeat split; auto using primary_shift_range; try discriminate;
    apply primary_shift_range.
  - destruct (alive (spare_shift t)) eqn:E2; [|discriminate].
    intros H; inversion H; subst. repeat split; auto; try discriminate; try apply spare_shift_range.
    apply spare_differs_from_primary; assumption.
Qed.

Lemma round_step t rk : (t mod 3 =? u32 (rk - 1)) = true -> t mod 3 = rk - 1 \/ ~ (1 <= rk <= 3).
Proof.
  intros H. apply Z.eqb_eq in H. destruct (Z_le_dec 1 rk); [|right; lia].
  destruct (Z_le_dec rk 3); [|right; lia]. left. rewrite H. apply u32_id. unfold is_u32, two32. lia.
Qed.

Lemma round_to_our_time_total t rk :
  0 <= t -> t + 2 < two32 -> 1 <= rk <= 3 ->
  exists r, round_to_our_time 3 t rk = Some r /\ r mod 3 = rk - 1 /\ t <= r <= t + 2.
Proof.
  intros H0 H1 Hrk. unfold two32 in H1.
  assert (Hu : u32 (rk - 1) = rk - 1) by (apply u32_id; unfold is_u32, two32; lia).
  assert (Hs : forall x, 0 <= x -> x + 1 < 4294967296 -> u32 (x + 1) = x + 1)
    by (intros; apply u32_id; unfold is_u32, two32; lia).
  cbn [round_to_our_time]. rewrite Hu.
  destruct (t mod 3 =? rk - 1) eqn:E0.
  { apply Z.eqb_eq in E0. exists t. split; [reflexivity|lia]. }
  rewrite (Hs t) by lia.
  destruct ((t + 1) mod 3 =? rk - 1) eqn:E1.
  { apply Z.eqb_eq in E1. exists (t + 1). split; [reflexivity|lia]. }
  rewrite (Hs (t + 1)) by lia.
  destruct ((t + 1 + 1) mod 3 =? rk - 1) eqn:E2.
  { apply Z.eqb_eq in E2. exists (t + 1 + 1). split; [reflexivity|lia]. }
  apply Z.eqb_neq in E0, E1, E2. exfalso. lia.
Qed.

Lemma round_to_our_time_sound fuel t rk r :
  1 <= rk <= 3 -> round_to_our_time fuel t rk = Some r -> r mod 3 = rk - 1.
Proof.
  intros Hrk. revert t. induction fuel as [|f IH]; intros t; cbn [round_to_our_time];
  destruct (t mod 3 =? u32 (rk - 1)) eqn:E.
  - intros H; inversion H; subst. destruct (round_step _ _ E); lia.
  - discriminate.
  - intros H; inversion H; subst. destruct (round_step _ _ E); lia.
  - apply IH.
Qed.

(* What the aggregator does with an accepted second: it is filed under a second that this replica
   inserts itself (r mod 3 = replica-1), at most two seconds later, inside the recent window;
   or into the historic queue under its own time. *)
Lemma file_bucket_spec historic t oldest newest hw rk f :
  0 <= t -> t + 2 < two32 -> 1 <= rk <= 3 ->
  file_bucket historic t oldest newest hw rk = Some f ->
  match f with
  | FRecent r => r mod 3 = rk - 1 /\ t <= r <= t + 2 /\ oldest <= r <= newest
  | FHistoric t' => historic = true /\ t' = t
  | FKeep => historic = false
  | FDiscard => True
  end.
Proof.
  intros H0 H1 Hrk. unfold file_bucket, file_decision.
  destruct (round_to_our_time_total t rk H0 H1 Hrk) as (r & Er & Hr & Hb). rewrite Er.
  intros H; inversion H; subst; clear H.
  destruct historic.
  - destruct (newest <? r) eqn:A; [exact I|].
    destruct ((hw <=? oldest) && (r <? u32 (oldest - hw))); [exact I|].
    destruct (r <? oldest) eqn:B; [auto|].
    apply Z.ltb_ge in A, B. auto.
  - destruct (newest <? r) eqn:A; [exact I|].
    destruct (r <? oldest) eqn:B; [reflexivity|].
    apply Z.ltb_ge in A, B. auto.
Qed.

Lemma filed_recent_is_sent_by_ticker historic t oldest newest hw rk r :
  0 <= t -> t + 2 < two32 -> 1 <= rk <= 3 ->
  file_bucket historic t oldest newest hw rk = Some (FRecent r) -> ticker_inserts r rk = true.
Proof.
  intros H0 H1 Hrk H. pose proof (file_bucket_spec _ _ _ _ _ _ _ H0 H1 Hrk H) as (A & _).
  unfold ticker_inserts. apply Z.eqb_eq. rewrite A. symmetry. apply u32_id. unfold is_u32, two32. lia.
Qed.
