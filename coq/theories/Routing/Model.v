(* C10 — shard and replica routing.
   Model of: internal/sharding/sharding.go (Shard, shardByMappedTags),
             internal/format/format.go (MetricMetaValue.Shard / Sharded),
             internal/agent/agent.go (Agent.shard, getShardReplicaForSecond),
             internal/chutil/chutil.go (API shard selection: meta.Metric.Shard(shardCnt), shard >= shardMax -> -1),
             internal/aggregator/aggregator_handlers.go (roundedToOurTime loop and filing decision). *)
From Coq Require Import ZArith List Bool.
From SH Require Import Common.Wrap.
Import ListNotations.
Open Scope Z_scope.

Inductive strategy := SFixed | SByMetricID | SByTagsHash | SOther.

Record meta := {
  m_metric_id : Z;        (* int32 *)
  m_fixed_key : Z;        (* uint32, ShardFixedKey  (0 = unset) *)
  m_fixed_key2 : Z;       (* uint32, ShardFixedKey2 (0 = unset) *)
  m_strategy : strategy;
  m_shard_num : Z         (* uint32, ShardNum *)
}.

(* (keyHash >> 32) * uint64(numShards) >> 32, truncated to uint32 *)
Definition shard_by_mapped_tags (key_hash num_shards : Z) : Z :=
  u32 (u64 ((key_hash / two32) * num_shards) / two32).

(* sharding.Shard; key_metric is key.Metric (int32), key_hash the xxh3 legacy hash of the key
   (uninterpreted input: a function of the key with its timestamp *excluded*, which
   the correspondence check observes on the real code).  cnt = shardByMetricCount (> 0). *)
Definition shard (key_metric key_hash : Z) (m : meta) (cnt : Z) : Z * bool :=
  if 0 <? m_fixed_key m then (u32 (m_fixed_key m - 1), true)
  else match m_strategy m with
       | SFixed => (m_shard_num m, true)
       | SByMetricID => (u32 key_metric mod cnt, true)
       | SByTagsHash => (shard_by_mapped_tags key_hash cnt, true)
       | SOther => (0, false)
       end.

(* Agent.shard: (index of shard1, shard1ok, optional index of shard2); nshards = len(s.Shards) > 0 *)
Definition agent_shard (key_metric key_hash : Z) (m : meta) (cnt nshards : Z) : Z * bool * option Z :=
  let '(n, ok) := shard key_metric key_hash m cnt in
  let '(n, ok) := if negb ok || (nshards <=? n) then (0, false) else (n, ok) in
  let s2 := if 0 <? m_fixed_key2 m then
              let n2 := u32 (m_fixed_key2 m - 1) in
              if (n2 <? nshards) && negb (n2 =? n) then Some n2 else None
            else None in
  (n, ok, s2).

(* format.MetricMetaValue.Sharded / Shard(numShards) as read by the API *)
Definition api_sharded (m : meta) : bool :=
  if 0 <? m_fixed_key m then true
  else match m_strategy m with SFixed | SByMetricID => true | _ => false end.

Definition api_shard (m : meta) (num_shards : Z) : Z :=
  if 0 <? m_fixed_key m then u32 (m_fixed_key m - 1)
  else match m_strategy m with
       | SFixed => m_shard_num m
       | SByMetricID => u32 (m_metric_id m) mod u32 num_shards
       | _ => -1
       end.

(* getShardReplicaForSecond: replica shifts (primary, spare) for a second *)
Definition primary_shift (t : Z) : Z := t mod 3.
Definition spare_shift (t : Z) : Z := u32 (t + 1 + t mod 2) mod 3.

(* alive : replica shift -> bool.  Result: Some (shift, spare?) or None *)
Definition replica_for_second (alive : Z -> bool) (t : Z) : option (Z * bool) :=
  if alive (primary_shift t) then Some (primary_shift t, false)
  else if alive (spare_shift t) then Some (spare_shift t, true)
  else None.

(* aggregator: for roundedToOurTime%3 != uint32(replicaKey-1) { roundedToOurTime++ }
   fuel-bounded; 3 iterations always suffice (proved). u32 wrap of ++ included. *)
Fixpoint round_to_our_time (fuel : nat) (t : Z) (replica_key : Z) : option Z :=
  if (t mod 3) =? u32 (replica_key - 1) then Some t
  else match fuel with
       | O => None
       | S f => round_to_our_time f (u32 (t + 1)) replica_key
       end.

(* Filing decision of handleSendSourceBucket after the shard check, abstracting the bucket
   lists to (oldest, newest) of recentBuckets. *)
Inductive filing :=
| FDiscard           (* answered with discard=true, nothing stored *)
| FKeep              (* answered with error, agent keeps the data (late recent) *)
| FRecent (t : Z)    (* merged into recentBuckets[t - oldest] *)
| FHistoric (t : Z). (* merged into historicBuckets[t] *)

Definition file_decision (historic : bool) (t r oldest newest hist_window : Z) : filing :=
  if historic then
    if newest <? r then FDiscard
    else if (hist_window <=? oldest) && (r <? u32 (oldest - hist_window)) then FDiscard
    else if r <? oldest then FHistoric t
    else FRecent r
  else
    if newest <? r then FDiscard
    else if r <? oldest then FKeep
    else FRecent r.

Definition file_bucket (historic : bool) (t oldest newest hist_window replica_key : Z) : option filing :=
  match round_to_our_time 3 t replica_key with
  | None => None
  | Some r => Some (file_decision historic t r oldest newest hist_window)
  end.

(* goTicker: a ready bucket is handed to the inserter only when it is this replica's second *)
Definition ticker_inserts (bucket_time replica_key : Z) : bool := bucket_time mod 3 =? u32 (replica_key - 1).
