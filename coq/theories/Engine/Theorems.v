(* C17 — the property-level statements, derived from the invariants Inv = InvA /\ InvB. *)
From Coq Require Import ZArith List Bool Lia.
From SH Require Import Engine.Model Engine.Proofs Engine.ProofsAck Engine.ProofsRead.
Import ListNotations.
Open Scope Z_scope.

Lemma reach_Inv m r ops : Inv (run (init m r) ops).
Proof. apply Inv_run. apply Inv_init. Qed.

Lemma prefix_as_firstn {A} (a rest : list A) : firstn (length a) (a ++ rest) = a.
Proof. rewrite firstn_app, firstn_all, Nat.sub_diag. simpl. apply app_nil_r. Qed.

(* the db inside the write transaction and the committed db are applications of prefixes of the binlog, the stored
   offset marks the end of the prefix, and the committed prefix lies inside the durable part of the binlog *)
Lemma db_is_prefix_of_binlog m r ops :
  let s := run (init m r) ops in
  (exists n, (n <= length (bl s))%nat /\
     dbt s = mkdb (applyl (firstn n (bl s)) kv0) (bsize (firstn n (bl s)))) /\
  (exists n, (n <= length (bl s))%nat /\
     dbc s = mkdb (applyl (firstn n (bl s)) kv0) (bsize (firstn n (bl s))) /\
     bsize (firstn n (bl s)) <= durable s <= bsize (bl s)).
Proof.
  cbv zeta. destruct (reach_Inv m r ops) as [IA _]. set (s := run (init m r) ops) in *.
  destruct (ia_dec s IA) as (a0 & b0 & c0 & Ebl & Edbc & Edbt & Sc & Ee & Da).
  pose proof (ia_dur s IA) as U.
  split.
  - exists (length (a0 ++ b0)).
    assert (Hf : firstn (length (a0 ++ b0)) (bl s) = a0 ++ b0).
    { rewrite Ebl. replace (a0 ++ b0 ++ c0 ++ qlevs (queue s)) with ((a0 ++ b0) ++ c0 ++ qlevs (queue s)) by (rewrite <- app_assoc; reflexivity).
      apply prefix_as_firstn. }
    rewrite Hf. split; [rewrite Ebl, !app_length; lia|]. exact Edbt.
  - exists (length a0).
    assert (Hf : firstn (length a0) (bl s) = a0) by (rewrite Ebl; apply prefix_as_firstn).
    rewrite Hf. split; [rewrite Ebl, !app_length; lia|]. split; [exact Edbc|]. lia.
Qed.

(* after a kill at any reachable state, with any surviving binlog prefix that contains the durable part, the
   restarted engine holds exactly the application of every event of the surviving binlog *)
Lemma restart_equals_durable_binlog m r ops keep :
  let s := run (init m r) ops in
  (keep <= length (bl s))%nat -> durable s <= bsize (firstn keep (bl s)) ->
  let r' := restart s keep in
  bl r' = firstn keep (bl s) /\
  dbt r' = mkdb (applyl (firstn keep (bl s)) kv0) (bsize (firstn keep (bl s))) /\
  eoff r' = bsize (firstn keep (bl s)) /\ rwait r' = false /\ queue r' = [].
Proof.
  cbv zeta. intros Hk Hd. destruct (reach_Inv m r ops) as [IA _].
  destruct (restart_spec _ keep IA Hk Hd) as (B & Dt & Eo & Co & Du & Rw & Qu & _).
  repeat split; assumption.
Qed.

(* a write whose acknowledgement channel was closed is inside every binlog prefix that can survive a kill, so by
   restart_equals_durable_binlog it is applied after the restart *)
Lemma acked_write_survives m r ops i keep :
  let s := run (init m r) ops in
  In (TW i) (acked s) ->
  (keep <= length (bl s))%nat -> durable s <= bsize (firstn keep (bl s)) ->
  (S i <= keep)%nat /\ firstn (S i) (firstn keep (bl s)) = firstn (S i) (bl s) /\
  nth_error (bl (restart s keep)) i = nth_error (bl s) i /\
  dbt (restart s keep) = mkdb (applyl (firstn keep (bl s)) kv0) (bsize (firstn keep (bl s))).
Proof.
  cbv zeta. intros Hin Hk Hd. destruct (reach_Inv m r ops) as [IA [_ A]].
  set (s := run (init m r) ops) in *.
  pose proof (proj1 (Forall_forall _ _) A _ Hin) as P. simpl in P. destruct P as [Li Hc].
  change (bsize (firstn (S i) (bl s)) <= comm s) in Hc.
  pose proof (ia_dur s IA) as U.
  assert (Hik : (S i <= keep)%nat).
  { destruct (Nat.le_gt_cases (S i) keep) as [X|X]; [exact X|]. exfalso.
    assert (L : (keep < length (firstn (S i) (bl s)))%nat) by (rewrite firstn_length; lia).
    pose proof (bsize_firstn_lt keep (firstn (S i) (bl s)) L) as Y.
    rewrite firstn_firstn in Y. replace (Init.Nat.min keep (S i)) with keep in Y by lia. lia. }
  destruct (restart_spec s keep IA Hk Hd) as (B & Dt & _).
  split; [exact Hik|]. split.
  - rewrite firstn_firstn. f_equal. lia.
  - split; [|exact Dt]. rewrite B.
    rewrite <- (firstn_skipn keep (bl s)) at 2. rewrite nth_error_app1; [reflexivity|]. rewrite firstn_length. lia.
Qed.

(* a Do whose callback fails (or a write attempted on a replica) changes nothing: no database change, no binlog
   record, engine offset restored *)
Lemma failed_callback_no_trace s l f :
  flag f 1 = true \/ replica s = true -> step s (ODo l f) = s.
Proof.
  intro H. simpl. unfold do_write. destruct H as [H|H]; rewrite H; [reflexivity|]. rewrite orb_true_r. reflexivity.
Qed.

(* what View (a reader) sees is the committed db: the application of a prefix of the binlog that is already
   durable, in both binlog modes and on replicas *)
Lemma view_sees_only_binlogged m r ops :
  let s := run (init m r) ops in
  exists n, (n <= length (bl s))%nat /\
    kv (dbc s) = applyl (firstn n (bl s)) kv0 /\ off (dbc s) = bsize (firstn n (bl s)) /\
    off (dbc s) <= durable s <= bsize (bl s).
Proof.
  cbv zeta. destruct (db_is_prefix_of_binlog m r ops) as [_ (n & L & E & D)].
  exists n. rewrite E. simpl. repeat split; try assumption; lia.
Qed.

(* a read-only Do on a WaitCommit master, once acknowledged (returned at once or its wait channel closed), returned
   the application of a prefix of the binlog that lies inside the committed, hence durable, part *)
Lemma acked_read_saw_only_durable ops id o v :
  let s := run (init WaitCommit false) ops in
  In (TR id o v) (acked s) ->
  (exists n, (n <= length (bl s))%nat /\ bsize (firstn n (bl s)) = o /\ applyl (firstn n (bl s)) kv0 = v) /\
  o <= comm s <= durable s.
Proof.
  cbv zeta. intro Hin.
  destruct (Inv3_run ops (init WaitCommit false) (Inv_init _ _) InvC_init) as [[IA [_ A]] (_ & _ & [_ AR] & _)].
  set (s := run (init WaitCommit false) ops) in *.
  pose proof (proj1 (Forall_forall _ _) A _ Hin) as P. simpl in P.
  pose proof (proj1 (Forall_forall _ _) AR _ Hin) as Q. simpl in Q.
  pose proof (ia_dur s IA). split; [exact P|lia].
Qed.

(* the ticket of a read records what the callback saw *)
Lemma read_ticket_records_view s :
  mode s = WaitCommit ->
  let t := TR (nread s) (off (dbt s)) (kv (dbt s)) in
  (waitq s = [] -> acked (do_read s) = acked s ++ [t]) /\
  (waitq s <> [] -> waitq (do_read s) = waitq s ++ [(0, true, t)] /\ acked (do_read s) = acked s).
Proof.
  intro M. cbv zeta. unfold do_read. rewrite M. split; intro H.
  - rewrite H. reflexivity.
  - destruct (waitq s) eqn:E; [congruence|]. simpl. rewrite E. split; reflexivity.
Qed.
