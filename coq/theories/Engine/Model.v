(* C17 — executable model of the binlog-backed SQLite engine
   (/repo/internal/sqlite/engine.go, binlog_engine.go, conn.go, payload_queue.go).

   State kept by the real engine                     field here
   ------------------------------------------------  -----------------
   SQLite file as of the last COMMIT                  dbc  (kv, stored __binlog_offset)
   SQLite as seen inside the open write transaction   dbt
   Engine.dbOffset                                    eoff
   bytes accepted by binlog.Append / read by replica  bl   (list of levs; offsets = cumulative sizes)
   committedInfo.offset                               comm
   what of the binlog is durable (fsync / quorum)      durable (ghost: known to the binlog, not to the engine;
                                                       on a replica it may lag behind what was handed to Apply)
   Engine.waitQ                                       waitq
   closed wait channels                               acked (ghost)
   binlogEngineReplicaImpl.state == waitToCommit      rwait
   applyQueue.q / applyQueue.dbOffset                 queue / qoff

   One step = one critical section of the engine (Do, txLoop tick, Engine.Commit/Apply/Skip callback)
   or one action of the environment (binlog fsync, process kill + restart).
   SQLite is an atomic transactional store: COMMIT is `dbc := dbt`, a kill is `dbt := dbc`. *)
From Coq Require Import ZArith List Bool.
Import ListNotations.
Open Scope Z_scope.

Inductive dmode := WaitCommit | NoWaitCommit.
Inductive kind := KAdd | KSet.
(* a binlog event: a user event of the key-value schema, or a service event the engine's apply function does
   not know (fsbinlog's crc32 / rotate levs): no effect on the data, consumed through Engine.Skip *)
Inductive lev := LUser (k : nat) (kd : kind) (x : Z) (junk : Z) | LSvc.

(* fsbinlog.AddPadding *)
Definition pad4 (n : Z) : Z := n + (4 - n mod 4) mod 4.
Definition svc_size : Z := 20.
Definition lev_size (l : lev) : Z :=
  match l with LUser _ _ _ j => pad4 (16 + Z.max 0 j) | LSvc => svc_size end.

Fixpoint upd (k : nat) (f : Z -> Z) (s : list Z) : list Z :=
  match s, k with
  | [], _ => []
  | v :: r, O => f v :: r
  | v :: r, S k' => v :: upd k' f r
  end.

Definition apply_lev (s : list Z) (l : lev) : list Z :=
  match l with
  | LUser k KAdd x _ => upd k (fun v => v + x) s
  | LUser k KSet x _ => upd k (fun _ => x) s
  | LSvc => s
  end.
Definition applyl (ls : list lev) (s : list Z) : list Z := fold_left apply_lev ls s.
Fixpoint bsize (ls : list lev) : Z := match ls with [] => 0 | l :: r => lev_size l + bsize r end.

Definition kv0 : list Z := [0; 0; 0].

Record db := mkdb { kv : list Z; off : Z }.

(* TW i: the Do that appended binlog event number i; TR id o v: read-only Do number id, which saw the write
   transaction with stored offset o and contents v *)
Inductive ticket := TW (i : nat) | TR (id : nat) (o : Z) (v : list Z).
Inductive qitem := QBody (l : lev) | QSkip (n : Z).

Record st := mkst {
  mode : dmode; replica : bool;
  dbc : db; dbt : db; eoff : Z;
  bl : list lev; comm : Z; durable : Z;
  waitq : list (Z * bool * ticket); acked : list ticket;
  rwait : bool; queue : list qitem; qoff : Z;
  nread : nat
}.

Definition init (m : dmode) (r : bool) : st :=
  mkst m r (mkdb kv0 0) (mkdb kv0 0) 0 [] 0 0 [] [] false [] 0 0.

(* ---- setters *)
Definition set_dbs (s : st) (c t : db) (e : Z) : st :=
  mkst (mode s) (replica s) c t e (bl s) (comm s) (durable s) (waitq s) (acked s) (rwait s) (queue s) (qoff s) (nread s).
Definition set_bl (s : st) (b : list lev) (d : Z) : st :=
  mkst (mode s) (replica s) (dbc s) (dbt s) (eoff s) b (comm s) d (waitq s) (acked s) (rwait s) (queue s) (qoff s) (nread s).
Definition set_wait (s : st) (c : Z) (q : list (Z * bool * ticket)) (a : list ticket) : st :=
  mkst (mode s) (replica s) (dbc s) (dbt s) (eoff s) (bl s) c (durable s) q a (rwait s) (queue s) (qoff s) (nread s).
Definition set_q (s : st) (w : bool) (q : list qitem) (o : Z) : st :=
  mkst (mode s) (replica s) (dbc s) (dbt s) (eoff s) (bl s) (comm s) (durable s) (waitq s) (acked s) w q o (nread s).
Definition set_nread (s : st) (n : nat) : st :=
  mkst (mode s) (replica s) (dbc s) (dbt s) (eoff s) (bl s) (comm s) (durable s) (waitq s) (acked s) (rwait s) (queue s) (qoff s) n.

(* ---- engine.go: binlogNotifyWaited *)
Fixpoint notify (c : Z) (q : list (Z * bool * ticket)) : list ticket * list (Z * bool * ticket) :=
  match q with
  | [] => ([], [])
  | (o, rw, t) :: q' =>
      if negb rw && (o >? c) then ([], q)
      else let '(a, r) := notify c q' in (t :: a, r)
  end.

(* ---- binlog_engine.go: apply (direct application inside the write tx; the stored offset moves with it) and skip *)
Definition direct_apply (l : lev) (s : st) : st :=
  let e' := eoff s + lev_size l in
  set_dbs s (dbc s) (mkdb (apply_lev (kv (dbt s)) l) e') e'.
Definition direct_skip (n : Z) (s : st) : st :=
  let e' := eoff s + n in
  set_dbs s (dbc s) (mkdb (kv (dbt s)) e') e'.

Definition flush_item (s : st) (i : qitem) : st :=
  match i with QBody l => direct_apply l s | QSkip n => direct_skip n s end.
(* applyQueue.applyAllChanges *)
Definition flush (s : st) : st := set_q (fold_left flush_item (queue s) s) false [] (qoff s).

(* sqlite COMMIT of the write transaction (commitRWTXAndStartNewLocked) *)
Definition sql_commit (s : st) : st := set_dbs s (dbt s) (dbt s) (eoff s).

(* binlogEngineReplicaImpl.Commit *)
Definition commit_cb (o : Z) (s : st) : st :=
  if comm s >? o then s
  else
    let '(a, r) := notify o (waitq s) in
    let s1 := set_wait s o r (acked s ++ a) in
    if rwait s1 && (o >=? eoff s1) then flush (sql_commit s1) else s1.

(* applyQueue.addNewBody for one user lev *)
Definition enqueue (l : lev) (s : st) : st :=
  let q0 := if rwait s then qoff s else eoff s in
  set_q s true (queue s ++ [QBody l]) (q0 + lev_size l).

(* binlogEngineReplicaImpl.Apply for one user lev / Skip for a service lev.
   timer = "time.Since(impl.lastCommitTime) > CommitEvery" *)
Definition deliver_core (l : lev) (timer : bool) (s : st) : st :=
  match l with
  | LUser _ _ _ _ =>
      if (timer || rwait s) && (eoff s >? comm s) then enqueue l s else direct_apply l s
  | LSvc =>
      if rwait s then set_q s true (queue s ++ [QSkip svc_size]) (qoff s + svc_size)
      else direct_skip svc_size s
  end.

(* levs of the binlog after byte position o (o is a lev boundary on every reachable state) *)
Fixpoint drop_upto (o : Z) (ls : list lev) : list lev :=
  match ls with
  | [] => []
  | l :: r => if lev_size l <=? o then drop_upto (o - lev_size l) r else ls
  end.

(* binlog.Run re-reading the binlog after a restart (fsbinlog readUncompressedFile): Engine.Apply receives the
   whole remaining buffer and the engine's apply function consumes user levs up to the next service lev, so the
   queue-or-apply decision is taken once per run of user levs (dec = Some q inside a run); service levs go through
   Engine.Skip. impl.lastCommitTime is zero during the replay, so the timer condition is true. *)
Fixpoint replay (ls : list lev) (dec : option bool) (s : st) : st :=
  match ls with
  | [] => s
  | LSvc :: r => replay r None (deliver_core LSvc true s)
  | l :: r =>
      let q := match dec with Some q => q | None => eoff s >? comm s end in
      replay r (Some q) (if q then enqueue l s else direct_apply l s)
  end.

(* process kill with `keep` levs of the binlog surviving, then OpenEngine: roll back the open tx, read the stored
   offset, binlog.Run replays everything after it, then Commit(end) and ChangeRole(ready); a master applies what
   is still queued (binlogWaitReady). *)
Definition restart (s : st) (keep : nat) : st :=
  let b := firstn keep (bl s) in
  let s0 := mkst (mode s) (replica s) (dbc s) (dbc s) (off (dbc s)) b 0 (bsize b) [] [] false [] 0 (nread s) in
  let s1 := replay (drop_upto (off (dbc s)) b) None s0 in
  let s2 := commit_cb (bsize b) s1 in
  if rwait s2 && negb (replica s2) then flush s2 else s2.

Inductive op :=
| ODo (l : lev) (flags : Z)     (* Engine.Do; flags: 1 callback fails, 2 binlog adds a service lev, 4 mustCommitNow, 8 Commit arrives inside AppendASAP *)
| ORead                         (* Engine.Do with a read-only callback (empty event) *)
| OFsync (n : nat)              (* n levs of the binlog are durable (master: writer fsync; replica: the source's commit position), no callback yet *)
| OCommit (n : nat)             (* Engine.Commit(offset after n levs) *)
| OTick                         (* one txLoop iteration *)
| ODeliver (l : lev) (timer : bool)  (* replica: reader hands one lev to Engine.Apply / Engine.Skip *)
| OCrash (keep : nat).          (* kill -9 + restart; keep levs of the binlog survive *)

Definition flag (f : Z) (b : Z) : bool := Z.odd (f / b).

Definition is_user (l : lev) : bool := match l with LUser _ _ _ _ => true | LSvc => false end.

(* engine.go: doWithoutWait for a callback that applies user lev l and returns its bytes.
   do_append: binlogUpdateOffset(predicted) inside the savepoint, binlog.Append[ASAP] (the binlog may add a service
   lev; with flag 8 the writer fsyncs and delivers Commit before Append returns, e.dbOffset not yet advanced),
   then e.dbOffset = offsetAfterWrite. *)
Definition do_append (l : lev) (flags : Z) (asap : bool) (s : st) : st :=
  let predicted := eoff s + lev_size l in
  let real := predicted + (if flag flags 2 then svc_size else 0) in
  let b' := bl s ++ l :: (if flag flags 2 then [LSvc] else []) in
  let s1 := set_bl (set_dbs s (dbc s) (mkdb (apply_lev (kv (dbt s)) l) predicted) (eoff s)) b'
                   (if asap && flag flags 8 then real else durable s) in
  let s2 := if asap && flag flags 8 then commit_cb real s1 else s1 in
  set_dbs s2 (dbc s2) (dbt s2) real.

(* the waitQ part of doWithoutWait; i = index of the lev in the binlog (ghost ticket name) *)
Definition do_wait (i : nat) (predicted real : Z) (wc now : bool) (s3 : st) : st :=
  if wc || now then
    if predicted <=? comm s3 then
      (if wc then set_wait s3 (comm s3) (waitq s3) (acked s3 ++ [TW i]) else s3)
    else
      let s4 := set_wait s3 (comm s3) (waitq s3 ++ [(predicted, false, TW i)]) (acked s3) in
      if now then
        (* Do blocks on the channel: the writer fsyncs everything and delivers Commit(real); then COMMIT *)
        sql_commit (commit_cb real (set_bl s4 (bl s4) real))
      else s4
  else s3.

Definition do_write (l : lev) (flags : Z) (s : st) : st :=
  if flag flags 1 || replica s || negb (is_user l) then s   (* error: savepoint rolled back, dbOffset restored, nothing appended *)
  else
    let wc := match mode s with WaitCommit => true | NoWaitCommit => false end in
    let now := negb wc && flag flags 4 in
    let predicted := eoff s + lev_size l in
    let real := predicted + (if flag flags 2 then svc_size else 0) in
    do_wait (length (bl s)) predicted real wc now (do_append l flags (wc || now) s).

Definition do_read (s : st) : st :=
  let t := TR (nread s) (off (dbt s)) (kv (dbt s)) in
  let s1 := set_nread s (S (nread s)) in
  match mode s with
  | WaitCommit =>
      match waitq s with
      | [] => set_wait s1 (comm s1) [] (acked s1 ++ [t])
      | _ => set_wait s1 (comm s1) (waitq s1 ++ [(0, true, t)]) (acked s1)
      end
  | NoWaitCommit => s1
  end.

Definition step (s : st) (o : op) : st :=
  match o with
  | ODo l f => do_write l f s
  | ORead => do_read s
  | OFsync n =>
      let d := bsize (firstn n (bl s)) in
      if durable s <=? d then set_bl s (bl s) d else s
  | OCommit n =>
      let o := bsize (firstn n (bl s)) in
      if o <=? durable s then commit_cb o s else s
  | OTick =>
      match mode s with
      | WaitCommit => if negb (replica s) && (eoff s <=? comm s) then sql_commit s else s
      | NoWaitCommit => s
      end
  | ODeliver l t =>
      if replica s then
        let s1 := deliver_core l t s in
        set_bl s1 (bl s1 ++ [l]) (durable s1)
      else s
  | OCrash keep =>
      if (Nat.leb keep (length (bl s))) && (durable s <=? bsize (firstn keep (bl s))) then restart s keep else s
  end.

Definition run (s : st) (ops : list op) : st := fold_left step ops s.
