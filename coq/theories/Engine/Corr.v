(* Correspondence cases for C17: one case = one whole history of the real engine.
   obs_i = (checksum of the state observed after step i, number of binlog levs kept for the crash image taken
   after step i, checksum of the reopened image). A checksum of -1 means "not observed" (inner ops of a composite
   harness step). The harness computes the same checksums from what the real engine returned. *)
From Coq Require Import ZArith List Bool.
From SH Require Import Common.Corr Engine.Model.
Import ListNotations.
Open Scope Z_scope.

Definition mixM : Z := 2147483647.
Definition mix (h x : Z) : Z := (h * 1000003 + x mod mixM + 12345) mod mixM.
Definition sum_db (h : Z) (d : db) : Z := mix (fold_left mix (kv d) h) (off d).
Definition tcode (t : ticket) : Z := match t with TW i => 2 * Z.of_nat i | TR id _ _ => 2 * Z.of_nat id + 1 end.

Definition state_sum (s : st) : Z :=
  fold_left mix (map tcode (acked s)) (sum_db (mix (mix (sum_db 0 (dbt s)) (eoff s)) (comm s)) (dbc s)).

Definition image_sum (s : st) (keep : nat) : Z :=
  let r := restart s keep in mix (sum_db 0 (dbt r)) (eoff r).

Inductive case := CHist (m : dmode) (r : bool) (ops : list op) (obs : list (Z * nat * Z)).

Fixpoint check (s : st) (ops : list op) (obs : list (Z * nat * Z)) : bool :=
  match ops, obs with
  | [], [] => true
  | o :: ops', (c, keep, ic) :: obs' =>
      let s' := step s o in
      ((c =? -1) || ((state_sum s' =? c) && ((ic =? -1) || (image_sum s' keep =? ic)))) && check s' ops' obs'
  | _, _ => false
  end.

Definition ok (c : case) : bool :=
  match c with CHist m r ops obs => check (init m r) ops obs end.

Definition mism := mismatches ok.
