(* C17 — acknowledgement of read-only Do on a WaitCommit master: an acknowledged read saw only events inside the
   committed (hence durable) binlog offset. *)
From Coq Require Import ZArith List Bool Lia.
From SH Require Import Engine.Model Engine.Proofs Engine.ProofsAck.
Import ListNotations.
Open Scope Z_scope.

(* largest of m and the offsets of the write entries of a wait queue *)
Fixpoint wacc (m : Z) (q : list (Z * bool * ticket)) : Z :=
  match q with
  | [] => m
  | (o, _, TW _) :: q' => wacc (Z.max m o) q'
  | _ :: q' => wacc m q'
  end.

(* every read entry saw at most m or an earlier write entry's offset *)
Fixpoint rd_ok (m : Z) (q : list (Z * bool * ticket)) : Prop :=
  match q with
  | [] => True
  | (o, _, TW _) :: q' => rd_ok (Z.max m o) q'
  | (_, _, TR _ ro _) :: q' => ro <= m /\ rd_ok m q'
  end.

Definition Pr (c : Z) (t : ticket) : Prop := match t with TR _ ro _ => ro <= c | TW _ => True end.

Lemma wacc_ge q : forall m, m <= wacc m q.
Proof. induction q as [|[[o rw] [i|id ro v]] q IH]; intro m; simpl; [lia| |apply IH]. specialize (IH (Z.max m o)). lia. Qed.

Lemma wacc_mono q : forall m m', m <= m' -> wacc m q <= wacc m' q.
Proof. induction q as [|[[o rw] [i|id ro v]] q IH]; intros m m' H; simpl; [lia| |apply IH; exact H]. apply IH. lia. Qed.

Lemma rd_ok_mono q : forall m m', m <= m' -> rd_ok m q -> rd_ok m' q.
Proof.
  induction q as [|[[o rw] [i|id ro v]] q IH]; intros m m' H R; simpl in *; auto.
  - eapply IH; [|exact R]. lia.
  - destruct R as [R1 R2]. split; [lia|]. eapply IH; eassumption.
Qed.

Lemma wacc_app_w q o b i : forall m, wacc m (q ++ [(o, b, TW i)]) = Z.max (wacc m q) o.
Proof. induction q as [|[[o' rw] [i'|id ro v]] q IH]; intro m; simpl; [reflexivity| |]; apply IH. Qed.

Lemma wacc_app_r q o b id ro v : forall m, wacc m (q ++ [(o, b, TR id ro v)]) = wacc m q.
Proof. induction q as [|[[o' rw] [i'|id' ro' v']] q IH]; intro m; simpl; [reflexivity| |]; apply IH. Qed.

Lemma rd_ok_app_w q o b i : forall m, rd_ok m q -> rd_ok m (q ++ [(o, b, TW i)]).
Proof.
  induction q as [|[[o' rw] [i'|id ro v]] q IH]; intros m R; simpl in *; auto.
  destruct R as [R1 R2]. split; [exact R1|]. apply IH. exact R2.
Qed.

Lemma rd_ok_app_r q o b id ro v : forall m, rd_ok m q -> ro <= wacc m q -> rd_ok m (q ++ [(o, b, TR id ro v)]).
Proof.
  induction q as [|[[o' rw] [i'|id' ro' v']] q IH]; intros m R H; simpl in *.
  - split; [exact H|exact I].
  - apply IH; assumption.
  - destruct R as [R1 R2]. split; [exact R1|]. apply IH; assumption.
Qed.

(* binlogNotifyWaited releases a read only after every earlier write entry *)
Lemma notify_rd b c q : forall m, Forall (Pw b) q -> rd_ok m q -> m <= c ->
  rd_ok c (snd (notify c q)) /\ Forall (Pr c) (fst (notify c q)) /\ wacc m q <= wacc c (snd (notify c q)).
Proof.
  induction q as [|[[o rw] t] q IH]; intros m F R H.
  - simpl. repeat split; auto.
  - inversion F as [|? ? Fe Fq]; subst. destruct t as [i|id ro v].
    + simpl in Fe. destruct Fe as (Erw & _). subst rw. simpl in R. simpl notify. simpl negb. simpl andb.
      destruct (o >? c) eqn:G.
      * apply gtb_true in G. simpl fst. simpl snd. split; [|split; [constructor|]].
        -- simpl. eapply rd_ok_mono; [|exact R]. lia.
        -- simpl. apply wacc_mono. lia.
      * apply gtb_false in G. destruct (IH (Z.max m o) Fq R ltac:(lia)) as (I1 & I2 & I3).
        destruct (notify c q) as [a r]. simpl in *.
        split; [exact I1|]. split; [constructor; [exact I|exact I2]|exact I3].
    + simpl in Fe. destruct Fe as (Erw & _). subst rw. simpl in R. destruct R as [R1 R2].
      simpl notify. simpl negb. simpl andb. destruct (IH m Fq R2 H) as (I1 & I2 & I3).
      destruct (notify c q) as [a r]. simpl in *.
      split; [exact I1|]. split; [constructor; [simpl; lia|exact I2]|exact I3].
Qed.

(* the read invariant of a WaitCommit master *)
Definition RC (s : st) : Prop :=
  rd_ok (comm s) (waitq s) /\ Forall (Pr (comm s)) (acked s).
Definition WC (s : st) : Prop := off (dbt s) <= wacc (comm s) (waitq s).

Lemma Pr_mono c c' t : c <= c' -> Pr c t -> Pr c' t.
Proof. destruct t; simpl; auto. intros; lia. Qed.

Lemma RC_commit_cb o s : rwait s = false -> Forall (Pw (bl s)) (waitq s) -> RC s ->
  RC (commit_cb o s) /\ wacc (comm s) (waitq s) <= wacc (comm (commit_cb o s)) (waitq (commit_cb o s)) /\
  dbt (commit_cb o s) = dbt s.
Proof.
  intros Rw F [R A]. unfold commit_cb. destruct (comm s >? o) eqn:St.
  - split; [split; assumption|]. split; [lia|reflexivity].
  - apply gtb_false in St.
    destruct (notify_rd (bl s) o (waitq s) (comm s) F R St) as (I1 & I2 & I3).
    destruct (notify o (waitq s)) as [a r]. simpl in I1, I2, I3. simpl. rewrite Rw. simpl.
    split; [split; simpl|].
    + exact I1.
    + apply Forall_app. split; [|exact I2]. eapply Forall_impl; [|exact A]. intro t. apply Pr_mono. exact St.
    + split; [exact I3|reflexivity].
Qed.

Definition InvC (s : st) : Prop := mode s = WaitCommit /\ replica s = false /\ RC s /\ WC s.

Lemma InvC_init : InvC (init WaitCommit false).
Proof. split; [reflexivity|]. split; [reflexivity|]. split; [split; simpl; [exact I|constructor]|]. unfold WC. simpl. lia. Qed.

Lemma InvC_do_write l f s : InvA s -> InvB s -> InvC s -> InvC (do_write l f s).
Proof.
  intros IA [W _] (Mo & Rep & RCs & WCs). unfold do_write.
  destruct (flag f 1 || replica s || negb (is_user l)) eqn:G; [exact (conj Mo (conj Rep (conj RCs WCs)))|].
  apply orb_false_iff in G. destruct G as [G Us]. apply negb_false_iff in Us.
  rewrite Mo. simpl negb. simpl andb. simpl orb.
  pose proof (ia_master s IA Rep) as Rw.
  destruct (InvA_do_append l f true s IA Rep Us) as (I3 & Rep3 & B3 & E3 & O3 & E0 & C3).
  (* wait-queue part of the state after the append *)
  assert (H3 : RC (do_append l f true s) /\ mode (do_append l f true s) = WaitCommit).
  { unfold do_append.
    set (predicted := eoff s + lev_size l).
    set (real := predicted + (if flag f 2 then svc_size else 0)).
    set (b' := bl s ++ l :: (if flag f 2 then [LSvc] else [])).
    set (d' := if true && flag f 8 then real else durable s).
    set (s1 := set_bl (set_dbs s (dbc s) (mkdb (apply_lev (kv (dbt s)) l) predicted) (eoff s)) b' d').
    assert (RC1 : RC s1) by exact RCs.
    assert (F1 : Forall (Pw (bl s1)) (waitq s1)).
    { simpl. eapply Forall_impl; [|exact W]. intro e. apply Pw_app. }
    destruct (true && flag f 8).
    - destruct (RC_commit_cb real s1 Rw F1 RC1) as (RC2 & _ & _).
      destruct (commit_cb_master_fields real s1 Rw) as (_ & _ & _ & _ & _ & _ & _ & Fm & _).
      split; [exact RC2|]. simpl. rewrite Fm. exact Mo.
    - split; [exact RC1|exact Mo]. }
  destruct H3 as [RC3 Mo3].
  set (s3 := do_append l f true s) in *. clearbody s3.
  set (predicted := eoff s + lev_size l) in *.
  unfold do_wait. simpl orb. cbv iota.
  destruct RC3 as [R3 A3].
  destruct (predicted <=? comm s3) eqn:P.
  - apply Z.leb_le in P. repeat split; simpl; auto.
    + apply Forall_app. split; [exact A3|repeat constructor].
    + unfold WC. simpl. rewrite O3. pose proof (wacc_ge (waitq s3) (comm s3)). lia.
  - simpl andb. cbv iota. repeat split; simpl; auto.
    + apply rd_ok_app_w. exact R3.
    + unfold WC. simpl. rewrite O3, wacc_app_w. fold predicted. lia.
Qed.

Lemma InvC_do_read s : InvC s -> InvC (do_read s).
Proof.
  intros (Mo & Rep & [R A] & WCs). unfold do_read. rewrite Mo. unfold WC in WCs.
  destruct (waitq s) eqn:E.
  - simpl in WCs. repeat split; simpl; auto. apply Forall_app. split; [exact A|]. constructor; [simpl; lia|constructor].
  - rewrite <- E in WCs, R. repeat split; simpl; auto.
    + apply rd_ok_app_r; [exact R|exact WCs].
    + unfold WC. simpl. rewrite wacc_app_r. exact WCs.
Qed.

Lemma InvC_frame s s' :
  mode s' = mode s -> replica s' = replica s -> comm s' = comm s -> waitq s' = waitq s -> acked s' = acked s ->
  off (dbt s') = off (dbt s) -> InvC s -> InvC s'.
Proof. unfold InvC, RC, WC. intros -> -> -> -> -> ->. auto. Qed.

Lemma InvC_step s o : InvA s -> InvB s -> InvC s -> InvC (step s o).
Proof.
  intros IA IB IC. destruct o as [l f| |n|n| |l t|keep]; simpl.
  - apply InvC_do_write; assumption.
  - apply InvC_do_read; assumption.
  - destruct (durable s <=? bsize (firstn n (bl s))); [|exact IC].
    eapply InvC_frame; [| | | | | |exact IC]; reflexivity.
  - destruct (bsize (firstn n (bl s)) <=? durable s); [|exact IC].
    destruct IC as (Mo & Rep & RCs & WCs). pose proof (ia_master s IA Rep) as Rw.
    destruct (RC_commit_cb (bsize (firstn n (bl s))) s Rw (proj1 IB) RCs) as (RC2 & Wm & Dt).
    destruct (commit_cb_master_fields (bsize (firstn n (bl s))) s Rw) as (_ & _ & _ & _ & _ & _ & Fr & Fm & _).
    repeat split; try exact (proj1 RC2); try exact (proj2 RC2); try congruence.
    unfold WC in *. rewrite Dt. lia.
  - destruct (mode s); [|exact IC].
    destruct (negb (replica s) && (eoff s <=? comm s)); [|exact IC].
    eapply InvC_frame; [| | | | | |exact IC]; reflexivity.
  - destruct IC as (Mo & Rep & RCs & WCs). rewrite Rep. exact (conj Mo (conj Rep (conj RCs WCs))).
  - destruct (Nat.leb keep (length (bl s)) && (durable s <=? bsize (firstn keep (bl s)))) eqn:G; [|exact IC].
    apply andb_true_iff in G. destruct G as [G1 G2]. apply Nat.leb_le in G1. apply Z.leb_le in G2.
    destruct IC as (Mo & Rep & _ & _).
    destruct (restart_spec s keep IA G1 G2) as (B & Dt & Eo & Co & Du & Rw & Qu & Wq & Ak & Mo' & Re' & _).
    repeat split; try congruence.
    + rewrite Wq. exact I.
    + rewrite Ak. constructor.
    + unfold WC. rewrite Dt, Co, Wq. simpl. lia.
Qed.

Lemma Inv3_run ops : forall s, Inv s -> InvC s -> Inv (run s ops) /\ InvC (run s ops).
Proof.
  induction ops as [|o ops IH]; intros s I IC; simpl; [split; assumption|].
  apply IH; [apply Inv_step; exact I|]. destruct I as [IA IB]. apply InvC_step; assumption.
Qed.
