(* C17 — invariants of the engine model (data part): the committed database and the open write transaction are
   applications of prefixes of the binlog, the committed one lies inside the durable part. *)
From Coq Require Import ZArith List Bool Lia.
From SH Require Import Engine.Model.
Import ListNotations.
Open Scope Z_scope.

(* ---------------------------------------------------------------- sizes and application *)
Lemma pad4_ge n : n <= pad4 n.
Proof. unfold pad4. pose proof (Z.mod_pos_bound (4 - n mod 4) 4 ltac:(lia)). lia. Qed.

Lemma lev_size_pos l : 0 < lev_size l.
Proof. destruct l; unfold lev_size; [|unfold svc_size; lia]. pose proof (pad4_ge (16 + Z.max 0 junk)). lia. Qed.

Lemma bsize_app a b : bsize (a ++ b) = bsize a + bsize b.
Proof. induction a; simpl; lia. Qed.

Lemma bsize_nonneg a : 0 <= bsize a.
Proof. induction a; simpl; [lia|]. pose proof (lev_size_pos a). lia. Qed.

Lemma applyl_app a b s : applyl (a ++ b) s = applyl b (applyl a s).
Proof. apply fold_left_app. Qed.

Definition all_svc (c : list lev) : Prop := Forall (fun l => l = LSvc) c.

Lemma applyl_svc c s : all_svc c -> applyl c s = s.
Proof. intro H; revert s; induction H; intro s; simpl; [reflexivity|]. subst. apply IHForall. Qed.

Lemma bsize_firstn_le n b : bsize (firstn n b) <= bsize b.
Proof.
  rewrite <- (firstn_skipn n b) at 2. rewrite bsize_app. pose proof (bsize_nonneg (skipn n b)). lia.
Qed.

Lemma bsize_firstn_lt n a : (n < length a)%nat -> bsize (firstn n a) < bsize a.
Proof.
  intro H. rewrite <- (firstn_skipn n a) at 2. rewrite bsize_app.
  destruct (skipn n a) eqn:E.
  - pose proof (f_equal (@length lev) E) as L. rewrite skipn_length in L. simpl in L. lia.
  - simpl. pose proof (lev_size_pos l). pose proof (bsize_nonneg l0). lia.
Qed.

(* a prefix (by levs) whose size is at least the size of a contains a *)
Lemma firstn_covers a rest keep :
  bsize a <= bsize (firstn keep (a ++ rest)) -> exists r', firstn keep (a ++ rest) = a ++ r' /\ exists r'', rest = r' ++ r''.
Proof.
  intro H. destruct (Nat.le_gt_cases (length a) keep) as [L|L].
  - rewrite firstn_app. rewrite firstn_all2 by lia. exists (firstn (keep - length a) rest). split; [reflexivity|].
    exists (skipn (keep - length a) rest). symmetry; apply firstn_skipn.
  - exfalso. rewrite firstn_app in H. replace (keep - length a)%nat with 0%nat in H by lia.
    simpl in H. rewrite app_nil_r in H. pose proof (bsize_firstn_lt keep a L). lia.
Qed.

Lemma drop_upto_app a r : drop_upto (bsize a) (a ++ r) = r.
Proof.
  induction a; simpl.
  - destruct r; simpl; [reflexivity|]. pose proof (lev_size_pos l).
    destruct (lev_size l <=? 0) eqn:E; [apply Z.leb_le in E; lia|reflexivity].
  - pose proof (bsize_nonneg a0). destruct (lev_size a <=? lev_size a + bsize a0) eqn:E.
    + replace (lev_size a + bsize a0 - lev_size a) with (bsize a0) by lia. exact IHa.
    + apply Z.leb_gt in E. lia.
Qed.

(* ---------------------------------------------------------------- queue *)
Definition qlev (i : qitem) : lev := match i with QBody l => l | QSkip _ => LSvc end.
Definition qlevs (q : list qitem) : list lev := map qlev q.
Definition wf_qitem (i : qitem) : Prop := match i with QBody l => is_user l = true | QSkip n => n = svc_size end.

(* everything of the state that neither Apply nor Skip touches *)
Definition same_env (s s' : st) : Prop :=
  mode s' = mode s /\ replica s' = replica s /\ dbc s' = dbc s /\ bl s' = bl s /\ comm s' = comm s /\
  durable s' = durable s /\ waitq s' = waitq s /\ acked s' = acked s /\ nread s' = nread s.

Lemma same_env_refl s : same_env s s.
Proof. repeat split. Qed.

Lemma same_env_trans a b c : same_env a b -> same_env b c -> same_env a c.
Proof. unfold same_env; intuition congruence. Qed.

Lemma flush_item_spec s i : wf_qitem i ->
  same_env s (flush_item s i) /\ rwait (flush_item s i) = rwait s /\ queue (flush_item s i) = queue s /\
  qoff (flush_item s i) = qoff s /\ eoff (flush_item s i) = eoff s + lev_size (qlev i) /\
  kv (dbt (flush_item s i)) = apply_lev (kv (dbt s)) (qlev i) /\ off (dbt (flush_item s i)) = eoff (flush_item s i).
Proof. intro W. destruct i; simpl in *; [|subst n]; repeat split. Qed.

Lemma flush_fold q : forall s, Forall wf_qitem q ->
  same_env s (fold_left flush_item q s) /\ rwait (fold_left flush_item q s) = rwait s /\
  queue (fold_left flush_item q s) = queue s /\ qoff (fold_left flush_item q s) = qoff s /\
  eoff (fold_left flush_item q s) = eoff s + bsize (qlevs q) /\
  kv (dbt (fold_left flush_item q s)) = applyl (qlevs q) (kv (dbt s)) /\
  (q <> [] -> off (dbt (fold_left flush_item q s)) = eoff (fold_left flush_item q s)) /\
  (q = [] -> dbt (fold_left flush_item q s) = dbt s).
Proof.
  induction q as [|i q IH]; intros s W.
  - simpl. repeat split; try lia; try congruence.
  - inversion W as [|? ? Wi Wq]; subst.
    destruct (IH (flush_item s i) Wq) as (E & R & Q & QO & EO & KV & OFF & SM).
    destruct (flush_item_spec s i Wi) as (E1 & R1 & Q1 & QO1 & EO1 & KV1 & OFF1).
    change (fold_left flush_item (i :: q) s) with (fold_left flush_item q (flush_item s i)).
    split; [eapply same_env_trans; eassumption|].
    split; [congruence|]. split; [congruence|]. split; [congruence|].
    split; [rewrite EO, EO1; simpl; lia|].
    split; [rewrite KV, KV1; reflexivity|].
    split; [|discriminate].
    intros _. destruct q as [|i' q']; [|apply OFF; discriminate].
    simpl. exact OFF1.
Qed.

(* ---------------------------------------------------------------- the data invariant *)
Record InvA (s : st) : Prop := {
  ia_dec : exists a b c, bl s = a ++ b ++ c ++ qlevs (queue s) /\
             dbc s = mkdb (applyl a kv0) (bsize a) /\
             dbt s = mkdb (applyl (a ++ b) kv0) (bsize (a ++ b)) /\
             all_svc c /\ eoff s = bsize (a ++ b ++ c) /\ bsize a <= durable s;
  ia_dur : comm s <= durable s <= bsize (bl s);
  ia_comm : 0 <= comm s;
  ia_q : rwait s = false -> queue s = [];
  ia_wfq : Forall wf_qitem (queue s);
  ia_master : replica s = false -> rwait s = false;
  ia_rw : rwait s = true -> comm s < eoff s
}.

Lemma InvA_init m r : InvA (init m r).
Proof.
  constructor; simpl; try lia; try tauto; try constructor.
  exists [], [], []. simpl. repeat split; try constructor; lia.
Qed.

(* changing only comm / waitq / acked *)
Lemma InvA_set_wait s c q a :
  InvA s -> comm s <= c <= durable s -> (rwait s = true -> c < eoff s) -> InvA (set_wait s c q a).
Proof.
  intros [D U C Q W M RW] Hc Hr. constructor; simpl; auto; lia.
Qed.

Lemma InvA_set_nread s n : InvA s -> InvA (set_nread s n).
Proof. intros [D U C Q W M RW]. constructor; simpl; auto. Qed.

Lemma notify_fst_snd c q : exists a r, notify c q = (a, r).
Proof. destruct (notify c q); eauto. Qed.

Lemma gtb_false a b : (a >? b) = false -> a <= b.
Proof. intro H. destruct (Z.gtb_spec a b); [discriminate|lia]. Qed.
Lemma gtb_true a b : (a >? b) = true -> b < a.
Proof. intro H. destruct (Z.gtb_spec a b); [lia|discriminate]. Qed.
Lemma geb_true a b : (a >=? b) = true -> b <= a.
Proof. intro H. apply Z.geb_le in H. lia. Qed.
Lemma geb_false a b : (a >=? b) = false -> a < b.
Proof. intro H. destruct (Z.geb_spec a b); [discriminate|lia]. Qed.

(* the replica's delayed commit: COMMIT, then apply the queue *)
Lemma InvA_flush_commit s0 c wq ak :
  InvA s0 -> eoff s0 <= durable s0 -> comm s0 <= c <= durable s0 ->
  InvA (flush (sql_commit (set_wait s0 c wq ak))).
Proof.
  intros [D U C Q W M RW] R Hc.
  destruct D as (a0 & b0 & c0 & Ebl & Edbc & Edbt & Sc & Ee & Da).
  rewrite Ee in R. rewrite !bsize_app in R.
  set (s := set_wait s0 c wq ak).
  unfold flush.
  destruct (flush_fold (queue (sql_commit s)) (sql_commit s)) as (E & R1 & Q1 & QO1 & EO & KV & OFF & SAME); [exact W|].
  destruct E as (Em & Er & Edc & Eb & Ec & Ed & Ew & Ea & En).
  change (queue (sql_commit s)) with (queue s0) in *.
  set (f := fold_left flush_item (queue s0) (sql_commit s)) in *.
  simpl in Em, Er, Edc, Eb, Ec, Ed, EO, KV.
  assert (Hsz : bsize (bl s0) = bsize a0 + bsize b0 + bsize c0 + bsize (qlevs (queue s0))).
  { rewrite Ebl, !bsize_app. lia. }
  pose proof (bsize_nonneg a0). pose proof (bsize_nonneg b0). pose proof (bsize_nonneg c0).
  pose proof (bsize_nonneg (qlevs (queue s0))).
  constructor; simpl; fold s; fold f.
  - destruct (queue s0) as [|i q'] eqn:Eq.
    + exists (a0 ++ b0), [], c0. rewrite Eb, Edc, (SAME eq_refl), Ed, EO. simpl. rewrite app_nil_r.
      split; [rewrite Ebl; simpl; rewrite !app_nil_r, <- !app_assoc; reflexivity|].
      split; [rewrite Edbt; reflexivity|].
      split; [simpl; rewrite Edbt, app_nil_r; reflexivity|].
      split; [exact Sc|].
      split; [rewrite Ee; simpl; rewrite !bsize_app; simpl; lia|].
      rewrite !bsize_app. simpl. lia.
    + exists (a0 ++ b0), (c0 ++ qlevs (i :: q')), []. rewrite Eb, Edc, Ed.
      assert (O : off (dbt f) = eoff f) by (apply OFF; discriminate).
      split; [rewrite Ebl; simpl; rewrite ?app_nil_r; rewrite <- ?app_assoc; simpl; rewrite ?app_nil_r; reflexivity|].
      split; [rewrite Edbt; reflexivity|].
      split.
      { destruct (dbt f) as [k o'] eqn:Edb. simpl in KV, O. subst k o'. f_equal.
        - rewrite Edbt. simpl. rewrite !applyl_app. rewrite (applyl_svc c0) by exact Sc. reflexivity.
        - rewrite EO, Ee. rewrite !bsize_app. lia. }
      split; [constructor|].
      split; [rewrite EO, Ee, !bsize_app; simpl; lia|].
      rewrite !bsize_app. lia.
  - rewrite Ec, Ed, Eb. simpl. lia.
  - rewrite Ec. simpl. lia.
  - reflexivity.
  - constructor.
  - reflexivity.
  - discriminate.
Qed.

(* Engine.Commit *)
Lemma InvA_commit_cb o s : InvA s -> o <= durable s -> InvA (commit_cb o s).
Proof.
  intros I Ho. unfold commit_cb. destruct (comm s >? o) eqn:St; [exact I|].
  apply gtb_false in St.
  destruct (notify o (waitq s)) as [a r].
  set (s1 := set_wait s o r (acked s ++ a)).
  assert (Rw1 : rwait s1 = rwait s) by reflexivity.
  assert (Eo1 : eoff s1 = eoff s) by reflexivity.
  destruct (rwait s1 && (o >=? eoff s1)) eqn:F.
  - apply andb_true_iff in F. destruct F as [Rw Oe].
    apply geb_true in Oe. apply InvA_flush_commit; [exact I|simpl in Oe; lia|lia].
  - apply InvA_set_wait; [exact I|lia|].
    intro Rw. rewrite Rw1, Rw in F. simpl in F. apply geb_false in F. exact F.
Qed.

(* ---------------------------------------------------------------- master-side facts about Engine.Commit *)
Lemma commit_cb_master o s : rwait s = false ->
  exists c q a, commit_cb o s = set_wait s c q a /\ comm s <= c /\ (c = comm s \/ c = o).
Proof.
  intro R. unfold commit_cb. destruct (comm s >? o) eqn:St.
  - exists (comm s), (waitq s), (acked s). split; [destruct s; reflexivity|lia].
  - apply gtb_false in St. destruct (notify o (waitq s)) as [a r]. simpl. rewrite R. simpl.
    exists o, r, (acked s ++ a). split; [reflexivity|lia].
Qed.

Lemma commit_cb_eoff_comm o s e : rwait s = false ->
  set_dbs (commit_cb o s) (dbc (commit_cb o s)) (dbt (commit_cb o s)) e = commit_cb o (set_dbs s (dbc s) (dbt s) e).
Proof.
  intro R. unfold commit_cb. simpl. destruct (comm s >? o); [reflexivity|].
  destruct (notify o (waitq s)) as [a r]. simpl. rewrite R. simpl. reflexivity.
Qed.

Lemma InvA_sql_commit s : InvA s -> off (dbt s) <= durable s -> InvA (sql_commit s).
Proof.
  intros [D U C Q W M RW] H.
  destruct D as (a0 & b0 & c0 & Ebl & Edbc & Edbt & Sc & Ee & Da).
  constructor; simpl; auto.
  exists (a0 ++ b0), [], c0. rewrite Edbt in *. simpl in *. rewrite !app_nil_r.
  rewrite Ebl, Ee, <- !app_assoc. repeat split; auto.
Qed.

Lemma InvA_set_durable s d : InvA s -> durable s <= d <= bsize (bl s) -> InvA (set_bl s (bl s) d).
Proof.
  intros [D U C Q W M RW] H.
  destruct D as (a0 & b0 & c0 & Ebl & Edbc & Edbt & Sc & Ee & Da).
  constructor; simpl; auto; try lia.
  exists a0, b0, c0. repeat split; auto. lia.
Qed.

(* Append of a user lev (plus, optionally, a service lev added by the binlog) on a master *)
Lemma InvA_append s l (svc : bool) d :
  InvA s -> replica s = false -> is_user l = true ->
  let b' := bl s ++ l :: (if svc then [LSvc] else []) in
  let predicted := eoff s + lev_size l in
  let real := predicted + (if svc then svc_size else 0) in
  durable s <= d <= bsize b' ->
  InvA (set_dbs (set_bl (set_dbs s (dbc s) (mkdb (apply_lev (kv (dbt s)) l) predicted) (eoff s)) b' d)
                (dbc s) (mkdb (apply_lev (kv (dbt s)) l) predicted) real)
  /\ real = bsize b'.
Proof.
  intros [D U C Q W M RW] Rep Us b' predicted real Hd.
  destruct D as (a0 & b0 & c0 & Ebl & Edbc & Edbt & Sc & Ee & Da).
  pose proof (M Rep) as Rw. pose proof (Q Rw) as Qe.
  rewrite Qe in Ebl. simpl in Ebl. rewrite app_nil_r in Ebl.
  assert (Eb : eoff s = bsize (bl s)) by (rewrite Ee, Ebl; reflexivity).
  assert (Hreal : real = bsize b').
  { unfold real, predicted, b'. rewrite bsize_app. simpl. destruct svc; simpl; unfold svc_size; lia. }
  split; [|exact Hreal].
  constructor; simpl; auto; try lia.
  - exists a0, (b0 ++ c0 ++ [l]), (if svc then [LSvc] else []).
    rewrite Qe. simpl. rewrite app_nil_r.
    split. { unfold b'. rewrite Ebl. rewrite <- !app_assoc. simpl. reflexivity. }
    split; [exact Edbc|].
    split. { f_equal.
      - rewrite Edbt. simpl.
        replace (a0 ++ b0 ++ c0 ++ [l]) with ((a0 ++ b0) ++ c0 ++ [l]) by (rewrite <- app_assoc; reflexivity).
        rewrite (applyl_app (a0 ++ b0)), (applyl_app c0). rewrite (applyl_svc c0) by exact Sc. reflexivity.
      - unfold predicted. rewrite Ee. rewrite !bsize_app. simpl. lia. }
    split. { destruct svc; repeat constructor. }
    split. { rewrite Hreal. unfold b'. rewrite Ebl. repeat (rewrite ?bsize_app; simpl).
             destruct svc; simpl; lia. }
    lia.
  - intro X. congruence.
Qed.

Lemma commit_cb_master_fields o s : rwait s = false ->
  dbc (commit_cb o s) = dbc s /\ dbt (commit_cb o s) = dbt s /\ eoff (commit_cb o s) = eoff s /\
  bl (commit_cb o s) = bl s /\ durable (commit_cb o s) = durable s /\ rwait (commit_cb o s) = false /\
  replica (commit_cb o s) = replica s /\ mode (commit_cb o s) = mode s /\ comm s <= comm (commit_cb o s).
Proof.
  intro R. destruct (commit_cb_master o s R) as (c & q & a & E & Hc & _). rewrite E. simpl. repeat split; auto.
Qed.

Lemma InvA_do_append l f asap s :
  InvA s -> replica s = false -> is_user l = true ->
  InvA (do_append l f asap s) /\
  replica (do_append l f asap s) = false /\
  bl (do_append l f asap s) = bl s ++ l :: (if flag f 2 then [LSvc] else []) /\
  eoff (do_append l f asap s) = bsize (bl (do_append l f asap s)) /\
  off (dbt (do_append l f asap s)) = eoff s + lev_size l /\
  eoff s = bsize (bl s) /\
  comm s <= comm (do_append l f asap s).
Proof.
  intros I Rep Us.
  pose proof (ia_master s I Rep) as Rw.
  unfold do_append.
  set (predicted := eoff s + lev_size l).
  set (real := predicted + (if flag f 2 then svc_size else 0)).
  set (b' := bl s ++ l :: (if flag f 2 then [LSvc] else [])).
  set (d' := if asap && flag f 8 then real else durable s).
  set (s1 := set_bl (set_dbs s (dbc s) (mkdb (apply_lev (kv (dbt s)) l) predicted) (eoff s)) b' d').
  assert (Hb : bsize b' = real /\ eoff s = bsize (bl s)).
  { destruct I as [D U C Q W M RW]. destruct D as (a0 & b0 & c0 & Ebl & _ & _ & _ & Ee & _).
    rewrite (Q Rw) in Ebl. simpl in Ebl. rewrite app_nil_r in Ebl.
    assert (eoff s = bsize (bl s)) by (rewrite Ee, Ebl; reflexivity).
    split; [|assumption]. unfold b', real, predicted. rewrite bsize_app. simpl.
    destruct (flag f 2); simpl; unfold svc_size; lia. }
  destruct Hb as [Hb He].
  assert (Hd : durable s <= d' <= bsize b').
  { pose proof (ia_dur s I). unfold d'. pose proof (lev_size_pos l).
    assert (bsize (bl s) <= bsize b'). { unfold b'. rewrite bsize_app. pose proof (bsize_nonneg (l :: (if flag f 2 then [LSvc] else []))). lia. }
    destruct (asap && flag f 8); lia. }
  destruct (InvA_append s l (flag f 2) d' I Rep Us Hd) as [IA _].
  fold predicted real b' in IA.
  set (A := set_dbs s1 (dbc s) (mkdb (apply_lev (kv (dbt s)) l) predicted) real) in *.
  assert (Rw1 : rwait s1 = false) by exact Rw.
  destruct (asap && flag f 8) eqn:Sy.
  - assert (E : set_dbs (commit_cb real s1) (dbc (commit_cb real s1)) (dbt (commit_cb real s1)) real = commit_cb real A).
    { rewrite (commit_cb_eoff_comm real s1 real Rw1). reflexivity. }
    rewrite E.
    assert (RwA : rwait A = false) by exact Rw.
    destruct (commit_cb_master_fields real A RwA) as (F1 & F2 & F3 & F4 & F5 & F6 & F7 & F8 & F9).
    split. { apply InvA_commit_cb; [exact IA|]. simpl. unfold d'. lia. }
    rewrite F2, F3, F4, F7. simpl. simpl in F9. repeat split; auto; try lia.
  - change (set_dbs s1 (dbc s1) (dbt s1) real) with A.
    split; [exact IA|]. simpl. repeat split; auto; lia.
Qed.

Lemma InvA_do_write l f s : InvA s -> InvA (do_write l f s).
Proof.
  intro I. unfold do_write.
  destruct (flag f 1 || replica s || negb (is_user l)) eqn:G; [exact I|].
  apply orb_false_iff in G. destruct G as [G Us]. apply orb_false_iff in G. destruct G as [_ Rep].
  apply negb_false_iff in Us.
  set (wc := match mode s with WaitCommit => true | NoWaitCommit => false end).
  set (now := negb wc && flag f 4).
  destruct (InvA_do_append l f (wc || now) s I Rep Us) as (I3 & Rep3 & B3 & E3 & O3 & E0 & C3).
  set (s3 := do_append l f (wc || now) s) in *.
  set (predicted := eoff s + lev_size l) in *.
  set (real := predicted + (if flag f 2 then svc_size else 0)).
  assert (Hreal : real = bsize (bl s3)).
  { rewrite B3, bsize_app. unfold real, predicted. simpl. rewrite E0. destruct (flag f 2); simpl; unfold svc_size; lia. }
  unfold do_wait. clearbody s3.
  destruct (wc || now); [|exact I3].
  destruct (predicted <=? comm s3) eqn:P.
  - destruct wc; [|exact I3]. apply InvA_set_wait; [exact I3|pose proof (ia_dur s3 I3); lia|].
    intro X. rewrite (ia_master s3 I3 Rep3) in X. discriminate.
  - assert (I4 : InvA (set_wait s3 (comm s3) (waitq s3 ++ [(predicted, false, TW (length (bl s)))]) (acked s3))).
    { apply InvA_set_wait; [exact I3|pose proof (ia_dur s3 I3); lia|].
      intro X. rewrite (ia_master s3 I3 Rep3) in X. discriminate. }
    destruct now; [|exact I4].
    set (s4 := set_wait s3 (comm s3) (waitq s3 ++ [(predicted, false, TW (length (bl s)))]) (acked s3)) in *.
    assert (I5 : InvA (set_bl s4 (bl s4) real)).
    { apply InvA_set_durable; [exact I4|]. simpl. pose proof (ia_dur s3 I3). lia. }
    set (s5 := set_bl s4 (bl s4) real) in *.
    assert (Rw5 : rwait s5 = false) by (exact (ia_master s3 I3 Rep3)).
    destruct (commit_cb_master_fields real s5 Rw5) as (F1 & F2 & F3 & F4 & F5 & F6 & F7 & F8 & F9).
    apply InvA_sql_commit.
    + apply InvA_commit_cb; [exact I5|simpl; lia].
    + rewrite F2, F5. simpl. rewrite O3. unfold real. fold predicted. destruct (flag f 2); unfold svc_size; lia.
Qed.

Lemma InvA_do_read s : InvA s -> InvA (do_read s).
Proof.
  intro I. unfold do_read.
  assert (I1 : InvA (set_nread s (S (nread s)))) by (apply InvA_set_nread; exact I).
  destruct (mode s); [|exact I1].
  destruct (waitq s); (apply InvA_set_wait; [exact I1|simpl; pose proof (ia_dur s I); lia|exact (ia_rw s I)]).
Qed.

(* Engine.Apply / Engine.Skip on a replica, followed by the reader having seen the lev in the file *)
Lemma InvA_deliver l t s :
  InvA s -> replica s = true ->
  InvA (let s1 := deliver_core l t s in set_bl s1 (bl s1 ++ [l]) (durable s1)).
Proof.
  intros [D U C Q W M RW] Rep.
  destruct D as (a0 & b0 & c0 & Ebl & Edbc & Edbt & Sc & Ee & Da).
  assert (Hsz : bsize (bl s) = bsize a0 + bsize b0 + bsize c0 + bsize (qlevs (queue s))).
  { rewrite Ebl, !bsize_app. lia. }
  pose proof (bsize_nonneg a0). pose proof (bsize_nonneg b0). pose proof (bsize_nonneg c0).
  pose proof (bsize_nonneg (qlevs (queue s))). pose proof (lev_size_pos l).
  assert (ENQ : forall i, wf_qitem i -> qlev i = l -> rwait s = true \/ comm s < eoff s ->
     InvA (set_bl (set_q s true (queue s ++ [i]) (qoff s)) (bl s ++ [l]) (durable s))).
  { intros i Wi Ei Hrw. constructor; simpl.
    - exists a0, b0, c0. unfold qlevs. rewrite map_app. simpl. rewrite Ei.
      split; [rewrite Ebl; rewrite <- !app_assoc; reflexivity|].
      repeat split; auto.
    - rewrite bsize_app; simpl; lia.
    - exact C.
    - discriminate.
    - apply Forall_app. split; [exact W|repeat constructor; exact Wi].
    - intro X. congruence.
    - intros _. destruct Hrw as [X|X]; [exact (RW X)|exact X]. }
  assert (DIR : forall kv' (sv : bool), rwait s = false ->
     kv' = applyl (a0 ++ b0 ++ c0 ++ [l]) kv0 ->
     InvA (set_bl (set_dbs s (dbc s) (mkdb kv' (eoff s + lev_size l)) (eoff s + lev_size l)) (bl s ++ [l]) (durable s))).
  { intros kv' sv Rw Ek. pose proof (Q Rw) as Qe. rewrite Qe in *. simpl in Ebl. rewrite app_nil_r in Ebl.
    constructor; simpl.
    - exists a0, (b0 ++ c0 ++ [l]), []. rewrite Qe. simpl. rewrite app_nil_r.
      split; [rewrite Ebl; rewrite <- !app_assoc; reflexivity|].
      split; [exact Edbc|].
      split. { f_equal; [exact Ek|]. rewrite Ee. repeat (rewrite ?bsize_app; simpl). lia. }
      split; [constructor|].
      split. { rewrite Ee. repeat (rewrite ?bsize_app; simpl). lia. }
      exact Da.
    - rewrite bsize_app; simpl; lia.
    - exact C.
    - intros _. exact Qe.
    - rewrite Qe. constructor.
    - intros _. exact Rw.
    - intro X. congruence. }
  cbv zeta. unfold deliver_core. destruct l as [k kd x j|].
  - destruct ((t || rwait s) && (eoff s >? comm s)) eqn:Cnd.
    + apply andb_true_iff in Cnd. destruct Cnd as [_ Cnd]. apply gtb_true in Cnd.
      unfold enqueue.
      assert (X := ENQ (QBody (LUser k kd x j)) eq_refl eq_refl (or_intror Cnd)).
      destruct X as [D' U' C' Q' W' M' RW']. constructor; simpl in *; auto.
    + assert (Rw : rwait s = false).
      { destruct (rwait s) eqn:E; [|reflexivity]. rewrite orb_true_r in Cnd. simpl in Cnd.
        specialize (RW eq_refl). destruct (Z.gtb_spec (eoff s) (comm s)); [discriminate|lia]. }
      unfold direct_apply. apply (DIR _ true Rw). rewrite Edbt. simpl.
      replace (a0 ++ b0 ++ c0 ++ [LUser k kd x j]) with ((a0 ++ b0) ++ c0 ++ [LUser k kd x j]) by (rewrite <- app_assoc; reflexivity).
      rewrite (applyl_app (a0 ++ b0)), (applyl_app c0). rewrite (applyl_svc c0) by exact Sc. reflexivity.
  - destruct (rwait s) eqn:Rw.
    + assert (X := ENQ (QSkip svc_size) eq_refl eq_refl (or_introl eq_refl)).
      destruct X as [D' U' C' Q' W' M' RW']. constructor; simpl in *; auto.
    + unfold direct_skip. apply (DIR _ true eq_refl). rewrite Edbt. simpl.
      replace (a0 ++ b0 ++ c0 ++ [LSvc]) with ((a0 ++ b0) ++ c0 ++ [LSvc]) by (rewrite <- app_assoc; reflexivity).
      rewrite (applyl_app (a0 ++ b0)), (applyl_app c0). rewrite (applyl_svc c0) by exact Sc. reflexivity.
Qed.

(* ---------------------------------------------------------------- restart *)
Section Replay.
  Variable full : list lev.

  Definition Jc (s : st) (rest : list lev) : Prop :=
    exists pre, full = pre ++ qlevs (queue s) ++ rest /\
      dbt s = mkdb (applyl pre kv0) (bsize pre) /\ eoff s = bsize pre /\
      (rwait s = false -> queue s = []) /\ Forall wf_qitem (queue s) /\
      (rwait s = true -> comm s < eoff s).

  Lemma Jc_enqueue l rest s : is_user l = true -> Jc s (l :: rest) -> comm s < eoff s -> Jc (enqueue l s) rest.
  Proof.
    intros Us (pre & F & Dt & Eo & Q & W & RW) Hc. exists pre. unfold enqueue. simpl.
    split. { rewrite F. unfold qlevs. rewrite map_app. simpl. rewrite <- !app_assoc. reflexivity. }
    repeat split; auto; try discriminate.
    apply Forall_app. split; [exact W|repeat constructor; exact Us].
  Qed.

  Lemma Jc_direct l rest s kv' : rwait s = false -> Jc s (l :: rest) ->
    (forall pre, kv (dbt s) = applyl pre kv0 -> kv' = applyl (pre ++ [l]) kv0) ->
    Jc (set_dbs s (dbc s) (mkdb kv' (eoff s + lev_size l)) (eoff s + lev_size l)) rest.
  Proof.
    intros Rw (pre & F & Dt & Eo & Q & W & RW) Hk. exists (pre ++ [l]). simpl.
    rewrite (Q Rw) in *. simpl in *.
    split. { rewrite F. rewrite <- app_assoc. reflexivity. }
    split. { f_equal; [apply Hk; rewrite Dt; reflexivity|]. rewrite Eo, bsize_app. simpl. lia. }
    split. { rewrite Eo, bsize_app. simpl. lia. }
    repeat split; auto. intro X. congruence.
  Qed.

  Lemma replay_J rest : forall dec s, Jc s rest ->
    (dec = Some false -> rwait s = false) -> (dec = Some true -> comm s < eoff s) ->
    Jc (replay rest dec s) [] /\ same_env s (replay rest dec s).
  Proof.
    induction rest as [|l rest IH]; intros dec s J D0 D1.
    - simpl. split; [exact J|apply same_env_refl].
    - destruct l as [k kd x j|].
      + simpl. set (q := match dec with Some q => q | None => eoff s >? comm s end).
        assert (Hq : (q = true -> comm s < eoff s) /\ (q = false -> rwait s = false)).
        { destruct J as (pre & F & Dt & Eo & Q & W & RW). unfold q. destruct dec as [[|]|].
          - split; [intros _; apply D1; reflexivity|discriminate].
          - split; [discriminate|intros _; apply D0; reflexivity].
          - split; [intro X; apply gtb_true in X; lia|].
            intro X. apply gtb_false in X. destruct (rwait s) eqn:E; [specialize (RW eq_refl); lia|reflexivity]. }
        destruct Hq as [Hq1 Hq0]. destruct q eqn:Eq.
        * destruct (IH (Some true) (enqueue (LUser k kd x j) s)) as [J' E'].
          -- apply Jc_enqueue; [reflexivity|exact J|apply Hq1; reflexivity].
          -- discriminate.
          -- intros _. simpl. apply Hq1; reflexivity.
          -- split; [exact J'|]. eapply same_env_trans; [|exact E']. repeat split.
        * destruct (IH (Some false) (direct_apply (LUser k kd x j) s)) as [J' E'].
          -- unfold direct_apply. apply Jc_direct; [apply Hq0; reflexivity|exact J|].
             intros pre Hk. rewrite applyl_app. simpl. rewrite Hk. reflexivity.
          -- intros _. simpl. apply Hq0; reflexivity.
          -- discriminate.
          -- split; [exact J'|]. eapply same_env_trans; [|exact E']. repeat split.
      + simpl. destruct (rwait s) eqn:Rw.
        * destruct (IH None (set_q s true (queue s ++ [QSkip svc_size]) (qoff s + svc_size))) as [J' E'].
          -- destruct J as (pre & F & Dt & Eo & Q & W & RW). exists pre. simpl.
             split. { rewrite F. unfold qlevs. rewrite map_app. simpl. rewrite <- !app_assoc. reflexivity. }
             repeat split; auto; try discriminate.
             apply Forall_app. split; [exact W|repeat constructor].
          -- discriminate.
          -- discriminate.
          -- split; [exact J'|]. eapply same_env_trans; [|exact E']. repeat split.
        * destruct (IH None (direct_skip svc_size s)) as [J' E'].
          -- unfold direct_skip. apply (Jc_direct LSvc rest s (kv (dbt s)) Rw J).
             intros pre Hk. rewrite applyl_app. simpl. exact Hk.
          -- discriminate.
          -- discriminate.
          -- split; [exact J'|]. eapply same_env_trans; [|exact E']. repeat split.
  Qed.
End Replay.

Lemma finish_spec s1 o pre :
  waitq s1 = [] -> comm s1 = 0 -> eoff s1 = bsize pre -> bsize pre <= o -> 0 <= o ->
  dbt s1 = mkdb (applyl pre kv0) (bsize pre) -> (rwait s1 = false -> queue s1 = []) -> Forall wf_qitem (queue s1) ->
  let s2 := commit_cb o s1 in
  let r := if rwait s2 && negb (replica s2) then flush s2 else s2 in
  let all := pre ++ qlevs (queue s1) in
  dbt r = mkdb (applyl all kv0) (bsize all) /\ eoff r = bsize all /\ comm r = o /\ rwait r = false /\
  queue r = [] /\ waitq r = [] /\ acked r = acked s1 /\ bl r = bl s1 /\ durable r = durable s1 /\
  mode r = mode s1 /\ replica r = replica s1 /\ nread r = nread s1 /\
  (dbc r = dbc s1 \/ dbc r = dbt s1).
Proof.
  intros Hw Hc He Ho Ho0 Hd Hq Wf. cbv zeta.
  unfold commit_cb. rewrite Hc, Hw.
  destruct (0 >? o) eqn:G; [apply gtb_true in G; lia|]. clear G.
  simpl notify. cbv iota beta.
  set (s1' := set_wait s1 o [] (acked s1 ++ [])).
  change (rwait s1') with (rwait s1). change (eoff s1') with (eoff s1).
  destruct (rwait s1) eqn:Rw.
  - assert (G : (o >=? eoff s1) = true) by (apply Z.geb_le; lia). rewrite G. simpl andb. cbv iota.
    unfold flush.
    destruct (flush_fold (queue (sql_commit s1')) (sql_commit s1')) as (E & R1 & Q1 & QO1 & EO & KV & OFF & SAME); [exact Wf|].
    destruct E as (Em2 & Er2 & Edc2 & Eb2 & Ec2 & Ed2 & Ew2 & Ea2 & En2).
    change (queue (sql_commit s1')) with (queue s1) in *.
    set (f := fold_left flush_item (queue s1) (sql_commit s1')) in *.
    simpl in Em2, Er2, Edc2, Eb2, Ec2, Ed2, Ew2, Ea2, En2, EO, KV. clearbody f.
    change (rwait (set_q f false [] (qoff f))) with false. simpl andb. cbv iota.
    simpl. rewrite Ec2, Ew2, Ea2, Eb2, Ed2, Em2, Er2, En2, Edc2, app_nil_r.
    assert (Hdt : dbt f = mkdb (applyl (pre ++ qlevs (queue s1)) kv0) (bsize (pre ++ qlevs (queue s1)))).
    { destruct (queue s1) as [|i q'] eqn:Eq.
      - rewrite (SAME eq_refl). simpl. rewrite app_nil_r. exact Hd.
      - assert (O : off (dbt f) = eoff f) by (apply OFF; discriminate).
        destruct (dbt f) as [k o']. simpl in KV, O. subst k o'. f_equal.
        + rewrite Hd. simpl. rewrite applyl_app. reflexivity.
        + rewrite EO, He, bsize_app. reflexivity. }
    rewrite Hdt. repeat split; auto. rewrite EO, He, bsize_app. reflexivity.
  - simpl andb. cbv iota. simpl. rewrite ?Rw. simpl. rewrite (Hq eq_refl). simpl. rewrite !app_nil_r.
    repeat split; auto.
Qed.

Lemma restart_spec s keep :
  InvA s -> (keep <= length (bl s))%nat -> durable s <= bsize (firstn keep (bl s)) ->
  let r := restart s keep in let b := firstn keep (bl s) in
  bl r = b /\ dbt r = mkdb (applyl b kv0) (bsize b) /\ eoff r = bsize b /\ comm r = bsize b /\ durable r = bsize b /\
  rwait r = false /\ queue r = [] /\ waitq r = [] /\ acked r = [] /\ mode r = mode s /\ replica r = replica s /\
  exists a rest, dbc r = mkdb (applyl a kv0) (bsize a) /\ b = a ++ rest.
Proof.
  intros I Hk Hd. cbv zeta.
  destruct (ia_dec s I) as (a0 & b0 & c0 & Ebl & Edbc & Edbt & Sc & Ee & Da).
  set (b := firstn keep (bl s)).
  assert (Hcov : exists r', b = a0 ++ r').
  { unfold b. rewrite Ebl. destruct (firstn_covers a0 (b0 ++ c0 ++ qlevs (queue s)) keep) as (r' & E & _).
    - rewrite <- Ebl. lia.
    - exists r'. exact E. }
  destruct Hcov as (r' & Eb).
  unfold restart. fold b.
  set (s0 := mkst (mode s) (replica s) (dbc s) (dbc s) (off (dbc s)) b 0 (bsize b) [] [] false [] 0 (nread s)).
  assert (Edrop : drop_upto (off (dbc s)) b = r').
  { rewrite Edbc. simpl. rewrite Eb. apply drop_upto_app. }
  rewrite Edrop.
  assert (J0 : Jc b s0 r').
  { exists a0. simpl. split; [exact Eb|]. rewrite Edbc. simpl. repeat split; auto. discriminate. }
  destruct (replay_J b r' None s0 J0) as [J1 E1]; try discriminate.
  set (s1 := replay r' None s0) in *.
  destruct E1 as (Em & Er & Edc & Ebl1 & Ec & Edu & Ew & Ea & En). simpl in Em, Er, Edc, Ebl1, Ec, Edu, Ew, Ea, En.
  destruct J1 as (pre & F & Dt & Eo & Q & W & RW). rewrite app_nil_r in F.
  pose proof (bsize_nonneg b) as Hb0.
  assert (Hpre : bsize pre <= bsize b). { rewrite F, bsize_app. pose proof (bsize_nonneg (qlevs (queue s1))). lia. }
  destruct (finish_spec s1 (bsize b) pre Ew Ec Eo Hpre Hb0 Dt Q W) as (F1 & F2 & F3 & F4 & F5 & F6 & F7 & F8 & F9 & F10 & F11 & F12 & F13).
  rewrite <- F in F1, F2.
  repeat split; try assumption; try congruence.
  destruct F13 as [X|X].
  - exists a0, r'. split; [rewrite X, Edc; exact Edbc|exact Eb].
  - exists pre, (qlevs (queue s1)). split; [rewrite X; exact Dt|exact F].
Qed.

Lemma InvA_restart s keep :
  InvA s -> (keep <= length (bl s))%nat -> durable s <= bsize (firstn keep (bl s)) -> InvA (restart s keep).
Proof.
  intros I Hk Hd.
  destruct (restart_spec s keep I Hk Hd) as (B & Dt & Eo & Co & Du & Rw & Qu & Wq & Ak & Mo & Re & a & rest & Dc & Eb).
  pose proof (bsize_nonneg (firstn keep (bl s))).
  constructor.
  - exists a, rest, []. rewrite Qu. simpl. rewrite !app_nil_r. rewrite B, Dt, Eo, Du, Eb.
    repeat split; auto; try constructor. rewrite bsize_app. pose proof (bsize_nonneg rest). lia.
  - rewrite Co, Du, B. lia.
  - rewrite Co. lia.
  - intros _. exact Qu.
  - rewrite Qu. constructor.
  - intros _. exact Rw.
  - rewrite Rw. discriminate.
Qed.

Lemma InvA_step s o : InvA s -> InvA (step s o).
Proof.
  intro I. destruct o as [l f| |n|n| |l t|keep]; simpl.
  - apply InvA_do_write; exact I.
  - apply InvA_do_read; exact I.
  - destruct (durable s <=? bsize (firstn n (bl s))) eqn:G2; [|exact I]. apply Z.leb_le in G2.
    apply InvA_set_durable; [exact I|]. pose proof (bsize_firstn_le n (bl s)). lia.
  - destruct (bsize (firstn n (bl s)) <=? durable s) eqn:G; [|exact I]. apply Z.leb_le in G.
    apply InvA_commit_cb; [exact I|exact G].
  - destruct (mode s); [|exact I].
    destruct (negb (replica s) && (eoff s <=? comm s)) eqn:G; [|exact I].
    apply andb_true_iff in G. destruct G as [G1 G2]. apply Z.leb_le in G2.
    apply InvA_sql_commit; [exact I|].
    destruct (ia_dec s I) as (a0 & b0 & c0 & Ebl & Edbc & Edbt & Sc & Ee & Da).
    rewrite Edbt. simpl. pose proof (ia_dur s I). rewrite Ee in G2. rewrite !bsize_app in *. pose proof (bsize_nonneg c0). lia.
  - destruct (replica s) eqn:Rep; [|exact I]. apply (InvA_deliver l t s I Rep).
  - destruct (Nat.leb keep (length (bl s)) && (durable s <=? bsize (firstn keep (bl s)))) eqn:G; [|exact I].
    apply andb_true_iff in G. destruct G as [G1 G2]. apply Nat.leb_le in G1. apply Z.leb_le in G2.
    apply InvA_restart; assumption.
Qed.

Lemma InvA_run ops : forall s, InvA s -> InvA (run s ops).
Proof. induction ops as [|o ops IH]; intros s I; simpl; [exact I|]. apply IH. apply InvA_step. exact I. Qed.
