(* C17 — acknowledgement invariant: a write whose wait channel was closed lies inside the committed binlog offset. *)
From Coq Require Import ZArith List Bool Lia.
From SH Require Import Engine.Model Engine.Proofs.
Import ListNotations.
Open Scope Z_scope.

Definition is_prefix_state (b : list lev) (o : Z) (v : list Z) : Prop :=
  exists n, (n <= length b)%nat /\ bsize (firstn n b) = o /\ applyl (firstn n b) kv0 = v.

Definition Pw (b : list lev) (e : Z * bool * ticket) : Prop :=
  match e with
  | (o, rw, TW i) => rw = false /\ (i < length b)%nat /\ bsize (firstn (S i) b) = o
  | (_, rw, TR _ ro v) => rw = true /\ is_prefix_state b ro v
  end.
Definition Pa (b : list lev) (c : Z) (t : ticket) : Prop :=
  match t with
  | TW i => (i < length b)%nat /\ bsize (firstn (S i) b) <= c
  | TR _ ro v => is_prefix_state b ro v
  end.

Definition InvB (s : st) : Prop :=
  Forall (Pw (bl s)) (waitq s) /\ Forall (Pa (bl s) (comm s)) (acked s).

Lemma firstn_app_le {A} n (b x : list A) : (n <= length b)%nat -> firstn n (b ++ x) = firstn n b.
Proof. intro H. rewrite firstn_app. replace (n - length b)%nat with 0%nat by lia. simpl. apply app_nil_r. Qed.

Lemma is_prefix_state_app b x o v : is_prefix_state b o v -> is_prefix_state (b ++ x) o v.
Proof.
  intros (n & L & E1 & E2). exists n. rewrite app_length. split; [lia|].
  rewrite firstn_app_le by lia. split; assumption.
Qed.

Lemma Pw_app b x e : Pw b e -> Pw (b ++ x) e.
Proof.
  destruct e as [[o rw] [i|id o' v]]; simpl.
  - intros (R & L & E). rewrite app_length. split; [exact R|]. split; [lia|]. rewrite <- E. f_equal.
    change (firstn (S i) (b ++ x) = firstn (S i) b). apply firstn_app_le. lia.
  - intros (R & P). split; [exact R|]. apply is_prefix_state_app. exact P.
Qed.

Lemma Pa_app b x c t : Pa b c t -> Pa (b ++ x) c t.
Proof.
  destruct t as [i|id o' v]; simpl.
  - intros (L & E). rewrite app_length. split; [lia|].
    replace (match b ++ x with [] => [] | a :: l => a :: firstn i l end) with (firstn (S i) (b ++ x)) by reflexivity.
    rewrite firstn_app_le by lia. exact E.
  - apply is_prefix_state_app.
Qed.

Lemma Pa_mono b c c' t : c <= c' -> Pa b c t -> Pa b c' t.
Proof. destruct t; simpl; auto. intros H (L & E). split; [exact L|lia]. Qed.

Lemma notify_spec b c q : Forall (Pw b) q ->
  Forall (Pw b) (snd (notify c q)) /\ Forall (Pa b c) (fst (notify c q)).
Proof.
  induction q as [|[[o rw] t] q IH]; intro F; simpl.
  - split; constructor.
  - inversion F as [|? ? Fe Fq]; subst. specialize (IH Fq).
    destruct (negb rw && (o >? c)) eqn:G; simpl.
    + split; [exact F|constructor].
    + destruct (notify c q) as [a r]. simpl in *. destruct IH as [IH1 IH2]. split; [exact IH1|].
      constructor; [|exact IH2].
      destruct t as [i|id o' v]; simpl.
      * simpl in Fe. destruct Fe as (R & L & E). subst rw. simpl in G.
        apply gtb_false in G. split; [exact L|lia].
      * simpl in Fe. destruct Fe as (_ & P). exact P.
Qed.

Lemma InvB_frame s s' : bl s' = bl s -> comm s' = comm s -> waitq s' = waitq s -> acked s' = acked s -> InvB s -> InvB s'.
Proof. unfold InvB. intros -> -> -> ->. auto. Qed.

Lemma InvB_commit_cb o s : Forall wf_qitem (queue s) -> InvB s -> InvB (commit_cb o s).
Proof.
  intros Wf [W A]. unfold commit_cb. destruct (comm s >? o) eqn:St; [split; assumption|].
  apply gtb_false in St.
  pose proof (notify_spec (bl s) o (waitq s) W) as [N1 N2].
  destruct (notify o (waitq s)) as [a r]. simpl in N1, N2.
  set (s1 := set_wait s o r (acked s ++ a)).
  assert (B1 : InvB s1).
  { split; simpl; [exact N1|]. apply Forall_app. split; [|exact N2].
    eapply Forall_impl; [|exact A]. intros t. apply Pa_mono. exact St. }
  destruct (rwait s1 && (o >=? eoff s1)); [|exact B1].
  unfold flush.
  destruct (flush_fold (queue (sql_commit s1)) (sql_commit s1)) as (E & _); [exact Wf|].
  destruct E as (Em & Er & Edc & Eb & Ec & Ed & Ew & Ea & En).
  eapply InvB_frame; [| | | |exact B1]; simpl; assumption.
Qed.

Lemma InvB_append s x : InvB s -> InvB (set_bl s (bl s ++ x) (durable s)).
Proof.
  intros [W A]. split; simpl.
  - eapply Forall_impl; [|exact W]. intro e. apply Pw_app.
  - eapply Forall_impl; [|exact A]. intro t. apply Pa_app.
Qed.

Definition Inv (s : st) : Prop := InvA s /\ InvB s.

Lemma InvB_do_write l f s : InvA s -> InvB s -> InvB (do_write l f s).
Proof.
  intros IA IB. unfold do_write.
  destruct (flag f 1 || replica s || negb (is_user l)) eqn:G; [exact IB|].
  apply orb_false_iff in G. destruct G as [G Us]. apply orb_false_iff in G. destruct G as [_ Rep].
  apply negb_false_iff in Us.
  set (wc := match mode s with WaitCommit => true | NoWaitCommit => false end).
  set (now := negb wc && flag f 4).
  destruct (InvA_do_append l f (wc || now) s IA Rep Us) as (I3 & Rep3 & B3 & E3 & O3 & E0 & C3).
  pose proof (ia_master s IA Rep) as Rw.
  (* InvB of the state after the append *)
  assert (IB3 : InvB (do_append l f (wc || now) s)).
  { unfold do_append.
    set (predicted := eoff s + lev_size l).
    set (real := predicted + (if flag f 2 then svc_size else 0)).
    set (b' := bl s ++ l :: (if flag f 2 then [LSvc] else [])).
    set (d' := if (wc || now) && flag f 8 then real else durable s).
    set (s1 := set_bl (set_dbs s (dbc s) (mkdb (apply_lev (kv (dbt s)) l) predicted) (eoff s)) b' d').
    assert (IB1 : InvB s1).
    { destruct (InvB_append s (l :: (if flag f 2 then [LSvc] else [])) IB) as [W A]. split; simpl; assumption. }
    destruct ((wc || now) && flag f 8).
    - assert (IB2 : InvB (commit_cb real s1)).
      { apply InvB_commit_cb; [|exact IB1]. simpl. rewrite (ia_q s IA Rw). constructor. }
      eapply InvB_frame; [| | | |exact IB2]; reflexivity.
    - eapply InvB_frame; [| | | |exact IB1]; reflexivity. }
  set (s3 := do_append l f (wc || now) s) in *.
  set (predicted := eoff s + lev_size l) in *.
  set (real := predicted + (if flag f 2 then svc_size else 0)).
  assert (Hi : (length (bl s) < length (bl s3))%nat /\ bsize (firstn (S (length (bl s))) (bl s3)) = predicted).
  { split.
    - rewrite B3, app_length. simpl. lia.
    - rewrite B3.
      replace (bl s ++ l :: (if flag f 2 then [LSvc] else [])) with ((bl s ++ [l]) ++ (if flag f 2 then [LSvc] else []))
        by (rewrite <- app_assoc; reflexivity).
      replace (S (length (bl s))) with (length (bl s ++ [l])) by (rewrite app_length; simpl; lia).
      rewrite firstn_app_le by lia. rewrite firstn_all. rewrite bsize_app. simpl. unfold predicted. lia. }
  destruct Hi as [Hi1 Hi2].
  unfold do_wait. clearbody s3.
  destruct (wc || now); [|exact IB3].
  destruct IB3 as [W3 A3].
  destruct (predicted <=? comm s3) eqn:P.
  - apply Z.leb_le in P. destruct wc; [|split; assumption]. split; simpl; [exact W3|].
    apply Forall_app. split; [exact A3|]. constructor; [|constructor]. simpl. split; [exact Hi1|]. 
    change (bsize (firstn (S (length (bl s))) (bl s3)) <= comm s3). lia.
  - assert (IB4 : InvB (set_wait s3 (comm s3) (waitq s3 ++ [(predicted, false, TW (length (bl s)))]) (acked s3))).
    { split; simpl; [|exact A3]. apply Forall_app. split; [exact W3|]. constructor; [|constructor].
      simpl. split; [reflexivity|]. split; [exact Hi1|exact Hi2]. }
    destruct now; [|exact IB4].
    set (s4 := set_wait s3 (comm s3) (waitq s3 ++ [(predicted, false, TW (length (bl s)))]) (acked s3)) in *.
    assert (IB5 : InvB (commit_cb real (set_bl s4 (bl s4) real))).
    { apply InvB_commit_cb.
      - simpl. rewrite (ia_q s3 I3 (ia_master s3 I3 Rep3)). constructor.
      - eapply InvB_frame; [| | | |exact IB4]; reflexivity. }
    eapply InvB_frame; [| | | |exact IB5]; reflexivity.
Qed.

Lemma dbt_prefix_state s : InvA s -> is_prefix_state (bl s) (off (dbt s)) (kv (dbt s)).
Proof.
  intro IA. destruct (ia_dec s IA) as (a0 & b0 & c0 & Ebl & Edbc & Edbt & Sc & Ee & Da).
  exists (length (a0 ++ b0)).
  assert (Hf : firstn (length (a0 ++ b0)) (bl s) = a0 ++ b0).
  { rewrite Ebl. replace (a0 ++ b0 ++ c0 ++ qlevs (queue s)) with ((a0 ++ b0) ++ c0 ++ qlevs (queue s)) by (rewrite <- app_assoc; reflexivity).
    rewrite firstn_app, firstn_all, Nat.sub_diag. simpl. apply app_nil_r. }
  rewrite Hf, Edbt. simpl. split; [rewrite Ebl, !app_length; lia|]. split; reflexivity.
Qed.

Lemma InvB_do_read s : InvA s -> InvB s -> InvB (do_read s).
Proof.
  intros IA [W A]. pose proof (dbt_prefix_state s IA) as P. unfold do_read. destruct (mode s); [|split; assumption].
  destruct (waitq s) eqn:E; split; simpl; auto.
  - apply Forall_app. split; [exact A|]. constructor; [exact P|constructor].
  - apply Forall_app. split; [rewrite E; exact W|]. constructor; [split; [reflexivity|exact P]|constructor].
Qed.

Lemma deliver_core_frame l t s :
  bl (deliver_core l t s) = bl s /\ comm (deliver_core l t s) = comm s /\
  waitq (deliver_core l t s) = waitq s /\ acked (deliver_core l t s) = acked s /\ durable (deliver_core l t s) = durable s.
Proof.
  unfold deliver_core. destruct l.
  - destruct ((t || rwait s) && (eoff s >? comm s)); simpl; repeat split.
  - destruct (rwait s); simpl; repeat split.
Qed.

Lemma Inv_step s o : Inv s -> Inv (step s o).
Proof.
  intros [IA IB]. split; [apply InvA_step; exact IA|].
  destruct o as [l f| |n|n| |l t|keep]; simpl.
  - apply InvB_do_write; assumption.
  - apply InvB_do_read; assumption.
  - destruct (durable s <=? bsize (firstn n (bl s))); [|exact IB].
    eapply InvB_frame; [| | | |exact IB]; reflexivity.
  - destruct (bsize (firstn n (bl s)) <=? durable s); [|exact IB].
    apply InvB_commit_cb; [exact (ia_wfq s IA)|exact IB].
  - destruct (mode s); [|exact IB].
    destruct (negb (replica s) && (eoff s <=? comm s)); [|exact IB].
    eapply InvB_frame; [| | | |exact IB]; reflexivity.
  - destruct (replica s); [|exact IB].
    destruct (deliver_core_frame l t s) as (F1 & F2 & F3 & F4 & F5).
    set (s1 := deliver_core l t s) in *.
    assert (IB1 : InvB s1) by (eapply InvB_frame; [| | | |exact IB]; assumption).
    destruct (InvB_append s1 [l] IB1) as [W A]. split; simpl; assumption.
  - destruct (Nat.leb keep (length (bl s)) && (durable s <=? bsize (firstn keep (bl s)))) eqn:G; [|exact IB].
    apply andb_true_iff in G. destruct G as [G1 G2]. apply Nat.leb_le in G1. apply Z.leb_le in G2.
    destruct (restart_spec s keep IA G1 G2) as (B & Dt & Eo & Co & Du & Rw & Qu & Wq & Ak & _).
    split; [rewrite Wq|rewrite Ak]; constructor.
Qed.

Lemma Inv_init m r : Inv (init m r).
Proof. split; [apply InvA_init|split; constructor]. Qed.

Lemma Inv_run ops : forall s, Inv s -> Inv (run s ops).
Proof. induction ops as [|o ops IH]; intros s I; simpl; [exact I|]. apply IH. apply Inv_step. exact I. Qed.
