(* C09 — the invariant linking a concrete shard state of DiskCache.Model to a structured ("ghost") view of its
   directory: every file is a list of records (good or deleted, each carrying the id under which the running
   session knows it, if any) followed by a possibly torn tail, and has a role (already read / being read /
   waiting to be read / created by this session).  Definitions and the list toolkit; the preservation proofs
   are in Steps.v, the refinement theorem in Refine.v. *)
From Coq Require Import ZArith List Bool Lia.
From SH Require Import Common.Wrap Gen.DiskCacheConsts DiskCache.Model DiskCache.Spec DiskCache.Format.
Import ListNotations.
Open Scope Z_scope.

Inductive role := RA | RR (i : nat) | RW | RS (writing : bool).
Definition rank (r : role) : Z := match r with RA => 0 | RR _ => 1 | RW => 2 | RS _ => 3 end.

Record grec := GR { gr_magic : Z; gr_id : option Z; gr_time : Z; gr_body : bytes }.
Record gfile := GF { gf_name : Z; gf_role : role; gf_next : Z; gf_recs : list grec; gf_torn : bytes }.

Definition live (r : grec) : bool := gr_magic r =? magic_good.
Definition has_gid (r : grec) : bool := match gr_id r with Some _ => true | None => false end.
Definition rsize (r : grec) : Z := 20 + blen (gr_body r).
Definition osum (l : list grec) : Z := fold_right (fun r a => rsize r + a) 0 l.
Definition nids (l : list grec) : Z := Z.of_nat (length (filter has_gid l)).
Definition is_R (f : gfile) : bool := match gf_role f with RR _ => true | _ => false end.
Definition is_W (f : gfile) : bool := match gf_role f with RW => true | _ => false end.
Definition is_wr (f : gfile) : bool := match gf_role f with RS true => true | _ => false end.
Definition refs (f : gfile) : Z := (if is_R f then 1 else 0) + (if is_wr f then 1 else 0) + nids (gf_recs f).
Definition to_ent (r : grec) : aent := AE (gr_id r) (gr_time r) (gr_body r).
Definition fents (l : list grec) : list aent := map to_ent (filter live l).
Definition aents (g : list gfile) : list aent := flat_map (fun f => fents (gf_recs f)) g.
Definition optl {A} (o : option A) : list A := match o with Some x => [x] | None => [] end.
Definition ksize (k : list (Z * bucket)) : Z := fold_right (fun p a => b_size (snd p) + 20 + a) 0 k.

Fixpoint inc (l : list Z) : Prop := match l with [] => True | x :: r => Forall (fun y => x < y) r /\ inc r end.
Fixpoint ndec (l : list Z) : Prop := match l with [] => True | x :: r => Forall (fun y => x <= y) r /\ ndec r end.

Section G.
Variable crc : bytes -> Z.
Variable rep : bool.

Definition enc_rec (r : grec) : bytes :=
  enc_header (gr_magic r) (gr_time r) (blen (gr_body r)) (crc (gr_body r)) ++ gr_body r.
Definition enc_recs (l : list grec) : bytes := flat_map enc_rec l.
Definition fdata (f : gfile) : bytes := enc_recs (gf_recs f) ++ gf_torn f.
Definition fenc (f : gfile) : Z * bytes := (gf_name f, fdata f).
Definition gtotal (g : list gfile) : Z := fold_right (fun f a => blen (fdata f) + a) 0 g.

Fixpoint fknown (name pos : Z) (l : list grec) : list (Z * bucket) :=
  match l with
  | [] => []
  | r :: l' =>
      match gr_id r with
      | Some i => [(i, BK name pos (gr_time r) (blen (gr_body r)) (crc (gr_body r)))]
      | None => []
      end ++ fknown name (pos + rsize r) l'
  end.
Definition gknown (g : list gfile) : list (Z * bucket) := flat_map (fun f => fknown (gf_name f) 0 (gf_recs f)) g.

Definition rec_ok (r : grec) : Prop :=
  (gr_magic r = magic_good \/ is_deleted_magic rep (gr_magic r) = true) /\
  0 <= gr_time r < two32 /\ blen (gr_body r) <= max_chunk_size /\ (has_gid r = true -> live r = true).

Definition torn_ok (t : bytes) : Prop :=
  exists tm body k, 0 <= tm < two32 /\ blen body <= max_chunk_size /\ (k < 20 + length body)%nat /\
                    t = firstn k (enc_header magic_good tm (blen body) (crc body) ++ body).

Definition seen (r : grec) : Prop := live r = true -> has_gid r = true.
Definition unseen (r : grec) : Prop := gr_id r = None.

Definition role_ok (f : gfile) : Prop :=
  match gf_role f with
  | RA => Forall seen (gf_recs f)
  | RS _ => Forall seen (gf_recs f) /\ gf_torn f = []
  | RW => Forall unseen (gf_recs f)
  | RR i => (i <= length (gf_recs f))%nat /\ Forall seen (firstn i (gf_recs f)) /\ Forall unseen (skipn i (gf_recs f)) /\
            gf_next f = osum (firstn i (gf_recs f))
  end.

Definition file_ok (f : gfile) : Prop :=
  Forall rec_ok (gf_recs f) /\ torn_ok (gf_torn f) /\ role_ok f /\ (is_W f = false -> 0 < refs f).

Definition wr_ok (w : option Z) (g : list gfile) : Prop :=
  match w with
  | Some n => exists g0 f, g = g0 ++ [f] /\ gf_name f = n /\ gf_role f = RS true /\ Forall (fun f => is_wr f = false) g0
  | None => Forall (fun f => is_wr f = false) g
  end.

Record Inv (st : shard) (g : list gfile) : Prop := {
  I_disk : s_disk st = map fenc g;
  I_sorted : inc (map gf_name g);
  I_clock : Forall (fun f => gf_name f < s_clock st) g;
  I_rank : ndec (map (fun f => rank (gf_role f)) g);
  I_files : Forall file_ok g;
  I_reading : map gf_name (filter is_R g) = optl (s_reading st);
  I_waiting : s_waiting st = map (fun f => (gf_name f, blen (fdata f))) (filter is_W g);
  I_wsize : s_waiting_size st = sum_sizes (s_waiting st);
  I_writing : wr_ok (s_writing st) g;
  I_open : forall f, In f g ->
           find_open (gf_name f) (s_open st) =
           if is_W f then None else Some (MF (gf_name f) (gf_next f) (blen (fdata f)) (refs f));
  I_known : forall i, find_known i (s_known st) = find_known i (gknown g);
  I_nodup : NoDup (map fst (gknown g));
  I_idrange : Forall (fun p => 0 < fst p <= s_last_id st) (gknown g);
  I_ksize : s_known_size st = ksize (gknown g);
  I_total : s_total st = gtotal g;
  I_last : 0 <= s_last_id st;
  I_opendom : Forall (fun m => mf_name m < s_clock st) (s_open st)
}.

Definition abs (st : shard) (g : list gfile) : astate := AS (aents g) (s_last_id st).

(* ---------- basic facts ---------- *)
Lemma blen_enc_rec r : blen (enc_rec r) = rsize r.
Proof. unfold enc_rec, rsize. rewrite blen_app. unfold blen at 1. rewrite enc_header_length. reflexivity. Qed.

Lemma enc_recs_app a b : enc_recs (a ++ b) = enc_recs a ++ enc_recs b.
Proof. unfold enc_recs. apply flat_map_app. Qed.

Lemma enc_recs_cons r l : enc_recs (r :: l) = enc_rec r ++ enc_recs l.
Proof. reflexivity. Qed.

Lemma blen_enc_recs l : blen (enc_recs l) = osum l.
Proof.
  induction l as [|r l IH]; [reflexivity|].
  rewrite enc_recs_cons, blen_app, blen_enc_rec, IH. reflexivity.
Qed.

Lemma osum_app a b : osum (a ++ b) = osum a + osum b.
Proof. induction a; simpl; auto. rewrite IHa. lia. Qed.

Lemma osum_nonneg l : 0 <= osum l.
Proof. induction l; simpl; [lia|]. unfold rsize. pose proof (blen_nonneg (gr_body a)). lia. Qed.

Lemma rsize_pos r : 20 <= rsize r.
Proof. unfold rsize. pose proof (blen_nonneg (gr_body r)). lia. Qed.

Lemma blen_fdata f : blen (fdata f) = osum (gf_recs f) + blen (gf_torn f).
Proof. unfold fdata. rewrite blen_app, blen_enc_recs. reflexivity. Qed.

Lemma nids_app a b : nids (a ++ b) = nids a + nids b.
Proof. unfold nids. rewrite filter_app, app_length. lia. Qed.

Lemma nids_nonneg l : 0 <= nids l.
Proof. unfold nids. lia. Qed.

Lemma fents_app a b : fents (a ++ b) = fents a ++ fents b.
Proof. unfold fents. rewrite filter_app, map_app. reflexivity. Qed.

Lemma aents_app a b : aents (a ++ b) = aents a ++ aents b.
Proof. unfold aents. apply flat_map_app. Qed.

Lemma gknown_app a b : gknown (a ++ b) = gknown a ++ gknown b.
Proof. unfold gknown. apply flat_map_app. Qed.

Lemma gtotal_app a b : gtotal (a ++ b) = gtotal a + gtotal b.
Proof. induction a; simpl; auto. rewrite IHa. lia. Qed.

Lemma fknown_app n p a b : fknown n p (a ++ b) = fknown n p a ++ fknown n (p + osum a) b.
Proof.
  revert p. induction a as [|r a IH]; intros p; simpl.
  - rewrite Z.add_0_r. reflexivity.
  - rewrite IH, <- app_assoc. replace (p + rsize r + osum a) with (p + (rsize r + osum a)) by lia. reflexivity.
Qed.

Lemma ksize_app a b : ksize (a ++ b) = ksize a + ksize b.
Proof. induction a; simpl; auto. rewrite IHa. lia. Qed.

Lemma fknown_length_nat n p l : length (fknown n p l) = length (filter has_gid l).
Proof.
  revert p. induction l as [|r l IH]; intros p; [reflexivity|].
  cbn [fknown filter]. rewrite app_length, IH. unfold has_gid at 2. destruct (gr_id r); reflexivity.
Qed.

Lemma fknown_length n p l : Z.of_nat (length (fknown n p l)) = nids l.
Proof. rewrite fknown_length_nat. reflexivity. Qed.

Lemma fknown_file n p l : Forall (fun q => b_file (snd q) = n) (fknown n p l).
Proof.
  revert p. induction l as [|r l IH]; intros p; simpl; auto.
  apply Forall_app. split; auto. destruct (gr_id r); constructor; auto.
Qed.

(* ---------- association lists ---------- *)
Lemma find_known_app2 a b i :
  find_known i (a ++ b) = match find_known i a with Some x => Some x | None => find_known i b end.
Proof. induction a as [|[j c] a IH]; simpl; auto. destruct (j =? i); auto. Qed.

Lemma find_known_none k i : ~ In i (map fst k) -> find_known i k = None.
Proof.
  induction k as [|[j c] k IH]; simpl; auto. intros H.
  destruct (j =? i) eqn:E; [apply Z.eqb_eq in E; subst; tauto|]. apply IH. tauto.
Qed.

Lemma find_known_in k i b : find_known i k = Some b -> In i (map fst k).
Proof.
  induction k as [|[j c] k IH]; simpl; [discriminate|].
  destruct (j =? i) eqn:E; [apply Z.eqb_eq in E; auto|]. intros H. right. auto.
Qed.

Lemma find_known_del_other k id i : i <> id -> find_known i (del_known id k) = find_known i k.
Proof.
  intros N. induction k as [|[j c] k IH]; simpl; auto.
  destruct (j =? id) eqn:E; simpl.
  - apply Z.eqb_eq in E. subst. destruct (id =? i) eqn:E2; [apply Z.eqb_eq in E2; congruence|]. exact IH.
  - destruct (j =? i); auto.
Qed.

Lemma find_open_app a b n :
  find_open n (a ++ b) = match find_open n a with Some x => Some x | None => find_open n b end.
Proof. induction a as [|m a IH]; simpl; auto. destruct (mf_name m =? n); auto. Qed.

Lemma find_open_upd_same o n F m :
  find_open n o = Some m -> mf_name (F m) = n -> find_open n (upd_open n F o) = Some (F m).
Proof.
  induction o as [|x o IH]; simpl; [discriminate|].
  destruct (mf_name x =? n) eqn:E; intros H HF.
  - injection H as ->. simpl. rewrite HF, Z.eqb_refl. reflexivity.
  - simpl. rewrite E. auto.
Qed.

Lemma find_open_upd_other o n F n' :
  n' <> n -> (forall m, mf_name (F m) = mf_name m) -> find_open n' (upd_open n F o) = find_open n' o.
Proof.
  intros N HF. induction o as [|x o IH]; simpl; auto.
  destruct (mf_name x =? n) eqn:E; simpl.
  - rewrite HF. apply Z.eqb_eq in E. destruct (mf_name x =? n') eqn:E2; auto. apply Z.eqb_eq in E2. congruence.
  - destruct (mf_name x =? n'); auto.
Qed.

Lemma find_open_del_same o n : find_open n (del_open n o) = None.
Proof.
  induction o as [|x o IH]; simpl; auto. destruct (mf_name x =? n) eqn:E; simpl; auto. rewrite E. exact IH.
Qed.

Lemma find_open_del_other o n n' : n' <> n -> find_open n' (del_open n o) = find_open n' o.
Proof.
  intros N. induction o as [|x o IH]; simpl; auto.
  destruct (mf_name x =? n) eqn:E; simpl.
  - apply Z.eqb_eq in E. destruct (mf_name x =? n') eqn:E2; auto. apply Z.eqb_eq in E2. congruence.
  - destruct (mf_name x =? n'); auto.
Qed.

Lemma find_open_name o n m : find_open n o = Some m -> mf_name m = n.
Proof.
  induction o as [|x o IH]; simpl; [discriminate|]. destruct (mf_name x =? n) eqn:E; auto.
  intros H; inversion H; subst. apply Z.eqb_eq; exact E.
Qed.

(* ---------- sorted names and the directory ---------- *)
Lemma inc_app_inv a b : inc (a ++ b) -> inc a /\ inc b /\ (forall x y, In x a -> In y b -> x < y).
Proof.
  induction a as [|x a IH]; simpl; intros H.
  - repeat split; auto. intros ? ? [].
  - destruct H as [H1 H2]. apply Forall_app in H1. destruct H1 as [H1a H1b].
    destruct (IH H2) as [Ia [Ib Iab]]. repeat split; auto.
    intros x' y [->|Hx] Hy; [rewrite Forall_forall in H1b; auto|auto].
Qed.

Lemma inc_app a b : inc a -> inc b -> (forall x y, In x a -> In y b -> x < y) -> inc (a ++ b).
Proof.
  induction a as [|x a IH]; simpl; intros Ha Hb Hab; auto.
  destruct Ha as [H1 H2]. split.
  - apply Forall_app. split; auto. apply Forall_forall. intros y Hy. apply Hab; auto.
  - apply IH; auto.
Qed.

Lemma ndec_app_inv a b : ndec (a ++ b) -> ndec a /\ ndec b /\ (forall x y, In x a -> In y b -> x <= y).
Proof.
  induction a as [|x a IH]; simpl; intros H.
  - repeat split; auto. intros ? ? [].
  - destruct H as [H1 H2]. apply Forall_app in H1. destruct H1 as [H1a H1b].
    destruct (IH H2) as [Ia [Ib Iab]]. repeat split; auto.
    intros x' y [->|Hx] Hy; [rewrite Forall_forall in H1b; auto|auto].
Qed.

Lemma ndec_app a b : ndec a -> ndec b -> (forall x y, In x a -> In y b -> x <= y) -> ndec (a ++ b).
Proof.
  induction a as [|x a IH]; simpl; intros Ha Hb Hab; auto.
  destruct Ha as [H1 H2]. split.
  - apply Forall_app. split; auto. apply Forall_forall. intros y Hy. apply Hab; auto.
  - apply IH; auto.
Qed.

Lemma inc_mid (pre post : list gfile) f :
  inc (map gf_name (pre ++ f :: post)) ->
  ~ In (gf_name f) (map gf_name pre) /\ ~ In (gf_name f) (map gf_name post) /\
  inc (map gf_name (pre ++ post)) /\
  (forall f', gf_name f' = gf_name f -> inc (map gf_name (pre ++ f' :: post))).
Proof.
  rewrite map_app. simpl. intros H. apply inc_app_inv in H. destruct H as [Ia [Ib Iab]].
  simpl in Ib. destruct Ib as [Ib1 Ib2].
  assert (N1 : ~ In (gf_name f) (map gf_name pre)).
  { intros Hin. specialize (Iab _ (gf_name f) Hin (or_introl eq_refl)). lia. }
  assert (N2 : ~ In (gf_name f) (map gf_name post)).
  { intros Hin. rewrite Forall_forall in Ib1. specialize (Ib1 _ Hin). lia. }
  repeat split; auto.
  - rewrite map_app. apply inc_app; auto. intros x y Hx Hy. apply Iab; simpl; auto.
  - intros f' E. rewrite map_app. simpl. rewrite E. apply inc_app; auto. simpl; auto.
Qed.

Lemma find_file_fenc pre f post :
  ~ In (gf_name f) (map gf_name pre) -> find_file (gf_name f) (map fenc (pre ++ f :: post)) = Some (fdata f).
Proof.
  induction pre as [|x pre IH]; simpl; intros N.
  - rewrite Z.eqb_refl. reflexivity.
  - destruct (gf_name x =? gf_name f) eqn:E; [apply Z.eqb_eq in E; tauto|]. apply IH. tauto.
Qed.

Lemma upd_file_fenc pre f post F f' :
  ~ In (gf_name f) (map gf_name pre) -> gf_name f' = gf_name f -> F (fdata f) = fdata f' ->
  upd_file (gf_name f) F (map fenc (pre ++ f :: post)) = map fenc (pre ++ f' :: post).
Proof.
  intros N E HF. induction pre as [|x pre IH]; simpl.
  - rewrite Z.eqb_refl. unfold fenc at 2. rewrite E, HF. reflexivity.
  - simpl in N. destruct (gf_name x =? gf_name f) eqn:E2; [apply Z.eqb_eq in E2; tauto|].
    f_equal. apply IH. tauto.
Qed.

Lemma del_file_fenc_none l n : ~ In n (map gf_name l) -> del_file n (map fenc l) = map fenc l.
Proof.
  induction l as [|x l IH]; simpl; auto. intros N.
  destruct (gf_name x =? n) eqn:E; [apply Z.eqb_eq in E; tauto|]. simpl. f_equal. apply IH. tauto.
Qed.

Lemma del_file_fenc pre f post :
  ~ In (gf_name f) (map gf_name pre) -> ~ In (gf_name f) (map gf_name post) ->
  del_file (gf_name f) (map fenc (pre ++ f :: post)) = map fenc (pre ++ post).
Proof.
  intros N1 N2. unfold del_file. rewrite !map_app, filter_app. simpl. rewrite Z.eqb_refl. simpl.
  fold (del_file (gf_name f) (map fenc pre)). fold (del_file (gf_name f) (map fenc post)).
  rewrite !del_file_fenc_none by assumption. reflexivity.
Qed.

(* membership in pre ++ x :: post *)
Lemma in_mid {A} (x y : A) pre post : In y (pre ++ x :: post) <-> In y pre \/ y = x \/ In y post.
Proof. rewrite in_app_iff. simpl. intuition. Qed.

Lemma name_neq_pre pre f post y :
  inc (map gf_name (pre ++ f :: post)) -> In y pre \/ In y post -> gf_name y <> gf_name f.
Proof.
  intros H Hy. destruct (inc_mid _ _ _ H) as [N1 [N2 _]]. intros E. destruct Hy as [Hy|Hy].
  - apply N1. rewrite <- E. apply in_map; auto.
  - apply N2. rewrite <- E. apply in_map; auto.
Qed.

Lemma find_open_fresh o n : Forall (fun m => mf_name m < n) o -> find_open n o = None.
Proof.
  induction o as [|m o IH]; simpl; auto. intros H. inversion H; subst.
  destruct (mf_name m =? n) eqn:E; [apply Z.eqb_eq in E; lia|]. auto.
Qed.

Lemma forall_upd_open (P : mfile -> Prop) n F o :
  (forall m, P m -> P (F m)) -> Forall P o -> Forall P (upd_open n F o).
Proof.
  intros HF. induction o as [|m o IH]; simpl; auto. intros H. inversion H; subst.
  destruct (mf_name m =? n); constructor; auto.
Qed.

Lemma forall_del_open (P : mfile -> Prop) n o : Forall P o -> Forall P (del_open n o).
Proof.
  intros H. unfold del_open. apply Forall_forall. intros x Hx. apply filter_In in Hx.
  rewrite Forall_forall in H. apply H. tauto.
Qed.

Lemma write_at_end d bs : write_at d (blen d) bs = d ++ bs.
Proof.
  unfold write_at. rewrite to_nat_blen, firstn_all, skipn_all2 by lia. rewrite app_nil_r. reflexivity.
Qed.

Lemma rank_le3 r : rank r <= 3.
Proof. destruct r; simpl; lia. Qed.

End G.
