(* C09 — proofs about DiskCache.Model *)
From Coq Require Import ZArith List Bool Lia.
From SH Require Import Common.Wrap Gen.DiskCacheConsts DiskCache.Model.
Import ListNotations.
Open Scope Z_scope.

(* the generated constants are the ones the layout in the model was written for *)
Lemma consts_ok :
  header_size = 20 /\ max_chunk_size = file_rotate_size - header_size /\ 0 < max_chunk_size < two63 /\
  magic_good <> magic_deleted /\ 0 <= magic_good < two32 /\ 0 <= magic_deleted < two32 /\
  magic_torn_deleted <> magic_good /\ magic_torn_deleted <> magic_deleted.
Proof. vm_compute. intuition congruence. Qed.

From SH Require Import DiskCache.Spec.

(* ---------- boolean comparisons are sound ---------- *)
Lemma list_beq_eq {A} (e : A -> A -> bool) :
  (forall x y, e x y = true -> x = y) -> forall a b, list_beq e a b = true -> a = b.
Proof.
  intros He a. induction a as [|x a IH]; destruct b as [|y b]; simpl; intros H; try discriminate; auto.
  apply andb_true_iff in H. destruct H as [H1 H2]. f_equal; auto.
Qed.

Lemma get_res_beq_eq a b : get_res_beq a b = true -> a = b.
Proof.
  destruct a, b; simpl; intros H; try discriminate; auto.
  f_equal. apply (list_beq_eq Z.eqb); auto. intros x y E. apply Z.eqb_eq; exact E.
Qed.

Lemma reread_beq_eq (a b : list (Z * get_res)) :
  list_beq (fun x y => (fst x =? fst y) && get_res_beq (snd x) (snd y)) a b = true -> a = b.
Proof.
  apply list_beq_eq. intros [x1 x2] [y1 y2]; simpl. intros H. apply andb_true_iff in H. destruct H as [H1 H2].
  apply Z.eqb_eq in H1. apply get_res_beq_eq in H2. congruence.
Qed.

(* ---------- the exhaustive exploration covers every history over its alphabet up to its depth ---------- *)
Lemma run_cons crc rep st o r :
  fst (run crc rep st (o :: r)) = fst (run crc rep (fst (step crc rep st o)) r).
Proof.
  simpl. destruct (step crc rep st o) as [st1 x]. simpl. destruct (run crc rep st1 r) as [st2 xs]. reflexivity.
Qed.

Lemma explore_sound crc rep alpha :
  forall n st s, explore crc rep alpha n st s = true ->
  forall ops, (length ops <= n)%nat -> Forall (fun o => In o alpha) ops ->
    follows crc rep st s ops = true /\
    (forall s', a_run rep s ops = Some s' -> reread crc rep (fst (run crc rep st ops)) = expected s').
Proof.
  induction n as [|k IH]; intros st s H ops Hlen Hin.
  - destruct ops; [|simpl in Hlen; lia]. simpl in *. rewrite andb_true_r in H. split; auto.
    intros s' E. inversion E; subst. apply reread_beq_eq; exact H.
  - simpl in H. apply andb_true_iff in H. destruct H as [Hr Hf].
    destruct ops as [|o r].
    + simpl. split; auto. intros s' E. inversion E; subst. apply reread_beq_eq; exact Hr.
    + inversion Hin as [|? ? Ho Hr' ]; subst.
      rewrite forallb_forall in Hf. specialize (Hf o Ho).
      simpl follows. simpl a_run. rewrite run_cons.
      destruct (a_step rep s o) as [[s1 ao]|] eqn:Ea.
      * destruct (step crc rep st o) as [st1 co] eqn:Es. simpl fst.
        apply andb_true_iff in Hf. destruct Hf as [Hf He]. apply andb_true_iff in Hf. destruct Hf as [Hobs Hsz].
        simpl in Hlen. destruct (IH st1 s1 He r ltac:(lia) Hr') as [F R].
        split.
        -- rewrite Hobs, Hsz, F. reflexivity.
        -- exact R.
      * split; auto. intros s' E; discriminate.
Qed.

(* the alphabet of the bounded theorem: puts with and without age rotation, gets with right ids/times, erases
   (incl. of an unknown id), tail, restart, puts torn inside the header / after the header / complete with
   rotation, erases torn after 2 and 4 bytes, and after 3 bytes (specified only for the repaired variant) *)
Definition sweep_alphabet : list op :=
  [OPut 7 [1;2] false; OPut 8 [] true; OGet 1 7; OGet 2 8; OErase 1; OErase 2; OErase 3; OTail; ORestart;
   OPutTorn 9 [3] false 5; OPutTorn 9 [3] false 20; OPutTorn 9 [3] true 21; OEraseTorn 1 2; OEraseTorn 1 4; OEraseTorn 2 3].

Lemma sweep_faithful : explore crc32c false sweep_alphabet 5 empty_shard a_empty = true.
Proof. vm_compute. reflexivity. Qed.
Lemma sweep_repaired : explore crc32c true sweep_alphabet 4 empty_shard a_empty = true.
Proof. vm_compute. reflexivity. Qed.

Lemma bounded_refinement_faithful :
  forall ops, (length ops <= 5)%nat -> Forall (fun o => In o sweep_alphabet) ops ->
    follows crc32c false empty_shard a_empty ops = true /\
    (forall s', a_run false a_empty ops = Some s' -> reread crc32c false (fst (run crc32c false empty_shard ops)) = expected s').
Proof. exact (explore_sound crc32c false sweep_alphabet 5 empty_shard a_empty sweep_faithful). Qed.

Lemma bounded_refinement_repaired :
  forall ops, (length ops <= 4)%nat -> Forall (fun o => In o sweep_alphabet) ops ->
    follows crc32c true empty_shard a_empty ops = true /\
    (forall s', a_run true a_empty ops = Some s' -> reread crc32c true (fst (run crc32c true empty_shard ops)) = expected s').
Proof. exact (explore_sound crc32c true sweep_alphabet 4 empty_shard a_empty sweep_repaired). Qed.
