(* C09 — the specification the disk cache is compared with: an abstract cache that is nothing but the list of
   seconds put and not erased, in write order, each with the id under which the running session knows it. *)
From Coq Require Import ZArith List Bool.
From SH Require Import Common.Wrap Gen.DiskCacheConsts DiskCache.Model.
Import ListNotations.
Open Scope Z_scope.

Record aent := AE { a_id : option Z; a_time : Z; a_body : bytes }.
Record astate := AS { a_ents : list aent; a_last : Z }.

Definition a_empty : astate := AS [] 0.
Definition has_id (i : Z) (e : aent) : bool := match a_id e with Some j => j =? i | None => false end.

(* a start forgets the ids; nothing else *)
Definition a_restart (s : astate) : astate := AS (map (fun e => AE None (a_time e) (a_body e)) (a_ents s)) 0.
Definition a_put (s : astate) (t : Z) (d : bytes) : astate * option Z :=
  if max_chunk_size <? blen d then (s, None)
  else let id := a_last s + 1 in (AS (a_ents s ++ [AE (Some id) t d]) id, Some id).
Definition a_erase (s : astate) (i : Z) : astate := AS (filter (fun e => negb (has_id i e)) (a_ents s)) (a_last s).
Definition a_get (s : astate) (i t : Z) : get_res :=
  match find (has_id i) (a_ents s) with
  | None => GUnknown
  | Some e => if a_time e =? t then GOk (a_body e) else GWrongTime
  end.
(* the tail hands out the first second, in write order, that this session has not seen yet *)
Fixpoint assign_first (id : Z) (l : list aent) : option (list aent * Z) :=
  match l with
  | [] => None
  | e :: r => match a_id e with
              | None => Some (AE (Some id) (a_time e) (a_body e) :: r, a_time e)
              | Some _ => match assign_first id r with Some (r', t) => Some (e :: r', t) | None => None end
              end
  end.
Definition a_tail (s : astate) : astate * Z * Z :=
  match assign_first (a_last s + 1) (a_ents s) with
  | Some (l, t) => (AS l (a_last s + 1), t, a_last s + 1)
  | None => (s, 0, 0)
  end.

(* Observations the specification fixes.  None = not fixed by the specification (sizes, directory contents; a
   byte flip; and, for the code as it is, an erase overwrite torn after exactly 3 bytes — finding F-C09). *)
Definition a_step (rep : bool) (s : astate) (o : op) : option (astate * option obs) :=
  match o with
  | OPut t d _ => let '(s', r) := a_put s t d in Some (s', Some (RPut r))
  | OGet i t => Some (s, Some (RGet (a_get s i t)))
  | OErase i => Some (a_erase s i, Some RUnit)
  | OTail => let '(s', t, i) := a_tail s in Some (s', Some (RTail t i))
  | OSizes | ODisk => Some (s, None)
  | ORestart => Some (a_restart s, Some RUnit)
  (* a torn put: the second is there iff all its 20+len bytes reached the disk; nothing else changes *)
  | OPutTorn t d _ k => Some (a_restart (if (max_chunk_size <? blen d) || (k <? 20 + blen d) then s else fst (a_put s t d)), Some RUnit)
  (* a torn erase: the second is gone iff the overwrite was complete; nothing else changes *)
  | OEraseTorn i k =>
      if k <=? 2 then Some (a_restart s, Some RUnit)
      else if k =? 3 then (if rep then Some (a_restart (a_erase s i), Some RUnit) else None)
      else Some (a_restart (a_erase s i), Some RUnit)
  | OCorrupt _ _ _ => None
  end.

Definition live_bytes (s : astate) : Z := fold_right (fun e a => 20 + blen (a_body e) + a) 0 (a_ents s).
Definition all_seen (s : astate) : bool := forallb (fun e => match a_id e with Some _ => true | None => false end) (a_ents s).
Definition disk_bytes (st : shard) : Z := fold_right (fun p a => blen (snd p) + a) 0 (s_disk st).

(* "Reported total and unsent sizes match the files on disk, and a file whose seconds were all erased is deleted
   once the cache no longer writes to it" — as a check of a concrete state against the specification state *)
Definition sizes_files_ok (st : shard) (s : astate) : bool :=
  let '(total, unsent) := sizes st in
  (total =? disk_bytes st) && (unsent <=? total) && (live_bytes s <=? unsent) &&
  (if all_seen s && match s_reading st, s_waiting st with None, [] => true | _, _ => false end
   then (unsent =? live_bytes s) &&
        forallb (fun p => match s_writing st with Some w => w =? fst p | None => false end
                          || existsb (fun kb => b_file (snd kb) =? fst p) (s_known st)) (s_disk st)
   else true).

Fixpoint list_beq {A} (e : A -> A -> bool) (a b : list A) : bool :=
  match a, b with [] , [] => true | x :: a', y :: b' => e x y && list_beq e a' b' | _, _ => false end.
Definition get_res_beq (a b : get_res) : bool :=
  match a, b with
  | GOk x, GOk y => list_beq Z.eqb x y
  | GUnknown, GUnknown | GWrongTime, GWrongTime | GReadErr, GReadErr | GCrcErr, GCrcErr => true
  | _, _ => false
  end.
Definition obs_beq (a b : obs) : bool :=
  match a, b with
  | RPut (Some x), RPut (Some y) => x =? y
  | RPut None, RPut None => true
  | RGet x, RGet y => get_res_beq x y
  | RUnit, RUnit => true
  | RTail t i, RTail t' i' => (t =? t') && (i =? i')
  | _, _ => false
  end.

(* the cache follows the specification along a history: every fixed observation is equal and the size/file
   clause holds after every step *)
Fixpoint follows (crc : bytes -> Z) (rep : bool) (st : shard) (s : astate) (ops : list op) : bool :=
  match ops with
  | [] => true
  | o :: r =>
      match a_step rep s o with
      | None => true    (* outside the specification from here on *)
      | Some (s', ao) =>
          let '(st', co) := step crc rep st o in
          match ao with Some x => obs_beq co x | None => true end && sizes_files_ok st' s' && follows crc rep st' s' r
      end
  end.

(* what a start re-reads: tail until id 0, fetching every second *)
Definition reread (crc : bytes -> Z) (rep : bool) (st : shard) : list (Z * get_res) :=
  snd (drain crc rep (S (disk_len (s_disk st))) (restart st)).
Definition expected (s : astate) : list (Z * get_res) := map (fun e => (a_time e, GOk (a_body e))) (a_ents s).
Fixpoint a_run (rep : bool) (s : astate) (ops : list op) : option astate :=
  match ops with
  | [] => Some s
  | o :: r => match a_step rep s o with Some (s', _) => a_run rep s' r | None => None end
  end.

(* exhaustive exploration of all histories of length <= n over an alphabet, sharing prefixes *)
Fixpoint explore (crc : bytes -> Z) (rep : bool) (alphabet : list op) (n : nat) (st : shard) (s : astate) : bool :=
  (list_beq (fun x y => (fst x =? fst y) && get_res_beq (snd x) (snd y)) (reread crc rep st) (expected s)) &&
  match n with
  | O => true
  | S k =>
      forallb (fun o =>
        match a_step rep s o with
        | None => true
        | Some (s', ao) =>
            let '(st', co) := step crc rep st o in
            match ao with Some x => obs_beq co x | None => true end && sizes_files_ok st' s' && explore crc rep alphabet k st' s'
        end) alphabet
  end.
