(* C09 — refinement of the list specification by the byte-level cache, by induction over ALL histories of the
   operations put / get / erase / sizes / directory listing / restart / torn put (any k) / torn erase (k <> 3, or
   any k for the repaired reader).  Not covered here (bounded theorems in Proofs.v instead): histories that
   contain ReadNextTailSecond calls, and byte flips. *)
From Coq Require Import ZArith List Bool Lia.
From SH Require Import Common.Wrap Gen.DiskCacheConsts DiskCache.Model DiskCache.Spec DiskCache.Format DiskCache.Inv DiskCache.Steps.
Import ListNotations.
Open Scope Z_scope.

Section R.
Variable crc : bytes -> Z.
Variable rep : bool.
Hypothesis crc_range : forall d, 0 <= crc d < two32.

(* the guards: times are uint32; an erase torn after exactly 3 bytes only for the repaired reader (F-C09);
   tail reads and byte flips are outside this theorem *)
Definition op_ok (o : op) : Prop :=
  match o with
  | OPut t _ _ => 0 <= t < two32
  | OPutTorn t _ _ _ => 0 <= t < two32
  | OEraseTorn _ k => k = 3 -> rep = true
  | OTail => False
  | OCorrupt _ _ _ => False
  | _ => True
  end.

Definition agree (co : obs) (ao : option obs) : Prop := match ao with Some x => co = x | None => True end.

Lemma step_refines st g o :
  Inv crc rep st g -> op_ok o ->
  exists s' ao, a_step rep (abs st g) o = Some (s', ao) /\
                agree (snd (step crc rep st o)) ao /\
                exists g', Inv crc rep (fst (step crc rep st o)) g' /\ abs (fst (step crc rep st o)) g' = s'.
Proof.
  intros I Ok. destruct o; simpl in Ok; try contradiction.
  - (* put *)
    pose proof (put_inv crc rep st g time data age I Ok) as P. simpl step. simpl a_step.
    destruct (put crc st time data age) as [st' r]. destruct (a_put (abs st g) time data) as [s' r'].
    destruct P as [-> [g' [I' A']]]. exists s', (Some (RPut r')). simpl. repeat split; auto. exists g'. auto.
  - (* get *)
    simpl. rewrite (get_inv crc rep st g id time I). simpl. eexists; eexists. split; [reflexivity|].
    split; [reflexivity|]. exists g. auto.
  - (* erase *)
    simpl. eexists; eexists. split; [reflexivity|]. split; [reflexivity|].
    destruct (find_known id (gknown crc g)) as [b|] eqn:K.
    + destruct (erase_inv crc rep st g id b I K) as [g' [I' [A' L']]]. exists g'. split; auto.
      unfold abs, a_erase. simpl. rewrite A', L'. reflexivity.
    + exists g. assert (E : erase st id = st) by (unfold erase; rewrite (I_known _ _ _ _ I), K; reflexivity).
      rewrite E. split; auto. unfold abs, a_erase. simpl. rewrite (noid_filter_aents crc _ _ K). reflexivity.
  - (* sizes *)
    simpl. destruct (sizes st) as [t u]. simpl. eexists; eexists. split; [reflexivity|]. split; [exact Logic.I|]. exists g. auto.
  - (* disk *)
    simpl. eexists; eexists. split; [reflexivity|]. split; [exact Logic.I|]. exists g. auto.
  - (* restart *)
    simpl. eexists; eexists. split; [reflexivity|]. split; [reflexivity|].
    destruct (restart_inv crc rep st g (inv_dinv _ _ _ _ I)) as [Ir Ar]. exists (grestart g). split; auto.
    unfold abs. rewrite Ar. reflexivity.
  - (* torn put *)
    simpl. eexists; eexists. split; [reflexivity|]. split; [reflexivity|].
    destruct (put_torn_inv crc rep st g time data age k I Ok) as [g' [I' A']]. exists g'. split; auto.
  - (* torn erase *)
    simpl. destruct (erase_torn_inv crc rep st g id k I Ok) as [g' [I' A']].
    destruct (k <=? 2) eqn:K2; rewrite ?K2 in A'.
    + eexists; eexists. split; [reflexivity|]. split; [reflexivity|]. exists g'. auto.
    + destruct (k =? 3) eqn:K3.
      * apply Z.eqb_eq in K3. pose proof (Ok K3) as Hr. rewrite Hr in I' |- *. eexists; eexists. split; [reflexivity|]. split; [reflexivity|]. exists g'. auto.
      * eexists; eexists. split; [reflexivity|]. split; [reflexivity|]. exists g'. auto.
Qed.

(* the specification's view of a history: state and fixed observations *)
Fixpoint a_obs (s : astate) (ops : list op) : list (option obs) :=
  match ops with
  | [] => []
  | o :: r => match a_step rep s o with
              | Some (s', ao) => ao :: a_obs s' r
              | None => []
              end
  end.

Theorem run_refines : forall ops st g,
  Inv crc rep st g -> Forall op_ok ops ->
  exists s', a_run rep (abs st g) ops = Some s' /\
             Forall2 agree (snd (run crc rep st ops)) (a_obs (abs st g) ops) /\
             exists g', Inv crc rep (fst (run crc rep st ops)) g' /\ abs (fst (run crc rep st ops)) g' = s'.
Proof.
  induction ops as [|o r IH]; intros st g I Ok.
  - simpl. exists (abs st g). repeat split; auto. exists g. auto.
  - inversion Ok as [|? ? Oo Or]; subst.
    destruct (step_refines st g o I Oo) as [s1 [ao [As [Ag [g1 [I1 A1]]]]]].
    simpl a_run. simpl a_obs. rewrite As. simpl run.
    destruct (step crc rep st o) as [st1 x] eqn:Es. simpl in *.
    destruct (IH st1 g1 I1 Or) as [s' [Ar [Fo [g' [I' A']]]]]. rewrite A1 in *.
    destruct (run crc rep st1 r) as [st2 xs] eqn:Er. simpl in *.
    exists s'. split; auto. split; [constructor; auto|]. exists g'. auto.
Qed.

(* ---------- corollaries for every reachable state ---------- *)
Lemma gtotal_disk g : fold_right (fun p a => blen (snd p) + a) 0 (map (fenc crc) g) = gtotal crc g.
Proof. induction g; simpl; auto. rewrite IHg. reflexivity. Qed.

(* "Reported total ... sizes match the files on disk": totalFileSize is the sum of the file lengths, and the
   unsent size is never above it: the cap in TotalFileSize is dead code *)
Lemma total_matches_files st g : Inv crc rep st g -> fst (sizes st) = disk_bytes st.
Proof.
  intros I. unfold sizes, disk_bytes. simpl. rewrite (I_total _ _ _ _ I), (I_disk _ _ _ _ I). symmetry. apply gtotal_disk.
Qed.

Lemma nodup_find (k : list (Z * bucket)) i b : NoDup (map fst k) -> In (i, b) k -> find_known i k = Some b.
Proof.
  induction k as [|[j c] k IH]; simpl; intros N H; [contradiction|]. inversion N; subst.
  destruct H as [H|H].
  - inversion H; subst. rewrite Z.eqb_refl. reflexivity.
  - destruct (j =? i) eqn:E; auto. apply Z.eqb_eq in E. subst. exfalso. apply H2. apply in_map_iff. exists (i, b). auto.
Qed.

(* "a file whose seconds were all erased is deleted once the cache no longer writes to it": every file in the
   directory that is neither written to, nor being read, nor waiting to be read holds a known (live) second *)
Lemma unreferenced_files_are_gone st g n d :
  Inv crc rep st g -> In (n, d) (s_disk st) ->
  s_writing st <> Some n -> s_reading st <> Some n -> ~ In n (map fst (s_waiting st)) ->
  exists id b, find_known id (s_known st) = Some b /\ b_file b = n.
Proof.
  intros I Hin Hw Hr Hwt. rewrite (I_disk _ _ _ _ I) in Hin. apply in_map_iff in Hin. destruct Hin as [f [E Hf]].
  inversion E; subst. clear E.
  assert (Fok : file_ok crc rep f) by (pose proof (I_files _ _ _ _ I) as F; rewrite Forall_forall in F; auto).
  destruct Fok as [_ [_ [_ Frefs]]].
  assert (W : is_W f = false).
  { destruct (is_W f) eqn:W; auto. exfalso. apply Hwt. rewrite (I_waiting _ _ _ _ I), map_map. simpl.
    apply in_map_iff. exists f. split; auto. apply filter_In. auto. }
  assert (R : is_R f = false).
  { destruct (is_R f) eqn:R; auto. exfalso. apply Hr.
    assert (X : In (gf_name f) (map gf_name (filter is_R g))) by (apply in_map; apply filter_In; auto).
    rewrite (I_reading _ _ _ _ I) in X. destruct (s_reading st); simpl in X; [destruct X as [->|[]]; reflexivity|contradiction]. }
  assert (Wr : is_wr f = false).
  { destruct (is_wr f) eqn:Wr; auto. exfalso. apply Hw. pose proof (I_writing _ _ _ _ I) as Iw.
    destruct (s_writing st) as [w|]; simpl in Iw.
    - destruct Iw as [g0 [fw [-> [Nw [Rw Fw]]]]]. apply in_app_iff in Hf. destruct Hf as [Hf|[->|[]]]; [|congruence].
      rewrite Forall_forall in Fw. rewrite (Fw f Hf) in Wr. discriminate.
    - rewrite Forall_forall in Iw. rewrite (Iw f Hf) in Wr. discriminate. }
  specialize (Frefs W). unfold refs in Frefs. rewrite R, Wr in Frefs.
  assert (Ne : fknown crc (gf_name f) 0 (gf_recs f) <> []).
  { intros X. pose proof (fknown_length crc (gf_name f) 0 (gf_recs f)) as L. rewrite X in L. simpl in L. lia. }
  destruct (fknown crc (gf_name f) 0 (gf_recs f)) as [|[i b] rest] eqn:Fk; [congruence|].
  exists i, b. split.
  - rewrite (I_known _ _ _ _ I). apply nodup_find; [apply (I_nodup _ _ _ _ I)|].
    unfold gknown. apply in_flat_map. exists f. split; auto. rewrite Fk. simpl; auto.
  - pose proof (fknown_file crc (gf_name f) 0 (gf_recs f)) as FF. rewrite Fk in FF. inversion FF; subst. auto.
Qed.

End R.

(* "it never returns erased seconds", at the level of the specification the cache refines *)
Lemma a_get_erased s i t : a_get (a_erase s i) i t = GUnknown.
Proof.
  unfold a_get, a_erase. simpl.
  destruct (find (has_id i) (filter (fun e => negb (has_id i e)) (a_ents s))) as [e|] eqn:F; auto.
  apply find_some in F. destruct F as [H1 H2]. apply filter_In in H1. rewrite H2 in H1. destruct H1; discriminate.
Qed.

(* ---------- from the empty directory: every history of the covered operations ---------- *)
Theorem refines_all_histories crc rep :
  forall ops, Forall (op_ok rep) ops ->
  exists s, a_run rep a_empty ops = Some s /\
            Forall2 agree (snd (run crc rep empty_shard ops)) (a_obs rep a_empty ops) /\
            exists g, Inv crc rep (fst (run crc rep empty_shard ops)) g /\
                      a_ents s = aents g /\ a_last s = s_last_id (fst (run crc rep empty_shard ops)).
Proof.
  intros ops Ok.
  destruct (run_refines crc rep ops empty_shard [] (inv_empty crc rep) Ok) as [s [Ar [Fo [g [I A]]]]].
  exists s. split; [exact Ar|]. split; [exact Fo|]. exists g. split; [exact I|]. rewrite <- A. auto.
Qed.

(* the directory after any such history: files made of whole records plus possibly a torn tail, whose good
   records, in file-name and offset order, are exactly the seconds put and not erased, with their bytes *)
Theorem directory_is_the_spec crc rep :
  forall ops, Forall (op_ok rep) ops ->
  exists s g, a_run rep a_empty ops = Some s /\
    s_disk (fst (run crc rep empty_shard ops)) = map (fenc crc) g /\
    Forall (fun f => Forall (rec_ok rep) (gf_recs f) /\ torn_ok crc (gf_torn f)) g /\
    map (fun e => (a_time e, a_body e)) (a_ents s) =
    flat_map (fun f => map (fun r => (gr_time r, gr_body r)) (filter live (gf_recs f))) g.
Proof.
  intros ops Ok. destruct (refines_all_histories crc rep ops Ok) as [s [Ar [_ [g [I [A _]]]]]].
  exists s, g. split; [exact Ar|]. split; [apply (I_disk _ _ _ _ I)|]. split.
  - eapply Forall_impl; [|apply (I_files _ _ _ _ I)]. intros f [X [Y _]]. auto.
  - rewrite A. clear. induction g as [|f g IH]; simpl; auto.
    unfold aents in *. simpl. rewrite map_app, IH. f_equal. unfold fents. rewrite map_map. reflexivity.
Qed.

Theorem total_matches_files_all_histories crc rep :
  forall ops, Forall (op_ok rep) ops ->
  let st := fst (run crc rep empty_shard ops) in fst (sizes st) = disk_bytes st.
Proof.
  intros ops Ok. destruct (refines_all_histories crc rep ops Ok) as [s [_ [_ [g [I _]]]]].
  simpl. eapply total_matches_files; eauto.
Qed.

Theorem unreferenced_files_are_gone_all_histories crc rep :
  forall ops, Forall (op_ok rep) ops ->
  let st := fst (run crc rep empty_shard ops) in
  forall n d, In (n, d) (s_disk st) ->
  s_writing st <> Some n -> s_reading st <> Some n -> ~ In n (map fst (s_waiting st)) ->
  exists id b, find_known id (s_known st) = Some b /\ b_file b = n.
Proof.
  intros ops Ok. destruct (refines_all_histories crc rep ops Ok) as [s [_ [_ [g [I _]]]]].
  simpl. intros n d. eapply unreferenced_files_are_gone; eauto.
Qed.
