(* C09 — refinement of the list specification by the byte-level cache, by induction over ALL histories of the
   operations put / get / erase / sizes / directory listing / restart / torn put (any k) / torn erase (k <> 3, or
   any k for the repaired reader).  Not covered here (bounded theorems in Proofs.v instead): histories that
   contain ReadNextTailSecond calls, and byte flips. *)
From Coq Require Import ZArith List Bool Lia.
From SH Require Import Common.Wrap Gen.DiskCacheConsts DiskCache.Model DiskCache.Spec DiskCache.Format DiskCache.Inv DiskCache.Steps DiskCache.Tail.
Import ListNotations.
Open Scope Z_scope.

Section R.
Variable crc : bytes -> Z.
Variable rep : bool.
Hypothesis crc_range : forall d, 0 <= crc d < two32.

(* the guards: times are uint32; an erase torn after exactly 3 bytes only for the repaired reader (F-C09);
   byte flips are outside this theorem *)
Definition op_ok (o : op) : Prop :=
  match o with
  | OPut t _ _ => 0 <= t < two32
  | OPutTorn t _ _ _ => 0 <= t < two32
  | OEraseTorn _ k => k = 3 -> rep = true
  | OCorrupt _ _ _ => False
  | _ => True
  end.

Definition agree (co : obs) (ao : option obs) : Prop := match ao with Some x => co = x | None => True end.

Lemma step_refines st g o :
  Inv crc rep st g -> op_ok o ->
  exists s' ao, a_step rep (abs st g) o = Some (s', ao) /\
                agree (snd (step crc rep st o)) ao /\
                exists g', Inv crc rep (fst (step crc rep st o)) g' /\ abs (fst (step crc rep st o)) g' = s'.
Proof.
  intros I Ok. destruct o; simpl in Ok; try contradiction.
  - (* put *)
    pose proof (put_inv crc rep st g time data age I Ok) as P. simpl step. simpl a_step.
    destruct (put crc st time data age) as [st' r]. destruct (a_put (abs st g) time data) as [s' r'].
    destruct P as [-> [g' [I' A']]]. exists s', (Some (RPut r')). simpl. repeat split; auto. exists g'. auto.
  - (* get *)
    simpl. rewrite (get_inv crc rep st g id time I). simpl. eexists; eexists. split; [reflexivity|].
    split; [reflexivity|]. exists g. auto.
  - (* erase *)
    simpl. eexists; eexists. split; [reflexivity|]. split; [reflexivity|].
    destruct (find_known id (gknown crc g)) as [b|] eqn:K.
    + destruct (erase_inv crc rep st g id b I K) as [g' [I' [A' L']]]. exists g'. split; auto.
      unfold abs, a_erase. simpl. rewrite A', L'. reflexivity.
    + exists g. assert (E : erase st id = st) by (unfold erase; rewrite (I_known _ _ _ _ I), K; reflexivity).
      rewrite E. split; auto. unfold abs, a_erase. simpl. rewrite (noid_filter_aents crc _ _ K). reflexivity.
  - (* tail *)
    destruct (tail_inv crc rep crc_range st g I) as [st' [t [i [g' [E [I' A']]]]]].
    simpl. rewrite E, A'. eexists; eexists. split; [reflexivity|]. split; [reflexivity|]. exists g'. auto.
  - (* sizes *)
    simpl. destruct (sizes st) as [t u]. simpl. eexists; eexists. split; [reflexivity|]. split; [exact Logic.I|]. exists g. auto.
  - (* disk *)
    simpl. eexists; eexists. split; [reflexivity|]. split; [exact Logic.I|]. exists g. auto.
  - (* restart *)
    simpl. eexists; eexists. split; [reflexivity|]. split; [reflexivity|].
    destruct (restart_inv crc rep st g (inv_dinv _ _ _ _ I)) as [Ir Ar]. exists (grestart g). split; auto.
    unfold abs. rewrite Ar. reflexivity.
  - (* torn put *)
    simpl. eexists; eexists. split; [reflexivity|]. split; [reflexivity|].
    destruct (put_torn_inv crc rep st g time data age k I Ok) as [g' [I' A']]. exists g'. split; auto.
  - (* torn erase *)
    simpl. destruct (erase_torn_inv crc rep st g id k I Ok) as [g' [I' A']].
    destruct (k <=? 2) eqn:K2; rewrite ?K2 in A'.
    + eexists; eexists. split; [reflexivity|]. split; [reflexivity|]. exists g'. auto.
    + destruct (k =? 3) eqn:K3.
      * apply Z.eqb_eq in K3. pose proof (Ok K3) as Hr. rewrite Hr in I' |- *. eexists; eexists. split; [reflexivity|]. split; [reflexivity|]. exists g'. auto.
      * eexists; eexists. split; [reflexivity|]. split; [reflexivity|]. exists g'. auto.
Qed.

(* the specification's view of a history: state and fixed observations *)
Fixpoint a_obs (s : astate) (ops : list op) : list (option obs) :=
  match ops with
  | [] => []
  | o :: r => match a_step rep s o with
              | Some (s', ao) => ao :: a_obs s' r
              | None => []
              end
  end.

Theorem run_refines : forall ops st g,
  Inv crc rep st g -> Forall op_ok ops ->
  exists s', a_run rep (abs st g) ops = Some s' /\
             Forall2 agree (snd (run crc rep st ops)) (a_obs (abs st g) ops) /\
             exists g', Inv crc rep (fst (run crc rep st ops)) g' /\ abs (fst (run crc rep st ops)) g' = s'.
Proof.
  induction ops as [|o r IH]; intros st g I Ok.
  - simpl. exists (abs st g). repeat split; auto. exists g. auto.
  - inversion Ok as [|? ? Oo Or]; subst.
    destruct (step_refines st g o I Oo) as [s1 [ao [As [Ag [g1 [I1 A1]]]]]].
    simpl a_run. simpl a_obs. rewrite As. simpl run.
    destruct (step crc rep st o) as [st1 x] eqn:Es. simpl in *.
    destruct (IH st1 g1 I1 Or) as [s' [Ar [Fo [g' [I' A']]]]]. rewrite A1 in *.
    destruct (run crc rep st1 r) as [st2 xs] eqn:Er. simpl in *.
    exists s'. split; auto. split; [constructor; auto|]. exists g'. auto.
Qed.

(* ---------- corollaries for every reachable state ---------- *)
Lemma gtotal_disk g : fold_right (fun p a => blen (snd p) + a) 0 (map (fenc crc) g) = gtotal crc g.
Proof. induction g; simpl; auto. rewrite IHg. reflexivity. Qed.

(* "Reported total ... sizes match the files on disk": totalFileSize is the sum of the file lengths, and the
   unsent size is never above it: the cap in TotalFileSize is dead code *)
Lemma total_matches_files st g : Inv crc rep st g -> fst (sizes st) = disk_bytes st.
Proof.
  intros I. unfold sizes, disk_bytes. simpl. rewrite (I_total _ _ _ _ I), (I_disk _ _ _ _ I). symmetry. apply gtotal_disk.
Qed.

Lemma nodup_find (k : list (Z * bucket)) i b : NoDup (map fst k) -> In (i, b) k -> find_known i k = Some b.
Proof.
  induction k as [|[j c] k IH]; simpl; intros N H; [contradiction|]. inversion N; subst.
  destruct H as [H|H].
  - inversion H; subst. rewrite Z.eqb_refl. reflexivity.
  - destruct (j =? i) eqn:E; auto. apply Z.eqb_eq in E. subst. exfalso. apply H2. apply in_map_iff. exists (i, b). auto.
Qed.

(* "a file whose seconds were all erased is deleted once the cache no longer writes to it": every file in the
   directory that is neither written to, nor being read, nor waiting to be read holds a known (live) second *)
Lemma unreferenced_files_are_gone st g n d :
  Inv crc rep st g -> In (n, d) (s_disk st) ->
  s_writing st <> Some n -> s_reading st <> Some n -> ~ In n (map fst (s_waiting st)) ->
  exists id b, find_known id (s_known st) = Some b /\ b_file b = n.
Proof.
  intros I Hin Hw Hr Hwt. rewrite (I_disk _ _ _ _ I) in Hin. apply in_map_iff in Hin. destruct Hin as [f [E Hf]].
  inversion E; subst. clear E.
  assert (Fok : file_ok crc rep f) by (pose proof (I_files _ _ _ _ I) as F; rewrite Forall_forall in F; auto).
  destruct Fok as [_ [_ [_ Frefs]]].
  assert (W : is_W f = false).
  { destruct (is_W f) eqn:W; auto. exfalso. apply Hwt. rewrite (I_waiting _ _ _ _ I), map_map. simpl.
    apply in_map_iff. exists f. split; auto. apply filter_In. auto. }
  assert (R : is_R f = false).
  { destruct (is_R f) eqn:R; auto. exfalso. apply Hr.
    assert (X : In (gf_name f) (map gf_name (filter is_R g))) by (apply in_map; apply filter_In; auto).
    rewrite (I_reading _ _ _ _ I) in X. destruct (s_reading st); simpl in X; [destruct X as [->|[]]; reflexivity|contradiction]. }
  assert (Wr : is_wr f = false).
  { destruct (is_wr f) eqn:Wr; auto. exfalso. apply Hw. pose proof (I_writing _ _ _ _ I) as Iw.
    destruct (s_writing st) as [w|]; simpl in Iw.
    - destruct Iw as [g0 [fw [-> [Nw [Rw Fw]]]]]. apply in_app_iff in Hf. destruct Hf as [Hf|[->|[]]]; [|congruence].
      rewrite Forall_forall in Fw. rewrite (Fw f Hf) in Wr. discriminate.
    - rewrite Forall_forall in Iw. rewrite (Iw f Hf) in Wr. discriminate. }
  specialize (Frefs W). unfold refs in Frefs. rewrite R, Wr in Frefs.
  assert (Ne : fknown crc (gf_name f) 0 (gf_recs f) <> []).
  { intros X. pose proof (fknown_length crc (gf_name f) 0 (gf_recs f)) as L. rewrite X in L. simpl in L. lia. }
  destruct (fknown crc (gf_name f) 0 (gf_recs f)) as [|[i b] rest] eqn:Fk; [congruence|].
  exists i, b. split.
  - rewrite (I_known _ _ _ _ I). apply nodup_find; [apply (I_nodup _ _ _ _ I)|].
    unfold gknown. apply in_flat_map. exists f. split; auto. rewrite Fk. simpl; auto.
  - pose proof (fknown_file crc (gf_name f) 0 (gf_recs f)) as FF. rewrite Fk in FF. inversion FF; subst. auto.
Qed.

(* ---------- what a start re-reads ---------- *)
Definition unread (e : aent) : bool := match a_id e with None => true | Some _ => false end.
Definition fresh (id : Z) (l : list aent) : Prop := Forall (fun e => a_id e <> Some id) l.

Lemma assign_first_spec id : forall l, fresh id l ->
  match assign_first id l with
  | None => filter unread l = []
  | Some (l', t) => exists e, filter unread l = e :: filter unread l' /\ t = a_time e /\
                              find (has_id id) l' = Some (AE (Some id) (a_time e) (a_body e))
  end.
Proof.
  induction l as [|e r IH]; intros F; [reflexivity|]. inversion F as [|? ? Fe Fr]; subst.
  cbn [assign_first]. destruct (a_id e) as [j|] eqn:E.
  - assert (Ue : unread e = false) by (unfold unread; rewrite E; reflexivity).
    assert (He : has_id id e = false).
    { unfold has_id. rewrite E. destruct (j =? id) eqn:J; auto. apply Z.eqb_eq in J. congruence. }
    specialize (IH Fr). destruct (assign_first id r) as [[r' t]|].
    + destruct IH as [e0 [H1 [H2 H3]]]. exists e0. cbn [filter find]. rewrite Ue, He. auto.
    + cbn [filter]. rewrite Ue. exact IH.
  - assert (Ue : unread e = true) by (unfold unread; rewrite E; reflexivity).
    exists e. cbn [filter find]. rewrite Ue. unfold unread at 1. cbn [a_id]. unfold has_id. cbn [a_id]. rewrite Z.eqb_refl. auto.
Qed.

Lemma fents_id_known n : forall l p e j, In e (fents l) -> a_id e = Some j -> In j (map fst (fknown crc n p l)).
Proof.
  induction l as [|r l IH]; intros p e j H E; [contradiction|].
  unfold fents in H. cbn [filter] in H. cbn [fknown]. rewrite map_app, in_app_iff.
  destruct (live r).
  - cbn [map] in H. destruct H as [<-|H].
    + left. unfold to_ent in E. cbn [a_id] in E. rewrite E. simpl. auto.
    + right. eapply IH; eauto.
  - right. eapply IH; eauto.
Qed.

Lemma aents_id_known : forall g e j, In e (aents g) -> a_id e = Some j -> In j (map fst (gknown crc g)).
Proof.
  induction g as [|f g IH]; intros e j H E; [contradiction|].
  change (aents (f :: g)) with (fents (gf_recs f) ++ aents g) in H.
  change (gknown crc (f :: g)) with (fknown crc (gf_name f) 0 (gf_recs f) ++ gknown crc g).
  rewrite map_app, in_app_iff. apply in_app_iff in H. destruct H as [H|H].
  - left. eapply fents_id_known; eauto.
  - right. eapply IH; eauto.
Qed.

Lemma inv_fresh st g : Inv crc rep st g -> fresh (s_last_id st + 1) (aents g).
Proof.
  intros I. apply Forall_forall. intros e He E.
  pose proof (aents_id_known g e _ He E) as K. apply in_map_iff in K. destruct K as [p [Ep Hp]].
  pose proof (I_idrange _ _ _ _ I) as R. rewrite Forall_forall in R. specialize (R p Hp). lia.
Qed.

Lemma drain_inv : forall fuel st g, Inv crc rep st g -> (length (filter unread (aents g)) < fuel)%nat ->
  snd (drain crc rep fuel st) = map (fun e => (a_time e, GOk (a_body e))) (filter unread (aents g)).
Proof.
  induction fuel as [|f IH]; intros st g I L; [lia|].
  cbn [drain]. destruct (tail_inv crc rep crc_range st g I) as [st1 [t [i [g1 [E [I1 A1]]]]]]. rewrite E.
  unfold a_tail, abs in A1. cbn [a_ents a_last] in A1.
  pose proof (assign_first_spec (s_last_id st + 1) (aents g) (inv_fresh st g I)) as S.
  destruct (assign_first (s_last_id st + 1) (aents g)) as [[l t0]|].
  - destruct S as [e [H1 [H2 H3]]]. inversion A1. subst.
    pose proof (I_last _ _ _ _ I) as Ll.
    destruct (s_last_id st + 1 =? 0) eqn:Z0; [apply Z.eqb_eq in Z0; lia|].
    rewrite (get_inv crc rep st1 g1 _ _ I1). unfold a_get, abs. cbn [a_ents]. rewrite H3.
    cbn [a_time a_body]. rewrite Z.eqb_refl.
    specialize (IH st1 g1 I1). rewrite H1 in L. cbn [length] in L. specialize (IH ltac:(lia)).
    destruct (drain crc rep f st1) as [st3 rs]. cbn [snd] in *. rewrite H1. cbn [map]. rewrite IH. reflexivity.
  - inversion A1. subst. cbn. rewrite S. reflexivity.
Qed.

Lemma filter_len {A} (P : A -> bool) l : (length (filter P l) <= length l)%nat.
Proof. induction l as [|a l IH]; simpl; auto. destruct (P a); simpl; lia. Qed.

Lemma aents_len g : (length (aents g) <= nrecs g)%nat.
Proof.
  induction g as [|f g IH]; [simpl; lia|].
  change (aents (f :: g)) with (fents (gf_recs f) ++ aents g). change (nrecs (f :: g)) with (length (gf_recs f) + nrecs g)%nat.
  rewrite app_length. unfold fents. rewrite map_length. pose proof (filter_len live (gf_recs f)). lia.
Qed.

(* "the cache re-reads exactly the seconds that were put and not erased, in write order, with identical bytes":
   in every state satisfying the invariant, what the next start re-reads (tail until id 0, fetching every
   second) is exactly the specification's list *)
Lemma reread_inv st g : Inv crc rep st g -> reread crc rep st = expected (abs st g).
Proof.
  intros I. unfold reread, expected. destruct (restart_inv crc rep st g (inv_dinv _ _ _ _ I)) as [Ir Ar].
  assert (U : filter unread (aents (grestart g)) = aents (grestart g)).
  { rewrite aents_restart. generalize (aents g). intros l. induction l as [|e l IHl]; [reflexivity|].
    cbn [map filter unread a_id]. f_equal. exact IHl. }
  rewrite (drain_inv _ _ (grestart g) Ir).
  - rewrite U, aents_restart, map_map. reflexivity.
  - rewrite U. pose proof (aents_len (grestart g)) as A. pose proof (nrecs_disk crc (grestart g)) as D.
    rewrite <- (I_disk _ _ _ _ Ir) in D. simpl in D. lia.
Qed.

End R.

(* "it never returns erased seconds", at the level of the specification the cache refines *)
Lemma a_get_erased s i t : a_get (a_erase s i) i t = GUnknown.
Proof.
  unfold a_get, a_erase. simpl.
  destruct (find (has_id i) (filter (fun e => negb (has_id i e)) (a_ents s))) as [e|] eqn:F; auto.
  apply find_some in F. destruct F as [H1 H2]. apply filter_In in H1. rewrite H2 in H1. destruct H1; discriminate.
Qed.

(* ---------- from the empty directory: every history of the covered operations ---------- *)
Theorem refines_all_histories crc rep :
  (forall d, 0 <= crc d < two32) ->
  forall ops, Forall (op_ok rep) ops ->
  exists s, a_run rep a_empty ops = Some s /\
            Forall2 agree (snd (run crc rep empty_shard ops)) (a_obs rep a_empty ops) /\
            exists g, Inv crc rep (fst (run crc rep empty_shard ops)) g /\
                      a_ents s = aents g /\ a_last s = s_last_id (fst (run crc rep empty_shard ops)).
Proof.
  intros Hc ops Ok.
  destruct (run_refines crc rep Hc ops empty_shard [] (inv_empty crc rep) Ok) as [s [Ar [Fo [g [I A]]]]].
  exists s. split; [exact Ar|]. split; [exact Fo|]. exists g. split; [exact I|]. rewrite <- A. auto.
Qed.

(* the directory after any such history: files made of whole records plus possibly a torn tail, whose good
   records, in file-name and offset order, are exactly the seconds put and not erased, with their bytes *)
Theorem directory_is_the_spec crc rep :
  (forall d, 0 <= crc d < two32) ->
  forall ops, Forall (op_ok rep) ops ->
  exists s g, a_run rep a_empty ops = Some s /\
    s_disk (fst (run crc rep empty_shard ops)) = map (fenc crc) g /\
    Forall (fun f => Forall (rec_ok rep) (gf_recs f) /\ torn_ok crc (gf_torn f)) g /\
    map (fun e => (a_time e, a_body e)) (a_ents s) =
    flat_map (fun f => map (fun r => (gr_time r, gr_body r)) (filter live (gf_recs f))) g.
Proof.
  intros Hc ops Ok. destruct (refines_all_histories crc rep Hc ops Ok) as [s [Ar [_ [g [I [A _]]]]]].
  exists s, g. split; [exact Ar|]. split; [apply (I_disk _ _ _ _ I)|]. split.
  - eapply Forall_impl; [|apply (I_files _ _ _ _ I)]. intros f [X [Y _]]. auto.
  - rewrite A. clear. induction g as [|f g IH]; simpl; auto.
    unfold aents in *. simpl. rewrite map_app, IH. f_equal. unfold fents. rewrite map_map. reflexivity.
Qed.

Theorem total_matches_files_all_histories crc rep :
  (forall d, 0 <= crc d < two32) ->
  forall ops, Forall (op_ok rep) ops ->
  let st := fst (run crc rep empty_shard ops) in fst (sizes st) = disk_bytes st.
Proof.
  intros Hc ops Ok. destruct (refines_all_histories crc rep Hc ops Ok) as [s [_ [_ [g [I _]]]]].
  simpl. eapply total_matches_files; eauto.
Qed.

Theorem unreferenced_files_are_gone_all_histories crc rep :
  (forall d, 0 <= crc d < two32) ->
  forall ops, Forall (op_ok rep) ops ->
  let st := fst (run crc rep empty_shard ops) in
  forall n d, In (n, d) (s_disk st) ->
  s_writing st <> Some n -> s_reading st <> Some n -> ~ In n (map fst (s_waiting st)) ->
  exists id b, find_known id (s_known st) = Some b /\ b_file b = n.
Proof.
  intros Hc ops Ok. destruct (refines_all_histories crc rep Hc ops Ok) as [s [_ [_ [g [I _]]]]].
  simpl. intros n d. eapply unreferenced_files_are_gone; eauto.
Qed.

(* after ANY history of the covered operations (now including tail reads), what the next start re-reads is
   exactly the specification's list: the seconds put and not erased, in write order, with identical bytes *)
Theorem reread_exact_all_histories crc rep :
  (forall d, 0 <= crc d < two32) ->
  forall ops, Forall (op_ok rep) ops ->
  exists s, a_run rep a_empty ops = Some s /\ reread crc rep (fst (run crc rep empty_shard ops)) = expected s.
Proof.
  intros Hc ops Ok. destruct (refines_all_histories crc rep Hc ops Ok) as [s [Ar [_ [g [I [A _]]]]]].
  exists s. split; [exact Ar|]. rewrite (reread_inv crc rep Hc _ g I). unfold expected, abs. simpl. rewrite A. reflexivity.
Qed.
