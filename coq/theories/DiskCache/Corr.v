(* Correspondence cases for C09: histories executed by the real DiskBucketStorage with what it returned /
   left on disk, replayed through DiskCache.Model with the concrete crc32c. *)
From Coq Require Import ZArith List Bool Ascii String.
From SH Require Import Common.Wrap Common.Corr Gen.DiskCacheConsts DiskCache.Model.
Import ListNotations.
Open Scope Z_scope.

(* byte strings are printed by the harness as hex text: hx "00ff" = [0;255] *)
Definition hexv (a : ascii) : Z := let n := Z.of_nat (nat_of_ascii a) in if n <? 58 then n - 48 else n - 87.
Fixpoint hx (s : string) : bytes :=
  match s with
  | String a (String b r) => (16 * hexv a + hexv b) :: hx r
  | _ => []
  end.

Fixpoint list_eqb {A} (e : A -> A -> bool) (a b : list A) : bool :=
  match a, b with
  | [], [] => true
  | x :: a', y :: b' => e x y && list_eqb e a' b'
  | _, _ => false
  end.
Definition opt_eqb {A} (e : A -> A -> bool) (a b : option A) : bool :=
  match a, b with Some x, Some y => e x y | None, None => true | _, _ => false end.

Definition get_res_eqb (a b : get_res) : bool :=
  match a, b with
  | GOk x, GOk y => list_eqb Z.eqb x y
  | GUnknown, GUnknown | GWrongTime, GWrongTime | GReadErr, GReadErr | GCrcErr, GCrcErr => true
  | _, _ => false
  end.

Definition obs_eqb (a b : obs) : bool :=
  match a, b with
  | RPut x, RPut y => opt_eqb Z.eqb x y
  | RGet x, RGet y => get_res_eqb x y
  | RGet (GOk d), RGetSum l c => (blen d =? l) && (crc32c d =? c)
  | RUnit, RUnit => true
  | RTail t i, RTail t' i' => (t =? t') && (i =? i')
  | RSizes t u f, RSizes t' u' f' => (t =? t') && (u =? u') && list_eqb Z.eqb f f'
  | RDisk f, RDisk f' => list_eqb (list_eqb Z.eqb) f f'
  | _, _ => false
  end.

(* what is observed on one shard after a crash: sizes and directory listing, then tail+get until id 0 (each
   re-read second as (time, id, body length, crc32c of the body); -1 -1 for a failed get), then sizes again *)
Inductive dsum := DS (t0 u0 : Z) (f0 : list Z) (secs : list (Z * Z * Z * Z)) (t1 u1 : Z) (f1 : list Z).

Definition dsum_eqb (a b : dsum) : bool :=
  match a, b with
  | DS t0 u0 f0 s t1 u1 f1, DS t0' u0' f0' s' t1' u1' f1' =>
      (t0 =? t0') && (u0 =? u0') && list_eqb Z.eqb f0 f0' && (t1 =? t1') && (u1 =? u1') && list_eqb Z.eqb f1 f1' &&
      list_eqb (fun x y => let '(a1, a2, a3, a4) := x in let '(b1, b2, b3, b4) := y in (a1 =? b1) && (a2 =? b2) && (a3 =? b3) && (a4 =? b4)) s s'
  end.

Inductive case :=
(* a whole history on a storage of nsh shards, with every observation *)
| CHist (nsh : nat) (ops : list (nat * op)) (o : list obs)
(* crash sweep: after [pre], operation [base] (OPut or OErase) on shard [sh] is torn after k bytes for every
   listed k; each entry gives what every shard showed after the restart and (optionally) the torn shard's files *)
| CCrash (nsh : nat) (pre : list (nat * op)) (sh : nat) (base : op) (outs : list (Z * list dsum * option (list bytes))).

Definition torn_of (base : op) (k : Z) : op :=
  match base with
  | OPut t d a => OPutTorn t d a k
  | OErase i => OEraseTorn i k
  | o => o
  end.

Section Variant.
Variable rep : bool.

Fixpoint drain_sum (fuel : nat) (st : shard) : shard * list (Z * Z * Z * Z) :=
  match fuel with
  | O => (st, [])
  | S f =>
      match tail rep st with
      | None => (st, [(-2, -2, -2, -2)])
      | Some (st1, t, i) =>
          if i =? 0 then (st1, []) else
          let '(st2, r) := get crc32c st1 i t in
          let '(st3, rs) := drain_sum f st2 in
          (st3, (t, i, match r with GOk d => blen d | _ => -1 end, match r with GOk d => crc32c d | _ => -1 end) :: rs)
      end
  end.

Definition file_sizes (st : shard) : list Z := map (fun p => blen (snd p)) (s_disk st).

Definition post_crash (st : shard) : dsum :=
  let '(t0, u0) := sizes st in
  let '(st1, secs) := drain_sum (S (disk_len (s_disk st))) st in
  let '(t1, u1) := sizes st1 in
  DS t0 u0 (file_sizes st) secs t1 u1 (file_sizes st1).

Definition ok_v (c : case) : bool :=
  match c with
  | CHist nsh ops o => list_eqb obs_eqb (snd (srun crc32c rep (repeat empty_shard nsh) ops)) o
  | CCrash nsh pre sh base outs =>
      let ss := fst (srun crc32c rep (repeat empty_shard nsh) pre) in
      forallb (fun e => let '(k, sums, dsk) := e in
                        (* the crash restarts every shard *)
                        let ss1 := map restart (fst (sstep crc32c rep ss (sh, torn_of base k))) in
                        list_eqb dsum_eqb (map post_crash ss1) sums &&
                        match dsk with
                        | None => true
                        | Some files => match nth_error ss1 sh with Some st => list_eqb (list_eqb Z.eqb) (map snd (s_disk st)) files | None => false end
                        end) outs
  end.
End Variant.

(* dual model (finding F-C09): the implementation must agree with the faithful or with the repaired variant *)
Definition ok (c : case) : bool := ok_v false c || ok_v true c.
Definition mism := mismatches ok.

(* the concrete crc is the standard CRC-32C: check value of "123456789" *)
Example hx_check : hx "00ff590a" = [0;255;89;10].
Proof. vm_compute. reflexivity. Qed.
Example crc32c_check : crc32c [49;50;51;52;53;54;55;56;57] = 3808858755.
Proof. vm_compute. reflexivity. Qed.
