(* C09 — agent disk cache (internal/agent/disk_cache.go), byte level.
   One shard = a directory of files ([s_disk], kept in file-name order; names are creation timestamps, the
   model's name is a strictly increasing clock) plus the in-memory diskCacheShard.  The storage is a list of
   fully independent shards.  Modelled: writeSecond (rotation by size / by age, file creation, header and body
   written at writingFile.size), PutBucket, GetBucket (time check, short read, crc check, erase on failure),
   eraseBucket (4-byte magic overwrite + unref), ReadNextTailSecond (every bail-out branch), unrefFile
   (refcount, removal, totalFileSize), TotalFileSize, restart (makeDiscCacheShard: scan + sort), and crashes
   that tear the last file write at byte k (prefix-torn).  Close() only drops memory (unrefFileWithRemove with
   remove=false never touches the directory), so a clean restart is [restart] on the same disk.
   crc32c is a parameter [crc] of every operation (uninterpreted in the proofs, concrete in the
   correspondence).  [repaired] selects the dual variant for finding F-C09 (see [is_deleted_magic]). *)
From Coq Require Import ZArith List Bool.
From SH Require Import Common.Wrap Gen.DiskCacheConsts.
Import ListNotations.
Open Scope Z_scope.

Definition bytes := list Z.

(* binary.LittleEndian *)
Fixpoint le_bytes (n : nat) (x : Z) : bytes :=
  match n with O => [] | S k => (x mod 256) :: le_bytes k (x / 256) end.
Fixpoint le_val (bs : bytes) : Z :=
  match bs with [] => 0 | b :: r => b + 256 * le_val r end.

Definition blen (d : bytes) : Z := Z.of_nat (length d).
Definition slice (d : bytes) (pos n : Z) : bytes := firstn (Z.to_nat n) (skipn (Z.to_nat pos) d).
(* WriteAt for pos <= len d (the only way the cache uses it) *)
Definition write_at (d : bytes) (pos : Z) (bs : bytes) : bytes :=
  firstn (Z.to_nat pos) d ++ bs ++ skipn (Z.to_nat pos + length bs) d.

(* [MAGIC] [timestamp] [body_len] [crc32] *)
Definition enc_header (magic time size c : Z) : bytes :=
  le_bytes 4 magic ++ le_bytes 4 time ++ le_bytes 8 size ++ le_bytes 4 c.
Definition magic_bytes_deleted : bytes := le_bytes 4 magic_deleted.
(* what a prefix-torn erase overwrite leaves after 3 of its 4 bytes: EC 07 00 59 *)
Definition magic_torn_deleted : Z := le_val (firstn 3 (le_bytes 4 magic_deleted) ++ skipn 3 (le_bytes 4 magic_good)).

(* concrete CRC-32C (Castagnoli, reflected, poly 0x82F63B78) for the correspondence check *)
Definition crc_poly : Z := 2197175160.
Fixpoint crc_bits (n : nat) (c : Z) : Z :=
  match n with O => c | S k => crc_bits k (if Z.odd c then Z.lxor (Z.shiftr c 1) crc_poly else Z.shiftr c 1) end.
Definition crc_byte (c b : Z) : Z := crc_bits 8 (Z.lxor c b).
Definition crc32c (d : bytes) : Z := Z.lxor (fold_left crc_byte d 4294967295) 4294967295.

(* diskCacheFile (in memory) *)
Record mfile := MF { mf_name : Z; mf_next : Z; mf_size : Z; mf_ref : Z }.
(* diskCacheBucket; the *diskCacheFile pointer is the file's name, resolved in [s_open] *)
Record bucket := BK { b_file : Z; b_pos : Z; b_time : Z; b_size : Z; b_crc : Z }.

Record shard := SH {
  s_disk : list (Z * bytes);        (* directory: (name, contents) in name order *)
  s_clock : Z;                      (* next file name (time.Now at creation; assumed strictly increasing) *)
  s_open : list mfile;              (* live diskCacheFile objects (refCount > 0) *)
  s_known : list (Z * bucket);      (* knownBuckets, in id order *)
  s_known_size : Z;
  s_last_id : Z;
  s_reading : option Z;             (* readingFileTail *)
  s_waiting : list (Z * Z);         (* waitingFilesTail: (name, size) *)
  s_waiting_size : Z;
  s_writing : option Z;             (* writingFile *)
  s_total : Z                       (* totalFileSize *)
}.

Definition set_disk v s := SH v (s_clock s) (s_open s) (s_known s) (s_known_size s) (s_last_id s) (s_reading s) (s_waiting s) (s_waiting_size s) (s_writing s) (s_total s).
Definition set_clock v s := SH (s_disk s) v (s_open s) (s_known s) (s_known_size s) (s_last_id s) (s_reading s) (s_waiting s) (s_waiting_size s) (s_writing s) (s_total s).
Definition set_open v s := SH (s_disk s) (s_clock s) v (s_known s) (s_known_size s) (s_last_id s) (s_reading s) (s_waiting s) (s_waiting_size s) (s_writing s) (s_total s).
Definition set_known v s := SH (s_disk s) (s_clock s) (s_open s) v (s_known_size s) (s_last_id s) (s_reading s) (s_waiting s) (s_waiting_size s) (s_writing s) (s_total s).
Definition set_known_size v s := SH (s_disk s) (s_clock s) (s_open s) (s_known s) v (s_last_id s) (s_reading s) (s_waiting s) (s_waiting_size s) (s_writing s) (s_total s).
Definition set_last_id v s := SH (s_disk s) (s_clock s) (s_open s) (s_known s) (s_known_size s) v (s_reading s) (s_waiting s) (s_waiting_size s) (s_writing s) (s_total s).
Definition set_reading v s := SH (s_disk s) (s_clock s) (s_open s) (s_known s) (s_known_size s) (s_last_id s) v (s_waiting s) (s_waiting_size s) (s_writing s) (s_total s).
Definition set_waiting v vs s := SH (s_disk s) (s_clock s) (s_open s) (s_known s) (s_known_size s) (s_last_id s) (s_reading s) v vs (s_writing s) (s_total s).
Definition set_writing v s := SH (s_disk s) (s_clock s) (s_open s) (s_known s) (s_known_size s) (s_last_id s) (s_reading s) (s_waiting s) (s_waiting_size s) v (s_total s).
Definition set_total v s := SH (s_disk s) (s_clock s) (s_open s) (s_known s) (s_known_size s) (s_last_id s) (s_reading s) (s_waiting s) (s_waiting_size s) (s_writing s) v.

(* directory *)
Fixpoint find_file (n : Z) (d : list (Z * bytes)) : option bytes :=
  match d with [] => None | (m, x) :: r => if m =? n then Some x else find_file n r end.
Fixpoint upd_file (n : Z) (f : bytes -> bytes) (d : list (Z * bytes)) : list (Z * bytes) :=
  match d with [] => [] | (m, x) :: r => if m =? n then (m, f x) :: r else (m, x) :: upd_file n f r end.
Definition del_file (n : Z) (d : list (Z * bytes)) : list (Z * bytes) := filter (fun p => negb (fst p =? n)) d.
(* file objects *)
Fixpoint find_open (n : Z) (o : list mfile) : option mfile :=
  match o with [] => None | m :: r => if mf_name m =? n then Some m else find_open n r end.
Fixpoint upd_open (n : Z) (f : mfile -> mfile) (o : list mfile) : list mfile :=
  match o with [] => [] | m :: r => if mf_name m =? n then f m :: r else m :: upd_open n f r end.
Definition del_open (n : Z) (o : list mfile) : list mfile := filter (fun m => negb (mf_name m =? n)) o.
(* knownBuckets *)
Fixpoint find_known (id : Z) (k : list (Z * bucket)) : option bucket :=
  match k with [] => None | (i, b) :: r => if i =? id then Some b else find_known id r end.
Definition del_known (id : Z) (k : list (Z * bucket)) : list (Z * bucket) := filter (fun p => negb (fst p =? id)) k.

Definition add_ref (d : Z) (m : mfile) : mfile := MF (mf_name m) (mf_next m) (mf_size m) (mf_ref m + d).

(* unrefFile(&f): refCount--, at 0 close + totalFileSize -= size + os.Remove.  The caller clears its pointer. *)
Definition unref (st : shard) (n : Z) : shard :=
  match find_open n (s_open st) with
  | None => st
  | Some m =>
      if mf_ref m - 1 =? 0
      then set_disk (del_file n (s_disk st)) (set_total (s_total st - mf_size m) (set_open (del_open n (s_open st)) st))
      else set_open (upd_open n (add_ref (-1)) (s_open st)) st
  end.

Definition sum_sizes (w : list (Z * Z)) : Z := fold_right (fun p a => snd p + a) 0 w.

(* makeDiscCacheShard on the directory left behind (Close, or a crash) *)
Definition restart (st : shard) : shard :=
  let w := map (fun p => (fst p, blen (snd p))) (s_disk st) in
  SH (s_disk st) (s_clock st) [] [] 0 0 None w (sum_sizes w) None (sum_sizes w).

Definition empty_shard : shard := SH [] 1 [] [] 0 0 None [] 0 None 0.

Section WithCrc.
Variable crc : bytes -> Z.
Variable repaired : bool.   (* false = the code as it is; true = reader also accepts the torn-erase magic as deleted *)

Definition is_deleted_magic (magic : Z) : bool :=
  (magic =? magic_deleted) || (repaired && (magic =? magic_torn_deleted)).

(* writeSecond up to the two WriteAt calls: rotation, then creation of a new file *)
Definition rotate_needed (st : shard) (len : Z) (age : bool) : bool :=
  match s_writing st with
  | None => false
  | Some w => match find_open w (s_open st) with
              | None => false
              | Some m => (file_rotate_size <? mf_size m + 20 + len) || age
              end
  end.

Definition prepare_write (st : shard) (len : Z) (age : bool) : shard :=
  let st1 := if rotate_needed st len age
             then match s_writing st with Some w => set_writing None (unref st w) | None => st end
             else st in
  match s_writing st1 with
  | Some _ => st1
  | None =>
      let n := s_clock st1 in
      set_writing (Some n) (set_open (s_open st1 ++ [MF n 0 0 1]) (set_clock (n + 1) (set_disk (s_disk st1 ++ [(n, [])]) st1)))
  end.

Definition record_bytes (time : Z) (data : bytes) : bytes :=
  enc_header magic_good time (blen data) (crc data) ++ data.

(* PutBucket; [k] = Some n: only the first n bytes of header++body reach the disk (crash), no in-memory update matters *)
Definition put_gen (st : shard) (time : Z) (data : bytes) (age : bool) (k : option Z) : shard * option Z :=
  let len := blen data in
  if max_chunk_size <? len then (st, None) else
  let st1 := prepare_write st len age in
  match s_writing st1 with
  | None => (st1, None)
  | Some w =>
    match find_open w (s_open st1) with
    | None => (st1, None)
    | Some m =>
      let pos := mf_size m in
      let rec := record_bytes time data in
      match k with
      | Some n => (set_disk (upd_file w (fun d => write_at d pos (firstn (Z.to_nat n) rec)) (s_disk st1)) st1, None)
      | None =>
        let id := s_last_id st1 + 1 in
        let st2 := set_disk (upd_file w (fun d => write_at d pos rec) (s_disk st1)) st1 in
        let st3 := set_open (upd_open w (fun m => MF (mf_name m) (mf_next m) (mf_size m + 20 + len) (mf_ref m + 1)) (s_open st2)) st2 in
        let st4 := set_total (s_total st3 + (20 + len)) st3 in
        let st5 := set_known_size (s_known_size st4 + (len + 20)) st4 in
        (set_known (s_known st5 ++ [(id, BK w pos time len (crc data))]) (set_last_id id st5), Some id)
      end
    end
  end.
Definition put st time data age := put_gen st time data age None.
Definition put_torn st time data age k := restart (fst (put_gen st time data age (Some k))).

(* eraseBucket; [k] as above for the 4-byte magic overwrite *)
Definition erase (st : shard) (id : Z) : shard :=
  match find_known id (s_known st) with
  | None => st
  | Some b =>
      let st1 := set_disk (upd_file (b_file b) (fun d => write_at d (b_pos b) magic_bytes_deleted) (s_disk st)) st in
      let st2 := unref st1 (b_file b) in
      set_known (del_known id (s_known st2)) (set_known_size (s_known_size st2 - (b_size b + 20)) st2)
  end.
Definition erase_torn (st : shard) (id : Z) (k : Z) : shard :=
  match find_known id (s_known st) with
  | None => restart st
  | Some b => restart (set_disk (upd_file (b_file b) (fun d => write_at d (b_pos b) (firstn (Z.to_nat k) magic_bytes_deleted)) (s_disk st)) st)
  end.

Inductive get_res := GOk (data : bytes) | GUnknown | GWrongTime | GReadErr | GCrcErr.

Definition get (st : shard) (id time : Z) : shard * get_res :=
  match find_known id (s_known st) with
  | None => (st, GUnknown)
  | Some b =>
      if negb (b_time b =? time) then (st, GWrongTime) else
      match find_file (b_file b) (s_disk st) with
      | None => (erase st id, GReadErr)
      | Some d =>
          let data := slice d (b_pos b + 20) (b_size b) in
          if blen data <? b_size b then (erase st id, GReadErr)
          else if negb (crc data =? b_crc b) then (erase st id, GCrcErr)
          else (st, GOk data)
      end
  end.

(* the header checks of ReadNextTailSecond on file contents [d] (size as recorded at start), at nextPos [next] *)
Inductive parse_res :=
| PClose                              (* unrefFile(&d.readingFileTail): EOF, short read, bad chunk size, unknown magic *)
| PSkip (next' : Z)                   (* deleted second *)
| PGood (time chunk c next' : Z).     (* a second to hand out *)

Definition parse_at (d : bytes) (size next : Z) : parse_res :=
  if size <=? next then PClose else
  let h := slice d next 20 in
  if blen h <? 20 then PClose else                                          (* io.ReadFull error *)
  let magic := le_val (slice h 0 4) in
  let time := le_val (slice h 4 4) in
  let chunk := i64 (le_val (slice h 8 8)) in
  let c := le_val (slice h 16 4) in
  if (chunk <? 0) || (max_chunk_size <? chunk) || (size <? next + 20 + chunk) then PClose
  else if is_deleted_magic magic then PSkip (next + (20 + chunk))
  else if negb (magic =? magic_good) then PClose
  else PGood time chunk c (next + (20 + chunk)).

(* one iteration of the for{} in ReadNextTailSecond *)
Inductive tail_res := TCont (st : shard) | TDone (st : shard) (time id : Z).

Definition tail_iter (st : shard) : tail_res :=
  match s_reading st with
  | None =>
      match s_waiting st with
      | [] => TDone st 0 0
      | (n, sz) :: rest =>
          let st1 := set_waiting rest (s_waiting_size st - sz) st in
          match find_file n (s_disk st) with
          | None => TCont (set_total (s_total st1 - sz) st1)                       (* os.OpenFile failed *)
          | Some _ => TCont (set_reading (Some n) (set_open (s_open st1 ++ [MF n 0 sz 1]) st1))
          end
      end
  | Some r =>
      match find_open r (s_open st), find_file r (s_disk st) with
      | Some m, Some d =>
          match parse_at d (mf_size m) (mf_next m) with
          | PClose => TCont (set_reading None (unref st r))
          | PSkip nx => TCont (set_open (upd_open r (fun m => MF (mf_name m) nx (mf_size m) (mf_ref m)) (s_open st)) st)
          | PGood time chunk c nx =>
              let id := s_last_id st + 1 in
              let st1 := set_known (s_known st ++ [(id, BK r (mf_next m) time chunk c)]) (set_last_id id st) in
              let st2 := set_known_size (s_known_size st1 + (chunk + 20)) st1 in
              TDone (set_open (upd_open r (fun m => MF (mf_name m) nx (mf_size m) (mf_ref m + 1)) (s_open st2)) st2) time id
          end
      | _, _ => TDone st 0 0   (* unreachable: readingFileTail is always a live object of an existing file *)
      end
  end.

Fixpoint tail_loop (fuel : nat) (st : shard) : option (shard * Z * Z) :=
  match fuel with
  | O => None
  | S f => match tail_iter st with
           | TDone st' t i => Some (st', t, i)
           | TCont st' => tail_loop f st'
           end
  end.

Definition disk_len (d : list (Z * bytes)) : nat := fold_right (fun p a => (length (snd p) + a)%nat) O d.
(* every iteration pops a waiting file, closes the reading file or advances nextPos by >= 20 bytes *)
Definition tail_fuel (st : shard) : nat := S (2 * length (s_waiting st) + 2 + disk_len (s_disk st)).
Definition tail (st : shard) : option (shard * Z * Z) := tail_loop (tail_fuel st) st.

(* TotalFileSize *)
Definition sizes (st : shard) : Z * Z :=
  let u0 := s_known_size st + s_waiting_size st in
  let u1 := match s_reading st with
            | Some r => match find_open r (s_open st) with
                        | Some m => if mf_next m <? mf_size m then u0 + (mf_size m - mf_next m) else u0
                        | None => u0
                        end
            | None => u0
            end in
  (s_total st, if s_total st <? u1 then s_total st else u1).

(* histories *)
Inductive op :=
| OPut (time : Z) (data : bytes) (age : bool)      (* age = writing file older than fileRotateInterval *)
| OGet (id time : Z)
| OErase (id : Z)
| OTail
| OSizes
| ODisk
| ORestart
| OPutTorn (time : Z) (data : bytes) (age : bool) (k : Z)   (* crash after k bytes of the put's writes, then start *)
| OEraseTorn (id : Z) (k : Z)                               (* crash after k bytes of the magic overwrite, then start *)
| OCorrupt (file : nat) (pos : Z) (v : Z).                  (* outside the crash model: one byte of a file changes *)

Inductive obs :=
| RPut (id : option Z)
| RGet (r : get_res)
| RUnit
| RTail (time id : Z)
| RSizes (total unsent : Z) (files : list Z)
| RDisk (files : list bytes)
| RGetSum (len c : Z)   (* never produced by [step]: digest (length, crc) of a successful get, used by the correspondence to keep cases small *)
| RStuck.

Definition corrupt (st : shard) (fi : nat) (pos v : Z) : shard :=
  match nth_error (s_disk st) fi with
  | None => st
  | Some (n, d) => if (0 <=? pos) && (pos <? blen d) then set_disk (upd_file n (fun d => write_at d pos [v]) (s_disk st)) st else st
  end.

Definition step (st : shard) (o : op) : shard * obs :=
  match o with
  | OPut t d a => let '(st', r) := put st t d a in (st', RPut r)
  | OGet i t => let '(st', r) := get st i t in (st', RGet r)
  | OErase i => (erase st i, RUnit)
  | OTail => match tail st with Some (st', t, i) => (st', RTail t i) | None => (st, RStuck) end
  | OSizes => let '(t, u) := sizes st in (st, RSizes t u (map (fun p => blen (snd p)) (s_disk st)))
  | ODisk => (st, RDisk (map snd (s_disk st)))
  | ORestart => (restart st, RUnit)
  | OPutTorn t d a k => (put_torn st t d a k, RUnit)
  | OEraseTorn i k => (erase_torn st i k, RUnit)
  | OCorrupt f p v => (corrupt st f p v, RUnit)
  end.

Fixpoint run (st : shard) (ops : list op) : shard * list obs :=
  match ops with
  | [] => (st, [])
  | o :: r => let '(st1, x) := step st o in let '(st2, xs) := run st1 r in (st2, x :: xs)
  end.

(* the storage: independent shards *)
Fixpoint upd_nth {A} (n : nat) (f : A -> A) (l : list A) : list A :=
  match l, n with
  | [], _ => []
  | x :: r, O => f x :: r
  | x :: r, S k => x :: upd_nth k f r
  end.

Definition sstep (ss : list shard) (so : nat * op) : list shard * obs :=
  match nth_error ss (fst so) with
  | None => (ss, RStuck)
  | Some st => let '(st', x) := step st (snd so) in (upd_nth (fst so) (fun _ => st') ss, x)
  end.

Fixpoint srun (ss : list shard) (ops : list (nat * op)) : list shard * list obs :=
  match ops with
  | [] => (ss, [])
  | o :: r => let '(s1, x) := sstep ss o in let '(s2, xs) := srun s1 r in (s2, x :: xs)
  end.

(* tail until id 0, fetching every second: what the agent re-reads after a start *)
Fixpoint drain (fuel : nat) (st : shard) : shard * list (Z * get_res) :=
  match fuel with
  | O => (st, [])
  | S f => match tail st with
           | None => (st, [])
           | Some (st1, t, i) =>
               if i =? 0 then (st1, [])
               else let '(st2, r) := get st1 i t in
                    let '(st3, rs) := drain f st2 in (st3, (t, r) :: rs)
           end
  end.

End WithCrc.
