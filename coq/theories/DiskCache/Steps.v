(* C09 — every operation of DiskCache.Model preserves the invariant of Inv.v and answers like the list
   specification of Spec.v.  No byte flips; an erase torn after 3 bytes only for the repaired reader. *)
From Coq Require Import ZArith List Bool Lia.
From SH Require Import Common.Wrap Gen.DiskCacheConsts DiskCache.Model DiskCache.Spec DiskCache.Format DiskCache.Inv.
Import ListNotations.
Open Scope Z_scope.

Section S.
Variable crc : bytes -> Z.
Variable rep : bool.
Hypothesis crc_range : forall d, 0 <= crc d < two32.

Notation Inv := (Inv crc rep).
Notation fdata := (fdata crc).
Notation fenc := (fenc crc).
Notation enc_rec := (enc_rec crc).
Notation enc_recs := (enc_recs crc).
Notation gknown := (gknown crc).
Notation fknown := (fknown crc).
Notation gtotal := (gtotal crc).
Notation rec_ok := (rec_ok rep).
Notation torn_ok := (torn_ok crc).
Notation file_ok := (file_ok crc rep).

(* ---------- start ---------- *)
Lemma inv_empty : Inv empty_shard [].
Proof.
  constructor; simpl; auto; try constructor; try lia.
Qed.

(* what a (re)start needs of the directory *)
Record DInv (st : shard) (g : list gfile) : Prop := {
  D_disk : s_disk st = map fenc g;
  D_sorted : inc (map gf_name g);
  D_clock : Forall (fun f => gf_name f < s_clock st) g;
  D_recs : Forall (fun f => Forall rec_ok (gf_recs f) /\ torn_ok (gf_torn f)) g
}.

Definition clear_rec (r : grec) : grec := GR (gr_magic r) None (gr_time r) (gr_body r).
Definition clear_file (f : gfile) : gfile := GF (gf_name f) RW 0 (map clear_rec (gf_recs f)) (gf_torn f).
Definition grestart (g : list gfile) : list gfile := map clear_file g.

Lemma enc_recs_clear l : enc_recs (map clear_rec l) = enc_recs l.
Proof. induction l as [|r l IH]; auto. simpl map. rewrite !enc_recs_cons, IH. reflexivity. Qed.

Lemma fdata_clear f : fdata (clear_file f) = fdata f.
Proof. unfold Inv.fdata. simpl. rewrite enc_recs_clear. reflexivity. Qed.

Lemma fknown_clear n p l : fknown n p (map clear_rec l) = [].
Proof. revert p. induction l as [|r l IH]; intros p; simpl; auto. Qed.

Lemma gknown_restart g : gknown (grestart g) = [].
Proof. induction g as [|f g IH]; simpl; auto. unfold Inv.gknown in *. simpl. rewrite fknown_clear, IH. reflexivity. Qed.

Lemma ndec_const (l : list gfile) c (F : gfile -> Z) : (forall f, F f = c) -> ndec (map F l).
Proof.
  intros H. induction l as [|f l IH]; simpl; auto. split; auto.
  apply Forall_forall. intros y Hy. apply in_map_iff in Hy. destruct Hy as [x [<- _]]. rewrite !H. lia.
Qed.

Lemma fents_clear l : fents (map clear_rec l) = map (fun e => AE None (a_time e) (a_body e)) (fents l).
Proof.
  unfold fents. induction l as [|r l IH]; [reflexivity|].
  cbn [map filter]. change (live (clear_rec r)) with (live r). destruct (live r); cbn [map]; rewrite IH; reflexivity.
Qed.

Lemma aents_restart g : aents (grestart g) = map (fun e => AE None (a_time e) (a_body e)) (aents g).
Proof.
  induction g as [|f g IH]; [reflexivity|].
  change (aents (grestart (f :: g))) with (fents (map clear_rec (gf_recs f)) ++ aents (grestart g)).
  change (aents (f :: g)) with (fents (gf_recs f) ++ aents g).
  rewrite map_app, IH, fents_clear. reflexivity.
Qed.

Lemma restart_inv st g : DInv st g -> Inv (restart st) (grestart g) /\ aents (grestart g) = a_ents (a_restart (AS (aents g) (s_last_id st))).
Proof.
  intros [Dd Ds Dc Dr]. split; [|simpl; apply aents_restart].
  assert (Mn : map gf_name (grestart g) = map gf_name g).
  { unfold grestart. rewrite map_map. reflexivity. }
  assert (Mf : map fenc (grestart g) = map fenc g).
  { unfold grestart. rewrite map_map. apply map_ext. intros f. unfold Inv.fenc. rewrite fdata_clear. reflexivity. }
  assert (FW : filter is_W (grestart g) = grestart g).
  { unfold grestart. clear. induction g as [|f g IH]; simpl; auto. f_equal. exact IH. }
  assert (FR : filter is_R (grestart g) = []).
  { unfold grestart. clear. induction g; simpl; auto. }
  assert (WL : map (fun p : Z * bytes => (fst p, blen (snd p))) (map fenc g) = map (fun f => (gf_name f, blen (fdata f))) (grestart g)).
  { unfold grestart. rewrite !map_map. apply map_ext. intros f. simpl. rewrite fdata_clear. reflexivity. }
  constructor; simpl.
  - rewrite Mf. exact Dd.
  - rewrite Mn. exact Ds.
  - unfold grestart. rewrite Forall_map. simpl. exact Dc.
  - unfold grestart. rewrite map_map. apply ndec_const with (c := 2). reflexivity.
  - unfold grestart. rewrite Forall_map. eapply Forall_impl; [|exact Dr]. intros f [Hr Ht].
    unfold Inv.file_ok. simpl. repeat split; auto.
    + rewrite Forall_map. eapply Forall_impl; [|exact Hr]. intros r [A [B [C _]]].
      unfold Inv.rec_ok. simpl. repeat split; auto; try lia. intros X; discriminate.
    + unfold role_ok. simpl. rewrite Forall_map. apply Forall_forall. intros; reflexivity.
    + intros X; discriminate.
  - rewrite FR. reflexivity.
  - rewrite FW, Dd. exact WL.
  - reflexivity.
  - unfold grestart. rewrite Forall_map. apply Forall_forall. intros; reflexivity.
  - intros f Hf. unfold grestart in Hf. apply in_map_iff in Hf. destruct Hf as [x [<- _]]. reflexivity.
  - intros i. rewrite gknown_restart. reflexivity.
  - rewrite gknown_restart. constructor.
  - rewrite gknown_restart. constructor.
  - rewrite gknown_restart. reflexivity.
  - rewrite Dd, WL. clear. unfold grestart. induction g as [|f g IH]; simpl; auto. rewrite fdata_clear, IH. reflexivity.
  - lia.
  - constructor.
Qed.

Lemma inv_dinv st g : Inv st g -> DInv st g.
Proof.
  intros I. constructor; try apply I.
  eapply Forall_impl; [|apply (I_files _ _ _ _ I)]. intros f [A [B _]]. auto.
Qed.

(* ---------- small facts ---------- *)
Lemma NoDup_app_snoc {A} (l : list A) x : NoDup l -> ~ In x l -> NoDup (l ++ [x]).
Proof.
  induction l as [|y l IH]; simpl; intros N Hx.
  - constructor; auto.
  - inversion N; subst. constructor.
    + rewrite in_app_iff. simpl. intros [H|[H|[]]]; [tauto|]. subst. tauto.
    + apply IH; auto.
Qed.

Lemma torn_ok_nil : torn_ok [].
Proof.
  exists 0, [], 0%nat. pose proof max_chunk_small. repeat split; try (unfold two32; lia); simpl; try lia. unfold blen; simpl; lia.
Qed.

Lemma seen_noid_nolive l : Forall seen l -> nids l = 0 -> fents l = [].
Proof.
  unfold fents, nids. induction l as [|r l IH]; simpl; auto. intros H N. inversion H; subst.
  destruct (has_gid r) eqn:E; simpl in N; [lia|].
  destruct (live r) eqn:L; [rewrite (H2 L) in E; discriminate|]. auto.
Qed.

Lemma nids0_fknown n p l : nids l = 0 -> fknown n p l = [].
Proof.
  intros H. rewrite <- (fknown_length crc n p) in H. destruct (fknown n p l); auto. simpl in H. lia.
Qed.

Lemma filter_app1 {A} (P : A -> bool) l x : filter P (l ++ [x]) = filter P l ++ (if P x then [x] else []).
Proof. rewrite filter_app. reflexivity. Qed.

Lemma gknown_snoc g f : gknown (g ++ [f]) = gknown g ++ fknown (gf_name f) 0 (gf_recs f).
Proof. rewrite gknown_app. unfold Inv.gknown at 2. simpl. rewrite app_nil_r. reflexivity. Qed.

Lemma aents_snoc g f : aents (g ++ [f]) = aents g ++ fents (gf_recs f).
Proof. rewrite aents_app. unfold aents at 2. simpl. rewrite app_nil_r. reflexivity. Qed.

Lemma gtotal_snoc g f : gtotal (g ++ [f]) = gtotal g + blen (fdata f).
Proof. rewrite gtotal_app. simpl. lia. Qed.

(* ---------- writeSecond: creation of a new file ---------- *)
Definition newfile (n : Z) : gfile := GF n (RS true) 0 [] [].
Definition create (st : shard) : shard :=
  let n := s_clock st in
  set_writing (Some n) (set_open (s_open st ++ [MF n 0 0 1]) (set_clock (n + 1) (set_disk (s_disk st ++ [(n, [])]) st))).

Lemma create_inv st g :
  Inv st g -> s_writing st = None ->
  Inv (create st) (g ++ [newfile (s_clock st)]) /\ aents (g ++ [newfile (s_clock st)]) = aents g /\
  s_last_id (create st) = s_last_id st /\ s_writing (create st) = Some (s_clock st).
Proof.
  intros I W. destruct I as [Id Is Ic Ir If Ird Iw Iws Iwr Io Ik Ind Iid Iks It Il Iod].
  set (n := s_clock st). rewrite W in Iwr. simpl in Iwr.
  split; [|split; [rewrite aents_snoc; simpl; apply app_nil_r|split; reflexivity]].
  constructor; unfold create; fold n; simpl.
  - rewrite map_app, Id. reflexivity.
  - rewrite map_app. apply inc_app; simpl; auto.
    intros x y Hx [<-|[]]. apply in_map_iff in Hx. destruct Hx as [f [<- Hf]]. rewrite Forall_forall in Ic. apply Ic; auto.
  - apply Forall_app. split.
    + eapply Forall_impl; [|exact Ic]. simpl. intros; lia.
    + constructor; auto. simpl. lia.
  - rewrite map_app. apply ndec_app; simpl; auto.
    intros x y Hx [<-|[]]. apply in_map_iff in Hx. destruct Hx as [f [<- Hf]]. apply rank_le3.
  - apply Forall_app. split; auto. constructor; auto. unfold Inv.file_ok. simpl.
    repeat split; auto; try apply torn_ok_nil; try (intros _; unfold refs; simpl; lia); unfold role_ok; simpl; auto.
  - rewrite filter_app1. simpl. rewrite app_nil_r. exact Ird.
  - rewrite filter_app1. simpl. rewrite app_nil_r. exact Iw.
  - exact Iws.
  - exists g, (newfile n). auto.
  - intros f Hf. apply in_app_iff in Hf. rewrite find_open_app. destruct Hf as [Hf|[<-|[]]].
    + rewrite (Io f Hf). destruct (is_W f); auto. simpl.
      rewrite Forall_forall in Ic. specialize (Ic f Hf). fold n in Ic.
      destruct (n =? gf_name f) eqn:E; auto. apply Z.eqb_eq in E. lia.
    + simpl. rewrite (find_open_fresh (s_open st) n Iod). rewrite Z.eqb_refl. reflexivity.
  - intros i. rewrite gknown_snoc. simpl. rewrite app_nil_r. apply Ik.
  - rewrite gknown_snoc. simpl. rewrite app_nil_r. exact Ind.
  - rewrite gknown_snoc. simpl. rewrite app_nil_r. exact Iid.
  - rewrite gknown_snoc. simpl. rewrite app_nil_r. exact Iks.
  - rewrite gtotal_snoc. simpl. unfold blen. simpl. lia.
  - exact Il.
  - apply Forall_app. split.
    + eapply Forall_impl; [|exact Iod]. simpl. intros; lia.
    + constructor; auto. simpl. lia.
Qed.

(* ---------- writeSecond: rotation (unrefFile(&d.writingFile)) ---------- *)
Definition unset_wr (f : gfile) : gfile := GF (gf_name f) (RS false) (gf_next f) (gf_recs f) (gf_torn f).

Lemma rotate_inv st g w :
  Inv st g -> s_writing st = Some w ->
  exists g', Inv (set_writing None (unref st w)) g' /\ aents g' = aents g /\
             s_last_id (set_writing None (unref st w)) = s_last_id st.
Proof.
  intros I W. destruct I as [Id Is Ic Ir If Ird Iw Iws Iwr Io Ik Ind Iid Iks It Il Iod].
  rewrite W in Iwr. destruct Iwr as [g0 [f [-> [Nf [Rf Wg0]]]]]. subst w.
  assert (Of := Io f ltac:(apply in_app_iff; simpl; auto)).
  assert (HW : is_W f = false) by (unfold is_W; rewrite Rf; reflexivity).
  assert (HR : is_R f = false) by (unfold is_R; rewrite Rf; reflexivity).
  assert (Hwr : is_wr f = true) by (unfold is_wr; rewrite Rf; reflexivity).
  rewrite HW in Of.
  destruct (inc_mid _ _ _ Is) as [N1 [_ [Is' Isf]]]. rewrite app_nil_r in Is'.
  apply Forall_app in Ic. destruct Ic as [Ic0 Icf].
  apply Forall_app in If. destruct If as [If0 Iff]. inversion Iff as [|? ? Fok _]; subst. clear Iff.
  destruct Fok as [Frec [Ftorn [Frole Frefs]]]. unfold role_ok in Frole. rewrite Rf in Frole. destruct Frole as [Fseen Ft].
  rewrite map_app in Ir. apply ndec_app_inv in Ir. destruct Ir as [Ir0 [_ Irx]].
  rewrite filter_app1, HR, app_nil_r in Ird. rewrite filter_app1, HW, app_nil_r in Iw.
  assert (Rv : refs f = 1 + nids (gf_recs f)) by (unfold refs; rewrite HR, Hwr; lia).
  unfold unref. rewrite Of. cbn [mf_ref mf_size].
  destruct (refs f - 1 =? 0) eqn:E.
  - (* nothing references the file any more: it is removed *)
    apply Z.eqb_eq in E. assert (N0 : nids (gf_recs f) = 0) by lia.
    exists g0. split; [|split; [rewrite aents_snoc, (seen_noid_nolive _ Fseen N0); symmetry; apply app_nil_r|reflexivity]].
    constructor; simpl.
    + rewrite Id. rewrite (del_file_fenc crc g0 f []); auto. rewrite app_nil_r. reflexivity.
    + exact Is'.
    + exact Ic0.
    + exact Ir0.
    + exact If0.
    + exact Ird.
    + exact Iw.
    + exact Iws.
    + exact Wg0.
    + intros f' Hf'. rewrite find_open_del_other.
      * apply Io. apply in_app_iff; auto.
      * apply (name_neq_pre g0 f [] f' Is). auto.
    + intros i. rewrite Ik, gknown_snoc, (nids0_fknown _ _ _ N0), app_nil_r. reflexivity.
    + rewrite gknown_snoc, (nids0_fknown _ _ _ N0), app_nil_r in Ind. exact Ind.
    + rewrite gknown_snoc, (nids0_fknown _ _ _ N0), app_nil_r in Iid. exact Iid.
    + rewrite Iks, gknown_snoc, (nids0_fknown _ _ _ N0), app_nil_r. reflexivity.
    + rewrite It, gtotal_snoc. lia.
    + exact Il.
    + apply forall_del_open. exact Iod.
  - (* still referenced by known buckets *)
    apply Z.eqb_neq in E. pose proof (nids_nonneg (gf_recs f)).
    exists (g0 ++ [unset_wr f]). split; [|split; [rewrite !aents_snoc; reflexivity|reflexivity]].
    constructor; simpl.
    + rewrite Id, !map_app. reflexivity.
    + apply Isf. reflexivity.
    + apply Forall_app. split; auto. inversion Icf; subst. constructor; auto.
    + rewrite map_app. apply ndec_app; simpl; auto. intros x y Hx [<-|[]].
      specialize (Irx x (rank (gf_role f)) Hx (or_introl eq_refl)). rewrite Rf in Irx. exact Irx.
    + apply Forall_app. split; auto. constructor; auto. unfold Inv.file_ok. simpl.
      repeat split; auto; try (intros _; unfold refs; simpl; lia); unfold role_ok; simpl; auto.
    + rewrite filter_app1. simpl. rewrite app_nil_r. exact Ird.
    + rewrite filter_app1. simpl. rewrite app_nil_r. exact Iw.
    + exact Iws.
    + apply Forall_app. split; auto.
    + intros f' Hf'. apply in_app_iff in Hf'. destruct Hf' as [Hf'|[<-|[]]].
      * rewrite find_open_upd_other; [apply Io; apply in_app_iff; auto| |intros; reflexivity].
        apply (name_neq_pre g0 f [] f' Is). auto.
      * simpl. erewrite find_open_upd_same; [|exact Of|reflexivity].
        unfold add_ref. simpl. unfold refs at 2. simpl. rewrite Rv. do 2 f_equal. lia.
    + intros i. rewrite Ik, !gknown_snoc. reflexivity.
    + rewrite gknown_snoc in *. exact Ind.
    + rewrite gknown_snoc in *. exact Iid.
    + rewrite Iks, !gknown_snoc. reflexivity.
    + rewrite It, !gtotal_snoc. reflexivity.
    + exact Il.
    + apply forall_upd_open; auto.
Qed.

(* ---------- PutBucket: the two writes and the bookkeeping ---------- *)
Definition app_rec (f : gfile) (r : grec) : gfile :=
  GF (gf_name f) (gf_role f) (gf_next f) (gf_recs f ++ [r]) (gf_torn f).

Definition append_state (st1 : shard) (w : Z) (m : mfile) (time : Z) (data : bytes) : shard :=
  let len := blen data in
  let pos := mf_size m in
  let rec := record_bytes crc time data in
  let id := s_last_id st1 + 1 in
  let st2 := set_disk (upd_file w (fun d => write_at d pos rec) (s_disk st1)) st1 in
  let st3 := set_open (upd_open w (fun m => MF (mf_name m) (mf_next m) (mf_size m + 20 + len) (mf_ref m + 1)) (s_open st2)) st2 in
  let st4 := set_total (s_total st3 + (20 + len)) st3 in
  let st5 := set_known_size (s_known_size st4 + (len + 20)) st4 in
  set_known (s_known st5 ++ [(id, BK w pos time len (crc data))]) (set_last_id id st5).

Lemma fresh_id (k : list (Z * bucket)) last : Forall (fun p => 0 < fst p <= last) k -> ~ In (last + 1) (map fst k).
Proof.
  intros H Hin. apply in_map_iff in Hin. destruct Hin as [p [E Hp]]. rewrite Forall_forall in H. specialize (H p Hp). lia.
Qed.

Lemma append_inv st g w t data :
  Inv st g -> s_writing st = Some w -> 0 <= t < two32 -> blen data <= max_chunk_size ->
  exists m, find_open w (s_open st) = Some m /\
  exists g', Inv (append_state st w m t data) g' /\
             aents g' = aents g ++ [AE (Some (s_last_id st + 1)) t data].
Proof.
  intros I W Ht Hd. destruct I as [Id Is Ic Ir If Ird Iw Iws Iwr Io Ik Ind Iid Iks It Il Iod].
  rewrite W in Iwr. destruct Iwr as [g0 [f [-> [Nf [Rf Wg0]]]]]. subst w.
  assert (Of := Io f ltac:(apply in_app_iff; simpl; auto)).
  assert (HW : is_W f = false) by (unfold is_W; rewrite Rf; reflexivity).
  assert (HR : is_R f = false) by (unfold is_R; rewrite Rf; reflexivity).
  assert (Hwr : is_wr f = true) by (unfold is_wr; rewrite Rf; reflexivity).
  rewrite HW in Of. eexists; split; [exact Of|].
  destruct (inc_mid _ _ _ Is) as [N1 [_ [Is' Isf]]].
  assert (Ic' := Ic). apply Forall_app in Ic'. destruct Ic' as [Ic0 Icf].
  assert (If' := If). apply Forall_app in If'. destruct If' as [If0 Iff]. inversion Iff as [|? ? Fok _]; subst. clear Iff.
  destruct Fok as [Frec [Ftorn [Frole Frefs]]]. unfold role_ok in Frole. rewrite Rf in Frole. destruct Frole as [Fseen Ft].
  set (id := s_last_id st + 1).
  set (r := GR magic_good (Some id) t data).
  set (f' := app_rec f r).
  assert (Lr : live r = true) by reflexivity.
  assert (Er : enc_rec r = record_bytes crc t data) by reflexivity.
  assert (Ef : fdata f' = fdata f ++ record_bytes crc t data).
  { unfold Inv.fdata, f'. simpl. rewrite Ft, !app_nil_r, enc_recs_app. rewrite enc_recs_cons, Er. simpl. rewrite app_nil_r. reflexivity. }
  assert (Br : blen (record_bytes crc t data) = 20 + blen data).
  { rewrite <- Er, blen_enc_rec. reflexivity. }
  assert (Bf : blen (fdata f') = blen (fdata f) + (20 + blen data)) by (rewrite Ef, blen_app, Br; reflexivity).
  assert (Pf : blen (fdata f) = osum (gf_recs f)).
  { rewrite blen_fdata, Ft. unfold blen at 1. simpl. lia. }
  assert (Kf : fknown (gf_name f') 0 (gf_recs f') =
               fknown (gf_name f) 0 (gf_recs f) ++ [(id, BK (gf_name f) (blen (fdata f)) t (blen data) (crc data))]).
  { unfold f'. simpl. rewrite fknown_app. simpl. rewrite Pf. reflexivity. }
  assert (Nf' : nids (gf_recs f') = nids (gf_recs f) + 1).
  { unfold f'. simpl. rewrite nids_app. unfold nids at 2. simpl. lia. }
  assert (Af : fents (gf_recs f') = fents (gf_recs f) ++ [AE (Some id) t data]).
  { unfold f'. simpl. rewrite fents_app. unfold fents at 2. simpl. try rewrite Lr. reflexivity. }
  assert (Fr : ~ In id (map fst (gknown (g0 ++ [f])))) by (apply fresh_id; exact Iid).
  assert (Rf' : refs f' = refs f + 1).
  { unfold refs. rewrite Nf'. unfold is_R, is_wr, f'. simpl. lia. }
  assert (HW' : is_W f' = false) by (unfold is_W, f'; simpl; rewrite Rf; reflexivity).
  exists (g0 ++ [f']). split; [|rewrite !aents_snoc, Af, app_assoc; reflexivity].
  unfold append_state. cbn [mf_size]. fold id.
  constructor; simpl.
  - rewrite Id. apply upd_file_fenc; auto. rewrite write_at_end. symmetry. exact Ef.
  - apply Isf. reflexivity.
  - apply Forall_app. split; auto. inversion Icf; subst. constructor; auto.
  - unfold f'. rewrite map_app in *. simpl in *. exact Ir.
  - apply Forall_app. split; auto. constructor; auto. unfold Inv.file_ok. split; [|split; [|split]].
    + unfold f'. simpl. apply Forall_app. split; auto. constructor; auto. unfold Inv.rec_ok. simpl. repeat split; auto; lia.
    + exact Ftorn.
    + unfold role_ok, f'. simpl. rewrite Rf. split; auto. apply Forall_app. split; auto. constructor; auto. intros _. reflexivity.
    + intros _. rewrite Rf'. specialize (Frefs HW). lia.
  - rewrite filter_app1 in *. change (is_R f') with (is_R f). rewrite HR in *. exact Ird.
  - rewrite filter_app1 in *. rewrite HW', HW in *. exact Iw.
  - exact Iws.
  - rewrite W. exists g0, f'. auto.
  - intros x Hx. apply in_app_iff in Hx. destruct Hx as [Hx|[<-|[]]].
    + rewrite find_open_upd_other; [apply Io; apply in_app_iff; auto| |intros; reflexivity].
      apply (name_neq_pre g0 f [] x Is). auto.
    + change (gf_name f') with (gf_name f). change (gf_next f') with (gf_next f). rewrite HW', Bf, Rf'.
      erewrite find_open_upd_same; [|exact Of|reflexivity]. cbn [mf_name mf_next mf_size mf_ref]. f_equal. f_equal; lia.
  - intros i. rewrite gknown_snoc, Kf, app_assoc, !find_known_app2, Ik, gknown_snoc, find_known_app2. reflexivity.
  - rewrite gknown_snoc, Kf, app_assoc, <- gknown_snoc, map_app. simpl.
    apply NoDup_app_snoc; auto.
  - rewrite gknown_snoc, Kf, app_assoc, <- gknown_snoc. apply Forall_app. split.
    + eapply Forall_impl; [|exact Iid]. simpl. intros; lia.
    + constructor; auto. simpl. unfold id. lia.
  - rewrite Iks, !gknown_snoc, Kf, !ksize_app.
    change (ksize [(id, BK (gf_name f) (blen (fdata f)) t (blen data) (crc data))]) with (blen data + 20 + 0). ring.
  - rewrite It, !gtotal_snoc, Bf. ring.
  - unfold id. lia.
  - apply forall_upd_open; auto.
Qed.

End S.
