(* C09 — every operation of DiskCache.Model preserves the invariant of Inv.v and answers like the list
   specification of Spec.v.  No byte flips; an erase torn after 3 bytes only for the repaired reader. *)
From Coq Require Import ZArith List Bool Lia.
From SH Require Import Common.Wrap Gen.DiskCacheConsts DiskCache.Model DiskCache.Spec DiskCache.Format DiskCache.Inv.
Import ListNotations.
Open Scope Z_scope.

Section S.
Variable crc : bytes -> Z.
Variable rep : bool.
Hypothesis crc_range : forall d, 0 <= crc d < two32.

Notation Inv := (Inv crc rep).
Notation fdata := (fdata crc).
Notation fenc := (fenc crc).
Notation enc_rec := (enc_rec crc).
Notation enc_recs := (enc_recs crc).
Notation gknown := (gknown crc).
Notation fknown := (fknown crc).
Notation gtotal := (gtotal crc).
Notation rec_ok := (rec_ok rep).
Notation torn_ok := (torn_ok crc).
Notation file_ok := (file_ok crc rep).

Ltac ssimpl := cbn [s_disk s_clock s_open s_known s_known_size s_last_id s_reading s_waiting s_waiting_size s_writing s_total
  set_disk set_clock set_open set_known set_known_size set_last_id set_reading set_waiting set_writing set_total].

(* ---------- start ---------- *)
Lemma inv_empty : Inv empty_shard [].
Proof.
  constructor; simpl; auto; try constructor; try lia.
Qed.

(* what a (re)start needs of the directory *)
Record DInv (st : shard) (g : list gfile) : Prop := {
  D_disk : s_disk st = map fenc g;
  D_sorted : inc (map gf_name g);
  D_clock : Forall (fun f => gf_name f < s_clock st) g;
  D_recs : Forall (fun f => Forall rec_ok (gf_recs f) /\ torn_ok (gf_torn f)) g
}.

Definition clear_rec (r : grec) : grec := GR (gr_magic r) None (gr_time r) (gr_body r).
Definition clear_file (f : gfile) : gfile := GF (gf_name f) RW 0 (map clear_rec (gf_recs f)) (gf_torn f).
Definition grestart (g : list gfile) : list gfile := map clear_file g.

Lemma enc_recs_clear l : enc_recs (map clear_rec l) = enc_recs l.
Proof. induction l as [|r l IH]; auto. simpl map. rewrite !enc_recs_cons, IH. reflexivity. Qed.

Lemma fdata_clear f : fdata (clear_file f) = fdata f.
Proof. unfold Inv.fdata. simpl. rewrite enc_recs_clear. reflexivity. Qed.

Lemma fknown_clear n p l : fknown n p (map clear_rec l) = [].
Proof. revert p. induction l as [|r l IH]; intros p; simpl; auto. Qed.

Lemma gknown_restart g : gknown (grestart g) = [].
Proof. induction g as [|f g IH]; simpl; auto. unfold Inv.gknown in *. simpl. rewrite fknown_clear, IH. reflexivity. Qed.

Lemma ndec_const (l : list gfile) c (F : gfile -> Z) : (forall f, F f = c) -> ndec (map F l).
Proof.
  intros H. induction l as [|f l IH]; simpl; auto. split; auto.
  apply Forall_forall. intros y Hy. apply in_map_iff in Hy. destruct Hy as [x [<- _]]. rewrite !H. lia.
Qed.

Lemma fents_clear l : fents (map clear_rec l) = map (fun e => AE None (a_time e) (a_body e)) (fents l).
Proof.
  unfold fents. induction l as [|r l IH]; [reflexivity|].
  cbn [map filter]. change (live (clear_rec r)) with (live r). destruct (live r); cbn [map]; rewrite IH; reflexivity.
Qed.

Lemma aents_restart g : aents (grestart g) = map (fun e => AE None (a_time e) (a_body e)) (aents g).
Proof.
  induction g as [|f g IH]; [reflexivity|].
  change (aents (grestart (f :: g))) with (fents (map clear_rec (gf_recs f)) ++ aents (grestart g)).
  change (aents (f :: g)) with (fents (gf_recs f) ++ aents g).
  rewrite map_app, IH, fents_clear. reflexivity.
Qed.

Lemma restart_inv st g : DInv st g -> Inv (restart st) (grestart g) /\ aents (grestart g) = a_ents (a_restart (AS (aents g) (s_last_id st))).
Proof.
  intros [Dd Ds Dc Dr]. split; [|simpl; apply aents_restart].
  assert (Mn : map gf_name (grestart g) = map gf_name g).
  { unfold grestart. rewrite map_map. reflexivity. }
  assert (Mf : map fenc (grestart g) = map fenc g).
  { unfold grestart. rewrite map_map. apply map_ext. intros f. unfold Inv.fenc. rewrite fdata_clear. reflexivity. }
  assert (FW : filter is_W (grestart g) = grestart g).
  { unfold grestart. clear. induction g as [|f g IH]; simpl; auto. f_equal. exact IH. }
  assert (FR : filter is_R (grestart g) = []).
  { unfold grestart. clear. induction g; simpl; auto. }
  assert (WL : map (fun p : Z * bytes => (fst p, blen (snd p))) (map fenc g) = map (fun f => (gf_name f, blen (fdata f))) (grestart g)).
  { unfold grestart. rewrite !map_map. apply map_ext. intros f. simpl. rewrite fdata_clear. reflexivity. }
  constructor; simpl.
  - rewrite Mf. exact Dd.
  - rewrite Mn. exact Ds.
  - unfold grestart. rewrite Forall_map. simpl. exact Dc.
  - unfold grestart. rewrite map_map. apply ndec_const with (c := 2). reflexivity.
  - unfold grestart. rewrite Forall_map. eapply Forall_impl; [|exact Dr]. intros f [Hr Ht].
    unfold Inv.file_ok. simpl. repeat split; auto.
    + rewrite Forall_map. eapply Forall_impl; [|exact Hr]. intros r [A [B [C _]]].
      unfold Inv.rec_ok. simpl. repeat split; auto; try lia. intros X; discriminate.
    + unfold role_ok. simpl. rewrite Forall_map. apply Forall_forall. intros; reflexivity.
    + intros X; discriminate.
  - rewrite FR. reflexivity.
  - rewrite FW, Dd. exact WL.
  - reflexivity.
  - unfold grestart. rewrite Forall_map. apply Forall_forall. intros; reflexivity.
  - intros f Hf. unfold grestart in Hf. apply in_map_iff in Hf. destruct Hf as [x [<- _]]. reflexivity.
  - intros i. rewrite gknown_restart. reflexivity.
  - rewrite gknown_restart. constructor.
  - rewrite gknown_restart. constructor.
  - rewrite gknown_restart. reflexivity.
  - rewrite Dd, WL. clear. unfold grestart. induction g as [|f g IH]; simpl; auto. rewrite fdata_clear, IH. reflexivity.
  - lia.
  - constructor.
Qed.

Lemma inv_dinv st g : Inv st g -> DInv st g.
Proof.
  intros I. constructor; try apply I.
  eapply Forall_impl; [|apply (I_files _ _ _ _ I)]. intros f [A [B _]]. auto.
Qed.

(* ---------- small facts ---------- *)
Lemma NoDup_app_snoc {A} (l : list A) x : NoDup l -> ~ In x l -> NoDup (l ++ [x]).
Proof.
  induction l as [|y l IH]; simpl; intros N Hx.
  - constructor; auto.
  - inversion N; subst. constructor.
    + rewrite in_app_iff. simpl. intros [H|[H|[]]]; [tauto|]. subst. tauto.
    + apply IH; auto.
Qed.

Lemma torn_ok_nil : torn_ok [].
Proof.
  exists 0, [], 0%nat. pose proof max_chunk_small. repeat split; try (unfold two32; lia); simpl; try lia. unfold blen; simpl; lia.
Qed.

Lemma seen_noid_nolive l : Forall seen l -> nids l = 0 -> fents l = [].
Proof.
  unfold fents, nids. induction l as [|r l IH]; simpl; auto. intros H N. inversion H; subst.
  destruct (has_gid r) eqn:E; simpl in N; [lia|].
  destruct (live r) eqn:L; [rewrite (H2 L) in E; discriminate|]. auto.
Qed.

Lemma nids0_fknown n p l : nids l = 0 -> fknown n p l = [].
Proof.
  intros H. rewrite <- (fknown_length crc n p) in H. destruct (fknown n p l); auto. simpl in H. lia.
Qed.

Lemma filter_app1 {A} (P : A -> bool) l x : filter P (l ++ [x]) = filter P l ++ (if P x then [x] else []).
Proof. rewrite filter_app. reflexivity. Qed.

Lemma gknown_snoc g f : gknown (g ++ [f]) = gknown g ++ fknown (gf_name f) 0 (gf_recs f).
Proof. rewrite gknown_app. unfold Inv.gknown at 2. simpl. rewrite app_nil_r. reflexivity. Qed.

Lemma aents_snoc g f : aents (g ++ [f]) = aents g ++ fents (gf_recs f).
Proof. rewrite aents_app. unfold aents at 2. simpl. rewrite app_nil_r. reflexivity. Qed.

Lemma gtotal_snoc g f : gtotal (g ++ [f]) = gtotal g + blen (fdata f).
Proof. rewrite gtotal_app. simpl. lia. Qed.

(* ---------- writeSecond: creation of a new file ---------- *)
Definition newfile (n : Z) : gfile := GF n (RS true) 0 [] [].
Definition create (st : shard) : shard :=
  let n := s_clock st in
  set_writing (Some n) (set_open (s_open st ++ [MF n 0 0 1]) (set_clock (n + 1) (set_disk (s_disk st ++ [(n, [])]) st))).

Lemma create_inv st g :
  Inv st g -> s_writing st = None ->
  Inv (create st) (g ++ [newfile (s_clock st)]) /\ aents (g ++ [newfile (s_clock st)]) = aents g /\
  s_last_id (create st) = s_last_id st /\ s_writing (create st) = Some (s_clock st).
Proof.
  intros I W. destruct I as [Id Is Ic Ir If Ird Iw Iws Iwr Io Ik Ind Iid Iks It Il Iod].
  set (n := s_clock st). rewrite W in Iwr. simpl in Iwr.
  split; [|split; [rewrite aents_snoc; simpl; apply app_nil_r|split; reflexivity]].
  constructor; unfold create; fold n; simpl.
  - rewrite map_app, Id. reflexivity.
  - rewrite map_app. apply inc_app; simpl; auto.
    intros x y Hx [<-|[]]. apply in_map_iff in Hx. destruct Hx as [f [<- Hf]]. rewrite Forall_forall in Ic. apply Ic; auto.
  - apply Forall_app. split.
    + eapply Forall_impl; [|exact Ic]. simpl. intros; lia.
    + constructor; auto. simpl. lia.
  - rewrite map_app. apply ndec_app; simpl; auto.
    intros x y Hx [<-|[]]. apply in_map_iff in Hx. destruct Hx as [f [<- Hf]]. apply rank_le3.
  - apply Forall_app. split; auto. constructor; auto. unfold Inv.file_ok. simpl.
    repeat split; auto; try apply torn_ok_nil; try (intros _; unfold refs; simpl; lia); unfold role_ok; simpl; auto.
  - rewrite filter_app1. simpl. rewrite app_nil_r. exact Ird.
  - rewrite filter_app1. simpl. rewrite app_nil_r. exact Iw.
  - exact Iws.
  - exists g, (newfile n). auto.
  - intros f Hf. apply in_app_iff in Hf. rewrite find_open_app. destruct Hf as [Hf|[<-|[]]].
    + rewrite (Io f Hf). destruct (is_W f); auto. simpl.
      rewrite Forall_forall in Ic. specialize (Ic f Hf). fold n in Ic.
      destruct (n =? gf_name f) eqn:E; auto. apply Z.eqb_eq in E. lia.
    + simpl. rewrite (find_open_fresh (s_open st) n Iod). rewrite Z.eqb_refl. reflexivity.
  - intros i. rewrite gknown_snoc. simpl. rewrite app_nil_r. apply Ik.
  - rewrite gknown_snoc. simpl. rewrite app_nil_r. exact Ind.
  - rewrite gknown_snoc. simpl. rewrite app_nil_r. exact Iid.
  - rewrite gknown_snoc. simpl. rewrite app_nil_r. exact Iks.
  - rewrite gtotal_snoc. simpl. unfold blen. simpl. lia.
  - exact Il.
  - apply Forall_app. split.
    + eapply Forall_impl; [|exact Iod]. simpl. intros; lia.
    + constructor; auto. simpl. lia.
Qed.

(* ---------- writeSecond: rotation (unrefFile(&d.writingFile)) ---------- *)
Definition unset_wr (f : gfile) : gfile := GF (gf_name f) (RS false) (gf_next f) (gf_recs f) (gf_torn f).

Lemma rotate_inv st g w :
  Inv st g -> s_writing st = Some w ->
  exists g', Inv (set_writing None (unref st w)) g' /\ aents g' = aents g /\
             s_last_id (set_writing None (unref st w)) = s_last_id st.
Proof.
  intros I W. destruct I as [Id Is Ic Ir If Ird Iw Iws Iwr Io Ik Ind Iid Iks It Il Iod].
  rewrite W in Iwr. destruct Iwr as [g0 [f [-> [Nf [Rf Wg0]]]]]. subst w.
  assert (Of := Io f ltac:(apply in_app_iff; simpl; auto)).
  assert (HW : is_W f = false) by (unfold is_W; rewrite Rf; reflexivity).
  assert (HR : is_R f = false) by (unfold is_R; rewrite Rf; reflexivity).
  assert (Hwr : is_wr f = true) by (unfold is_wr; rewrite Rf; reflexivity).
  rewrite HW in Of.
  destruct (inc_mid _ _ _ Is) as [N1 [_ [Is' Isf]]]. rewrite app_nil_r in Is'.
  apply Forall_app in Ic. destruct Ic as [Ic0 Icf].
  apply Forall_app in If. destruct If as [If0 Iff]. inversion Iff as [|? ? Fok _]; subst. clear Iff.
  destruct Fok as [Frec [Ftorn [Frole Frefs]]]. unfold role_ok in Frole. rewrite Rf in Frole. destruct Frole as [Fseen Ft].
  rewrite map_app in Ir. apply ndec_app_inv in Ir. destruct Ir as [Ir0 [_ Irx]].
  rewrite filter_app1, HR, app_nil_r in Ird. rewrite filter_app1, HW, app_nil_r in Iw.
  assert (Rv : refs f = 1 + nids (gf_recs f)) by (unfold refs; rewrite HR, Hwr; lia).
  unfold unref. rewrite Of. cbn [mf_ref mf_size].
  destruct (refs f - 1 =? 0) eqn:E.
  - (* nothing references the file any more: it is removed *)
    apply Z.eqb_eq in E. assert (N0 : nids (gf_recs f) = 0) by lia.
    exists g0. split; [|split; [rewrite aents_snoc, (seen_noid_nolive _ Fseen N0); symmetry; apply app_nil_r|reflexivity]].
    constructor; simpl.
    + rewrite Id. rewrite (del_file_fenc crc g0 f []); auto. rewrite app_nil_r. reflexivity.
    + exact Is'.
    + exact Ic0.
    + exact Ir0.
    + exact If0.
    + exact Ird.
    + exact Iw.
    + exact Iws.
    + exact Wg0.
    + intros f' Hf'. rewrite find_open_del_other.
      * apply Io. apply in_app_iff; auto.
      * apply (name_neq_pre g0 f [] f' Is). auto.
    + intros i. rewrite Ik, gknown_snoc, (nids0_fknown _ _ _ N0), app_nil_r. reflexivity.
    + rewrite gknown_snoc, (nids0_fknown _ _ _ N0), app_nil_r in Ind. exact Ind.
    + rewrite gknown_snoc, (nids0_fknown _ _ _ N0), app_nil_r in Iid. exact Iid.
    + rewrite Iks, gknown_snoc, (nids0_fknown _ _ _ N0), app_nil_r. reflexivity.
    + rewrite It, gtotal_snoc. lia.
    + exact Il.
    + apply forall_del_open. exact Iod.
  - (* still referenced by known buckets *)
    apply Z.eqb_neq in E. pose proof (nids_nonneg (gf_recs f)).
    exists (g0 ++ [unset_wr f]). split; [|split; [rewrite !aents_snoc; reflexivity|reflexivity]].
    constructor; simpl.
    + rewrite Id, !map_app. reflexivity.
    + apply Isf. reflexivity.
    + apply Forall_app. split; auto. inversion Icf; subst. constructor; auto.
    + rewrite map_app. apply ndec_app; simpl; auto. intros x y Hx [<-|[]].
      specialize (Irx x (rank (gf_role f)) Hx (or_introl eq_refl)). rewrite Rf in Irx. exact Irx.
    + apply Forall_app. split; auto. constructor; auto. unfold Inv.file_ok. simpl.
      repeat split; auto; try (intros _; unfold refs; simpl; lia); unfold role_ok; simpl; auto.
    + rewrite filter_app1. simpl. rewrite app_nil_r. exact Ird.
    + rewrite filter_app1. simpl. rewrite app_nil_r. exact Iw.
    + exact Iws.
    + apply Forall_app. split; auto.
    + intros f' Hf'. apply in_app_iff in Hf'. destruct Hf' as [Hf'|[<-|[]]].
      * rewrite find_open_upd_other; [apply Io; apply in_app_iff; auto| |intros; reflexivity].
        apply (name_neq_pre g0 f [] f' Is). auto.
      * simpl. erewrite find_open_upd_same; [|exact Of|reflexivity].
        unfold add_ref. simpl. unfold refs at 2. simpl. rewrite Rv. do 2 f_equal. lia.
    + intros i. rewrite Ik, !gknown_snoc. reflexivity.
    + rewrite gknown_snoc in *. exact Ind.
    + rewrite gknown_snoc in *. exact Iid.
    + rewrite Iks, !gknown_snoc. reflexivity.
    + rewrite It, !gtotal_snoc. reflexivity.
    + exact Il.
    + apply forall_upd_open; auto.
Qed.

(* ---------- PutBucket: the two writes and the bookkeeping ---------- *)
Definition app_rec (f : gfile) (r : grec) : gfile :=
  GF (gf_name f) (gf_role f) (gf_next f) (gf_recs f ++ [r]) (gf_torn f).

Definition append_state (st1 : shard) (w : Z) (m : mfile) (time : Z) (data : bytes) : shard :=
  let len := blen data in
  let pos := mf_size m in
  let rec := record_bytes crc time data in
  let id := s_last_id st1 + 1 in
  let st2 := set_disk (upd_file w (fun d => write_at d pos rec) (s_disk st1)) st1 in
  let st3 := set_open (upd_open w (fun m => MF (mf_name m) (mf_next m) (mf_size m + 20 + len) (mf_ref m + 1)) (s_open st2)) st2 in
  let st4 := set_total (s_total st3 + (20 + len)) st3 in
  let st5 := set_known_size (s_known_size st4 + (len + 20)) st4 in
  set_known (s_known st5 ++ [(id, BK w pos time len (crc data))]) (set_last_id id st5).

Lemma fresh_id (k : list (Z * bucket)) last : Forall (fun p => 0 < fst p <= last) k -> ~ In (last + 1) (map fst k).
Proof.
  intros H Hin. apply in_map_iff in Hin. destruct Hin as [p [E Hp]]. rewrite Forall_forall in H. specialize (H p Hp). lia.
Qed.

Lemma append_inv st g w t data :
  Inv st g -> s_writing st = Some w -> 0 <= t < two32 -> blen data <= max_chunk_size ->
  exists m, find_open w (s_open st) = Some m /\
  exists g', Inv (append_state st w m t data) g' /\
             aents g' = aents g ++ [AE (Some (s_last_id st + 1)) t data].
Proof.
  intros I W Ht Hd. destruct I as [Id Is Ic Ir If Ird Iw Iws Iwr Io Ik Ind Iid Iks It Il Iod].
  rewrite W in Iwr. destruct Iwr as [g0 [f [-> [Nf [Rf Wg0]]]]]. subst w.
  assert (Of := Io f ltac:(apply in_app_iff; simpl; auto)).
  assert (HW : is_W f = false) by (unfold is_W; rewrite Rf; reflexivity).
  assert (HR : is_R f = false) by (unfold is_R; rewrite Rf; reflexivity).
  assert (Hwr : is_wr f = true) by (unfold is_wr; rewrite Rf; reflexivity).
  rewrite HW in Of. eexists; split; [exact Of|].
  destruct (inc_mid _ _ _ Is) as [N1 [_ [Is' Isf]]].
  assert (Ic' := Ic). apply Forall_app in Ic'. destruct Ic' as [Ic0 Icf].
  assert (If' := If). apply Forall_app in If'. destruct If' as [If0 Iff]. inversion Iff as [|? ? Fok _]; subst. clear Iff.
  destruct Fok as [Frec [Ftorn [Frole Frefs]]]. unfold role_ok in Frole. rewrite Rf in Frole. destruct Frole as [Fseen Ft].
  set (id := s_last_id st + 1).
  set (r := GR magic_good (Some id) t data).
  set (f' := app_rec f r).
  assert (Lr : live r = true) by reflexivity.
  assert (Er : enc_rec r = record_bytes crc t data) by reflexivity.
  assert (Ef : fdata f' = fdata f ++ record_bytes crc t data).
  { unfold Inv.fdata, f'. simpl. rewrite Ft, !app_nil_r, enc_recs_app. rewrite enc_recs_cons, Er. simpl. rewrite app_nil_r. reflexivity. }
  assert (Br : blen (record_bytes crc t data) = 20 + blen data).
  { rewrite <- Er, blen_enc_rec. reflexivity. }
  assert (Bf : blen (fdata f') = blen (fdata f) + (20 + blen data)) by (rewrite Ef, blen_app, Br; reflexivity).
  assert (Pf : blen (fdata f) = osum (gf_recs f)).
  { rewrite blen_fdata, Ft. unfold blen at 1. simpl. lia. }
  assert (Kf : fknown (gf_name f') 0 (gf_recs f') =
               fknown (gf_name f) 0 (gf_recs f) ++ [(id, BK (gf_name f) (blen (fdata f)) t (blen data) (crc data))]).
  { unfold f'. simpl. rewrite fknown_app. simpl. rewrite Pf. reflexivity. }
  assert (Nf' : nids (gf_recs f') = nids (gf_recs f) + 1).
  { unfold f'. simpl. rewrite nids_app. unfold nids at 2. simpl. lia. }
  assert (Af : fents (gf_recs f') = fents (gf_recs f) ++ [AE (Some id) t data]).
  { unfold f'. simpl. rewrite fents_app. unfold fents at 2. simpl. try rewrite Lr. reflexivity. }
  assert (Fr : ~ In id (map fst (gknown (g0 ++ [f])))) by (apply fresh_id; exact Iid).
  assert (Rf' : refs f' = refs f + 1).
  { unfold refs. rewrite Nf'. unfold is_R, is_wr, f'. simpl. lia. }
  assert (HW' : is_W f' = false) by (unfold is_W, f'; simpl; rewrite Rf; reflexivity).
  exists (g0 ++ [f']). split; [|rewrite !aents_snoc, Af, app_assoc; reflexivity].
  unfold append_state. cbn [mf_size]. fold id.
  constructor; ssimpl.
  - rewrite Id. apply upd_file_fenc; auto. rewrite write_at_end. symmetry. exact Ef.
  - apply Isf. reflexivity.
  - apply Forall_app. split; auto. inversion Icf; subst. constructor; auto.
  - unfold f'. rewrite map_app in *. simpl in *. exact Ir.
  - apply Forall_app. split; auto. constructor; auto. unfold Inv.file_ok. split; [|split; [|split]].
    + unfold f'. simpl. apply Forall_app. split; auto. constructor; auto. unfold Inv.rec_ok. simpl. repeat split; auto; lia.
    + exact Ftorn.
    + unfold role_ok, f'. simpl. rewrite Rf. split; auto. apply Forall_app. split; auto. constructor; auto. intros _. reflexivity.
    + intros _. rewrite Rf'. specialize (Frefs HW). lia.
  - rewrite filter_app1 in *. change (is_R f') with (is_R f). rewrite HR in *. exact Ird.
  - rewrite filter_app1 in *. rewrite HW', HW in *. exact Iw.
  - exact Iws.
  - rewrite W. exists g0, f'. auto.
  - intros x Hx. apply in_app_iff in Hx. destruct Hx as [Hx|[<-|[]]].
    + rewrite find_open_upd_other; [apply Io; apply in_app_iff; auto| |intros; reflexivity].
      apply (name_neq_pre g0 f [] x Is). auto.
    + change (gf_name f') with (gf_name f). change (gf_next f') with (gf_next f). rewrite HW', Bf, Rf'.
      erewrite find_open_upd_same; [|exact Of|reflexivity]. cbn [mf_name mf_next mf_size mf_ref]. f_equal. f_equal; lia.
  - intros i. rewrite gknown_snoc, Kf, app_assoc, !find_known_app2, Ik, gknown_snoc, find_known_app2. reflexivity.
  - rewrite gknown_snoc, Kf, app_assoc, <- gknown_snoc, map_app. simpl.
    apply NoDup_app_snoc; auto.
  - rewrite gknown_snoc, Kf, app_assoc, <- gknown_snoc. apply Forall_app. split.
    + eapply Forall_impl; [|exact Iid]. simpl. intros; lia.
    + constructor; auto. simpl. unfold id. lia.
  - rewrite Iks, !gknown_snoc, Kf, !ksize_app.
    change (ksize [(id, BK (gf_name f) (blen (fdata f)) t (blen data) (crc data))]) with (blen data + 20 + 0). ring.
  - rewrite It, !gtotal_snoc, Bf. ring.
  - unfold id. lia.
  - apply forall_upd_open; auto.
Qed.

(* ---------- writeSecond up to the writes ---------- *)
Lemma prepare_inv st g len age :
  Inv st g ->
  exists g1 w, Inv (prepare_write st len age) g1 /\ aents g1 = aents g /\
               s_last_id (prepare_write st len age) = s_last_id st /\ s_writing (prepare_write st len age) = Some w.
Proof.
  intros I. unfold prepare_write.
  destruct (rotate_needed st len age) eqn:R; destruct (s_writing st) as [w|] eqn:W.
  - destruct (rotate_inv st g w I W) as [g' [I' [A' L']]].
    set (st1 := set_writing None (unref st w)) in *.
    assert (W1 : s_writing st1 = None) by reflexivity. rewrite W1.
    destruct (create_inv st1 g' I' W1) as [I2 [A2 [L2 W2]]].
    exists (g' ++ [newfile (s_clock st1)]), (s_clock st1).
    split; [exact I2|]. split; [congruence|]. split; [transitivity (s_last_id st1); [exact L2|exact L']|exact W2].
  - unfold rotate_needed in R. rewrite W in R. discriminate.
  - try rewrite W. cbv iota. exists g, w. auto.
  - try rewrite W. cbv iota. destruct (create_inv st g I W) as [I2 [A2 [L2 W2]]].
    exists (g ++ [newfile (s_clock st)]), (s_clock st).
    split; [exact I2|]. split; [exact A2|]. split; [exact L2|exact W2].
Qed.

(* PutBucket *)
Lemma put_inv st g t data age :
  Inv st g -> 0 <= t < two32 ->
  let '(st', r) := put crc st t data age in
  let '(s', r') := a_put (abs st g) t data in
  r = r' /\ exists g', Inv st' g' /\ abs st' g' = s'.
Proof.
  intros I Ht. unfold put, put_gen, a_put. simpl a_last.
  destruct (max_chunk_size <? blen data) eqn:Big.
  - split; auto. exists g. auto.
  - apply Z.ltb_ge in Big.
    destruct (prepare_inv st g (blen data) age I) as [g1 [w [I1 [A1 [L1 W1]]]]].
    rewrite W1.
    destruct (append_inv _ g1 w t data I1 W1 Ht Big) as [m [Om [g' [I' A']]]].
    rewrite Om. split; [rewrite L1; reflexivity|].
    exists g'. split; [exact I'|]. unfold abs. rewrite A', A1. simpl. rewrite L1. reflexivity.
Qed.

(* ---------- a put torn after k bytes, then the start ---------- *)
Definition set_torn (f : gfile) (tl : bytes) : gfile := GF (gf_name f) (gf_role f) (gf_next f) (gf_recs f) tl.

Lemma record_bytes_length t data : length (record_bytes crc t data) = (20 + length data)%nat.
Proof. unfold record_bytes. rewrite app_length, enc_header_length. reflexivity. Qed.

Lemma put_torn_inv st g t data age k :
  Inv st g -> 0 <= t < two32 ->
  exists g', Inv (put_torn crc st t data age k) g' /\
             abs (put_torn crc st t data age k) g' =
             a_restart (if (max_chunk_size <? blen data) || (k <? 20 + blen data) then abs st g else fst (a_put (abs st g) t data)).
Proof.
  intros I Ht. unfold put_torn, put_gen, a_put.
  destruct (max_chunk_size <? blen data) eqn:Big; cbn [orb].
  - simpl fst. destruct (restart_inv st g (inv_dinv _ _ I)) as [Ir Ar]. exists (grestart g). split; auto.
    unfold abs. rewrite Ar. reflexivity.
  - apply Z.ltb_ge in Big.
    destruct (prepare_inv st g (blen data) age I) as [g1 [w [I1 [A1 [L1 W1]]]]].
    rewrite W1. set (st1 := prepare_write st (blen data) age) in *.
    assert (D1 := inv_dinv _ _ I1). destruct D1 as [Dd Ds Dc Dr].
    destruct I1 as [Id Is Ic Irk If Ird Iw Iws Iwr Io Ik Ind Iid Iks It Il Iod].
    rewrite W1 in Iwr. destruct Iwr as [g0 [f [-> [Nf [Rf Wg0]]]]]. subst w.
    assert (Of := Io f ltac:(apply in_app_iff; simpl; auto)).
    assert (HW : is_W f = false) by (unfold is_W; rewrite Rf; reflexivity).
    rewrite HW in Of. rewrite Of. cbn [mf_size fst].
    destruct (inc_mid _ _ _ Is) as [N1 [_ [Is' Isf]]].
    assert (If' := If). apply Forall_app in If'. destruct If' as [If0 Iff]. inversion Iff as [|? ? Fok _]; subst. clear Iff.
    destruct Fok as [Frec [Ftorn [Frole Frefs]]]. unfold role_ok in Frole. rewrite Rf in Frole. destruct Frole as [Fseen Ft].
    apply Forall_app in Dr. destruct Dr as [Dr0 _]. apply Forall_app in Dc. destruct Dc as [Dc0 Dcf].
    set (rec := record_bytes crc t data).
    destruct (k <? 20 + blen data) eqn:K.
    + (* torn: a proper prefix of the record stays at the end of the file *)
      apply Z.ltb_lt in K.
      assert (Kn : (Z.to_nat k < 20 + length data)%nat) by (unfold blen in K; lia).
      set (f' := set_torn f (firstn (Z.to_nat k) rec)).
      assert (Ef : fdata f' = fdata f ++ firstn (Z.to_nat k) rec).
      { unfold Inv.fdata, f'. simpl. rewrite Ft, app_nil_r. reflexivity. }
      assert (DI : DInv (set_disk (upd_file (gf_name f) (fun d => write_at d (blen (fdata f)) (firstn (Z.to_nat k) rec)) (s_disk st1)) st1) (g0 ++ [f'])).
      { constructor; ssimpl.
        - rewrite Id. apply upd_file_fenc; auto. rewrite write_at_end. symmetry. exact Ef.
        - apply Isf. reflexivity.
        - apply Forall_app. split; auto. inversion Dcf; subst. constructor; auto.
        - apply Forall_app. split; auto. constructor; auto. split; [exact Frec|].
          exists t, data, (Z.to_nat k). repeat split; auto; lia. }
      destruct (restart_inv _ _ DI) as [Ir Ar]. eexists. split; [exact Ir|].
      unfold abs. rewrite Ar. simpl. f_equal.
      rewrite !aents_snoc. change (gf_recs f') with (gf_recs f). rewrite <- aents_snoc, A1. reflexivity.
    + (* every byte reached the disk: the second is there *)
      apply Z.ltb_ge in K.
      assert (Fk : firstn (Z.to_nat k) rec = rec).
      { apply firstn_all2. unfold rec. rewrite record_bytes_length. unfold blen in K. lia. }
      rewrite Fk.
      set (r := GR magic_good None t data). set (f' := app_rec f r).
      assert (Er : enc_rec r = rec) by reflexivity.
      assert (Ef : fdata f' = fdata f ++ rec).
      { unfold Inv.fdata, f'. simpl. rewrite Ft, !app_nil_r, enc_recs_app, enc_recs_cons, Er. simpl. rewrite app_nil_r. reflexivity. }
      assert (DI : DInv (set_disk (upd_file (gf_name f) (fun d => write_at d (blen (fdata f)) rec) (s_disk st1)) st1) (g0 ++ [f'])).
      { constructor; ssimpl.
        - rewrite Id. apply upd_file_fenc; auto. rewrite write_at_end. symmetry. exact Ef.
        - apply Isf. reflexivity.
        - apply Forall_app. split; auto. inversion Dcf; subst. constructor; auto.
        - apply Forall_app. split; auto. constructor; auto. split; [|exact Ftorn].
          unfold f'. simpl. apply Forall_app. split; auto. constructor; auto.
          unfold Inv.rec_ok. simpl. repeat split; auto; try lia; try (intros X; discriminate). }
      destruct (restart_inv _ _ DI) as [Ir Ar]. eexists. split; [exact Ir|].
      unfold abs. rewrite Ar. unfold a_restart. cbn [a_ents a_last fst]. f_equal.
      rewrite !aents_snoc. unfold f'. cbn [gf_recs app_rec]. rewrite fents_app, app_assoc, <- aents_snoc, A1, !map_app. reflexivity.
Qed.

(* ---------- locating a known bucket in the ghost ---------- *)
Lemma fknown_split n l : forall p i b, find_known i (fknown n p l) = Some b ->
  exists l1 r l2, l = l1 ++ r :: l2 /\ gr_id r = Some i /\
                  b = BK n (p + osum l1) (gr_time r) (blen (gr_body r)) (crc (gr_body r)) /\
                  find_known i (fknown n p l1) = None.
Proof.
  induction l as [|r l IH]; intros p i b H; [discriminate|].
  cbn [Inv.fknown] in H. rewrite find_known_app2 in H.
  destruct (gr_id r) as [j|] eqn:E.
  - simpl in H. destruct (j =? i) eqn:J.
    + apply Z.eqb_eq in J. subst j. inversion H; subst. exists [], r, l. simpl. rewrite Z.add_0_r. auto.
    + destruct (IH _ _ _ H) as [l1 [r' [l2 [-> [Ei [-> N]]]]]].
      exists (r :: l1), r', l2. repeat split; auto.
      * simpl. f_equal. lia.
      * cbn [Inv.fknown]. rewrite E, find_known_app2. simpl. rewrite J. exact N.
  - simpl in H. destruct (IH _ _ _ H) as [l1 [r' [l2 [-> [Ei [-> N]]]]]].
    exists (r :: l1), r', l2. repeat split; auto.
    + simpl. f_equal. lia.
    + cbn [Inv.fknown]. rewrite E. simpl. exact N.
Qed.

Lemma known_split g : forall i b, find_known i (gknown g) = Some b ->
  exists pre f post l1 r l2, g = pre ++ f :: post /\ gf_recs f = l1 ++ r :: l2 /\ gr_id r = Some i /\
    b = BK (gf_name f) (osum l1) (gr_time r) (blen (gr_body r)) (crc (gr_body r)) /\
    find_known i (gknown pre) = None /\ find_known i (fknown (gf_name f) 0 l1) = None.
Proof.
  induction g as [|f g IH]; intros i b H; [discriminate|].
  change (gknown (f :: g)) with (fknown (gf_name f) 0 (gf_recs f) ++ gknown g) in H.
  rewrite find_known_app2 in H.
  destruct (find_known i (fknown (gf_name f) 0 (gf_recs f))) as [b'|] eqn:F.
  - inversion H; subst b'. destruct (fknown_split _ _ _ _ _ F) as [l1 [r [l2 [E [Ei [-> N]]]]]].
    exists [], f, g, l1, r, l2. simpl. repeat split; auto.
  - destruct (IH _ _ H) as [pre [f' [post [l1 [r [l2 [-> [E [Ei [-> [N1 N2]]]]]]]]]]].
    exists (f :: pre), f', post, l1, r, l2. repeat split; auto.
    change (gknown (f :: pre)) with (fknown (gf_name f) 0 (gf_recs f) ++ gknown pre).
    rewrite find_known_app2, F. exact N1.
Qed.

(* removing the entry of a key from an association list without duplicate keys *)
Lemma assoc_remove (A B : list (Z * bucket)) i b :
  NoDup (map fst (A ++ (i, b) :: B)) ->
  NoDup (map fst (A ++ B)) /\
  (forall j, find_known j (A ++ B) = if j =? i then None else find_known j (A ++ (i, b) :: B)) /\
  ksize (A ++ B) = ksize (A ++ (i, b) :: B) - (b_size b + 20).
Proof.
  intros N. rewrite map_app in N. simpl in N.
  assert (N' := NoDup_remove_1 _ _ _ N). assert (Ni := NoDup_remove_2 _ _ _ N).
  rewrite <- map_app in N', Ni.
  split; [exact N'|]. split.
  - intros j. destruct (j =? i) eqn:J.
    + apply Z.eqb_eq in J. subst. apply find_known_none. exact Ni.
    + rewrite !find_known_app2. destruct (find_known j A); auto. simpl. rewrite Z.eqb_sym, J. reflexivity.
  - rewrite !ksize_app. simpl. lia.
Qed.

(* ---------- eraseBucket ---------- *)
Definition killm (m i : Z) (r : grec) : grec :=
  match gr_id r with
  | Some j => if j =? i then GR m None (gr_time r) (gr_body r) else r
  | None => r
  end.
Definition map_recs (F : grec -> grec) (f : gfile) : gfile :=
  GF (gf_name f) (gf_role f) (gf_next f) (map F (gf_recs f)) (gf_torn f).

Lemma killm_noid m i l n p : find_known i (fknown n p l) = None -> map (killm m i) l = l.
Proof.
  revert p. induction l as [|r l IH]; intros p H; auto. cbn [Inv.fknown] in H. rewrite find_known_app2 in H.
  simpl. destruct (gr_id r) as [j|] eqn:E.
  - simpl in H. destruct (j =? i) eqn:J; [discriminate|]. f_equal.
    + unfold killm. rewrite E, J. reflexivity.
    + apply (IH (p + rsize r)). exact H.
  - simpl in H. f_equal.
    + unfold killm. rewrite E. reflexivity.
    + apply (IH (p + rsize r)). exact H.
Qed.

Lemma rsize_killm m i r : rsize (killm m i r) = rsize r.
Proof. unfold killm. destruct (gr_id r) as [j|]; auto. destruct (j =? i); auto. Qed.

Lemma osum_map_killm m i l : osum (map (killm m i) l) = osum l.
Proof. induction l; simpl; auto. rewrite rsize_killm, IHl. reflexivity. Qed.

Lemma fents_cons_live r l : live r = true -> fents (r :: l) = to_ent r :: fents l.
Proof. intros H. unfold fents. cbn [filter]. rewrite H. reflexivity. Qed.
Lemma fents_cons_dead r l : live r = false -> fents (r :: l) = fents l.
Proof. intros H. unfold fents. cbn [filter]. rewrite H. reflexivity. Qed.

Lemma noid_filter_fents i l n p :
  find_known i (fknown n p l) = None -> filter (fun e => negb (has_id i e)) (fents l) = fents l.
Proof.
  revert p. unfold fents. induction l as [|r l IH]; intros p H; auto. cbn [Inv.fknown] in H. rewrite find_known_app2 in H.
  assert (Hr : find_known i (fknown n (p + rsize r) l) = None).
  { destruct (gr_id r) as [j|]; simpl in H; auto. destruct (j =? i); [discriminate|auto]. }
  simpl. destruct (live r); simpl; [|eapply IH; eauto].
  assert (Hh : has_id i (to_ent r) = false).
  { unfold has_id, to_ent. simpl. destruct (gr_id r) as [j|]; auto. simpl in H. destruct (j =? i); [discriminate|auto]. }
  rewrite Hh. simpl. f_equal. eapply IH; eauto.
Qed.

Lemma noid_filter_aents i g :
  find_known i (gknown g) = None -> filter (fun e => negb (has_id i e)) (aents g) = aents g.
Proof.
  induction g as [|f g IH]; intros H; auto.
  change (gknown (f :: g)) with (fknown (gf_name f) 0 (gf_recs f) ++ gknown g) in H.
  change (aents (f :: g)) with (fents (gf_recs f) ++ aents g).
  rewrite find_known_app2 in H. destruct (find_known i (fknown (gf_name f) 0 (gf_recs f))) eqn:F; [discriminate|].
  rewrite filter_app, (noid_filter_fents _ _ _ _ F), IH; auto.
Qed.

Lemma noid_find_aents i g : find_known i (gknown g) = None -> find (has_id i) (aents g) = None.
Proof.
  intros H. destruct (find (has_id i) (aents g)) as [e|] eqn:F; auto.
  apply find_some in F. destruct F as [Hin He].
  assert (In e (filter (fun e => negb (has_id i e)) (aents g))) by (rewrite noid_filter_aents; auto).
  apply filter_In in H0. rewrite He in H0. destruct H0; discriminate.
Qed.

Lemma forall_mid {A} (P : A -> Prop) pre x post : Forall P (pre ++ x :: post) <-> Forall P pre /\ P x /\ Forall P post.
Proof.
  rewrite Forall_app. split.
  - intros [H1 H2]. inversion H2; subst. auto.
  - intros [H1 [H2 H3]]. auto.
Qed.

Lemma wr_ok_replace w pre f post f' :
  wr_ok w (pre ++ f :: post) -> gf_name f' = gf_name f -> gf_role f' = gf_role f -> wr_ok w (pre ++ f' :: post).
Proof.
  intros H En Er. assert (Ew : is_wr f' = is_wr f) by (unfold is_wr; rewrite Er; reflexivity).
  destruct w as [n|]; simpl in *.
  - destruct H as [g0 [fw [E [Nw [Rw Fw]]]]].
    destruct post as [|p0 post0].
    + apply app_inj_tail in E. destruct E as [-> ->]. exists g0, f'. repeat split; auto; congruence.
    + destruct (exists_last (l := p0 :: post0) ltac:(discriminate)) as [post' [x Ep]]. rewrite Ep in *.
      rewrite app_comm_cons, app_assoc in E. apply app_inj_tail in E. destruct E as [<- ->].
      exists (pre ++ f' :: post'), fw. rewrite app_comm_cons, app_assoc. repeat split; auto.
      apply forall_mid in Fw. apply forall_mid. rewrite Ew. exact Fw.
  - apply forall_mid in H. apply forall_mid. rewrite Ew. exact H.
Qed.

Lemma wr_ok_delete w pre f post :
  wr_ok w (pre ++ f :: post) -> is_wr f = false -> wr_ok w (pre ++ post).
Proof.
  intros H Ew. destruct w as [n|]; simpl in *.
  - destruct H as [g0 [fw [E [Nw [Rw Fw]]]]].
    destruct post as [|p0 post0].
    + apply app_inj_tail in E. destruct E as [-> ->]. unfold is_wr in Ew. rewrite Rw in Ew. discriminate.
    + destruct (exists_last (l := p0 :: post0) ltac:(discriminate)) as [post' [x Ep]]. rewrite Ep in *.
      rewrite app_comm_cons, app_assoc in E. apply app_inj_tail in E. destruct E as [<- ->].
      exists (pre ++ post'), fw. rewrite app_assoc. repeat split; auto.
      apply forall_mid in Fw. apply Forall_app. tauto.
  - apply forall_mid in H. apply Forall_app. tauto.
Qed.

Lemma filter_mid_out {A} (P : A -> bool) pre x post : P x = false -> filter P (pre ++ x :: post) = filter P pre ++ filter P post.
Proof. intros H. rewrite filter_app. simpl. rewrite H. reflexivity. Qed.

Lemma filter_mid_in {A} (P : A -> bool) pre x post : P x = true -> filter P (pre ++ x :: post) = filter P pre ++ x :: filter P post.
Proof. intros H. rewrite filter_app. simpl. rewrite H. reflexivity. Qed.

Lemma names_filter_replace (P : gfile -> bool) pre f post f' :
  P f' = P f -> gf_name f' = gf_name f ->
  map gf_name (filter P (pre ++ f' :: post)) = map gf_name (filter P (pre ++ f :: post)).
Proof.
  intros HP HN. destruct (P f) eqn:E.
  - rewrite !filter_mid_in by congruence. rewrite !map_app. simpl. rewrite HN. reflexivity.
  - rewrite !filter_mid_out by congruence. reflexivity.
Qed.

(* the record of a known bucket, rewritten with another magic and without id *)
Definition set_recs (f : gfile) (l : list grec) : gfile := GF (gf_name f) (gf_role f) (gf_next f) l (gf_torn f).

Lemma fdata_set_magic f l1 r l2 k :
  gf_recs f = l1 ++ r :: l2 -> gr_magic r = magic_good -> 0 <= k <= 4 ->
  write_at (fdata f) (osum l1) (firstn (Z.to_nat k) magic_bytes_deleted) =
  fdata (set_recs f (l1 ++ GR (if k <=? 2 then magic_good else if k =? 3 then magic_torn_deleted else magic_deleted) None (gr_time r) (gr_body r) :: l2)).
Proof.
  intros E M K. unfold Inv.fdata. cbn [gf_recs gf_torn set_recs]. rewrite E, !enc_recs_app, !enc_recs_cons. unfold Inv.enc_rec. cbn [gr_magic gr_time gr_body].
  rewrite M, <- (blen_enc_recs crc l1), <- !app_assoc.
  rewrite erase_overwrite_torn by exact K. reflexivity.
Qed.

Lemma erase_inv st g id b :
  Inv st g -> find_known id (gknown g) = Some b ->
  exists g', Inv (erase st id) g' /\ aents g' = filter (fun e => negb (has_id id e)) (aents g) /\
             s_last_id (erase st id) = s_last_id st.
Proof.
  intros I K.
  destruct (known_split g id b K) as [pre [f [post [l1 [r [l2 [-> [El [Ei [Eb [Kpre Kl1]]]]]]]]]]].
  destruct I as [Id Is Ic Ir If Ird Iw Iws Iwr Io Ik Ind Iid Iks It Il Iod].
  assert (Of := Io f ltac:(apply in_mid; auto)).
  destruct (inc_mid _ _ _ Is) as [N1 [N2 [Is' Isf]]].
  assert (If' := If). apply forall_mid in If'. destruct If' as [If0 [Fok If1]].
  destruct Fok as [Frec [Ftorn [Frole Frefs]]].
  assert (Rr : rec_ok r) by (rewrite El in Frec; apply forall_mid in Frec; tauto).
  destruct Rr as [_ [Rt [Rb Rl]]].
  assert (Hg : has_gid r = true) by (unfold has_gid; rewrite Ei; reflexivity).
  assert (Hm : gr_magic r = magic_good) by (apply Z.eqb_eq; apply Rl; exact Hg).
  assert (HW : is_W f = false).
  { destruct (is_W f) eqn:W; auto. unfold is_W in W. unfold role_ok in Frole. destruct (gf_role f); try discriminate.
    rewrite El in Frole. apply forall_mid in Frole. destruct Frole as [_ [U _]]. unfold unseen in U. congruence. }
  rewrite HW in Of.
  set (n := gf_name f) in *.
  set (r' := GR magic_deleted None (gr_time r) (gr_body r)).
  set (f' := set_recs f (l1 ++ r' :: l2)).
  assert (E1 : write_at (fdata f) (osum l1) magic_bytes_deleted = fdata f').
  { change magic_bytes_deleted with (firstn (Z.to_nat 4) magic_bytes_deleted). rewrite (fdata_set_magic f l1 r l2 4 El Hm) by lia. reflexivity. }
  assert (E2 : blen (fdata f') = blen (fdata f)).
  { rewrite !blen_fdata. unfold f'. simpl. rewrite El, !osum_app. reflexivity. }
  assert (Kf : fknown n 0 (gf_recs f) = fknown n 0 l1 ++ (id, b) :: fknown n (osum l1 + rsize r) l2).
  { rewrite El, fknown_app. simpl. rewrite Ei, Eb. reflexivity. }
  assert (Kf' : fknown n 0 (gf_recs f') = fknown n 0 l1 ++ fknown n (osum l1 + rsize r) l2).
  { unfold f'. simpl. rewrite fknown_app. reflexivity. }
  assert (Nn : nids (gf_recs f') = nids (gf_recs f) - 1).
  { unfold f'. simpl. rewrite El, !nids_app. unfold nids at 2 4. simpl. rewrite Hg. simpl length. lia. }
  set (A := gknown pre ++ fknown n 0 l1). set (B := fknown n (osum l1 + rsize r) l2 ++ gknown post).
  assert (GA : gknown (pre ++ f :: post) = A ++ (id, b) :: B).
  { rewrite gknown_app. change (gknown (f :: post)) with (fknown n 0 (gf_recs f) ++ gknown post).
    rewrite Kf. unfold A, B. rewrite <- !app_assoc. reflexivity. }
  assert (GA' : gknown (pre ++ f' :: post) = A ++ B).
  { rewrite gknown_app. change (gknown (f' :: post)) with (fknown n 0 (gf_recs f') ++ gknown post).
    rewrite Kf'. unfold A, B. rewrite <- !app_assoc. reflexivity. }
  rewrite GA in *. destruct (assoc_remove A B id b Ind) as [ND [FK KS]].
  assert (NB : ~ In id (map fst (A ++ B))).
  { rewrite map_app in Ind. simpl in Ind. apply NoDup_remove_2 in Ind. rewrite map_app. exact Ind. }
  assert (Kl2 : find_known id (fknown n (osum l1 + rsize r) l2) = None).
  { apply find_known_none. intros X. apply NB. unfold B. rewrite !map_app, !in_app_iff. auto. }
  assert (Kpost : find_known id (gknown post) = None).
  { apply find_known_none. intros X. apply NB. unfold B. rewrite !map_app, !in_app_iff. auto. }
  assert (Em : gf_recs f' = map (killm magic_deleted id) (gf_recs f)).
  { unfold f'. simpl. rewrite El, map_app. simpl. rewrite (killm_noid _ _ _ _ _ Kl1), (killm_noid _ _ _ _ _ Kl2).
    unfold killm at 1. rewrite Ei, Z.eqb_refl. reflexivity. }
  assert (Lr : live r = true) by (unfold live; rewrite Hm; reflexivity).
  assert (Hi : has_id id (to_ent r) = true) by (unfold has_id, to_ent; simpl; rewrite Ei; apply Z.eqb_refl).
  assert (Ae : aents (pre ++ f' :: post) = filter (fun e => negb (has_id id e)) (aents (pre ++ f :: post))).
  { rewrite !aents_app. change (aents (f' :: post)) with (fents (gf_recs f') ++ aents post).
    change (aents (f :: post)) with (fents (gf_recs f) ++ aents post).
    rewrite !filter_app, (noid_filter_aents _ _ Kpre), (noid_filter_aents _ _ Kpost).
    change (gf_recs f') with (l1 ++ r' :: l2). rewrite El, !fents_app, !filter_app, (noid_filter_fents _ _ _ _ Kl1).
    rewrite (fents_cons_live r l2 Lr), (fents_cons_dead r' l2 eq_refl).
    cbn [filter]. rewrite Hi. cbn [negb]. rewrite (noid_filter_fents _ _ _ _ Kl2). reflexivity. }
  assert (Rf' : refs f' = refs f - 1) by (unfold refs; rewrite Nn; unfold f', is_R, is_wr; simpl; lia).
  assert (Rok : Forall rec_ok (gf_recs f')).
  { rewrite Em. rewrite Forall_map. eapply Forall_impl; [|exact Frec]. intros x Hx. unfold killm.
    destruct (gr_id x) as [j|]; auto. destruct (j =? id); auto. destruct Hx as [_ [X1 [X2 _]]].
    unfold Inv.rec_ok. simpl. repeat split; auto; try lia; try (intros; discriminate); try (right; reflexivity). }
  assert (SK : forall x, seen x -> seen (killm magic_deleted id x)).
  { intros x Hx. unfold killm. destruct (gr_id x) as [j|]; auto. destruct (j =? id); auto. intros L. discriminate L. }
  assert (UK : forall x, unseen x -> unseen (killm magic_deleted id x)).
  { intros x Hx. unfold killm. unfold unseen in Hx. rewrite Hx. exact Hx. }
  assert (Role : role_ok f').
  { unfold role_ok in *. change (gf_role f') with (gf_role f). change (gf_torn f') with (gf_torn f). change (gf_next f') with (gf_next f).
    rewrite Em. destruct (gf_role f).
    - rewrite Forall_map. eapply Forall_impl; [|exact Frole]. exact SK.
    - destruct Frole as [Q1 [Q2 [Q3 Q4]]]. rewrite map_length, firstn_map, skipn_map, !Forall_map, osum_map_killm.
      repeat split; auto; eapply Forall_impl; eauto.
    - rewrite Forall_map. eapply Forall_impl; [|exact Frole]. exact UK.
    - destruct Frole as [Q1 Q2]. split; auto. rewrite Forall_map. eapply Forall_impl; [|exact Q1]. exact SK. }
  pose proof (nids_nonneg (gf_recs f')) as Nnn.
  assert (K0 : find_known id (s_known st) = Some b) by (rewrite Ik; exact K).
  assert (Bfile : b_file b = n) by (rewrite Eb; reflexivity).
  assert (Bpos : b_pos b = osum l1) by (rewrite Eb; reflexivity).
  assert (Bsize : b_size b = blen (gr_body r)) by (rewrite Eb; reflexivity).
  assert (KN : forall i, find_known i (del_known id (s_known st)) = find_known i (A ++ B)).
  { intros i. rewrite FK. destruct (i =? id) eqn:J.
    - apply Z.eqb_eq in J. subst. apply find_known_del.
    - apply Z.eqb_neq in J. rewrite find_known_del_other by exact J. apply Ik. }
  assert (IDR : Forall (fun p => 0 < fst p <= s_last_id st) (A ++ B)).
  { apply forall_mid in Iid. apply Forall_app. tauto. }
  assert (Rnn : 0 <= refs f') by (unfold refs; destruct (is_R f'), (is_wr f'); lia).
  unfold erase. rewrite K0, Bfile, Bpos, Bsize.
  assert (D1 : upd_file n (fun d => write_at d (osum l1) magic_bytes_deleted) (s_disk st) = map fenc (pre ++ f' :: post)).
  { rewrite Id. apply upd_file_fenc; auto. }
  unfold unref. ssimpl. rewrite Of. cbn [mf_ref mf_size].
  destruct (refs f - 1 =? 0) eqn:E.
  - (* last reference: the file is removed *)
    apply Z.eqb_eq in E.
    assert (HR : is_R f = false) by (unfold refs in *; destruct (is_R f), (is_wr f); auto; lia).
    assert (Hwr : is_wr f = false) by (unfold refs in *; destruct (is_R f), (is_wr f); auto; lia).
    assert (N0 : nids (gf_recs f') = 0) by (unfold refs in *; rewrite HR, Hwr in *; lia).
    assert (Fe : fents (gf_recs f') = []).
    { apply seen_noid_nolive; auto. unfold role_ok in Role. change (gf_role f') with (gf_role f) in Role.
      unfold is_R, is_W in *. destruct (gf_role f); try discriminate; tauto. }
    assert (GD : gknown (pre ++ post) = A ++ B).
    { rewrite <- GA', !gknown_app. change (gknown (f' :: post)) with (fknown n 0 (gf_recs f') ++ gknown post).
      rewrite (nids0_fknown _ _ _ N0). reflexivity. }
    exists (pre ++ post). split; [|split; [|reflexivity]].
    2:{ rewrite <- Ae, !aents_app. change (aents (f' :: post)) with (fents (gf_recs f') ++ aents post). rewrite Fe. reflexivity. }
    constructor; ssimpl.
    + rewrite D1. change n with (gf_name f'). apply del_file_fenc; auto.
    + exact Is'.
    + apply forall_mid in Ic. apply Forall_app. tauto.
    + rewrite map_app in *. simpl in Ir. apply ndec_app_inv in Ir. destruct Ir as [R1 [R2 R3]]. simpl in R2.
      apply ndec_app; try tauto. intros x y Hx Hy. apply R3; simpl; auto.
    + apply Forall_app. tauto.
    + rewrite filter_mid_out in Ird by exact HR. rewrite filter_app. exact Ird.
    + rewrite filter_mid_out in Iw by exact HW. rewrite filter_app. exact Iw.
    + exact Iws.
    + eapply wr_ok_delete; eauto.
    + intros x Hx. rewrite find_open_del_other.
      * apply Io. apply in_mid. apply in_app_iff in Hx. tauto.
      * apply (name_neq_pre pre f post x Is). apply in_app_iff in Hx. tauto.
    + intros i. rewrite GD. apply KN.
    + rewrite GD. exact ND.
    + rewrite GD. exact IDR.
    + rewrite GD, KS, Iks, Bsize. reflexivity.
    + rewrite It, !gtotal_app. simpl. lia.
    + exact Il.
    + apply forall_del_open. exact Iod.
  - (* other references remain *)
    apply Z.eqb_neq in E.
    exists (pre ++ f' :: post). split; [|split; [exact Ae|reflexivity]].
    constructor; ssimpl.
    + exact D1.
    + apply Isf. reflexivity.
    + apply forall_mid in Ic. apply forall_mid. exact Ic.
    + rewrite !map_app in *. exact Ir.
    + apply forall_mid. repeat split; try tauto. unfold Inv.file_ok. repeat split; auto. intros _. lia.
    + rewrite (names_filter_replace is_R pre f post f'); auto.
    + rewrite filter_mid_out in Iw by exact HW. rewrite filter_mid_out by exact HW. exact Iw.
    + exact Iws.
    + eapply wr_ok_replace; eauto.
    + intros x Hx. apply in_mid in Hx. destruct Hx as [Hx|[->|Hx]].
      * rewrite find_open_upd_other; [apply Io; apply in_mid; auto| |intros; reflexivity].
        apply (name_neq_pre pre f post x Is). auto.
      * change (gf_name f') with n. erewrite find_open_upd_same; [|exact Of|reflexivity].
        change (is_W f') with (is_W f). rewrite HW, E2, Rf'. unfold add_ref. cbn [mf_name mf_next mf_size mf_ref]. reflexivity.
      * rewrite find_open_upd_other; [apply Io; apply in_mid; auto| |intros; reflexivity].
        apply (name_neq_pre pre f post x Is). auto.
    + intros i. rewrite GA'. apply KN.
    + rewrite GA'. exact ND.
    + rewrite GA'. exact IDR.
    + rewrite GA', KS, Iks, Bsize. reflexivity.
    + rewrite It, !gtotal_app. simpl. rewrite E2. reflexivity.
    + exact Il.
    + apply forall_upd_open; auto.
Qed.

(* ---------- GetBucket ---------- *)
Lemma find_app {A} (P : A -> bool) a b : find P (a ++ b) = match find P a with Some x => Some x | None => find P b end.
Proof. induction a as [|x a IH]; simpl; auto. destruct (P x); auto. Qed.

Lemma noid_find_fents i l n p : find_known i (fknown n p l) = None -> find (has_id i) (fents l) = None.
Proof.
  intros H. destruct (find (has_id i) (fents l)) as [e|] eqn:F; auto.
  apply find_some in F. destruct F as [Hin He].
  assert (X : In e (filter (fun e => negb (has_id i e)) (fents l))) by (rewrite (noid_filter_fents _ _ _ _ H); auto).
  apply filter_In in X. rewrite He in X. destruct X; discriminate.
Qed.

Lemma get_inv st g id t :
  Inv st g -> get crc st id t = (st, a_get (abs st g) id t).
Proof.
  intros I. unfold get, a_get. simpl a_ents. rewrite (I_known _ _ _ _ I).
  destruct (find_known id (gknown g)) as [b|] eqn:K.
  2:{ rewrite (noid_find_aents _ _ K). reflexivity. }
  destruct (known_split g id b K) as [pre [f [post [l1 [r [l2 [-> [El [Ei [Eb [Kpre Kl1]]]]]]]]]]].
  destruct I as [Id Is Ic Ir If Ird Iw Iws Iwr Io Ik Ind Iid Iks It Il Iod].
  destruct (inc_mid _ _ _ Is) as [N1 _].
  apply forall_mid in If. destruct If as [_ [[Frec _] _]].
  assert (Rr : rec_ok r) by (rewrite El in Frec; apply forall_mid in Frec; tauto).
  destruct Rr as [_ [_ [_ Rl]]].
  assert (Hg : has_gid r = true) by (unfold has_gid; rewrite Ei; reflexivity).
  assert (Lr : live r = true) by auto.
  assert (Hm : gr_magic r = magic_good) by (apply Z.eqb_eq; exact Lr).
  assert (Hi : has_id id (to_ent r) = true) by (unfold has_id, to_ent; simpl; rewrite Ei; apply Z.eqb_refl).
  assert (Fe : find (has_id id) (aents (pre ++ f :: post)) = Some (to_ent r)).
  { rewrite aents_app, find_app, (noid_find_aents _ _ Kpre).
    change (aents (f :: post)) with (fents (gf_recs f) ++ aents post).
    rewrite El, fents_app, <- app_assoc, find_app, (noid_find_fents _ _ _ _ Kl1), (fents_cons_live r l2 Lr).
    simpl. rewrite Hi. reflexivity. }
  rewrite Fe. rewrite Eb. cbn [b_time b_file b_pos b_size b_crc to_ent a_time a_body].
  destruct (gr_time r =? t); cbn [negb]; [|reflexivity].
  rewrite Id, (find_file_fenc crc pre f post N1).
  assert (Sl : slice (fdata f) (osum l1 + 20) (blen (gr_body r)) = gr_body r).
  { unfold Inv.fdata. rewrite El, enc_recs_app, enc_recs_cons. unfold Inv.enc_rec at 1.
    rewrite <- !app_assoc. rewrite (app_assoc (enc_recs l1)).
    apply slice_mid; auto; rewrite blen_app, blen_enc_recs; f_equal; unfold blen; rewrite enc_header_length; reflexivity. }
  rewrite Sl. rewrite Z.ltb_irrefl, Z.eqb_refl. reflexivity.
Qed.

(* ---------- an erase torn after k bytes, then the start ---------- *)
Lemma firstn_clip k : firstn (Z.to_nat k) magic_bytes_deleted = firstn (Z.to_nat (Z.max 0 (Z.min k 4))) magic_bytes_deleted.
Proof.
  destruct (Z_le_gt_dec k 0); [replace (Z.to_nat k) with 0%nat by lia; replace (Z.to_nat (Z.max 0 (Z.min k 4))) with 0%nat by lia; reflexivity|].
  destruct (Z_le_gt_dec k 4); [replace (Z.max 0 (Z.min k 4)) with k by lia; reflexivity|].
  replace (Z.max 0 (Z.min k 4)) with 4 by lia. rewrite !firstn_all2; auto; unfold magic_bytes_deleted; rewrite le_bytes_length; lia.
Qed.

Lemma erase_torn_inv st g id k :
  Inv st g -> (k = 3 -> rep = true) ->
  exists g', Inv (erase_torn st id k) g' /\
             abs (erase_torn st id k) g' = a_restart (if k <=? 2 then abs st g else a_erase (abs st g) id).
Proof.
  intros I Hrep. unfold erase_torn. rewrite (I_known _ _ _ _ I).
  destruct (find_known id (gknown g)) as [b|] eqn:K.
  2:{ destruct (restart_inv st g (inv_dinv _ _ I)) as [Ir Ar]. exists (grestart g). split; auto.
      unfold abs. rewrite Ar. unfold a_erase. simpl a_ents. rewrite (noid_filter_aents _ _ K). destruct (k <=? 2); reflexivity. }
  destruct (known_split g id b K) as [pre [f [post [l1 [r [l2 [-> [El [Ei [Eb [Kpre Kl1]]]]]]]]]]].
  assert (D := inv_dinv _ _ I). destruct D as [Dd Ds Dc Dr].
  destruct I as [Id Is Ic Ir If Ird Iw Iws Iwr Io Ik Ind Iid Iks It Il Iod].
  destruct (inc_mid _ _ _ Is) as [N1 [N2 [Is' Isf]]].
  assert (Dr' := Dr). apply forall_mid in Dr'. destruct Dr' as [Dr0 [[Frec Ftorn] Dr1]].
  assert (Rr : rec_ok r) by (rewrite El in Frec; apply forall_mid in Frec; tauto).
  destruct Rr as [_ [Rt [Rb Rl]]].
  assert (Hg : has_gid r = true) by (unfold has_gid; rewrite Ei; reflexivity).
  assert (Lr : live r = true) by auto.
  assert (Hm : gr_magic r = magic_good) by (apply Z.eqb_eq; exact Lr).
  assert (Hi : has_id id (to_ent r) = true) by (unfold has_id, to_ent; simpl; rewrite Ei; apply Z.eqb_refl).
  set (kk := Z.max 0 (Z.min k 4)).
  set (m := if kk <=? 2 then magic_good else if kk =? 3 then magic_torn_deleted else magic_deleted).
  set (r' := GR m None (gr_time r) (gr_body r)).
  set (f' := set_recs f (l1 ++ r' :: l2)).
  assert (Kk : 0 <= kk <= 4) by (unfold kk; lia).
  assert (E1 : write_at (fdata f) (osum l1) (firstn (Z.to_nat k) magic_bytes_deleted) = fdata f').
  { rewrite firstn_clip. fold kk. rewrite (fdata_set_magic f l1 r l2 kk El Hm Kk). reflexivity. }
  rewrite Eb. cbn [b_file b_pos].
  assert (DI : DInv (set_disk (upd_file (gf_name f) (fun d => write_at d (osum l1) (firstn (Z.to_nat k) magic_bytes_deleted)) (s_disk st)) st)
                    (pre ++ f' :: post)).
  { constructor; ssimpl.
    - rewrite Id. apply upd_file_fenc; auto.
    - apply Isf. reflexivity.
    - apply forall_mid in Dc. apply forall_mid. exact Dc.
    - apply forall_mid. repeat split; auto. unfold f'. cbn [gf_recs set_recs]. rewrite El in Frec.
      apply forall_mid in Frec. apply forall_mid. repeat split; try tauto.
      unfold Inv.rec_ok. cbn [gr_magic gr_time gr_body r']. repeat split; auto; try lia.
      + unfold m. destruct (kk <=? 2); auto. right. destruct (kk =? 3) eqn:E3; [|reflexivity].
        apply Z.eqb_eq in E3. assert (k = 3) by (unfold kk in E3; lia). rewrite (Hrep H). reflexivity.
      + intros X. unfold has_gid, r' in X. discriminate X. }
  destruct (restart_inv _ _ DI) as [Irr Ar]. eexists. split; [exact Irr|].
  unfold abs. rewrite Ar. unfold a_restart, a_erase. cbn [a_ents a_last]. f_equal.
  rewrite !aents_app. change (aents (f' :: post)) with (fents (gf_recs f') ++ aents post).
  change (aents (f :: post)) with (fents (gf_recs f) ++ aents post).
  change (gf_recs f') with (l1 ++ r' :: l2). rewrite El, !fents_app.
  set (A := gknown pre ++ fknown (gf_name f) 0 l1). set (B := fknown (gf_name f) (osum l1 + rsize r) l2 ++ gknown post).
  assert (Kf : fknown (gf_name f) 0 (gf_recs f) = fknown (gf_name f) 0 l1 ++ (id, b) :: fknown (gf_name f) (osum l1 + rsize r) l2).
  { rewrite El, fknown_app. simpl. rewrite Ei, Eb. reflexivity. }
  assert (GA : gknown (pre ++ f :: post) = A ++ (id, b) :: B).
  { rewrite gknown_app. change (gknown (f :: post)) with (fknown (gf_name f) 0 (gf_recs f) ++ gknown post).
    rewrite Kf. unfold A, B. rewrite <- !app_assoc. reflexivity. }
  assert (NB : ~ In id (map fst (A ++ B))).
  { rewrite GA, map_app in Ind. simpl in Ind. apply NoDup_remove_2 in Ind. rewrite map_app. exact Ind. }
  assert (Kl2 : find_known id (fknown (gf_name f) (osum l1 + rsize r) l2) = None).
  { apply find_known_none. intros X. apply NB. unfold B. rewrite !map_app, !in_app_iff. auto. }
  assert (Kpost : find_known id (gknown post) = None).
  { apply find_known_none. intros X. apply NB. unfold B. rewrite !map_app, !in_app_iff. auto. }
  destruct (k <=? 2) eqn:K2.
  - apply Z.leb_le in K2. assert (Lr' : live r' = true).
    { unfold live, r', m. cbn [gr_magic]. assert (X : kk <=? 2 = true) by (apply Z.leb_le; unfold kk; lia). rewrite X. reflexivity. }
    cbn [a_ents]. rewrite (fents_cons_live r l2 Lr), (fents_cons_live r' l2 Lr'). rewrite !map_app. cbn [map]. reflexivity.
  - apply Z.leb_gt in K2. assert (Lr' : live r' = false).
    { unfold live, r', m. cbn [gr_magic]. assert (X : kk <=? 2 = false) by (apply Z.leb_gt; unfold kk; lia). rewrite X.
      destruct (kk =? 3); reflexivity. }
    cbn [a_ents]. rewrite (fents_cons_live r l2 Lr), (fents_cons_dead r' l2 Lr').
    rewrite !filter_app, (noid_filter_aents _ _ Kpre), (noid_filter_aents _ _ Kpost), (noid_filter_fents _ _ _ _ Kl1).
    cbn [filter]. rewrite Hi. cbn [negb]. rewrite (noid_filter_fents _ _ _ _ Kl2). reflexivity.
Qed.

End S.