(* C09 — ReadNextTailSecond preserves the invariant of Inv.v and answers like the list specification:
   one lemma per branch of tail_iter (pop a waiting file, close-or-remove, skip a deleted record, hand out a good
   record, nothing left), the loop on a measure, and the re-read after a start. *)
From Coq Require Import ZArith List Bool Lia.
From SH Require Import Common.Wrap Gen.DiskCacheConsts DiskCache.Model DiskCache.Spec DiskCache.Format DiskCache.Inv DiskCache.Steps.
Import ListNotations.
Open Scope Z_scope.

Ltac ssimpl := cbn [s_disk s_clock s_open s_known s_known_size s_last_id s_reading s_waiting s_waiting_size s_writing s_total
  set_disk set_clock set_open set_known set_known_size set_last_id set_reading set_waiting set_writing set_total].

Section T.
Variable crc : bytes -> Z.
Variable rep : bool.
Hypothesis crc_range : forall d, 0 <= crc d < two32.

Notation Inv := (Inv crc rep).
Notation fdata := (fdata crc).
Notation fenc := (fenc crc).
Notation enc_rec := (enc_rec crc).
Notation enc_recs := (enc_recs crc).
Notation gknown := (gknown crc).
Notation fknown := (fknown crc).
Notation gtotal := (gtotal crc).
Notation rec_ok := (rec_ok rep).
Notation torn_ok := (torn_ok crc).
Notation file_ok := (file_ok crc rep).

(* measure: what the loop still has to look at *)
Definition mu1 (f : gfile) : nat :=
  match gf_role f with
  | RW => 2 + length (gf_recs f)
  | RR i => 1 + (length (gf_recs f) - i)
  | _ => 0
  end.
Definition mu (g : list gfile) : nat := fold_right (fun f a => (mu1 f + a)%nat) O g.

Lemma mu_app a b : mu (a ++ b) = (mu a + mu b)%nat.
Proof. induction a; simpl; auto. rewrite IHa. lia. Qed.

Lemma filter_head_split {A} (P : A -> bool) l x r :
  filter P l = x :: r -> exists pre post, l = pre ++ x :: post /\ filter P pre = [] /\ filter P post = r /\ P x = true.
Proof.
  induction l as [|y l IH]; simpl; [discriminate|]. destruct (P y) eqn:E; intros H.
  - inversion H; subst. exists [], l. auto.
  - destruct (IH H) as [pre [post [-> [A1 [A2 A3]]]]]. exists (y :: pre), post. simpl. rewrite E. auto.
Qed.

Lemma filter_nil_forall {A} (P : A -> bool) l : filter P l = [] -> Forall (fun x => P x = false) l.
Proof.
  induction l as [|y l IH]; simpl; auto. destruct (P y) eqn:E; [discriminate|]. auto.
Qed.

Lemma map_nil_inv {A B} (f : A -> B) l : map f l = [] -> l = [].
Proof. destruct l; simpl; [auto|discriminate]. Qed.

(* entries of files whose live records were all handed out carry ids *)
Definition has_aid (e : aent) : Prop := a_id e <> None.

Lemma seen_fents_ids l : Forall seen l -> Forall has_aid (fents l).
Proof.
  unfold fents. induction l as [|r l IH]; simpl; intros H; auto. inversion H; subst.
  destruct (live r) eqn:L; simpl; auto. constructor; auto.
  unfold has_aid, to_ent. simpl. specialize (H2 L). unfold has_gid in H2. destruct (gr_id r); [discriminate|discriminate].
Qed.

Lemma assign_first_skip id l m : Forall has_aid l ->
  assign_first id (l ++ m) = match assign_first id m with Some (m', t) => Some (l ++ m', t) | None => None end.
Proof.
  induction l as [|e l IH]; simpl; intros H.
  - destruct (assign_first id m) as [[m' t]|]; reflexivity.
  - inversion H; subst. unfold has_aid in H2. destruct (a_id e) eqn:E; [|congruence].
    rewrite IH by assumption. destruct (assign_first id m) as [[m' t]|]; reflexivity.
Qed.

Lemma assign_first_none id l : Forall has_aid l -> assign_first id l = None.
Proof.
  intros H. rewrite <- (app_nil_r l). rewrite assign_first_skip by assumption. reflexivity.
Qed.

Lemma aents_ids g : Forall (fun f => Forall seen (gf_recs f)) g -> Forall has_aid (aents g).
Proof.
  induction g as [|f g IH]; intros H; [constructor|]. inversion H; subst.
  change (aents (f :: g)) with (fents (gf_recs f) ++ aents g). apply Forall_app. split; auto. apply seen_fents_ids; auto.
Qed.

Lemma role_seen f : file_ok f -> is_R f = false -> is_W f = false -> Forall seen (gf_recs f).
Proof.
  intros [_ [_ [R _]]] HR HW. unfold role_ok, is_R, is_W in *. destruct (gf_role f); try discriminate; tauto.
Qed.

Lemma unseen_nids l : Forall unseen l -> nids l = 0.
Proof.
  unfold nids. induction l as [|r l IH]; simpl; intros H; auto. inversion H; subst.
  unfold unseen in H2. unfold has_gid at 1. rewrite H2. auto.
Qed.

Lemma unseen_fknown n p l : Forall unseen l -> fknown n p l = [].
Proof. intros H. apply nids0_fknown. apply unseen_nids; auto. Qed.

Lemma wr_ok_replace_nw w pre f post f' :
  wr_ok w (pre ++ f :: post) -> gf_name f' = gf_name f -> is_wr f = false -> is_wr f' = false -> wr_ok w (pre ++ f' :: post).
Proof.
  intros H En E1 E2. destruct w as [n|]; simpl in *.
  - destruct H as [g0 [fw [E [Nw [Rw Fw]]]]].
    destruct post as [|p0 post0].
    + apply app_inj_tail in E. destruct E as [-> ->]. unfold is_wr in E1. rewrite Rw in E1. discriminate.
    + destruct (exists_last (l := p0 :: post0) ltac:(discriminate)) as [post' [x Ep]]. rewrite Ep in *.
      rewrite app_comm_cons, app_assoc in E. apply app_inj_tail in E. destruct E as [<- ->].
      exists (pre ++ f' :: post'), fw. rewrite app_comm_cons, app_assoc. repeat split; auto.
      apply forall_mid in Fw. apply forall_mid. tauto.
  - apply forall_mid in H. apply forall_mid. tauto.
Qed.

Lemma rank_nonneg r : 0 <= rank r.
Proof. destruct r; simpl; lia. Qed.

Lemma filter_mid_nil {A} (P : A -> bool) pre x post : filter P (pre ++ x :: post) = [] -> filter P pre = [] /\ P x = false /\ filter P post = [].
Proof.
  rewrite filter_app. simpl. intros H. apply app_eq_nil in H. destruct H as [H1 H2].
  destruct (P x); [discriminate|]. auto.
Qed.

(* ranks around a replaced file *)
Lemma ndec_replace (pre post : list gfile) f f' :
  ndec (map (fun f => rank (gf_role f)) (pre ++ f :: post)) ->
  (forall x, In x pre -> rank (gf_role x) <= rank (gf_role f')) ->
  (forall x, In x post -> rank (gf_role f') <= rank (gf_role x)) ->
  ndec (map (fun f => rank (gf_role f)) (pre ++ f' :: post)).
Proof.
  intros H H1 H2. rewrite map_app in *. simpl in *. apply ndec_app_inv in H. destruct H as [Ha [Hb Hab]].
  simpl in Hb. destruct Hb as [Hb1 Hb2]. apply ndec_app; auto.
  - simpl. split; auto. apply Forall_forall. intros y Hy. apply in_map_iff in Hy. destruct Hy as [x [<- Hx]]. auto.
  - intros x y Hx [<-|Hy].
    + apply in_map_iff in Hx. destruct Hx as [x0 [<- Hx]]. auto.
    + apply Hab; simpl; auto.
Qed.

Lemma ndec_delete (pre post : list gfile) f :
  ndec (map (fun f => rank (gf_role f)) (pre ++ f :: post)) -> ndec (map (fun f => rank (gf_role f)) (pre ++ post)).
Proof.
  intros H. rewrite map_app in *. simpl in *. apply ndec_app_inv in H. destruct H as [Ha [Hb Hab]].
  simpl in Hb. apply ndec_app; try tauto. intros x y Hx Hy. apply Hab; simpl; auto.
Qed.

Lemma ranks_mid (pre post : list gfile) f :
  ndec (map (fun f => rank (gf_role f)) (pre ++ f :: post)) ->
  (forall x, In x pre -> rank (gf_role x) <= rank (gf_role f)) /\ (forall x, In x post -> rank (gf_role f) <= rank (gf_role x)).
Proof.
  intros H. rewrite map_app in H. simpl in H. apply ndec_app_inv in H. destruct H as [Ha [Hb Hab]].
  simpl in Hb. destruct Hb as [Hb1 _]. split.
  - intros x Hx. apply Hab; simpl; auto. apply in_map_iff. eauto.
  - intros x Hx. rewrite Forall_forall in Hb1. apply Hb1. apply in_map_iff. eauto.
Qed.

(* a file before the one being read / the first waiting one was read completely *)
Lemma before_is_A x : is_R x = false -> is_W x = false -> rank (gf_role x) <= 2 -> gf_role x = RA.
Proof. unfold is_R, is_W. destruct (gf_role x); simpl; intros; try discriminate; auto; lia. Qed.

(* ---------- pop the next waiting file ---------- *)
Definition start_read (f : gfile) : gfile := GF (gf_name f) (RR 0) 0 (gf_recs f) (gf_torn f).

Lemma pop_inv st pre fw post rest :
  Inv st (pre ++ fw :: post) -> s_reading st = None -> filter is_W pre = [] -> is_W fw = true ->
  s_waiting st = (gf_name fw, blen (fdata fw)) :: rest ->
  let n := gf_name fw in let sz := blen (fdata fw) in
  let st1 := set_waiting rest (s_waiting_size st - sz) st in
  let st' := set_reading (Some n) (set_open (s_open st1 ++ [MF n 0 sz 1]) st1) in
  Inv st' (pre ++ start_read fw :: post) /\ aents (pre ++ start_read fw :: post) = aents (pre ++ fw :: post) /\
  (mu (pre ++ start_read fw :: post) < mu (pre ++ fw :: post))%nat.
Proof.
  intros I Rn Wpre Wf Ws n sz st1 st'. subst n sz.
  destruct I as [Id Is Ic Ir If Ird Iw Iws Iwr Io Ik Ind Iid Iks It Il Iod].
  rewrite Rn in Ird. simpl in Ird. apply map_nil_inv in Ird. apply filter_mid_nil in Ird. destruct Ird as [Rpre [Rf Rpost]].
  assert (Rw : gf_role fw = RW) by (unfold is_W in Wf; destruct (gf_role fw); try discriminate; auto).
  destruct (inc_mid _ _ _ Is) as [N1 [N2 [Is' Isf]]].
  assert (If' := If). apply forall_mid in If'. destruct If' as [If0 [[Frec [Ftorn [Frole _]]] If1]].
  unfold role_ok in Frole. rewrite Rw in Frole.
  destruct (ranks_mid _ _ _ Ir) as [Rk1 Rk2]. rewrite Rw in Rk1, Rk2. simpl in Rk1, Rk2.
  assert (PreA : forall x, In x pre -> gf_role x = RA).
  { intros x Hx. apply before_is_A; auto.
    - apply filter_nil_forall in Rpre. rewrite Forall_forall in Rpre. auto.
    - apply filter_nil_forall in Wpre. rewrite Forall_forall in Wpre. auto. }
  rewrite (filter_mid_in is_W pre fw post Wf), Wpre in Iw. simpl in Iw. rewrite Ws in Iw. inversion Iw as [Erest].
  assert (N0 : nids (gf_recs fw) = 0) by (apply unseen_nids; auto).
  assert (Of := Io fw ltac:(apply in_mid; auto)). rewrite Wf in Of.
  assert (GK : gknown (pre ++ start_read fw :: post) = gknown (pre ++ fw :: post)) by (rewrite !gknown_app; reflexivity).
  split; [|split].
  - constructor; unfold st', st1; ssimpl; rewrite ?GK.
    + rewrite Id, !map_app. reflexivity.
    + apply Isf. reflexivity.
    + apply forall_mid in Ic. apply forall_mid. exact Ic.
    + eapply ndec_replace; eauto; simpl.
      * intros x Hx. rewrite (PreA x Hx). simpl. lia.
      * intros x Hx. specialize (Rk2 x Hx). lia.
    + apply forall_mid. split; [exact If0|split; [|exact If1]].
      unfold Inv.file_ok. split; [exact Frec|split; [exact Ftorn|split]].
      * unfold role_ok. simpl. repeat split; auto; lia.
      * intros _. unfold refs. simpl. rewrite N0. lia.
    + rewrite (filter_mid_in is_R pre (start_read fw) post eq_refl), Rpre, Rpost. reflexivity.
    + rewrite (filter_mid_out is_W pre (start_read fw) post eq_refl), Wpre. simpl. first [assumption|symmetry; assumption|reflexivity].
    + rewrite Iws, Ws. simpl. lia.
    + eapply wr_ok_replace_nw; eauto. unfold is_wr. rewrite Rw. reflexivity.
    + intros x Hx. rewrite find_open_app. apply in_mid in Hx. destruct Hx as [Hx|[->|Hx]].
      * rewrite (Io x ltac:(apply in_mid; auto)). destruct (is_W x); auto. simpl.
        destruct (gf_name fw =? gf_name x) eqn:E; auto. apply Z.eqb_eq in E. exfalso.
        apply (name_neq_pre pre fw post x Is); auto.
      * simpl gf_name. rewrite Of. simpl. rewrite Z.eqb_refl. unfold refs. simpl. rewrite N0. reflexivity.
      * rewrite (Io x ltac:(apply in_mid; auto)). destruct (is_W x); auto. simpl.
        destruct (gf_name fw =? gf_name x) eqn:E; auto. apply Z.eqb_eq in E. exfalso.
        apply (name_neq_pre pre fw post x Is); auto.
    + exact Ik.
    + exact Ind.
    + exact Iid.
    + exact Iks.
    + rewrite It, !gtotal_app. reflexivity.
    + exact Il.
    + apply Forall_app. split; auto. constructor; auto. simpl. apply forall_mid in Ic. tauto.
  - rewrite !aents_app. reflexivity.
  - rewrite !mu_app. change (mu (start_read fw :: post)) with (mu1 (start_read fw) + mu post)%nat.
    change (mu (fw :: post)) with (mu1 fw + mu post)%nat. unfold mu1. simpl. rewrite Rw. lia.
Qed.

(* ---------- what the header checks see at the cursor of the file being read ---------- *)
Lemma good_not_deleted : is_deleted_magic rep magic_good = false.
Proof. unfold is_deleted_magic. destruct rep; reflexivity. Qed.

Lemma deleted_range m : is_deleted_magic rep m = true -> 0 <= m < two32 /\ (m =? magic_good) = false.
Proof.
  unfold is_deleted_magic. intros H. apply orb_true_iff in H. destruct H as [H|H].
  - apply Z.eqb_eq in H. subst. split; [vm_compute; split; [discriminate|reflexivity]|reflexivity].
  - apply andb_true_iff in H. destruct H as [_ H]. apply Z.eqb_eq in H. subst. split; [vm_compute; split; [discriminate|reflexivity]|reflexivity].
Qed.

Lemma parse_at_end f i :
  file_ok f -> gf_role f = RR i -> i = length (gf_recs f) ->
  parse_at rep (fdata f) (blen (fdata f)) (gf_next f) = PClose.
Proof.
  intros [Frec [Ftorn [Frole _]]] Rf Ei. unfold role_ok in Frole. rewrite Rf in Frole. destruct Frole as [_ [_ [_ Nx]]].
  rewrite Ei, firstn_all in Nx. rewrite Nx. destruct Ftorn as [tm [body [k [Ht [Hb [Hk Et]]]]]].
  unfold Inv.fdata. rewrite Et, <- (blen_enc_recs crc (gf_recs f)).
  apply parse_torn_tail; auto.
Qed.

Lemma parse_at_rec f i l1 x l2 :
  file_ok f -> gf_role f = RR i -> gf_recs f = l1 ++ x :: l2 -> length l1 = i ->
  gf_next f = osum l1 /\
  parse_at rep (fdata f) (blen (fdata f)) (gf_next f) =
    if is_deleted_magic rep (gr_magic x) then PSkip (gf_next f + rsize x)
    else PGood (gr_time x) (blen (gr_body x)) (crc (gr_body x)) (gf_next f + rsize x).
Proof.
  intros [Frec [Ftorn [Frole _]]] Rf El Ei. unfold role_ok in Frole. rewrite Rf in Frole. destruct Frole as [_ [_ [_ Nx]]].
  assert (F1 : firstn i (gf_recs f) = l1).
  { rewrite El, <- Ei. rewrite firstn_app, Nat.sub_diag, firstn_all. simpl. apply app_nil_r. }
  rewrite F1 in Nx. split; [exact Nx|]. rewrite Nx.
  rewrite El in Frec. apply forall_mid in Frec. destruct Frec as [_ [[Xm [Xt [Xb _]]] _]].
  assert (Mr : 0 <= gr_magic x < two32).
  { destruct Xm as [->|Xm]; [vm_compute; split; [discriminate|reflexivity]|apply deleted_range; auto]. }
  assert (Ed : fdata f = enc_recs l1 ++ enc_header (gr_magic x) (gr_time x) (blen (gr_body x)) (crc (gr_body x)) ++ gr_body x ++ (enc_recs l2 ++ gf_torn f)).
  { unfold Inv.fdata. rewrite El, enc_recs_app, enc_recs_cons. unfold Inv.enc_rec. rewrite <- !app_assoc. reflexivity. }
  rewrite <- (blen_enc_recs crc l1). rewrite Ed at 1.
  rewrite parse_record; auto.
  - unfold rsize. destruct (is_deleted_magic rep (gr_magic x)) eqn:D; auto.
    destruct Xm as [Xm|Xm]; [|congruence]. rewrite Xm. reflexivity.
  - rewrite blen_fdata, El, osum_app, blen_enc_recs. simpl. unfold rsize at 1. pose proof (osum_nonneg l2). pose proof (blen_nonneg (gf_torn f)). lia.
Qed.

(* ---------- unrefFile(&d.readingFileTail) at the end of the file (or at its torn tail) ---------- *)
Definition done_read (f : gfile) : gfile := GF (gf_name f) RA (gf_next f) (gf_recs f) (gf_torn f).

Lemma close_inv st pre fr post i :
  Inv st (pre ++ fr :: post) -> gf_role fr = RR i -> i = length (gf_recs fr) ->
  filter is_R pre = [] -> filter is_R post = [] ->
  exists g', Inv (set_reading None (unref st (gf_name fr))) g' /\ aents g' = aents (pre ++ fr :: post) /\
             (mu g' < mu (pre ++ fr :: post))%nat.
Proof.
  intros I Rf Ei Rpre Rpost.
  destruct I as [Id Is Ic Ir If Ird Iw Iws Iwr Io Ik Ind Iid Iks It Il Iod].
  assert (HR : is_R fr = true) by (unfold is_R; rewrite Rf; reflexivity).
  assert (HW : is_W fr = false) by (unfold is_W; rewrite Rf; reflexivity).
  assert (Hwr : is_wr fr = false) by (unfold is_wr; rewrite Rf; reflexivity).
  assert (Of := Io fr ltac:(apply in_mid; auto)). rewrite HW in Of.
  destruct (inc_mid _ _ _ Is) as [N1 [N2 [Is' Isf]]].
  assert (If' := If). apply forall_mid in If'. destruct If' as [If0 [[Frec [Ftorn [Frole Frefs]]] If1]].
  unfold role_ok in Frole. rewrite Rf in Frole. destruct Frole as [_ [Fseen _]]. rewrite Ei, firstn_all in Fseen.
  destruct (ranks_mid _ _ _ Ir) as [Rk1 Rk2]. rewrite Rf in Rk1, Rk2. simpl in Rk1, Rk2.
  assert (Rv : refs fr = 1 + nids (gf_recs fr)) by (unfold refs; rewrite HR, Hwr; lia).
  assert (Mu : (mu (pre ++ post) < mu (pre ++ fr :: post))%nat).
  { rewrite !mu_app. change (mu (fr :: post)) with (mu1 fr + mu post)%nat. unfold mu1. rewrite Rf. lia. }
  unfold unref. rewrite Of. cbn [mf_ref mf_size].
  destruct (refs fr - 1 =? 0) eqn:E.
  - apply Z.eqb_eq in E. assert (N0 : nids (gf_recs fr) = 0) by lia.
    assert (GD : gknown (pre ++ post) = gknown (pre ++ fr :: post)).
    { rewrite !gknown_app. change (gknown (fr :: post)) with (fknown (gf_name fr) 0 (gf_recs fr) ++ gknown post).
      rewrite (nids0_fknown crc _ _ _ N0). reflexivity. }
    exists (pre ++ post). split; [|split; [|exact Mu]].
    2:{ rewrite !aents_app. change (aents (fr :: post)) with (fents (gf_recs fr) ++ aents post).
        rewrite (seen_noid_nolive _ Fseen N0). reflexivity. }
    constructor; ssimpl; rewrite ?GD.
    + rewrite Id. apply del_file_fenc; auto.
    + exact Is'.
    + apply forall_mid in Ic. apply Forall_app. tauto.
    + eapply ndec_delete; eauto.
    + apply Forall_app. tauto.
    + rewrite filter_app, Rpre, Rpost. reflexivity.
    + rewrite (filter_mid_out is_W pre fr post HW) in Iw. rewrite filter_app. exact Iw.
    + exact Iws.
    + eapply wr_ok_delete; eauto.
    + intros x Hx. rewrite find_open_del_other.
      * apply Io. apply in_mid. apply in_app_iff in Hx. tauto.
      * apply (name_neq_pre pre fr post x Is). apply in_app_iff in Hx. tauto.
    + exact Ik.
    + exact Ind.
    + exact Iid.
    + exact Iks.
    + rewrite It, !gtotal_app. simpl. lia.
    + exact Il.
    + apply forall_del_open. exact Iod.
  - apply Z.eqb_neq in E. pose proof (nids_nonneg (gf_recs fr)).
    assert (GK : gknown (pre ++ done_read fr :: post) = gknown (pre ++ fr :: post)) by (rewrite !gknown_app; reflexivity).
    exists (pre ++ done_read fr :: post). split; [|split].
    2:{ rewrite !aents_app. reflexivity. }
    2:{ rewrite !mu_app. change (mu (done_read fr :: post)) with (mu1 (done_read fr) + mu post)%nat.
        change (mu (fr :: post)) with (mu1 fr + mu post)%nat. unfold mu1. simpl. rewrite Rf. lia. }
    constructor; ssimpl; rewrite ?GK.
    + rewrite Id, !map_app. reflexivity.
    + apply Isf. reflexivity.
    + apply forall_mid in Ic. apply forall_mid. exact Ic.
    + eapply ndec_replace; eauto; simpl.
      * intros x Hx. specialize (Rk1 x Hx).
        assert (Rx : is_R x = false) by (apply filter_nil_forall in Rpre; rewrite Forall_forall in Rpre; auto).
        unfold is_R in Rx. destruct (gf_role x); simpl in *; try discriminate; lia.
      * intros x Hx. apply rank_nonneg.
    + apply forall_mid. split; [exact If0|split; [|exact If1]].
      unfold Inv.file_ok. split; [exact Frec|split; [exact Ftorn|split]].
      * unfold role_ok. simpl. exact Fseen.
      * intros _. unfold refs. simpl. lia.
    + rewrite (filter_mid_out is_R pre (done_read fr) post eq_refl), Rpre, Rpost. reflexivity.
    + rewrite (filter_mid_out is_W pre fr post HW) in Iw. rewrite (filter_mid_out is_W pre (done_read fr) post eq_refl). exact Iw.
    + exact Iws.
    + eapply wr_ok_replace_nw; eauto.
    + intros x Hx. apply in_mid in Hx. destruct Hx as [Hx|[->|Hx]].
      * rewrite find_open_upd_other; [apply Io; apply in_mid; auto| |intros; reflexivity].
        apply (name_neq_pre pre fr post x Is). auto.
      * simpl gf_name. erewrite find_open_upd_same; [|exact Of|reflexivity].
        unfold add_ref. simpl. unfold refs at 2. simpl. rewrite Rv. do 2 f_equal. lia.
      * rewrite find_open_upd_other; [apply Io; apply in_mid; auto| |intros; reflexivity].
        apply (name_neq_pre pre fr post x Is). auto.
    + exact Ik.
    + exact Ind.
    + exact Iid.
    + exact Iks.
    + rewrite It, !gtotal_app. reflexivity.
    + exact Il.
    + apply forall_upd_open; auto.
Qed.

(* ---------- list facts at the cursor ---------- *)
Lemma firstn_len_app {A} (a b : list A) : firstn (length a) (a ++ b) = a.
Proof. rewrite firstn_app, Nat.sub_diag, firstn_all. simpl. apply app_nil_r. Qed.
Lemma firstn_S_app {A} (a : list A) x b : firstn (S (length a)) (a ++ x :: b) = a ++ [x].
Proof. rewrite firstn_app, firstn_all2 by lia. replace (S (length a) - length a)%nat with 1%nat by lia. reflexivity. Qed.
Lemma skipn_len_app {A} (a b : list A) : skipn (length a) (a ++ b) = b.
Proof. rewrite skipn_app, skipn_all, Nat.sub_diag. reflexivity. Qed.
Lemma skipn_S_app {A} (a : list A) x b : skipn (S (length a)) (a ++ x :: b) = b.
Proof. rewrite skipn_app, skipn_all2 by lia. replace (S (length a) - length a)%nat with 1%nat by lia. reflexivity. Qed.

Lemma pre_of_reading_A (pre post : list gfile) fr i x :
  ndec (map (fun f => rank (gf_role f)) (pre ++ fr :: post)) -> gf_role fr = RR i -> filter is_R pre = [] ->
  In x pre -> gf_role x = RA.
Proof.
  intros Ir Rf Rpre Hx. destruct (ranks_mid _ _ _ Ir) as [Rk1 _]. rewrite Rf in Rk1. simpl in Rk1. specialize (Rk1 x Hx).
  assert (Rx : is_R x = false) by (apply filter_nil_forall in Rpre; rewrite Forall_forall in Rpre; auto).
  unfold is_R in Rx. destruct (gf_role x); simpl in *; try discriminate; auto; lia.
Qed.

(* ---------- skip a deleted record ---------- *)
Definition advance (f : gfile) (i : nat) (nx : Z) (l : list grec) : gfile := GF (gf_name f) (RR i) nx l (gf_torn f).

Lemma skip_inv st pre fr post l1 x l2 :
  Inv st (pre ++ fr :: post) -> gf_role fr = RR (length l1) -> gf_recs fr = l1 ++ x :: l2 ->
  is_deleted_magic rep (gr_magic x) = true ->
  filter is_R pre = [] -> filter is_R post = [] ->
  let nx := gf_next fr + rsize x in
  let st' := set_open (upd_open (gf_name fr) (fun m => MF (mf_name m) nx (mf_size m) (mf_ref m)) (s_open st)) st in
  let fr' := advance fr (S (length l1)) nx (gf_recs fr) in
  Inv st' (pre ++ fr' :: post) /\ aents (pre ++ fr' :: post) = aents (pre ++ fr :: post) /\
  (mu (pre ++ fr' :: post) < mu (pre ++ fr :: post))%nat.
Proof.
  intros I Rf El Dx Rpre Rpost nx st' fr'.
  destruct I as [Id Is Ic Ir If Ird Iw Iws Iwr Io Ik Ind Iid Iks It Il Iod].
  assert (HR : is_R fr = true) by (unfold is_R; rewrite Rf; reflexivity).
  assert (HW : is_W fr = false) by (unfold is_W; rewrite Rf; reflexivity).
  assert (Hwr : is_wr fr = false) by (unfold is_wr; rewrite Rf; reflexivity).
  assert (Of := Io fr ltac:(apply in_mid; auto)). rewrite HW in Of.
  destruct (inc_mid _ _ _ Is) as [N1 [N2 [Is' Isf]]].
  assert (If' := If). apply forall_mid in If'. destruct If' as [If0 [[Frec [Ftorn [Frole Frefs]]] If1]].
  unfold role_ok in Frole. rewrite Rf, El in Frole. destruct Frole as [_ [Fseen [Funs Nx]]].
  rewrite firstn_len_app in Fseen, Nx. rewrite skipn_len_app in Funs. inversion Funs as [|? ? Ux Ul2]; subst.
  destruct (deleted_range _ Dx) as [_ Lx].
  assert (GK : gknown (pre ++ fr' :: post) = gknown (pre ++ fr :: post)) by (rewrite !gknown_app; reflexivity).
  assert (Rfs : refs fr' = refs fr) by (unfold refs; rewrite HR, Hwr; reflexivity).
  split; [|split].
  - constructor; unfold st'; ssimpl; rewrite ?GK.
    + rewrite Id, !map_app. reflexivity.
    + apply Isf. reflexivity.
    + apply forall_mid in Ic. apply forall_mid. exact Ic.
    + eapply ndec_replace; eauto; simpl.
      * intros y Hy. rewrite (pre_of_reading_A pre post fr _ y Ir Rf Rpre Hy). simpl. lia.
      * intros y Hy. destruct (ranks_mid _ _ _ Ir) as [_ Rk2]. rewrite Rf in Rk2. apply Rk2; auto.
    + apply forall_mid. split; [exact If0|split; [|exact If1]].
      unfold Inv.file_ok. split; [exact Frec|split; [exact Ftorn|split]].
      * unfold role_ok, fr', advance. cbn [gf_role gf_recs gf_next gf_torn]. rewrite El, firstn_S_app, skipn_S_app. repeat split; auto.
        -- rewrite app_length. simpl. lia.
        -- apply Forall_app. split; auto. constructor; auto. intros L. unfold live in L. rewrite Lx in L. discriminate.
        -- unfold nx. rewrite Nx, osum_app. simpl. lia.
      * intros _. rewrite Rfs. apply Frefs. exact HW.
    + rewrite (names_filter_replace is_R pre fr post fr'); auto.
    + rewrite (filter_mid_out is_W pre fr post HW) in Iw. rewrite (filter_mid_out is_W pre fr' post eq_refl). exact Iw.
    + exact Iws.
    + eapply wr_ok_replace_nw; eauto.
    + intros y Hy. apply in_mid in Hy. destruct Hy as [Hy|[->|Hy]].
      * rewrite find_open_upd_other; [apply Io; apply in_mid; auto| |intros; reflexivity].
        apply (name_neq_pre pre fr post y Is). auto.
      * simpl gf_name. erewrite find_open_upd_same; [|exact Of|reflexivity]. rewrite Rfs. reflexivity.
      * rewrite find_open_upd_other; [apply Io; apply in_mid; auto| |intros; reflexivity].
        apply (name_neq_pre pre fr post y Is). auto.
    + exact Ik.
    + exact Ind.
    + exact Iid.
    + exact Iks.
    + rewrite It, !gtotal_app. reflexivity.
    + exact Il.
    + apply forall_upd_open; auto.
  - rewrite !aents_app. reflexivity.
  - rewrite !mu_app. change (mu (fr' :: post)) with (mu1 fr' + mu post)%nat.
    change (mu (fr :: post)) with (mu1 fr + mu post)%nat. unfold mu1, fr'. simpl. rewrite Rf, El, app_length. simpl. lia.
Qed.

(* ---------- hand out a good record ---------- *)
Lemma nids_cons r l : nids (r :: l) = (if has_gid r then 1 else 0) + nids l.
Proof. unfold nids. cbn [filter]. destruct (has_gid r); cbn [length]; lia. Qed.

Lemma nodup_insert {A} (a b : list A) x : NoDup (a ++ b) -> ~ In x (a ++ b) -> NoDup (a ++ x :: b).
Proof.
  induction a as [|y a IH]; simpl; intros N H.
  - constructor; auto.
  - inversion N; subst. constructor.
    + rewrite in_app_iff in *. simpl. intros [X|[X|X]]; [tauto|subst; tauto|tauto].
    + apply IH; auto.
Qed.

Lemma assoc_insert (K A B : list (Z * bucket)) i b :
  (forall j, find_known j K = find_known j (A ++ B)) -> ~ In i (map fst (A ++ B)) ->
  forall j, find_known j (K ++ [(i, b)]) = find_known j (A ++ (i, b) :: B).
Proof.
  intros H N j. rewrite !find_known_app2, H, find_known_app2. simpl.
  destruct (i =? j) eqn:E.
  - apply Z.eqb_eq in E. subst j. rewrite map_app, in_app_iff in N.
    rewrite (find_known_none A i), (find_known_none B i) by tauto. reflexivity.
  - destruct (find_known j A); auto. destruct (find_known j B); auto.
Qed.

Lemma good_inv st pre fr post l1 x l2 :
  Inv st (pre ++ fr :: post) -> gf_role fr = RR (length l1) -> gf_recs fr = l1 ++ x :: l2 ->
  is_deleted_magic rep (gr_magic x) = false ->
  filter is_R pre = [] -> filter is_R post = [] ->
  let nx := gf_next fr + rsize x in
  let id := s_last_id st + 1 in
  let st1 := set_known (s_known st ++ [(id, BK (gf_name fr) (gf_next fr) (gr_time x) (blen (gr_body x)) (crc (gr_body x)))]) (set_last_id id st) in
  let st2 := set_known_size (s_known_size st1 + (blen (gr_body x) + 20)) st1 in
  let st' := set_open (upd_open (gf_name fr) (fun m => MF (mf_name m) nx (mf_size m) (mf_ref m + 1)) (s_open st2)) st2 in
  let x' := GR (gr_magic x) (Some id) (gr_time x) (gr_body x) in
  let fr' := advance fr (S (length l1)) nx (l1 ++ x' :: l2) in
  Inv st' (pre ++ fr' :: post) /\
  a_tail (abs st (pre ++ fr :: post)) = (abs st' (pre ++ fr' :: post), gr_time x, id).
Proof.
  intros I Rf El Dx Rpre Rpost nx id st1 st2 st' x' fr'.
  destruct I as [Id Is Ic Ir If Ird Iw Iws Iwr Io Ik Ind Iid Iks It Il Iod].
  assert (HR : is_R fr = true) by (unfold is_R; rewrite Rf; reflexivity).
  assert (HW : is_W fr = false) by (unfold is_W; rewrite Rf; reflexivity).
  assert (Hwr : is_wr fr = false) by (unfold is_wr; rewrite Rf; reflexivity).
  assert (Of := Io fr ltac:(apply in_mid; auto)). rewrite HW in Of.
  destruct (inc_mid _ _ _ Is) as [N1 [N2 [Is' Isf]]].
  assert (If' := If). apply forall_mid in If'. destruct If' as [If0 [[Frec [Ftorn [Frole Frefs]]] If1]].
  unfold role_ok in Frole. rewrite Rf, El in Frole. destruct Frole as [_ [Fseen [Funs Nx]]].
  rewrite firstn_len_app in Fseen, Nx. rewrite skipn_len_app in Funs. inversion Funs as [|? ? Ux Ul2]; subst.
  unfold unseen in Ux.
  assert (Frec' := Frec). rewrite El in Frec'. apply forall_mid in Frec'. destruct Frec' as [Fr1 [[Xm [Xt [Xb _]]] Fr2]].
  assert (Hm : gr_magic x = magic_good) by (destruct Xm as [Xm|Xm]; [auto|congruence]).
  assert (Lx : live x = true) by (unfold live; rewrite Hm; reflexivity).
  set (n := gf_name fr) in *.
  set (bk := BK n (gf_next fr) (gr_time x) (blen (gr_body x)) (crc (gr_body x))).
  set (A := gknown pre ++ fknown n 0 l1). set (B := fknown n (osum l1 + rsize x) l2 ++ gknown post).
  assert (GA : gknown (pre ++ fr :: post) = A ++ B).
  { rewrite gknown_app. change (gknown (fr :: post)) with (fknown n 0 (gf_recs fr) ++ gknown post).
    rewrite El, fknown_app. cbn [Inv.fknown]. rewrite Ux. unfold A, B. rewrite <- !app_assoc. reflexivity. }
  assert (GA' : gknown (pre ++ fr' :: post) = A ++ (id, bk) :: B).
  { rewrite gknown_app. change (gknown (fr' :: post)) with (fknown n 0 (l1 ++ x' :: l2) ++ gknown post).
    rewrite fknown_app. cbn [Inv.fknown gr_id x']. unfold A, B, bk. rewrite Nx, <- !app_assoc. reflexivity. }
  rewrite GA in *.
  assert (Fr : ~ In id (map fst (A ++ B))) by (apply fresh_id; exact Iid).
  assert (Efd : fdata fr' = fdata fr).
  { unfold Inv.fdata, fr', advance. cbn [gf_recs gf_torn]. rewrite El, !enc_recs_app, !enc_recs_cons. reflexivity. }
  assert (FE : fenc fr' = fenc fr) by (unfold Inv.fenc; rewrite Efd; reflexivity).
  assert (Rfs : refs fr' = refs fr + 1).
  { assert (Hx' : has_gid x' = true) by reflexivity.
    assert (Hx : has_gid x = false) by (unfold has_gid; rewrite Ux; reflexivity).
    unfold refs. rewrite HR, Hwr. unfold fr', advance, is_R, is_wr. cbn [gf_role gf_recs]. rewrite El, !nids_app, !nids_cons, Hx', Hx. lia. }
  split.
  - constructor; unfold st', st2, st1; ssimpl; rewrite ?GA'.
    + rewrite Id, !map_app. cbn [map]. rewrite FE. reflexivity.
    + apply Isf. reflexivity.
    + apply forall_mid in Ic. apply forall_mid. exact Ic.
    + eapply ndec_replace; eauto; simpl.
      * intros y Hy. rewrite (pre_of_reading_A pre post fr _ y Ir Rf Rpre Hy). simpl. lia.
      * intros y Hy. destruct (ranks_mid _ _ _ Ir) as [_ Rk2]. rewrite Rf in Rk2. apply Rk2; auto.
    + apply forall_mid. split; [exact If0|split; [|exact If1]].
      unfold Inv.file_ok. split; [|split; [exact Ftorn|split]].
      * unfold fr', advance. cbn [gf_recs]. apply forall_mid. split; [exact Fr1|split; [|exact Fr2]].
        unfold Inv.rec_ok, x'. cbn [gr_magic gr_time gr_body]. repeat split; auto; try lia; try (intros _; exact Lx).
      * unfold role_ok, fr', advance. cbn [gf_role gf_recs gf_next gf_torn]. rewrite firstn_S_app, skipn_S_app. repeat split; auto.
        -- rewrite app_length. simpl. lia.
        -- apply Forall_app. split; auto. constructor; auto. intros _. reflexivity.
        -- unfold nx. rewrite Nx, osum_app. simpl. unfold rsize. simpl. lia.
      * intros _. rewrite Rfs. specialize (Frefs HW). lia.
    + rewrite (names_filter_replace is_R pre fr post fr'); auto.
    + rewrite (filter_mid_out is_W pre fr post HW) in Iw. rewrite (filter_mid_out is_W pre fr' post eq_refl).
      exact Iw.
    + exact Iws.
    + eapply wr_ok_replace_nw; eauto.
    + intros y Hy. apply in_mid in Hy. destruct Hy as [Hy|[->|Hy]].
      * rewrite find_open_upd_other; [apply Io; apply in_mid; auto| |intros; reflexivity].
        apply (name_neq_pre pre fr post y Is). auto.
      * change (gf_name fr') with n. erewrite find_open_upd_same; [|exact Of|reflexivity]. rewrite Rfs, Efd. reflexivity.
      * rewrite find_open_upd_other; [apply Io; apply in_mid; auto| |intros; reflexivity].
        apply (name_neq_pre pre fr post y Is). auto.
    + apply assoc_insert; auto.
    + rewrite map_app. simpl. rewrite map_app in Ind, Fr. apply nodup_insert; auto.
    + apply forall_mid. apply Forall_app in Iid. destruct Iid as [I1 I2]. split; [|split].
      * eapply Forall_impl; [|exact I1]. simpl. intros; lia.
      * simpl. unfold id. lia.
      * eapply Forall_impl; [|exact I2]. simpl. intros; lia.
    + rewrite Iks, !ksize_app. simpl. lia.
    + rewrite It, !gtotal_app. simpl. rewrite Efd. reflexivity.
    + unfold id. lia.
    + apply forall_upd_open; auto.
  - unfold a_tail, abs. cbn [a_ents a_last]. fold id.
    assert (PreIds : Forall has_aid (aents pre)).
    { apply aents_ids. apply Forall_forall. intros y Hy.
      assert (Ry := pre_of_reading_A pre post fr _ y Ir Rf Rpre Hy).
      rewrite Forall_forall in If0. destruct (If0 y Hy) as [_ [_ [Ro _]]]. unfold role_ok in Ro. rewrite Ry in Ro. exact Ro. }
    rewrite !aents_app. change (aents (fr :: post)) with (fents (gf_recs fr) ++ aents post).
    change (aents (fr' :: post)) with (fents (l1 ++ x' :: l2) ++ aents post).
    rewrite El, !fents_app, (fents_cons_live x l2 Lx), (fents_cons_live x' l2 Lx).
    rewrite assign_first_skip by exact PreIds. rewrite <- !app_assoc.
    rewrite assign_first_skip by (apply seen_fents_ids; exact Fseen).
    cbn [app assign_first to_ent a_id]. rewrite Ux. reflexivity.
Qed.

(* ---------- one iteration of the loop ---------- *)
Lemma unref_last st n : s_last_id (unref st n) = s_last_id st.
Proof. unfold unref. destruct (find_open n (s_open st)) as [m|]; auto. destruct (mf_ref m - 1 =? 0); reflexivity. Qed.

Lemma split_at {A} (l : list A) i : (i < length l)%nat -> exists l1 x l2, l = l1 ++ x :: l2 /\ length l1 = i.
Proof.
  intros H. destruct (skipn i l) as [|x l2] eqn:E.
  - pose proof (skipn_length i l) as L. rewrite E in L. simpl in L. lia.
  - exists (firstn i l), x, l2. split.
    + rewrite <- E. symmetry. apply firstn_skipn.
    + apply firstn_length_le. lia.
Qed.

Lemma tail_iter_inv st g : Inv st g ->
  match tail_iter rep st with
  | TCont st' => exists g', Inv st' g' /\ aents g' = aents g /\ s_last_id st' = s_last_id st /\ (mu g' < mu g)%nat
  | TDone st' t i => exists g', Inv st' g' /\ a_tail (abs st g) = (abs st' g', t, i)
  end.
Proof.
  intros I. unfold tail_iter. destruct (s_reading st) as [r|] eqn:Rd.
  - (* a file is being read *)
    pose proof (I_reading _ _ _ _ I) as Ird. rewrite Rd in Ird. simpl in Ird.
    destruct (filter is_R g) as [|fr rest] eqn:F; [discriminate|]. simpl in Ird. inversion Ird as [[Nr Erest]].
    apply map_nil_inv in Erest. subst rest. subst r.
    destruct (filter_head_split _ _ _ _ F) as [pre [post [-> [Rpre [Rpost HR]]]]].
    destruct (gf_role fr) as [|i| |] eqn:Rf; try (unfold is_R in HR; rewrite Rf in HR; discriminate).
    assert (Of := I_open _ _ _ _ I fr ltac:(apply in_mid; auto)).
    assert (HW : is_W fr = false) by (unfold is_W; rewrite Rf; reflexivity). rewrite HW in Of. rewrite Of.
    destruct (inc_mid _ _ _ (I_sorted _ _ _ _ I)) as [N1 _].
    rewrite (I_disk _ _ _ _ I), (find_file_fenc crc pre fr post N1). cbn [mf_size mf_next].
    assert (Fok : file_ok fr) by (pose proof (I_files _ _ _ _ I) as X; apply forall_mid in X; tauto).
    assert (Li : (i <= length (gf_recs fr))%nat) by (destruct Fok as [_ [_ [Ro _]]]; unfold role_ok in Ro; rewrite Rf in Ro; tauto).
    destruct (Nat.eq_dec i (length (gf_recs fr))) as [Ei|Ni].
    + rewrite (parse_at_end fr i Fok Rf Ei).
      destruct (close_inv st pre fr post i I Rf Ei Rpre Rpost) as [g' [I' [A' M']]].
      exists g'. split; [exact I'|]. split; [exact A'|]. split; [simpl; apply unref_last|exact M'].
    + destruct (split_at (gf_recs fr) i ltac:(lia)) as [l1 [x [l2 [El Ll]]]]. subst i.
      destruct (parse_at_rec fr _ l1 x l2 Fok Rf El eq_refl) as [Nx P]. rewrite P.
      destruct (is_deleted_magic rep (gr_magic x)) eqn:D.
      * destruct (skip_inv st pre fr post l1 x l2 I Rf El D Rpre Rpost) as [I' [A' M']].
        eexists. split; [exact I'|]. split; [exact A'|]. split; [reflexivity|exact M'].
      * destruct (good_inv st pre fr post l1 x l2 I Rf El D Rpre Rpost) as [I' A'].
        eexists. split; [exact I'|exact A'].
  - (* no file is being read *)
    pose proof (I_reading _ _ _ _ I) as Ird. rewrite Rd in Ird. simpl in Ird. apply map_nil_inv in Ird.
    pose proof (I_waiting _ _ _ _ I) as Iw.
    destruct (s_waiting st) as [|[n sz] rest] eqn:Ws.
    + symmetry in Iw. apply map_nil_inv in Iw.
      exists g. split; auto. unfold a_tail, abs. cbn [a_ents a_last].
      rewrite assign_first_none; auto. apply aents_ids. apply Forall_forall. intros f Hf.
      apply role_seen.
      * pose proof (I_files _ _ _ _ I) as X. rewrite Forall_forall in X. auto.
      * apply filter_nil_forall in Ird. rewrite Forall_forall in Ird. auto.
      * apply filter_nil_forall in Iw. rewrite Forall_forall in Iw. auto.
    + destruct (filter is_W g) as [|fw W'] eqn:FW; [discriminate|]. simpl in Iw. inversion Iw as [[En Es Er]]. subst n sz.
      destruct (filter_head_split _ _ _ _ FW) as [pre [post [-> [Wpre [Wpost Wf]]]]].
      destruct (inc_mid _ _ _ (I_sorted _ _ _ _ I)) as [N1 _].
      rewrite (I_disk _ _ _ _ I), (find_file_fenc crc pre fw post N1).
      assert (Ws' : s_waiting st = (gf_name fw, blen (fdata fw)) :: map (fun f => (gf_name f, blen (fdata f))) W') by (rewrite Ws; f_equal; congruence).
      destruct (pop_inv st pre fw post _ I Rd Wpre Wf Ws') as [I' [A' M']].
      eexists. split; [exact I'|]. split; [exact A'|]. split; [reflexivity|exact M'].
Qed.

(* ---------- the loop ---------- *)
Lemma tail_loop_inv : forall n st g, Inv st g -> (mu g < n)%nat ->
  exists st' t i g', tail_loop rep n st = Some (st', t, i) /\ Inv st' g' /\ a_tail (abs st g) = (abs st' g', t, i).
Proof.
  induction n as [|n IH]; intros st g I M; [lia|].
  simpl. pose proof (tail_iter_inv st g I) as T. destruct (tail_iter rep st) as [st1|st1 t i].
  - destruct T as [g1 [I1 [A1 [L1 M1]]]].
    destruct (IH st1 g1 I1 ltac:(lia)) as [st' [t [i [g' [E [I' A']]]]]].
    exists st', t, i, g'. split; [exact E|]. split; [exact I'|].
    unfold abs in *. rewrite <- A1, <- L1. exact A'.
  - destruct T as [g' [I' A']]. exists st1, t, i, g'. auto.
Qed.

Definition nrecs (g : list gfile) : nat := fold_right (fun f a => (length (gf_recs f) + a)%nat) O g.

Lemma enc_recs_len l : (length l <= length (enc_recs l))%nat.
Proof.
  induction l as [|r l IH]; [simpl; lia|]. rewrite enc_recs_cons, app_length.
  unfold Inv.enc_rec. rewrite app_length, enc_header_length. cbn [length]. lia.
Qed.

Lemma nrecs_disk g : (nrecs g <= disk_len (map fenc g))%nat.
Proof.
  induction g as [|f g IH]; simpl; auto. unfold Inv.fdata. rewrite app_length.
  pose proof (enc_recs_len (gf_recs f)). lia.
Qed.

Lemma mu_bound g : (mu g <= 2 * length (filter is_W g) + length (filter is_R g) + nrecs g)%nat.
Proof.
  induction g as [|f g IH]; [simpl; lia|]. change (mu (f :: g)) with (mu1 f + mu g)%nat.
  change (nrecs (f :: g)) with (length (gf_recs f) + nrecs g)%nat. cbn [filter].
  destruct (gf_role f) eqn:R;
  (assert (HW : is_W f = match gf_role f with RW => true | _ => false end) by reflexivity;
   assert (HR : is_R f = match gf_role f with RR _ => true | _ => false end) by reflexivity;
   rewrite R in HW, HR; rewrite HW, HR; unfold mu1; rewrite R; cbn [length]; lia).
Qed.

Lemma tail_inv st g : Inv st g ->
  exists st' t i g', tail rep st = Some (st', t, i) /\ Inv st' g' /\ a_tail (abs st g) = (abs st' g', t, i).
Proof.
  intros I. unfold tail. apply tail_loop_inv; auto. unfold tail_fuel.
  pose proof (mu_bound g) as B. pose proof (nrecs_disk g) as D. rewrite <- (I_disk _ _ _ _ I) in D.
  assert (LW : length (s_waiting st) = length (filter is_W g)) by (rewrite (I_waiting _ _ _ _ I), map_length; reflexivity).
  assert (LR : (length (filter is_R g) <= 1)%nat).
  { rewrite <- (map_length gf_name), (I_reading _ _ _ _ I). destruct (s_reading st); simpl; lia. }
  lia.
Qed.

End T.
