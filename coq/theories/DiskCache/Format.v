(* C09 — theorems about DiskCache.Model that hold for all inputs (no bound): the record format read by
   ReadNextTailSecond, the erase overwrite, crc detection in GetBucket, and the refutation witness F-C09. *)
From Coq Require Import ZArith List Bool Lia.
From SH Require Import Common.Wrap Gen.DiskCacheConsts DiskCache.Model DiskCache.Spec.
Import ListNotations.
Open Scope Z_scope.

(* ---------- GetBucket: whatever is returned passed the time and crc checks of the known bucket ---------- *)
Lemma get_ok_sound crc st id t st' data :
  get crc st id t = (st', GOk data) ->
  st' = st /\ exists b, find_known id (s_known st) = Some b /\ b_time b = t /\ crc data = b_crc b /\
                        exists d, find_file (b_file b) (s_disk st) = Some d /\ data = slice d (b_pos b + 20) (b_size b).
Proof.
  unfold get. destruct (find_known id (s_known st)) as [b|] eqn:K; [|intros H; inversion H].
  destruct (b_time b =? t) eqn:T; simpl; [|intros H; inversion H].
  destruct (find_file (b_file b) (s_disk st)) as [d|] eqn:F; [|intros H; inversion H].
  destruct (blen (slice d (b_pos b + 20) (b_size b)) <? b_size b); [intros H; inversion H|].
  destruct (crc (slice d (b_pos b + 20) (b_size b)) =? b_crc b) eqn:C; simpl; intros H; inversion H; subst.
  split; auto. exists b. repeat split; auto.
  - apply Z.eqb_eq; exact T.
  - apply Z.eqb_eq; exact C.
  - exists d; auto.
Qed.

(* a byte flip (or any other change of the directory contents) leaves the known buckets alone *)
Lemma corrupt_known st f p v : s_known (corrupt st f p v) = s_known st.
Proof.
  unfold corrupt. destruct (nth_error (s_disk st) f) as [[n d]|]; auto.
  destruct ((0 <=? p) && (p <? blen d)); auto.
Qed.

Lemma find_known_app k id b i :
  find_known i (k ++ [(id, b)]) = match find_known i k with Some x => Some x | None => if id =? i then Some b else None end.
Proof. induction k as [|[j c] k IH]; simpl; auto. destruct (j =? i); auto. Qed.

(* the bucket PutBucket registers carries crc(body) *)
Lemma put_registers crc st t body age st' id :
  put crc st t body age = (st', Some id) ->
  id = s_last_id st' /\ (find_known id (s_known st) = None -> exists b, find_known id (s_known st') = Some b /\ b_crc b = crc body /\ b_time b = t).
Proof.
  unfold put, put_gen. destruct (max_chunk_size <? blen body); [intros H; inversion H|].
  set (st1 := prepare_write st (blen body) age).
  assert (K1 : s_known st1 = s_known st).
  { unfold st1, prepare_write. destruct (rotate_needed st (blen body) age).
    - destruct (s_writing st) as [w|]; simpl.
      + unfold unref. destruct (find_open w (s_open st)) as [m|]; simpl.
        * destruct (mf_ref m - 1 =? 0); simpl; reflexivity.
        * destruct (s_writing st); reflexivity.
      + destruct (s_writing st); reflexivity.
    - destruct (s_writing st); reflexivity. }
  destruct (s_writing st1) as [w|]; [|intros H; inversion H].
  destruct (find_open w (s_open st1)) as [m|]; [|intros H; inversion H].
  intros H; inversion H; subst; clear H. simpl. split; auto.
  intros Hn. rewrite K1. rewrite find_known_app. unfold st1 in *. 
  assert (L : s_last_id (prepare_write st (blen body) age) = s_last_id st).
  { unfold prepare_write. destruct (rotate_needed st (blen body) age).
    - destruct (s_writing st) as [w0|]; simpl.
      + unfold unref. destruct (find_open w0 (s_open st)) as [m0|]; simpl.
        * destruct (mf_ref m0 - 1 =? 0); simpl; reflexivity.
        * destruct (s_writing st); reflexivity.
      + destruct (s_writing st); reflexivity.
    - destruct (s_writing st); reflexivity. }
  rewrite L in *. rewrite Hn. rewrite Z.eqb_refl. eexists; split; [reflexivity|]. simpl. auto.
Qed.

(* "never returns corrupted data": a second put in this session, fetched after any change of the file bytes,
   comes back identical or the changed bytes collide with the original under crc32c *)
Theorem get_detects_corruption_or_collision crc st t body age st1 id flips st2 st3 data :
  put crc st t body age = (st1, Some id) ->
  find_known id (s_known st) = None ->
  fold_left (fun s c => let '(f, p, v) := c in corrupt s f p v) flips st1 = st2 ->
  get crc st2 id t = (st3, GOk data) ->
  data = body \/ (data <> body /\ crc data = crc body).
Proof.
  intros P N F G.
  destruct (put_registers crc _ _ _ _ _ _ P) as [_ R]. destruct (R N) as [b [Kb [Cb Tb]]].
  assert (K2 : s_known st2 = s_known st1).
  { subst st2. clear. revert st1. induction flips as [|[[f p] v] l IH]; intros st1; simpl; auto.
    rewrite IH. apply corrupt_known. }
  destruct (get_ok_sound crc _ _ _ _ _ G) as [_ [b' [Kb' [_ [C _]]]]].
  rewrite K2, Kb in Kb'. inversion Kb'; subst b'.
  destruct (list_eq_dec Z.eq_dec data body) as [E|NE]; [left; exact E|right]. split; auto. congruence.
Qed.

(* ---------- byte-level facts ---------- *)
Lemma le_bytes_length n x : length (le_bytes n x) = n.
Proof. revert x. induction n; simpl; auto. Qed.

Lemma le_val_le_bytes n : forall x, 0 <= x < 256 ^ Z.of_nat n -> le_val (le_bytes n x) = x.
Proof.
  induction n as [|k IH]; intros x H.
  - simpl in *. lia.
  - cbn [le_bytes le_val]. rewrite IH.
    + pose proof (Z.div_mod x 256 ltac:(lia)). lia.
    + rewrite Nat2Z.inj_succ, Z.pow_succ_r in H by lia. split.
      * apply Z.div_pos; lia.
      * apply Z.div_lt_upper_bound; lia.
Qed.

Lemma to_nat_blen (d : bytes) : Z.to_nat (blen d) = length d.
Proof. unfold blen. apply Nat2Z.id. Qed.

Lemma blen_app (a b : bytes) : blen (a ++ b) = blen a + blen b.
Proof. unfold blen. rewrite app_length. lia. Qed.

Lemma blen_nonneg (d : bytes) : 0 <= blen d.
Proof. unfold blen. lia. Qed.

Lemma slice_mid (a b c : bytes) p n :
  p = blen a -> n = blen b -> slice (a ++ b ++ c) p n = b.
Proof.
  intros -> ->. unfold slice. rewrite !to_nat_blen.
  rewrite skipn_app, skipn_all, Nat.sub_diag. simpl.
  rewrite firstn_app, firstn_all, Nat.sub_diag. simpl. apply app_nil_r.
Qed.

Lemma slice_short (a b : bytes) p n :
  p = blen a -> blen b <= n -> slice (a ++ b) p n = b.
Proof.
  intros -> H. unfold slice. rewrite to_nat_blen, skipn_app, skipn_all, Nat.sub_diag. simpl.
  apply firstn_all2. unfold blen in H. lia.
Qed.

Lemma slice_skip (a b : bytes) p n : p = blen a -> slice (a ++ b) p n = slice b 0 n.
Proof.
  intros ->. unfold slice. rewrite to_nat_blen, skipn_app, skipn_all, Nat.sub_diag. reflexivity.
Qed.

Lemma enc_header_length m t s c : length (enc_header m t s c) = 20%nat.
Proof. unfold enc_header. rewrite !app_length, !le_bytes_length. reflexivity. Qed.

Lemma header_fields m t s c :
  let h := enc_header m t s c in
  slice h 0 4 = le_bytes 4 m /\ slice h 4 4 = le_bytes 4 t /\ slice h 8 8 = le_bytes 8 s /\ slice h 16 4 = le_bytes 4 c.
Proof.
  unfold enc_header. repeat split.
Qed.

Lemma max_chunk_small : 0 < max_chunk_size < two63.
Proof. vm_compute. split; reflexivity. Qed.

Lemma le4 x : 0 <= x < two32 -> le_val (le_bytes 4 x) = x.
Proof. intros H. apply le_val_le_bytes. change (256 ^ Z.of_nat 4) with two32. exact H. Qed.
Lemma le8 x : 0 <= x < two64 -> le_val (le_bytes 8 x) = x.
Proof. intros H. apply le_val_le_bytes. change (256 ^ Z.of_nat 8) with two64. exact H. Qed.

Lemma i64_small x : 0 <= x < two63 -> i64 x = x.
Proof.
  intros H. unfold i64. rewrite Z.mod_small by (unfold two63, two64 in *; lia).
  destruct (x <? two63) eqn:E; auto. apply Z.ltb_ge in E. lia.
Qed.

(* ---------- the record format as ReadNextTailSecond reads it ---------- *)
(* "record framing with magic, time, size, crc32c": at the start of any complete record (whatever precedes and
   follows it) the reader recovers exactly time, body length and crc, and the position of the next record; a
   deleted record is skipped by its length; any other magic closes the file *)
Theorem parse_record rep pre m t body c post size :
  0 <= m < two32 -> 0 <= t < two32 -> 0 <= c < two32 -> blen body <= max_chunk_size ->
  blen pre + 20 + blen body <= size ->
  parse_at rep (pre ++ enc_header m t (blen body) c ++ body ++ post) size (blen pre) =
    if is_deleted_magic rep m then PSkip (blen pre + (20 + blen body))
    else if m =? magic_good then PGood t (blen body) c (blen pre + (20 + blen body)) else PClose.
Proof.
  intros Hm Ht Hc Hb Hs. pose proof (blen_nonneg body). pose proof (blen_nonneg pre). pose proof max_chunk_small.
  unfold parse_at.
  destruct (size <=? blen pre) eqn:E1; [apply Z.leb_le in E1; lia|].
  rewrite (slice_mid pre (enc_header m t (blen body) c) (body ++ post)) by (auto; unfold blen; rewrite enc_header_length; reflexivity).
  assert (L : blen (enc_header m t (blen body) c) = 20) by (unfold blen; rewrite enc_header_length; reflexivity).
  rewrite L. change (20 <? 20) with false. cbv iota.
  destruct (header_fields m t (blen body) c) as [F1 [F2 [F3 F4]]]. rewrite F1, F2, F3, F4.
  rewrite (le4 m), (le4 t), (le4 c) by assumption.
  rewrite le8 by (unfold two63, two64 in *; lia). rewrite i64_small by lia.
  destruct (blen body <? 0) eqn:E2; [apply Z.ltb_lt in E2; lia|].
  destruct (max_chunk_size <? blen body) eqn:E3; [apply Z.ltb_lt in E3; lia|].
  destruct (size <? blen pre + 20 + blen body) eqn:E4; [apply Z.ltb_lt in E4; lia|].
  simpl. destruct (is_deleted_magic rep m); auto. destruct (m =? magic_good); auto.
Qed.

(* "a crash that tears the last write at any byte": a proper prefix of a record at the end of a file (the file
   size is what the restart finds) closes the file without handing anything out *)
Theorem parse_torn_tail rep pre t body c k :
  0 <= t < two32 -> 0 <= c < two32 -> blen body <= max_chunk_size ->
  (k < 20 + length body)%nat ->
  let tail := firstn k (enc_header magic_good t (blen body) c ++ body) in
  parse_at rep (pre ++ tail) (blen (pre ++ tail)) (blen pre) = PClose.
Proof.
  intros Ht Hc Hb Hk tail. pose proof (blen_nonneg body). pose proof (blen_nonneg pre). pose proof max_chunk_small.
  assert (Ltail : length tail = k).
  { unfold tail. apply firstn_length_le. rewrite app_length, enc_header_length. lia. }
  unfold parse_at. rewrite blen_app.
  destruct (blen pre + blen tail <=? blen pre) eqn:E1; auto.
  rewrite (slice_skip pre tail) by reflexivity.
  destruct (Nat.lt_ge_cases k 20) as [Hlt|Hge].
  - (* torn inside the header: short read *)
    assert (S : blen (slice tail 0 20) <? 20 = true).
    { apply Z.ltb_lt. unfold slice, blen. simpl skipn. rewrite firstn_length, Ltail. lia. }
    rewrite S. reflexivity.
  - (* header complete, body incomplete: chunk runs past the end of the file *)
    assert (T : slice tail 0 20 = enc_header magic_good t (blen body) c).
    { unfold slice. simpl skipn. unfold tail. rewrite firstn_firstn.
      replace (Init.Nat.min (Z.to_nat 20) k) with 20%nat by lia.
      rewrite firstn_app, enc_header_length. replace (Z.to_nat 20 - 20)%nat with 0%nat by lia. simpl firstn at 2. rewrite app_nil_r.
      apply firstn_all2. rewrite enc_header_length. lia. }
    rewrite T.
    assert (L : blen (enc_header magic_good t (blen body) c) = 20) by (unfold blen; rewrite enc_header_length; reflexivity).
    rewrite L. change (20 <? 20) with false. cbv iota.
    destruct (header_fields magic_good t (blen body) c) as [F1 [F2 [F3 F4]]]. rewrite F3.
    rewrite le8 by (unfold two63, two64 in *; lia). rewrite i64_small by lia.
    assert (E4 : blen pre + blen tail <? blen pre + 20 + blen body = true).
    { apply Z.ltb_lt. unfold blen at 2 4. rewrite Ltail. lia. }
    rewrite E4. rewrite !orb_true_r. reflexivity.
Qed.

(* ---------- "erase by overwriting magic" ---------- *)
Lemma write_at_mid (pre cur rest new : bytes) :
  (length new <= length cur)%nat ->
  write_at (pre ++ cur ++ rest) (blen pre) new = pre ++ (new ++ skipn (length new) cur) ++ rest.
Proof.
  intros H. unfold write_at. rewrite to_nat_blen.
  rewrite firstn_app, firstn_all, Nat.sub_diag. simpl firstn. rewrite app_nil_r.
  rewrite skipn_app. rewrite (skipn_all2 pre) by lia.
  replace (length pre + length new - length pre)%nat with (length new) by lia.
  simpl app. rewrite skipn_app. replace (length new - length cur)%nat with 0%nat by lia.
  simpl skipn at 2. rewrite <- app_assoc. reflexivity.
Qed.

(* The overwrite touches the magic of that one record only — time, length, crc, body and every other byte of
   the file stay.  Torn after k bytes it leaves: the good magic (k <= 2: the record is still there), the
   deleted magic (k = 4), or, for k = 3, the value 0x590007EC that is neither. *)
Theorem erase_overwrite_torn pre t s c rest k :
  0 <= k <= 4 ->
  write_at (pre ++ enc_header magic_good t s c ++ rest) (blen pre) (firstn (Z.to_nat k) magic_bytes_deleted)
  = pre ++ enc_header (if k <=? 2 then magic_good else if k =? 3 then magic_torn_deleted else magic_deleted) t s c ++ rest.
Proof.
  intros Hk. unfold enc_header. rewrite <- !app_assoc.
  rewrite write_at_mid.
  2:{ rewrite firstn_length, le_bytes_length. unfold magic_bytes_deleted. rewrite le_bytes_length. lia. }
  f_equal. rewrite <- !app_assoc.
  assert (C : k = 0 \/ k = 1 \/ k = 2 \/ k = 3 \/ k = 4) by lia.
  destruct C as [-> | [-> | [-> | [-> | ->]]]]; reflexivity.
Qed.

Example magic_torn_value : magic_torn_deleted = 1493174252 (* 0x590007EC *) /\ is_deleted_magic false magic_torn_deleted = false
                           /\ is_deleted_magic true magic_torn_deleted = true.
Proof. vm_compute. auto. Qed.

(* ---------- F-C09: the code as it is loses seconds that were never touched when an erase is torn at byte 3 ---------- *)
Definition fc09_ops : list op := [OPut 1 [10] false; OPut 2 [20; 21] false; OPut 3 [30] false].

(* "only a second whose write was torn may be missing" fails for the faithful model: after putting three seconds
   into one file, an erase of the first one torn after 3 bytes makes the restart lose all three *)
Theorem torn_erase_refuted :
  exists ops id k s,
    a_run false a_empty ops = Some s /\ 0 <= k <= 4 /\
    let st := fst (run crc32c false empty_shard ops) in
    let r := reread crc32c false (erase_torn st id k) in
    r <> expected s /\ r <> expected (a_erase s id).
Proof.
  exists fc09_ops, 1, 3. eexists. split; [vm_compute; reflexivity|]. split; [lia|].
  vm_compute. split; intros H; discriminate H.
Qed.

(* the same witness with the repaired reader: exactly the erased second is missing *)
Lemma torn_erase_witness_repaired :
  exists s, a_run true a_empty fc09_ops = Some s /\
    reread crc32c true (erase_torn (fst (run crc32c true empty_shard fc09_ops)) 1 3) = expected (a_erase s 1)
    /\ expected (a_erase s 1) = [(2, GOk [20; 21]); (3, GOk [30])].
Proof. eexists. split; [vm_compute; reflexivity|]. vm_compute. auto. Qed.

(* ---------- an erased id is unknown to GetBucket at once ---------- *)
Lemma find_known_del k id : find_known id (del_known id k) = None.
Proof.
  induction k as [|[j b] k IH]; simpl; auto.
  destruct (j =? id) eqn:E; simpl; auto. rewrite E. exact IH.
Qed.

Lemma unref_known st n : s_known (unref st n) = s_known st.
Proof. unfold unref. destruct (find_open n (s_open st)) as [m|]; auto. destruct (mf_ref m - 1 =? 0); reflexivity. Qed.

Theorem erased_is_unknown crc st id t : snd (get crc (erase st id) id t) = GUnknown.
Proof.
  unfold erase. destruct (find_known id (s_known st)) as [b|] eqn:K.
  - unfold get. simpl s_known. rewrite unref_known. simpl s_known. rewrite find_known_del. reflexivity.
  - unfold get. rewrite K. reflexivity.
Qed.
