(* C14 — proofs about the TL1 universe model: one round-trip proof for every description. *)
From Coq Require Import ZArith List Bool Lia.
From SH Require Import Common.Wrap TL.Model.
Import ListNotations.
Open Scope Z_scope.

(* ---------- little endian ---------- *)
Lemma le_enc_length n z : length (le_enc n z) = n.
Proof. revert z; induction n; simpl; intros; auto. Qed.

Lemma le_dec_enc n : forall z, 0 <= z < 256 ^ (Z.of_nat n) -> le_dec (le_enc n z) = z.
Proof.
  induction n; intros z H.
  - simpl in *. lia.
  - cbn [le_enc le_dec]. rewrite IHn.
    + pose proof (Z.div_mod z 256 ltac:(lia)). lia.
    + rewrite Nat2Z.inj_succ, Z.pow_succ_r in H by lia.
      split. apply Z.div_pos; lia. apply Z.div_lt_upper_bound; lia.
Qed.

Lemma le_enc_bytes n : forall z b, In b (le_enc n z) -> 0 <= b < 256.
Proof.
  induction n; simpl; intros z b H; [tauto|]. destruct H as [<-|H].
  - apply Z.mod_pos_bound; lia.
  - eauto.
Qed.

Lemma zlen_app {A} (a b : list A) : zlen (a ++ b) = zlen a + zlen b.
Proof. unfold zlen. rewrite app_length. lia. Qed.
Lemma zlen_nonneg {A} (a : list A) : 0 <= zlen a.
Proof. unfold zlen. lia. Qed.

Lemma takez_app a r : takez (zlen a) (a ++ r) = Some (a, r).
Proof.
  unfold takez. rewrite zlen_app.
  pose proof (zlen_nonneg r).
  destruct (zlen a + zlen r <? zlen a) eqn:E; [apply Z.ltb_lt in E; lia|].
  unfold zlen. rewrite Nat2Z.id.
  rewrite firstn_app, Nat.sub_diag, firstn_all, firstn_O, app_nil_r.
  rewrite skipn_app, Nat.sub_diag, skipn_all. reflexivity.
Qed.

Lemma takez_app_n n a r : zlen a = n -> takez n (a ++ r) = Some (a, r).
Proof. intros <-. apply takez_app. Qed.

Lemma takez_le4 z r : takez 4 (le_enc 4 z ++ r) = Some (le_enc 4 z, r).
Proof. apply takez_app_n. unfold zlen. rewrite le_enc_length. reflexivity. Qed.
Lemma takez_le8 z r : takez 8 (le_enc 8 z ++ r) = Some (le_enc 8 z, r).
Proof. apply takez_app_n. unfold zlen. rewrite le_enc_length. reflexivity. Qed.

Lemma le4 z : 0 <= z < two32 -> le_dec (le_enc 4 z) = z.
Proof. intros. apply le_dec_enc. unfold two32 in *. simpl. lia. Qed.
Lemma le8 z : 0 <= z < two64 -> le_dec (le_enc 8 z) = z.
Proof. intros. apply le_dec_enc. unfold two64 in *. simpl. lia. Qed.

Lemma is_tag_spec t : is_tag t = true -> 0 <= t < two32.
Proof. unfold is_tag. rewrite andb_true_iff, Z.leb_le, Z.ltb_lt. tauto. Qed.

(* ---------- strings ---------- *)
Lemma forallb_zeros n : forallb (Z.eqb 0) (zeros n) = true.
Proof. unfold zeros. induction (Z.to_nat n); simpl; auto. Qed.

(* writer's padding (switch on p%4) is the reader's paddingLen (-p)%4 zeros *)
Lemma write_padding_zeros p : write_padding (p mod 4) = zeros (padding_len p).
Proof.
  unfold padding_len, write_padding.
  pose proof (Z.mod_pos_bound p 4 ltac:(lia)) as Hb.
  assert (Hm : (- p) mod 4 = (4 - p mod 4) mod 4).
  { rewrite <- (Z.mod_opp_l_z (-p) 4) at 0 || idtac.
    replace (- p) with (- (p mod 4) + (- (p / 4)) * 4) by (pose proof (Z.div_mod p 4 ltac:(lia)); lia).
    rewrite Z.mod_add by lia.
    replace (4 - p mod 4) with (- (p mod 4) + 1 * 4) by lia. rewrite Z.mod_add by lia. reflexivity. }
  rewrite Hm.
  assert (p mod 4 = 0 \/ p mod 4 = 1 \/ p mod 4 = 2 \/ p mod 4 = 3) as [E|[E|[E|E]]] by lia;
    rewrite E; reflexivity.
Qed.

Lemma zlen_zeros n : 0 <= n -> zlen (zeros n) = n.
Proof. intros. unfold zlen, zeros. rewrite repeat_length. lia. Qed.

Lemma read_string_body_ok s p r :
  read_string_body (zlen s) p (s ++ write_padding (p mod 4) ++ r) = Some (s, r).
Proof.
  unfold read_string_body. rewrite takez_app.
  rewrite write_padding_zeros.
  rewrite takez_app_n.
  - rewrite forallb_zeros. reflexivity.
  - apply zlen_zeros. unfold padding_len. apply Z.mod_pos_bound. lia.
Qed.

Lemma read_write_string s r :
  forallb byte_ok s = true -> zlen s < two56 ->
  read_string (write_string s ++ r) = Some (s, r).
Proof.
  intros Hb Hl. unfold write_string, string_hdr.
  pose proof (zlen_nonneg s) as Hn.
  destruct (zlen s <=? 253) eqn:E1.
  - apply Z.leb_le in E1. cbn [app read_string].
    replace (zlen s <=? 253) with true by (symmetry; apply Z.leb_le; lia).
    rewrite <- app_assoc. apply read_string_body_ok.
  - apply Z.leb_gt in E1.
    destruct (zlen s <=? 16777215) eqn:E2.
    + apply Z.leb_le in E2. cbn [app read_string].
      replace (254 <=? 253) with false by reflexivity.
      replace (254 =? 254) with true by reflexivity.
      rewrite <- !app_assoc.
      rewrite (takez_app_n 3 (le_enc 3 (zlen s))) by (unfold zlen at 1; rewrite le_enc_length; reflexivity).
      rewrite le_dec_enc by (simpl; lia).
      replace (zlen s <=? 253) with false by (symmetry; apply Z.leb_gt; lia).
      apply read_string_body_ok.
    + apply Z.leb_gt in E2. cbn [app read_string].
      replace (255 <=? 253) with false by reflexivity.
      replace (255 =? 254) with false by reflexivity.
      rewrite <- !app_assoc.
      rewrite (takez_app_n 7 (le_enc 7 (zlen s))) by (unfold zlen at 1; rewrite le_enc_length; reflexivity).
      rewrite le_dec_enc by (unfold two56 in Hl; simpl; lia).
      replace (zlen s <=? 16777215) with false by (symmetry; apply Z.leb_gt; lia).
      apply read_string_body_ok.
Qed.

(* ---------- primitives ---------- *)
Lemma i32_u32 z : - two31 <= z < two31 -> i32 (u32 z) = z.
Proof.
  intros H. unfold i32, u32. rewrite Z.mod_mod by (unfold two32; lia).
  unfold two31, two32 in *.
  destruct (Z_lt_le_dec z 0).
  - replace (z mod 4294967296) with (z + 4294967296).
    + destruct (z + 4294967296 <? 2147483648) eqn:E; [apply Z.ltb_lt in E; lia | lia].
    + apply Z.mod_unique with (-1); lia.
  - rewrite Z.mod_small by lia.
    destruct (z <? 2147483648) eqn:E; [lia | apply Z.ltb_ge in E; lia].
Qed.
Lemma i64_u64 z : - two63 <= z < two63 -> i64 (u64 z) = z.
Proof.
  intros H. unfold i64, u64. rewrite Z.mod_mod by (unfold two64; lia).
  unfold two63, two64 in *.
  destruct (Z_lt_le_dec z 0).
  - replace (z mod 18446744073709551616) with (z + 18446744073709551616).
    + destruct (z + 18446744073709551616 <? 9223372036854775808) eqn:E; [apply Z.ltb_lt in E; lia | lia].
    + apply Z.mod_unique with (-1); lia.
  - rewrite Z.mod_small by lia.
    destruct (z <? 9223372036854775808) eqn:E; [lia | apply Z.ltb_ge in E; lia].
Qed.

Lemma rng_spec a b z : (a <=? z) && (z <? b) = true -> a <= z < b.
Proof. rewrite andb_true_iff, Z.leb_le, Z.ltb_lt. tauto. Qed.

Lemma read_write_prim p v r : wf_prim p v = true -> read_prim p (write_prim p v ++ r) = Some (v, r).
Proof.
  destruct p, v; cbn [wf_prim write_prim read_prim]; try discriminate; intros H.
  - apply rng_spec in H. rewrite takez_le4, le4 by apply u32_range. rewrite u32_id by exact H. reflexivity.
  - apply rng_spec in H. rewrite takez_le4, le4 by apply u32_range. rewrite i32_u32 by exact H. reflexivity.
  - apply rng_spec in H. rewrite takez_le8, le8 by apply u64_range. rewrite i64_u64 by exact H. reflexivity.
  - apply rng_spec in H. rewrite takez_le4, le4 by apply u32_range. rewrite u32_id by exact H. reflexivity.
  - apply rng_spec in H. rewrite takez_le8, le8 by apply u64_range. rewrite u64_id by exact H. reflexivity.
  - apply andb_true_iff in H as [Hb Hl]. apply Z.ltb_lt in Hl. rewrite read_write_string; auto.
Qed.

(* ---------- the inner loops of the model as stand-alone functions ---------- *)
Fixpoint write_fields (fs : list (option (natexpr * Z) * desc)) (lenv : list Z) (vs : list value) {struct fs} : bytes :=
  match fs, vs with
  | (c, t) :: fs', fv :: vs' =>
      if present c lenv then
        match c, fv with
        | None, _ => write lenv t fv ++ write_fields fs' (push t (Some fv) lenv) vs'
        | Some _, VOpt (Some x) => write lenv t x ++ write_fields fs' (push t (Some x) lenv) vs'
        | Some _, _ => []
        end
      else write_fields fs' (push t None lenv) vs'
  | _, _ => []
  end.

Fixpoint read_fields (fs : list (option (natexpr * Z) * desc)) (lenv : list Z) (r : bytes) {struct fs} : option (list value * bytes) :=
  match fs with
  | [] => Some ([], r)
  | (c, t) :: fs' =>
      if present c lenv then
        match read lenv t r with
        | None => None
        | Some (x, r1) =>
            match read_fields fs' (push t (Some x) lenv) r1 with
            | None => None
            | Some (xs, r2) => Some ((match c with None => x | Some _ => VOpt (Some x) end) :: xs, r2)
            end
        end
      else
        match read_fields fs' (push t None lenv) r with
        | None => None
        | Some (xs, r2) => Some (VOpt None :: xs, r2)
        end
  end.

Fixpoint wf_fields (fs : list (option (natexpr * Z) * desc)) (lenv : list Z) (vs : list value) {struct fs} : bool :=
  match fs, vs with
  | [], [] => true
  | (c, t) :: fs', fv :: vs' =>
      if present c lenv then
        match c, fv with
        | None, _ => wf lenv t fv && wf_fields fs' (push t (Some fv) lenv) vs'
        | Some _, VOpt (Some x) => wf lenv t x && wf_fields fs' (push t (Some x) lenv) vs'
        | Some _, _ => false
        end
      else
        match fv with VOpt None => wf_fields fs' (push t None lenv) vs' | _ => false end
  | _, _ => false
  end.

Definition read_n (env : list Z) (t : desc) :=
  fix go (n : nat) (r : bytes) {struct n} : option (list value * bytes) :=
  match n with
  | O => Some ([], r)
  | S n' => match read env t r with
            | None => None
            | Some (x, r1) => match go n' r1 with None => None | Some (xs, r2) => Some (x :: xs, r2) end
            end
  end.

Definition write_ctor (env : list Z) (x : value) :=
  fix go (cs : list (Z * desc)) (i : nat) {struct cs} : bytes :=
  match cs, i with
  | (tag, t) :: _, O => le_enc 4 tag ++ write env t x
  | _ :: cs', S i' => go cs' i'
  | [], _ => []
  end.

Definition read_ctor (env : list Z) (tag : Z) (r' : bytes) :=
  fix go (cs : list (Z * desc)) (i : nat) {struct cs} : option (value * bytes) :=
  match cs with
  | [] => None
  | (tg, t) :: cs' =>
      if tag =? tg then
        match read env t r' with None => None | Some (x, r2) => Some (VCtor i x, r2) end
      else go cs' (S i)
  end.

Definition wf_ctor (env : list Z) (all : list (Z * desc)) (i : nat) (x : value) :=
  fix go (cs' : list (Z * desc)) (j : nat) {struct cs'} : bool :=
  match cs', j with
  | (tag, t) :: _, O => is_tag tag && wf env t x
                        && match find_tag all tag O with Some k => Nat.eqb k i | None => false end
  | _ :: cs'', S j' => go cs'' j'
  | [], _ => false
  end.

Lemma write_struct_eq env fs vs :
  write env (DStruct fs) (VList vs) = write_fields fs env vs.
Proof. reflexivity. Qed.
Lemma read_struct_eq env fs r :
  read env (DStruct fs) r =
  match read_fields fs env r with None => None | Some (xs, r2) => Some (VList xs, r2) end.
Proof. reflexivity. Qed.
Lemma wf_struct_eq env fs vs :
  wf env (DStruct fs) (VList vs) = wf_fields fs env vs.
Proof. reflexivity. Qed.
Lemma read_vector_eq env sorted t r :
  read env (DVector sorted t) r =
  match takez 4 r with
  | None => None
  | Some (b, r') =>
      let l := le_dec b in
      if zlen r' <? l * vector_min_elem then None
      else match read_n env t (Z.to_nat l) r' with None => None | Some (xs, r2) => Some (VList xs, r2) end
  end.
Proof. reflexivity. Qed.
Lemma read_tuple_eq env n t r :
  read env (DTuple n t) r =
  match read_n env t (Z.to_nat (eval_nat env n)) r with None => None | Some (xs, r2) => Some (VList xs, r2) end.
Proof. reflexivity. Qed.
Lemma write_union_eq env cs i x : write env (DUnion cs) (VCtor i x) = write_ctor env x cs i.
Proof. reflexivity. Qed.
Lemma read_union_eq env cs r :
  read env (DUnion cs) r =
  match takez 4 r with None => None | Some (b, r') => read_ctor env (le_dec b) r' cs O end.
Proof. reflexivity. Qed.
Lemma wf_union_eq env cs i x : wf env (DUnion cs) (VCtor i x) = wf_ctor env cs i x cs i.
Proof. reflexivity. Qed.

(* ---------- induction principle for the nested type ---------- *)
Section DescInd.
  Variable P : desc -> Prop.
  Hypothesis HPrim : forall p, P (DPrim p).
  Hypothesis HBool : forall tgf tgt, P (DBool tgf tgt).
  Hypothesis HVector : forall sorted t, P t -> P (DVector sorted t).
  Hypothesis HTuple : forall n t, P t -> P (DTuple n t).
  Hypothesis HStruct : forall fs, Forall (fun cf => P (snd cf)) fs -> P (DStruct fs).
  Hypothesis HUnion : forall cs, Forall (fun c => P (snd c)) cs -> P (DUnion cs).
  Hypothesis HBoxed : forall tag t, P t -> P (DBoxed tag t).

  Fixpoint desc_ind' (d : desc) : P d :=
    match d with
    | DPrim p => HPrim p
    | DBool tgf tgt => HBool tgf tgt
    | DVector sorted t => HVector sorted t (desc_ind' t)
    | DTuple n t => HTuple n t (desc_ind' t)
    | DStruct fs =>
        HStruct fs
          ((fix go (l : list (option (natexpr * Z) * desc)) : Forall (fun cf => P (snd cf)) l :=
              match l with
              | [] => Forall_nil _
              | cf :: l' => Forall_cons cf (match cf as cf0 return P (snd cf0) with (_, t) => desc_ind' t end) (go l')
              end) fs)
    | DUnion cs =>
        HUnion cs
          ((fix go (l : list (Z * desc)) : Forall (fun c => P (snd c)) l :=
              match l with
              | [] => Forall_nil _
              | c :: l' => Forall_cons c (match c as c0 return P (snd c0) with (_, t) => desc_ind' t end) (go l')
              end) cs)
    | DBoxed tag t => HBoxed tag t (desc_ind' t)
    end.
End DescInd.

(* ---------- the round trip ---------- *)
Definition rt (d : desc) : Prop :=
  forall env v rest, wf env d v = true -> read env d (write env d v ++ rest) = Some (v, rest).

Lemma read_n_ok env t (IH : rt t) :
  forall vs rest, forallb (wf env t) vs = true ->
  read_n env t (length vs) (flat_map (write env t) vs ++ rest) = Some (vs, rest).
Proof.
  induction vs as [|v vs IHvs]; intros rest H; simpl in *.
  - reflexivity.
  - apply andb_true_iff in H as [Hv Hvs]. rewrite <- app_assoc, IH by exact Hv.
    rewrite IHvs by exact Hvs. reflexivity.
Qed.

Lemma fields_ok fs (IH : Forall (fun cf => rt (snd cf)) fs) :
  forall lenv vs rest, wf_fields fs lenv vs = true ->
  read_fields fs lenv (write_fields fs lenv vs ++ rest) = Some (vs, rest).
Proof.
  induction fs as [|[c t] fs IHfs]; intros lenv vs rest H.
  - destruct vs; simpl in *; [reflexivity | discriminate].
  - inversion IH as [|? ? Ht Hfs]; subst. simpl in Ht. specialize (IHfs Hfs).
    destruct vs as [|fv vs]; [simpl in H; discriminate|].
    cbn [wf_fields write_fields read_fields] in *.
    destruct (present c lenv) eqn:Ep.
    + destruct c as [cb|].
      * destruct fv as [| | | |[x|]|]; try discriminate.
        apply andb_true_iff in H as [Hx Hr].
        rewrite <- app_assoc, Ht by exact Hx. rewrite IHfs by exact Hr. reflexivity.
      * apply andb_true_iff in H as [Hx Hr].
        rewrite <- app_assoc, Ht by exact Hx. rewrite IHfs by exact Hr. reflexivity.
    + destruct fv as [| | | |[x|]|]; try discriminate.
      rewrite IHfs by exact H. reflexivity.
Qed.

Lemma find_tag_shift cs tag : forall i k, find_tag cs tag (S i) = Some (S k) <-> find_tag cs tag i = Some k.
Proof.
  induction cs as [|[tg t] cs IH]; intros i k; simpl.
  - split; discriminate.
  - destruct (tag =? tg).
    + split; intros H; inversion H; reflexivity.
    + apply IH.
Qed.
Lemma find_tag_S_ne0 cs tag : forall i, find_tag cs tag (S i) <> Some O.
Proof.
  induction cs as [|[tg t] cs IH]; intros i; simpl; [discriminate|].
  destruct (tag =? tg); [discriminate | apply IH].
Qed.

(* reading a constructor: generalised over the suffix of the constructor list still to be searched *)
Lemma ctor_ok env :
  forall (cs : list (Z * desc)) (IH : Forall (fun c => rt (snd c)) cs) j i x rest tag t,
  nth_error cs j = Some (tag, t) ->
  find_tag cs tag i = Some (i + j)%nat ->
  wf env t x = true ->
  read_ctor env tag (write env t x ++ rest) cs i = Some (VCtor (i + j) x, rest).
Proof.
  induction cs as [|[tg t0] cs IHcs]; intros IH j i x rest tag t Hn Hf Hw.
  - destruct j; discriminate.
  - inversion IH as [|? ? Ht Hcs]; subst. simpl in Ht. cbn [read_ctor find_tag] in *.
    destruct (tag =? tg) eqn:E.
    + assert (j = O) by (injection Hf; lia). subst j. simpl in Hn. inversion Hn; subst.
      rewrite Ht by exact Hw. replace (i + 0)%nat with i by lia. reflexivity.
    + destruct j as [|j].
      * simpl in Hn. inversion Hn; subst. rewrite Z.eqb_refl in E. discriminate.
      * simpl in Hn. replace (i + S j)%nat with (S i + j)%nat in * by lia.
        eapply IHcs; eauto.
Qed.

Lemma wf_ctor_spec env all i x : forall cs j,
  wf_ctor env all i x cs j = true ->
  exists tag t, nth_error cs j = Some (tag, t) /\ is_tag tag = true /\ wf env t x = true /\
                find_tag all tag O = Some i /\ write_ctor env x cs j = le_enc 4 tag ++ write env t x.
Proof.
  induction cs as [|[tag t] cs IH]; intros j H; simpl in H.
  - destruct j; discriminate.
  - destruct j.
    + apply andb_true_iff in H as [H H3]. apply andb_true_iff in H as [H1 H2].
      exists tag, t. simpl. repeat split; auto.
      destruct (find_tag all tag 0); [|discriminate]. apply Nat.eqb_eq in H3. congruence.
    + destruct (IH j H) as (tag' & t' & ? & ? & ? & ? & ?). exists tag', t'. simpl. auto.
Qed.

Theorem tl1_roundtrip_all : forall d, rt d.
Proof.
  induction d using desc_ind'; unfold rt; intros env v rest Hwf.
  - (* prim *) simpl. apply read_write_prim. exact Hwf.
  - (* bool *)
    destruct v; simpl in Hwf; try discriminate.
    apply andb_true_iff in Hwf as [Hwf Hne]. apply andb_true_iff in Hwf as [Hf Ht].
    apply is_tag_spec in Hf. apply is_tag_spec in Ht. apply negb_true_iff in Hne.
    cbn [write read]. destruct b.
    + rewrite takez_le4, le4 by exact Ht. rewrite Z.eqb_sym, Hne, Z.eqb_refl. reflexivity.
    + rewrite takez_le4, le4 by exact Hf. rewrite Z.eqb_refl. reflexivity.
  - (* vector *)
    destruct v; simpl in Hwf; try discriminate.
    apply andb_true_iff in Hwf as [Hwf _].
    apply andb_true_iff in Hwf as [Hwf Hsz]. apply andb_true_iff in Hwf as [Hl Hvs].
    apply Z.ltb_lt in Hl. apply Z.leb_le in Hsz.
    rewrite read_vector_eq. cbn [write]. rewrite <- app_assoc, takez_le4.
    pose proof (zlen_nonneg vs).
    rewrite le4 by apply u32_range. rewrite u32_id by (unfold is_u32; lia).
    cbv zeta. rewrite zlen_app.
    pose proof (zlen_nonneg rest).
    destruct (_ <? _) eqn:E; [apply Z.ltb_lt in E; lia|].
    unfold zlen at 1. rewrite Nat2Z.id. rewrite read_n_ok; auto.
  - (* tuple *)
    destruct v; simpl in Hwf; try discriminate.
    apply andb_true_iff in Hwf as [Hl Hvs]. apply Nat.eqb_eq in Hl.
    rewrite read_tuple_eq. cbn [write]. rewrite <- Hl. rewrite read_n_ok; auto.
  - (* struct *)
    destruct v; try (simpl in Hwf; discriminate).
    rewrite wf_struct_eq in Hwf. rewrite read_struct_eq, write_struct_eq.
    rewrite fields_ok; auto.
  - (* union *)
    destruct v; try (simpl in Hwf; discriminate).
    rewrite wf_union_eq in Hwf. rewrite read_union_eq, write_union_eq.
    destruct (wf_ctor_spec _ _ _ _ _ _ Hwf) as (tag & t & Hn & Htag & Hw & Hf & ->).
    apply is_tag_spec in Htag.
    rewrite <- app_assoc, takez_le4, le4 by exact Htag.
    apply (ctor_ok env cs H i O v rest tag t); auto.
  - (* boxed *)
    simpl in Hwf. apply andb_true_iff in Hwf as [Htag Hw]. apply is_tag_spec in Htag.
    cbn [write read]. rewrite <- app_assoc, takez_le4, le4 by exact Htag.
    rewrite Z.eqb_refl. apply IHd. exact Hw.
Qed.

Theorem tl1_roundtrip : forall d env v rest,
  wf env d v = true -> read env d (write env d v ++ rest) = Some (v, rest).
Proof. intros d. exact (tl1_roundtrip_all d). Qed.

(* a boxed value is never accepted under another tag *)
Theorem tl1_boxed_tag_checked : forall env tag tag' t v rest,
  is_tag tag = true -> tag' <> tag ->
  read env (DBoxed tag' t) (write env (DBoxed tag t) v ++ rest) = None.
Proof.
  intros env tag tag' t v rest Ht Hne. apply is_tag_spec in Ht.
  cbn [write read]. rewrite <- app_assoc, takez_le4, le4 by exact Ht.
  destruct (tag =? tag') eqn:E; [apply Z.eqb_eq in E; congruence | reflexivity].
Qed.

(* every TL1 encoding is a whole number of 4-byte words is NOT claimed (bare `true` fields are empty);
   what the string codec guarantees: *)
Theorem string_encoding_aligned : forall s, zlen s < two56 -> (zlen (write_string s)) mod 4 = 0.
Proof.
  intros s Hl. unfold write_string, string_hdr. pose proof (zlen_nonneg s) as Hn.
  assert (Hp : forall p, 0 <= p -> zlen (write_padding (p mod 4)) = (- p) mod 4).
  { intros p _. rewrite write_padding_zeros. apply zlen_zeros. apply Z.mod_pos_bound. lia. }
  assert (Hmod : forall a, (a + (- a) mod 4) mod 4 = 0).
  { intros a. rewrite Z.add_mod_idemp_r by lia. replace (a + - a) with 0 by lia. reflexivity. }
  destruct (zlen s <=? 253).
  - rewrite !zlen_app, Hp by lia. change (zlen [zlen s]) with 1.
    replace (1 + (zlen s + (- (zlen s + 1)) mod 4)) with ((zlen s + 1) + (- (zlen s + 1)) mod 4) by lia. apply Hmod.
  - destruct (zlen s <=? 16777215).
    + rewrite !zlen_app, Hp by lia. unfold zlen at 1. cbn [length]. rewrite le_enc_length.
      replace (Z.of_nat 4 + (zlen s + (- zlen s) mod 4)) with ((zlen s + (- zlen s) mod 4) + 1 * 4) by lia.
      rewrite Z.mod_add by lia. apply Hmod.
    + rewrite !zlen_app, Hp by lia. unfold zlen at 1. cbn [length]. rewrite le_enc_length.
      replace (Z.of_nat 8 + (zlen s + (- zlen s) mod 4)) with ((zlen s + (- zlen s) mod 4) + 2 * 4) by lia.
      rewrite Z.mod_add by lia. apply Hmod.
Qed.

(* ---------- frames ---------- *)
Section FrameProofs.
  Variable lz4c : bytes -> bytes.
  Variable lz4d : bytes -> Z -> option bytes.
  Variable max_size : Z.
  (* the assumed law of the foreign library: decoding the encoder's output into a buffer of the original
     size gives the original bytes back *)
  Hypothesis lz4_roundtrip : forall x, lz4d (lz4c x) (zlen x) = Some x.

  Lemma deframe_frame hdr body : zlen hdr = 4 -> deframe (hdr ++ body) = Some (le_dec hdr, body).
  Proof.
    intros H. unfold deframe. rewrite zlen_app, H. pose proof (zlen_nonneg body).
    destruct (4 + zlen body <? 4) eqn:E; [apply Z.ltb_lt in E; lia|].
    assert (length hdr = 4%nat) by (unfold zlen in H; lia).
    rewrite firstn_app, skipn_app, H1, Nat.sub_diag, firstn_O, app_nil_r.
    rewrite <- H1 at 1. rewrite firstn_all. rewrite <- H1 at 1. rewrite skipn_all. reflexivity.
  Qed.

  Theorem frame_roundtrip : forall data,
    zlen data < two32 -> zlen data <= max_size ->
    exists osize cd,
      deframe (compress_and_frame lz4c data) = Some (osize, cd) /\
      osize = zlen data /\
      decompress lz4d max_size osize cd = Some data.
  Proof.
    intros data H32 Hmax. pose proof (zlen_nonneg data).
    assert (Hh : zlen (le_enc 4 (u32 (zlen data))) = 4) by (unfold zlen at 1; rewrite le_enc_length; reflexivity).
    assert (Hd : le_dec (le_enc 4 (u32 (zlen data))) = zlen data).
    { rewrite le4 by apply u32_range. apply u32_id. unfold is_u32. lia. }
    unfold compress_and_frame. destruct (zlen (lz4c data) >=? zlen data) eqn:E.
    - exists (zlen data), data. rewrite deframe_frame by exact Hh. rewrite Hd. repeat split.
      unfold decompress. rewrite Z.eqb_refl. reflexivity.
    - exists (zlen data), (lz4c data). rewrite deframe_frame by exact Hh. rewrite Hd. repeat split.
      unfold decompress.
      assert (zlen (lz4c data) < zlen data) by (destruct (Z.geb_spec (zlen (lz4c data)) (zlen data)); [discriminate | lia]).
      destruct (zlen data =? zlen (lz4c data)) eqn:E2; [apply Z.eqb_eq in E2; lia|].
      destruct (zlen data >? max_size) eqn:E3; [apply Z.gtb_lt in E3; lia|].
      rewrite lz4_roundtrip, Z.eqb_refl. reflexivity.
  Qed.
End FrameProofs.

(* rejection needs no assumption about lz4 at all *)
Theorem frame_rejects_short : forall frame, zlen frame < 4 -> deframe frame = None.
Proof. intros frame H. unfold deframe. apply Z.ltb_lt in H. rewrite H. reflexivity. Qed.

Theorem frame_rejects_oversized : forall lz4d max_size osize cd,
  osize > max_size -> osize <> zlen cd -> decompress lz4d max_size osize cd = None.
Proof.
  intros. unfold decompress.
  destruct (osize =? zlen cd) eqn:E; [apply Z.eqb_eq in E; contradiction|].
  destruct (osize >? max_size) eqn:E2; [reflexivity | ].
  destruct (Z.gtb_spec osize max_size); [discriminate | lia].
Qed.

(* never misread: whatever lz4 does, an accepted frame yields exactly the announced number of bytes *)
Theorem frame_never_misread : forall lz4d max_size osize cd out,
  decompress lz4d max_size osize cd = Some out -> zlen out = osize.
Proof.
  intros lz4d max_size osize cd out. unfold decompress.
  destruct (osize =? zlen cd) eqn:E.
  - intros H; inversion H; subst. apply Z.eqb_eq in E. auto.
  - destruct (osize >? max_size); [discriminate|].
    destruct (lz4d cd osize) as [o|]; [|discriminate].
    destruct (zlen o =? osize) eqn:E2; [|discriminate].
    intros H; inversion H; subst. apply Z.eqb_eq in E2. exact E2.
Qed.
