(* Correspondence cases for C14: what the generated Go readers/writers and compress/lz4.go did on a given
   byte string, replayed through the model. *)
From Coq Require Import ZArith List Bool.
From SH Require Import Common.Wrap Common.Corr TL.Model TL.Model2 Gen.TLSchema.
Import ListNotations.
Open Scope Z_scope.

Fixpoint bytes_eqb (a b : bytes) : bool :=
  match a, b with
  | [], [] => true
  | x :: a', y :: b' => (x =? y) && bytes_eqb a' b'
  | _, _ => false
  end.

Inductive case :=
(* ReadTL1 / ReadTL1Boxed of schema item [tid] on [input]: None = error, Some (remaining length, what
   WriteTL1 / WriteTL1Boxed of the object just read produced) *)
| CRead (tid : nat) (boxed : bool) (input : bytes) (o : option (Z * bytes))
(* same, but the object Go decoded was not written back as the bytes it was read from (a dictionary with
   unsorted or repeated keys: the Go value is a map); the bytes written must then be a canonical encoding *)
| CReadNorm (tid : nat) (boxed : bool) (input : bytes) (n : Z) (rewritten : bytes)
(* ReadTL2 of schema item [tid] on [input]: None = error, Some (remaining length, what WriteTL2 of the object
   just read produced) *)
| CRead2 (tid : nat) (input : bytes) (o : option (Z * bytes))
(* the same Go object written as bare TL1 and as TL2: the model value read from the TL1 bytes encodes to the
   TL2 bytes (ties the identity of fields across the two encodings) *)
| CCross (tid : nat) (tl1 tl2 : bytes)
(* CompressAndFrame data = frame, where lz4.CompressBlockHC returned c *)
| CFrameC (data c frame : bytes)
(* DeFrame frame: Some (original size, length of the compressed data) *)
| CDeframe (frame : bytes) (o : option (Z * Z))
(* Decompress osize cd, where lz4.UncompressBlock(cd, make([]byte, osize)) returned lz *)
| CDecomp (osize : Z) (cd : bytes) (lz : option bytes) (o : option bytes)
(* TL2 size prefix of length l: TL2WriteSize wrote w, TL2CalculateSize / TL2PutSize returned calc / put, and
   TL2ParseSize (w ++ [0xAA]) returned parsed = Some (length, remaining byte count) *)
| CSize (l : Z) (w : bytes) (calc put : Z) (parsed : option (Z * Z)).

Definition item_desc (tid : nat) (boxed : bool) : desc :=
  let '(tag, d) := nth tid schema (0, DStruct []) in
  if boxed then match d with DUnion _ | DBool _ _ => d | _ => DBoxed tag d end else d.

Definition ok (c : case) : bool :=
  match c with
  | CRead tid boxed input o =>
      let d := item_desc tid boxed in
      match read [] d input, o with
      | None, None => true
      | Some (v, rest), Some (n, rewritten) =>
          (zlen rest =? n) && bytes_eqb (write [] d v) rewritten && wf [] d v
      | _, _ => false
      end
  | CReadNorm tid boxed input n rewritten =>
      let d := item_desc tid boxed in
      match read [] d input with
      | Some (v, rest) =>
          (zlen rest =? n) && negb (wf [] d v) &&
          match read [] d rewritten with
          | Some (v', []) => bytes_eqb (write [] d v') rewritten && wf [] d v'
          | _ => false
          end
      | None => false
      end
  | CRead2 tid input o =>
      let d := snd (nth tid schema (0, DStruct [])) in
      match dec2 d input, o with
      | None, None => true
      | Some (v, rest), Some (n, rewritten) =>
          (zlen rest =? n) &&
          (if wf2 d v then bytes_eqb (enc2 d v) rewritten
           else (* a dictionary with unsorted or repeated keys (Go map): what Go wrote must be canonical *)
             match dec2 d rewritten with
             | Some (v', []) => bytes_eqb (enc2 d v') rewritten && wf2 d v'
             | _ => false
             end)
      | _, _ => false
      end
  | CCross tid tl1 tl2 =>
      let d := snd (nth tid schema (0, DStruct [])) in
      match read [] d tl1 with
      | Some (v, []) => if wf [] d v then bytes_eqb (enc2 d v) tl2 && wf2 d v else true
      | _ => false
      end
  | CFrameC data c frame => bytes_eqb (compress_and_frame (fun _ => c) data) frame
  | CDeframe frame o =>
      match deframe frame, o with
      | None, None => true
      | Some (n, cd), Some (n', l) => (n =? n') && (zlen cd =? l)
      | _, _ => false
      end
  | CDecomp osize cd lz o =>
      match decompress (fun _ _ => lz) max_uncompressed_bucket_size osize cd, o with
      | None, None => true
      | Some a, Some b => bytes_eqb a b
      | _, _ => false
      end
  | CSize l w calc put parsed =>
      bytes_eqb (write_size l) w && (zlen w =? calc) && (zlen w =? put) &&
      match read_size (w ++ [170]), parsed with
      | Some (l', r), Some (l'', n) => (l' =? l) && (l'' =? l) && (zlen r =? n) && (n =? 1)
      | _, _ => false
      end
  end.

Definition mism := mismatches ok.
