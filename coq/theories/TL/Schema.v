(* C14 — the universe theorems instantiated to every type of the generated schema (Gen/TLSchema.v is
   re-generated from the .tl files on each run). *)
From Coq Require Import ZArith List Bool Lia.
From SH Require Import Common.Wrap TL.Model TL.Proofs TL.Model2 TL.Proofs2 Gen.TLSchema.
Import ListNotations.
Open Scope Z_scope.

(* every item has a 32-bit tag (0 only for union items, which carry the constructor tags themselves), all
   union/Bool tags inside are pairwise different 32-bit numbers *)
Definition entry_ok (e : Z * desc) : bool :=
  tags_ok (snd e) && (is_tag (fst e)) &&
  match snd e with DUnion _ | DBool _ _ => fst e =? 0 | _ => negb (fst e =? 0) end.

Lemma schema_entries_ok : forallb entry_ok schema = true.
Proof. vm_compute. reflexivity. Qed.

Lemma schema_nonempty : (100 <? zlen schema) = true.
Proof. vm_compute. reflexivity. Qed.

(* bare and boxed round trip of every schema item *)
Theorem schema_roundtrip : forall tag d, In (tag, d) schema ->
  forall v rest, wf [] d v = true ->
  read [] d (write [] d v ++ rest) = Some (v, rest) /\
  read [] (DBoxed tag d) (write [] (DBoxed tag d) v ++ rest) = Some (v, rest).
Proof.
  intros tag d Hin v rest Hwf. split.
  - apply tl1_roundtrip. exact Hwf.
  - apply tl1_roundtrip. cbn [wf]. rewrite Hwf, andb_true_r.
    pose proof schema_entries_ok as H. rewrite forallb_forall in H. specialize (H _ Hin).
    unfold entry_ok in H. simpl in H.
    apply andb_true_iff in H as [H _]. apply andb_true_iff in H as [_ H]. exact H.
Qed.

(* ---------- TL2 ---------- *)
(* every schema item for which the generated code has TL2 methods lies in the TL2 fragment of the universe *)
Definition tl2_desc (i : nat) : desc := snd (nth i schema (0, DStruct [])).
Lemma schema_tl2_ok : forallb (fun i => tl2_ok (tl2_desc i) && (Nat.ltb i (length schema))) tl2_items = true.
Proof. vm_compute. reflexivity. Qed.
Lemma schema_tl2_nonempty : (20 <? zlen tl2_items) = true.
Proof. vm_compute. reflexivity. Qed.

Theorem schema_tl2_roundtrip : forall i, In i tl2_items ->
  forall v rest, wf2 (tl2_desc i) v = true -> dec2 (tl2_desc i) (enc2 (tl2_desc i) v ++ rest) = Some (v, rest).
Proof.
  intros i Hin v rest Hwf. apply tl2_roundtrip; [|exact Hwf].
  pose proof schema_tl2_ok as H. rewrite forallb_forall in H. specialize (H _ Hin).
  apply andb_true_iff in H as [H _]. exact H.
Qed.
