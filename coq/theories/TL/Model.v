(* C14 — executable model of the TL1 wire format as implemented by internal/vkgo/basictl and by the
   code tl2gen generates (internal/data_model/gen2/internal/*.go etc.), over a universe of type
   descriptions, and of the bucket framing of internal/compress/lz4.go.
   Definitions only (no proofs): the model must still run when a proof breaks. *)
From Coq Require Import ZArith List Bool.
From SH Require Import Common.Wrap.
Import ListNotations.
Open Scope Z_scope.

Definition bytes := list Z.
Definition zlen {A} (l : list A) : Z := Z.of_nat (length l).

(* ---------- little-endian fixed width integers (binary.LittleEndian / NatWrite / nat64Write) ---------- *)
Fixpoint le_enc (n : nat) (z : Z) : bytes :=
  match n with O => [] | S n' => (z mod 256) :: le_enc n' (z / 256) end.
Fixpoint le_dec (bs : bytes) : Z :=
  match bs with [] => 0 | b :: r => b + 256 * le_dec r end.

(* r[:n], r[n:] guarded by `if len(r) < n { return io.ErrUnexpectedEOF }`; the length test comes first so
   that a hostile length is never converted to a unary number *)
Definition takez (n : Z) (r : bytes) : option (bytes * bytes) :=
  if zlen r <? n then None else Some (firstn (Z.to_nat n) r, skipn (Z.to_nat n) r).

Definition zeros (n : Z) : bytes := repeat 0 (Z.to_nat n).

(* ---------- primitives ---------- *)
Inductive prim := PNat | PInt | PLong | PFloat | PDouble | PString.

Definition two56 : Z := 72057594037927936.

(* basictl.StringWriteLen: returns the header and `uint(uint64(p) % 4)` *)
Definition string_hdr (l : Z) : bytes * Z :=
  if l <=? 253 then ([l], (l + 1) mod 4)
  else if l <=? 16777215 then (254 :: le_enc 3 l, l mod 4)
  else (255 :: le_enc 7 l, l mod 4).
(* basictl.StringWritePadding: switch p { case 1: 3 zeros; case 2: 2 zeros; case 3: 1 zero } *)
Definition write_padding (p : Z) : bytes :=
  if p =? 1 then [0; 0; 0] else if p =? 2 then [0; 0] else if p =? 3 then [0] else [].
(* basictl.StringWrite / StringWriteBytes (one body: the string and the []byte variant are the same function of the bytes) *)
Definition write_string (s : bytes) : bytes :=
  let '(h, p) := string_hdr (zlen s) in h ++ s ++ write_padding p.

(* basictl.paddingLen: int(-uint(l) % 4) *)
Definition padding_len (p : Z) : Z := (- p) mod 4.
Definition read_string_body (l p : Z) (r : bytes) : option (bytes * bytes) :=
  match takez l r with
  | None => None
  | Some (s, r') =>
      match takez (padding_len p) r' with
      | None => None
      | Some (pd, r'') => if forallb (Z.eqb 0) pd then Some (s, r'') else None  (* errBadPadding *)
      end
  end.
(* basictl.StringRead / StringReadBytes *)
Definition read_string (r : bytes) : option (bytes * bytes) :=
  match r with
  | [] => None
  | b0 :: r1 =>
      if b0 <=? 253 then read_string_body b0 (b0 + 1) r1
      else if b0 =? 254 then
        match takez 3 r1 with
        | None => None
        | Some (lb, r2) => let l := le_dec lb in if l <=? 253 then None else read_string_body l l r2
        end
      else
        match takez 7 r1 with
        | None => None
        | Some (lb, r2) => let l := le_dec lb in if l <=? 16777215 then None else read_string_body l l r2
        end
  end.

Inductive value :=
| VInt (z : Z)                 (* #, int, long; float/double as their IEEE bit pattern *)
| VStr (s : bytes)
| VBool (b : bool)
| VList (vs : list value)      (* vector, tuple, struct fields in order *)
| VOpt (o : option value)      (* field conditional on a fields-mask bit *)
| VCtor (i : nat) (v : value). (* union constructor index + its body *)

Definition prim_width (p : prim) : nat :=
  match p with PNat | PInt | PFloat => 4%nat | PLong | PDouble => 8%nat | PString => 0%nat end.

Definition write_prim (p : prim) (v : value) : bytes :=
  match p, v with
  | PString, VStr s => write_string s
  | PString, _ => []
  | PLong, VInt z | PDouble, VInt z => le_enc 8 (u64 z)
  | _, VInt z => le_enc 4 (u32 z)
  | _, _ => []
  end.

Definition read_prim (p : prim) (r : bytes) : option (value * bytes) :=
  match p with
  | PString => match read_string r with Some (s, r') => Some (VStr s, r') | None => None end
  | PNat | PFloat => match takez 4 r with Some (b, r') => Some (VInt (le_dec b), r') | None => None end
  | PInt => match takez 4 r with Some (b, r') => Some (VInt (i32 (le_dec b)), r') | None => None end
  | PDouble => match takez 8 r with Some (b, r') => Some (VInt (le_dec b), r') | None => None end
  | PLong => match takez 8 r with Some (b, r') => Some (VInt (i64 (le_dec b)), r') | None => None end
  end.

(* ---------- the universe of type descriptions ---------- *)
(* nat arguments (`{fields_mask:#}`, `n*[t]`): a constant or the i-th entry of the environment, which holds the
   values of all `#` fields read so far in the enclosing constructors, outermost first (type applications are
   inlined by the translator, so a nat parameter is replaced by the expression it was applied to) *)
Inductive natexpr := NConst (z : Z) | NVar (i : nat).

Inductive desc :=
| DPrim (p : prim)
| DBool (tgf tgt : Z)                         (* boolFalse#… / boolTrue#… : a tag and nothing else *)
| DVector (sorted : bool) (t : desc)        (* # [t] with basictl.CheckLengthSanity(w, l, 4); sorted = a `dictionary`:
                                               the Go value is a map, written in ascending key order *)
| DTuple (n : natexpr) (t : desc)           (* n*[t] *)
| DStruct (fs : list (option (natexpr * Z) * desc))   (* fields, each optionally `mask.bit?`; `#` fields extend the environment *)
| DUnion (cs : list (Z * desc))             (* boxed union: constructor tag, then the bare constructor *)
| DBoxed (tag : Z) (t : desc).              (* NatReadExactTag(tag) then t *)

Definition eval_nat (env : list Z) (e : natexpr) : Z :=
  match e with NConst z => z | NVar i => nth i env 0 end.

Definition present (c : option (natexpr * Z)) (lenv : list Z) : bool :=
  match c with None => true | Some (e, b) => Z.testbit (eval_nat lenv e) b end.

(* a `#` field extends the local environment with its value (0 when the field is absent, as the generated
   reader sets it) *)
Definition push (t : desc) (ov : option value) (lenv : list Z) : list Z :=
  match t with
  | DPrim PNat => lenv ++ [match ov with Some (VInt z) => z | _ => 0 end]
  | _ => lenv
  end.

Definition vector_min_elem : Z := 4.

Fixpoint write (env : list Z) (d : desc) (v : value) {struct d} : bytes :=
  match d with
  | DPrim p => write_prim p v
  | DBool tgf tgt => match v with VBool b => le_enc 4 (if b then tgt else tgf) | _ => [] end
  | DVector _ t =>
      match v with
      | VList vs => le_enc 4 (u32 (zlen vs)) ++ flat_map (write env t) vs
      | _ => []
      end
  | DTuple _ t => match v with VList vs => flat_map (write env t) vs | _ => [] end
  | DStruct fs =>
      match v with
      | VList vs =>
          (fix go (fs : list (option (natexpr * Z) * desc)) (lenv : list Z) (vs : list value) {struct fs} : bytes :=
             match fs, vs with
             | (c, t) :: fs', fv :: vs' =>
                 if present c lenv then
                   match c, fv with
                   | None, _ => write lenv t fv ++ go fs' (push t (Some fv) lenv) vs'
                   | Some _, VOpt (Some x) => write lenv t x ++ go fs' (push t (Some x) lenv) vs'
                   | Some _, _ => []
                   end
                 else go fs' (push t None lenv) vs'
             | _, _ => []
             end) fs env vs
      | _ => []
      end
  | DUnion cs =>
      match v with
      | VCtor i x =>
          (fix go (cs : list (Z * desc)) (i : nat) {struct cs} : bytes :=
             match cs, i with
             | (tag, t) :: _, O => le_enc 4 tag ++ write env t x
             | _ :: cs', S i' => go cs' i'
             | [], _ => []
             end) cs i
      | _ => []
      end
  | DBoxed tag t => le_enc 4 tag ++ write env t v
  end.

Fixpoint read (env : list Z) (d : desc) (r : bytes) {struct d} : option (value * bytes) :=
  match d with
  | DPrim p => read_prim p r
  | DBool tgf tgt =>
      match takez 4 r with
      | None => None
      | Some (b, r') =>
          let tag := le_dec b in
          if tag =? tgf then Some (VBool false, r') else if tag =? tgt then Some (VBool true, r') else None
      end
  | DVector _ t =>
      match takez 4 r with
      | None => None
      | Some (b, r') =>
          let l := le_dec b in
          if zlen r' <? l * vector_min_elem then None    (* CheckLengthSanity *)
          else
            match (fix go (n : nat) (r : bytes) {struct n} : option (list value * bytes) :=
                     match n with
                     | O => Some ([], r)
                     | S n' => match read env t r with
                               | None => None
                               | Some (x, r1) => match go n' r1 with None => None | Some (xs, r2) => Some (x :: xs, r2) end
                               end
                     end) (Z.to_nat l) r' with
            | None => None
            | Some (xs, r2) => Some (VList xs, r2)
            end
      end
  | DTuple n t =>
      match (fix go (n : nat) (r : bytes) {struct n} : option (list value * bytes) :=
               match n with
               | O => Some ([], r)
               | S n' => match read env t r with
                         | None => None
                         | Some (x, r1) => match go n' r1 with None => None | Some (xs, r2) => Some (x :: xs, r2) end
                         end
               end) (Z.to_nat (eval_nat env n)) r with
      | None => None
      | Some (xs, r2) => Some (VList xs, r2)
      end
  | DStruct fs =>
      match (fix go (fs : list (option (natexpr * Z) * desc)) (lenv : list Z) (r : bytes) {struct fs} : option (list value * bytes) :=
               match fs with
               | [] => Some ([], r)
               | (c, t) :: fs' =>
                   if present c lenv then
                     match read lenv t r with
                     | None => None
                     | Some (x, r1) =>
                         match go fs' (push t (Some x) lenv) r1 with
                         | None => None
                         | Some (xs, r2) => Some ((match c with None => x | Some _ => VOpt (Some x) end) :: xs, r2)
                         end
                     end
                   else
                     match go fs' (push t None lenv) r with
                     | None => None
                     | Some (xs, r2) => Some (VOpt None :: xs, r2)
                     end
               end) fs env r with
      | None => None
      | Some (xs, r2) => Some (VList xs, r2)
      end
  | DUnion cs =>
      match takez 4 r with
      | None => None
      | Some (b, r') =>
          let tag := le_dec b in
          (fix go (cs : list (Z * desc)) (i : nat) {struct cs} : option (value * bytes) :=
             match cs with
             | [] => None
             | (tg, t) :: cs' =>
                 if tag =? tg then
                   match read env t r' with None => None | Some (x, r2) => Some (VCtor i x, r2) end
                 else go cs' (S i)
             end) cs O
      end
  | DBoxed tag t =>
      match takez 4 r with
      | None => None
      | Some (b, r') => if le_dec b =? tag then read env t r' else None
      end
  end.

(* ---------- well-formed values: exactly what the Go types can hold in canonical form ---------- *)
Definition byte_ok (b : Z) : bool := (0 <=? b) && (b <? 256).

Definition wf_prim (p : prim) (v : value) : bool :=
  match p, v with
  | PString, VStr s => forallb byte_ok s && (zlen s <? two56)      (* StringWriteLen panics beyond 2^56-1 *)
  | PNat, VInt z | PFloat, VInt z => (0 <=? z) && (z <? two32)
  | PInt, VInt z => (- two31 <=? z) && (z <? two31)
  | PDouble, VInt z => (0 <=? z) && (z <? two64)
  | PLong, VInt z => (- two63 <=? z) && (z <? two63)
  | _, _ => false
  end.

(* a Go map[string]T holds each key once and is written in sort.Strings order (bytewise) *)
Fixpoint bytes_ltb (a b : bytes) : bool :=
  match a, b with
  | _, [] => false
  | [], _ :: _ => true
  | x :: a', y :: b' => (x <? y) || ((x =? y) && bytes_ltb a' b')
  end.
Definition key_of (v : value) : option bytes :=
  match v with VList (VStr k :: _) => Some k | _ => None end.
Fixpoint sorted_keys (vs : list value) : bool :=
  match vs with
  | [] => true
  | v :: vs' =>
      match key_of v with
      | None => false
      | Some k => match vs' with
                  | [] => true
                  | v2 :: _ => match key_of v2 with Some k2 => bytes_ltb k k2 | None => false end
                  end && sorted_keys vs'
      end
  end.

Definition is_tag (t : Z) : bool := (0 <=? t) && (t <? two32).

Fixpoint find_tag (cs : list (Z * desc)) (tag : Z) (i : nat) : option nat :=
  match cs with
  | [] => None
  | (tg, _) :: cs' => if tag =? tg then Some i else find_tag cs' tag (S i)
  end.

Fixpoint wf (env : list Z) (d : desc) (v : value) {struct d} : bool :=
  match d with
  | DPrim p => wf_prim p v
  | DBool tgf tgt => match v with VBool _ => is_tag tgf && is_tag tgt && negb (tgf =? tgt) | _ => false end
  | DVector sorted t =>
      match v with
      | VList vs => (zlen vs <? two32) && forallb (wf env t) vs
                    && (zlen vs * vector_min_elem <=? zlen (flat_map (write env t) vs))
                    && (if sorted then sorted_keys vs else true)
      | _ => false
      end
  | DTuple n t =>
      match v with
      | VList vs => (Nat.eqb (length vs) (Z.to_nat (eval_nat env n))) && forallb (wf env t) vs
      | _ => false
      end
  | DStruct fs =>
      match v with
      | VList vs =>
          (fix go (fs : list (option (natexpr * Z) * desc)) (lenv : list Z) (vs : list value) {struct fs} : bool :=
             match fs, vs with
             | [], [] => true
             | (c, t) :: fs', fv :: vs' =>
                 if present c lenv then
                   match c, fv with
                   | None, _ => wf lenv t fv && go fs' (push t (Some fv) lenv) vs'
                   | Some _, VOpt (Some x) => wf lenv t x && go fs' (push t (Some x) lenv) vs'
                   | Some _, _ => false
                   end
                 else
                   match fv with VOpt None => go fs' (push t None lenv) vs' | _ => false end
             | _, _ => false
             end) fs env vs
      | _ => false
      end
  | DUnion cs =>
      match v with
      | VCtor i x =>
          (fix go (cs' : list (Z * desc)) (j : nat) {struct cs'} : bool :=
             match cs', j with
             | (tag, t) :: _, O => is_tag tag && wf env t x
                                   && match find_tag cs tag O with Some k => Nat.eqb k i | None => false end
             | _ :: cs'', S j' => go cs'' j'
             | [], _ => false
             end) cs i
      | _ => false
      end
  | DBoxed tag t => is_tag tag && wf env t v
  end.

(* a description is usable when the tags of every union are pairwise different 32-bit numbers: then the
   find_tag condition of [wf] holds for every constructor (checked for the whole schema by vm_compute) *)
Fixpoint tags_ok (d : desc) : bool :=
  match d with
  | DPrim _ => true
  | DBool tgf tgt => is_tag tgf && is_tag tgt && negb (tgf =? tgt)
  | DVector _ t | DTuple _ t => tags_ok t
  | DStruct fs => forallb (fun cf => tags_ok (snd cf)) fs
  | DUnion cs =>
      forallb (fun c => is_tag (fst c) && tags_ok (snd c)) cs
      && (fix nodup (l : list (Z * desc)) : bool :=
            match l with [] => true | c :: l' => negb (existsb (fun c' => fst c' =? fst c) l') && nodup l' end) cs
  | DBoxed tag t => is_tag tag && tags_ok t
  end.

(* ---------- bucket framing: compress/lz4.go ---------- *)
(* lz4c = lz4.CompressBlockHC(src, dst of CompressBlockBound, 0) (the produced bytes);
   lz4d c n = lz4.UncompressBlock(c, make([]byte, n)): None on error, Some out with the bytes written *)
Section Frames.
  Variable lz4c : bytes -> bytes.
  Variable lz4d : bytes -> Z -> option bytes.
  Variable max_size : Z.     (* data_model.MaxUncompressedBucketSize *)

  Definition compress_and_frame (data : bytes) : bytes :=
    let c := lz4c data in
    let hdr := le_enc 4 (u32 (zlen data)) in
    if zlen c >=? zlen data then hdr ++ data else hdr ++ c.

  Definition deframe (frame : bytes) : option (Z * bytes) :=
    if zlen frame <? 4 then None else Some (le_dec (firstn 4 frame), skipn 4 frame).

  Definition decompress (osize : Z) (cd : bytes) : option bytes :=
    if osize =? zlen cd then Some cd
    else if osize >? max_size then None
    else match lz4d cd osize with
         | None => None
         | Some out => if zlen out =? osize then Some out else None
         end.
End Frames.
