(* C14 — executable model of the TL2 wire format as written/read by the code tl2gen generates
   (InternalWriteTL2 / InternalReadTL2 / CalculateLayout in gen2/internal/*.go) and basictl/basictl2.go,
   over the same universe of type descriptions and generic values as the TL1 model.
   Layout: an object (struct, vector, union) is `size body`; size 0 = the default object. A struct body is a
   sequence of blocks: a presence byte (bit 0 of the first one = constructor index follows; then one bit per
   field, 7 in the first block, 8 in the following ones) followed by the present fields; blocks after the
   last present field are not written. A field that is not fields-mask-conditional in TL1 is present iff its
   value is not the default one; a conditional one has its own presence bit (tl2mask in the Go structs),
   independent of the mask value, and a conditional `true` has no bytes at all.
   Definitions only. *)
From Coq Require Import ZArith List Bool.
From SH Require Import Common.Wrap TL.Model.
Import ListNotations.
Open Scope Z_scope.

Definition max_int : Z := 9223372036854775807.

(* basictl.TL2WriteSize / TL2ParseSize *)
Definition write_size (l : Z) : bytes :=
  if l <? 254 then [l]
  else if l <? 254 + 65536 then 254 :: le_enc 2 (l - 254)
  else 255 :: le_enc 8 l.
Definition read_size (r : bytes) : option (Z * bytes) :=
  match r with
  | [] => None
  | b0 :: r1 =>
      if b0 <? 254 then Some (b0, r1)
      else if b0 =? 254 then
        match takez 2 r1 with Some (lb, r2) => Some (254 + le_dec lb, r2) | None => None end
      else
        match takez 8 r1 with
        | Some (lb, r2) => let l := le_dec lb in if l >? max_int then None else Some (l, r2)
        | None => None
        end
  end.

(* `size body` *)
Definition sized (body : bytes) : bytes := write_size (zlen body) ++ body.

Definition bits_to_byte (l : list bool) : Z :=
  fold_right (fun (b : bool) acc => (if b then 1 else 0) + 2 * acc) 0 l.
Definition byte_bits (b : Z) : list bool := map (Z.testbit b) [0; 1; 2; 3; 4; 5; 6; 7].

Definition write_prim2 (p : prim) (v : value) : bytes :=
  match p, v with
  | PString, VStr s => write_size (zlen s) ++ s       (* StringWriteTL2 *)
  | _, _ => write_prim p v
  end.
Definition read_prim2 (p : prim) (r : bytes) : option (value * bytes) :=
  match p with
  | PString =>                                         (* StringReadTL2 *)
      match read_size r with
      | None => None
      | Some (l, r1) => match takez l r1 with Some (s, r2) => Some (VStr s, r2) | None => None end
      end
  | _ => read_prim p r
  end.

Definition is_nil {A} (l : list A) : bool := match l with [] => true | _ => false end.
Definition is_true_type (t : desc) : bool := match t with DStruct [] => true | _ => false end.

(* the value a reader leaves in a field that is absent (Reset / zero value / [:0]) *)
Fixpoint default (d : desc) : value :=
  match d with
  | DPrim PString => VStr []
  | DPrim _ => VInt 0
  | DBool _ _ => VBool false
  | DVector _ _ | DTuple _ _ => VList []
  | DStruct fs =>
      VList ((fix go (fs : list (option (natexpr * Z) * desc)) : list value :=
                match fs with
                | [] => []
                | (c, t) :: fs' => (match c with None => default t | Some _ => VOpt None end) :: go fs'
                end) fs)
  | DUnion _ => VCtor 0 (VList [])
  | DBoxed _ t => default t
  end.

(* how a non-conditional field is written: nothing when it holds the default (`if item.X != 0`,
   `len(item.S) != 0`, `if item.B`, nested object with optimizeEmpty=true whose size is 0), else the encoding *)
Definition fenc_of (t : desc) (v : value) (e : bytes) : bytes :=
  match t, v with
  | DPrim PString, VStr [] => []
  | DPrim _, VInt 0 => []
  | DBool _ _, VBool false => []
  | DPrim _, _ | DBool _ _, _ => e
  | _, _ => match e with [0] => [] | _ => e end
  end.

Definition any_present (items : list (bool * bytes)) : bool := existsb fst items.
Definition item_bytes (it : bool * bytes) : bytes := if fst it then snd it else [].

(* the fields of a struct body from a block boundary or inside a block; n = free bit positions left in the
   current block *)
Fixpoint pack (n : nat) (items : list (bool * bytes)) {struct items} : bytes :=
  match items with
  | [] => []
  | it :: r =>
      match n with
      | O => if any_present items
             then bits_to_byte (firstn 8 (map fst items)) :: item_bytes it ++ pack 7 r
             else []
      | S n' => item_bytes it ++ pack n' r
      end
  end.
Definition struct_body (items : list (bool * bytes)) : bytes :=
  if any_present items then bits_to_byte (false :: firstn 7 (map fst items)) :: pack 7 items else [].

Fixpoint enc2 (d : desc) (v : value) {struct d} : bytes :=
  match d with
  | DPrim p => write_prim2 p v
  | DBool _ _ => match v with VBool b => [if b then 1 else 0] | _ => [] end   (* ByteBoolWriteTL2 *)
  | DVector _ t =>
      match v with
      | VList [] => [0]
      | VList vs => sized (write_size (zlen vs) ++ flat_map (enc2 t) vs)
      | _ => []
      end
  | DStruct fs =>
      match v with
      | VList vs =>
          sized (struct_body
            ((fix go (fs : list (option (natexpr * Z) * desc)) (vs : list value) {struct fs} : list (bool * bytes) :=
                match fs, vs with
                | (c, t) :: fs', fv :: vs' =>
                    (match c with
                     | None => let b := fenc_of t fv (enc2 t fv) in (negb (is_nil b), b)
                     | Some _ => match fv with
                                 | VOpt (Some x) => (true, if is_true_type t then [] else enc2 t x)
                                 | _ => (false, [])
                                 end
                     end) :: go fs' vs'
                | _, _ => []
                end) fs vs))
      | _ => []
      end
  | DUnion _ =>
      match v with
      | VCtor i _ => match i with
                     | O => [0]
                     | _ => let ix := write_size (Z.of_nat i) in [1 + zlen ix; 1] ++ ix
                     end
      | _ => []
      end
  | DTuple _ _ | DBoxed _ _ => []       (* not generated for TL2 in this schema: outside tl2_ok *)
  end.

Fixpoint dec2 (d : desc) (r : bytes) {struct d} : option (value * bytes) :=
  match d with
  | DPrim p => read_prim2 p r
  | DBool _ _ => match r with [] => None | b :: r' => Some (VBool (negb (b =? 0)), r') end  (* ByteBoolReadTL2 *)
  | DVector _ t =>
      match read_size r with
      | None => None
      | Some (sz, r1) =>
          match takez sz r1 with
          | None => None
          | Some (cur, rest) =>
              if sz =? 0 then Some (VList [], rest)
              else
                match read_size cur with
                | None => None
                | Some (n, cur1) =>
                    if n >? zlen cur1 then None     (* TL2ElementCountError *)
                    else
                      match (fix go (n : nat) (cur : bytes) {struct n} : option (list value) :=
                               match n with
                               | O => Some []
                               | S n' => match dec2 t cur with
                                         | None => None
                                         | Some (x, cur') => match go n' cur' with None => None | Some xs => Some (x :: xs) end
                                         end
                               end) (Z.to_nat n) cur1 with
                      | None => None
                      | Some xs => Some (VList xs, rest)
                      end
                end
          end
      end
  | DStruct fs =>
      match read_size r with
      | None => None
      | Some (sz, r1) =>
          if sz =? 0 then Some (default (DStruct fs), r1)
          else
            match takez sz r1 with
            | None => None
            | Some ([], _) => None
            | Some (b0 :: cur, rest) =>
                let bits := byte_bits b0 in
                match (if hd false bits
                       then match read_size cur with
                            | Some (ix, cur') => if ix =? 0 then Some cur' else None
                            | None => None
                            end
                       else Some cur) with
                | None => None
                | Some cur0 =>
                    match (fix go (fs : list (option (natexpr * Z) * desc)) (pend : list bool) (cur : bytes) {struct fs}
                             : option (list value) :=
                             match fs with
                             | [] => Some []
                             | (c, t) :: fs' =>
                                 (* start the next block *)
                                 let '(pend, cur) :=
                                   match pend with
                                   | [] => match cur with
                                           | [] => (repeat false 8, [])
                                           | b :: cur' => (byte_bits b, cur')
                                           end
                                   | _ => (pend, cur)
                                   end in
                                 match pend with
                                 | [] => None
                                 | p :: pend' =>
                                     if p then
                                       match c with
                                       | None => match dec2 t cur with
                                                 | None => None
                                                 | Some (x, cur') => match go fs' pend' cur' with None => None | Some xs => Some (x :: xs) end
                                                 end
                                       | Some _ =>
                                           if is_true_type t
                                           then match go fs' pend' cur with None => None | Some xs => Some (VOpt (Some (VList [])) :: xs) end
                                           else match dec2 t cur with
                                                | None => None
                                                | Some (x, cur') => match go fs' pend' cur' with None => None | Some xs => Some (VOpt (Some x) :: xs) end
                                                end
                                       end
                                     else
                                       match go fs' pend' cur with
                                       | None => None
                                       | Some xs => Some ((match c with None => default t | Some _ => VOpt None end) :: xs)
                                       end
                                 end
                             end) fs (tl bits) cur0 with
                    | None => None
                    | Some xs => Some (VList xs, rest)
                    end
                end
            end
      end
  | DUnion cs =>
      match read_size r with
      | None => None
      | Some (sz, r1) =>
          if sz =? 0 then Some (VCtor 0 (VList []), r1)
          else
            match takez sz r1 with
            | None => None
            | Some ([], _) => None
            | Some (b0 :: cur, rest) =>
                if Z.testbit b0 0 then
                  match read_size cur with
                  | None => None
                  | Some (ix, _) => if ix >=? zlen cs then None else Some (VCtor (Z.to_nat ix) (VList []), rest)
                  end
                else Some (VCtor 0 (VList []), rest)
            end
      end
  | DTuple _ _ | DBoxed _ _ => None
  end.

(* the fragment of the universe for which TL2 code exists in the tree (api.tl + `true`): no tuples, no boxed
   types, unions are enumerations, no float/double as a plain struct field (the generated presence test
   `item.X != 0` is a float comparison: never generated here, so not tied by any correspondence case) *)
Definition is_float (t : desc) : bool := match t with DPrim PFloat | DPrim PDouble => true | _ => false end.
Fixpoint tl2_ok (d : desc) : bool :=
  match d with
  | DPrim _ | DBool _ _ => true
  | DVector _ t => tl2_ok t
  | DStruct fs =>
      forallb (fun cf => tl2_ok (snd cf) && match fst cf with None => negb (is_float (snd cf)) | Some _ => true end) fs
  | DUnion cs => forallb (fun c => is_true_type (snd c)) cs && negb (is_nil cs) && (zlen cs <? 254)
  | DTuple _ _ | DBoxed _ _ => false
  end.

(* values: ranges of the Go types; a conditional field is VOpt (its presence is its own bit); a `true` is the
   empty struct; a union value is a constructor number; vectors obey the reader's count sanity check and
   objects are shorter than 2^63 bytes; dictionary keys ascending (Go map written by sort.Strings) *)
Fixpoint wf2 (d : desc) (v : value) {struct d} : bool :=
  match d with
  | DPrim p => wf_prim p v && match v with VStr s => zlen s <=? max_int | _ => true end
  | DBool _ _ => match v with VBool _ => true | _ => false end
  | DVector sorted t =>
      match v with
      | VList vs => forallb (wf2 t) vs
                    && (zlen vs <=? zlen (flat_map (enc2 t) vs))
                    && (zlen (write_size (zlen vs) ++ flat_map (enc2 t) vs) <=? max_int)
                    && (if sorted then sorted_keys vs else true)
      | _ => false
      end
  | DStruct fs =>
      match v with
      | VList vs =>
          (fix go (fs : list (option (natexpr * Z) * desc)) (vs : list value) {struct fs} : bool :=
             match fs, vs with
             | [], [] => true
             | (c, t) :: fs', fv :: vs' =>
                 (match c, fv with
                  | None, _ => wf2 t fv
                  | Some _, VOpt None => true
                  | Some _, VOpt (Some x) => wf2 t x && (if is_true_type t then match x with VList [] => true | _ => false end else true)
                  | Some _, _ => false
                  end) && go fs' vs'
             | _, _ => false
             end) fs vs
          && (zlen (enc2 (DStruct fs) v) <=? max_int)
      | _ => false
      end
  | DUnion cs => match v with VCtor i (VList []) => Z.of_nat i <? zlen cs | _ => false end
  | DTuple _ _ | DBoxed _ _ => false
  end.
