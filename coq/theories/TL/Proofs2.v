(* C14 — TL2: one round-trip proof for every description of the TL2 fragment. *)
From Coq Require Import ZArith List Bool Lia.
From SH Require Import Common.Wrap TL.Model TL.Proofs TL.Model2.
Import ListNotations.
Open Scope Z_scope.

(* ---------- sizes ---------- *)
Lemma read_write_size l r : 0 <= l <= max_int -> read_size (write_size l ++ r) = Some (l, r).
Proof.
  intros H. unfold write_size, read_size, max_int in *.
  destruct (l <? 254) eqn:E1.
  - cbn [app]. rewrite E1. reflexivity.
  - apply Z.ltb_ge in E1. destruct (l <? 254 + 65536) eqn:E2.
    + apply Z.ltb_lt in E2. cbn [app].
      replace (254 <? 254) with false by reflexivity. replace (254 =? 254) with true by reflexivity.
      rewrite (takez_app_n 2) by (unfold zlen; rewrite le_enc_length; reflexivity).
      rewrite le_dec_enc by (simpl; lia). f_equal. f_equal. lia.
    + apply Z.ltb_ge in E2. cbn [app].
      replace (255 <? 254) with false by reflexivity. replace (255 =? 254) with false by reflexivity.
      rewrite (takez_app_n 8) by (unfold zlen; rewrite le_enc_length; reflexivity).
      rewrite le_dec_enc by (simpl; lia).
      destruct (l >? 9223372036854775807) eqn:E3; [apply Z.gtb_lt in E3; lia | reflexivity].
Qed.

(* TL2CalculateSize / TL2PutSize: the width of the prefix TL2WriteSize emits, by length class *)
Lemma write_size_width l :
  zlen (write_size l) = (if l <? 254 then 1 else if l <? 254 + 65536 then 3 else 9).
Proof.
  unfold write_size, zlen.
  destruct (l <? 254); [reflexivity|].
  destruct (l <? 254 + 65536); cbn [length]; rewrite le_enc_length; reflexivity.
Qed.

Lemma write_size_nonempty l : write_size l <> [].
Proof. unfold write_size. destruct (l <? 254); [|destruct (l <? 254 + 65536)]; discriminate. Qed.

Lemma sized_is_zero body : sized body = [0] -> body = [].
Proof.
  unfold sized, write_size. pose proof (zlen_nonneg body).
  destruct (zlen body <? 254) eqn:E.
  - cbn [app]. intros H1. injection H1 as _ Hb. exact Hb.
  - destruct (zlen body <? 254 + 65536); cbn [app]; intros H1; inversion H1.
Qed.
Lemma sized_nonempty body : sized body <> [].
Proof. unfold sized. pose proof (write_size_nonempty (zlen body)). destruct (write_size (zlen body)); [congruence | discriminate]. Qed.

Lemma zlen_sized_ge body : zlen body <= zlen (sized body).
Proof. unfold sized. rewrite zlen_app. pose proof (zlen_nonneg (write_size (zlen body))). lia. Qed.

Lemma read_sized body rest :
  zlen (sized body) <= max_int ->
  read_size (sized body ++ rest) = Some (zlen body, body ++ rest).
Proof.
  intros H. unfold sized. rewrite <- app_assoc. apply read_write_size.
  pose proof (zlen_nonneg body). pose proof (zlen_sized_ge body). lia.
Qed.

(* ---------- presence bytes ---------- *)
Definition pad_to (n : nat) (l : list bool) : list bool := l ++ repeat false (n - length l).

Lemma byte_bits_to_byte l : (length l <= 8)%nat -> byte_bits (bits_to_byte l) = pad_to 8 l.
Proof.
  intros H.
  do 9 (destruct l as [|? l]; [ repeat match goal with b : bool |- _ => destruct b end; reflexivity | ]).
  simpl in H. lia.
Qed.

Lemma firstn_length_le {A} n (l : list A) : (length (firstn n l) <= n)%nat.
Proof. rewrite firstn_length. lia. Qed.

Lemma pad_to_cons n b l : pad_to (S n) (b :: l) = b :: pad_to n l.
Proof. reflexivity. Qed.

Lemma pad_all_false n l : existsb (fun b : bool => b) l = false -> (length l <= n)%nat -> pad_to n l = repeat false n.
Proof.
  revert n. induction l as [|b l IH]; intros n H Hl.
  - unfold pad_to. simpl. rewrite Nat.sub_0_r. reflexivity.
  - simpl in H. apply orb_false_iff in H as [Hb H]. subst b. destruct n; [simpl in Hl; lia|].
    rewrite pad_to_cons, IH; [reflexivity | exact H | simpl in Hl; lia].
Qed.

Lemma existsb_firstn_false {A} (f : A -> bool) n l : existsb f l = false -> existsb f (firstn n l) = false.
Proof.
  revert n; induction l as [|x l IH]; intros n H; destruct n; simpl in *; auto.
  apply orb_false_iff in H as [H1 H2]. rewrite H1. simpl. auto.
Qed.

Lemma any_present_map items : any_present items = existsb (fun b : bool => b) (map fst items).
Proof. unfold any_present. induction items; simpl; congruence. Qed.

Lemma pack_none n items : any_present items = false -> pack n items = [].
Proof.
  revert n. induction items as [|it r IH]; intros n H; [destruct n; reflexivity|].
  pose proof H as H0. unfold any_present in H. simpl in H. apply orb_false_iff in H as [H1 H2].
  destruct n.
  - cbn [pack]. rewrite H0. reflexivity.
  - cbn [pack]. unfold item_bytes. rewrite H1. simpl. apply IH. exact H2.
Qed.

(* ---------- primitives ---------- *)
Lemma read_write_prim2 p v r :
  wf_prim p v = true -> match v with VStr s => zlen s <= max_int | _ => True end ->
  read_prim2 p (write_prim2 p v ++ r) = Some (v, r).
Proof.
  intros H Hs. destruct p; try (destruct v; try discriminate; cbn [write_prim2 read_prim2]; apply read_write_prim; exact H).
  destruct v; try discriminate. cbn [write_prim2 read_prim2].
  rewrite <- app_assoc, read_write_size by (pose proof (zlen_nonneg s); lia).
  rewrite takez_app. reflexivity.
Qed.

(* ---------- inner loops as stand-alone functions ---------- *)
Definition fitem (c : option (natexpr * Z)) (t : desc) (fv : value) : bool * bytes :=
  match c with
  | None => let b := fenc_of t fv (enc2 t fv) in (negb (is_nil b), b)
  | Some _ => match fv with
              | VOpt (Some x) => (true, if is_true_type t then [] else enc2 t x)
              | _ => (false, [])
              end
  end.

Fixpoint items_of (fs : list (option (natexpr * Z) * desc)) (vs : list value) {struct fs} : list (bool * bytes) :=
  match fs, vs with
  | (c, t) :: fs', fv :: vs' => fitem c t fv :: items_of fs' vs'
  | _, _ => []
  end.

Definition fdefault (c : option (natexpr * Z)) (t : desc) : value :=
  match c with None => default t | Some _ => VOpt None end.

Fixpoint rfields (fs : list (option (natexpr * Z) * desc)) (pend : list bool) (cur : bytes) {struct fs} : option (list value) :=
  match fs with
  | [] => Some []
  | (c, t) :: fs' =>
      let '(pend, cur) :=
        match pend with
        | [] => match cur with
                | [] => (repeat false 8, [])
                | b :: cur' => (byte_bits b, cur')
                end
        | _ => (pend, cur)
        end in
      match pend with
      | [] => None
      | p :: pend' =>
          if p then
            match c with
            | None => match dec2 t cur with
                      | None => None
                      | Some (x, cur') => match rfields fs' pend' cur' with None => None | Some xs => Some (x :: xs) end
                      end
            | Some _ =>
                if is_true_type t
                then match rfields fs' pend' cur with None => None | Some xs => Some (VOpt (Some (VList [])) :: xs) end
                else match dec2 t cur with
                     | None => None
                     | Some (x, cur') => match rfields fs' pend' cur' with None => None | Some xs => Some (VOpt (Some x) :: xs) end
                     end
            end
          else
            match rfields fs' pend' cur with
            | None => None
            | Some xs => Some ((match c with None => default t | Some _ => VOpt None end) :: xs)
            end
      end
  end.

Definition wf2_field (c : option (natexpr * Z)) (t : desc) (fv : value) : bool :=
  match c, fv with
  | None, _ => wf2 t fv
  | Some _, VOpt None => true
  | Some _, VOpt (Some x) => wf2 t x && (if is_true_type t then match x with VList [] => true | _ => false end else true)
  | Some _, _ => false
  end.
Fixpoint wf2_fields (fs : list (option (natexpr * Z) * desc)) (vs : list value) {struct fs} : bool :=
  match fs, vs with
  | [], [] => true
  | (c, t) :: fs', fv :: vs' => wf2_field c t fv && wf2_fields fs' vs'
  | _, _ => false
  end.

Fixpoint default_fields (fs : list (option (natexpr * Z) * desc)) : list value :=
  match fs with
  | [] => []
  | (c, t) :: fs' => fdefault c t :: default_fields fs'
  end.

Definition dec_n (t : desc) :=
  fix go (n : nat) (cur : bytes) {struct n} : option (list value) :=
    match n with
    | O => Some []
    | S n' => match dec2 t cur with
              | None => None
              | Some (x, cur') => match go n' cur' with None => None | Some xs => Some (x :: xs) end
              end
    end.

Lemma enc2_struct_eq fs vs : enc2 (DStruct fs) (VList vs) = sized (struct_body (items_of fs vs)).
Proof. reflexivity. Qed.
Lemma default_struct_eq fs : default (DStruct fs) = VList (default_fields fs).
Proof. reflexivity. Qed.
Lemma wf2_struct_eq fs vs :
  wf2 (DStruct fs) (VList vs) = wf2_fields fs vs && (zlen (enc2 (DStruct fs) (VList vs)) <=? max_int).
Proof. reflexivity. Qed.
Lemma dec2_struct_eq fs r :
  dec2 (DStruct fs) r =
  match read_size r with
  | None => None
  | Some (sz, r1) =>
      if sz =? 0 then Some (default (DStruct fs), r1)
      else
        match takez sz r1 with
        | None => None
        | Some ([], _) => None
        | Some (b0 :: cur, rest) =>
            let bits := byte_bits b0 in
            match (if hd false bits
                   then match read_size cur with
                        | Some (ix, cur') => if ix =? 0 then Some cur' else None
                        | None => None
                        end
                   else Some cur) with
            | None => None
            | Some cur0 =>
                match rfields fs (tl bits) cur0 with
                | None => None
                | Some xs => Some (VList xs, rest)
                end
            end
        end
  end.
Proof. reflexivity. Qed.
Lemma dec2_union_eq cs r :
  dec2 (DUnion cs) r =
  match read_size r with
  | None => None
  | Some (sz, r1) =>
      if sz =? 0 then Some (VCtor 0 (VList []), r1)
      else
        match takez sz r1 with
        | None => None
        | Some ([], _) => None
        | Some (b0 :: cur, rest) =>
            if Z.testbit b0 0 then
              match read_size cur with
              | None => None
              | Some (ix, _) => if ix >=? zlen cs then None else Some (VCtor (Z.to_nat ix) (VList []), rest)
              end
            else Some (VCtor 0 (VList []), rest)
        end
  end.
Proof. reflexivity. Qed.
Lemma dec2_vector_eq sorted t r :
  dec2 (DVector sorted t) r =
  match read_size r with
  | None => None
  | Some (sz, r1) =>
      match takez sz r1 with
      | None => None
      | Some (cur, rest) =>
          if sz =? 0 then Some (VList [], rest)
          else
            match read_size cur with
            | None => None
            | Some (n, cur1) =>
                if n >? zlen cur1 then None
                else match dec_n t (Z.to_nat n) cur1 with
                     | None => None
                     | Some xs => Some (VList xs, rest)
                     end
            end
      end
  end.
Proof. reflexivity. Qed.

(* ---------- the two facts proved together by induction over the description ---------- *)
Definition rt2 (d : desc) : Prop :=
  tl2_ok d = true ->
  (forall v rest, wf2 d v = true -> dec2 d (enc2 d v ++ rest) = Some (v, rest)) /\
  (forall v, wf2 d v = true -> fenc_of d v (enc2 d v) = [] -> v = default d).

Definition field_ok (cf : option (natexpr * Z) * desc) : bool :=
  tl2_ok (snd cf) && match fst cf with None => negb (is_float (snd cf)) | Some _ => true end.

Lemma fenc_present t fv : fenc_of t fv (enc2 t fv) <> [] -> fenc_of t fv (enc2 t fv) = enc2 t fv.
Proof.
  generalize (enc2 t fv) as e. intros e. unfold fenc_of.
  destruct t as [p| | | | | |].
  - destruct p; destruct fv as [z|s0| | | |]; intros H; try reflexivity;
      try (destruct z; [congruence | reflexivity | reflexivity]);
      try (destruct s0; [congruence | reflexivity]).
  - destruct fv as [| |b| | |]; intros H; try reflexivity. destruct b; [reflexivity | congruence].
  - destruct e as [|z l]; intros H; [reflexivity|]. destruct z; [destruct l; [congruence | reflexivity] | reflexivity | reflexivity].
  - destruct e as [|z l]; intros H; [reflexivity|]. destruct z; [destruct l; [congruence | reflexivity] | reflexivity | reflexivity].
  - destruct e as [|z l]; intros H; [reflexivity|]. destruct z; [destruct l; [congruence | reflexivity] | reflexivity | reflexivity].
  - destruct e as [|z l]; intros H; [reflexivity|]. destruct z; [destruct l; [congruence | reflexivity] | reflexivity | reflexivity].
  - destruct e as [|z l]; intros H; [reflexivity|]. destruct z; [destruct l; [congruence | reflexivity] | reflexivity | reflexivity].
Qed.

Lemma dec_n_ok t (IH : forall v rest, wf2 t v = true -> dec2 t (enc2 t v ++ rest) = Some (v, rest)) :
  forall vs tail, forallb (wf2 t) vs = true -> dec_n t (length vs) (flat_map (enc2 t) vs ++ tail) = Some vs.
Proof.
  induction vs as [|v vs IHvs]; intros tail H; simpl in *; [reflexivity|].
  apply andb_true_iff in H as [Hv Hvs]. rewrite <- app_assoc, IH by exact Hv. rewrite IHvs by exact Hvs. reflexivity.
Qed.

(* an absent field holds its default *)
Lemma absent_default c t fv (IH : rt2 t) :
  field_ok (c, t) = true -> wf2_field c t fv = true -> fst (fitem c t fv) = false -> fv = fdefault c t.
Proof.
  unfold field_ok, fitem, fdefault, wf2_field. simpl. intros Hok Hwf Habs.
  apply andb_true_iff in Hok as [Hok _]. destruct c.
  - destruct fv as [| | | |[x|]|]; try discriminate; reflexivity.
  - simpl in Habs. apply negb_false_iff in Habs.
    destruct (IH Hok) as [_ Hd]. apply Hd; auto.
    destruct (fenc_of t fv (enc2 t fv)); [reflexivity | discriminate].
Qed.

Lemma none_present_default fs (IH : Forall (fun cf => rt2 (snd cf)) fs) :
  forall vs, forallb field_ok fs = true -> wf2_fields fs vs = true ->
  any_present (items_of fs vs) = false -> vs = default_fields fs.
Proof.
  induction fs as [|[c t] fs IHfs]; intros vs Hok Hwf Hnone.
  - destruct vs; [reflexivity | discriminate].
  - destruct vs as [|fv vs]; [discriminate|].
    inversion IH as [|? ? Ht Hfs]; subst. simpl in Ht.
    cbn [forallb] in Hok. apply andb_true_iff in Hok as [Hok1 Hok2].
    cbn [wf2_fields] in Hwf. apply andb_true_iff in Hwf as [Hwf1 Hwf2].
    cbn [items_of] in Hnone. unfold any_present in Hnone. cbn [existsb] in Hnone.
    apply orb_false_iff in Hnone as [Hn1 Hn2].
    cbn [default_fields]. f_equal.
    + apply absent_default; auto.
    + apply IHfs; auto.
Qed.

Lemma rfields_pack fs (IH : Forall (fun cf => rt2 (snd cf)) fs) :
  forall vs n, forallb field_ok fs = true -> wf2_fields fs vs = true -> (n <= 8)%nat ->
  rfields fs (pad_to n (firstn n (map fst (items_of fs vs)))) (pack n (items_of fs vs)) = Some vs.
Proof.
  induction fs as [|[c t] fs IHfs]; intros vs n Hok Hwf Hn.
  - destruct vs; [reflexivity | discriminate].
  - destruct vs as [|fv vs]; [discriminate|].
    inversion IH as [|? ? Ht Hfs]; subst. simpl in Ht. specialize (IHfs Hfs).
    cbn [forallb] in Hok. apply andb_true_iff in Hok as [Hok1 Hok2].
    cbn [wf2_fields] in Hwf. apply andb_true_iff in Hwf as [Hwf1 Hwf2].
    cbn [items_of].
    set (it := fitem c t fv). set (r := items_of fs vs).
    (* what the reader does once it knows the presence bit p = fst it and has pend' / cur for the rest *)
    assert (Hstep : forall n', (n' <= 7)%nat ->
      (let pend := fst it :: pad_to n' (firstn n' (map fst r)) in
       let cur := item_bytes it ++ pack n' r in
       match pend with
       | [] => None
       | p :: pend' =>
          if p then
            match c with
            | None => match dec2 t cur with
                      | None => None
                      | Some (x, cur') => match rfields fs pend' cur' with None => None | Some xs => Some (x :: xs) end
                      end
            | Some _ =>
                if is_true_type t
                then match rfields fs pend' cur with None => None | Some xs => Some (VOpt (Some (VList [])) :: xs) end
                else match dec2 t cur with
                     | None => None
                     | Some (x, cur') => match rfields fs pend' cur' with None => None | Some xs => Some (VOpt (Some x) :: xs) end
                     end
            end
          else
            match rfields fs pend' cur with
            | None => None
            | Some xs => Some ((match c with None => default t | Some _ => VOpt None end) :: xs)
            end
       end) = Some (fv :: vs)).
    { intros n' Hn'. cbv zeta. unfold item_bytes.
      pose proof (IHfs vs n' Hok2 Hwf2 ltac:(lia)) as Hrest. fold r in Hrest.
      destruct (fst it) eqn:Ep.
      - (* present *)
        unfold it, fitem in Ep |- *. unfold field_ok in Hok1. simpl in Hok1.
        apply andb_true_iff in Hok1 as [Hokt _]. destruct (Ht Hokt) as [Hrt _].
        destruct c.
        + unfold wf2_field in Hwf1. destruct fv as [| | | |[x|]|]; try discriminate.
          apply andb_true_iff in Hwf1 as [Hx Htrue]. simpl snd.
          destruct (is_true_type t) eqn:Ett.
          * destruct x as [| | |[|? ?]| |]; try discriminate. simpl. rewrite Hrest. reflexivity.
          * rewrite Hrt by exact Hx. rewrite Hrest. reflexivity.
        + simpl in Ep. apply negb_true_iff in Ep. simpl snd.
          rewrite fenc_present by (destruct (fenc_of t fv (enc2 t fv)); [discriminate | discriminate]).
          unfold wf2_field in Hwf1. rewrite Hrt by exact Hwf1. rewrite Hrest. reflexivity.
      - (* absent *)
        simpl. rewrite Hrest.
        pose proof (absent_default c t fv Ht Hok1 Hwf1 Ep) as Hd. unfold fdefault in Hd. rewrite <- Hd. reflexivity. }
    destruct n as [|n'].
    + (* a new block starts here *)
      change (pad_to 0 (firstn 0 (map fst (it :: r)))) with (@nil bool). cbn [pack].
      destruct (any_present (it :: r)) eqn:Eany; cbn [rfields].
      * rewrite byte_bits_to_byte by apply firstn_length_le.
        cbn [map firstn]. rewrite pad_to_cons.
        apply (Hstep 7%nat). lia.
      * (* nothing more is present: the body ends here, the reader sees no bytes and assumes a zero block *)
        pose proof Eany as Eany'. unfold any_present in Eany'. cbn [existsb] in Eany'.
        apply orb_false_iff in Eany' as [E1 E2].
        pose proof (Hstep 7%nat ltac:(lia)) as Hs. cbv zeta in Hs.
        rewrite E1 in Hs. unfold item_bytes in Hs. rewrite E1 in Hs. cbn [app] in Hs.
        rewrite (pack_none 7 r E2) in Hs.
        rewrite pad_all_false in Hs; [ | rewrite any_present_map in E2; apply existsb_firstn_false; exact E2 | apply firstn_length_le].
        exact Hs.
    + cbn [map firstn pack rfields]. rewrite pad_to_cons.
      apply (Hstep n'). lia.
Qed.

Theorem tl2_roundtrip_all : forall d, rt2 d.
Proof.
  induction d using desc_ind'; unfold rt2; intros Hok.
  - (* prim *)
    split.
    + intros v rest Hwf. cbn [wf2] in Hwf. apply andb_true_iff in Hwf as [H1 H2].
      cbn [enc2 dec2]. apply read_write_prim2; auto.
      destruct v; auto. apply Z.leb_le in H2. exact H2.
    + intros v Hwf He. cbn [wf2] in Hwf. apply andb_true_iff in Hwf as [H1 _].
      destruct p, v; try discriminate; cbn [fenc_of default] in *;
        try (destruct z; [reflexivity | | ]; cbn [enc2 write_prim2 write_prim le_enc] in He; discriminate).
      destruct s; [reflexivity|]. cbn [enc2 write_prim2] in He.
      pose proof (write_size_nonempty (zlen (z :: s))). destruct (write_size (zlen (z :: s))); [congruence | discriminate].
  - (* bool *)
    split.
    + intros v rest Hwf. destruct v; try discriminate. cbn [enc2 dec2 app]. destruct b; reflexivity.
    + intros v Hwf He. destruct v; try discriminate. destruct b; [discriminate | reflexivity].
  - (* vector *)
    cbn [tl2_ok] in Hok. destruct (IHd Hok) as [IHrt _].
    split.
    + intros v rest Hwf. destruct v; try discriminate. cbn [wf2] in Hwf.
      apply andb_true_iff in Hwf as [Hwf _]. apply andb_true_iff in Hwf as [Hwf Hmax].
      apply andb_true_iff in Hwf as [Hall Hcnt]. apply Z.leb_le in Hcnt. apply Z.leb_le in Hmax.
      destruct vs as [|v0 vs].
      * cbn [enc2]. rewrite dec2_vector_eq. change ([0] ++ rest) with (write_size 0 ++ rest).
        rewrite read_write_size by (unfold max_int; lia).
        pose proof (takez_app_n 0 [] rest eq_refl) as Ht0. cbn [app] in Ht0. rewrite Ht0. reflexivity.
      * rewrite dec2_vector_eq.
        change (enc2 (DVector sorted d) (VList (v0 :: vs))) with (sized (write_size (zlen (v0 :: vs)) ++ flat_map (enc2 d) (v0 :: vs))).
        set (vl := v0 :: vs) in *.
        set (body := write_size (zlen vl) ++ flat_map (enc2 d) vl) in *.
        pose proof (zlen_nonneg vl). pose proof (zlen_nonneg (flat_map (enc2 d) vl)).
        assert (Hb : 0 < zlen body).
        { unfold body. rewrite zlen_app. pose proof (write_size_nonempty (zlen vl)).
          destruct (write_size (zlen vl)); [congruence|]. unfold zlen at 1. simpl length. lia. }
        assert (Hbm : zlen body <= max_int) by exact Hmax.
        unfold sized. rewrite <- app_assoc, read_write_size by lia.
        rewrite takez_app. destruct (zlen body =? 0) eqn:E0; [apply Z.eqb_eq in E0; lia|].
        unfold body. rewrite read_write_size.
        2:{ unfold body in Hbm. rewrite zlen_app in Hbm. pose proof (zlen_nonneg (write_size (zlen vl))). lia. }
        destruct (zlen vl >? zlen (flat_map (enc2 d) vl)) eqn:E1; [apply Z.gtb_lt in E1; lia|].
        unfold zlen at 1. rewrite Nat2Z.id.
        rewrite <- (app_nil_r (flat_map (enc2 d) vl)). rewrite dec_n_ok; auto.
    + intros v Hwf He. destruct v; try discriminate. cbn [default]. destruct vs as [|v0 vs]; [reflexivity|].
      exfalso. cbn [fenc_of enc2] in He.
      set (body := write_size (zlen (v0 :: vs)) ++ flat_map (enc2 d) (v0 :: vs)) in *.
      destruct (sized body) as [|z l] eqn:Es; [exact (sized_nonempty _ Es)|].
      destruct z; try discriminate. destruct l; try discriminate.
      apply sized_is_zero in Es. unfold body in Es.
      pose proof (write_size_nonempty (zlen (v0 :: vs))). destruct (write_size (zlen (v0 :: vs))); [congruence | discriminate].
  - (* tuple *) discriminate.
  - (* struct *)
    cbn [tl2_ok] in Hok. change (forallb field_ok fs = true) in Hok.
    split.
    + intros v rest Hwf. destruct v; try discriminate. rewrite wf2_struct_eq in Hwf.
      apply andb_true_iff in Hwf as [Hwf Hmax]. apply Z.leb_le in Hmax. rewrite enc2_struct_eq in *.
      rewrite dec2_struct_eq. set (items := items_of fs vs) in *.
      rewrite read_sized by exact Hmax.
      unfold struct_body in *. destruct (any_present items) eqn:Eany.
      * set (body := bits_to_byte (false :: firstn 7 (map fst items)) :: pack 7 items) in *.
        assert (Hb : 0 < zlen body) by (unfold body, zlen; simpl length; lia).
        destruct (zlen body =? 0) eqn:E0; [apply Z.eqb_eq in E0; lia|].
        rewrite takez_app. unfold body at 1.
        rewrite byte_bits_to_byte by (cbn [length]; pose proof (firstn_length_le 7 (map fst items)); lia).
        rewrite pad_to_cons. cbn [hd tl].
        unfold items. rewrite rfields_pack; auto.
      * cbn [zlen length Z.of_nat Z.eqb app]. f_equal. f_equal.
        rewrite default_struct_eq. f_equal. symmetry. apply none_present_default; auto.
    + intros v Hwf He. destruct v; try discriminate. rewrite wf2_struct_eq in Hwf.
      apply andb_true_iff in Hwf as [Hwf _]. rewrite enc2_struct_eq in He.
      cbn [fenc_of] in He. rewrite default_struct_eq. f_equal.
      destruct (sized (struct_body (items_of fs vs))) as [|z l] eqn:Es; [exfalso; exact (sized_nonempty _ Es)|].
      destruct z; try discriminate. destruct l; try discriminate. apply sized_is_zero in Es.
      apply none_present_default; auto. unfold struct_body in Es.
      destruct (any_present (items_of fs vs)); [discriminate | reflexivity].
  - (* union: an enumeration *)
    cbn [tl2_ok] in Hok. apply andb_true_iff in Hok as [Hok Hlen]. apply Z.ltb_lt in Hlen.
    split.
    + intros v rest Hwf. destruct v; try discriminate. cbn [wf2] in Hwf.
      destruct v as [| | |[|? ?]| |]; try discriminate. apply Z.ltb_lt in Hwf.
      rewrite dec2_union_eq. destruct i as [|k].
      * cbn [enc2]. change ([0] ++ rest) with (write_size 0 ++ rest).
        rewrite read_write_size by (unfold max_int; lia). reflexivity.
      * assert (Hi : 0 < Z.of_nat (S k) < 254) by lia.
        assert (Hw : write_size (Z.of_nat (S k)) = [Z.of_nat (S k)]).
        { unfold write_size. replace (Z.of_nat (S k) <? 254) with true by (symmetry; apply Z.ltb_lt; lia). reflexivity. }
        cbn [enc2]. cbv zeta. rewrite Hw.
        change (([1 + zlen [Z.of_nat (S k)]; 1] ++ [Z.of_nat (S k)]) ++ rest)
          with (write_size 2 ++ ([1; Z.of_nat (S k)] ++ rest)).
        rewrite read_write_size by (unfold max_int; lia).
        change (2 =? 0) with false. cbv iota.
        rewrite (takez_app_n 2 [1; Z.of_nat (S k)] rest eq_refl).
        change (Z.testbit 1 0) with true. cbv iota.
        rewrite <- (app_nil_r [Z.of_nat (S k)]), <- Hw, read_write_size by (unfold max_int; lia).
        destruct (Z.of_nat (S k) >=? zlen cs) eqn:E; [destruct (Z.geb_spec (Z.of_nat (S k)) (zlen cs)); [lia | discriminate]|].
        rewrite Nat2Z.id. reflexivity.
    + intros v Hwf He. destruct v; try discriminate. cbn [wf2] in Hwf.
      destruct v as [| | |[|? ?]| |]; try discriminate. cbn [default].
      destruct i; [reflexivity|]. cbn [fenc_of enc2] in He.
      unfold write_size in He. destruct (Z.of_nat (S i) <? 254); [|destruct (Z.of_nat (S i) <? 254 + 65536)]; cbn [app] in He; discriminate.
  - (* boxed *) discriminate.
Qed.

Theorem tl2_roundtrip : forall d v rest,
  tl2_ok d = true -> wf2 d v = true -> dec2 d (enc2 d v ++ rest) = Some (v, rest).
Proof. intros d v rest Hok Hwf. destruct (tl2_roundtrip_all d Hok) as [H _]. apply H. exact Hwf. Qed.
