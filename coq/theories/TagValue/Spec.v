(* C11 — the property's vocabulary, stated independently of the normalisation code:
   what a valid tag value is, what UTF-8 is, what a decimal numeral denotes. Definitions only. *)
From Coq Require Import ZArith List Bool.
From SH Require Import Common.Wrap Gen.TagValueUnicode TagValue.Model.
Import ListNotations.
Open Scope Z_scope.

Definition byte (b : Z) : Prop := 0 <= b <= 255.
Definition bytes (s : list Z) : Prop := Forall byte s.

(* Unicode scalar values: code points that are not surrogates *)
Definition scalar (r : Z) : Prop := 0 <= r <= 55295 \/ 57344 <= r <= 1114111.

(* the UTF-8 encoding of a sequence of runes, and "s is UTF-8" *)
Definition utf8 (rs : list Z) : list Z := flat_map encode_rune rs.
Definition is_utf8 (s : list Z) : Prop := exists rs, Forall scalar rs /\ s = utf8 rs.

Section Spec.
  Variables sp pr : Z -> bool.   (* unicode.IsSpace, unicode.IsPrint *)

  (* a rune allowed inside a value: the ASCII space, or printable and not a white space *)
  Definition good_rune (r : Z) : Prop := r = 32 \/ (pr r = true /\ sp r = false).
  (* no space at either end *)
  Definition trimmed (rs : list Z) : Prop :=
    (forall t, rs <> 32 :: t) /\ (forall t, rs <> t ++ [32]).
  (* no two consecutive spaces *)
  Definition single_spaces (rs : list Z) : Prop := forall a b, rs <> a ++ 32 :: 32 :: b.

  (* "a valid value (UTF-8, at most 128 bytes, trimmed, single ASCII spaces, printable)" *)
  Definition valid_value (s : list Z) : Prop :=
    exists rs, s = utf8 rs /\ Forall scalar rs /\ len s <= 128 /\
               Forall good_rune rs /\ trimmed rs /\ single_spaces rs.
End Spec.

(* ---- decimal numerals *)
Definition is_digit (c : Z) : Prop := 48 <= c <= 57.
Definition digits_val_from (n : Z) (ds : list Z) : Z := fold_left (fun a c => a * 10 + (c - 48)) ds n.
Definition digits_val (ds : list Z) : Z := digits_val_from 0 ds.
Definition digit_string (ds : list Z) : Prop := ds <> [] /\ Forall is_digit ds.

(* grammar accepted by 32-bit raw tags: [+-]?[0-9]+ *)
Definition numeral_signed (s : list Z) (v : Z) : Prop :=
  exists ds, digit_string ds /\
    ((s = ds /\ v = digits_val ds) \/ (s = 43 :: ds /\ v = digits_val ds) \/ (s = 45 :: ds /\ v = - digits_val ds)).
(* grammar accepted by 64-bit raw tags: -?[0-9]+ (an explicit plus sign is rejected by the code) *)
Definition numeral_noplus (s : list Z) (v : Z) : Prop :=
  exists ds, digit_string ds /\
    ((s = ds /\ v = digits_val ds) \/ (s = 45 :: ds /\ v = - digits_val ds)).
