(* Correspondence cases for C11: inputs given to the Go functions with what they returned.
   Byte strings are printed by the harness as constructors of Coq.Strings.Byte.byte (x00..xff), long ones
   run-length encoded ([seg]); an output that equals its reference (the input, or the forced value) is [Same]. *)
From Coq Require Import ZArith List Bool.
From Coq Require Strings.Byte.
From SH Require Import Common.Wrap Common.Corr Gen.TagValueUnicode TagValue.Model.
Import ListNotations.
Open Scope Z_scope.

Definition bz (b : Byte.byte) : Z := Z.of_N (Byte.to_N b).
Definition bzs (l : list Byte.byte) : list Z := map bz l.

Inductive seg := R (n : Z) (b : Byte.byte) | L (l : list Byte.byte).
Definition expand (ss : list seg) : list Z :=
  flat_map (fun s => match s with R n b => repeat (bz b) (Z.to_nat n) | L l => bzs l end) ss.

Inductive outv := Same | Other (l : list seg).

Fixpoint list_eqb (a b : list Z) : bool :=
  match a, b with
  | [], [] => true
  | x :: a', y :: b' => (x =? y) && list_eqb a' b'
  | _, _ => false
  end.

Definition out_eqb (model ref : list Z) (o : outv) : bool :=
  match o with Same => list_eqb model ref | Other l => list_eqb model (expand l) end.

Inductive case :=
(* s; ValidStringValueBytes(s); AppendValidStringValue(nil,s) (None = errBadEncoding, reference = forced value);
   ForceValidStringValueBytes(s) (reference = s); ForceValidStringValue(string(s)) (reference = forced value) *)
| CStr (s : list seg) (o_valid : bool) (o_strict : option outv) (o_fbytes o_fstr : outv)
(* r; unicode.IsSpace(r); unicode.IsPrint(r); utf8.AppendRune(nil,r) *)
| CRune (r : Z) (o_space o_print : bool) (o_enc : list Byte.byte)
(* p; utf8.DecodeRune(p) *)
| CDec (p : list Byte.byte) (o_r o_n : Z)
(* s; ContainsRawTagValueBytes(s); ContainsRawTagValue64Bytes(s) *)
| CRaw (s : list Byte.byte) (o32 : Z) (ok32 : bool) (o_lo o_hi : Z) (ok64 : bool).

Definition ok (c : case) : bool :=
  match c with
  | CStr s o_valid o_strict o_fbytes o_fstr =>
      let s := expand s in
      let fb := force_bytes s in
      Bool.eqb (valid s) o_valid
      && match append_valid false s, o_strict with
         | None, None => true
         | Some m, Some o => out_eqb m fb o
         | _, _ => false
         end
      && out_eqb fb s o_fbytes && out_eqb (force_str s) fb o_fstr
  | CRune r o_space o_print o_enc =>
      Bool.eqb (is_space r) o_space && Bool.eqb (is_print r) o_print && list_eqb (encode_rune r) (bzs o_enc)
  | CDec p o_r o_n =>
      let '(r, n) := decode_rune (bzs p) in (r =? o_r) && (n =? o_n)
  | CRaw s o32 ok32 o_lo o_hi ok64 =>
      let '(x, k) := raw32 (bzs s) in
      let '(lo, hi, k64) := raw64 (bzs s) in
      (x =? o32) && Bool.eqb k ok32 && (lo =? o_lo) && (hi =? o_hi) && Bool.eqb k64 ok64
  end.

Definition mism := mismatches ok.
