(* C11 — tag value normalisation and raw tag parsing.
   Model of internal/format/format.go:
     bytePrint, validStringValue (ValidStringValue / ValidStringValueBytes),
     appendValidStringValue (fast path + slow path; AppendValidStringValue = force:false,
     ForceValidStringValueBytes = force:true), ForceValidStringValue,
     ContainsRawTagValueBytes, ContainsRawTagValue64Bytes / containsRawTagValue64,
   and of the library functions they call, modelled exactly:
     unicode/utf8 DecodeRune (= go4.org/mem DecodeRune = DecodeRuneInString) and EncodeRune,
     strconv.ParseUint / ParseInt for base 10, bitSize 64 (go4.org/mem ParseInt/ParseUint call them),
     unicode.IsSpace / unicode.IsPrint (extension dumped from the runtime in use into Gen/TagValueUnicode.v).
   Byte strings are [list Z] with every element in 0..255 ([bytes]); runes are Z.
   Executable definitions only. *)
From Coq Require Import ZArith List Bool.
From SH Require Import Common.Wrap Gen.TagValueUnicode.
Import ListNotations.
Open Scope Z_scope.

Definition len {A} (l : list A) : Z := Z.of_nat (length l).
Definition in_rng (lo hi b : Z) : bool := (lo <=? b) && (b <=? hi).

(* ------------------------------------------------------------------ utf8 *)

Definition dec_err : Z * Z := (rune_error, 1).
Definition cont (b : Z) : bool := in_rng 128 191 b.

(* utf8.DecodeRune: (rune, size); (RuneError,0) on empty input, (RuneError,1) on any invalid encoding.
   p0&mask << k | ... is written as a sum: the or-ed bit fields are disjoint. *)
Definition decode_rune (p : list Z) : Z * Z :=
  match p with
  | [] => (rune_error, 0)
  | p0 :: t =>
      if p0 <? 128 then (p0, 1)
      else if in_rng 194 223 p0 then
        match t with
        | b1 :: _ => if cont b1 then ((p0 mod 32) * 64 + b1 mod 64, 2) else dec_err
        | _ => dec_err
        end
      else if in_rng 224 239 p0 then
        let lo := if p0 =? 224 then 160 else 128 in
        let hi := if p0 =? 237 then 159 else 191 in
        match t with
        | b1 :: b2 :: _ =>
            if in_rng lo hi b1 && cont b2
            then ((p0 mod 16) * 4096 + (b1 mod 64) * 64 + b2 mod 64, 3) else dec_err
        | _ => dec_err
        end
      else if in_rng 240 244 p0 then
        let lo := if p0 =? 240 then 144 else 128 in
        let hi := if p0 =? 244 then 143 else 191 in
        match t with
        | b1 :: b2 :: b3 :: _ =>
            if in_rng lo hi b1 && cont b2 && cont b3
            then ((p0 mod 8) * 262144 + (b1 mod 64) * 4096 + (b2 mod 64) * 64 + b3 mod 64, 4) else dec_err
        | _ => dec_err
        end
      else dec_err
  end.

(* utf8.EncodeRune (the bytes written; the int returned is their number) *)
Definition encode_rune (r : Z) : list Z :=
  if in_rng 0 127 r then [r]
  else if in_rng 128 2047 r then [192 + r / 64; 128 + r mod 64]
  else if in_rng 2048 55295 r || in_rng 57344 65535 r then
    [224 + r / 4096; 128 + (r / 64) mod 64; 128 + r mod 64]
  else if in_rng 65536 max_rune r then
    [240 + r / 262144; 128 + (r / 4096) mod 64; 128 + (r / 64) mod 64; 128 + r mod 64]
  else [239; 191; 189].

(* ------------------------------------------------------------------ unicode tables *)

Inductive rtree := RLeaf | RNode (l : rtree) (lo hi : Z) (r : rtree).

Fixpoint rtree_build (fuel : nat) (rs : list (Z * Z)) : rtree :=
  match fuel with
  | O => RLeaf
  | S f =>
      match rs with
      | [] => RLeaf
      | _ =>
          let k := Nat.div2 (length rs) in
          match skipn k rs with
          | (lo, hi) :: rgt => RNode (rtree_build f (firstn k rs)) lo hi (rtree_build f rgt)
          | [] => RLeaf
          end
      end
  end.

Fixpoint rtree_mem (t : rtree) (x : Z) : bool :=
  match t with
  | RLeaf => false
  | RNode l lo hi r => if x <? lo then rtree_mem l x else if x <=? hi then true else rtree_mem r x
  end.

Definition space_tree : rtree := Eval vm_compute in rtree_build 64 space_ranges.
Definition print_tree : rtree := Eval vm_compute in rtree_build 64 print_ranges.

(* unicode.IsSpace / unicode.IsPrint of the runtime in use *)
Definition is_space (r : Z) : bool := rtree_mem space_tree r.
Definition is_print (r : Z) : bool := rtree_mem print_tree r.

(* ------------------------------------------------------------------ string values *)

Definition byte_print (c : Z) : bool := (32 <=? c) && (c <=? 126).

Section Generic.
  (* the two unicode predicates; instantiated with is_space/is_print below *)
  Variables sp pr : Z -> bool.

  (* validStringValue loop; [prev] = previousSpace.  fuel > length s suffices. *)
  Fixpoint valid_loop (fuel : nat) (s : list Z) (prev : bool) : bool :=
    match fuel with
    | O => false
    | S f =>
        match s with
        | [] => negb prev
        | c :: t =>
            if byte_print c then
              let isp := c =? 32 in
              if isp && prev then false else valid_loop f t isp
            else
              let '(r, nr) := decode_rune s in
              if (r =? rune_error) && (nr <=? 1) then false
              else if sp r then false
              else if negb (pr r) then false
              else valid_loop f (skipn (Z.to_nat nr) s) false
        end
    end.

  Definition valid_g (s : list Z) : bool :=
    if len s >? max_string_len then false
    else match s with [] => true | _ => valid_loop (S (length s)) s true end.

  (* fast path of appendValidStringValue: Some previousSpace at the end of the scan, None = left the fast path *)
  Fixpoint fast_scan (s : list Z) (prev : bool) : option bool :=
    match s with
    | [] => Some prev
    | c :: t =>
        if negb (byte_print c) then None
        else let isp := c =? 32 in
             if isp && prev then None else fast_scan t isp
    end.

  Definition fast_ok (s : list Z) : bool :=
    match fast_scan s true with Some false => true | _ => false end.

  (* slow path loop. w = bytes written so far, prev = previousSpace.
     Result: None = errBadEncoding; Some (bytes written from here on, final previousSpace). *)
  Fixpoint slow_loop (force : bool) (fuel : nat) (src : list Z) (w : Z) (prev : bool) : option (list Z * bool) :=
    match fuel with
    | O => Some ([], prev)
    | S f =>
        match src with
        | [] => Some ([], prev)
        | _ =>
            let '(c, nr) := decode_rune src in
            if (c =? rune_error) && (nr <=? 1) && negb force then None
            else
              let isp := sp c in
              let rest := skipn (Z.to_nat nr) src in
              if isp && prev then slow_loop force f rest w prev
              else
                let c' := if isp then 32 else if negb (pr c) then rune_error else c in
                let enc := encode_rune c' in
                if w + len enc >? max_string_len then Some ([], prev)
                else match slow_loop force f rest (w + len enc) isp with
                     | None => None
                     | Some (o, p) => Some (enc ++ o, p)
                     end
        end
    end.

  (* appendValidStringValue(dst, src, MaxStringLen, force): None = (dst, errBadEncoding),
     Some o = (dst ++ o, nil) *)
  Definition append_valid_g (force : bool) (src : list Z) : option (list Z) :=
    match src with
    | [] => Some []
    | _ =>
        if (len src <=? max_string_len) && fast_ok src then Some src
        else match slow_loop force (S (length src)) src 0 true with
             | None => None
             | Some (o, p) => Some (if p && negb (len o =? 0) then removelast o else o)
             end
    end.

  (* ForceValidStringValueBytes *)
  Definition force_bytes_g (s : list Z) : list Z :=
    match append_valid_g true s with Some o => o | None => [] end.
  (* ForceValidStringValue (string) *)
  Definition force_str_g (s : list Z) : list Z :=
    if valid_g s then s else force_bytes_g s.
End Generic.

Definition valid := valid_g is_space is_print.
Definition append_valid := append_valid_g is_space is_print.
Definition force_bytes := force_bytes_g is_space is_print.
Definition force_str := force_str_g is_space is_print.

(* ------------------------------------------------------------------ raw tags *)

Inductive perr := PNone | PSyntax | PRange.
Definition perr_eqb (a b : perr) : bool :=
  match a, b with PNone, PNone | PSyntax, PSyntax | PRange, PRange => true | _, _ => false end.

Definition max_u64 : Z := two64 - 1.
Definition cutoff_u64 : Z := max_u64 / 10 + 1.

(* strconv.ParseUint(s, 10, 64), loop over the bytes with accumulator n *)
Fixpoint parse_uint_loop (s : list Z) (n : Z) : Z * perr :=
  match s with
  | [] => (n, PNone)
  | c :: t =>
      if in_rng 48 57 c then
        if n >=? cutoff_u64 then (max_u64, PRange)
        else
          let n10 := u64 (n * 10) in
          let n1 := u64 (n10 + (c - 48)) in
          if (n1 <? n10) || (n1 >? max_u64) then (max_u64, PRange) else parse_uint_loop t n1
      else (0, PSyntax)
  end.

Definition parse_uint (s : list Z) : Z * perr :=
  match s with [] => (0, PSyntax) | _ => parse_uint_loop s 0 end.

(* strconv.ParseInt(s, 10, 64) *)
Definition parse_int (s : list Z) : Z * perr :=
  match s with
  | [] => (0, PSyntax)
  | c :: t =>
      let neg := c =? 45 in
      let s' := if (c =? 43) || neg then t else s in
      let '(un, e) := parse_uint s' in
      match e with
      | PSyntax => (0, PSyntax)
      | _ =>
          if negb neg && (un >=? two63) then (two63 - 1, PRange)
          else if neg && (un >? two63) then (- two63, PRange)
          else let n := i64 un in ((if neg then i64 (- n) else n), PNone)
      end
  end.

(* ContainsRawTagValueBytes: (int32(i), ok) *)
Definition raw32 (s : list Z) : Z * bool :=
  let '(i, e) := parse_int s in
  (i32 i, perr_eqb e PNone && (- two31 <=? i) && (i <=? two32 - 1)).

(* ContainsRawTagValue64Bytes: (lo, hi, ok) *)
Definition raw64 (s : list Z) : Z * Z * bool :=
  match s with
  | [] => (0, 0, false)
  | c :: _ =>
      if c =? 45 then
        let '(i, e) := parse_int s in (i32 i, i32 (i / two32), perr_eqb e PNone)
      else
        let '(u, e) := parse_uint s in (i32 u, i32 (u / two32), perr_eqb e PNone)
  end.
