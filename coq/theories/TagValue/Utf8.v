(* C11 — the modelled utf8.EncodeRune / utf8.DecodeRune are inverse to each other. *)
From Coq Require Import ZArith List Bool Lia.
From SH Require Import Common.Wrap Gen.TagValueUnicode TagValue.Model TagValue.Spec.
Import ListNotations.
Open Scope Z_scope.

Ltac Zify.zify_post_hook ::= Z.to_euclidean_division_equations.

Ltac zb := repeat match goal with
  | H : (_ && _) = true |- _ => apply andb_prop in H; destruct H
  | H : (_ <=? _) = true |- _ => apply Z.leb_le in H
  | H : (_ <=? _) = false |- _ => apply Z.leb_gt in H
  | H : (_ <? _) = true |- _ => apply Z.ltb_lt in H
  | H : (_ <? _) = false |- _ => apply Z.ltb_ge in H
  | H : (_ =? _) = true |- _ => apply Z.eqb_eq in H
  | H : (_ =? _) = false |- _ => apply Z.eqb_neq in H
  end.

(* decide comparisons in the goal from linear facts *)
Ltac dcmp := repeat match goal with
  | |- context [?a <=? ?b] => first [ replace (a <=? b) with true by (symmetry; apply Z.leb_le; lia)
                                    | replace (a <=? b) with false by (symmetry; apply Z.leb_gt; lia) ]
  | |- context [?a <? ?b] => first [ replace (a <? b) with true by (symmetry; apply Z.ltb_lt; lia)
                                   | replace (a <? b) with false by (symmetry; apply Z.ltb_ge; lia) ]
  | |- context [?a =? ?b] => first [ replace (a =? b) with true by (symmetry; apply Z.eqb_eq; lia)
                                   | replace (a =? b) with false by (symmetry; apply Z.eqb_neq; lia) ]
  end.

Lemma len_cons {A} (x : A) l : len (x :: l) = 1 + len l.
Proof. unfold len. simpl length. lia. Qed.
Lemma len_nil {A} : len (@nil A) = 0.
Proof. reflexivity. Qed.
Lemma len_app {A} (a b : list A) : len (a ++ b) = len a + len b.
Proof. unfold len. rewrite app_length. lia. Qed.
Lemma len_nonneg {A} (a : list A) : 0 <= len a.
Proof. unfold len. lia. Qed.

(* the four shapes of an encoding *)
Lemma enc1 r : 0 <= r <= 127 -> encode_rune r = [r].
Proof. intros. unfold encode_rune, in_rng. dcmp. reflexivity. Qed.
Lemma enc2 r : 128 <= r <= 2047 -> encode_rune r = [192 + r / 64; 128 + r mod 64].
Proof. intros. unfold encode_rune, in_rng. dcmp. reflexivity. Qed.
Lemma enc3 r : 2048 <= r <= 55295 \/ 57344 <= r <= 65535 ->
  encode_rune r = [224 + r / 4096; 128 + (r / 64) mod 64; 128 + r mod 64].
Proof.
  intros [H|H]; unfold encode_rune, in_rng.
  - replace (0 <=? r) with true by (symmetry; apply Z.leb_le; lia).
    replace (r <=? 127) with false by (symmetry; apply Z.leb_gt; lia).
    replace (128 <=? r) with true by (symmetry; apply Z.leb_le; lia).
    replace (r <=? 2047) with false by (symmetry; apply Z.leb_gt; lia).
    replace (2048 <=? r) with true by (symmetry; apply Z.leb_le; lia).
    replace (r <=? 55295) with true by (symmetry; apply Z.leb_le; lia). reflexivity.
  - replace (0 <=? r) with true by (symmetry; apply Z.leb_le; lia).
    replace (r <=? 127) with false by (symmetry; apply Z.leb_gt; lia).
    replace (128 <=? r) with true by (symmetry; apply Z.leb_le; lia).
    replace (r <=? 2047) with false by (symmetry; apply Z.leb_gt; lia).
    replace (2048 <=? r) with true by (symmetry; apply Z.leb_le; lia).
    replace (r <=? 55295) with false by (symmetry; apply Z.leb_gt; lia).
    replace (57344 <=? r) with true by (symmetry; apply Z.leb_le; lia).
    replace (r <=? 65535) with true by (symmetry; apply Z.leb_le; lia). reflexivity.
Qed.
Lemma enc4 r : 65536 <= r <= 1114111 ->
  encode_rune r = [240 + r / 262144; 128 + (r / 4096) mod 64; 128 + (r / 64) mod 64; 128 + r mod 64].
Proof.
  intros. unfold encode_rune, in_rng, max_rune.
  replace (0 <=? r) with true by (symmetry; apply Z.leb_le; lia).
  replace (r <=? 127) with false by (symmetry; apply Z.leb_gt; lia).
  replace (128 <=? r) with true by (symmetry; apply Z.leb_le; lia).
  replace (r <=? 2047) with false by (symmetry; apply Z.leb_gt; lia).
  replace (2048 <=? r) with true by (symmetry; apply Z.leb_le; lia).
  replace (r <=? 55295) with false by (symmetry; apply Z.leb_gt; lia).
  replace (57344 <=? r) with true by (symmetry; apply Z.leb_le; lia).
  replace (r <=? 65535) with false by (symmetry; apply Z.leb_gt; lia).
  replace (65536 <=? r) with true by (symmetry; apply Z.leb_le; lia).
  replace (r <=? 1114111) with true by (symmetry; apply Z.leb_le; lia). reflexivity.
Qed.

Lemma scalar_cases r : scalar r ->
  0 <= r <= 127 \/ 128 <= r <= 2047 \/ (2048 <= r <= 55295 \/ 57344 <= r <= 65535) \/ 65536 <= r <= 1114111.
Proof. unfold scalar. lia. Qed.

Lemma enc_len r : scalar r -> 1 <= len (encode_rune r) <= 4.
Proof.
  intros H. destruct (scalar_cases r H) as [A|[A|[A|A]]];
  [rewrite enc1|rewrite enc2|rewrite enc3|rewrite enc4]; auto; unfold len; simpl; lia.
Qed.

Lemma enc_len1 r : scalar r -> len (encode_rune r) <= 1 -> 0 <= r <= 127.
Proof.
  intros H. destruct (scalar_cases r H) as [A|[A|[A|A]]]; auto;
  [rewrite enc2|rewrite enc3|rewrite enc4]; auto; unfold len; simpl; lia.
Qed.

Lemma enc_bytes r : scalar r -> bytes (encode_rune r).
Proof.
  intros H. unfold bytes. destruct (scalar_cases r H) as [A|[A|[A|A]]];
  [rewrite enc1|rewrite enc2|rewrite enc3|rewrite enc4]; auto;
  repeat constructor; unfold byte; lia.
Qed.

(* a non-ASCII rune starts with a byte >= 192 *)
Lemma enc_head r : scalar r -> 128 <= r -> exists b t, encode_rune r = b :: t /\ 192 <= b.
Proof.
  intros H G. destruct (scalar_cases r H) as [A|[A|[A|A]]]; [lia|rewrite enc2|rewrite enc3|rewrite enc4]; auto;
  eexists; eexists; (split; [reflexivity|lia]).
Qed.

(* the decoder on each shape *)
Lemma dec1 p0 rest : p0 < 128 -> decode_rune (p0 :: rest) = (p0, 1).
Proof. intros. unfold decode_rune. dcmp. reflexivity. Qed.
Lemma dec2 p0 b1 rest : 194 <= p0 <= 223 -> 128 <= b1 <= 191 ->
  decode_rune (p0 :: b1 :: rest) = (p0 mod 32 * 64 + b1 mod 64, 2).
Proof. intros. unfold decode_rune, cont, in_rng. dcmp. reflexivity. Qed.
Lemma dec3 p0 b1 b2 rest : 224 <= p0 <= 239 ->
  (if p0 =? 224 then 160 else 128) <= b1 <= (if p0 =? 237 then 159 else 191) -> 128 <= b2 <= 191 ->
  decode_rune (p0 :: b1 :: b2 :: rest) = (p0 mod 16 * 4096 + b1 mod 64 * 64 + b2 mod 64, 3).
Proof.
  intros H0 [L U] H2. unfold decode_rune, cont, in_rng.
  apply Z.leb_le in L. apply Z.leb_le in U. rewrite L, U. dcmp. reflexivity.
Qed.
Lemma dec4 p0 b1 b2 b3 rest : 240 <= p0 <= 244 ->
  (if p0 =? 240 then 144 else 128) <= b1 <= (if p0 =? 244 then 143 else 191) -> 128 <= b2 <= 191 -> 128 <= b3 <= 191 ->
  decode_rune (p0 :: b1 :: b2 :: b3 :: rest) =
  (p0 mod 8 * 262144 + b1 mod 64 * 4096 + b2 mod 64 * 64 + b3 mod 64, 4).
Proof.
  intros H0 [L U] H2 H3. unfold decode_rune, cont, in_rng.
  apply Z.leb_le in L. apply Z.leb_le in U. rewrite L, U. dcmp. reflexivity.
Qed.

(* decoding what was encoded *)
Lemma decode_encode r rest : scalar r ->
  decode_rune (encode_rune r ++ rest) = (r, len (encode_rune r)).
Proof.
  intros H. destruct (scalar_cases r H) as [A|[A|[A|A]]].
  - rewrite enc1 by auto. cbn [app]. rewrite dec1 by lia. reflexivity.
  - rewrite enc2 by auto. cbn [app]. rewrite dec2 by lia. unfold len; simpl length; simpl Z.of_nat. f_equal; lia.
  - rewrite enc3 by auto. cbn [app]. rewrite dec3.
    + unfold len; simpl length; simpl Z.of_nat. f_equal; lia.
    + lia.
    + destruct (224 + r / 4096 =? 224) eqn:E1; destruct (224 + r / 4096 =? 237) eqn:E2; zb; lia.
    + lia.
  - rewrite enc4 by auto. cbn [app]. rewrite dec4.
    + unfold len; simpl length; simpl Z.of_nat. f_equal; lia.
    + lia.
    + destruct (240 + r / 262144 =? 240) eqn:E1; destruct (240 + r / 262144 =? 244) eqn:E2; zb; lia.
    + lia.
    + lia.
Qed.

(* what the decoder returns: either the error token, or a scalar value whose encoding is a prefix of the input *)
Lemma decode_inv p r n : bytes p -> decode_rune p = (r, n) ->
  (r = rune_error /\ 0 <= n <= 1 /\ (n = 0 -> p = [])) \/
  (scalar r /\ exists rest, p = encode_rune r ++ rest /\ n = len (encode_rune r) /\ 1 <= n).
Proof.
  intros B. destruct p as [|p0 t]; [intros E; inversion E; left; split; [reflexivity|split; [lia|auto]]|].
  assert (Eerr : (rune_error, 1) = (r, n) ->
    (r = rune_error /\ 0 <= n <= 1 /\ (n = 0 -> p0 :: t = [])) \/
    (scalar r /\ exists rest, p0 :: t = encode_rune r ++ rest /\ n = len (encode_rune r) /\ 1 <= n)).
  { intros E; inversion E; left; split; [reflexivity|split; [lia|lia]]. }
  inversion B as [|? ? B0 Bt]; subst. unfold byte in B0.
  unfold decode_rune, dec_err, cont, in_rng.
  destruct (p0 <? 128) eqn:E0.
  { intros E; inversion E; subst. zb. right. split; [unfold scalar; lia|].
    exists t. rewrite enc1 by lia. split; [reflexivity|]. unfold len; simpl; lia. }
  destruct ((194 <=? p0) && (p0 <=? 223)) eqn:E2.
  { destruct t as [|b1 t]; [exact Eerr|].
    destruct ((128 <=? b1) && (b1 <=? 191)) eqn:C1; [|exact Eerr].
    intros E; inversion E; subst; clear E. zb. right.
    assert (R : 128 <= p0 mod 32 * 64 + b1 mod 64 <= 2047) by lia.
    split; [unfold scalar; lia|]. exists t. rewrite enc2 by exact R.
    split; [|unfold len; simpl; lia]. cbn [app]. f_equal; [lia|f_equal; lia]. }
  destruct ((224 <=? p0) && (p0 <=? 239)) eqn:E3.
  { destruct t as [|b1 [|b2 t]]; [exact Eerr|exact Eerr|].
    destruct (((if p0 =? 224 then 160 else 128) <=? b1) && (b1 <=? (if p0 =? 237 then 159 else 191)) &&
              ((128 <=? b2) && (b2 <=? 191))) eqn:C; [|exact Eerr].
    intros E; inversion E; subst; clear E. zb. right.
    set (r := p0 mod 16 * 4096 + b1 mod 64 * 64 + b2 mod 64).
    assert (R : 2048 <= r <= 55295 \/ 57344 <= r <= 65535).
    { unfold r. destruct (p0 =? 224) eqn:P1; destruct (p0 =? 237) eqn:P2; zb; lia. }
    assert (Bb1 : 128 <= b1 <= 191).
    { destruct (p0 =? 224) eqn:P1; destruct (p0 =? 237) eqn:P2; zb; lia. }
    split; [unfold scalar; lia|]. exists t. rewrite enc3 by exact R.
    split; [|unfold len; simpl; lia]. cbn [app]. unfold r.
    f_equal; [lia|f_equal; [lia|f_equal; lia]]. }
  destruct ((240 <=? p0) && (p0 <=? 244)) eqn:E4; [|exact Eerr].
  destruct t as [|b1 [|b2 [|b3 t]]]; [exact Eerr|exact Eerr|exact Eerr|].
  destruct (((if p0 =? 240 then 144 else 128) <=? b1) && (b1 <=? (if p0 =? 244 then 143 else 191)) &&
            ((128 <=? b2) && (b2 <=? 191)) && ((128 <=? b3) && (b3 <=? 191))) eqn:C; [|exact Eerr].
  intros E; inversion E; subst; clear E. zb. right.
  set (r := p0 mod 8 * 262144 + b1 mod 64 * 4096 + b2 mod 64 * 64 + b3 mod 64).
  assert (R : 65536 <= r <= 1114111).
  { unfold r. destruct (p0 =? 240) eqn:P1; destruct (p0 =? 244) eqn:P2; zb; lia. }
  assert (Bb1 : 128 <= b1 <= 191).
  { destruct (p0 =? 240) eqn:P1; destruct (p0 =? 244) eqn:P2; zb; lia. }
  split; [unfold scalar; lia|]. exists t. rewrite enc4 by exact R.
  split; [|unfold len; simpl; lia]. cbn [app]. unfold r.
  f_equal; [lia|f_equal; [lia|f_equal; [lia|f_equal; lia]]].
Qed.

Lemma rune_error_scalar : scalar rune_error.
Proof. unfold scalar, rune_error. lia. Qed.

Lemma decode_scalar p : bytes p -> scalar (fst (decode_rune p)).
Proof.
  intros B. destruct (decode_rune p) as [r n] eqn:E.
  destruct (decode_inv p r n B E) as [[-> _]|[S _]]; [apply rune_error_scalar|exact S].
Qed.

Lemma skipn_enc {A} (a b : list A) : skipn (Z.to_nat (len a)) (a ++ b) = b.
Proof.
  unfold len. rewrite Nat2Z.id. induction a; simpl; auto.
Qed.

Lemma utf8_cons r rs : utf8 (r :: rs) = encode_rune r ++ utf8 rs.
Proof. reflexivity. Qed.
Lemma utf8_app a b : utf8 (a ++ b) = utf8 a ++ utf8 b.
Proof. unfold utf8. apply flat_map_app. Qed.
Lemma utf8_bytes rs : Forall scalar rs -> bytes (utf8 rs).
Proof.
  induction 1; [constructor|]. rewrite utf8_cons. apply Forall_app. split; [apply enc_bytes; auto|auto].
Qed.
Lemma enc_nonempty r : encode_rune r <> [].
Proof.
  unfold encode_rune. repeat match goal with |- context [if ?c then _ else _] => destruct c end; discriminate.
Qed.
