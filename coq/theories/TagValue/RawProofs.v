(* C11 - proofs about raw tag parsing: strconv.ParseUint/ParseInt (base 10, 64 bit) and ContainsRawTagValue(64)Bytes. *)
From Coq Require Import ZArith List Bool Lia.
From SH Require Import Common.Wrap Gen.TagValueUnicode TagValue.Model TagValue.Spec TagValue.Utf8.
Import ListNotations.
Open Scope Z_scope.

Lemma dv_cons n c t : digits_val_from n (c :: t) = digits_val_from (n * 10 + (c - 48)) t.
Proof. reflexivity. Qed.

Lemma dv_ge : forall ds n, Forall is_digit ds -> 0 <= n -> n <= digits_val_from n ds.
Proof.
  induction ds as [|c t IH]; intros n F Hn; [unfold digits_val_from; simpl; lia|].
  inversion F as [|? ? Dc Ft]; subst. unfold is_digit in Dc. rewrite dv_cons.
  specialize (IH (n * 10 + (c - 48)) Ft ltac:(lia)). lia.
Qed.

Lemma digit_in_rng c : in_rng 48 57 c = true <-> is_digit c.
Proof. unfold in_rng, is_digit. rewrite andb_true_iff, !Z.leb_le. tauto. Qed.

Lemma loop_spec : forall ds n, Forall is_digit ds -> 0 <= n < two64 ->
  parse_uint_loop ds n =
  if digits_val_from n ds <? two64 then (digits_val_from n ds, PNone) else (max_u64, PRange).
Proof.
  induction ds as [|c t IH]; intros n F Hn.
  - unfold digits_val_from. simpl. replace (n <? two64) with true by (symmetry; apply Z.ltb_lt; lia). reflexivity.
  - inversion F as [|? ? Dc Ft]; subst. cbn [parse_uint_loop].
    rewrite (proj2 (digit_in_rng c) Dc). unfold is_digit in Dc. rewrite dv_cons.
    pose proof (dv_ge t (n * 10 + (c - 48)) Ft ltac:(lia)) as GE.
    change cutoff_u64 with 1844674407370955162. change max_u64 with 18446744073709551615.
    unfold two64 in *.
    destruct (n >=? 1844674407370955162) eqn:C.
    + rewrite Z.geb_leb in C. zb.
      replace (digits_val_from (n * 10 + (c - 48)) t <? 18446744073709551616) with false
        by (symmetry; apply Z.ltb_ge; lia). reflexivity.
    + rewrite Z.geb_leb in C. zb. unfold u64, two64.
      rewrite (Z.mod_small (n * 10)) by lia.
      destruct (Z_lt_le_dec (n * 10 + (c - 48)) 18446744073709551616) as [Lt|Ge].
      * rewrite (Z.mod_small (n * 10 + (c - 48))) by lia.
        replace (n * 10 + (c - 48) <? n * 10) with false by (symmetry; apply Z.ltb_ge; lia).
        replace (n * 10 + (c - 48) >? 18446744073709551615) with false
          by (symmetry; rewrite Z.gtb_ltb; apply Z.ltb_ge; lia).
        cbn [orb]. rewrite IH by (auto; unfold two64; lia). reflexivity.
      * replace ((n * 10 + (c - 48)) mod 18446744073709551616) with (n * 10 + (c - 48) - 18446744073709551616)
          by lia.
        replace (n * 10 + (c - 48) - 18446744073709551616 <? n * 10) with true by (symmetry; apply Z.ltb_lt; lia).
        cbn [orb].
        replace (digits_val_from (n * 10 + (c - 48)) t <? 18446744073709551616) with false
          by (symmetry; apply Z.ltb_ge; lia). reflexivity.
Qed.

Lemma loop_digits : forall s n v, parse_uint_loop s n = (v, PNone) -> Forall is_digit s.
Proof.
  induction s as [|c t IH]; intros n v E; [constructor|]. cbn [parse_uint_loop] in E.
  destruct (in_rng 48 57 c) eqn:D; [|discriminate].
  destruct (n >=? cutoff_u64); [discriminate|]. destruct (_ || _); [discriminate|].
  constructor; [apply digit_in_rng; exact D|eapply IH; exact E].
Qed.

Lemma loop_range_val : forall s n v, parse_uint_loop s n = (v, PRange) -> v = max_u64.
Proof.
  induction s as [|c t IH]; intros n v E; cbn [parse_uint_loop] in E; [discriminate|].
  destruct (in_rng 48 57 c); [|discriminate].
  destruct (n >=? cutoff_u64); [inversion E; reflexivity|]. destruct (_ || _); [inversion E; reflexivity|].
  eapply IH; exact E.
Qed.

(* strconv.ParseUint(s,10,64) succeeds exactly on non-empty digit strings denoting a number below 2^64 *)
Theorem parse_uint_ok s v :
  parse_uint s = (v, PNone) <-> digit_string s /\ v = digits_val s /\ v < two64.
Proof.
  unfold parse_uint, digit_string, digits_val. split.
  - destruct s as [|c t] eqn:Es; [discriminate|]. rewrite <- Es. intros E.
    pose proof (loop_digits _ _ _ E) as F. rewrite (loop_spec s 0 F) in E by (unfold two64; lia).
    destruct (digits_val_from 0 s <? two64) eqn:L; [|discriminate]. inversion E; subst v. zb.
    split; [split; [rewrite Es; discriminate|exact F]|split; [reflexivity|exact L]].
  - intros [[NE F] [-> L]]. destruct s as [|c t] eqn:Es; [congruence|]. rewrite <- Es in *.
    rewrite (loop_spec s 0 F) by (unfold two64; lia).
    replace (digits_val_from 0 s <? two64) with true by (symmetry; apply Z.ltb_lt; exact L). reflexivity.
Qed.

Lemma parse_uint_range s v : parse_uint s = (v, PRange) -> v = max_u64.
Proof. unfold parse_uint. destruct s; [discriminate|]. apply loop_range_val. Qed.

Lemma digits_val_nonneg ds : Forall is_digit ds -> 0 <= digits_val ds.
Proof. intros F. unfold digits_val. apply (dv_ge ds 0 F). lia. Qed.

Lemma digit_string_head c t : digit_string (c :: t) -> c <> 43 /\ c <> 45.
Proof. intros [_ F]. inversion F as [|? ? D _]; subst. unfold is_digit in D. lia. Qed.

Lemma i64_small u : 0 <= u < two63 -> i64 u = u.
Proof.
  intros H. unfold i64, two64, two63 in *. rewrite Z.mod_small by lia.
  replace (u <? 9223372036854775808) with true by (symmetry; apply Z.ltb_lt; lia). reflexivity.
Qed.

Lemma i64_neg u : 0 <= u <= two63 -> i64 (- i64 u) = - u.
Proof.
  intros H. unfold two63 in H.
  destruct (Z.eq_dec u 9223372036854775808) as [->|NE]; [reflexivity|].
  rewrite (i64_small u) by (unfold two63; lia).
  destruct (Z.eq_dec u 0) as [->|NZ]; [reflexivity|].
  unfold i64, two64, two63.
  replace (- u mod 18446744073709551616) with (18446744073709551616 - u) by lia.
  replace (18446744073709551616 - u <? 9223372036854775808) with false by (symmetry; apply Z.ltb_ge; lia).
  lia.
Qed.

(* the part of ParseInt after the call of ParseUint *)
Definition finish (neg : bool) (ue : Z * perr) : Z * perr :=
  let '(un, e) := ue in
  match e with
  | PSyntax => (0, PSyntax)
  | _ =>
      if negb neg && (un >=? two63) then (two63 - 1, PRange)
      else if neg && (un >? two63) then (- two63, PRange)
      else let n := i64 un in ((if neg then i64 (- n) else n), PNone)
  end.

Lemma parse_int_unfold c t :
  parse_int (c :: t) = finish (c =? 45) (parse_uint (if (c =? 43) || (c =? 45) then t else c :: t)).
Proof. unfold parse_int, finish. destruct (parse_uint _) as [un e]. reflexivity. Qed.

Lemma finish_ok neg s' v :
  finish neg (parse_uint s') = (v, PNone) <->
  digit_string s' /\ (neg = false /\ v = digits_val s' /\ v < two63 \/
                      neg = true /\ v = - digits_val s' /\ digits_val s' <= two63).
Proof.
  unfold finish. split.
  - destruct (parse_uint s') as [un e] eqn:PU. destruct e.
    + apply parse_uint_ok in PU. destruct PU as [DS [Eun Lun]].
      pose proof (digits_val_nonneg s' (proj2 DS)) as NN. rewrite <- Eun in *.
      destruct neg; cbn [negb andb].
      * destruct (un >? two63) eqn:B; [discriminate|]. rewrite Z.gtb_ltb in B. zb.
        intros E. inversion E; subst v. split; [exact DS|]. right.
        split; [reflexivity|]. split; [apply i64_neg; lia|lia].
      * destruct (un >=? two63) eqn:B; [discriminate|]. rewrite Z.geb_leb in B. zb.
        intros E. inversion E; subst v. split; [exact DS|]. left.
        split; [reflexivity|]. rewrite i64_small by lia. split; [reflexivity|lia].
    + discriminate.
    + apply parse_uint_range in PU. subst un. change max_u64 with 18446744073709551615. unfold two63.
      destruct neg; cbn [negb andb]; discriminate.
  - intros [DS H]. pose proof (digits_val_nonneg s' (proj2 DS)) as NN.
    assert (PU : parse_uint s' = (digits_val s', PNone)).
    { apply parse_uint_ok. split; [exact DS|]. split; [reflexivity|]. unfold two64, two63 in *. lia. }
    rewrite PU. destruct H as [[-> [-> L]]|[-> [-> L]]]; cbn [negb andb].
    + replace (digits_val s' >=? two63) with false by (symmetry; rewrite Z.geb_leb; apply Z.leb_gt; lia).
      rewrite i64_small by lia. reflexivity.
    + replace (digits_val s' >? two63) with false by (symmetry; rewrite Z.gtb_ltb; apply Z.ltb_ge; lia).
      rewrite i64_neg by lia. reflexivity.
Qed.

(* strconv.ParseInt(s,10,64): optional sign, digits, value in [-2^63, 2^63-1] *)
Theorem parse_int_ok s v :
  parse_int s = (v, PNone) <-> numeral_signed s v /\ - two63 <= v < two63.
Proof.
  unfold numeral_signed. split.
  - destruct s as [|c t]; [discriminate|]. rewrite parse_int_unfold. intros E. apply finish_ok in E.
    destruct E as [DS H]. pose proof (digits_val_nonneg _ (proj2 DS)) as NN.
    destruct (c =? 45) eqn:C45.
    + zb. subst c. change ((45 =? 43) || true) with true in *. cbv iota in *.
      destruct H as [[F _]|[_ [-> L]]]; [discriminate|].
      split; [|unfold two63 in *; lia]. exists t. split; [exact DS|]. right. right. split; reflexivity.
    + destruct H as [[_ [-> L]]|[F _]]; [|discriminate]. split; [|unfold two63 in *; lia].
      destruct (c =? 43) eqn:C43; cbn [orb] in *; zb.
      * subst c. exists t. split; [exact DS|]. right. left. split; reflexivity.
      * exists (c :: t). split; [exact DS|]. left. split; reflexivity.
  - intros [[ds [DS [[-> ->]|[[-> ->]|[-> ->]]]]] R]; pose proof (digits_val_nonneg ds (proj2 DS)) as NN.
    + destruct ds as [|c t] eqn:Ed; [destruct DS; congruence|].
      destruct (digit_string_head c t DS) as [N1 N2].
      rewrite parse_int_unfold.
      replace (c =? 45) with false by (symmetry; apply Z.eqb_neq; exact N2).
      replace (c =? 43) with false by (symmetry; apply Z.eqb_neq; exact N1). cbn [orb].
      apply finish_ok. split; [exact DS|]. left. split; [reflexivity|]. split; [reflexivity|lia].
    + rewrite parse_int_unfold. change (43 =? 45) with false. change (43 =? 43) with true. cbn [orb].
      apply finish_ok. split; [exact DS|]. left. split; [reflexivity|]. split; [reflexivity|lia].
    + rewrite parse_int_unfold. change (45 =? 45) with true. change ((45 =? 43) || true) with true. cbv iota.
      apply finish_ok. split; [exact DS|]. right. split; [reflexivity|]. split; [reflexivity|lia].
Qed.

(* ---- ContainsRawTagValueBytes *)
Theorem raw32_spec s x :
  raw32 s = (x, true) <-> exists v, numeral_signed s v /\ - two31 <= v <= two32 - 1 /\ x = i32 v.
Proof.
  unfold raw32. split.
  - destruct (parse_int s) as [i e] eqn:P. intros E. inversion E as [[Ex Eb]]; clear E.
    destruct e; cbn [perr_eqb andb] in Eb; try discriminate. zb.
    apply parse_int_ok in P. destruct P as [N _]. exists i. repeat split; auto; lia.
  - intros [v [N [R ->]]].
    assert (P : parse_int s = (v, PNone)).
    { apply parse_int_ok. split; [exact N|]. unfold two31, two32, two63 in *. lia. }
    rewrite P. cbn [perr_eqb andb].
    replace (- two31 <=? v) with true by (symmetry; apply Z.leb_le; lia).
    replace (v <=? two32 - 1) with true by (symmetry; apply Z.leb_le; lia). reflexivity.
Qed.

Theorem raw32_accepts_iff s :
  snd (raw32 s) = true <-> exists v, numeral_signed s v /\ - two31 <= v <= two32 - 1.
Proof.
  split.
  - destruct (raw32 s) as [x b] eqn:E. simpl. intros ->. apply raw32_spec in E.
    destruct E as [v [N [R _]]]. exists v. auto.
  - intros [v [N R]]. rewrite (proj2 (raw32_spec s (i32 v))); [reflexivity|]. exists v. auto.
Qed.

Theorem raw32_bits_roundtrip s v : numeral_signed s v -> - two31 <= v <= two32 - 1 ->
  snd (raw32 s) = true /\ (v < 0 -> fst (raw32 s) = v) /\ (0 <= v -> u32 (fst (raw32 s)) = v).
Proof.
  intros N R. rewrite (proj2 (raw32_spec s (i32 v))) by (exists v; auto). simpl.
  split; [reflexivity|]. split.
  - intros Neg. unfold i32, two32, two31 in *.
    replace (v mod 4294967296) with (v + 4294967296) by lia.
    replace (v + 4294967296 <? 2147483648) with false by (symmetry; apply Z.ltb_ge; lia). lia.
  - intros Pos. rewrite u32_i32. apply u32_id. unfold is_u32. lia.
Qed.

(* ---- ContainsRawTagValue64Bytes *)
Theorem raw64_spec s lo hi :
  raw64 s = (lo, hi, true) <->
  exists v, numeral_noplus s v /\ - two63 <= v <= two64 - 1 /\ lo = i32 v /\ hi = i32 (v / two32).
Proof.
  unfold raw64, numeral_noplus. split.
  - destruct s as [|c t]; [discriminate|]. destruct (c =? 45) eqn:C45.
    + zb. subst c. destruct (parse_int (45 :: t)) as [i e] eqn:P. intros E. inversion E as [[E1 E2 E3]]; clear E.
      destruct e; try discriminate. apply parse_int_ok in P. destruct P as [[ds [DS H]] R].
      exists i. split; [|split; [unfold two63, two64 in *|split; reflexivity]].
      * exists ds. split; [exact DS|]. right.
        destruct H as [[E _]|[[E _]|[E V]]].
        -- rewrite <- E in DS. destruct (digit_string_head _ _ DS). congruence.
        -- discriminate.
        -- split; [exact E|exact V].
      * destruct H as [[E _]|[[E _]|[E V]]].
        -- rewrite <- E in DS. destruct (digit_string_head _ _ DS). congruence.
        -- discriminate.
        -- pose proof (digits_val_nonneg ds (proj2 DS)). lia.
    + destruct (parse_uint (c :: t)) as [u e] eqn:P. intros E. inversion E as [[E1 E2 E3]]; clear E.
      destruct e; try discriminate. apply parse_uint_ok in P. destruct P as [DS [Eu L]].
      pose proof (digits_val_nonneg _ (proj2 DS)) as NN.
      exists u. split; [|split; [unfold two63, two64 in *; lia|split; reflexivity]].
      exists (c :: t). split; [exact DS|]. left. split; [reflexivity|exact Eu].
  - intros [v [[ds [DS [[-> ->]|[-> ->]]]] [R [-> ->]]]]; pose proof (digits_val_nonneg ds (proj2 DS)) as NN.
    + destruct ds as [|c t] eqn:Ed; [destruct DS; congruence|].
      destruct (digit_string_head c t DS) as [_ N2].
      replace (c =? 45) with false by (symmetry; apply Z.eqb_neq; exact N2).
      rewrite (proj2 (parse_uint_ok (c :: t) (digits_val (c :: t)))); [reflexivity|].
      split; [exact DS|]. split; [reflexivity|lia].
    + change (45 =? 45) with true. cbv iota.
      rewrite (proj2 (parse_int_ok (45 :: ds) (- digits_val ds))); [reflexivity|].
      split; [|unfold two63 in *; lia]. exists ds. split; [exact DS|]. right. right. split; reflexivity.
Qed.

Theorem raw64_accepts_iff s :
  snd (raw64 s) = true <-> exists v, numeral_noplus s v /\ - two63 <= v <= two64 - 1.
Proof.
  split.
  - destruct (raw64 s) as [[lo hi] b] eqn:E. simpl. intros ->. apply raw64_spec in E.
    destruct E as [v [N [R _]]]. exists v. auto.
  - intros [v [N R]]. rewrite (proj2 (raw64_spec s (i32 v) (i32 (v / two32)))); [reflexivity|]. exists v. auto.
Qed.

(* the 64-bit pattern held by the two stored int32 halves *)
Definition bits64 (lo hi : Z) : Z := u32 lo + two32 * u32 hi.

Theorem raw64_bits_roundtrip s v : numeral_noplus s v -> - two63 <= v <= two64 - 1 ->
  let '(lo, hi, ok) := raw64 s in
  ok = true /\ (v < 0 -> i64 (bits64 lo hi) = v) /\ (0 <= v -> bits64 lo hi = v).
Proof.
  intros N R. rewrite (proj2 (raw64_spec s (i32 v) (i32 (v / two32)))) by (exists v; auto).
  split; [reflexivity|]. unfold bits64. rewrite !u32_i32. unfold u32, i64, two32, two63, two64 in *.
  assert (B : v mod 4294967296 + 4294967296 * ((v / 4294967296) mod 4294967296) = v mod 18446744073709551616) by lia.
  rewrite B. split.
  - intros Neg. rewrite Z.mod_mod by lia.
    replace (v mod 18446744073709551616) with (v + 18446744073709551616) by lia.
    replace (v + 18446744073709551616 <? 9223372036854775808) with false by (symmetry; apply Z.ltb_ge; lia). lia.
  - intros Pos. apply Z.mod_small. lia.
Qed.

(* the explicit plus sign: accepted by 32-bit raw tags, rejected by 64-bit raw tags *)
Lemma plus_sign_difference : snd (raw32 [43; 53]) = true /\ snd (raw64 [43; 53]) = false.
Proof. vm_compute. auto. Qed.
