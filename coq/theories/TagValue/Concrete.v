(* C11 - the generic theorems instantiated with the unicode tables of the Go runtime in use
   (Gen/TagValueUnicode.v); the four facts about unicode.IsSpace/IsPrint are discharged by computation. *)
From Coq Require Import ZArith List Bool Lia.
From SH Require Import Common.Wrap Gen.TagValueUnicode TagValue.Model TagValue.Spec TagValue.Utf8 TagValue.Proofs.
Import ListNotations.
Open Scope Z_scope.

Lemma sweep (P : Z -> bool) n :
  forallb P (map Z.of_nat (seq 0 n)) = true -> forall c, 0 <= c < Z.of_nat n -> P c = true.
Proof.
  intros H c Hc. rewrite forallb_forall in H. apply H. apply in_map_iff. exists (Z.to_nat c).
  split; [lia|]. apply in_seq. lia.
Qed.

Lemma is_ascii_print c : 0 <= c <= 127 -> is_print c = byte_print c.
Proof.
  intros H. apply eqb_prop. apply (sweep (fun c => Bool.eqb (is_print c) (byte_print c)) 128); [vm_compute; reflexivity|lia].
Qed.

Lemma is_ascii_space c : 33 <= c <= 126 -> is_space c = false.
Proof.
  intros H. apply negb_true_iff.
  pose proof (sweep (fun c => negb (in_rng 33 126 c) || negb (is_space c)) 128 ltac:(vm_compute; reflexivity) c ltac:(lia)) as S.
  cbv beta in S. replace (in_rng 33 126 c) with true in S; [exact S|].
  symmetry. unfold in_rng. apply andb_true_intro. split; apply Z.leb_le; lia.
Qed.

Lemma is_space_32 : is_space 32 = true.
Proof. vm_compute. reflexivity. Qed.

Lemma is_fffd : is_print rune_error = true /\ is_space rune_error = false.
Proof. vm_compute. auto. Qed.

Notation VV := (valid_value is_space is_print).
Notation VI := (valid_int is_space is_print).

Lemma vi_vv s : VI s <-> VV s.
Proof. apply valid_int_value. Qed.

Ltac hyps := first [exact is_ascii_print | exact is_ascii_space | exact is_space_32 | exact is_fffd | assumption].

Lemma fstr_eq s : bytes s -> force_str s = force_bytes s.
Proof. intros B. apply force_str_eq_bytes; hyps. Qed.
Lemma fbytes_valid s : bytes s -> VI (force_bytes s).
Proof. intros B. apply force_bytes_valid; hyps. Qed.
Lemma fbytes_id s : VI s -> force_bytes s = s.
Proof. intros V. apply (force_bytes_id is_space is_print); hyps. Qed.
Lemma vi_bytes s : VI s -> bytes s.
Proof. apply valid_int_bytes. Qed.

Theorem force_valid s : bytes s -> VV (force_bytes s) /\ VV (force_str s).
Proof.
  intros B. assert (V : VV (force_bytes s)) by (apply vi_vv, fbytes_valid, B).
  split; [exact V|]. rewrite (fstr_eq s B). exact V.
Qed.

Theorem force_id_on_valid s : VV s -> force_bytes s = s /\ force_str s = s.
Proof.
  intros V. apply vi_vv in V. pose proof (fbytes_id s V) as E. split; [exact E|].
  rewrite (fstr_eq s (vi_bytes s V)). exact E.
Qed.

Theorem force_idempotent s : bytes s ->
  force_bytes (force_bytes s) = force_bytes s /\ force_str (force_str s) = force_str s.
Proof.
  intros B. destruct (force_valid s B) as [V1 V2].
  split; [apply (force_id_on_valid _ V1)|apply (force_id_on_valid _ V2)].
Qed.

Theorem valid_decides s : bytes s -> (valid s = true <-> VV s).
Proof.
  intros B. rewrite <- vi_vv. apply valid_g_iff; hyps.
Qed.

Theorem strict_fails_only_on_bad_utf8_c s : append_valid false s = None -> ~ is_utf8 s.
Proof. apply strict_fails_only_on_bad_utf8. Qed.

Theorem strict_agrees_with_force_c s o : append_valid false s = Some o ->
  force_bytes s = o /\ (bytes s -> force_str s = o).
Proof.
  intros E. pose proof (strict_agrees_with_force is_space is_print s o E) as F. split; [exact F|].
  intros B. rewrite (fstr_eq s B). exact F.
Qed.

(* strict normalisation of well-formed UTF-8 never fails and yields the forced value *)
Theorem strict_total_on_utf8 s : is_utf8 s -> append_valid false s = Some (force_bytes s).
Proof.
  intros U. destruct (append_valid false s) as [o|] eqn:E.
  - f_equal. symmetry. apply (strict_agrees_with_force is_space is_print s o E).
  - exfalso. exact (strict_fails_only_on_bad_utf8 is_space is_print s E U).
Qed.
